package main

// C16 — CMS structures survive parse/re-encode bit-exactly (lib/pkcs7, lib/pkcs9).
//
// What is tied here: the ASN.1 layout of every pkcs7 struct that takes part in Unmarshal/Marshal (field order, Go type,
// and the asn1 struct-tag parameters optional/explicit/set/tag/default), the object identifiers, the constants and branch
// conditions of marshalUnsortedSet / AuthenticatedAttributesBytes / SignatureBuilder.Sign / Unmarshal / appendAttr /
// NewContentInfo, the attribute additions made by Sign (in source order), and the statements that embed a timestamp token.

import (
	"fmt"
	"go/ast"
	"go/parser"
	"go/token"
	"os/exec"
	"path/filepath"
	"runtime"
	"reflect"
	"strconv"
	"strings"
)

func init() {
	selectorConsts["asn1.TagSequence"] = cval{i: 16}
	selectorConsts["asn1.TagSet"] = cval{i: 17}
	selectorConsts["asn1.TagOctetString"] = cval{i: 4}
	selectorConsts["asn1.TagOID"] = cval{i: 6}
	selectorConsts["asn1.TagInteger"] = cval{i: 2}
	selectorConsts["asn1.ClassUniversal"] = cval{i: 0}
	selectorConsts["asn1.ClassApplication"] = cval{i: 1}
	selectorConsts["asn1.ClassContextSpecific"] = cval{i: 2}
	selectorConsts["asn1.ClassPrivate"] = cval{i: 3}
}

// c16Struct emits the asn1 layout of a Go struct: names and printed types in declaration order and, per field, the
// parameters encoding/asn1 derives from the struct tag (same parsing rules as asn1.parseFieldParameters).
func c16Struct(o *out, dir, goName, prefix string) {
	p, st := findStruct(dir, goName)
	if st == nil {
		o.brokenDef(prefix+"_fields", "struct "+dir+"."+goName+" not found")
		return
	}
	var names, types []string
	idx := 0
	for _, fl := range st.Fields.List {
		ty := printNode(p.fset, fl.Type)
		tag := ""
		if fl.Tag != nil {
			raw, err := strconv.Unquote(fl.Tag.Value)
			if err == nil {
				tag = reflect.StructTag(raw).Get("asn1")
			}
		}
		fnames := []string{"_"}
		if len(fl.Names) > 0 {
			fnames = nil
			for _, n := range fl.Names {
				fnames = append(fnames, n.Name)
			}
		}
		for _, n := range fnames {
			optional, explicit, set, application, private := false, false, false, false, false
			tagNo, hasDef, def := int64(-1), false, int64(0)
			for _, part := range strings.Split(tag, ",") {
				switch {
				case part == "optional":
					optional = true
				case part == "explicit":
					explicit = true
					if tagNo < 0 {
						tagNo = 0
					}
				case part == "set":
					set = true
				case part == "application":
					application = true
				case part == "private":
					private = true
				case strings.HasPrefix(part, "default:"):
					if v, err := strconv.ParseInt(part[8:], 10, 64); err == nil {
						hasDef, def = true, v
					}
				case strings.HasPrefix(part, "tag:"):
					if v, err := strconv.Atoi(part[4:]); err == nil {
						tagNo = int64(v)
					}
				}
			}
			q := prefix + "_" + n
			o.f("Definition %s_idx : Z := %d.\n", q, idx)
			o.f("Definition %s_opt : bool := %v.\nDefinition %s_explicit : bool := %v.\nDefinition %s_set : bool := %v.\n", q, optional, q, explicit, q, set)
			o.f("Definition %s_tag : Z := %d.\nDefinition %s_hasdef : bool := %v.\nDefinition %s_default : Z := %d.\n", q, tagNo, q, hasDef, q, def)
			o.f("Definition %s_otherclass : bool := %v.\n", q, application || private)
			names = append(names, n)
			types = append(types, ty)
			idx++
		}
	}
	var nl, tl []string
	for i := range names {
		nl = append(nl, bytesLit([]byte(names[i])))
		tl = append(tl, bytesLit([]byte(types[i])))
	}
	o.f("Definition %s_fields : list (list Z) := [%s]. (* %s.%s: %s *)\n", prefix, strings.Join(nl, "; "), dir, goName, strings.Join(names, ","))
	o.f("Definition %s_types : list (list Z) := [%s]. (* %s *)\n", prefix, strings.Join(tl, "; "), strings.Join(types, " | "))
}

// c16NamedType emits the printed underlying type of `type Name X`.
func c16NamedType(o *out, dir, goName, coqName string) {
	p := loadPkg(dir)
	for _, f := range p.files {
		for _, d := range f.Decls {
			gd, ok := d.(*ast.GenDecl)
			if !ok || gd.Tok != token.TYPE {
				continue
			}
			for _, s := range gd.Specs {
				ts := s.(*ast.TypeSpec)
				if ts.Name.Name == goName {
					ty := printNode(p.fset, ts.Type)
					o.f("Definition %s : list Z := %s. (* type %s %s *)\n", coqName, bytesLit([]byte(ty)), goName, ty)
					// encoding/asn1 treats a slice type whose NAME ends in SET as SET OF
					o.f("Definition %s_name_is_set : bool := %v.\n", coqName, strings.HasSuffix(goName, "SET"))
					return
				}
			}
		}
	}
	o.brokenDef(coqName, "type "+dir+"."+goName+" not found")
}

// c16Oid emits the arcs of `var Name = asn1.ObjectIdentifier{...}`.
func c16Oid(o *out, dir, goName, coqName string) {
	ce, _, _, _ := findConstExpr(dir, goName)
	cl, ok := ce.(*ast.CompositeLit)
	if ce == nil || !ok {
		o.brokenDef(coqName, "object identifier "+dir+"."+goName+" not found")
		return
	}
	var arcs []string
	for _, e := range cl.Elts {
		v, err := evalConst(dir, e, 0)
		if err != nil || v.isFloat {
			o.brokenDef(coqName, "object identifier "+goName+" has a non-literal arc")
			return
		}
		arcs = append(arcs, strconv.FormatInt(v.i, 10))
	}
	o.f("Definition %s : list Z := [%s]. (* %s.%s *)\n", coqName, strings.Join(arcs, "; "), dir, goName)
}

// c16Composite: in function fn find the nth composite literal whose printed type is typ and emit one constant per
// requested key (integer constant expressions and true/false only).
func c16Composite(o *out, dir, recv, fn, typ string, nth int, prefix string, keys []string) {
	p, fd := findFunc(dir, recv, fn)
	if fd == nil {
		o.brokenDef(prefix, "function "+dir+":"+recv+"."+fn+" not found")
		return
	}
	var found *ast.CompositeLit
	k := 0
	ast.Inspect(fd.Body, func(n ast.Node) bool {
		if found != nil {
			return false
		}
		if cl, ok := n.(*ast.CompositeLit); ok && cl.Type != nil && printNode(p.fset, cl.Type) == typ {
			if k == nth {
				found = cl
				return false
			}
			k++
		}
		return true
	})
	if found == nil {
		o.brokenDef(prefix, fmt.Sprintf("no composite literal #%d of type %s in %s", nth, typ, fn))
		return
	}
	vals := map[string]ast.Expr{}
	var present []string
	for _, e := range found.Elts {
		if kv, ok := e.(*ast.KeyValueExpr); ok {
			key := printNode(p.fset, kv.Key)
			vals[key] = kv.Value
			present = append(present, key)
		}
	}
	for _, key := range keys {
		name := prefix + "_" + key
		e, ok := vals[key]
		if !ok {
			o.brokenDef(name, "key "+key+" not present in "+typ+" literal of "+fn)
			continue
		}
		if id, ok := e.(*ast.Ident); ok && (id.Name == "true" || id.Name == "false") {
			o.f("Definition %s : bool := %s. (* %s:%s.%s %s{%s: ...} *)\n", name, id.Name, dir, recv, fn, typ, key)
			continue
		}
		v, err := evalConst(dir, e, 0)
		if err != nil || v.isFloat {
			o.brokenDef(name, fmt.Sprintf("value of key %s is not an integer constant (%v)", key, err))
			continue
		}
		o.f("Definition %s : Z := %d. (* %s:%s.%s %s{%s: %s} *)\n", name, v.i, dir, recv, fn, typ, key, printNode(p.fset, e))
	}
	var pl []string
	for _, k := range present {
		pl = append(pl, bytesLit([]byte(k)))
	}
	o.f("Definition %s_keys : list (list Z) := [%s]. (* keys present: %s *)\n", prefix, strings.Join(pl, "; "), strings.Join(present, ","))
}

// c16MaskTest: the statement `if X[0]&MASK != CONST { ... }` and `X[0] |= OR` of marshalUnsortedSet.
func c16MaskTest(o *out, dir, recv, fn, prefix string) {
	p, fd := findFunc(dir, recv, fn)
	if fd == nil {
		o.brokenDef(prefix, "function "+dir+":"+recv+"."+fn+" not found")
		return
	}
	gotTest, gotOr := false, false
	ast.Inspect(fd.Body, func(n ast.Node) bool {
		switch x := n.(type) {
		case *ast.IfStmt:
			be, ok := x.Cond.(*ast.BinaryExpr)
			if !ok || gotTest {
				return true
			}
			and, ok := be.X.(*ast.BinaryExpr)
			if !ok || and.Op != token.AND {
				return true
			}
			ix, ok := and.X.(*ast.IndexExpr)
			if !ok {
				return true
			}
			iv, err0 := evalConst(dir, ix.Index, 0)
			mv, err1 := evalConst(dir, and.Y, 0)
			cv, err2 := evalConst(dir, be.Y, 0)
			if err0 != nil || err1 != nil || err2 != nil {
				return true
			}
			op := 0
			switch be.Op {
			case token.NEQ:
				op = 1
			case token.EQL:
				op = 2
			}
			o.f("Definition %s_index : Z := %d.\nDefinition %s_mask : Z := %d.\nDefinition %s_expect : Z := %d.\nDefinition %s_op : Z := %d. (* 1: != rejects ; 2: == *)\n",
				prefix, iv.i, prefix, mv.i, prefix, cv.i, prefix, op)
			o.f("(* from %s:%s.%s : if %s *)\n", dir, recv, fn, printNode(p.fset, x.Cond))
			gotTest = true
		case *ast.AssignStmt:
			if x.Tok == token.OR_ASSIGN && len(x.Rhs) == 1 && !gotOr {
				if ix, ok := x.Lhs[0].(*ast.IndexExpr); ok {
					iv, err0 := evalConst(dir, ix.Index, 0)
					v, err := evalConst(dir, x.Rhs[0], 0)
					if err == nil && err0 == nil {
						o.f("Definition %s_or_index : Z := %d.\nDefinition %s_or : Z := %d. (* %s *)\n", prefix, iv.i, prefix, v.i, printNode(p.fset, x))
						gotOr = true
					}
				}
			}
		}
		return true
	})
	if !gotTest {
		o.brokenDef(prefix+"_mask", "no `x[i]&mask != const` test in "+fn)
	}
	if !gotOr {
		o.brokenDef(prefix+"_or", "no `x[i] |= const` statement in "+fn)
	}
}

// c16IndexOf: the constant index in `lhs := arr[K]`.
func c16IndexOf(o *out, dir, recv, fn, lhs, coqName string) {
	p, fd := findFunc(dir, recv, fn)
	if fd == nil {
		o.brokenDef(coqName, "function "+dir+":"+recv+"."+fn+" not found")
		return
	}
	done := false
	ast.Inspect(fd.Body, func(n ast.Node) bool {
		as, ok := n.(*ast.AssignStmt)
		if !ok || done || len(as.Lhs) != 1 || len(as.Rhs) != 1 || printNode(p.fset, as.Lhs[0]) != lhs {
			return true
		}
		if ix, ok := as.Rhs[0].(*ast.IndexExpr); ok {
			if v, err := evalConst(dir, ix.Index, 0); err == nil {
				o.f("Definition %s : Z := %d. (* %s:%s.%s : %s *)\n", coqName, v.i, dir, recv, fn, printNode(p.fset, as))
				o.f("Definition %s_of : list Z := %s.\n", coqName, bytesLit([]byte(printNode(p.fset, ix.X))))
				done = true
			}
		}
		return true
	})
	if !done {
		o.brokenDef(coqName, "no `"+lhs+" := x[const]` in "+fn)
	}
}

// c16Adds: every call `<recvExpr>.Add(A, B)` in the function, in source order, as pairs of small codes.
func c16Adds(o *out, dir, recv, fn, callee, coqName string, oidCodes, valCodes map[string]int) {
	p, fd := findFunc(dir, recv, fn)
	if fd == nil {
		o.brokenDef(coqName, "function "+dir+":"+recv+"."+fn+" not found")
		return
	}
	var items, txt []string
	ast.Inspect(fd.Body, func(n ast.Node) bool {
		ce, ok := n.(*ast.CallExpr)
		if !ok || len(ce.Args) != 2 || printNode(p.fset, ce.Fun) != callee {
			return true
		}
		a, b := printNode(p.fset, ce.Args[0]), printNode(p.fset, ce.Args[1])
		ac, ok1 := oidCodes[a]
		bc, ok2 := valCodes[b]
		if !ok1 {
			ac = 99
		}
		if !ok2 {
			bc = 99
		}
		items = append(items, fmt.Sprintf("(%d, %d)", ac, bc))
		txt = append(txt, a+" <- "+b)
		return true
	})
	o.f("Definition %s : list (Z * Z) := [%s]. (* %s:%s.%s : %s *)\n", coqName, strings.Join(items, "; "), dir, recv, fn, strings.Join(txt, " ; "))
}

func init() {
	generators["C16_gen"] = func(o *out) {
		const d = "lib/pkcs7"
		const d9 = "lib/pkcs9"
		// ---- layouts
		c16Struct(o, d, "ContentInfoSignedData", "CISD")
		c16Struct(o, d, "SignedData", "SD")
		c16Struct(o, d, "ContentInfo", "CI")
		c16Struct(o, d, "contentInfo2", "CI2")
		c16Struct(o, d, "SignerInfo", "SI")
		c16Struct(o, d, "IssuerAndSerial", "IAS")
		c16Struct(o, d, "Attribute", "ATTR")
		c16NamedType(o, d, "RawCertificates", "RawCertificates_type")
		c16NamedType(o, d, "AttributeList", "AttributeList_type")
		// ---- object identifiers
		c16Oid(o, d, "OidData", "oid_data")
		c16Oid(o, d, "OidSignedData", "oid_signed_data")
		c16Oid(o, d, "OidAttributeContentType", "oid_attr_content_type")
		c16Oid(o, d, "OidAttributeMessageDigest", "oid_attr_message_digest")
		c16Oid(o, d, "OidAttributeSigningTime", "oid_attr_signing_time")
		c16Oid(o, d9, "OidAttributeTimeStampToken", "oid_attr_timestamp_token")
		c16Oid(o, d9, "OidSpcTimeStampToken", "oid_spc_timestamp_token")
		c16Oid(o, d9, "OidAttributeCounterSign", "oid_attr_counter_sign")
		// ---- Unmarshal: trailing data rule
		o.condOf(funcSpec{dir: d, recv: "", name: "Unmarshal", coqName: "unmarshal_trailing_garbage",
			params: "(trim_right : list Z -> list Z -> list Z) (rest : list Z)", retType: "bool",
			leaves: map[string]string{"rest": "rest"}, types: map[string]string{"rest": "bytes"},
			calls: map[string]string{"len": "zlen", "bytes.TrimRight": "trim_right"}}, "TrimRight")
		// ---- marshalUnsortedSet
		o.condOf(funcSpec{dir: d, recv: "", name: "marshalUnsortedSet", coqName: "mus_nonempty",
			params: "(n : Z)", retType: "bool", leaves: map[string]string{"len(encoded)": "n"}}, "len(encoded)")
		c16MaskTest(o, d, "", "marshalUnsortedSet", "mus")
		// ---- AuthenticatedAttributesBytes
		nilLeaves := map[string]string{"i.RawContent": "raw_nonnil", "nil": "false", "len(seq)": "n", "sb.authAttrs": "attrs_nonnil", "sb.digest": "digest_nonnil"}
		nilTypes := map[string]string{"i.RawContent": "bool", "sb.authAttrs": "bool", "sb.digest": "bool"}
		o.condOf(funcSpec{dir: d, recv: "SignerInfo", name: "AuthenticatedAttributesBytes", coqName: "aab_use_fields",
			params: "(raw_nonnil : bool)", retType: "bool", leaves: nilLeaves, types: nilTypes}, "i.RawContent")
		o.condOf(funcSpec{dir: d, recv: "SignerInfo", name: "AuthenticatedAttributesBytes", coqName: "aab_short",
			params: "(n : Z)", retType: "bool", leaves: nilLeaves, types: nilTypes}, "len(seq)")
		c16IndexOf(o, d, "SignerInfo", "AuthenticatedAttributesBytes", "raw", "aab_index")
		c16Composite(o, d, "SignerInfo", "AuthenticatedAttributesBytes", "asn1.RawValue", 0, "aab_rv", []string{"Tag", "IsCompound"})
		// ---- appendAttr / NewContentInfo raw values
		c16Composite(o, d, "", "appendAttr", "asn1.RawValue", 0, "attr_rv", []string{"Class", "Tag", "IsCompound"})
		c16Composite(o, d, "", "NewContentInfo", "asn1.RawValue", 0, "ci_rv", []string{"Class", "Tag", "IsCompound"})
		// ---- SignatureBuilder.Sign
		o.condOf(funcSpec{dir: d, recv: "SignatureBuilder", name: "Sign", coqName: "sign_no_content",
			params: "(digest_nonnil : bool)", retType: "bool", leaves: nilLeaves, types: nilTypes}, "sb.digest")
		o.condOf(funcSpec{dir: d, recv: "SignatureBuilder", name: "Sign", coqName: "sign_with_attrs",
			params: "(attrs_nonnil : bool)", retType: "bool", leaves: nilLeaves, types: nilTypes}, "sb.authAttrs")
		c16Adds(o, d, "SignatureBuilder", "Sign", "sb.authAttrs.Add", "sign_adds",
			map[string]int{"OidAttributeContentType": 1, "OidAttributeMessageDigest": 2},
			map[string]int{"sb.contentInfo.ContentType": 1, "sb.digest": 2})
		c16Composite(o, d, "SignatureBuilder", "Sign", "SignedData", 0, "sign_sd", []string{"Version"})
		c16SignerLiteral(o, d)
		// ---- Detach, timestamp embedding
		o.hasStmt(d, "ContentInfoSignedData", "Detach", "psd.Content.ContentInfo, _ = NewContentInfo(psd.Content.ContentInfo.ContentType, nil)", "detach_clears_content")
		o.hasStmt(d9, "", "AddStampToSignedData", "return signerInfo.UnauthenticatedAttributes.Add(OidAttributeTimeStampToken, token)", "stamp_cms_is_unauth_add")
		o.hasStmt(d9, "", "AddStampToSignedAuthenticode", "return signerInfo.UnauthenticatedAttributes.Add(OidSpcTimeStampToken, token)", "stamp_spc_is_unauth_add")
		o.callOrder(d9, "", "TimestampAndMarshal", "tsm_order", []string{"Timestamp", "AddStampToSignedAuthenticode", "AddStampToSignedData", "Verify", "VerifyOptionalTimestamp", "Marshal"})
		o.hasStmt(d, "ContentInfoSignedData", "Marshal", "return asn1.Marshal(*psd)", "marshal_is_asn1")
		for _, f := range [][2]string{{"", "Unmarshal"}, {"ContentInfoSignedData", "Marshal"}, {"ContentInfoSignedData", "Detach"}, {"", "marshalCertificates"},
			{"", "NewContentInfo"}, {"ContentInfo", "Unmarshal"}, {"ContentInfo", "Bytes"}, {"AttributeList", "Bytes"}, {"", "marshalUnsortedSet"},
			{"AttributeList", "Add"}, {"", "appendAttr"}, {"AttributeList", "GetOne"}, {"SignerInfo", "AuthenticatedAttributesBytes"},
			{"SignatureBuilder", "Sign"}, {"SignatureBuilder", "SetContentInfo"}, {"SignatureBuilder", "SetDetachedContent"},
			{"SignatureBuilder", "AddAuthenticatedAttribute"}, {"SignerInfo", "Verify"}, {"SignedData", "Verify"}} {
			fingerprint(d, f[0], f[1])
		}
		fingerprint(d9, "", "TimestampAndMarshal")
		fingerprint(d9, "", "AddStampToSignedData")
		fingerprint(d9, "", "AddStampToSignedAuthenticode")
	}
}

// c16SignerLiteral: the SignerInfo literal inside Sign (an element of a []SignerInfo literal has no explicit type): which
// keys it sets, and its Version.
func c16SignerLiteral(o *out, d string) {
	p, fd := findFunc(d, "SignatureBuilder", "Sign")
	if fd == nil {
		o.brokenDef("sign_si_Version", "Sign not found")
		return
	}
	done := false
	ast.Inspect(fd.Body, func(n ast.Node) bool {
		cl, ok := n.(*ast.CompositeLit)
		if !ok || done || cl.Type == nil || printNode(p.fset, cl.Type) != "[]SignerInfo" || len(cl.Elts) != 1 {
			return true
		}
		el, ok := cl.Elts[0].(*ast.CompositeLit)
		if !ok {
			return true
		}
		var keys, pairs []string
		for _, e := range el.Elts {
			kv, ok := e.(*ast.KeyValueExpr)
			if !ok {
				continue
			}
			k := printNode(p.fset, kv.Key)
			keys = append(keys, bytesLit([]byte(k)))
			pairs = append(pairs, k+"="+strings.Join(strings.Fields(printNode(p.fset, kv.Value)), " "))
			if k == "Version" {
				if v, err := evalConst(d, kv.Value, 0); err == nil {
					o.f("Definition sign_si_Version : Z := %d.\n", v.i)
				}
			}
			if k == "AuthenticatedAttributes" {
				o.f("Definition sign_si_auth_is_builder_attrs : bool := %v.\n", printNode(p.fset, kv.Value) == "sb.authAttrs")
			}
		}
		o.f("Definition sign_si_keys : list (list Z) := [%s]. (* %s *)\n", strings.Join(keys, "; "), strings.Join(pairs, " ; "))
		done = true
		return false
	})
	if !done {
		o.brokenDef("sign_si_Version", "no []SignerInfo{{...}} literal in Sign")
	}
}

// ================================================================== deep embedding of statement-level code
//
// The functions that decide WHICH byte string is digested and checked against a signature ((*SignerInfo).Verify,
// AuthenticatedAttributesBytes, pkcs9.Verify, finishVerify, MessageImprint.Verify) are translated statement by statement
// into a Gallina term of type `list gstmt` (abstract syntax defined in the generated file itself).  The model
// (coq/C16/VModel.v) INTERPRETS that term; the theorems are about the interpretation.  Nothing is pattern-matched away:
// every operator, operand, call, argument order, branch and early return of the Go body is part of the term, constructs the
// translator does not know become GOther / GStmtOther nodes (the interpreter answers "unknown" when it reaches one).
// Local variables are alpha-renamed (one name per declaration, Go's block scoping resolved here) so that the interpreter
// can use a flat store.

const c16AstPreamble = `
(* ---- abstract syntax of the translated Go bodies (names are byte strings) *)
Inductive gexpr : Type :=
| GVar (n : list Z)                          (* local variable, parameter or receiver; one name per declaration *)
| GGlobal (n : list Z)                       (* package-level identifier, or pkg.Name *)
| GNil
| GBool (b : bool)
| GInt (z : Z)
| GStr (s : list Z)
| GSel (e : gexpr) (f : list Z)              (* e.f *)
| GIndex (e i : gexpr)                       (* e[i] *)
| GCall (fn : list Z) (args : list gexpr)    (* f(args) / pkg.F(args) / builtin; a trailing "..." marks a spread last argument *)
| GMeth (recv : gexpr) (m : list Z) (args : list gexpr)   (* recv.m(args) *)
| GNot (e : gexpr)
| GAddr (e : gexpr)                          (* &e *)
| GDeref (e : gexpr)                         (* *e *)
| GBin (op : Z) (a b : gexpr)                (* 1 && 2 || 3 == 4 != 5 < 6 <= 7 > 8 >= 9 + 10 - 11 & 12 | *)
| GLit (ty : list Z) (fields : list (list Z * gexpr))     (* T{k: v, ...} *)
| GZero (ty : list Z)                        (* zero value of a declared type (var x T) *)
| GTypeAssert (e : gexpr) (ty : list Z)      (* e.(T), used in the comma-ok form *)
| GOther (text : list Z).                    (* anything else, verbatim *)
Inductive gstmt : Type :=
| GAssign (lhs : list (list Z)) (rhs : gexpr)    (* x, y := e  and  x, y = e ; "_" is the blank identifier *)
| GStore (lhs : gexpr) (rhs : gexpr)             (* e.f = r, e[i] = r *)
| GExpr (e : gexpr)
| GIf (init : list gstmt) (c : gexpr) (t e : list gstmt)
| GReturn (es : list gexpr)
| GStmtOther (text : list Z).
`

type gscope struct {
	vars   map[string]string
	parent *gscope
}

func (s *gscope) lookup(n string) (string, bool) {
	for c := s; c != nil; c = c.parent {
		if u, ok := c.vars[n]; ok {
			return u, true
		}
	}
	return "", false
}

type gtr struct {
	fset *token.FileSet
	used map[string]int
}

func (g *gtr) declare(sc *gscope, name string) string {
	if name == "_" {
		return "_"
	}
	g.used[name]++
	u := name
	if g.used[name] > 1 {
		u = fmt.Sprintf("%s'%d", name, g.used[name])
	}
	sc.vars[name] = u
	return u
}

func gname(s string) string { return bytesLit([]byte(s)) }

func (g *gtr) text(n ast.Node) string {
	return strings.Join(strings.Fields(printNode(g.fset, n)), " ")
}

func (g *gtr) exprs(sc *gscope, es []ast.Expr) string {
	var parts []string
	for _, e := range es {
		parts = append(parts, g.expr(sc, e))
	}
	return "[" + strings.Join(parts, "; ") + "]"
}

var gBinOps = map[token.Token]int{token.LAND: 1, token.LOR: 2, token.EQL: 3, token.NEQ: 4, token.LSS: 5, token.LEQ: 6, token.GTR: 7,
	token.GEQ: 8, token.ADD: 9, token.SUB: 10, token.AND: 11, token.OR: 12}

func (g *gtr) expr(sc *gscope, e ast.Expr) string {
	switch x := e.(type) {
	case *ast.ParenExpr:
		return g.expr(sc, x.X)
	case *ast.Ident:
		switch x.Name {
		case "nil":
			return "GNil"
		case "true", "false":
			return "(GBool " + x.Name + ")"
		}
		if u, ok := sc.lookup(x.Name); ok {
			return "(GVar " + gname(u) + ")"
		}
		return "(GGlobal " + gname(x.Name) + ")"
	case *ast.BasicLit:
		switch x.Kind {
		case token.INT:
			if v, err := strconv.ParseInt(x.Value, 0, 64); err == nil {
				return fmt.Sprintf("(GInt %d)", v)
			}
		case token.STRING:
			if u, err := strconv.Unquote(x.Value); err == nil {
				return "(GStr " + gname(u) + ")"
			}
		case token.CHAR:
			if r, _, _, err := strconv.UnquoteChar(x.Value[1:len(x.Value)-1], '\''); err == nil {
				return fmt.Sprintf("(GInt %d)", r)
			}
		}
	case *ast.SelectorExpr:
		if id, ok := x.X.(*ast.Ident); ok {
			if _, local := sc.lookup(id.Name); !local {
				return "(GGlobal " + gname(id.Name+"."+x.Sel.Name) + ")"
			}
		}
		return "(GSel " + g.expr(sc, x.X) + " " + gname(x.Sel.Name) + ")"
	case *ast.IndexExpr:
		return "(GIndex " + g.expr(sc, x.X) + " " + g.expr(sc, x.Index) + ")"
	case *ast.StarExpr:
		return "(GDeref " + g.expr(sc, x.X) + ")"
	case *ast.TypeAssertExpr:
		if x.Type != nil {
			return "(GTypeAssert " + g.expr(sc, x.X) + " " + gname(g.text(x.Type)) + ")"
		}
	case *ast.UnaryExpr:
		switch x.Op {
		case token.NOT:
			return "(GNot " + g.expr(sc, x.X) + ")"
		case token.AND:
			return "(GAddr " + g.expr(sc, x.X) + ")"
		case token.SUB:
			if bl, ok := x.X.(*ast.BasicLit); ok && bl.Kind == token.INT {
				if v, err := strconv.ParseInt(bl.Value, 0, 64); err == nil {
					return fmt.Sprintf("(GInt (%d))", -v)
				}
			}
		}
	case *ast.BinaryExpr:
		if op, ok := gBinOps[x.Op]; ok {
			return fmt.Sprintf("(GBin %d %s %s)", op, g.expr(sc, x.X), g.expr(sc, x.Y))
		}
	case *ast.CallExpr:
		spread := ""
		if x.Ellipsis != token.NoPos {
			spread = "..."
		}
		switch f := x.Fun.(type) {
		case *ast.Ident:
			if _, local := sc.lookup(f.Name); !local {
				return "(GCall " + gname(f.Name+spread) + " " + g.exprs(sc, x.Args) + ")"
			}
		case *ast.SelectorExpr:
			if id, ok := f.X.(*ast.Ident); ok {
				if _, local := sc.lookup(id.Name); !local {
					return "(GCall " + gname(id.Name+"."+f.Sel.Name+spread) + " " + g.exprs(sc, x.Args) + ")"
				}
			}
			return "(GMeth " + g.expr(sc, f.X) + " " + gname(f.Sel.Name+spread) + " " + g.exprs(sc, x.Args) + ")"
		}
	case *ast.CompositeLit:
		ty := ""
		if x.Type != nil {
			ty = g.text(x.Type)
		}
		var fs []string
		for _, el := range x.Elts {
			if kv, ok := el.(*ast.KeyValueExpr); ok {
				fs = append(fs, "("+gname(g.text(kv.Key))+", "+g.expr(sc, kv.Value)+")")
			} else {
				fs = append(fs, "("+gname("")+", "+g.expr(sc, el)+")")
			}
		}
		return "(GLit " + gname(ty) + " [" + strings.Join(fs, "; ") + "])"
	}
	return "(GOther " + gname(g.text(e)) + ")"
}

func gZeroOf(ty string) string { return "(GZero " + gname(ty) + ")" }

func (g *gtr) block(sc *gscope, list []ast.Stmt) string {
	inner := &gscope{vars: map[string]string{}, parent: sc}
	var parts []string
	for _, s := range list {
		parts = append(parts, g.stmt(inner, s)...)
	}
	return "[" + strings.Join(parts, ";\n    ") + "]"
}

func (g *gtr) stmt(sc *gscope, s ast.Stmt) []string {
	other := func() []string { return []string{"GStmtOther " + gname(g.text(s))} }
	switch x := s.(type) {
	case *ast.ExprStmt:
		return []string{"GExpr " + g.expr(sc, x.X)}
	case *ast.ReturnStmt:
		return []string{"GReturn " + g.exprs(sc, x.Results)}
	case *ast.BlockStmt:
		return []string{"GIf [] (GBool true) " + g.block(sc, x.List) + " []"}
	case *ast.DeclStmt:
		gd, ok := x.Decl.(*ast.GenDecl)
		if !ok || gd.Tok != token.VAR {
			return other()
		}
		var out []string
		for _, sp := range gd.Specs {
			vs, ok := sp.(*ast.ValueSpec)
			if !ok {
				return other()
			}
			switch {
			case len(vs.Values) == 0 && vs.Type != nil:
				for _, n := range vs.Names {
					out = append(out, "GAssign ["+gname(g.declare(sc, n.Name))+"] "+gZeroOf(g.text(vs.Type)))
				}
			case len(vs.Values) == 1:
				rhs := g.expr(sc, vs.Values[0])
				var names []string
				for _, n := range vs.Names {
					names = append(names, gname(g.declare(sc, n.Name)))
				}
				out = append(out, "GAssign ["+strings.Join(names, "; ")+"] "+rhs)
			default:
				return other()
			}
		}
		return out
	case *ast.AssignStmt:
		if len(x.Rhs) != 1 || (x.Tok != token.DEFINE && x.Tok != token.ASSIGN) {
			return other()
		}
		rhs := g.expr(sc, x.Rhs[0]) // evaluated before the new names come into scope
		allIdent := true
		for _, l := range x.Lhs {
			if _, ok := l.(*ast.Ident); !ok {
				allIdent = false
			}
		}
		if !allIdent {
			if len(x.Lhs) == 1 && x.Tok == token.ASSIGN {
				return []string{"GStore " + g.expr(sc, x.Lhs[0]) + " " + rhs}
			}
			return other()
		}
		var names []string
		for _, l := range x.Lhs {
			n := l.(*ast.Ident).Name
			if n == "_" {
				names = append(names, gname("_"))
				continue
			}
			if x.Tok == token.DEFINE {
				if u, ok := sc.vars[n]; ok { // already declared in THIS scope: plain assignment
					names = append(names, gname(u))
				} else {
					names = append(names, gname(g.declare(sc, n)))
				}
			} else {
				u, ok := sc.lookup(n)
				if !ok {
					return other() // assignment to a package-level variable
				}
				names = append(names, gname(u))
			}
		}
		return []string{"GAssign [" + strings.Join(names, "; ") + "] " + rhs}
	case *ast.IfStmt:
		isc := &gscope{vars: map[string]string{}, parent: sc}
		init := "[]"
		if x.Init != nil {
			init = "[" + strings.Join(g.stmt(isc, x.Init), "; ") + "]"
		}
		cond := g.expr(isc, x.Cond)
		thenB := g.block(isc, x.Body.List)
		elseB := "[]"
		switch e := x.Else.(type) {
		case *ast.BlockStmt:
			elseB = g.block(isc, e.List)
		case *ast.IfStmt:
			elseB = "[" + strings.Join(g.stmt(isc, e), "; ") + "]"
		}
		return []string{"GIf " + init + "\n    " + cond + "\n    " + thenB + "\n    " + elseB}
	}
	return other()
}

// c16Prog emits `Definition <coqName> : list gstmt` for the body of a function, `<coqName>_params : list (list Z)` for the
// receiver (first) and parameter names, and fingerprints the function.
func c16Prog(o *out, dir, recv, fn, coqName string) {
	p, fd := findFunc(dir, recv, fn)
	if fd == nil || fd.Body == nil {
		o.brokenDef(coqName, "function "+dir+":"+recv+"."+fn+" not found")
		return
	}
	g := &gtr{fset: p.fset, used: map[string]int{}}
	sc := &gscope{vars: map[string]string{}}
	var params []string
	if fd.Recv != nil {
		for _, f := range fd.Recv.List {
			for _, n := range f.Names {
				params = append(params, gname(g.declare(sc, n.Name)))
			}
		}
	}
	for _, f := range fd.Type.Params.List {
		for _, n := range f.Names {
			params = append(params, gname(g.declare(sc, n.Name)))
		}
	}
	if fd.Type.Results != nil { // named results are variables too
		for _, f := range fd.Type.Results.List {
			for _, n := range f.Names {
				g.declare(sc, n.Name)
			}
		}
	}
	var parts []string
	for _, s := range fd.Body.List {
		parts = append(parts, g.stmt(sc, s)...)
	}
	o.f("(* %s:%s.%s *)\n", dir, recv, fn)
	o.f("Definition %s_params : list (list Z) := [%s].\n", coqName, strings.Join(params, "; "))
	o.b.WriteString("Definition " + coqName + " : list gstmt :=\n  [" + strings.Join(parts, ";\n   ") + "].\n")
	fingerprint(dir, recv, fn)
}

// c16ProgSplit: a function whose body is  <statements> ; for k, v := range COLL { BODY } ; <statements>.  The three statement
// lists are translated in one scope pass (names stay consistent); the loop itself is modelled by hand as a fold over COLL whose
// step is the interpretation of BODY.
func c16ProgSplit(o *out, dir, recv, fn, coqName string) {
	p, fd := findFunc(dir, recv, fn)
	if fd == nil || fd.Body == nil {
		o.brokenDef(coqName, "function "+dir+":"+recv+"."+fn+" not found")
		return
	}
	g := &gtr{fset: p.fset, used: map[string]int{}}
	sc := &gscope{vars: map[string]string{}}
	var params []string
	if fd.Recv != nil {
		for _, f := range fd.Recv.List {
			for _, n := range f.Names {
				params = append(params, gname(g.declare(sc, n.Name)))
			}
		}
	}
	for _, f := range fd.Type.Params.List {
		for _, n := range f.Names {
			params = append(params, gname(g.declare(sc, n.Name)))
		}
	}
	idx := -1
	for i, s := range fd.Body.List {
		if _, ok := s.(*ast.RangeStmt); ok {
			idx = i
			break
		}
	}
	if idx < 0 {
		o.brokenDef(coqName, "no top-level range loop in "+fn)
		return
	}
	var pre, post []string
	for _, s := range fd.Body.List[:idx] {
		pre = append(pre, g.stmt(sc, s)...)
	}
	rs := fd.Body.List[idx].(*ast.RangeStmt)
	coll := g.expr(sc, rs.X)
	lsc := &gscope{vars: map[string]string{}, parent: sc}
	var rv []string
	for _, e := range []ast.Expr{rs.Key, rs.Value} {
		if id, ok := e.(*ast.Ident); ok && rs.Tok == token.DEFINE {
			rv = append(rv, gname(g.declare(lsc, id.Name)))
		} else {
			rv = append(rv, gname("_"))
		}
	}
	body := g.block(lsc, rs.Body.List)
	for _, s := range fd.Body.List[idx+1:] {
		post = append(post, g.stmt(sc, s)...)
	}
	o.f("(* %s:%s.%s — split at its range loop *)\n", dir, recv, fn)
	o.f("Definition %s_params : list (list Z) := [%s].\n", coqName, strings.Join(params, "; "))
	o.b.WriteString("Definition " + coqName + "_pre : list gstmt :=\n  [" + strings.Join(pre, ";\n   ") + "].\n")
	o.b.WriteString("Definition " + coqName + "_range_over : gexpr := " + coll + ".\n")
	o.f("Definition %s_range_vars : list (list Z) := [%s].\n", coqName, strings.Join(rv, "; "))
	o.b.WriteString("Definition " + coqName + "_body : list gstmt :=\n  " + body + ".\n")
	o.b.WriteString("Definition " + coqName + "_post : list gstmt :=\n  [" + strings.Join(post, ";\n   ") + "].\n")
	fingerprint(dir, recv, fn)
}

func init() {
	prev := generators["C16_gen"]
	generators["C16_gen"] = func(o *out) {
		prev(o)
		const d = "lib/pkcs7"
		const d9 = "lib/pkcs9"
		o.b.WriteString(c16AstPreamble)
		c16Prog(o, d, "SignerInfo", "Verify", "prog_si_verify")
		c16Prog(o, d, "SignerInfo", "AuthenticatedAttributesBytes", "prog_aab")
		c16Prog(o, d, "AttributeList", "Bytes", "prog_attrs_bytes")
		c16Prog(o, d, "SignerInfo", "hasEmptyAuthenticatedAttributes", "prog_has_empty_attrs")
		c16Prog(o, d, "ContentInfo", "Bytes", "prog_ci_bytes")
		c16ProgSplit(o, d, "SignedData", "Verify", "prog_sd_verify")
		c16Prog(o, d9, "", "Verify", "prog_ts_verify")
		c16Prog(o, d9, "", "finishVerify", "prog_ts_finish")
		c16Prog(o, d9, "MessageImprint", "Verify", "prog_imprint_verify")
		// the loops around those bodies are hand-modelled; their conditions are translated
		fcLeaves := map[string]string{"cert.RawIssuer": "cert_issuer", "is.IssuerName.FullBytes": "si_issuer",
			"cert.SerialNumber.Cmp(is.SerialNumber)": "(serial_cmp cert_serial si_serial)"}
		o.f("Definition serial_cmp (a b : list Z) : Z := if list_eqb Z.eqb a b then 0 else 1. (* big.Int.Cmp on minimal two's-complement contents: 0 iff equal *)\n")
		o.condOf(funcSpec{dir: d, recv: "SignerInfo", name: "FindCertificate", coqName: "find_cert_match",
			params: "(cert_issuer cert_serial si_issuer si_serial : list Z)", retType: "bool", leaves: fcLeaves,
			types: map[string]string{"cert.RawIssuer": "bytes", "is.IssuerName.FullBytes": "bytes", "bytes.Equal()": "bool"},
			calls: map[string]string{"bytes.Equal": "list_eqb Z.eqb"}}, "if:cert.RawIssuer")
		goLeaves := map[string]string{"raw.Type.Equal(oid)": "type_equal", "len(rest)": "rest_len"}
		o.condOf(funcSpec{dir: d, recv: "AttributeList", name: "GetOne", coqName: "get_one_skip",
			params: "(type_equal : bool)", retType: "bool", leaves: goLeaves, types: map[string]string{"raw.Type.Equal(oid)": "bool"}}, "if:raw.Type")
		o.condOf(funcSpec{dir: d, recv: "AttributeList", name: "GetOne", coqName: "get_one_multiple",
			params: "(rest_len : Z)", retType: "bool", leaves: goLeaves}, "if:len(rest)")
		o.hasStmt(d, "AttributeList", "GetOne", "rest, err := asn1.Unmarshal(raw.Values.Bytes, dest)", "get_one_reads_values_bytes")
		o.hasStmt(d, "AttributeList", "GetOne", "return ErrNoAttribute{oid}", "get_one_missing_is_error")
		fingerprint(d, "SignerInfo", "FindCertificate")
	}
}

// ---- RSA-PSS parameters in CMS: the salt length DECLARED in the AlgorithmIdentifier (lib/x509tools/rsapss.go
// MarshalRSAPSSParameters) versus the salt length USED by the signer that lib/pkcs7 SignatureBuilder.Sign calls with the
// very same options (crypto/rsa.SignPSS of the toolchain the harness is built with, read from GOROOT).

// c16Segment translates the statements of fd.Body from the one printed as `first` up to (excluding) the first later
// statement whose printed text starts with `stopPrefix`; the value is `rest` evaluated after them.
func c16Segment(o *out, p *pkgInfo, fd *ast.FuncDecl, fs funcSpec, first, stopPrefix, rest string) {
	if fd == nil {
		o.brokenDef(fs.coqName, "function "+fs.dir+":"+fs.name+" not found")
		return
	}
	from, to := -1, -1
	for i, s := range fd.Body.List {
		txt := strings.Join(strings.Fields(printNode(p.fset, s)), " ")
		if from < 0 && txt == first {
			from = i
		} else if from >= 0 && strings.HasPrefix(txt, stopPrefix) {
			to = i
			break
		}
	}
	if from < 0 || to < 0 {
		o.brokenDef(fs.coqName, fmt.Sprintf("segment `%s` .. `%s` not found in %s", first, stopPrefix, fs.name))
		return
	}
	t := o.newTr(p, fs)
	body := t.stmts(fd.Body.List[from:to], rest)
	if t.err != nil {
		o.brokenDef(fs.coqName, t.err.Error())
		return
	}
	o.f("Definition %s %s : %s :=\n  %s.\n(* from %s:%s, statements %d..%d *)\n", fs.coqName, fs.params, fs.retType, body, fs.dir, fs.name, from, to-1)
}

func c16GorootPkg(rel string) *pkgInfo {
	p := &pkgInfo{fset: token.NewFileSet(), files: map[string]*ast.File{}}
	root := runtime.GOROOT()
	if out, err := exec.Command("go", "env", "GOROOT").Output(); err == nil && strings.TrimSpace(string(out)) != "" {
		root = strings.TrimSpace(string(out))
	}
	f, err := parser.ParseFile(p.fset, filepath.Join(root, "src", rel), nil, 0)
	if err != nil {
		broken = append(broken, "parse error GOROOT/"+rel+": "+err.Error())
		return p
	}
	p.files[filepath.Base(rel)] = f
	return p
}

func c16FuncIn(p *pkgInfo, name string) *ast.FuncDecl {
	for _, f := range p.files {
		for _, d := range f.Decls {
			if fd, ok := d.(*ast.FuncDecl); ok && fd.Recv == nil && fd.Name.Name == name && fd.Body != nil {
				return fd
			}
		}
	}
	return nil
}

func c16ConstIn(p *pkgInfo, name string) (int64, bool) {
	for _, f := range p.files {
		for _, d := range f.Decls {
			gd, ok := d.(*ast.GenDecl)
			if !ok || gd.Tok != token.CONST {
				continue
			}
			for _, sp := range gd.Specs {
				vs := sp.(*ast.ValueSpec)
				for i, n := range vs.Names {
					if n.Name == name && i < len(vs.Values) {
						txt := strings.ReplaceAll(printNode(p.fset, vs.Values[i]), " ", "")
						if v, err := strconv.ParseInt(txt, 0, 64); err == nil {
							return v, true
						}
					}
				}
			}
		}
	}
	return 0, false
}

func init() {
	prev := generators["C16_gen"]
	generators["C16_gen"] = func(o *out) {
		prev(o)
		o.f("\n(* ---- RSA-PSS salt length: declared (relic) vs used (crypto/rsa of the toolchain) ---- *)\n")
		std := c16GorootPkg("crypto/rsa/pss.go")
		zc := func(v int64) string {
			if v < 0 {
				return fmt.Sprintf("(%d)", v)
			}
			return fmt.Sprintf("%d", v)
		}
		leavesStd := map[string]string{"nil": "0", "ErrMessageTooLong": "1", "invalidSaltLenErr": "2"}
		for _, c := range []struct{ goName, coqName string }{{"PSSSaltLengthAuto", "pss_salt_auto"}, {"PSSSaltLengthEqualsHash", "pss_salt_equals_hash"}} {
			v, ok := c16ConstIn(std, c.goName)
			if !ok {
				o.brokenDef(c.coqName, "constant crypto/rsa."+c.goName+" not found")
				continue
			}
			o.f("Definition %s : Z := %s. (* crypto/rsa.%s *)\n", c.coqName, zc(v), c.goName)
			selectorConsts["rsa."+c.goName] = cval{i: v}
			leavesStd[c.goName] = zc(v)
		}
		const dx = "lib/x509tools"
		px, fdx := findFunc(dx, "", "MarshalRSAPSSParameters")
		c16Segment(o, px, fdx, funcSpec{dir: dx, name: "MarshalRSAPSSParameters", coqName: "pss_declared_salt",
			params: "(saltOpt modBits hLen : Z)", retType: "Z",
			leaves: map[string]string{"opts.SaltLength": "saltOpt", "pub.N.BitLen()": "modBits", "opts.Hash.Size()": "hLen"}},
			"saltLength := opts.SaltLength", "params :=", "v_saltLength")
		o.hasStmt(dx, "", "MarshalRSAPSSParameters", "params := pssParameters{ Hash: hashAlg, MGF: pkix.AlgorithmIdentifier{ Algorithm: OidMGF1, Parameters: asn1.RawValue{FullBytes: hashRaw}, }, SaltLength: saltLength, TrailerField: 1, }", "pss_params_carry_salt_length")
		leavesStd["opts.saltLength()"] = "saltOpt"
		leavesStd["priv.N.BitLen()"] = "modBits"
		leavesStd["hash.Size()"] = "hLen"
		c16Segment(o, std, c16FuncIn(std, "SignPSS"), funcSpec{dir: "GOROOT/crypto/rsa", name: "SignPSS", coqName: "pss_used_salt",
			params: "(saltOpt modBits hLen : Z)", retType: "(Z * Z)", leaves: leavesStd},
			"saltLength := opts.saltLength()", "salt :=", "(v_saltLength, 0)")
		// the two call sites get the same options and the same key
		o.hasStmt("lib/pkcs7", "SignatureBuilder", "Sign", "digestAlg, pkeyAlg, err := x509tools.PkixAlgorithms(pubKey, sb.signerOpts)", "pss_sign_declares_with_builder_opts")
		o.hasStmt("lib/pkcs7", "SignatureBuilder", "Sign", "sig, err := sb.privateKey.Sign(rand.Reader, digest, sb.signerOpts)", "pss_sign_signs_with_builder_opts")
		o.hasStmt(dx, "", "PkixAlgorithms", "params, err = MarshalRSAPSSParameters(rsapub, pss)", "pss_pkix_passes_opts_unchanged")
		fingerprint(dx, "", "PkixAlgorithms")
	}
}
