package main

import (
	"fmt"
	"go/ast"
	"go/token"
	"sort"
	"strconv"
	"strings"
)

func init() {
	generators["C04_gen"] = func(o *out) {
		const c = "config"
		gk := map[string]string{`keyConf.Alias != ""`: "has_alias", `keyConf.Token == ""`: "no_token", "!ok": "(negb found)"}
		gt := map[string]string{`keyConf.Alias != ""`: "bool", `keyConf.Token == ""`: "bool", "!ok": "bool"}
		o.condOf(funcSpec{dir: c, recv: "Config", name: "GetKey", coqName: "getkey_missing",
			params: "(found : bool)", retType: "bool", leaves: gk, types: gt}, "ok", 0)
		o.condOf(funcSpec{dir: c, recv: "Config", name: "GetKey", coqName: "getkey_follow_alias",
			params: "(has_alias : bool)", retType: "bool", leaves: gk, types: gt}, "keyConf.Alias", 0)
		o.condOf(funcSpec{dir: c, recv: "Config", name: "GetKey", coqName: "getkey_alias_dangling",
			params: "(found : bool)", retType: "bool", leaves: gk, types: gt}, "ok", 1)
		// the guard "the alias target is itself an alias" (second test of keyConf.Alias, inside the alias arm, refusing with an
		// error). A tree without it is translated as the constant false: the model stays faithful and the idempotence theorems fail.
		if gp, gfd := findFunc(c, "Config", "GetKey"); gfd != nil {
			var conds []*ast.IfStmt
			ast.Inspect(gfd.Body, func(n ast.Node) bool {
				if is, ok := n.(*ast.IfStmt); ok && strings.Contains(printNode(gp.fset, is.Cond), "keyConf.Alias") {
					conds = append(conds, is)
				}
				return true
			})
			switch {
			case len(conds) == 1:
				o.f("Definition getkey_alias_of_alias (has_alias no_token : bool) : bool :=\n  false.\n(* config:Config.GetKey has NO second test of keyConf.Alias: the entry an alias names is returned whatever its own alias says *)\n")
			case len(conds) == 2 && conds[0].Pos() < conds[1].Pos() && conds[1].End() <= conds[0].End():
				refuses := false
				if k := len(conds[1].Body.List); k > 0 {
					if rs, ok := conds[1].Body.List[k-1].(*ast.ReturnStmt); ok && len(rs.Results) == 2 && printNode(gp.fset, rs.Results[0]) == "nil" && printNode(gp.fset, rs.Results[1]) != "nil" {
						refuses = true
					}
				}
				if !refuses {
					o.brokenDef("getkey_alias_of_alias", "the second test of keyConf.Alias in GetKey does not end in `return nil, <error>`")
				} else {
					o.condOf(funcSpec{dir: c, recv: "Config", name: "GetKey", coqName: "getkey_alias_of_alias",
						params: "(has_alias no_token : bool)", retType: "bool", leaves: gk, types: gt}, "keyConf.Alias", 1)
				}
			default:
				o.brokenDef("getkey_alias_of_alias", fmt.Sprintf("GetKey tests keyConf.Alias %d times, or not nested inside the alias arm", len(conds)))
			}
		} else {
			o.brokenDef("getkey_alias_of_alias", "Config.GetKey not found")
		}
		// the token test is the LAST condition mentioning keyConf.Token (a guard inside the alias arm may mention it too)
		nTok := 0
		if gp, gfd := findFunc(c, "Config", "GetKey"); gfd != nil {
			ast.Inspect(gfd.Body, func(n ast.Node) bool {
				if is, ok := n.(*ast.IfStmt); ok && strings.Contains(printNode(gp.fset, is.Cond), "keyConf.Token") {
					nTok++
				}
				return true
			})
		}
		if nTok == 0 {
			nTok = 1
		}
		o.condOf(funcSpec{dir: c, recv: "Config", name: "GetKey", coqName: "getkey_needs_token",
			params: "(no_token : bool)", retType: "bool", leaves: gk, types: gt}, "keyConf.Token", nTok-1)
		const s = "server"
		sl := map[string]string{`keyName == ""`: "no_key", `filename == ""`: "no_filename", "err != nil": "getkey_failed",
			"userInfo.Allowed(keyConf)": "allowed", "mod == nil": "no_sigtype", "hash == 0": "bad_digest", "tok == nil": "no_token"}
		stt := map[string]string{}
		for k := range sl {
			stt[k] = "bool"
		}
		o.condOf(funcSpec{dir: s, recv: "Server", name: "serveSign", coqName: "sign_denied",
			params: "(allowed : bool)", retType: "bool", leaves: sl, types: stt}, "userInfo.Allowed", 0)
		o.callOrder(s, "Server", "serveSign", "sign_call_order",
			[]string{"RequestInfo", "GetKey", "Allowed", "ByName", "HashByName", "FlagsFromQuery", "Init", "Sign", "PublishAudit", "Write"})
		ll := map[string]string{"keyConf.Hide": "hide", "err != nil": "getkey_failed", "!keyConf.Hide && userInfo.Allowed(keyConf)": "((negb target_hide) && allowed)"}
		lt := map[string]string{"keyConf.Hide": "bool", "err != nil": "bool", "!keyConf.Hide && userInfo.Allowed(keyConf)": "bool"}
		o.condOf(funcSpec{dir: s, recv: "Server", name: "serveListKeys", coqName: "list_skip_hidden",
			params: "(hide : bool)", retType: "bool", leaves: ll, types: lt}, "keyConf.Hide", 0)
		o.condOf(funcSpec{dir: s, recv: "Server", name: "serveListKeys", coqName: "list_include",
			params: "(target_hide allowed : bool)", retType: "bool",
			leaves: map[string]string{"keyConf.Hide": "target_hide", "userInfo.Allowed(keyConf)": "allowed"},
			types:  map[string]string{"keyConf.Hide": "bool", "userInfo.Allowed(keyConf)": "bool"}}, "userInfo.Allowed", 0)
		o.condOf(funcSpec{dir: s, recv: "Server", name: "serveGetKey", coqName: "getkey_view_allowed",
			params: "(getkey_ok allowed : bool)", retType: "bool",
			leaves: map[string]string{"err == nil": "getkey_ok", "userInfo.Allowed(keyConf)": "allowed"},
			types:  map[string]string{"err == nil": "bool", "userInfo.Allowed(keyConf)": "bool"}}, "userInfo.Allowed", 0)
		const h = "internal/httperror"
		_ = h
		for _, fn := range [][3]string{{"internal/authmodel", "CertificateAuth", "Authenticate"}, {"internal/authmodel", "CertificateInfo", "Allowed"},
			{"internal/authmodel", "PolicyInfo", "Allowed"}, {"internal/authmodel", "PolicyAuth", "Authenticate"}, {"internal/authmodel", "", "Middleware"},
			{"internal/realip", "", "trustedClient"}, {"internal/realip", "", "PeerCertificates"}, {"internal/realip", "", "hopTrusted"},
			{"internal/realip", "", "Middleware"}, {"config", "Config", "GetKey"}, {"config", "ClientConfig", "Match"},
			{"server", "Server", "serveSign"}, {"server", "Server", "serveGetKey"}, {"server", "Server", "serveListKeys"}, {"server", "Server", "Handler"}} {
			fingerprint(fn[0], fn[1], fn[2])
		}
		fingerprint("internal/authmodel", "", "fingerprint")
		fingerprint("internal/authmodel", "", "New")
		c04History(o)
		c04Names(o)
	}
}

// =====================================================================================================================
// Request-history part (authentication as a function of what the long-lived server saw before).
// Everything below is private to the C04 generator (prefix c04).
// =====================================================================================================================

func c04norm(s string) string { return strings.Join(strings.Fields(s), " ") }

func c04str(s string) string { return "\"" + strings.ReplaceAll(s, "\"", "\"\"") + "\"%string" }

func (o *out) c04StrList(coqName string, items []string, comment string) {
	parts := make([]string, len(items))
	for i, it := range items {
		parts[i] = "  " + c04str(it)
	}
	body := "[]"
	if len(parts) > 0 {
		body = "[\n" + strings.Join(parts, ";\n") + "\n]"
	}
	o.f("Definition %s : list string := %s. (* %s *)\n", coqName, body, comment)
}

func c04ZList(zs []int) string {
	parts := make([]string, len(zs))
	for i, z := range zs {
		parts[i] = fmt.Sprintf("%d", z)
	}
	return "[" + strings.Join(parts, "; ") + "]"
}

// packages whose mutable state is inventoried (the packages of the C04 anchors)
var c04StatePkgs = []string{"internal/authmodel", "internal/realip", "server", "config", "internal/httperror"}

// functions that run before the first request is served (construction / configuration loading); writes made there are
// not part of the request-handling inventory
var c04Construction = map[string]bool{
	"config:Config.Normalize": true, "config:.ReadFile": true, "config:.FromEnvironment": true, "config:Config.applyEnv": true,
	"server:.New": true, "server:Server.openTokens": true, "server:Server.startHealthCheck": true,
	"internal/authmodel:.New": true, "internal/authmodel:.newPolicyAuthenticator": true,
	"internal/realip:.Middleware#outer": true, "internal/realip:.parseTrusted": true,
}

func c04RecvName(fd *ast.FuncDecl) (typ, ident string) {
	if fd.Recv == nil || len(fd.Recv.List) != 1 {
		return "", ""
	}
	t := fd.Recv.List[0].Type
	if s, ok := t.(*ast.StarExpr); ok {
		t = s.X
	}
	if id, ok := t.(*ast.Ident); ok {
		typ = id.Name
	}
	if len(fd.Recv.List[0].Names) == 1 {
		ident = fd.Recv.List[0].Names[0].Name
	}
	return
}

func c04Root(e ast.Expr) *ast.Ident {
	for {
		switch x := e.(type) {
		case *ast.Ident:
			return x
		case *ast.SelectorExpr:
			e = x.X
		case *ast.IndexExpr:
			e = x.X
		case *ast.StarExpr:
			e = x.X
		case *ast.ParenExpr:
			e = x.X
		case *ast.CallExpr:
			e = x.Fun
		case *ast.TypeAssertExpr:
			e = x.X
		case *ast.SliceExpr:
			e = x.X
		default:
			return nil
		}
	}
}

func c04IsFresh(e ast.Expr) bool {
	switch x := e.(type) {
	case *ast.CompositeLit:
		return true
	case *ast.UnaryExpr:
		if x.Op == token.AND {
			_, ok := x.X.(*ast.CompositeLit)
			return ok
		}
	case *ast.CallExpr:
		if id, ok := x.Fun.(*ast.Ident); ok && (id.Name == "new" || id.Name == "make") {
			return true
		}
	case *ast.BasicLit:
		return true
	}
	return false
}

var c04Mutators = map[string]bool{"Store": true, "LoadOrStore": true, "LoadAndDelete": true, "Delete": true, "Swap": true,
	"CompareAndSwap": true, "CompareAndDelete": true, "Add": true, "Set": true, "Inc": true, "Dec": true, "Lock": true, "Unlock": true,
	"RLock": true, "RUnlock": true, "Do": true, "Put": true, "Push": true, "Reset": true, "Clear": true}

// c04Inventory: (1) package-level variables, (2) fields of the structs that hold request-handling state,
// (3) every write to non-local state outside construction, for the anchored packages.
func (o *out) c04Inventory() {
	var vars, fields, writes []string
	for _, dir := range c04StatePkgs {
		p := loadPkg(dir)
		var fnames []string
		for n := range p.files {
			fnames = append(fnames, n)
		}
		sort.Strings(fnames)
		pkgVars := map[string]bool{}
		for _, fn := range fnames {
			for _, d := range p.files[fn].Decls {
				gd, ok := d.(*ast.GenDecl)
				if !ok {
					continue
				}
				if gd.Tok == token.VAR {
					for _, s := range gd.Specs {
						vs := s.(*ast.ValueSpec)
						for i, n := range vs.Names {
							if n.Name == "_" {
								continue
							}
							pkgVars[n.Name] = true
							cls := ""
							if vs.Type != nil {
								cls = c04norm(printNode(p.fset, vs.Type))
							} else if i < len(vs.Values) {
								switch v := vs.Values[i].(type) {
								case *ast.CompositeLit:
									cls = c04norm(printNode(p.fset, v.Type)) + "{}"
								case *ast.UnaryExpr:
									if cl, ok := v.X.(*ast.CompositeLit); ok {
										cls = "&" + c04norm(printNode(p.fset, cl.Type)) + "{}"
									} else {
										cls = "expr"
									}
								case *ast.CallExpr:
									cls = c04norm(printNode(p.fset, v.Fun)) + "()"
								case *ast.BasicLit:
									cls = "literal"
								default:
									cls = "expr"
								}
							}
							vars = append(vars, dir+"."+n.Name+" : "+cls)
						}
					}
				}
				if gd.Tok == token.TYPE && (dir == "internal/authmodel" || dir == "internal/realip" || dir == "server" || dir == "config") {
					for _, s := range gd.Specs {
						ts := s.(*ast.TypeSpec)
						st, ok := ts.Type.(*ast.StructType)
						if !ok {
							continue
						}
						if dir == "config" && ts.Name.Name != "Config" && ts.Name.Name != "ClientConfig" {
							continue
						}
						for _, fl := range st.Fields.List {
							ty := c04norm(printNode(p.fset, fl.Type))
							if strings.HasPrefix(ty, "struct {") {
								ty = "struct{..}"
							}
							if len(fl.Names) == 0 {
								fields = append(fields, dir+"."+ts.Name.Name+".(embedded) : "+ty)
							}
							for _, n := range fl.Names {
								fields = append(fields, dir+"."+ts.Name.Name+"."+n.Name+" : "+ty)
							}
						}
					}
				}
			}
		}
		for _, fn := range fnames {
			for _, d := range p.files[fn].Decls {
				fd, ok := d.(*ast.FuncDecl)
				if !ok || fd.Body == nil {
					continue
				}
				rt, rid := c04RecvName(fd)
				key := dir + ":" + rt + "." + fd.Name.Name
				if c04Construction[key] {
					continue
				}
				// local identifiers bound to freshly created objects
				fresh := map[string]bool{}
				locals := map[string]bool{}
				ast.Inspect(fd.Body, func(n ast.Node) bool {
					switch x := n.(type) {
					case *ast.AssignStmt:
						if x.Tok == token.DEFINE {
							for i, l := range x.Lhs {
								if id, ok := l.(*ast.Ident); ok {
									locals[id.Name] = true
									if len(x.Lhs) == len(x.Rhs) && c04IsFresh(x.Rhs[i]) {
										fresh[id.Name] = true
									}
								}
							}
						}
					case *ast.DeclStmt:
						if gd, ok := x.Decl.(*ast.GenDecl); ok && gd.Tok == token.VAR {
							for _, s := range gd.Specs {
								vs := s.(*ast.ValueSpec)
								for i, id := range vs.Names {
									locals[id.Name] = true
									if len(vs.Values) == 0 || (i < len(vs.Values) && c04IsFresh(vs.Values[i])) {
										fresh[id.Name] = true
									}
								}
							}
						}
					case *ast.RangeStmt:
						for _, e := range []ast.Expr{x.Key, x.Value} {
							if id, ok := e.(*ast.Ident); ok {
								locals[id.Name] = true
							}
						}
					}
					return true
				})
				params := map[string]bool{}
				if fd.Type.Params != nil {
					for _, f := range fd.Type.Params.List {
						for _, n := range f.Names {
							params[n.Name] = true
						}
					}
				}
				ast.Inspect(fd.Body, func(n ast.Node) bool { // parameters of function literals (per-call values as well)
					if fl, ok := n.(*ast.FuncLit); ok && fl.Type.Params != nil {
						for _, f := range fl.Type.Params.List {
							for _, n := range f.Names {
								params[n.Name] = true
							}
						}
					}
					return true
				})
				if fd.Type.Results != nil {
					for _, f := range fd.Type.Results.List {
						for _, n := range f.Names {
							locals[n.Name] = true
							fresh[n.Name] = true
						}
					}
				}
				record := func(kind string, e ast.Expr) {
					root := c04Root(e)
					rootKind := "?"
					if root != nil {
						switch {
						case root.Name == rid && rid != "":
							rootKind = "receiver"
						case fresh[root.Name]:
							return // object created in this call
						case locals[root.Name]:
							rootKind = "local-alias"
						case params[root.Name]:
							rootKind = "param"
						case pkgVars[root.Name]:
							rootKind = "package-var"
						default:
							rootKind = "outer"
						}
					}
					writes = append(writes, key+" : "+kind+" "+c04norm(printNode(p.fset, e))+" ["+rootKind+"]")
				}
				ast.Inspect(fd.Body, func(n ast.Node) bool {
					switch x := n.(type) {
					case *ast.AssignStmt:
						if x.Tok == token.DEFINE {
							return true
						}
						for _, l := range x.Lhs {
							switch l.(type) {
							case *ast.SelectorExpr, *ast.IndexExpr, *ast.StarExpr:
								record("assign", l)
							case *ast.Ident:
								id := l.(*ast.Ident)
								if id.Name != "_" && !locals[id.Name] && !params[id.Name] && id.Name != rid {
									record("assign", l)
								}
							}
						}
					case *ast.IncDecStmt:
						switch x.X.(type) {
						case *ast.SelectorExpr, *ast.IndexExpr, *ast.StarExpr:
							record("incdec", x.X)
						case *ast.Ident:
							id := x.X.(*ast.Ident)
							if !locals[id.Name] && !params[id.Name] {
								record("incdec", x.X)
							}
						}
					case *ast.CallExpr:
						if se, ok := x.Fun.(*ast.SelectorExpr); ok && c04Mutators[se.Sel.Name] {
							root := c04Root(se.X)
							if root != nil && ((rid != "" && root.Name == rid) || pkgVars[root.Name]) {
								record("call", x.Fun)
							}
						}
					}
					return true
				})
			}
		}
	}
	o.c04StrList("c04_package_vars", vars, "package-level variables of the anchored packages (name : declared type or initialiser class)")
	o.c04StrList("c04_state_fields", fields, "fields of every struct of internal/authmodel, internal/realip, server and of config.Config / config.ClientConfig")
	o.c04StrList("c04_state_writes", writes, "writes to anything but objects created in the same call, outside construction functions; [root kind]")
}

// c04KeyClass: what a cache key expression inside Authenticate denotes: 1 = fingerprint(cert) (digest of the public key),
// 2 = the whole certificate, 99 = anything else
func c04KeyClass(p *pkgInfo, fd *ast.FuncDecl, e ast.Expr) int {
	txt := c04norm(printNode(p.fset, e))
	for depth := 0; depth < 3; depth++ {
		id, ok := e.(*ast.Ident)
		if !ok {
			break
		}
		var def ast.Expr
		ast.Inspect(fd.Body, func(n ast.Node) bool {
			if as, ok := n.(*ast.AssignStmt); ok && len(as.Lhs) == len(as.Rhs) {
				for i, l := range as.Lhs {
					if li, ok := l.(*ast.Ident); ok && li.Name == id.Name && def == nil {
						def = as.Rhs[i]
					}
				}
			}
			return true
		})
		if def == nil {
			break
		}
		e = def
		txt = c04norm(printNode(p.fset, e))
	}
	switch {
	case txt == "fingerprint(cert)" || txt == "fingerprint(peerCerts[0])":
		return 1
	case strings.Contains(txt, "cert.Raw)") || strings.Contains(txt, "cert.Raw[") || strings.Contains(txt, "peerCerts[0].Raw)"):
		return 2
	}
	return 99
}

// c04AuthShape: the parts of CertificateAuth.Authenticate that decide who the caller is
func (o *out) c04AuthShape() {
	const dir = "internal/authmodel"
	p, fd := findFunc(dir, "CertificateAuth", "Authenticate")
	if fd == nil {
		o.brokenDef("auth_shape", "CertificateAuth.Authenticate not found")
		return
	}
	_, rid := c04RecvName(fd)
	// (a) receiver fields touched, and reads / writes of receiver state other than the configuration
	fieldSet := map[string]bool{}
	var loads, stores []int
	var loadTxt, storeTxt []string
	isState := func(e ast.Expr) (string, bool) { // e = recv.f... with f != Config
		for {
			se, ok := e.(*ast.SelectorExpr)
			if !ok {
				return "", false
			}
			if id, ok := se.X.(*ast.Ident); ok && id.Name == rid {
				return se.Sel.Name, se.Sel.Name != "Config"
			}
			e = se.X
		}
	}
	lhs := map[ast.Expr]bool{}
	ast.Inspect(fd.Body, func(n ast.Node) bool {
		switch x := n.(type) {
		case *ast.AssignStmt:
			if x.Tok != token.DEFINE {
				for _, l := range x.Lhs {
					lhs[l] = true
					if ie, ok := l.(*ast.IndexExpr); ok {
						if f, st := isState(ie.X); st {
							stores = append(stores, c04KeyClass(p, fd, ie.Index))
							storeTxt = append(storeTxt, f+"["+c04norm(printNode(p.fset, ie.Index))+"]=")
						}
					} else if f, st := isState(l); st {
						stores = append(stores, 99)
						storeTxt = append(storeTxt, f+"=")
					}
				}
			}
		case *ast.SelectorExpr:
			if id, ok := x.X.(*ast.Ident); ok && id.Name == rid {
				fieldSet[x.Sel.Name] = true
			}
		case *ast.CallExpr:
			if se, ok := x.Fun.(*ast.SelectorExpr); ok {
				if f, st := isState(se.X); st {
					cls := 99
					if len(x.Args) > 0 {
						cls = c04KeyClass(p, fd, x.Args[0])
					}
					switch se.Sel.Name {
					case "Load", "Get", "Peek", "Contains":
						loads = append(loads, cls)
						loadTxt = append(loadTxt, f+"."+se.Sel.Name)
					case "LoadOrStore", "LoadAndDelete", "Swap", "CompareAndSwap":
						loads = append(loads, cls)
						stores = append(stores, cls)
						loadTxt = append(loadTxt, f+"."+se.Sel.Name)
						storeTxt = append(storeTxt, f+"."+se.Sel.Name)
					case "Lock", "Unlock", "RLock", "RUnlock":
					default:
						stores = append(stores, cls)
						storeTxt = append(storeTxt, f+"."+se.Sel.Name)
					}
				}
			}
		case *ast.IndexExpr:
			if f, st := isState(x.X); st && !lhs[x] {
				loads = append(loads, c04KeyClass(p, fd, x.Index))
				loadTxt = append(loadTxt, f+"["+c04norm(printNode(p.fset, x.Index))+"]")
			}
		}
		return true
	})
	var fl []string
	for f := range fieldSet {
		fl = append(fl, f)
	}
	sort.Strings(fl)
	o.c04StrList("auth_receiver_fields", fl, "fields of the CertificateAuth receiver that Authenticate mentions")
	o.f("Definition auth_memo_loads : list Z := %s. (* reads of authenticator state other than Config in Authenticate (key class: 1 public-key fingerprint, 2 whole certificate, 99 other): %s *)\n", c04ZList(loads), strings.Join(loadTxt, " "))
	o.f("Definition auth_memo_stores : list Z := %s. (* writes of authenticator state in Authenticate: %s *)\n", c04ZList(stores), strings.Join(storeTxt, " "))

	// order of the stages (source order): 0 refuse "certificate required", 1 lookup in the configured client table,
	// 2 loop over the configured clients, 3 refuse "not recognised", 4 touch authenticator state, 5 return the user
	var stages []int
	ast.Inspect(fd.Body, func(n ast.Node) bool {
		switch x := n.(type) {
		case *ast.FuncLit:
			return false // logging closures
		case *ast.IndexExpr:
			if c04norm(printNode(p.fset, x.X)) == rid+".Config.Clients" {
				stages = append(stages, 1)
			}
		case *ast.RangeStmt:
			if c04norm(printNode(p.fset, x.X)) == rid+".Config.Clients" {
				stages = append(stages, 2)
			}
		case *ast.SelectorExpr:
			if id, ok := x.X.(*ast.Ident); ok && id.Name == rid && x.Sel.Name != "Config" {
				stages = append(stages, 4)
			}
		case *ast.ReturnStmt:
			t := c04norm(printNode(p.fset, x))
			switch {
			case strings.Contains(t, "ErrCertificateRequired"):
				stages = append(stages, 0)
			case strings.Contains(t, "ErrCertificateNotRecognized"):
				stages = append(stages, 3)
			case t == "return user, nil":
				stages = append(stages, 5)
			case t == "return nil, err":
				stages = append(stages, 6)
			default:
				stages = append(stages, 9)
			}
		}
		return true
	})
	o.f("Definition auth_stage_order : list Z := %s. (* Authenticate, source order: 6 return the error of PeerCertificates, 0 refuse certificate-required, 1 lookup in the configured client table, 2 loop over the configured clients, 3 refuse not-recognised, 4 touch authenticator state, 5 return the user, 9 other return *)\n", c04ZList(stages))

	// (b) the first lookup: client := a.Config.Clients[<key>]
	first := ""
	ast.Inspect(fd.Body, func(n ast.Node) bool {
		if as, ok := n.(*ast.AssignStmt); ok && len(as.Lhs) == 1 && len(as.Rhs) == 1 && first == "" {
			if id, ok := as.Lhs[0].(*ast.Ident); ok && id.Name == "client" {
				first = c04norm(printNode(p.fset, as.Rhs[0]))
				if ie, ok := as.Rhs[0].(*ast.IndexExpr); ok && c04norm(printNode(p.fset, ie.X)) == rid+".Config.Clients" {
					o.f("Definition auth_first_lookup_key : Z := %d. (* client := %s *)\n", c04KeyClass(p, fd, ie.Index), first)
				} else {
					o.f("Definition auth_first_lookup_key : Z := 0. (* client := %s : NOT an index into the configured client table *)\n", first)
				}
			}
		}
		return true
	})
	if first == "" {
		o.brokenDef("auth_first_lookup_key", "no assignment to `client` in Authenticate")
	}
	// which element of the presented chain is the caller's certificate
	leaf := -1
	ast.Inspect(fd.Body, func(n ast.Node) bool {
		if as, ok := n.(*ast.AssignStmt); ok && len(as.Lhs) == 1 && len(as.Rhs) == 1 && leaf < 0 {
			if id, ok := as.Lhs[0].(*ast.Ident); ok && id.Name == "cert" {
				if ie, ok := as.Rhs[0].(*ast.IndexExpr); ok && c04norm(printNode(p.fset, ie.X)) == "peerCerts" {
					if v, err := evalConst(dir, ie.Index, 0); err == nil {
						leaf = int(v.i)
					}
				}
			}
		}
		return true
	})
	if leaf < 0 {
		o.brokenDef("auth_leaf_index", "no `cert := peerCerts[k]` in Authenticate")
	} else {
		o.f("Definition auth_leaf_index : Z := %d. (* cert := peerCerts[%d] *)\n", leaf, leaf)
	}

	// (c) the loop over the configured clients: what each arm of its if-chain does
	var loop *ast.RangeStmt
	ast.Inspect(fd.Body, func(n ast.Node) bool {
		if rs, ok := n.(*ast.RangeStmt); ok && loop == nil && c04norm(printNode(p.fset, rs.X)) == rid+".Config.Clients" {
			loop = rs
		}
		return true
	})
	if loop == nil {
		o.brokenDef("auth_loop_action", "no range over "+rid+".Config.Clients in Authenticate")
		return
	}
	lv := ""
	if id, ok := loop.Value.(*ast.Ident); ok {
		lv = id.Name
	}
	matchArg := 0
	var chain *ast.IfStmt
	extra := 0
	for _, st := range loop.Body.List {
		switch x := st.(type) {
		case *ast.AssignStmt:
			t := c04norm(printNode(p.fset, x))
			if t == "match, err := "+lv+".Match(peerCerts)" {
				matchArg = 1
			} else if strings.HasPrefix(t, "match, err := "+lv+".Match(") {
				matchArg = 2
			} else {
				extra++
			}
		case *ast.IfStmt:
			if chain == nil {
				chain = x
			} else {
				extra++
			}
		default:
			extra++
		}
	}
	o.f("Definition auth_match_arg : Z := %d. (* 1: every configured client is asked Match(peerCerts) with the whole presented chain *)\n", matchArg)
	o.f("Definition auth_loop_extra_stmts : Z := %d. (* statements in the loop body besides the Match call and one if-chain *)\n", extra)
	if chain == nil {
		o.brokenDef("auth_loop_action", "loop body has no if statement")
		return
	}
	action := func(b *ast.BlockStmt) int {
		a := 0
		for _, st := range b.List {
			t := c04norm(printNode(p.fset, st))
			switch {
			case t == "client = "+lv:
				a |= 1
			case t == "break":
				a |= 2
			case t == "saved = err":
				a |= 4
			case t == "useDN = true":
				a |= 8
			default:
				if _, st2 := func() (string, bool) {
					found := false
					ast.Inspect(st, func(n ast.Node) bool {
						if se, ok := n.(*ast.SelectorExpr); ok {
							if _, s := isState(se); s {
								found = true
							}
						}
						return true
					})
					return "", found
				}(); st2 {
					a |= 16
				} else {
					a |= 32
				}
			}
		}
		return a
	}
	var sb strings.Builder
	cur := chain
	okShape := true
	for cur != nil {
		ct := c04norm(printNode(p.fset, cur.Cond))
		var c string
		switch ct {
		case "match":
			c = "matched"
		case "err != nil":
			c = "has_err"
		case "!match":
			c = "(negb matched)"
		case "err == nil":
			c = "(negb has_err)"
		case "match || err != nil":
			c = "(matched || has_err)"
		case "match && err == nil":
			c = "(matched && negb has_err)"
		default:
			okShape = false
		}
		if cur.Init != nil {
			okShape = false
		}
		fmt.Fprintf(&sb, "if %s then %d else ", c, action(cur.Body))
		switch e := cur.Else.(type) {
		case nil:
			sb.WriteString("0")
			cur = nil
		case *ast.BlockStmt:
			fmt.Fprintf(&sb, "%d", action(e))
			cur = nil
		case *ast.IfStmt:
			cur = e
		}
	}
	if !okShape {
		o.brokenDef("auth_loop_action", "if-chain of the client loop has a condition the translator does not know: "+c04norm(printNode(p.fset, chain.Cond)))
	} else {
		o.f("Definition auth_loop_action (matched has_err : bool) : Z :=\n  %s.\n(* bits: 1 client = %s ; 2 break ; 4 saved = err ; 8 useDN = true ; 16 touches authenticator state ; 32 anything else *)\n", sb.String(), lv)
	}
}

// c04Fingerprint: which part of the certificate fingerprint() digests, with which hash and encoding
func (o *out) c04Fingerprint() {
	const dir = "internal/authmodel"
	p, fd := findFunc(dir, "", "fingerprint")
	if fd == nil {
		o.brokenDef("fp_source", "fingerprint not found")
		return
	}
	src, hash, enc := 99, 0, 0
	ast.Inspect(fd.Body, func(n ast.Node) bool {
		if ce, ok := n.(*ast.CallExpr); ok {
			fn := c04norm(printNode(p.fset, ce.Fun))
			switch fn {
			case "sha256.Sum256":
				hash = 256
			case "sha1.Sum":
				hash = 1
			case "sha512.Sum512":
				hash = 512
			case "md5.Sum":
				hash = 5
			case "hex.EncodeToString":
				enc = 1
			}
			if strings.HasPrefix(fn, "sha") || strings.HasPrefix(fn, "md5") {
				if len(ce.Args) == 1 {
					switch c04norm(printNode(p.fset, ce.Args[0])) {
					case "cert.RawSubjectPublicKeyInfo":
						src = 1
					case "cert.Raw":
						src = 2
					case "cert.RawSubject":
						src = 3
					case "cert.RawTBSCertificate":
						src = 4
					case "cert.RawIssuer":
						src = 5
					}
				}
			}
		}
		return true
	})
	o.f("Definition fp_source : Z := %d. (* fingerprint() digests: 1 RawSubjectPublicKeyInfo, 2 Raw, 3 RawSubject, 4 RawTBSCertificate, 5 RawIssuer, 99 unknown *)\n", src)
	o.f("Definition fp_hash : Z := %d. (* 256 = sha256.Sum256 *)\n", hash)
	o.f("Definition fp_encoding : Z := %d. (* 1 = hex.EncodeToString (lower case) *)\n", enc)
}

// c04Match: config.ClientConfig.Match — skip condition, what is verified against what, result mapping
func (o *out) c04Match() {
	const dir = "config"
	p, fd := findFunc(dir, "ClientConfig", "Match")
	if fd == nil {
		o.brokenDef("match_skip", "ClientConfig.Match not found")
		return
	}
	o.condOf(funcSpec{dir: dir, recv: "ClientConfig", name: "Match", coqName: "match_skip", params: "(no_pool : bool) (n_incoming : Z)", retType: "bool",
		leaves: map[string]string{"cl.certs == nil": "no_pool", "cl.certs != nil": "(negb no_pool)", "len(incoming)": "n_incoming"},
		types:  map[string]string{"cl.certs == nil": "bool", "cl.certs != nil": "bool", "len(incoming)": "Z"}}, "incoming", 0)
	leaf, from := -1, -1
	var opts *ast.CompositeLit
	verifyOn := ""
	ast.Inspect(fd.Body, func(n ast.Node) bool {
		switch x := n.(type) {
		case *ast.AssignStmt:
			if len(x.Lhs) == 1 && len(x.Rhs) == 1 {
				l := c04norm(printNode(p.fset, x.Lhs[0]))
				if ie, ok := x.Rhs[0].(*ast.IndexExpr); ok && l == "leaf" && c04norm(printNode(p.fset, ie.X)) == "incoming" {
					if v, err := evalConst(dir, ie.Index, 0); err == nil {
						leaf = int(v.i)
					}
				}
				if se, ok := x.Rhs[0].(*ast.SliceExpr); ok && l == "intermediates" && c04norm(printNode(p.fset, se.X)) == "incoming" && se.High == nil && se.Low != nil {
					if v, err := evalConst(dir, se.Low, 0); err == nil {
						from = int(v.i)
					}
				}
			}
		case *ast.CallExpr:
			if se, ok := x.Fun.(*ast.SelectorExpr); ok && se.Sel.Name == "Verify" {
				verifyOn = c04norm(printNode(p.fset, se.X))
				if len(x.Args) == 1 {
					if cl, ok := x.Args[0].(*ast.CompositeLit); ok {
						opts = cl
					}
				}
			}
		}
		return true
	})
	o.f("Definition match_leaf_index : Z := %d. (* leaf := incoming[k] *)\n", leaf)
	o.f("Definition match_inter_from : Z := %d. (* intermediates := incoming[k:] *)\n", from)
	o.f("Definition match_verify_on_leaf : bool := %v. (* the certificate whose Verify is called: %s *)\n", verifyOn == "leaf", verifyOn)
	if opts == nil {
		o.brokenDef("match_opts_eku", "no x.Verify(x509.VerifyOptions{...}) call in Match")
		return
	}
	var keys []string
	roots, inter, setsTime := false, false, false
	var eku []int
	hasEku := false
	for _, el := range opts.Elts {
		kv, ok := el.(*ast.KeyValueExpr)
		if !ok {
			keys = append(keys, "?")
			continue
		}
		k := c04norm(printNode(p.fset, kv.Key))
		v := c04norm(printNode(p.fset, kv.Value))
		keys = append(keys, k)
		switch k {
		case "Roots":
			roots = v == "cl.certs"
		case "Intermediates":
			inter = v == "ipool"
		case "CurrentTime":
			setsTime = true
		case "KeyUsages":
			hasEku = true
			if cl, ok := kv.Value.(*ast.CompositeLit); ok {
				for _, e := range cl.Elts {
					switch c04norm(printNode(p.fset, e)) {
					case "x509.ExtKeyUsageAny":
						eku = append(eku, 0)
					case "x509.ExtKeyUsageServerAuth":
						eku = append(eku, 1)
					case "x509.ExtKeyUsageClientAuth":
						eku = append(eku, 2)
					default:
						eku = append(eku, 99)
					}
				}
			} else {
				eku = append(eku, 99)
			}
		}
	}
	_ = hasEku
	o.c04StrList("match_opts_keys", keys, "fields set in the x509.VerifyOptions literal")
	o.f("Definition match_opts_roots_is_pool : bool := %v. (* Roots: cl.certs — the CA pool of THIS client entry *)\n", roots)
	o.f("Definition match_opts_inter_is_rest : bool := %v. (* Intermediates: pool built from the rest of the presented chain *)\n", inter)
	o.f("Definition match_opts_sets_time : bool := %v. (* CurrentTime given (false: Verify uses the time of the call) *)\n", setsTime)
	o.f("Definition match_opts_eku : list Z := %s. (* KeyUsages: 0 any, 1 serverAuth, 2 clientAuth, 99 other; [] means Go's default = serverAuth *)\n", c04ZList(eku))
	// result mapping: the statements after the Verify call
	var tail []ast.Stmt
	for i, st := range fd.Body.List {
		if as, ok := st.(*ast.AssignStmt); ok && strings.Contains(c04norm(printNode(p.fset, as)), ".Verify(") {
			tail = fd.Body.List[i+1:]
		}
	}
	ret := func(r *ast.ReturnStmt) string {
		if len(r.Results) != 2 {
			return ""
		}
		a, b := c04norm(printNode(p.fset, r.Results[0])), c04norm(printNode(p.fset, r.Results[1]))
		if (a != "true" && a != "false") || (b != "nil" && b != "err") {
			return ""
		}
		e := "false"
		if b == "err" {
			e = "true"
		}
		return "(" + a + ", " + e + ")"
	}
	var sb strings.Builder
	good := len(tail) == 2
	if good {
		is, ok1 := tail[0].(*ast.IfStmt)
		rs, ok2 := tail[1].(*ast.ReturnStmt)
		if !ok1 || !ok2 {
			good = false
		} else {
			cur := is
			for cur != nil && good {
				c := ""
				ct := c04norm(printNode(p.fset, cur.Cond))
				it := ""
				if cur.Init != nil {
					it = c04norm(printNode(p.fset, cur.Init))
				}
				switch {
				case it == "" && ct == "err == nil":
					c = "verify_ok"
				case it == "" && ct == "err != nil":
					c = "(negb verify_ok)"
				case it == "_, ok := err.(x509.UnknownAuthorityError)" && ct == "ok":
					c = "unknown_authority"
				default:
					good = false
				}
				if len(cur.Body.List) != 1 {
					good = false
					break
				}
				r, ok := cur.Body.List[0].(*ast.ReturnStmt)
				if !ok || ret(r) == "" {
					good = false
					break
				}
				fmt.Fprintf(&sb, "if %s then %s else ", c, ret(r))
				switch e := cur.Else.(type) {
				case nil:
					cur = nil
				case *ast.IfStmt:
					cur = e
				default:
					good = false
				}
			}
			if ret(rs) == "" {
				good = false
			} else {
				sb.WriteString(ret(rs))
			}
		}
	}
	if !good {
		o.brokenDef("match_result", "the statements after leaf.Verify in Match are not the if-chain the translator knows")
	} else {
		o.f("Definition match_result (verify_ok unknown_authority : bool) : bool * bool :=\n  %s.\n(* (matched, error returned) *)\n", sb.String())
	}
}

// c04Routes: Handler() — middleware order and which routes sit behind the authentication middleware;
// authmodel.Middleware — a failed Authenticate ends the request
func (o *out) c04Routes() {
	p, fd := findFunc("server", "Server", "Handler")
	if fd == nil {
		o.brokenDef("handler_routes", "Server.Handler not found")
		return
	}
	authVars := map[string]bool{}
	var uses, routes []string
	methods := map[string]bool{"Get": true, "Post": true, "Put": true, "Delete": true, "Patch": true, "Head": true, "Options": true,
		"Handle": true, "HandleFunc": true, "Method": true, "MethodFunc": true, "Mount": true, "Connect": true, "Trace": true, "NotFound": true}
	for _, st := range fd.Body.List {
		switch x := st.(type) {
		case *ast.AssignStmt:
			if len(x.Lhs) == 1 && len(x.Rhs) == 1 {
				r := c04norm(printNode(p.fset, x.Rhs[0]))
				if strings.Contains(r, ".With(") {
					l := c04norm(printNode(p.fset, x.Lhs[0]))
					if r == "r.With(authmodel.Middleware(s.auth))" {
						authVars[l] = true
					}
					uses = append(uses, l+" := "+r)
				}
			}
		case *ast.ExprStmt:
			ce, ok := x.X.(*ast.CallExpr)
			if !ok {
				continue
			}
			se, ok := ce.Fun.(*ast.SelectorExpr)
			if !ok {
				continue
			}
			rv := c04norm(printNode(p.fset, se.X))
			if se.Sel.Name == "Use" {
				var as []string
				for _, a := range ce.Args {
					as = append(as, c04norm(printNode(p.fset, a)))
				}
				uses = append(uses, rv+".Use "+strings.Join(as, ","))
			} else if methods[se.Sel.Name] {
				var as []string
				for _, a := range ce.Args {
					as = append(as, c04norm(printNode(p.fset, a)))
				}
				cls := "public"
				if authVars[rv] {
					cls = "auth"
				}
				routes = append(routes, cls+" "+se.Sel.Name+" "+strings.Join(as, " "))
			} else {
				routes = append(routes, "other "+c04norm(printNode(p.fset, x)))
			}
		}
	}
	o.c04StrList("handler_middleware", uses, "server.Handler: middleware registration, in order")
	o.c04StrList("handler_routes", routes, "server.Handler: routes; auth = registered on r.With(authmodel.Middleware(s.auth))")
	o.callOrder("internal/authmodel", "", "Middleware", "mw_call_order", []string{"a.Authenticate", "h.ServeHTTP", "zhttp.WriteUnhandledError", "next.ServeHTTP"})
	// the err != nil arm must end the request
	p2, fd2 := findFunc("internal/authmodel", "", "Middleware")
	if fd2 == nil {
		o.brokenDef("mw_err_returns", "authmodel.Middleware not found")
		return
	}
	found, returns, firstIsAuth := false, false, false
	ast.Inspect(fd2.Body, func(n ast.Node) bool {
		fl, ok := n.(*ast.FuncLit)
		if !ok || fl.Type.Params == nil || len(fl.Type.Params.List) != 2 {
			return true
		}
		if len(fl.Body.List) > 0 {
			firstIsAuth = c04norm(printNode(p2.fset, fl.Body.List[0])) == "info, err := a.Authenticate(r)"
		}
		for _, st := range fl.Body.List {
			if is, ok := st.(*ast.IfStmt); ok && c04norm(printNode(p2.fset, is.Cond)) == "err != nil" && !found {
				found = true
				if k := len(is.Body.List); k > 0 {
					_, returns = is.Body.List[k-1].(*ast.ReturnStmt)
				}
			}
		}
		return true
	})
	o.f("Definition mw_first_is_authenticate : bool := %v. (* the request handler of authmodel.Middleware starts with info, err := a.Authenticate(r) *)\n", firstIsAuth)
	o.f("Definition mw_err_returns : bool := %v. (* its `if err != nil` arm ends with return *)\n", found && returns)
}

func c04History(o *out) {
	o.f("\nRequire Import Coq.Strings.String.\n(* ---- request-history part ---- *)\n")
	const am = "internal/authmodel"
	al := map[string]string{"len(peerCerts)": "n_certs", "client == nil": "client_nil", "client != nil": "(negb client_nil)", "err != nil": "has_err"}
	at := map[string]string{"len(peerCerts)": "Z", "client == nil": "bool", "client != nil": "bool", "err != nil": "bool"}
	o.condOf(funcSpec{dir: am, recv: "CertificateAuth", name: "Authenticate", coqName: "auth_no_cert", params: "(n_certs : Z)", retType: "bool", leaves: al, types: at}, "len(peerCerts)", 0)
	o.condOf(funcSpec{dir: am, recv: "CertificateAuth", name: "Authenticate", coqName: "auth_try_ca", params: "(client_nil : bool)", retType: "bool", leaves: al, types: at}, "if:client", 0)
	o.c04AuthShape()
	o.c04Fingerprint()
	o.c04Match()
	o.c04Routes()
	o.c04Inventory()
	for _, fn := range [][3]string{{"internal/authmodel", "", "RequestInfo"}, {"internal/realip", "", "requestTrusted"}} {
		fingerprint(fn[0], fn[1], fn[2])
	}
}

// =====================================================================================================================
// C04, key-name flow: which NAME and which configuration ENTRY every site between the HTTP handler and the code that
// loads private key material uses.  For every anchored call the argument expression is traced back (through local
// definitions, to parameters, the request, a map key, an RPC field, or a GetKey result) and emitted as a term of a
// small expression language (nexpr = names, cexpr = configuration entries) that C04/Names.v evaluates.
// Everything below is private to the C04 generator (prefix c04n).

type c04nFn struct {
	key    string
	p      *pkgInfo
	fd     *ast.FuncDecl
	recv   string
	params []string
}

func c04nLoad(dir, recv, name string) *c04nFn {
	p, fd := findFunc(dir, recv, name)
	if fd == nil {
		return nil
	}
	f := &c04nFn{key: dir + ":" + recv + "." + name, p: p, fd: fd}
	_, f.recv = c04RecvName(fd)
	if fd.Type.Params != nil {
		for _, fl := range fd.Type.Params.List {
			for _, n := range fl.Names {
				f.params = append(f.params, n.Name)
			}
		}
	}
	return f
}

func (f *c04nFn) txt(n ast.Node) string { return c04norm(printNode(f.p.fset, n)) }

type c04nDef struct {
	kind string // param assign rangekey rangeval var none
	rhs  ast.Expr
	idx  int
	nlhs int
	nrhs int
	rng  *ast.RangeStmt
	typ  string
	pos  token.Pos
	k    int
}

// lastDef: the definition of identifier `name` that textually precedes `before` (latest one); parameters otherwise
func (f *c04nFn) lastDef(name string, before token.Pos) c04nDef {
	best := c04nDef{kind: "none"}
	take := func(d c04nDef) {
		if d.pos < before && (best.kind == "none" || d.pos > best.pos) {
			best = d
		}
	}
	ast.Inspect(f.fd.Body, func(n ast.Node) bool {
		switch x := n.(type) {
		case *ast.AssignStmt:
			if x.End() > before {
				return true
			}
			for i, l := range x.Lhs {
				if id, ok := l.(*ast.Ident); ok && id.Name == name {
					d := c04nDef{kind: "assign", idx: i, nlhs: len(x.Lhs), nrhs: len(x.Rhs), pos: x.Pos()}
					if len(x.Rhs) == len(x.Lhs) {
						d.rhs = x.Rhs[i]
					} else if len(x.Rhs) == 1 {
						d.rhs = x.Rhs[0]
					}
					take(d)
				}
			}
		case *ast.RangeStmt:
			if id, ok := x.Key.(*ast.Ident); ok && id.Name == name {
				take(c04nDef{kind: "rangekey", rng: x, pos: x.Pos()})
			}
			if id, ok := x.Value.(*ast.Ident); ok && id.Name == name {
				take(c04nDef{kind: "rangeval", rng: x, pos: x.Pos()})
			}
		case *ast.DeclStmt:
			if gd, ok := x.Decl.(*ast.GenDecl); ok && gd.Tok == token.VAR {
				for _, s := range gd.Specs {
					vs := s.(*ast.ValueSpec)
					for i, id := range vs.Names {
						if id.Name == name {
							d := c04nDef{kind: "var", pos: x.Pos()}
							if vs.Type != nil {
								d.typ = f.txt(vs.Type)
							}
							if i < len(vs.Values) {
								d.kind, d.rhs, d.nlhs, d.nrhs = "assign", vs.Values[i], 1, 1
							}
							take(d)
						}
					}
				}
			}
		}
		return true
	})
	if best.kind != "none" {
		return best
	}
	for k, pn := range f.params {
		if pn == name {
			return c04nDef{kind: "param", k: k}
		}
	}
	return best
}

func c04nIsConfigHolder(t string) bool {
	return t == "cfg" || t == "config" || strings.HasSuffix(t, ".Config") || strings.HasSuffix(t, ".config")
}

// nameExpr: Coq term of type nexpr for a Go expression denoting a key name
func (f *c04nFn) nameExpr(e ast.Expr, depth int) string {
	if depth > 6 {
		return "NUnknown"
	}
	switch x := e.(type) {
	case *ast.ParenExpr:
		return f.nameExpr(x.X, depth+1)
	case *ast.Ident:
		d := f.lastDef(x.Name, x.Pos())
		switch d.kind {
		case "param":
			return "(NParam " + strconv.Itoa(d.k) + ")"
		case "rangekey":
			if c04nIsConfigHolder(strings.TrimSuffix(f.txt(d.rng.X), ".Keys")) && strings.HasSuffix(f.txt(d.rng.X), ".Keys") {
				return "NMapKey"
			}
		case "assign":
			if d.rhs != nil && (d.nlhs == d.nrhs || d.idx == 0) {
				return f.nameExpr(d.rhs, depth+1)
			}
		}
		return "NUnknown"
	case *ast.CallExpr:
		fun := f.txt(x.Fun)
		if se, ok := x.Fun.(*ast.SelectorExpr); ok {
			switch {
			case se.Sel.Name == "Get" && len(x.Args) == 1 && f.txt(x.Args[0]) == `"key"` && f.isQuery(se.X, depth):
				return "NReq"
			case se.Sel.Name == "Name" && len(x.Args) == 0:
				return "(NNameOf " + f.confExpr(se.X, depth+1) + ")"
			}
		}
		if fun == "chi.URLParam" && len(x.Args) == 2 && f.txt(x.Args[1]) == `"key"` {
			if id, ok := x.Args[0].(*ast.Ident); ok && f.lastDef(id.Name, id.Pos()).kind == "param" {
				return "NReq"
			}
		}
		return "NUnknown"
	case *ast.SelectorExpr:
		if id, ok := x.X.(*ast.Ident); ok && x.Sel.Name == "KeyName" {
			if d := f.lastDef(id.Name, id.Pos()); d.kind == "var" && d.typ == "workerrpc.Request" {
				return "NRpc"
			}
		}
		if id, ok := x.X.(*ast.Ident); ok && x.Sel.Name == "Alias" {
			return "(NAliasOf " + f.confExpr(id, depth+1) + ")"
		}
		return "NUnknown"
	}
	return "NUnknown"
}

// isQuery: e denotes <request parameter>.URL.Query()
func (f *c04nFn) isQuery(e ast.Expr, depth int) bool {
	switch x := e.(type) {
	case *ast.Ident:
		d := f.lastDef(x.Name, x.Pos())
		return d.kind == "assign" && d.rhs != nil && d.nlhs == d.nrhs && depth < 6 && f.isQuery(d.rhs, depth+1)
	case *ast.CallExpr:
		se, ok := x.Fun.(*ast.SelectorExpr)
		if !ok || se.Sel.Name != "Query" || len(x.Args) != 0 {
			return false
		}
		u, ok := se.X.(*ast.SelectorExpr)
		if !ok || u.Sel.Name != "URL" {
			return false
		}
		id, ok := u.X.(*ast.Ident)
		return ok && f.lastDef(id.Name, id.Pos()).kind == "param"
	}
	return false
}

// confExpr: Coq term of type cexpr for a Go expression denoting a *config.KeyConfig
func (f *c04nFn) confExpr(e ast.Expr, depth int) string {
	if depth > 6 {
		return "CUnknown"
	}
	switch x := e.(type) {
	case *ast.ParenExpr:
		return f.confExpr(x.X, depth+1)
	case *ast.Ident:
		d := f.lastDef(x.Name, x.Pos())
		switch d.kind {
		case "param":
			return "(CParam " + strconv.Itoa(d.k) + ")"
		case "rangeval":
			if strings.HasSuffix(f.txt(d.rng.X), ".Keys") {
				if _, ok := d.rng.Key.(*ast.Ident); ok {
					return "CMapVal"
				}
			}
		case "assign":
			if d.rhs != nil && (d.nlhs == d.nrhs || d.idx == 0) {
				return f.confExpr(d.rhs, depth+1)
			}
		}
		return "CUnknown"
	case *ast.CallExpr:
		se, ok := x.Fun.(*ast.SelectorExpr)
		if !ok {
			return "CUnknown"
		}
		switch {
		case se.Sel.Name == "GetKey" && len(x.Args) == 1 && c04nIsConfigHolder(f.txt(se.X)):
			return "(CGetKey " + f.nameExpr(x.Args[0], depth+1) + ")"
		case se.Sel.Name == "Config" && len(x.Args) == 0:
			// key.Config() where key is what <token parameter>.GetKey(...) returned
			if id, ok := se.X.(*ast.Ident); ok {
				if d := f.lastDef(id.Name, id.Pos()); d.kind == "assign" && d.rhs != nil && d.idx == 0 {
					if ce, ok := d.rhs.(*ast.CallExpr); ok {
						if s2, ok := ce.Fun.(*ast.SelectorExpr); ok && s2.Sel.Name == "GetKey" {
							if tid, ok := s2.X.(*ast.Ident); ok && f.lastDef(tid.Name, tid.Pos()).kind == "param" {
								return "CKeyConfig"
							}
						}
					}
				}
			}
		}
		return "CUnknown"
	case *ast.IndexExpr:
		if strings.HasSuffix(f.txt(x.X), ".Keys") && c04nIsConfigHolder(strings.TrimSuffix(f.txt(x.X), ".Keys")) {
			return "(CRaw " + f.nameExpr(x.Index, depth+1) + ")"
		}
		return "CUnknown"
	case *ast.SelectorExpr:
		if id, ok := x.X.(*ast.Ident); ok && id.Name == f.recv && f.recv != "" && (x.Sel.Name == "kconf" || x.Sel.Name == "keyConf") {
			return "CField"
		}
		return "CUnknown"
	}
	return "CUnknown"
}

// tokenOf: e denotes <recv>.tokens[<conf>.Token]; returns the cexpr of <conf>
func (f *c04nFn) tokenOf(e ast.Expr, depth int) string {
	switch x := e.(type) {
	case *ast.Ident:
		d := f.lastDef(x.Name, x.Pos())
		if d.kind == "assign" && d.rhs != nil && d.nlhs == d.nrhs && depth < 6 {
			return f.tokenOf(d.rhs, depth+1)
		}
		if d.kind == "param" {
			return "(CTokParam " + strconv.Itoa(d.k) + ")"
		}
	case *ast.IndexExpr:
		if f.txt(x.X) == f.recv+".tokens" {
			if se, ok := x.Index.(*ast.SelectorExpr); ok && se.Sel.Name == "Token" {
				return f.confExpr(se.X, depth+1)
			}
		}
	}
	return "CUnknown"
}

func (f *c04nFn) calls(callee string, within ast.Node) []*ast.CallExpr {
	var out []*ast.CallExpr
	if within == nil {
		within = f.fd.Body
	}
	ast.Inspect(within, func(n ast.Node) bool {
		if ce, ok := n.(*ast.CallExpr); ok && f.txt(ce.Fun) == callee {
			out = append(out, ce)
		}
		return true
	})
	return out
}

func (o *out) c04nEmit(coq, typ, term, comment string) {
	o.f("Definition %s : %s := %s. (* %s *)\n", coq, typ, term, comment)
}

// c04nArg: the single call to `callee` in the function; argument `idx` as nexpr ("n"), cexpr ("c") or token selector ("t")
func (o *out) c04nArg(f *c04nFn, where, callee string, idx int, kind, coq string, within ast.Node) {
	if f == nil {
		o.brokenDef(coq, "function "+where+" not found")
		return
	}
	cs := f.calls(callee, within)
	if len(cs) != 1 {
		o.brokenDef(coq, "expected exactly one call to "+callee+" in "+f.key+", found "+strconv.Itoa(len(cs)))
		return
	}
	if idx >= len(cs[0].Args) {
		o.brokenDef(coq, "call to "+callee+" in "+f.key+" has fewer than "+strconv.Itoa(idx+1)+" arguments")
		return
	}
	a := cs[0].Args[idx]
	switch kind {
	case "n":
		o.c04nEmit(coq, "nexpr", f.nameExpr(a, 0), f.key+": "+f.txt(cs[0]))
	case "c":
		o.c04nEmit(coq, "cexpr", f.confExpr(a, 0), f.key+": "+f.txt(cs[0]))
	case "t":
		o.c04nEmit(coq, "cexpr", f.tokenOf(a, 0), f.key+": "+f.txt(cs[0])+" — the entry whose Token selects the token object")
	}
}

// c04nLitField: field `field` of the single composite literal of type `typ` in the function
func (o *out) c04nLitField(f *c04nFn, typ, field, kind, coq string) {
	if f == nil {
		o.brokenDef(coq, "function not found")
		return
	}
	var lits []*ast.CompositeLit
	ast.Inspect(f.fd.Body, func(n ast.Node) bool {
		if cl, ok := n.(*ast.CompositeLit); ok && cl.Type != nil && f.txt(cl.Type) == typ {
			lits = append(lits, cl)
		}
		return true
	})
	if len(lits) != 1 {
		o.brokenDef(coq, "expected exactly one "+typ+"{...} literal in "+f.key+", found "+strconv.Itoa(len(lits)))
		return
	}
	for _, el := range lits[0].Elts {
		if kv, ok := el.(*ast.KeyValueExpr); ok && f.txt(kv.Key) == field {
			if kind == "n" {
				o.c04nEmit(coq, "nexpr", f.nameExpr(kv.Value, 0), f.key+": "+typ+"{"+field+": "+f.txt(kv.Value)+"}")
			} else {
				o.c04nEmit(coq, "cexpr", f.confExpr(kv.Value, 0), f.key+": "+typ+"{"+field+": "+f.txt(kv.Value)+"}")
			}
			return
		}
	}
	o.brokenDef(coq, typ+" literal in "+f.key+" does not set "+field)
}

func c04nStackCodes(stack []string) []int {
	var out []int
	for _, s := range stack {
		switch s {
		case "open.Token":
			out = append(out, 0)
		case "tokencache.Metrics{}":
			out = append(out, 1)
		case "tokencache.NewLimiter":
			out = append(out, 2)
		case "tokencache.New":
			out = append(out, 3)
		default:
			out = append(out, 99)
		}
	}
	return out
}

func c04Names(o *out) {
	o.f("\n(* ---- key-name flow part ---- *)\n")
	o.f("Inductive nexpr : Type :=\n| NReq        (* the name in the request: query parameter / URL parameter \"key\" *)\n| NMapKey     (* the key of the range over Config.Keys *)\n| NRpc        (* KeyName of the decoded worker RPC request *)\n| NParam (k : Z)      (* k-th parameter of the enclosing function *)\n| NNameOf (c : cexpr) (* c.Name() *)\n| NAliasOf (c : cexpr) (* c.Alias *)\n| NUnknown\nwith cexpr : Type :=\n| CGetKey (n : nexpr)  (* config.GetKey(n) *)\n| CRaw (n : nexpr)     (* config.Keys[n], no alias resolution *)\n| CMapVal              (* the value of the range over Config.Keys (the entry stored under NMapKey) *)\n| CParam (k : Z)\n| CTokParam (k : Z)    (* only as a token selector: the token object is the k-th parameter *)\n| CField               (* the entry stored in the receiver (workerKey.kconf) *)\n| CKeyConfig           (* key.Config() of the key the token returned *)\n| CUnknown.\n")

	// ---------------------------------------------------------------- server views
	sign := c04nLoad("server", "Server", "serveSign")
	o.c04nArg(sign, "serveSign", "s.Config.GetKey", 0, "n", "sign_getkey_arg", nil)
	o.c04nArg(sign, "serveSign", "userInfo.Allowed", 0, "c", "sign_allowed_conf", nil)
	o.c04nArg(sign, "serveSign", "signinit.Init", 2, "t", "sign_init_token", nil)
	o.c04nArg(sign, "serveSign", "signinit.Init", 3, "n", "sign_init_name", nil)
	view := c04nLoad("server", "Server", "serveGetKey")
	o.c04nArg(view, "serveGetKey", "s.Config.GetKey", 0, "n", "view_getkey_arg", nil)
	o.c04nArg(view, "serveGetKey", "userInfo.Allowed", 0, "c", "view_allowed_conf", nil)
	o.c04nArg(view, "serveGetKey", "s.getKeyInfo", 1, "c", "view_info_conf", nil)
	info := c04nLoad("server", "Server", "getKeyInfo")
	o.c04nArg(info, "getKeyInfo", "signinit.InitKey", 1, "t", "info_init_token", nil)
	o.c04nArg(info, "getKeyInfo", "signinit.InitKey", 2, "n", "info_init_name", nil)
	list := c04nLoad("server", "Server", "serveListKeys")
	o.c04nArg(list, "serveListKeys", "s.Config.GetKey", 0, "n", "list_getkey_arg", nil)
	o.c04nArg(list, "serveListKeys", "userInfo.Allowed", 0, "c", "list_allowed_conf", nil)
	o.c04nArg(list, "serveListKeys", "append", 1, "n", "list_appended_name", nil)
	if list != nil { // the hide test in front of the resolution looks at the raw entry
		var first ast.Expr
		ast.Inspect(list.fd.Body, func(n ast.Node) bool {
			if is, ok := n.(*ast.IfStmt); ok && first == nil {
				if se, ok := is.Cond.(*ast.SelectorExpr); ok && se.Sel.Name == "Hide" {
					first = se.X
				}
			}
			return true
		})
		if first == nil {
			o.brokenDef("list_skip_conf", "no `if <entry>.Hide` in serveListKeys")
		} else {
			o.c04nEmit("list_skip_conf", "cexpr", list.confExpr(first, 0), "serveListKeys: if "+list.txt(first)+".Hide { continue }")
		}
	}

	// ---------------------------------------------------------------- signinit
	ini := c04nLoad("internal/signinit", "", "Init")
	o.c04nArg(ini, "signinit.Init", "InitKey", 1, "t", "init_initkey_token", nil)
	o.c04nArg(ini, "signinit.Init", "InitKey", 2, "n", "init_initkey_name", nil)
	ik := c04nLoad("internal/signinit", "", "InitKey")
	o.c04nArg(ik, "signinit.InitKey", "tok.GetKey", 1, "n", "initkey_getkey_name", nil)
	if ik != nil { // LoadTokenCertificates(key, kconf.X509Certificate, ...): argument 1 is <conf>.X509Certificate
		cs := ik.calls("certloader.LoadTokenCertificates", nil)
		if len(cs) == 1 && len(cs[0].Args) >= 2 {
			if se, ok := cs[0].Args[1].(*ast.SelectorExpr); ok && se.Sel.Name == "X509Certificate" {
				o.c04nEmit("initkey_x509_conf", "cexpr", ik.confExpr(se.X, 0), "signinit.InitKey: certificate file of "+ik.txt(se.X))
			} else {
				o.brokenDef("initkey_x509_conf", "second argument of LoadTokenCertificates is not <conf>.X509Certificate")
			}
		} else {
			o.brokenDef("initkey_x509_conf", "no single LoadTokenCertificates call in InitKey")
		}
		// the entry InitKey returns (audit name, timestamp settings)
		var ret ast.Expr
		for _, st := range ik.fd.Body.List {
			if rs, ok := st.(*ast.ReturnStmt); ok && len(rs.Results) == 3 {
				ret = rs.Results[1]
			}
		}
		if ret == nil {
			o.brokenDef("initkey_returned_conf", "InitKey has no final three-value return")
		} else {
			o.c04nEmit("initkey_returned_conf", "cexpr", ik.confExpr(ret, 0), "signinit.InitKey returns "+ik.txt(ret))
		}
	}

	// ---------------------------------------------------------------- token wrappers of the server (token/tokencache)
	cache := c04nLoad("token/tokencache", "Cache", "GetKey")
	o.c04nArg(cache, "Cache.GetKey", "c.Token.GetKey", 1, "n", "cache_inner_name", nil)
	if cache != nil { // every index into c.keys
		var idx []string
		ast.Inspect(cache.fd.Body, func(n ast.Node) bool {
			if ie, ok := n.(*ast.IndexExpr); ok && cache.txt(ie.X) == cache.recv+".keys" {
				idx = append(idx, cache.nameExpr(ie.Index, 0))
			}
			return true
		})
		o.f("Definition cache_index_names : list nexpr := [%s]. (* tokencache:Cache.GetKey: every index into c.keys *)\n", strings.Join(idx, "; "))
	} else {
		o.brokenDef("cache_index_names", "Cache.GetKey not found")
	}
	o.c04nArg(c04nLoad("token/tokencache", "Metrics", "GetKey"), "Metrics.GetKey", "m.Token.GetKey", 1, "n", "metrics_inner_name", nil)
	o.c04nArg(c04nLoad("token/tokencache", "RateLimited", "GetKey"), "RateLimited.GetKey", "r.Token.GetKey", 1, "n", "limiter_inner_name", nil)

	// ---------------------------------------------------------------- real tokens
	ft := c04nLoad("token/filetoken", "fileToken", "GetKey")
	o.c04nArg(ft, "fileToken.GetKey", "tok.config.GetKey", 0, "n", "file_resolve_name", nil)
	if ft != nil {
		var mat ast.Expr
		for _, callee := range []string{"ioutil.ReadFile", "os.ReadFile"} {
			for _, ce := range ft.calls(callee, nil) {
				if len(ce.Args) == 1 {
					if se, ok := ce.Args[0].(*ast.SelectorExpr); ok && se.Sel.Name == "KeyFile" {
						mat = se.X
					}
				}
			}
		}
		if mat == nil {
			o.brokenDef("file_material_conf", "fileToken.GetKey does not read <conf>.KeyFile")
		} else {
			o.c04nEmit("file_material_conf", "cexpr", ft.confExpr(mat, 0), "fileToken.GetKey reads the private key from "+ft.txt(mat)+".KeyFile")
		}
	}
	o.c04nLitField(ft, "fileKey", "keyConf", "c", "file_key_conf")
	p11 := c04nLoad("token/p11token", "Token", "GetKey")
	o.c04nArg(p11, "p11token.GetKey", "token.config.GetKey", 0, "n", "p11_resolve_name", nil)
	o.c04nArg(p11, "p11token.GetKey", "token.getKey", 0, "c", "p11_material_conf", nil)

	// ---------------------------------------------------------------- worker (token/worker client, cmdline/workercmd handler)
	wk := c04nLoad("token/worker", "WorkerToken", "GetKey")
	o.c04nArg(wk, "WorkerToken.GetKey", "t.config.GetKey", 0, "n", "wk_resolve_name", nil)
	o.c04nLitField(wk, "workerrpc.Request", "KeyName", "n", "wk_rpc_name")
	o.c04nLitField(wk, "workerKey", "kconf", "c", "wk_key_conf")
	ws := c04nLoad("token/worker", "workerKey", "SignContext")
	o.c04nLitField(ws, "workerrpc.Request", "KeyName", "n", "wk_sign_name")
	if wc := c04nLoad("token/worker", "workerKey", "Config"); wc != nil && len(wc.fd.Body.List) == 1 {
		if rs, ok := wc.fd.Body.List[0].(*ast.ReturnStmt); ok && len(rs.Results) == 1 {
			o.c04nEmit("wk_config_conf", "cexpr", wc.confExpr(rs.Results[0], 0), "workerKey.Config returns "+wc.txt(rs.Results[0]))
		} else {
			o.brokenDef("wk_config_conf", "workerKey.Config is not a single return")
		}
	} else {
		o.brokenDef("wk_config_conf", "workerKey.Config not found or not a single statement")
	}
	wh := c04nLoad("cmdline/workercmd", "handler", "handle")
	if wh == nil {
		o.brokenDef("wh_getkey_name", "workercmd handler.handle not found")
	} else {
		found := map[string]bool{}
		ast.Inspect(wh.fd.Body, func(n ast.Node) bool {
			cc, ok := n.(*ast.CaseClause)
			if !ok || len(cc.List) != 1 {
				return true
			}
			switch wh.txt(cc.List[0]) {
			case "workerrpc.GetKey":
				found["g"] = true
				o.c04nArg(wh, "handler.handle", "h.token.GetKey", 1, "n", "wh_getkey_name", cc)
			case "workerrpc.Sign":
				found["s"] = true
				o.c04nArg(wh, "handler.handle", "h.token.GetKey", 1, "n", "wh_sign_name", cc)
			}
			return true
		})
		if !found["g"] {
			o.brokenDef("wh_getkey_name", "no case workerrpc.GetKey in handler.handle")
		}
		if !found["s"] {
			o.brokenDef("wh_sign_name", "no case workerrpc.Sign in handler.handle")
		}
	}

	// ---------------------------------------------------------------- config: what Name() is
	if nf := c04nLoad("config", "KeyConfig", "Name"); nf != nil && len(nf.fd.Body.List) == 1 {
		rs, ok := nf.fd.Body.List[0].(*ast.ReturnStmt)
		o.f("Definition keyconf_name_is_field : bool := %v. (* config:KeyConfig.Name is `return %s.name` *)\n", ok && len(rs.Results) == 1 && nf.txt(rs.Results[0]) == nf.recv+".name", nf.recv)
	} else {
		o.brokenDef("keyconf_name_is_field", "KeyConfig.Name not found or not a single statement")
	}
	if nz := c04nLoad("config", "Config", "Normalize"); nz != nil {
		sets, others := false, 0
		ast.Inspect(nz.fd.Body, func(n ast.Node) bool {
			switch x := n.(type) {
			case *ast.RangeStmt:
				k, ok1 := x.Key.(*ast.Ident)
				v, ok2 := x.Value.(*ast.Ident)
				if ok1 && ok2 && nz.txt(x.X) == nz.recv+".Keys" {
					for _, st := range x.Body.List {
						if nz.txt(st) == v.Name+".name = "+k.Name {
							sets = true
						}
					}
				}
			case *ast.AssignStmt:
				for _, l := range x.Lhs {
					if se, ok := l.(*ast.SelectorExpr); ok && se.Sel.Name == "name" {
						others++
					}
				}
			}
			return true
		})
		o.f("Definition normalize_names_keys_by_map_key : bool := %v. (* config:Config.Normalize: for keyName, keyConf := range config.Keys { keyConf.name = keyName } *)\n", sets)
		o.f("Definition normalize_name_assignments : Z := %d. (* assignments to a .name field in Normalize (token names, key names) *)\n", others)
		def := ""
		ast.Inspect(nz.fd.Body, func(n ast.Node) bool {
			if as, ok := n.(*ast.AssignStmt); ok && len(as.Lhs) == 1 && len(as.Rhs) == 1 && strings.HasSuffix(nz.txt(as.Lhs[0]), ".Type") {
				if bl, ok := as.Rhs[0].(*ast.BasicLit); ok {
					def, _ = strconv.Unquote(bl.Value)
				}
			}
			return true
		})
		o.f("Definition default_token_type : string := %s. (* config:Config.Normalize: a token without type gets this one *)\n", c04str(def))
	} else {
		o.brokenDef("normalize_names_keys_by_map_key", "Config.Normalize not found")
	}
	// GetKey: which map entry the alias step reads
	gk := c04nLoad("config", "Config", "GetKey")
	if gk == nil {
		o.brokenDef("getkey_alias_lookup", "Config.GetKey not found")
	} else {
		var raws []string
		var ret ast.Expr
		ast.Inspect(gk.fd.Body, func(n ast.Node) bool {
			switch x := n.(type) {
			case *ast.AssignStmt:
				if len(x.Rhs) == 1 {
					if ie, ok := x.Rhs[0].(*ast.IndexExpr); ok && gk.txt(ie.X) == gk.recv+".Keys" {
						raws = append(raws, gk.nameExpr(ie.Index, 0))
					}
				}
			case *ast.ReturnStmt:
				if len(x.Results) == 2 && gk.txt(x.Results[1]) == "nil" {
					ret = x.Results[0]
				}
			}
			return true
		})
		o.f("Definition getkey_map_lookups : list nexpr := [%s]. (* config:Config.GetKey: indexes into config.Keys, in source order *)\n", strings.Join(raws, "; "))
		if ret == nil {
			o.brokenDef("getkey_returns", "Config.GetKey has no `return <conf>, nil`")
		} else {
			o.c04nEmit("getkey_returns", "cexpr", gk.confExpr(ret, 0), "config:Config.GetKey returns the entry found LAST ("+gk.txt(ret)+")")
		}
	}

	// ---------------------------------------------------------------- server.openTokens: which token types sit behind a worker; wrappers of the others
	ot := c04nLoad("server", "Server", "openTokens")
	if ot == nil {
		o.brokenDef("open_worker_types", "Server.openTokens not found")
	} else {
		var workerTypes, stack []string
		okShape := false
		ast.Inspect(ot.fd.Body, func(n ast.Node) bool {
			sw, ok := n.(*ast.SwitchStmt)
			if !ok || sw.Tag == nil || ot.txt(sw.Tag) != "tconf.Type" {
				return true
			}
			okShape = true
			for _, st := range sw.Body.List {
				cc := st.(*ast.CaseClause)
				isWorker := len(ot.calls("worker.New", cc)) > 0
				if cc.List == nil { // default
					if isWorker {
						workerTypes = append(workerTypes, "*")
					}
					ast.Inspect(cc, func(m ast.Node) bool {
						switch y := m.(type) {
						case *ast.CallExpr:
							t := ot.txt(y.Fun)
							if t == "open.Token" || strings.HasPrefix(t, "tokencache.") {
								stack = append(stack, t)
							}
						case *ast.CompositeLit:
							if y.Type != nil && strings.HasPrefix(ot.txt(y.Type), "tokencache.") {
								stack = append(stack, ot.txt(y.Type)+"{}")
							}
						}
						return true
					})
					continue
				}
				for _, e := range cc.List {
					if bl, ok := e.(*ast.BasicLit); ok && isWorker {
						s, _ := strconv.Unquote(bl.Value)
						workerTypes = append(workerTypes, s)
					} else if isWorker {
						workerTypes = append(workerTypes, "?")
					}
				}
			}
			return false
		})
		if !okShape {
			o.brokenDef("open_worker_types", "openTokens has no switch on tconf.Type")
		} else {
			o.c04StrList("open_worker_types", workerTypes, "server.openTokens: token types opened through token/worker (\"*\" = the default arm)")
			o.f("Definition open_default_stack : list Z := %s. (* server.openTokens, default arm, source order, innermost first: %s ; codes: 0 open.Token, 1 tokencache.Metrics{}, 2 tokencache.NewLimiter, 3 tokencache.New (key cache), 99 anything else *)\n", c04ZList(c04nStackCodes(stack)), strings.Join(stack, ", "))
		}
	}
	// worker process: wrappers around its token
	if ph, fd := findFunc("cmdline/workercmd", "", "runWorker"); fd != nil {
		var stack []string
		ast.Inspect(fd.Body, func(m ast.Node) bool {
			if y, ok := m.(*ast.CallExpr); ok {
				t := c04norm(printNode(ph.fset, y.Fun))
				if t == "open.Token" || strings.HasPrefix(t, "tokencache.") {
					stack = append(stack, t)
				}
			}
			if y, ok := m.(*ast.CompositeLit); ok && y.Type != nil && strings.HasPrefix(c04norm(printNode(ph.fset, y.Type)), "tokencache.") {
				stack = append(stack, c04norm(printNode(ph.fset, y.Type))+"{}")
			}
			return true
		})
		o.f("Definition worker_process_stack : list Z := %s. (* cmdline/workercmd runWorker, innermost first: %s ; same codes *)\n", c04ZList(c04nStackCodes(stack)), strings.Join(stack, ", "))
	} else {
		o.brokenDef("worker_process_stack", "cmdline/workercmd: runWorker not found")
	}
	for _, fn := range [][3]string{{"internal/signinit", "", "Init"}, {"internal/signinit", "", "InitKey"}, {"server", "Server", "getKeyInfo"},
		{"token/filetoken", "fileToken", "GetKey"}, {"token/tokencache", "Cache", "GetKey"}, {"token/worker", "WorkerToken", "GetKey"},
		{"token/worker", "workerKey", "SignContext"}, {"cmdline/workercmd", "handler", "handle"}, {"server", "Server", "openTokens"}, {"config", "KeyConfig", "Name"}} {
		fingerprint(fn[0], fn[1], fn[2])
	}
}
