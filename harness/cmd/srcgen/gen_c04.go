package main

func init() {
	generators["C04_gen"] = func(o *out) {
		const c = "config"
		gk := map[string]string{`keyConf.Alias != ""`: "has_alias", `keyConf.Token == ""`: "no_token", "!ok": "(negb found)"}
		gt := map[string]string{`keyConf.Alias != ""`: "bool", `keyConf.Token == ""`: "bool", "!ok": "bool"}
		o.condOf(funcSpec{dir: c, recv: "Config", name: "GetKey", coqName: "getkey_missing",
			params: "(found : bool)", retType: "bool", leaves: gk, types: gt}, "ok", 0)
		o.condOf(funcSpec{dir: c, recv: "Config", name: "GetKey", coqName: "getkey_follow_alias",
			params: "(has_alias : bool)", retType: "bool", leaves: gk, types: gt}, "keyConf.Alias", 0)
		o.condOf(funcSpec{dir: c, recv: "Config", name: "GetKey", coqName: "getkey_alias_dangling",
			params: "(found : bool)", retType: "bool", leaves: gk, types: gt}, "ok", 1)
		o.condOf(funcSpec{dir: c, recv: "Config", name: "GetKey", coqName: "getkey_needs_token",
			params: "(no_token : bool)", retType: "bool", leaves: gk, types: gt}, "keyConf.Token", 0)
		const s = "server"
		sl := map[string]string{`keyName == ""`: "no_key", `filename == ""`: "no_filename", "err != nil": "getkey_failed",
			"userInfo.Allowed(keyConf)": "allowed", "mod == nil": "no_sigtype", "hash == 0": "bad_digest", "tok == nil": "no_token"}
		stt := map[string]string{}
		for k := range sl {
			stt[k] = "bool"
		}
		o.condOf(funcSpec{dir: s, recv: "Server", name: "serveSign", coqName: "sign_denied",
			params: "(allowed : bool)", retType: "bool", leaves: sl, types: stt}, "userInfo.Allowed", 0)
		o.callOrder(s, "Server", "serveSign", "sign_call_order",
			[]string{"RequestInfo", "GetKey", "Allowed", "ByName", "HashByName", "FlagsFromQuery", "Init", "Sign", "PublishAudit", "Write"})
		ll := map[string]string{"keyConf.Hide": "hide", "err != nil": "getkey_failed", "!keyConf.Hide && userInfo.Allowed(keyConf)": "((negb target_hide) && allowed)"}
		lt := map[string]string{"keyConf.Hide": "bool", "err != nil": "bool", "!keyConf.Hide && userInfo.Allowed(keyConf)": "bool"}
		o.condOf(funcSpec{dir: s, recv: "Server", name: "serveListKeys", coqName: "list_skip_hidden",
			params: "(hide : bool)", retType: "bool", leaves: ll, types: lt}, "keyConf.Hide", 0)
		o.condOf(funcSpec{dir: s, recv: "Server", name: "serveListKeys", coqName: "list_include",
			params: "(target_hide allowed : bool)", retType: "bool",
			leaves: map[string]string{"keyConf.Hide": "target_hide", "userInfo.Allowed(keyConf)": "allowed"},
			types:  map[string]string{"keyConf.Hide": "bool", "userInfo.Allowed(keyConf)": "bool"}}, "userInfo.Allowed", 0)
		o.condOf(funcSpec{dir: s, recv: "Server", name: "serveGetKey", coqName: "getkey_view_allowed",
			params: "(getkey_ok allowed : bool)", retType: "bool",
			leaves: map[string]string{"err == nil": "getkey_ok", "userInfo.Allowed(keyConf)": "allowed"},
			types:  map[string]string{"err == nil": "bool", "userInfo.Allowed(keyConf)": "bool"}}, "userInfo.Allowed", 0)
		const h = "internal/httperror"
		_ = h
		for _, fn := range [][3]string{{"internal/authmodel", "CertificateAuth", "Authenticate"}, {"internal/authmodel", "CertificateInfo", "Allowed"},
			{"internal/authmodel", "PolicyInfo", "Allowed"}, {"internal/authmodel", "PolicyAuth", "Authenticate"}, {"internal/authmodel", "", "Middleware"},
			{"internal/realip", "", "trustedClient"}, {"internal/realip", "", "PeerCertificates"}, {"internal/realip", "", "hopTrusted"},
			{"internal/realip", "", "Middleware"}, {"config", "Config", "GetKey"}, {"config", "ClientConfig", "Match"},
			{"server", "Server", "serveSign"}, {"server", "Server", "serveGetKey"}, {"server", "Server", "serveListKeys"}, {"server", "Server", "Handler"}} {
			fingerprint(fn[0], fn[1], fn[2])
		}
	}
}
