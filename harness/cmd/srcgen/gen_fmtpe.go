package main

// FmtPE_gen: constants, offsets, field widths and branch conditions of relic's PE/COFF Authenticode code
// (lib/authenticode pedigest.go pesign.go peverify.go checksum.go, signers/pecoff/signer.go).

import (
	"fmt"
	"go/ast"
	"go/token"
	"strings"
)

// ---- helpers local to this generator (the shared translator has no bit operators, composite literals or call arguments)

// peTr extends tr.expr with << >> & | and uint32() wrap-around, falling back to the shared translator for the rest.
type peTr struct {
	t *tr
}

func (p *peTr) expr(e ast.Expr) string {
	s := printNode(p.t.fset, e)
	if c, ok := p.t.leaves[s]; ok {
		return c
	}
	switch x := e.(type) {
	case *ast.ParenExpr:
		return "(" + p.expr(x.X) + ")"
	case *ast.BinaryExpr:
		a, b := p.expr(x.X), p.expr(x.Y)
		switch x.Op {
		case token.SHL:
			return "(Z.shiftl " + a + " " + b + ")"
		case token.SHR:
			return "(Z.shiftr " + a + " " + b + ")"
		case token.AND:
			return "(Z.land " + a + " " + b + ")"
		case token.OR:
			return "(Z.lor " + a + " " + b + ")"
		case token.LAND:
			return "(" + a + " && " + b + ")"
		case token.LOR:
			return "(" + a + " || " + b + ")"
		case token.ADD:
			return "(" + a + " + " + b + ")"
		case token.SUB:
			return "(" + a + " - " + b + ")"
		case token.MUL:
			return "(" + a + " * " + b + ")"
		case token.QUO:
			return "(Z.quot " + a + " " + b + ")"
		case token.REM:
			return "(Z.rem " + a + " " + b + ")"
		case token.EQL:
			return "(" + a + " =? " + b + ")"
		case token.NEQ:
			return "(negb (" + a + " =? " + b + "))"
		case token.LSS:
			return "(" + a + " <? " + b + ")"
		case token.LEQ:
			return "(" + a + " <=? " + b + ")"
		case token.GTR:
			return "(" + a + " >? " + b + ")"
		case token.GEQ:
			return "(" + a + " >=? " + b + ")"
		}
	case *ast.CallExpr:
		fn := printNode(p.t.fset, x.Fun)
		if len(x.Args) == 1 {
			switch fn {
			case "uint32":
				return "(Z.modulo " + p.expr(x.Args[0]) + " 4294967296)"
			case "uint16":
				return "(Z.modulo " + p.expr(x.Args[0]) + " 65536)"
			case "int", "int64", "uint64":
				return p.expr(x.Args[0])
			}
		}
	}
	return p.t.expr(e)
}

func (o *out) peEmit(fs funcSpec, found ast.Expr, p *pkgInfo, what string) {
	if found == nil {
		o.brokenDef(fs.coqName, what+" not found in "+fs.name)
		return
	}
	t := o.newTr(p, fs)
	c := (&peTr{t}).expr(found)
	if t.err != nil {
		o.brokenDef(fs.coqName, t.err.Error())
		return
	}
	o.f("Definition %s %s : %s :=\n  %s.\n(* from %s:%s.%s : %s %s *)\n", fs.coqName, fs.params, fs.retType, c, fs.dir, fs.recv, fs.name, what,
		strings.ReplaceAll(printNode(p.fset, found), "*)", "* )"))
}

// peCond: like condOf (nth if/for condition containing marker) but through peTr
func (o *out) peCond(fs funcSpec, marker string, nth int) {
	p, fd := findFunc(fs.dir, fs.recv, fs.name)
	if fd == nil {
		o.brokenDef(fs.coqName, "function "+fs.name+" not found")
		return
	}
	var found ast.Expr
	k := 0
	ast.Inspect(fd.Body, func(n ast.Node) bool {
		if found != nil {
			return false
		}
		var cond ast.Expr
		if is, ok := n.(*ast.IfStmt); ok {
			cond = is.Cond
		}
		if f, ok := n.(*ast.ForStmt); ok && f.Cond != nil {
			cond = f.Cond
		}
		if cond != nil && strings.Contains(printNode(p.fset, cond), marker) {
			if k == nth {
				found = cond
				return false
			}
			k++
		}
		return true
	})
	o.peEmit(fs, found, p, fmt.Sprintf("condition #%d on `%s`", nth, marker))
}

// peAssign: right-hand side of the nth plain assignment/definition to lhs (= or :=, not op=)
func (o *out) peAssign(fs funcSpec, lhs string, nth int) {
	p, fd := findFunc(fs.dir, fs.recv, fs.name)
	if fd == nil {
		o.brokenDef(fs.coqName, "function "+fs.name+" not found")
		return
	}
	var found ast.Expr
	k := 0
	ast.Inspect(fd.Body, func(n ast.Node) bool {
		if found != nil {
			return false
		}
		if as, ok := n.(*ast.AssignStmt); ok && len(as.Lhs) == 1 && len(as.Rhs) == 1 && (as.Tok == token.ASSIGN || as.Tok == token.DEFINE) {
			if printNode(p.fset, as.Lhs[0]) == lhs {
				if k == nth {
					found = as.Rhs[0]
					return false
				}
				k++
			}
		}
		return true
	})
	o.peEmit(fs, found, p, fmt.Sprintf("assignment #%d to `%s` =", nth, lhs))
}

// peCallArg: argument argIdx of the nth call whose printed callee equals callee
func (o *out) peCallArg(fs funcSpec, callee string, nth, argIdx int) {
	p, fd := findFunc(fs.dir, fs.recv, fs.name)
	if fd == nil {
		o.brokenDef(fs.coqName, "function "+fs.name+" not found")
		return
	}
	var found ast.Expr
	k := 0
	ast.Inspect(fd.Body, func(n ast.Node) bool {
		if found != nil {
			return false
		}
		if ce, ok := n.(*ast.CallExpr); ok && printNode(p.fset, ce.Fun) == callee && len(ce.Args) > argIdx {
			if k == nth {
				found = ce.Args[argIdx]
				return false
			}
			k++
		}
		return true
	})
	o.peEmit(fs, found, p, fmt.Sprintf("argument %d of call #%d to %s:", argIdx, nth, callee))
}

// peField: value of `field:` in the first composite literal of type typ
func (o *out) peField(fs funcSpec, typ, field string) {
	p, fd := findFunc(fs.dir, fs.recv, fs.name)
	if fd == nil {
		o.brokenDef(fs.coqName, "function "+fs.name+" not found")
		return
	}
	var found ast.Expr
	ast.Inspect(fd.Body, func(n ast.Node) bool {
		if found != nil {
			return false
		}
		if cl, ok := n.(*ast.CompositeLit); ok && cl.Type != nil && printNode(p.fset, cl.Type) == typ {
			for _, el := range cl.Elts {
				if kv, ok := el.(*ast.KeyValueExpr); ok && printNode(p.fset, kv.Key) == field {
					found = kv.Value
				}
			}
		}
		return true
	})
	o.peEmit(fs, found, p, "field "+typ+"."+field)
}

// peSlice: low (which=0) or high (which=1) bound of the nth slice expression over base
func (o *out) peSlice(fs funcSpec, base string, nth, which int) {
	p, fd := findFunc(fs.dir, fs.recv, fs.name)
	if fd == nil {
		o.brokenDef(fs.coqName, "function "+fs.name+" not found")
		return
	}
	var found ast.Expr
	k := 0
	ast.Inspect(fd.Body, func(n ast.Node) bool {
		if found != nil {
			return false
		}
		if se, ok := n.(*ast.SliceExpr); ok && printNode(p.fset, se.X) == base {
			if k == nth {
				if which == 0 {
					found = se.Low
				} else {
					found = se.High
				}
				if found == nil {
					found = &ast.BasicLit{Kind: token.INT, Value: "-1"} // bound omitted
				}
				return false
			}
			k++
		}
		return true
	})
	o.peEmit(fs, found, p, fmt.Sprintf("slice #%d of %s bound %d:", nth, base, which))
}

// peReturn: result resIdx of the nth return statement with at least resIdx+1 results
func (o *out) peReturn(fs funcSpec, nth, resIdx int) {
	p, fd := findFunc(fs.dir, fs.recv, fs.name)
	if fd == nil {
		o.brokenDef(fs.coqName, "function "+fs.name+" not found")
		return
	}
	var found ast.Expr
	k := 0
	ast.Inspect(fd.Body, func(n ast.Node) bool {
		if found != nil {
			return false
		}
		if rs, ok := n.(*ast.ReturnStmt); ok && len(rs.Results) > resIdx {
			if k == nth {
				found = rs.Results[resIdx]
				return false
			}
			k++
		}
		return true
	})
	o.peEmit(fs, found, p, fmt.Sprintf("return #%d result %d:", nth, resIdx))
}

// pePageSizes: the machine switch of readOptHeader -> list of machine ids with the large page size, both sizes
func (o *out) pePageSizes(dir string) {
	p, fd := findFunc(dir, "", "readOptHeader")
	if fd == nil {
		o.brokenDef("pe_page_machines", "readOptHeader not found")
		return
	}
	stdlib := map[string]int64{"pe.IMAGE_FILE_MACHINE_IA64": 0x200}
	var machines []string
	var sizes []string
	ok := false
	ast.Inspect(fd.Body, func(n ast.Node) bool {
		sw, is := n.(*ast.SwitchStmt)
		if !is || sw.Tag == nil || printNode(p.fset, sw.Tag) != "fh.Machine" {
			return true
		}
		ok = true
		for _, c := range sw.Body.List {
			cc := c.(*ast.CaseClause)
			for _, e := range cc.List {
				s := printNode(p.fset, e)
				if v, has := stdlib[s]; has {
					machines = append(machines, fmt.Sprint(v))
				} else if v, err := evalConst(dir, e, 0); err == nil {
					machines = append(machines, fmt.Sprint(v.i))
				} else {
					ok = false
				}
			}
			for _, st := range cc.Body {
				if as, is := st.(*ast.AssignStmt); is && len(as.Rhs) == 1 {
					if v, err := evalConst(dir, as.Rhs[0], 0); err == nil {
						sizes = append(sizes, fmt.Sprint(v.i))
					}
				}
			}
		}
		return false
	})
	if !ok || len(sizes) != 2 {
		o.brokenDef("pe_page_machines", "machine switch of readOptHeader not recognised")
		return
	}
	o.f("Definition pe_page_machines : list Z := [%s]. (* readOptHeader: machines with the first page size *)\n", strings.Join(machines, "; "))
	o.f("Definition pe_page_size_listed : Z := %s.\nDefinition pe_page_size_default : Z := %s.\n", sizes[0], sizes[1])
}

func init() {
	generators["FmtPE_gen"] = func(o *out) {
		const d = "lib/authenticode"
		fn := func(name, coq, params, ret string, leaves map[string]string) funcSpec {
			return funcSpec{dir: d, name: name, coqName: coq, params: params, retType: ret, leaves: leaves}
		}
		meth := func(recv, name, coq, params, ret string, leaves map[string]string) funcSpec {
			return funcSpec{dir: d, recv: recv, name: name, coqName: coq, params: params, retType: ret, leaves: leaves}
		}
		o.constInt(d, "dosHeaderSize", "pe_dos_header_size")
		o.constInt(d, "optHeaderMagicPE32", "pe_magic_pe32")
		o.constInt(d, "optHeaderMagicPE32Plus", "pe_magic_pe32plus")
		// ---- readDosHeader
		o.peCond(fn("readDosHeader", "pe_dos_bad_magic", "(b0 b1 : Z)", "bool",
			map[string]string{"dosheader[0]": "b0", "dosheader[1]": "b1"}), "dosheader", 0)
		o.peSlice(fn("readDosHeader", "pe_lfanew_off", "", "Z", nil), "dosheader", 0, 0)
		o.peCond(fn("readDosHeader", "pe_lfanew_overlaps_dos", "(pe_start : Z)", "bool", map[string]string{"peStart": "pe_start"}), "peStart", 0)
		o.peCallArg(fn("readDosHeader", "pe_dos_read_len", "", "Z", nil), "readAndHash", 0, 2)
		// ---- DigestPE: how far the header copy goes before the NT headers
		o.peCallArg(fn("DigestPE", "pe_dos_stub_len", "(pe_start : Z)", "Z", map[string]string{"peStart": "pe_start"}), "io.CopyN", 0, 2)
		// ---- readCoffHeader
		o.peCond(fn("readCoffHeader", "pe_nt_bad_magic", "(m0 m1 m2 m3 : Z)", "bool",
			map[string]string{"magic[0]": "m0", "magic[1]": "m1", "magic[2]": "m2", "magic[3]": "m3"}), "magic[0]", 0)
		o.peCallArg(fn("readCoffHeader", "pe_nt_magic_len", "", "Z", nil), "readAndHash", 0, 2)
		o.peCallArg(fn("readCoffHeader", "pe_coff_len", "", "Z", nil), "readAndHash", 1, 2)
		// ---- readOptHeader
		o.pePageSizes(d)
		o.peAssign(fn("readOptHeader", "pe_cksum_start", "", "Z", nil), "cksumStart", 0)
		o.peAssign(fn("readOptHeader", "pe_cksum_end", "(cksum_start : Z)", "Z", map[string]string{"cksumStart": "cksum_start"}), "cksumEnd", 0)
		o.peAssign(fn("readOptHeader", "pe_dd4_start_32", "", "Z", nil), "dd4Start", 0)
		o.peAssign(fn("readOptHeader", "pe_dd4_start_64", "", "Z", nil), "dd4Start", 1)
		o.peAssign(fn("readOptHeader", "pe_dd4_end", "(dd4_start : Z)", "Z", map[string]string{"dd4Start": "dd4_start"}), "dd4End", 0)
		o.peSlice(fn("readOptHeader", "pe_optmagic_len", "", "Z", nil), "buf", 0, 1)
		o.peCond(fn("readOptHeader", "pe_opt_short", "(buf_len : Z)", "bool", map[string]string{"len(buf)": "buf_len"}), "len(buf) < 2", 0)
		ohLeaves := map[string]string{"peStart": "pe_start", "fh.SizeOfOptionalHeader": "opt_size", "dd4Start": "dd4_start", "opt.NumberOfRvaAndSizes": "num_rva"}
		o.peCond(fn("readOptHeader", "pe_no_room_32", "(num_rva : Z)", "bool", ohLeaves), "NumberOfRvaAndSizes", 0)
		o.peCond(fn("readOptHeader", "pe_no_room_64", "(num_rva : Z)", "bool", ohLeaves), "NumberOfRvaAndSizes", 1)
		o.peAssign(fn("readOptHeader", "pe_sectbl_start", "(pe_start opt_size : Z)", "Z", ohLeaves), "hvals.secTblStart", 0)
		o.peAssign(fn("readOptHeader", "pe_pos_ddcert", "(pe_start dd4_start : Z)", "Z", ohLeaves), "hvals.posDDCert", 0)
		o.hasStmt(d, "", "readOptHeader", "_, _ = d.Write(buf[:cksumStart])", "pe_hashes_before_cksum")
		o.hasStmt(d, "", "readOptHeader", "_, _ = d.Write(buf[cksumEnd:dd4Start])", "pe_hashes_between")
		o.hasStmt(d, "", "readOptHeader", "_, _ = d.Write(buf[dd4End:])", "pe_hashes_after_dd4")
		// ---- readSections
		rsLeaves := map[string]string{"fh.NumberOfSections": "nsec", "hvals.secTblStart": "sectbl_start", "size": "tbl_size", "secTblEnd": "sectbl_end",
			"hvals.sizeOfHdr": "size_of_hdr", "section.SizeOfRawData": "raw_size", "p": "ptr", "i": "i", "len(sections)": "nsec"}
		o.peAssign(fn("readSections", "pe_sectbl_size", "(nsec : Z)", "Z", rsLeaves), "size", 0)
		o.peAssign(fn("readSections", "pe_sectbl_end", "(sectbl_start tbl_size : Z)", "Z", rsLeaves), "secTblEnd", 0)
		o.peCond(fn("readSections", "pe_table_overlaps_hdr", "(sectbl_end size_of_hdr : Z)", "bool", rsLeaves), "hvals.sizeOfHdr", 0)
		o.peCond(fn("readSections", "pe_rs_skip_empty", "(raw_size : Z)", "bool", rsLeaves), "section.SizeOfRawData", 0)
		o.peCond(fn("readSections", "pe_sec_overlaps_table", "(ptr sectbl_end : Z)", "bool", rsLeaves), "secTblEnd", 1)
		o.peCond(fn("readSections", "pe_sec_before_hdr_end", "(ptr size_of_hdr : Z)", "bool", rsLeaves), "hvals.sizeOfHdr", 1)
		o.peCond(fn("readSections", "pe_sec_not_last", "(i nsec : Z)", "bool", rsLeaves), "len(sections)", 0)
		o.hasStmt(d, "", "readSections", "hvals.sizeOfHdr = p", "pe_hdr_shrinks_to_section")
		o.hasStmt(d, "", "readSections", "sections[i].SizeOfRawData = align32(section.SizeOfRawData, hvals.fileAlign)", "pe_aligns_mid_sections")
		o.peCallArg(fn("readSections", "pe_hdr_padding_len", "(size_of_hdr sectbl_end : Z)", "Z", rsLeaves), "io.CopyN", 0, 2)
		alLeaves := map[string]string{"addr": "addr", "align": "align", "n": "n"}
		o.peAssign(fn("align32", "pe_align_rem", "(addr align : Z)", "Z", alLeaves), "n", 0)
		o.peCond(fn("align32", "pe_align_zero", "(align : Z)", "bool", alLeaves), "align == 0", 0)
		o.peCond(fn("align32", "pe_align_needed", "(n : Z)", "bool", alLeaves), "n != 0", 0)
		o.hasStmt(d, "", "align32", "addr += align - n", "pe_align_adds")
		// ---- DigestPE main loop
		dgLeaves := map[string]string{"len(sections)": "nsec", "sections[0].PointerToRawData": "ptr0", "hvals.sizeOfHdr": "size_of_hdr",
			"sh.SizeOfRawData": "raw_size", "sh.PointerToRawData": "ptr", "nextSection": "next_section", "origSize": "orig_size", "n": "n"}
		o.peCond(fn("DigestPE", "pe_has_gap", "(nsec ptr0 size_of_hdr : Z)", "bool", dgLeaves), "sections[0]", 0)
		o.peCallArg(fn("DigestPE", "pe_gap_len", "(ptr0 size_of_hdr : Z)", "Z", dgLeaves), "io.CopyN", 1, 2)
		o.peCond(fn("DigestPE", "pe_dg_skip_empty", "(raw_size : Z)", "bool", dgLeaves), "sh.SizeOfRawData", 0)
		o.peCond(fn("DigestPE", "pe_sec_not_contiguous", "(ptr next_section : Z)", "bool", dgLeaves), "nextSection", 0)
		o.hasStmt(d, "", "DigestPE", "nextSection += int64(sh.SizeOfRawData)", "pe_next_advances")
		o.peAssign(fn("DigestPE", "pe_pad_rem", "(orig_size : Z)", "Z", dgLeaves), "n", 0)
		o.peCond(fn("DigestPE", "pe_pad_needed", "(n : Z)", "bool", dgLeaves), "n != 0", 0)
		o.peAssign(fn("DigestPE", "pe_pad_len", "(n : Z)", "Z", dgLeaves), "padding", 0)
		o.hasStmt(d, "", "DigestPE", "certStart += padding", "pe_certstart_padded")
		o.hasStmt(d, "", "DigestPE", "digester.imageDigest.Write(make([]byte, padding))", "pe_hashes_padding")
		// ---- readTrailer
		rtLeaves := map[string]string{"certSize": "cert_size", "certStart": "cert_start", "lastSection": "last_section", "n": "n"}
		o.peCond(fn("readTrailer", "pe_tr_unsigned", "(cert_size : Z)", "bool", rtLeaves), "certSize", 0)
		o.peCond(fn("readTrailer", "pe_tr_sig_overlaps", "(cert_start last_section : Z)", "bool", rtLeaves), "lastSection", 0)
		o.peCond(fn("readTrailer", "pe_tr_garbage", "(n : Z)", "bool", rtLeaves), "n > 0", 0)
		o.peReturn(fn("readTrailer", "pe_tr_orig_unsigned", "(last_section n : Z)", "Z", rtLeaves), 0, 0)
		o.peReturn(fn("readTrailer", "pe_tr_orig_signed", "(cert_start : Z)", "Z", rtLeaves), 5, 0)
		o.peCallArg(fn("readTrailer", "pe_tr_before_cert", "(cert_start last_section : Z)", "Z", rtLeaves), "io.CopyN", 0, 2)
		// ---- MakePatch
		mpLeaves := map[string]string{"len(sig)": "sig_len", "padded": "padded", "pd.CertStart": "cert_start", "pd.OrigSize": "orig_size",
			"pad2": "pad2", "len(certTbl)": "tbl_len", "pd.markers.posDDCert": "pos_dd", "pd.markers.certSize": "old_size"}
		o.peAssign(meth("PEDigest", "MakePatch", "pe_mp_padded", "(sig_len : Z)", "Z", mpLeaves), "padded", 0)
		o.peField(meth("PEDigest", "MakePatch", "pe_mp_length", "(padded : Z)", "Z", mpLeaves), "certInfo", "Length")
		o.peField(meth("PEDigest", "MakePatch", "pe_mp_revision", "", "Z", mpLeaves), "certInfo", "Revision")
		o.peField(meth("PEDigest", "MakePatch", "pe_mp_certtype", "", "Z", mpLeaves), "certInfo", "CertificateType")
		o.structLayout(d, "certInfo", "pe_certinfo")
		o.peAssign(meth("PEDigest", "MakePatch", "pe_mp_pad2", "(cert_start orig_size : Z)", "Z", mpLeaves), "pad2", 0)
		o.peCond(meth("PEDigest", "MakePatch", "pe_mp_has_pad2", "(pad2 : Z)", "bool", mpLeaves), "pad2", 0)
		o.peCond(meth("PEDigest", "MakePatch", "pe_mp_too_big", "(cert_start : Z)", "bool", mpLeaves), "pd.CertStart", 0)
		o.peAssign(meth("PEDigest", "MakePatch", "pe_mp_dd_va", "(cert_start : Z)", "Z", mpLeaves), "dd.VirtualAddress", 0)
		o.peAssign(meth("PEDigest", "MakePatch", "pe_mp_dd_size", "(tbl_len pad2 : Z)", "Z", mpLeaves), "dd.Size", 0)
		o.peCallArg(meth("PEDigest", "MakePatch", "pe_mp_patch1_off", "(pos_dd : Z)", "Z", mpLeaves), "patch.Add", 0, 0)
		o.peCallArg(meth("PEDigest", "MakePatch", "pe_mp_patch1_old", "", "Z", mpLeaves), "patch.Add", 0, 1)
		o.peCallArg(meth("PEDigest", "MakePatch", "pe_mp_patch2_off", "(orig_size : Z)", "Z", mpLeaves), "patch.Add", 1, 0)
		o.peCallArg(meth("PEDigest", "MakePatch", "pe_mp_patch2_old", "(old_size : Z)", "Z", mpLeaves), "patch.Add", 1, 1)
		o.peCallArg(meth("PEDigest", "MakePatch", "pe_mp_sig_pad", "(padded sig_len : Z)", "Z", mpLeaves), "make", 1, 1)
		// ---- VerifyPE / checkSignatures
		o.peCond(fn("VerifyPE", "pe_vf_not_signed", "(cert_size : Z)", "bool", map[string]string{"hvals.certSize": "cert_size"}), "hvals.certSize", 0)
		csLeaves := map[string]string{"len(blob)": "blob_len", "wLen": "w_len", "end": "e_end", "size": "e_size"}
		o.peCond(fn("checkSignatures", "pe_cs_more", "(blob_len : Z)", "bool", csLeaves), "len(blob) != 0", 0)
		o.peCond(fn("checkSignatures", "pe_cs_short", "(blob_len : Z)", "bool", csLeaves), "len(blob) < ", 0)
		o.peAssign(fn("checkSignatures", "pe_cs_end", "(w_len : Z)", "Z", csLeaves), "end", 0)
		o.peAssign(fn("checkSignatures", "pe_cs_size", "(w_len : Z)", "Z", csLeaves), "size", 0)
		o.peCond(fn("checkSignatures", "pe_cs_invalid", "(e_end e_size blob_len : Z)", "bool", csLeaves), "size < 0", 0)
		o.peSlice(fn("checkSignatures", "pe_cs_wlen_len", "", "Z", csLeaves), "blob", 0, 1)
		o.peSlice(fn("checkSignatures", "pe_cs_cert_lo", "", "Z", csLeaves), "blob", 1, 0)
		o.peSlice(fn("checkSignatures", "pe_cs_cert_hi", "(e_size : Z)", "Z", csLeaves), "blob", 1, 1)
		o.peSlice(fn("checkSignatures", "pe_cs_rest_lo", "(e_end : Z)", "Z", csLeaves), "blob", 2, 0)
		// ---- checksum.go
		ckLeaves := map[string]string{"peStart": "pe_start", "h.odd": "odd", "n": "n", "h.cksumPos": "cksum_pos", "i": "i", "abs": "abs", "h.pos": "pos",
			"sum": "sum", "h.sum": "sum", "h.size": "size", "val": "val", "d[i+1]": "hi", "d[i]": "lo"}
		o.peCallArg(fn("FixPEChecksum", "pe_fix_write_off", "(pe_start : Z)", "Z", ckLeaves), "f.WriteAt", 0, 1)
		o.peCond(fn("NewPEChecksum", "pe_ck_no_field", "(pe_start : Z)", "bool", ckLeaves), "peStart", 0)
		o.peAssign(fn("NewPEChecksum", "pe_ck_pos_none", "", "Z", ckLeaves), "cksumPos", 0)
		o.peAssign(fn("NewPEChecksum", "pe_ck_pos", "(pe_start : Z)", "Z", ckLeaves), "cksumPos", 1)
		o.peCond(meth("peChecksum", "Write", "pe_ck_odd_len", "(n : Z)", "bool", ckLeaves), "n%2", 0)
		o.peCond(meth("peChecksum", "Write", "pe_ck_more", "(i n : Z)", "bool", ckLeaves), "i < n", 0)
		o.peAssign(meth("peChecksum", "Write", "pe_ck_abs", "(pos i : Z)", "Z", ckLeaves), "abs", 0)
		o.peCond(meth("peChecksum", "Write", "pe_ck_is_field_word", "(abs cksum_pos : Z)", "bool", ckLeaves), "abs ==", 0)
		o.hasStmt(d, "peChecksum", "Write", "h.pos += n", "pe_ck_pos_advances")
		o.peAssign(meth("peChecksum", "Write", "pe_ck_word", "(hi lo : Z)", "Z", ckLeaves), "val", 0)
		o.peAssign(meth("peChecksum", "Write", "pe_ck_fold", "(sum : Z)", "Z", ckLeaves), "sum", 1)
		o.hasStmt(d, "peChecksum", "Write", "sum += val", "pe_ck_adds_word")
		o.hasStmt(d, "peChecksum", "Write", "h.size += uint32(n)", "pe_ck_counts_len")
		o.peAssign(meth("peChecksum", "Sum", "pe_ck_final_fold", "(sum : Z)", "Z", ckLeaves), "sum", 1)
		o.hasStmt(d, "peChecksum", "Sum", "sum += h.size", "pe_ck_adds_size")
		// ---- signers/pecoff: the module wires FixPEChecksum as the fixup and VerifyPE as the verifier
		for _, f := range []string{"DigestPE", "setupDigester", "readDosHeader", "readCoffHeader", "readOptHeader", "readSections", "readTrailer",
			"VerifyPE", "findSignatures", "checkSignatures", "FixPEChecksum", "NewPEChecksum", "readAndHash", "align32", "binaryReadBytes"} {
			fingerprint(d, "", f)
		}
		fingerprint(d, "PEDigest", "MakePatch")
		fingerprint(d, "PEDigest", "Sign")
		fingerprint(d, "imageHasher", "section")
		fingerprint(d, "imageHasher", "finish")
		fingerprint(d, "peChecksum", "Write")
		fingerprint(d, "peChecksum", "Sum")
		fingerprint("signers/pecoff", "", "sign")
		fingerprint("signers/pecoff", "", "verify")
	}
}
