package main

// FmtPS — format module for PowerShell script signatures (lib/authenticode/powershell.go) and Debian package
// signatures (lib/signdeb). Emits: marker strings, the style and extension tables, the string expressions that build
// the marker lines and the patch text, every loop-free decision of DigestPowershell / detectUtf16 / readLine /
// VerifyPowershell / MakePatch / signdeb.Sign / signdeb.Verify / checkSig / parseControl's extension switch, the
// ar header literal of the appended member, and fingerprints of the hand-modelled loops.

import (
	"fmt"
	"go/ast"
	"go/token"
	"sort"
	"strconv"
	"strings"
)

// fpsX translates a small Go expression language into Gallina: string concatenation / literals / comparisons,
// integer arithmetic and comparisons, boolean connectives, strings.HasPrefix/HasSuffix, len(x) via leaves.
type fpsX struct {
	p      *pkgInfo
	dir    string
	leaves map[string]string // printed Go expression -> Coq term
	strs   map[string]bool   // printed Go expressions of string type
	err    error
}

func (x *fpsX) fail(format string, a ...interface{}) string {
	if x.err == nil {
		x.err = fmt.Errorf(format, a...)
	}
	return "BROKEN"
}

func (x *fpsX) pr(e ast.Expr) string { return strings.Join(strings.Fields(printNode(x.p.fset, e)), "") }

func (x *fpsX) isStr(e ast.Expr) bool {
	if x.strs[x.pr(e)] {
		return true
	}
	switch v := e.(type) {
	case *ast.BasicLit:
		return v.Kind == token.STRING
	case *ast.ParenExpr:
		return x.isStr(v.X)
	case *ast.BinaryExpr:
		return v.Op == token.ADD && (x.isStr(v.X) || x.isStr(v.Y))
	case *ast.CallExpr:
		_, ok := fpsStrCalls[x.pr(v.Fun)]
		return ok
	case *ast.Ident:
		if ce, _, _, _ := findConstExpr(x.dir, v.Name); ce != nil {
			if bl, ok := ce.(*ast.BasicLit); ok && bl.Kind == token.STRING {
				return true
			}
		}
	}
	return false
}

func (x *fpsX) expr(e ast.Expr) string {
	if c, ok := x.leaves[x.pr(e)]; ok {
		return c
	}
	switch v := e.(type) {
	case *ast.ParenExpr:
		return x.expr(v.X)
	case *ast.BasicLit:
		switch v.Kind {
		case token.STRING:
			s, err := strconv.Unquote(v.Value)
			if err != nil {
				return x.fail("bad string literal %s", v.Value)
			}
			return bytesLit([]byte(s))
		case token.INT:
			n, err := strconv.ParseInt(v.Value, 0, 64)
			if err != nil {
				return x.fail("bad int literal %s", v.Value)
			}
			return coqZ(n)
		case token.CHAR:
			r, _, _, err := strconv.UnquoteChar(v.Value[1:len(v.Value)-1], '\'')
			if err != nil {
				return x.fail("bad char literal %s", v.Value)
			}
			return coqZ(int64(r))
		}
	case *ast.Ident:
		if v.Name == "true" || v.Name == "false" {
			return v.Name
		}
		if ce, _, si, _ := findConstExpr(x.dir, v.Name); ce != nil {
			if bl, ok := ce.(*ast.BasicLit); ok && bl.Kind == token.STRING {
				s, _ := strconv.Unquote(bl.Value)
				return bytesLit([]byte(s))
			}
			if cv, err := evalConst(x.dir, ce, si); err == nil && !cv.isFloat {
				return coqZ(cv.i)
			}
		}
		return x.fail("unmapped identifier %s", v.Name)
	case *ast.UnaryExpr:
		switch v.Op {
		case token.NOT:
			return "(negb " + x.expr(v.X) + ")"
		case token.SUB:
			return "(- " + x.expr(v.X) + ")"
		}
	case *ast.CallExpr:
		fn := x.pr(v.Fun)
		switch fn {
		case "strings.HasPrefix":
			return "(has_prefix " + x.expr(v.Args[0]) + " " + x.expr(v.Args[1]) + ")"
		case "strings.HasSuffix":
			return "(has_suffix " + x.expr(v.Args[0]) + " " + x.expr(v.Args[1]) + ")"
		case "int64", "int", "uint32", "uint64", "int32", "rune":
			return x.expr(v.Args[0])
		case "byte", "uint8":
			return "(Z.modulo " + x.expr(v.Args[0]) + " 256)"
		case "uint16":
			return "(Z.modulo " + x.expr(v.Args[0]) + " 65536)"
		}
		// string-valued library calls (member-name normalisation in lib/signdeb): mapped to the Gallina functions of fpsGoStrings
		if coq, ok := fpsStrCalls[fn]; ok && len(v.Args) == coq.arity {
			parts := []string{coq.name}
			for _, a := range v.Args {
				parts = append(parts, x.expr(a))
			}
			return "(" + strings.Join(parts, " ") + ")"
		}
		return x.fail("unmapped call %s", fn)
	case *ast.BinaryExpr:
		a, b := x.expr(v.X), x.expr(v.Y)
		str := x.isStr(v.X) || x.isStr(v.Y)
		switch v.Op {
		case token.ADD:
			if str {
				return "(" + a + " ++ " + b + ")"
			}
			return "(" + a + " + " + b + ")"
		case token.SUB:
			return "(" + a + " - " + b + ")"
		case token.MUL:
			return "(" + a + " * " + b + ")"
		case token.QUO:
			return "(Z.quot " + a + " " + b + ")"
		case token.REM:
			return "(Z.rem " + a + " " + b + ")"
		case token.SHR:
			return "(Z.shiftr " + a + " " + b + ")"
		case token.SHL:
			return "(Z.shiftl " + a + " " + b + ")"
		case token.AND:
			return "(Z.land " + a + " " + b + ")"
		case token.OR:
			return "(Z.lor " + a + " " + b + ")"
		case token.LAND:
			return "(" + a + " && " + b + ")"
		case token.LOR:
			return "(" + a + " || " + b + ")"
		case token.EQL, token.NEQ:
			r := "(" + a + " =? " + b + ")"
			if str {
				r = "(bytes_eqb " + a + " " + b + ")"
			}
			if v.Op == token.NEQ {
				r = "(negb " + r + ")"
			}
			return r
		case token.LSS:
			return "(" + a + " <? " + b + ")"
		case token.LEQ:
			return "(" + a + " <=? " + b + ")"
		case token.GTR:
			return "(" + a + " >? " + b + ")"
		case token.GEQ:
			return "(" + a + " >=? " + b + ")"
		}
	}
	return x.fail("unsupported expression %s", x.pr(e))
}

func coqZ(n int64) string {
	if n < 0 {
		return fmt.Sprintf("(%d)", n)
	}
	return fmt.Sprintf("%d", n)
}

// Go library calls on strings that the translator knows, with the Gallina function each one is mapped to. The functions
// themselves are emitted into the generated file by fpsGoStrings (hand-written models of path.Clean, path.Base,
// strings.Trim*; they are inside the correspondence check: the driver runs the real functions on a name sweep).
var fpsStrCalls = map[string]struct {
	name  string
	arity int
}{
	"path.Clean":         {"go_path_clean", 1},
	"path.Base":          {"go_path_base", 1},
	"strings.TrimSpace":  {"go_trim_space", 1},
	"strings.TrimSuffix": {"go_trim_suffix", 2},
	"strings.TrimPrefix": {"go_trim_prefix", 2},
	"strings.TrimRight":  {"go_trim_right", 2},
	"strings.TrimLeft":   {"go_trim_left", 2},
	"strings.Trim":       {"go_trim", 2},
	"strings.ToLower":    {"go_to_lower", 1},
	"strings.ToUpper":    {"go_to_upper", 1},
}

const fpsGoStrings = `(* ---- Go library functions on byte strings used by the translated expressions (hand models; ASCII white space only) *)
Fixpoint go_split_slash (l : list Z) : list (list Z) :=
  match l with
  | [] => [[]]
  | c :: r =>
      match go_split_slash r with
      | h :: t => if c =? 47 then [] :: h :: t else (c :: h) :: t
      | [] => [[]]
      end
  end.
(* path.Clean, rule by rule: empty and "." elements vanish; ".." removes the element before it, is kept at the front of a
   relative path and dropped at the root *)
Definition go_clean_step (rooted : bool) (st : list (list Z)) (c : list Z) : list (list Z) :=
  if bytes_eqb c [] || bytes_eqb c [46] then st
  else if bytes_eqb c [46; 46] then
    match st with
    | top :: rest => if bytes_eqb top [46; 46] then (if rooted then st else c :: st) else rest
    | [] => if rooted then [] else [c]
    end
  else c :: st.
Fixpoint go_join_slash (cs : list (list Z)) : list Z :=
  match cs with
  | [] => []
  | c :: r => match r with [] => c | _ => c ++ 47 :: go_join_slash r end
  end.
Definition go_path_clean (p : list Z) : list Z :=
  match p with
  | [] => [46]
  | c0 :: _ =>
      let rooted := c0 =? 47 in
      let body := go_join_slash (rev (fold_left (go_clean_step rooted) (go_split_slash p) [])) in
      if rooted then 47 :: body else match body with [] => [46] | _ => body end
  end.
Fixpoint go_drop_while (p : Z -> bool) (l : list Z) : list Z :=
  match l with c :: r => if p c then go_drop_while p r else l | [] => [] end.
Fixpoint go_take_until (p : Z -> bool) (l : list Z) : list Z :=
  match l with c :: r => if p c then [] else c :: go_take_until p r | [] => [] end.
Definition go_is_slash (c : Z) : bool := c =? 47.
Definition go_path_base (p : list Z) : list Z :=
  match p with
  | [] => [46]
  | _ => match rev (go_take_until go_is_slash (go_drop_while go_is_slash (rev p))) with [] => [47] | b => b end
  end.
Definition go_is_space (c : Z) : bool := (c =? 32) || ((9 <=? c) && (c <=? 13)).
Definition go_in_set (cut : list Z) (c : Z) : bool := existsb (Z.eqb c) cut.
Definition go_trim_left_f (p : Z -> bool) (l : list Z) : list Z := go_drop_while p l.
Definition go_trim_right_f (p : Z -> bool) (l : list Z) : list Z := rev (go_drop_while p (rev l)).
Definition go_trim_space (l : list Z) : list Z := go_trim_right_f go_is_space (go_trim_left_f go_is_space l).
Definition go_trim_right (l cut : list Z) : list Z := go_trim_right_f (go_in_set cut) l.
Definition go_trim_left (l cut : list Z) : list Z := go_trim_left_f (go_in_set cut) l.
Definition go_trim (l cut : list Z) : list Z := go_trim_right_f (go_in_set cut) (go_trim_left_f (go_in_set cut) l).
Definition go_trim_suffix (l s : list Z) : list Z := if has_suffix l s then firstn (length l - length s) l else l.
Definition go_trim_prefix (l p : list Z) : list Z := if has_prefix l p then skipn (length p) l else l.
Definition go_to_lower (l : list Z) : list Z := map (fun c => if (65 <=? c) && (c <=? 90) then c + 32 else c) l.
Definition go_to_upper (l : list Z) : list Z := map (fun c => if (97 <=? c) && (c <=? 122) then c - 32 else c) l.

`

// operand of the slice expression on the right-hand side of the nth assignment to lhs
func fpsSliceOperand(lhs string, nth int) (string, func(*pkgInfo, *ast.FuncDecl) ast.Expr) {
	w, f := fpsAssign(lhs, nth)
	return w + " (sliced operand)", func(p *pkgInfo, fd *ast.FuncDecl) ast.Expr {
		se, ok := f(p, fd).(*ast.SliceExpr)
		if !ok {
			return nil
		}
		return se.X
	}
}

// index expression of the nth assignment whose left-hand side is m[<index>] with m printing as mapName
func fpsMapKey(mapName string, nth int) (string, func(*pkgInfo, *ast.FuncDecl) ast.Expr) {
	return fmt.Sprintf("key of assignment #%d to %s[...]", nth, mapName), func(p *pkgInfo, fd *ast.FuncDecl) ast.Expr {
		var found ast.Expr
		k := 0
		ast.Inspect(fd.Body, func(n ast.Node) bool {
			if found != nil {
				return false
			}
			if as, ok := n.(*ast.AssignStmt); ok && len(as.Lhs) >= 1 {
				if ix, ok := as.Lhs[0].(*ast.IndexExpr); ok && printNode(p.fset, ix.X) == mapName {
					if k == nth {
						found = ix.Index
						return false
					}
					k++
				}
			}
			return true
		})
		return found
	}
}

// fpsDebLoop: the shape of the member loop of signdeb.Sign — the order of its top-level statements, whether the slot test
// is made before members named _gpg* are skipped, what the skip does, and what happens to an error of reader.Next().
func (o *out) fpsDebLoop() {
	const d = "lib/signdeb"
	p, fd := findFunc(d, "", "Sign")
	if fd == nil {
		o.brokenDef("deb_loop_order", "signdeb.Sign not found")
		return
	}
	var loop *ast.ForStmt
	ast.Inspect(fd.Body, func(n ast.Node) bool {
		if fs, ok := n.(*ast.ForStmt); ok && loop == nil && fs.Cond == nil && fs.Init == nil {
			loop = fs
		}
		return loop == nil
	})
	if loop == nil {
		o.brokenDef("deb_loop_order", "member loop (for { ... }) not found in signdeb.Sign")
		return
	}
	pr := func(n ast.Node) string { return strings.Join(strings.Fields(printNode(p.fset, n)), " ") }
	var order, shown []string
	pos := map[int]int{}
	slotOK, skipOK, errReturns, errSeen := false, false, false, false
	for i, st := range loop.Body.List {
		cls := 9
		switch s := st.(type) {
		case *ast.AssignStmt:
			if len(s.Lhs) == 1 && pr(s.Lhs[0]) == "name" {
				cls = 0
			} else if len(s.Rhs) == 1 && strings.Contains(pr(s.Rhs[0]), "reader.Next()") {
				cls = 6
			}
		case *ast.IfStmt:
			c := pr(s.Cond)
			switch {
			case strings.Contains(c, "io.EOF"):
				cls = 7
				errSeen = true
				// else-branch: `else if err != nil { return nil, err }`
				ei, ok := s.Else.(*ast.IfStmt)
				if !ok || pr(ei.Cond) != "err != nil" || len(ei.Body.List) != 1 || ei.Else != nil {
					o.brokenDef("deb_loop_order", "an error of reader.Next() other than io.EOF is not handled by `else if err != nil { ... }`")
					return
				}
				if rs, ok := ei.Body.List[0].(*ast.ReturnStmt); ok && len(rs.Results) == 2 && pr(rs.Results[0]) == "nil" && pr(rs.Results[1]) == "err" {
					errReturns = true
				} else if pr(ei.Body.List[0]) != "break" {
					o.brokenDef("deb_loop_order", "the error branch after reader.Next() neither returns the error nor leaves the loop")
					return
				}
				if len(s.Body.List) != 1 || pr(s.Body.List[0]) != "break" {
					o.brokenDef("deb_loop_order", "the io.EOF branch of the member loop is not a plain break")
					return
				}
			case strings.Contains(c, "filename"):
				cls = 1
				// the body sets patchOffset and patchLength and nothing else; no else branch
				slotOK = s.Else == nil && s.Init == nil && len(s.Body.List) == 2
				for _, b := range s.Body.List {
					as, ok := b.(*ast.AssignStmt)
					if !ok || len(as.Lhs) != 1 || (pr(as.Lhs[0]) != "patchOffset" && pr(as.Lhs[0]) != "patchLength") || as.Tok != token.ASSIGN {
						slotOK = false
					}
				}
			case strings.Contains(c, "\"_gpg\""):
				cls = 2
				skipOK = s.Else == nil && s.Init == nil && len(s.Body.List) == 1 && pr(s.Body.List[0]) == "continue"
			case strings.Contains(c, "\"control.tar\""):
				cls = 3
			case s.Init != nil && strings.Contains(pr(s.Init), "io.Copy"):
				cls = 4
			case c == "closer != nil" || c == "errch != nil":
				cls = 8
			}
		case *ast.ExprStmt:
			if strings.HasPrefix(pr(s.X), "fmt.Fprintf(msg") {
				cls = 5
			}
		case *ast.DeclStmt:
			cls = 8
		}
		if cls == 0 || cls == 1 || cls == 2 || cls == 5 {
			if _, dup := pos[cls]; dup {
				o.brokenDef("deb_loop_order", fmt.Sprintf("statement class %d occurs twice in the member loop", cls))
				return
			}
			pos[cls] = i
		}
		order = append(order, strconv.Itoa(cls))
		shown = append(shown, fmt.Sprintf("%d:%s", cls, strings.SplitN(pr(st), "{", 2)[0]))
	}
	for _, need := range []int{0, 1, 2, 5} {
		if _, ok := pos[need]; !ok {
			o.brokenDef("deb_loop_order", fmt.Sprintf("statement class %d (0 name:=, 1 slot test, 2 _gpg skip, 5 Files line) not found at the top level of the member loop", need))
			return
		}
	}
	if !slotOK {
		o.brokenDef("deb_loop_order", "the slot test does not have the shape `if <cond> { patchOffset = ...; patchLength = ... }`")
		return
	}
	if !skipOK {
		o.brokenDef("deb_loop_order", "the _gpg test does not have the shape `if <cond> { continue }`")
		return
	}
	if !errSeen {
		o.brokenDef("deb_loop_order", "the io.EOF test after reader.Next() was not found")
		return
	}
	if pos[0] > pos[1] || pos[0] > pos[2] {
		o.brokenDef("deb_loop_order", "`name :=` does not precede the tests that use it")
		return
	}
	o.f("Definition deb_loop_order : list Z := [%s]. (* top-level statements of the member loop of %s.Sign: %s *)\n", strings.Join(order, "; "), d, strings.Join(shown, " | "))
	o.f("Definition deb_slot_before_skip : bool := %v. (* the slot test `name == filename` is made before members named _gpg* are skipped *)\n", pos[1] < pos[2])
	o.f("Definition deb_line_after_skip : bool := %v. (* the Files: line is written after the skip (signature members are not listed) *)\n", pos[2] < pos[5])
	o.f("Definition deb_next_err_returns : bool := %v. (* an error of reader.Next() other than io.EOF makes Sign return it *)\n", errReturns)
}

type fpsSpec struct {
	dir, recv, fn string
	coq, params   string
	ret           string
	leaves        map[string]string
	strs          []string
}

func (o *out) fpsEmit(s fpsSpec, what string, find func(p *pkgInfo, fd *ast.FuncDecl) ast.Expr) {
	p, fd := findFunc(s.dir, s.recv, s.fn)
	if fd == nil {
		o.brokenDef(s.coq, "function "+s.dir+":"+s.recv+"."+s.fn+" not found")
		return
	}
	e := find(p, fd)
	if e == nil {
		o.brokenDef(s.coq, what+" not found in "+s.fn)
		return
	}
	x := &fpsX{p: p, dir: s.dir, leaves: map[string]string{}, strs: map[string]bool{}}
	for k, v := range s.leaves {
		x.leaves[strings.Join(strings.Fields(k), "")] = v
	}
	for _, k := range s.strs {
		x.strs[strings.Join(strings.Fields(k), "")] = true
	}
	c := x.expr(e)
	if x.err != nil {
		o.brokenDef(s.coq, x.err.Error())
		return
	}
	ps := s.params
	if ps != "" {
		ps = " " + ps
	}
	o.f("Definition %s%s : %s :=\n  %s.\n(* from %s:%s.%s : %s : %s *)\n", s.coq, ps, s.ret, c, s.dir, s.recv, s.fn, what,
		strings.ReplaceAll(printNode(p.fset, e), "*)", "* )"))
}

// nth assignment (any assignment operator) whose single left-hand side prints as lhs: its right-hand side
func fpsAssign(lhs string, nth int) (string, func(*pkgInfo, *ast.FuncDecl) ast.Expr) {
	return fmt.Sprintf("assignment #%d to %s", nth, lhs), func(p *pkgInfo, fd *ast.FuncDecl) ast.Expr {
		var found ast.Expr
		k := 0
		ast.Inspect(fd.Body, func(n ast.Node) bool {
			if found != nil {
				return false
			}
			if as, ok := n.(*ast.AssignStmt); ok && len(as.Lhs) == 1 && len(as.Rhs) == 1 && printNode(p.fset, as.Lhs[0]) == lhs {
				if k == nth {
					found = as.Rhs[0]
					return false
				}
				k++
			}
			return true
		})
		return found
	}
}

// like fpsAssign, but the right-hand side must be a slice expression; part selects its Low ("low") or High ("high") bound
func fpsSliceBound(lhs string, nth int, part string) (string, func(*pkgInfo, *ast.FuncDecl) ast.Expr) {
	w, f := fpsAssign(lhs, nth)
	return w + " (slice " + part + " bound)", func(p *pkgInfo, fd *ast.FuncDecl) ast.Expr {
		e := f(p, fd)
		se, ok := e.(*ast.SliceExpr)
		if !ok {
			return nil
		}
		if part == "low" {
			return se.Low
		}
		return se.High
	}
}

// condition of the nth if (kind "if") / for (kind "for") statement whose printed condition contains marker
func fpsCond(kind, marker string, nth int) (string, func(*pkgInfo, *ast.FuncDecl) ast.Expr) {
	return fmt.Sprintf("%s condition #%d containing `%s`", kind, nth, marker), func(p *pkgInfo, fd *ast.FuncDecl) ast.Expr {
		var found ast.Expr
		k := 0
		ast.Inspect(fd.Body, func(n ast.Node) bool {
			if found != nil {
				return false
			}
			var cond ast.Expr
			if is, ok := n.(*ast.IfStmt); ok && kind == "if" {
				cond = is.Cond
			}
			if fs, ok := n.(*ast.ForStmt); ok && kind == "for" {
				cond = fs.Cond
			}
			if cond != nil && strings.Contains(printNode(p.fset, cond), marker) {
				if k == nth {
					found = cond
					return false
				}
				k++
			}
			return true
		})
		return found
	}
}

// argument arg of the nth call whose callee prints as callee
func fpsCallArg(callee string, nth, arg int) (string, func(*pkgInfo, *ast.FuncDecl) ast.Expr) {
	return fmt.Sprintf("argument %d of call #%d to %s", arg, nth, callee), func(p *pkgInfo, fd *ast.FuncDecl) ast.Expr {
		var found ast.Expr
		k := 0
		ast.Inspect(fd.Body, func(n ast.Node) bool {
			if found != nil {
				return false
			}
			if ce, ok := n.(*ast.CallExpr); ok && printNode(p.fset, ce.Fun) == callee {
				if k == nth {
					if len(ce.Args) > arg {
						found = ce.Args[arg]
					}
					return false
				}
				k++
			}
			return true
		})
		return found
	}
}

// the step of the nth three-clause for loop: right-hand side of its post statement `v += e`
func fpsForPost(nth int) (string, func(*pkgInfo, *ast.FuncDecl) ast.Expr) {
	return fmt.Sprintf("post statement of for loop #%d", nth), func(p *pkgInfo, fd *ast.FuncDecl) ast.Expr {
		var found ast.Expr
		k := 0
		ast.Inspect(fd.Body, func(n ast.Node) bool {
			if found != nil {
				return false
			}
			if fs, ok := n.(*ast.ForStmt); ok && fs.Post != nil {
				if k == nth {
					if as, ok := fs.Post.(*ast.AssignStmt); ok && as.Tok == token.ADD_ASSIGN && len(as.Rhs) == 1 {
						found = as.Rhs[0]
					}
					return false
				}
				k++
			}
			return true
		})
		return found
	}
}

// value of key `key` in the nth composite literal whose type prints as typ
func fpsLitKey(typ string, nth int, key string) (string, func(*pkgInfo, *ast.FuncDecl) ast.Expr) {
	return fmt.Sprintf("key %s of %s literal #%d", key, typ, nth), func(p *pkgInfo, fd *ast.FuncDecl) ast.Expr {
		var found ast.Expr
		k := 0
		ast.Inspect(fd.Body, func(n ast.Node) bool {
			if found != nil {
				return false
			}
			if cl, ok := n.(*ast.CompositeLit); ok && cl.Type != nil && printNode(p.fset, cl.Type) == typ {
				if k == nth {
					for _, el := range cl.Elts {
						if kv, ok := el.(*ast.KeyValueExpr); ok && printNode(p.fset, kv.Key) == key {
							found = kv.Value
						}
					}
					return false
				}
				k++
			}
			return true
		})
		return found
	}
}

// package-level `var name = map[K]V{...}` : its key/value expression pairs in source order
func fpsMapVar(dir, name string) (*pkgInfo, [][2]ast.Expr) {
	ce, p, _, _ := findConstExpr(dir, name)
	cl, ok := ce.(*ast.CompositeLit)
	if !ok {
		return p, nil
	}
	var kv [][2]ast.Expr
	for _, el := range cl.Elts {
		if e, ok := el.(*ast.KeyValueExpr); ok {
			kv = append(kv, [2]ast.Expr{e.Key, e.Value})
		}
	}
	return p, kv
}

func (o *out) fpsTables() {
	const d = "lib/authenticode"
	// psStyles: style constant -> {start, end}
	_, kv := fpsMapVar(d, "psStyles")
	if kv == nil {
		o.brokenDef("ps_styles", "var psStyles map literal not found")
	} else {
		var items []string
		for _, e := range kv {
			id, ok := e[0].(*ast.Ident)
			cl, ok2 := e[1].(*ast.CompositeLit)
			if !ok || !ok2 || len(cl.Elts) != 2 {
				o.brokenDef("ps_styles", "unexpected psStyles entry")
				return
			}
			ce, _, si, _ := findConstExpr(d, id.Name)
			cv, err := evalConst(d, ce, si)
			if ce == nil || err != nil {
				o.brokenDef("ps_styles", "style constant "+id.Name+" not evaluable")
				return
			}
			var strs []string
			for _, el := range cl.Elts {
				bl, ok := el.(*ast.BasicLit)
				if !ok || bl.Kind != token.STRING {
					o.brokenDef("ps_styles", "non-literal style string")
					return
				}
				s, _ := strconv.Unquote(bl.Value)
				strs = append(strs, bytesLit([]byte(s)))
			}
			items = append(items, fmt.Sprintf("(%d, (%s, %s))", cv.i, strs[0], strs[1]))
		}
		sort.Strings(items)
		o.f("Definition ps_styles : list (Z * (list Z * list Z)) := [%s]. (* %s.psStyles: style -> (start, end) *)\n", strings.Join(items, "; "), d)
	}
	// psExtMap: extension -> style
	_, kv = fpsMapVar(d, "psExtMap")
	if kv == nil {
		o.brokenDef("ps_ext_map", "var psExtMap map literal not found")
	} else {
		var items []string
		for _, e := range kv {
			bl, ok := e[0].(*ast.BasicLit)
			id, ok2 := e[1].(*ast.Ident)
			if !ok || !ok2 {
				o.brokenDef("ps_ext_map", "unexpected psExtMap entry")
				return
			}
			s, _ := strconv.Unquote(bl.Value)
			ce, _, si, _ := findConstExpr(d, id.Name)
			cv, err := evalConst(d, ce, si)
			if ce == nil || err != nil {
				o.brokenDef("ps_ext_map", "style constant "+id.Name+" not evaluable")
				return
			}
			items = append(items, fmt.Sprintf("(%s, %d)", bytesLit([]byte(s)), cv.i))
		}
		sort.Strings(items)
		o.f("Definition ps_ext_map : list (list Z * Z) := [%s]. (* %s.psExtMap *)\n", strings.Join(items, "; "), d)
	}
}

// string literal arguments of every fmt.Fprintln / fmt.Fprintf call in signdeb.Sign, in source order
func (o *out) fpsDebMsg() {
	const d = "lib/signdeb"
	p, fd := findFunc(d, "", "Sign")
	if fd == nil {
		o.brokenDef("deb_msg_lits", "signdeb.Sign not found")
		return
	}
	var items, shown []string
	ast.Inspect(fd.Body, func(n ast.Node) bool {
		ce, ok := n.(*ast.CallExpr)
		if !ok {
			return true
		}
		fn := printNode(p.fset, ce.Fun)
		if fn != "fmt.Fprintln" && fn != "fmt.Fprintf" {
			return true
		}
		lit := "[]"
		if len(ce.Args) > 1 {
			if bl, ok := ce.Args[1].(*ast.BasicLit); ok && bl.Kind == token.STRING {
				s, _ := strconv.Unquote(bl.Value)
				lit = bytesLit([]byte(s))
				shown = append(shown, strconv.Quote(s))
			}
		}
		items = append(items, lit)
		return true
	})
	o.f("Definition deb_msg_lits : list (list Z) := [%s]. (* first string argument of each fmt.Fprintln/Fprintf in signdeb.Sign: %s *)\n",
		strings.Join(items, "; "), strings.Join(shown, " "))
}

// case labels of the `switch ext` in parseControl that do not set an error (the default does)
func (o *out) fpsCtlExts() {
	const d = "lib/signdeb"
	p, fd := findFunc(d, "", "parseControl")
	if fd == nil {
		o.brokenDef("deb_ctl_exts", "parseControl not found")
		return
	}
	var items []string
	ok := false
	ast.Inspect(fd.Body, func(n ast.Node) bool {
		sw, isSw := n.(*ast.SwitchStmt)
		if !isSw || sw.Tag == nil || printNode(p.fset, sw.Tag) != "ext" {
			return true
		}
		ok = true
		for _, c := range sw.Body.List {
			cc := c.(*ast.CaseClause)
			for _, e := range cc.List {
				if bl, isLit := e.(*ast.BasicLit); isLit && bl.Kind == token.STRING {
					s, _ := strconv.Unquote(bl.Value)
					items = append(items, bytesLit([]byte(s)))
				}
			}
		}
		return false
	})
	if !ok {
		o.brokenDef("deb_ctl_exts", "switch ext not found in parseControl")
		return
	}
	o.f("Definition deb_ctl_exts : list (list Z) := [%s]. (* accepted control.tar suffixes: case labels of `switch ext` in %s.parseControl *)\n",
		strings.Join(items, "; "), d)
}

// ---- text encoding step: which bytes toUtf16 / writeUtf16 emit for ONE rune of the UTF-8 text.
// Hand models of the two standard-library pieces the unchanged code is made of (unicode/utf16.Encode for one rune,
// encoding/binary.Write of a []uint16 in either byte order); they are inside the correspondence check (text cases).
const fpsGoUtf16 = `(* ---- unicode/utf16.Encode (one rune) and encoding/binary byte orders for uint16 (hand models of the Go library) *)
Definition go_utf16_encode (c : Z) : list Z :=
  if ((0 <=? c) && (c <? 55296)) || ((57344 <=? c) && (c <? 65536)) then [c]
  else if (65536 <=? c) && (c <=? 1114111) then
    [55296 + ((c - 65536) / 1024) mod 1024; 56320 + (c - 65536) mod 1024]
  else [65533].
Definition go_le16 (u : Z) : list Z := [u mod 256; u / 256].
Definition go_be16 (u : Z) : list Z := [u / 256; u mod 256].

`

// statements of a per-rune loop body -> the list of bytes appended to buf for this rune
func (x *fpsX) w16Stmts(ss []ast.Stmt, buf string) string {
	if len(ss) == 0 {
		return "[]"
	}
	rest := ss[1:]
	switch s := ss[0].(type) {
	case *ast.BranchStmt:
		if s.Tok == token.CONTINUE && s.Label == nil {
			return "[]"
		}
	case *ast.BlockStmt:
		return x.w16Stmts(append(append([]ast.Stmt{}, s.List...), rest...), buf)
	case *ast.IfStmt:
		if s.Init != nil {
			return x.fail("if with init statement in the per-rune loop")
		}
		c := x.expr(s.Cond)
		a := x.w16Stmts(append(append([]ast.Stmt{}, s.Body.List...), rest...), buf)
		var els []ast.Stmt
		if s.Else != nil {
			els = []ast.Stmt{s.Else}
		}
		b := x.w16Stmts(append(els, rest...), buf)
		return "(if " + c + " then " + a + " else " + b + ")"
	case *ast.AssignStmt:
		if len(s.Lhs) != 1 || len(s.Rhs) != 1 {
			break
		}
		lhs := x.pr(s.Lhs[0])
		if call, ok := s.Rhs[0].(*ast.CallExpr); ok && x.pr(call.Fun) == "append" {
			if lhs != buf || len(call.Args) < 1 || x.pr(call.Args[0]) != buf || call.Ellipsis != token.NoPos || s.Tok != token.ASSIGN {
				return x.fail("append that is not `%s = append(%s, bytes...)`", buf, buf)
			}
			var parts []string
			for _, a := range call.Args[1:] {
				parts = append(parts, x.expr(a))
			}
			return "([" + strings.Join(parts, "; ") + "] ++ " + x.w16Stmts(rest, buf) + ")"
		}
		if _, ok := s.Lhs[0].(*ast.Ident); !ok || lhs == buf {
			break
		}
		var rhs string
		ops := map[token.Token]token.Token{token.ADD_ASSIGN: token.ADD, token.SUB_ASSIGN: token.SUB, token.SHR_ASSIGN: token.SHR,
			token.SHL_ASSIGN: token.SHL, token.AND_ASSIGN: token.AND, token.OR_ASSIGN: token.OR}
		if s.Tok == token.DEFINE || s.Tok == token.ASSIGN {
			rhs = x.expr(s.Rhs[0])
		} else if op, ok := ops[s.Tok]; ok {
			rhs = x.expr(&ast.BinaryExpr{X: s.Lhs[0], Op: op, Y: s.Rhs[0]})
		} else {
			break
		}
		v, ok := x.leaves[lhs]
		if !ok {
			v = "v_" + lhs
			x.leaves[lhs] = v
		}
		return "(let " + v + " := " + rhs + " in " + x.w16Stmts(rest, buf) + ")"
	}
	return x.fail("unsupported statement in the per-rune loop: %s", strings.Join(strings.Fields(printNode(x.p.fset, ss[0])), " "))
}

// fpsW16 emits `coq (r : Z) : list Z`: the bytes fn emits for one rune r of its string argument (the non-UTF-16 path), and for
// writeUtf16 also what the isUtf16 path writes. Two shapes are understood: utf16.Encode([]rune(x)) + binary.Write(.., order, runes),
// and a `for _, r := range x` loop that appends byte expressions to a buffer (translated statement by statement).
func (o *out) fpsW16(dir, fn, coq, passCoq string) {
	p, fd := findFunc(dir, "", fn)
	if fd == nil {
		o.brokenDef(coq, "function "+dir+":"+fn+" not found")
		return
	}
	x := &fpsX{p: p, dir: dir, leaves: map[string]string{}, strs: map[string]bool{}}
	arg := "x"
	if len(fd.Type.Params.List) > 0 && len(fd.Type.Params.List[0].Names) == 1 {
		arg = fd.Type.Params.List[0].Names[0].Name
		if len(fd.Type.Params.List) > 1 && fn == "writeUtf16" { // (d io.Writer, x string, isUtf16 bool)
			arg = fd.Type.Params.List[1].Names[0].Name
		}
	}
	var body []ast.Stmt
	passSeen := false
	for _, st := range fd.Body.List {
		if is, ok := st.(*ast.IfStmt); ok && passCoq != "" && x.pr(is.Cond) == "isUtf16" && is.Else == nil && !passSeen {
			// the pass-through path: what is written when the text already is UTF-16
			passSeen = true
			var written ast.Expr
			ast.Inspect(is.Body, func(n ast.Node) bool {
				if c, ok := n.(*ast.CallExpr); ok && strings.HasSuffix(x.pr(c.Fun), ".Write") && len(c.Args) == 1 && written == nil {
					written = c.Args[0]
				}
				return true
			})
			last, _ := is.Body.List[len(is.Body.List)-1].(*ast.ReturnStmt)
			if written == nil || last == nil {
				o.brokenDef(passCoq, "isUtf16 branch does not write and return")
			} else {
				xp := &fpsX{p: p, dir: dir, leaves: map[string]string{"[]byte(" + arg + ")": "x", arg: "x"}, strs: map[string]bool{arg: true}}
				c := xp.expr(written)
				if xp.err != nil {
					o.brokenDef(passCoq, xp.err.Error())
				} else {
					o.f("Definition %s (x : list Z) : list Z :=\n  %s.\n(* from %s:%s : bytes written when isUtf16 : %s *)\n", passCoq, c, dir, fn, x.pr(written))
				}
			}
			continue
		}
		body = append(body, st)
	}
	if passCoq != "" && !passSeen {
		o.brokenDef(passCoq, "no `if isUtf16 {..}` statement at the top level of "+fn)
	}
	// shape A
	var encVar, order, written string
	var loop *ast.RangeStmt
	for _, st := range body {
		ast.Inspect(st, func(n ast.Node) bool {
			switch v := n.(type) {
			case *ast.AssignStmt:
				if len(v.Lhs) == 1 && len(v.Rhs) == 1 && x.pr(v.Rhs[0]) == "utf16.Encode([]rune("+arg+"))" {
					encVar = x.pr(v.Lhs[0])
				}
			case *ast.CallExpr:
				if x.pr(v.Fun) == "binary.Write" && len(v.Args) == 3 {
					order, written = x.pr(v.Args[1]), x.pr(v.Args[2])
				}
			case *ast.RangeStmt:
				if loop == nil {
					loop = v
				}
			}
			return true
		})
	}
	src := strings.ReplaceAll(strings.Join(strings.Fields(printNode(p.fset, fd.Body)), " "), "*)", "* )")
	switch {
	case encVar != "" && written == encVar && loop == nil && (order == "binary.LittleEndian" || order == "binary.BigEndian"):
		ord := map[string]string{"binary.LittleEndian": "go_le16", "binary.BigEndian": "go_be16"}[order]
		o.f("Definition %s (r : Z) : list Z :=\n  flat_map %s (go_utf16_encode r).\n(* from %s:%s : utf16.Encode([]rune(%s)) written with binary.Write in %s *)\n", coq, ord, dir, fn, arg, order)
	case loop != nil && encVar == "" && order == "":
		rx := x.pr(loop.X)
		val, _ := loop.Value.(*ast.Ident)
		if (rx != arg && rx != "[]rune("+arg+")") || val == nil || (loop.Key != nil && x.pr(loop.Key) != "_") {
			o.brokenDef(coq, "per-rune loop of unexpected form: "+src)
			return
		}
		buf := ""
		ast.Inspect(loop.Body, func(n ast.Node) bool {
			if as, ok := n.(*ast.AssignStmt); ok && buf == "" && len(as.Rhs) == 1 {
				if c, ok := as.Rhs[0].(*ast.CallExpr); ok && x.pr(c.Fun) == "append" {
					buf = x.pr(as.Lhs[0])
				}
			}
			return true
		})
		// the loop's buffer must be what is written afterwards, whole
		wroteBuf := false
		for _, st := range body {
			ast.Inspect(st, func(n ast.Node) bool {
				if c, ok := n.(*ast.CallExpr); ok && (strings.HasSuffix(x.pr(c.Fun), ".Write") || x.pr(c.Fun) == "string") && len(c.Args) == 1 && x.pr(c.Args[0]) == buf {
					wroteBuf = true
				}
				return true
			})
		}
		if buf == "" || !wroteBuf {
			o.brokenDef(coq, "per-rune loop whose buffer is not written whole: "+src)
			return
		}
		x.leaves[val.Name] = "r"
		c := x.w16Stmts(loop.Body.List, buf)
		if x.err != nil {
			o.brokenDef(coq, x.err.Error())
			return
		}
		o.f("Definition %s (r : Z) : list Z :=\n  %s.\n(* from %s:%s : body of the per-rune loop : %s *)\n", coq, c, dir, fn, src)
	default:
		o.brokenDef(coq, "text encoding step of unknown shape: "+src)
	}
}

func init() {
	generators["FmtPS_gen"] = func(o *out) {
		const a = "lib/authenticode"
		const s = "lib/signdeb"
		// helper predicates the translated conditions refer to (Go's strings.HasPrefix / HasSuffix on byte strings)
		o.f("Fixpoint has_prefix (l p : list Z) {struct p} : bool :=\n  match p, l with\n  | [], _ => true\n  | x :: p', y :: l' => (x =? y) && has_prefix l' p'\n  | _ :: _, [] => false\n  end.\n")
		o.f("Definition has_suffix (l s : list Z) : bool := has_prefix (rev l) (rev s).\n\n")
		o.f("%s", fpsGoStrings)
		o.f("%s", fpsGoUtf16)
		o.f("(* ---- PowerShell: lib/authenticode/powershell.go *)\n")
		o.constString(a, "psBegin", "ps_begin")
		o.constString(a, "psEnd", "ps_end")
		o.constInt(a, "SigStyleHash", "ps_style_hash")
		o.constInt(a, "SigStyleXML", "ps_style_xml")
		o.constInt(a, "SigStyleC", "ps_style_c")
		o.fpsTables()
		mk := func(fn, recv, coq, params, ret string, leaves map[string]string, strs ...string) fpsSpec {
			return fpsSpec{dir: a, recv: recv, fn: fn, coq: coq, params: params, ret: ret, leaves: leaves, strs: strs}
		}
		detL := map[string]string{"start": "sty_start", "end": "sty_end", "psBegin": "ps_begin", "psEnd": "ps_end",
			"err == nil": "have2", "bom[0]": "b0", "bom[1]": "b1"}
		w, f := fpsAssign("first", 0)
		o.fpsEmit(mk("detectUtf16", "", "ps_first_of", "(sty_start sty_end : list Z)", "list Z", detL, "start", "end"), w, f)
		w, f = fpsAssign("last", 0)
		o.fpsEmit(mk("detectUtf16", "", "ps_last_of", "(sty_start sty_end : list Z)", "list Z", detL, "start", "end"), w, f)
		w, f = fpsCond("if", "bom", 0)
		o.fpsEmit(mk("detectUtf16", "", "ps_bom_cond", "(have2 : bool) (b0 b1 : Z)", "bool", detL), w, f)
		// readLine
		rlL := map[string]string{"isUtf16": "is16", "err == nil": "err_nil", "zero": "zero"}
		w, f = fpsCond("if", "isUtf16", 0)
		o.fpsEmit(mk("readLine", "", "ps_rl_more", "(is16 err_nil : bool)", "bool", rlL), w, f)
		w, f = fpsCond("if", "zero", 0)
		o.fpsEmit(mk("readLine", "", "ps_rl_bad", "(zero : Z)", "bool", rlL), w, f)
		w, f = fpsAssign("line", 0)
		o.fpsEmit(mk("readLine", "", "ps_rl_pad", "", "list Z", rlL), w, f)
		w, f = fpsCallArg("br.ReadString", 0, 0)
		o.fpsEmit(mk("readLine", "", "ps_rl_delim", "", "Z", rlL), w, f)
		// DigestPowershell
		dgL := map[string]string{"line": "line", "first": "first", "len(saved)": "saved_len", "len(line)": "line_len", "isUtf16": "is16"}
		w, f = fpsCond("if", "len(saved) < 2", 0)
		o.fpsEmit(mk("DigestPowershell", "", "ps_dig_short", "(is16 : bool) (saved_len : Z)", "bool", dgL), w, f)
		w, f = fpsCond("if", "first", 0)
		o.fpsEmit(mk("DigestPowershell", "", "ps_dig_is_first", "(line first : list Z)", "bool", dgL, "line", "first"), w, f)
		w, f = fpsSliceBound("saved", 0, "high")
		o.fpsEmit(mk("DigestPowershell", "", "ps_dig_keep16", "(saved_len : Z)", "Z", dgL), w, f)
		w, f = fpsSliceBound("saved", 1, "high")
		o.fpsEmit(mk("DigestPowershell", "", "ps_dig_keep8", "(saved_len : Z)", "Z", dgL), w, f)
		w, f = fpsAssign("sigSize", 0)
		o.fpsEmit(mk("DigestPowershell", "", "ps_dig_eol16", "", "Z", dgL), w, f)
		w, f = fpsAssign("sigSize", 1)
		o.fpsEmit(mk("DigestPowershell", "", "ps_dig_eol8", "", "Z", dgL), w, f)
		w, f = fpsAssign("sigSize", 2)
		o.fpsEmit(mk("DigestPowershell", "", "ps_dig_sig_line", "(line_len : Z)", "Z", dgL), w, f)
		// VerifyPowershell
		vfL := map[string]string{"err == io.EOF": "is_eof", "found": "found", "line": "line", "last": "last", "first": "first",
			"lstr": "lstr", "si.start": "sty_start", "si.end": "sty_end", "len(si.start)": "start_len", "len(si.end)": "end_len", "len(lstr)": "lstr_len"}
		w, f = fpsCond("if", "io.EOF", 0)
		o.fpsEmit(mk("VerifyPowershell", "", "ps_ver_notsigned", "(is_eof found : bool)", "bool", vfL), w, f)
		w, f = fpsCond("if", "last", 0)
		o.fpsEmit(mk("VerifyPowershell", "", "ps_ver_is_last", "(found : bool) (line last : list Z)", "bool", vfL, "line", "last"), w, f)
		w, f = fpsCond("if", "HasPrefix", 0)
		o.fpsEmit(mk("VerifyPowershell", "", "ps_ver_malformed", "(lstr sty_start sty_end : list Z)", "bool", vfL, "lstr", "si.start", "si.end"), w, f)
		w, f = fpsCond("if", "first", 0)
		o.fpsEmit(mk("VerifyPowershell", "", "ps_ver_is_first", "(line first : list Z)", "bool", vfL, "line", "first"), w, f)
		w, f = fpsAssign("i", 0)
		o.fpsEmit(mk("VerifyPowershell", "", "ps_ver_lo", "(start_len : Z)", "Z", vfL), w, f)
		w, f = fpsAssign("j", 0)
		o.fpsEmit(mk("VerifyPowershell", "", "ps_ver_hi", "(lstr_len end_len : Z)", "Z", vfL), w, f)
		w, f = fpsCond("if", "j < i", 0)
		o.fpsEmit(mk("VerifyPowershell", "", "ps_ver_overlap", "(i j : Z)", "bool", map[string]string{"i": "i", "j": "j"}), w, f)
		// MakePatch
		mpL := map[string]string{"si.start": "sty_start", "si.end": "sty_end", "b64[i:j]": "chunk", "i": "i", "j": "j", "len(b64)": "b64_len",
			"psBegin": "ps_begin", "psEnd": "ps_end"}
		mpS := []string{"si.start", "si.end", "b64[i:j]"}
		w, f = fpsCallArg("buf.WriteString", 0, 0)
		o.fpsEmit(mk("MakePatch", "PsDigest", "ps_mp_head", "(sty_start sty_end : list Z)", "list Z", mpL, mpS...), w, f)
		w, f = fpsCallArg("buf.WriteString", 1, 0)
		o.fpsEmit(mk("MakePatch", "PsDigest", "ps_mp_line", "(sty_start chunk sty_end : list Z)", "list Z", mpL, mpS...), w, f)
		w, f = fpsCallArg("buf.WriteString", 2, 0)
		o.fpsEmit(mk("MakePatch", "PsDigest", "ps_mp_tail", "(sty_start sty_end : list Z)", "list Z", mpL, mpS...), w, f)
		w, f = fpsForPost(0)
		o.fpsEmit(mk("MakePatch", "PsDigest", "ps_mp_step", "", "Z", mpL), w, f)
		w, f = fpsAssign("j", 0)
		o.fpsEmit(mk("MakePatch", "PsDigest", "ps_mp_chunk_end", "(i : Z)", "Z", mpL), w, f)
		w, f = fpsCond("if", "len(b64)", 0)
		o.fpsEmit(mk("MakePatch", "PsDigest", "ps_mp_clip", "(j b64_len : Z)", "bool", mpL), w, f)
		w, f = fpsCond("for", "len(b64)", 0)
		o.fpsEmit(mk("MakePatch", "PsDigest", "ps_mp_more", "(i b64_len : Z)", "bool", mpL), w, f)
		o.callOrder(a, "PsDigest", "MakePatch", "ps_mp_calls", []string{"WriteString", "EncodeToString", "toUtf16", "Add"})
		o.fpsW16(a, "writeUtf16", "ps_w16_rune", "ps_w16_pass")
		o.fpsW16(a, "toUtf16", "ps_t16_rune", "")
		// the digest loop hands every line (and the saved CRLF) to writeUtf16 with the detected flag, nothing else reaches the hash
		o.callOrder(a, "", "DigestPowershell", "ps_dg_calls", []string{"detectUtf16", "readLine", "writeUtf16", "Write"})
		for _, fn := range []string{"DigestPowershell", "detectUtf16", "VerifyPowershell", "readLine", "toUtf16", "writeUtf16", "fromUtf16", "GetSigStyle"} {
			fingerprint(a, "", fn)
		}
		fingerprint(a, "PsDigest", "MakePatch")
		fingerprint(a, "PsDigest", "Sign")

		o.f("\n(* ---- Debian: lib/signdeb *)\n")
		mkd := func(fn, coq, params, ret string, leaves map[string]string, strs ...string) fpsSpec {
			return fpsSpec{dir: s, fn: fn, coq: coq, params: params, ret: ret, leaves: leaves, strs: strs}
		}
		sgL := map[string]string{"role": "role", "counter.N": "n_read", "hdr.Size": "size", "name": "name", "filename": "filename",
			"patchOffset": "patch_off", "info == nil": "no_info"}
		w, f = fpsAssign("filename", 0)
		o.fpsEmit(mkd("Sign", "deb_filename", "(role : list Z)", "list Z", sgL, "role"), w, f)
		// member-name normalisation: `name := path.Clean(hdr.Name)`; every later test of Sign is made on `name`
		nmL := map[string]string{"hdr.Name": "raw", "name": "name", "hdr.Size": "size"}
		w, f = fpsAssign("name", 0)
		o.fpsEmit(mkd("Sign", "deb_norm", "(raw : list Z)", "list Z", nmL, "hdr.Name"), w, f)
		// the name written into the Files: line of the signed manifest (last argument of the Fprintf in the loop)
		w, f = fpsCallArg("fmt.Fprintf", 0, 5)
		o.fpsEmit(mkd("Sign", "deb_line_name", "(raw name : list Z)", "list Z", nmL, "hdr.Name", "name"), w, f)
		o.fpsDebLoop()
		w, f = fpsAssign("patchOffset", 0)
		o.fpsEmit(mkd("Sign", "deb_patch_off", "(n_read : Z)", "Z", sgL), w, f)
		w, f = fpsAssign("patchLength", 0)
		o.fpsEmit(mkd("Sign", "deb_patch_len", "(size : Z)", "Z", sgL), w, f)
		w, f = fpsAssign("patchOffset", 1)
		o.fpsEmit(mkd("Sign", "deb_patch_eof", "(n_read : Z)", "Z", sgL), w, f)
		w, f = fpsCond("if", "filename", 0)
		o.fpsEmit(mkd("Sign", "deb_is_slot", "(name filename : list Z)", "bool", sgL, "name", "filename"), w, f)
		w, f = fpsCond("if", "HasPrefix", 0)
		o.fpsEmit(mkd("Sign", "deb_is_gpg", "(name : list Z)", "bool", sgL, "name"), w, f)
		w, f = fpsCond("if", "HasPrefix", 1)
		o.fpsEmit(mkd("Sign", "deb_is_control", "(name : list Z)", "bool", sgL, "name"), w, f)
		w, f = fpsSliceBound("ext", 0, "low")
		o.fpsEmit(mkd("Sign", "deb_ext_from", "", "Z", sgL), w, f)
		w, f = fpsCond("if", "patchOffset", 0)
		o.fpsEmit(mkd("Sign", "deb_append_cond", "(patch_off : Z)", "bool", sgL), w, f)
		w, f = fpsCond("if", "info", 0)
		o.fpsEmit(mkd("Sign", "deb_no_control", "(no_info : bool)", "bool", sgL), w, f)
		w, f = fpsLitKey("ar.Header", 0, "Mode")
		o.fpsEmit(mkd("Sign", "deb_hdr_mode", "", "Z", sgL), w, f)
		w, f = fpsLitKey("ar.Header", 0, "Name")
		o.fpsEmit(mkd("Sign", "deb_hdr_name", "(filename : list Z)", "list Z", sgL, "filename"), w, f)
		o.fpsDebMsg()
		o.callOrder(s, "", "Sign", "deb_sign_calls", []string{"ClearSign", "WriteHeader", "Write", "Add"})
		o.fpsCtlExts()
		vdL := map[string]string{"hdr.Name": "name"}
		w, f = fpsCond("if", "HasPrefix", 0)
		o.fpsEmit(mkd("Verify", "deb_v_is_gpg", "(name : list Z)", "bool", vdL, "hdr.Name"), w, f)
		w, f = fpsSliceBound("role", 0, "low")
		o.fpsEmit(mkd("Verify", "deb_v_role_from", "", "Z", vdL), w, f)
		// what Verify slices the role from, and the key of its digest map: the member name as the ar reader returns it
		w, f = fpsSliceOperand("role", 0)
		o.fpsEmit(mkd("Verify", "deb_v_role_src", "(name : list Z)", "list Z", vdL, "hdr.Name"), w, f)
		w, f = fpsMapKey("digests", 0)
		o.fpsEmit(mkd("Verify", "deb_v_key", "(name : list Z)", "list Z", vdL, "hdr.Name"), w, f)
		w, f = fpsMapKey("sigs", 0)
		o.fpsEmit(mkd("Verify", "deb_v_sig_key", "(role : list Z)", "list Z", map[string]string{"role": "role"}, "role"), w, f)
		csL := map[string]string{"line": "line", "line[0]": "c0", "len(line)": "line_len", "calculated": "calculated", "sums": "sums"}
		w, f = fpsCond("if", "Files", 0)
		o.fpsEmit(mkd("checkSig", "deb_cs_files", "(line : list Z)", "bool", csL, "line"), w, f)
		w, f = fpsCond("if", "line == \"\"", 0)
		o.fpsEmit(mkd("checkSig", "deb_cs_end", "(line : list Z)", "bool", csL, "line"), w, f)
		w, f = fpsCond("if", "line[0]", 0)
		o.fpsEmit(mkd("checkSig", "deb_cs_malformed", "(c0 line_len : Z)", "bool", csL), w, f)
		w, f = fpsCond("if", "calculated", 0)
		o.fpsEmit(mkd("checkSig", "deb_cs_unknown", "(calculated : list Z)", "bool", csL, "calculated"), w, f)
		w, f = fpsCond("if", "calculated", 1)
		o.fpsEmit(mkd("checkSig", "deb_cs_mismatch", "(calculated sums : list Z)", "bool", csL, "calculated", "sums"), w, f)
		for _, fn := range []string{"Sign", "Verify", "checkSig", "parseControl"} {
			fingerprint(s, "", fn)
		}
	}
}
