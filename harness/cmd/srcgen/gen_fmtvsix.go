package main

// FmtVSIX — format module for Visual Studio extension packages (OPC digital signatures): signers/vsix (consts.go, mangle.go,
// contenttypes.go, rels.go, oxmlsig.go, signer.go) and the content type table of lib/signappx (contenttypes.go, xml.go).
// Translated from the CURRENT source: every string constant and the extension table, the whole of keepFile, relPath and
// ContentTypes.Find, the content type choice and the Reference URI of makeSignature's loop body, the part path checkManifest
// derives from a Reference URI, the hit test and target path of oxfRelationships.Find, the Target written by Append, the part
// names sign / addCerts build, the conditions of the mangle callback, of newCtypes, readSignature, checkManifest, verify, the
// struct tags the XML readers and writers are driven by, call orders, and presence flags for the statements the hand-written
// control flow in coq/FmtVSIX/Model.v relies on.  Together with every value definition a `<name>_panics` definition is emitted:
// the exact condition under which evaluating the Go code indexes or slices out of range (short-circuit evaluation respected), so a
// removed guard changes what the no-panic theorems have to prove.  Library calls are translated to coq/FmtVSIX/Lib.v.

import (
	"fmt"
	"go/ast"
	"go/parser"
	"go/token"
	"os/exec"
	"path/filepath"
	"reflect"
	"runtime"
	"sort"
	"strconv"
	"strings"
)

type vsxX struct {
	p       *pkgInfo
	dir     string
	leaves  map[string]string // printed Go expression (spaces removed) -> Coq term
	types   map[string]string // printed Go expression -> "str" | "Z" | "bool"
	maps    map[string]string // printed Go map expression -> Coq assoc term
	nilable map[string]string // printed Go expression -> Coq bool term "is not nil"
	calls   map[string][2]string
	locals  map[string]string
	ltypes  map[string]string
	nlet    int
	err     error
}

func (x *vsxX) fail(format string, a ...interface{}) string {
	if x.err == nil {
		x.err = fmt.Errorf(format, a...)
	}
	return "BROKEN"
}

func vsxStrip(s string) string { return strings.Join(strings.Fields(s), "") }

func (x *vsxX) pr(e ast.Node) string { return vsxStrip(printNode(x.p.fset, e)) }

// string constant expressions of a package: literals, named constants, concatenations
func vsxConstStr(dir string, e ast.Expr) (string, bool) {
	switch v := e.(type) {
	case *ast.BasicLit:
		if v.Kind == token.STRING {
			s, err := strconv.Unquote(v.Value)
			return s, err == nil
		}
	case *ast.ParenExpr:
		return vsxConstStr(dir, v.X)
	case *ast.Ident:
		if ce, _, _, vs := findConstExpr(dir, v.Name); ce != nil && vs != nil {
			return vsxConstStr(dir, ce)
		}
	case *ast.BinaryExpr:
		if v.Op == token.ADD {
			a, ok1 := vsxConstStr(dir, v.X)
			b, ok2 := vsxConstStr(dir, v.Y)
			return a + b, ok1 && ok2
		}
	}
	return "", false
}

func vsxZ(n int64) string {
	if n < 0 {
		return fmt.Sprintf("(%d)", n)
	}
	return fmt.Sprintf("%d", n)
}

func vsxOr(a, b string) string {
	switch {
	case a == "false":
		return b
	case b == "false":
		return a
	}
	return "(" + a + " || " + b + ")"
}

func vsxAnd(c, p string) string {
	if p == "false" {
		return "false"
	}
	return "(" + c + " && " + p + ")"
}

var vsxCallTypes = map[string]string{
	"strings.HasPrefix": "bool", "keepFile": "bool",
	"path.Ext": "str", "path.Base": "str", "path.Dir": "str", "path.Clean": "str", "path.Join": "str", "string": "str", "relPath": "str", "calcFileName": "str",
	"strings.IndexByte": "Z", "len": "Z", "int": "Z",
}

func (x *vsxX) typeOf(e ast.Expr) string {
	if t, ok := x.types[x.pr(e)]; ok {
		return t
	}
	switch v := e.(type) {
	case *ast.BasicLit:
		if v.Kind == token.STRING {
			return "str"
		}
		return "Z"
	case *ast.ParenExpr:
		return x.typeOf(v.X)
	case *ast.SliceExpr:
		return "str"
	case *ast.IndexExpr:
		if _, ok := x.maps[x.pr(v.X)]; ok {
			return "str"
		}
		return "Z"
	case *ast.UnaryExpr:
		if v.Op == token.NOT {
			return "bool"
		}
		return x.typeOf(v.X)
	case *ast.BinaryExpr:
		switch v.Op {
		case token.LAND, token.LOR, token.EQL, token.NEQ, token.LSS, token.LEQ, token.GTR, token.GEQ:
			return "bool"
		}
		if x.typeOf(v.X) == "str" || x.typeOf(v.Y) == "str" {
			return "str"
		}
		return "Z"
	case *ast.Ident:
		if v.Name == "true" || v.Name == "false" {
			return "bool"
		}
		if t, ok := x.ltypes[v.Name]; ok {
			return t
		}
		if _, ok := vsxConstStr(x.dir, v); ok {
			return "str"
		}
	case *ast.CallExpr:
		fn := x.pr(v.Fun)
		if t, ok := vsxCallTypes[fn]; ok {
			return t
		}
		if _, ok := x.calls[fn]; ok {
			return "str"
		}
	}
	return "Z"
}

// expr returns (value term, panics term)
func (x *vsxX) expr(e ast.Expr) (string, string) {
	if c, ok := x.leaves[x.pr(e)]; ok {
		return c, "false"
	}
	switch v := e.(type) {
	case *ast.ParenExpr:
		return x.expr(v.X)
	case *ast.BasicLit:
		switch v.Kind {
		case token.STRING:
			s, err := strconv.Unquote(v.Value)
			if err != nil {
				return x.fail("bad string literal %s", v.Value), "false"
			}
			return bytesLit([]byte(s)), "false"
		case token.INT:
			n, err := strconv.ParseInt(v.Value, 0, 64)
			if err != nil {
				return x.fail("bad int literal %s", v.Value), "false"
			}
			return vsxZ(n), "false"
		case token.CHAR:
			r, _, _, err := strconv.UnquoteChar(v.Value[1:len(v.Value)-1], '\'')
			if err != nil {
				return x.fail("bad char literal %s", v.Value), "false"
			}
			return vsxZ(int64(r)), "false"
		}
	case *ast.Ident:
		if v.Name == "true" || v.Name == "false" {
			return v.Name, "false"
		}
		if v.Name == "nil" {
			return "[]", "false"
		}
		if c, ok := x.locals[v.Name]; ok {
			return c, "false"
		}
		if s, ok := vsxConstStr(x.dir, v); ok {
			return bytesLit([]byte(s)), "false"
		}
		return x.fail("unmapped identifier %s", v.Name), "false"
	case *ast.IndexExpr:
		if m, ok := x.maps[x.pr(v.X)]; ok { // map lookup: the zero value "" when absent, never a panic
			k, pk := x.expr(v.Index)
			return "(aget " + m + " " + k + ")", pk
		}
		s, ps := x.expr(v.X)
		i, pi := x.expr(v.Index)
		return "(nthz " + s + " " + i + ")", vsxOr(vsxOr(ps, pi), "(negb (index_ok "+i+" (zlen "+s+")))")
	case *ast.SliceExpr:
		s, ps := x.expr(v.X)
		lo, hi, pl, ph := "0", "(zlen "+s+")", "false", "false"
		if v.Low != nil {
			lo, pl = x.expr(v.Low)
		}
		if v.High != nil {
			hi, ph = x.expr(v.High)
		}
		return "(zslice " + lo + " " + hi + " " + s + ")", vsxOr(vsxOr(ps, vsxOr(pl, ph)), "(negb (slice_ok "+lo+" "+hi+" (zlen "+s+")))")
	case *ast.UnaryExpr:
		a, pa := x.expr(v.X)
		switch v.Op {
		case token.NOT:
			return "(negb " + a + ")", pa
		case token.SUB:
			return "(- " + a + ")", pa
		}
	case *ast.CallExpr:
		fn := x.pr(v.Fun)
		var args, pans []string
		pan := "false"
		for _, a := range v.Args {
			t, p := x.expr(a)
			args = append(args, t)
			pans = append(pans, p)
			pan = vsxOr(pan, p)
		}
		one := func(f string) (string, string) {
			if len(args) != 1 {
				return x.fail("%s with %d arguments", fn, len(args)), "false"
			}
			return "(" + f + " " + args[0] + ")", pan
		}
		switch fn {
		case "strings.HasPrefix":
			if len(args) == 2 {
				return "(has_prefix " + args[0] + " " + args[1] + ")", pan
			}
		case "strings.IndexByte":
			if len(args) == 2 {
				return "(index_byte " + args[0] + " " + args[1] + ")", pan
			}
		case "path.Ext":
			return one("path_ext")
		case "path.Base":
			return one("path_base")
		case "path.Dir":
			return one("path_dir")
		case "path.Clean":
			return one("path_clean")
		case "path.Join":
			return "(path_join [" + strings.Join(args, "; ") + "])", pan
		case "len":
			return one("zlen")
		case "string", "int":
			if len(args) == 1 {
				return args[0], pan
			}
		}
		if c, ok := x.calls[fn]; ok {
			val := "(" + c[0] + " " + strings.Join(args, " ") + ")"
			if c[1] != "" {
				pan = vsxOr(pan, "("+c[1]+" "+strings.Join(args, " ")+")")
			}
			return val, pan
		}
		return x.fail("unmapped call %s", fn), "false"
	case *ast.BinaryExpr:
		if id, ok := v.Y.(*ast.Ident); ok && id.Name == "nil" && (v.Op == token.EQL || v.Op == token.NEQ) {
			pres, ok := x.nilable[x.pr(v.X)]
			if !ok {
				return x.fail("nil comparison of unmapped %s", x.pr(v.X)), "false"
			}
			if v.Op == token.EQL {
				return "(negb " + pres + ")", "false"
			}
			return pres, "false"
		}
		a, pa := x.expr(v.X)
		b, pb := x.expr(v.Y)
		ta, tb := x.typeOf(v.X), x.typeOf(v.Y)
		str := ta == "str" || tb == "str"
		both := vsxOr(pa, pb)
		switch v.Op {
		case token.ADD:
			if str {
				return "(" + a + " ++ " + b + ")", both
			}
			return "(" + a + " + " + b + ")", both
		case token.SUB:
			return "(" + a + " - " + b + ")", both
		case token.LAND: // short circuit: b is evaluated only when a holds
			return "(" + a + " && " + b + ")", vsxOr(pa, vsxAnd(a, pb))
		case token.LOR:
			return "(" + a + " || " + b + ")", vsxOr(pa, vsxAnd("(negb "+a+")", pb))
		case token.EQL, token.NEQ:
			r := "(" + a + " =? " + b + ")"
			if str {
				r = "(bytes_eqb " + a + " " + b + ")"
			} else if ta == "bool" {
				r = "(Bool.eqb " + a + " " + b + ")"
			}
			if v.Op == token.NEQ {
				r = "(negb " + r + ")"
			}
			return r, both
		case token.LSS:
			return "(" + a + " <? " + b + ")", both
		case token.LEQ:
			return "(" + a + " <=? " + b + ")", both
		case token.GTR:
			return "(" + a + " >? " + b + ")", both
		case token.GEQ:
			return "(" + a + " >=? " + b + ")", both
		}
	}
	return x.fail("unsupported expression %s", x.pr(e)), "false"
}

func vsxHasReturn(list []ast.Stmt) bool {
	found := false
	for _, s := range list {
		ast.Inspect(s, func(n ast.Node) bool {
			if _, ok := n.(*ast.ReturnStmt); ok {
				found = true
			}
			if _, ok := n.(*ast.FuncLit); ok {
				return false
			}
			return !found
		})
	}
	return found
}

// names assigned with `=` inside the statements (deep)
func vsxAssigned(list []ast.Stmt) []string {
	seen := map[string]bool{}
	var out []string
	for _, s := range list {
		ast.Inspect(s, func(n ast.Node) bool {
			if as, ok := n.(*ast.AssignStmt); ok && as.Tok == token.ASSIGN {
				for _, l := range as.Lhs {
					if id, ok := l.(*ast.Ident); ok && !seen[id.Name] {
						seen[id.Name] = true
						out = append(out, id.Name)
					}
				}
			}
			return true
		})
	}
	return out
}

func (x *vsxX) bind(name, typ string) (coq string, restore func()) {
	x.nlet++
	coq = "v_" + name + strconv.Itoa(x.nlet)
	oldV, hadV := x.locals[name]
	oldT, hadT := x.ltypes[name]
	oldL, hadL := x.leaves[name]
	delete(x.leaves, name)
	x.locals[name] = coq
	x.ltypes[name] = typ
	return coq, func() {
		if hadV {
			x.locals[name] = oldV
		} else {
			delete(x.locals, name)
		}
		if hadT {
			x.ltypes[name] = oldT
		} else {
			delete(x.ltypes, name)
		}
		if hadL {
			x.leaves[name] = oldL
		}
	}
}

type vsxCont func() (string, string)

// stmts translates a loop-free statement list into (value, panics); rest is the continuation when the list falls through
func (x *vsxX) stmts(list []ast.Stmt, rest vsxCont) (string, string) {
	if len(list) == 0 {
		if rest == nil {
			return x.fail("fallthrough without continuation"), "false"
		}
		return rest()
	}
	s, tail := list[0], list[1:]
	cont := func() (string, string) { return x.stmts(tail, rest) }
	letIn := func(name string, rhs ast.Expr, body vsxCont) (string, string) {
		val, pv := x.expr(rhs)
		coq, restore := x.bind(name, x.typeOf(rhs))
		b, pb := body()
		restore()
		pan := pv
		if pb != "false" {
			pan = vsxOr(pv, "(let "+coq+" := "+val+" in "+pb+")")
		}
		return "(let " + coq + " := " + val + " in " + b + ")", pan
	}
	switch v := s.(type) {
	case *ast.ReturnStmt:
		if len(v.Results) == 1 {
			return x.expr(v.Results[0])
		}
	case *ast.AssignStmt:
		if len(v.Lhs) == 1 && len(v.Rhs) == 1 && (v.Tok == token.ASSIGN || v.Tok == token.DEFINE) {
			if id, ok := v.Lhs[0].(*ast.Ident); ok {
				return letIn(id.Name, v.Rhs[0], cont)
			}
		}
	case *ast.IfStmt:
		if v.Init != nil {
			as, ok := v.Init.(*ast.AssignStmt)
			if !ok || len(as.Lhs) != 1 || len(as.Rhs) != 1 || as.Tok != token.DEFINE {
				return x.fail("if with an unsupported init statement"), "false"
			}
			id, ok := as.Lhs[0].(*ast.Ident)
			if !ok {
				return x.fail("if init does not define an identifier"), "false"
			}
			noInit := *v
			noInit.Init = nil
			return letIn(id.Name, as.Rhs[0], func() (string, string) { return x.stmts(append([]ast.Stmt{&noInit}, tail...), rest) })
		}
		c, pc := x.expr(v.Cond)
		if v.Else == nil && !vsxHasReturn(v.Body.List) {
			// a conditional update of ONE outer variable: v' := if c then <value of v after the body> else v
			var outer []string
			for _, n := range vsxAssigned(v.Body.List) {
				if _, ok := x.locals[n]; ok {
					outer = append(outer, n)
				}
			}
			if len(outer) != 1 {
				return x.fail("conditional block without return must update exactly one variable (updates %v)", outer), "false"
			}
			name := outer[0]
			cur := x.locals[name]
			typ := x.ltypes[name]
			bv, bp := x.stmts(v.Body.List, func() (string, string) { return x.locals[name], "false" })
			coq, restore := x.bind(name, typ)
			rv, rp := cont()
			restore()
			upd := "(if " + c + " then " + bv + " else " + cur + ")"
			pan := vsxOr(pc, vsxAnd(c, bp))
			if rp != "false" {
				pan = vsxOr(pan, "(let "+coq+" := "+upd+" in "+rp+")")
			}
			return "(let " + coq + " := " + upd + " in " + rv + ")", pan
		}
		tv, tp := x.stmts(v.Body.List, cont)
		var ev, ep string
		switch e := v.Else.(type) {
		case nil:
			ev, ep = cont()
		case *ast.BlockStmt:
			ev, ep = x.stmts(e.List, cont)
		case *ast.IfStmt:
			ev, ep = x.stmts([]ast.Stmt{e}, cont)
		}
		pan := pc
		if tp != "false" || ep != "false" {
			pan = vsxOr(pc, "(if "+c+" then "+tp+" else "+ep+")")
		}
		return "(if " + c + " then " + tv + " else " + ev + ")", pan
	case *ast.SwitchStmt:
		if v.Init != nil {
			return x.fail("switch with init"), "false"
		}
		// rewritten as an if / else-if chain in source order
		var chain ast.Stmt
		var clauses []*ast.CaseClause
		var deflt *ast.CaseClause
		for _, cl := range v.Body.List {
			cc := cl.(*ast.CaseClause)
			if cc.List == nil {
				deflt = cc
			} else {
				clauses = append(clauses, cc)
			}
		}
		if deflt != nil {
			chain = &ast.BlockStmt{List: deflt.Body}
		}
		for i := len(clauses) - 1; i >= 0; i-- {
			cc := clauses[i]
			var cond ast.Expr
			for _, ce := range cc.List {
				var one ast.Expr = ce
				if v.Tag != nil {
					one = &ast.BinaryExpr{X: v.Tag, Op: token.EQL, Y: ce}
				}
				if cond == nil {
					cond = one
				} else {
					cond = &ast.BinaryExpr{X: cond, Op: token.LOR, Y: one}
				}
			}
			is := &ast.IfStmt{Cond: cond, Body: &ast.BlockStmt{List: cc.Body}}
			if chain != nil {
				is.Else = chain
			}
			chain = is
		}
		if chain == nil {
			return cont()
		}
		if blk, ok := chain.(*ast.BlockStmt); ok {
			return x.stmts(append(append([]ast.Stmt{}, blk.List...), tail...), rest)
		}
		return x.stmts(append([]ast.Stmt{chain}, tail...), rest)
	}
	return x.fail("unsupported statement %s", strings.Join(strings.Fields(printNode(x.p.fset, s)), " ")), "false"
}

type vsxSpec struct {
	dir, recv, fn string
	coq, params   string
	ret           string
	leaves        map[string]string
	types         map[string]string
	maps          map[string]string
	nilable       map[string]string
	calls         map[string][2]string
	ltypes        map[string]string // Go parameter / variable name -> type, for identifiers given as leaves
	noPanics      bool
}

func (s vsxSpec) newX(p *pkgInfo) *vsxX {
	x := &vsxX{p: p, dir: s.dir, leaves: map[string]string{}, types: map[string]string{}, maps: map[string]string{}, nilable: map[string]string{},
		calls: map[string][2]string{}, locals: map[string]string{}, ltypes: map[string]string{}}
	for k, v := range s.leaves {
		x.leaves[vsxStrip(k)] = v
	}
	for k, v := range s.types {
		x.types[vsxStrip(k)] = v
	}
	for k, v := range s.maps {
		x.maps[vsxStrip(k)] = v
	}
	for k, v := range s.nilable {
		x.nilable[vsxStrip(k)] = v
	}
	for k, v := range s.calls {
		x.calls[vsxStrip(k)] = v
	}
	for k, v := range s.ltypes {
		x.types[vsxStrip(k)] = v
	}
	return x
}

func (o *out) vsxDef(s vsxSpec, what, val, pan, src string) {
	ps := s.params
	if ps != "" {
		ps = " " + ps
	}
	o.f("Definition %s%s : %s :=\n  %s.\n", s.coq, ps, s.ret, val)
	if !s.noPanics {
		o.f("Definition %s_panics%s : bool :=\n  %s.\n", s.coq, ps, pan)
	}
	o.f("(* from %s:%s.%s : %s : %s *)\n", s.dir, s.recv, s.fn, what, strings.ReplaceAll(src, "*)", "* )"))
}

type vsxFinder func(p *pkgInfo, fd *ast.FuncDecl) ast.Expr

func (o *out) vsxEmit(s vsxSpec, what string, find vsxFinder) {
	p, fd := findFunc(s.dir, s.recv, s.fn)
	if fd == nil {
		o.brokenDef(s.coq, "function "+s.dir+":"+s.recv+"."+s.fn+" not found")
		return
	}
	e := find(p, fd)
	if e == nil {
		o.brokenDef(s.coq, what+" not found in "+s.fn)
		return
	}
	x := s.newX(p)
	c, pan := x.expr(e)
	if x.err != nil {
		o.brokenDef(s.coq, x.err.Error())
		return
	}
	o.vsxDef(s, what, c, pan, strings.Join(strings.Fields(printNode(p.fset, e)), " "))
}

// whole loop-free function body
func (o *out) vsxFunc(s vsxSpec) {
	p, fd := findFunc(s.dir, s.recv, s.fn)
	if fd == nil {
		o.brokenDef(s.coq, "function "+s.dir+":"+s.recv+"."+s.fn+" not found")
		return
	}
	x := s.newX(p)
	c, pan := x.stmts(fd.Body.List, nil)
	if x.err != nil {
		o.brokenDef(s.coq, x.err.Error())
		return
	}
	o.vsxDef(s, "whole body", c, pan, "")
}

// the statements of a block selected by `pick`, from the first one whose text starts with `from` (or the first) up to but not
// including the first one whose text starts with `until` (or the end); the value is the translation of the Go expression found by
// `result` (evaluated after those statements), or what the statements return when result is nil
func (o *out) vsxBlock(s vsxSpec, what string, pick func(p *pkgInfo, fd *ast.FuncDecl) []ast.Stmt, from, until string, result vsxFinder) {
	p, fd := findFunc(s.dir, s.recv, s.fn)
	if fd == nil {
		o.brokenDef(s.coq, "function "+s.dir+":"+s.recv+"."+s.fn+" not found")
		return
	}
	list := pick(p, fd)
	if list == nil {
		o.brokenDef(s.coq, what+": block not found in "+s.fn)
		return
	}
	i0, i1 := -1, -1
	if from == "" {
		i0 = 0
	}
	if until == "" {
		i1 = len(list)
	}
	for i, st := range list {
		txt := vsxStrip(printNode(p.fset, st))
		if i0 < 0 && strings.HasPrefix(txt, vsxStrip(from)) {
			i0 = i
		}
		if i1 < 0 && until != "" && strings.HasPrefix(txt, vsxStrip(until)) {
			i1 = i
		}
	}
	if i0 < 0 || i1 < 0 || i1 < i0 {
		o.brokenDef(s.coq, what+": no statements from `"+from+"` to `"+until+"` in "+s.fn)
		return
	}
	var resExpr ast.Expr
	if result != nil {
		resExpr = result(p, fd)
		if resExpr == nil {
			o.brokenDef(s.coq, what+": result expression not found in "+s.fn)
			return
		}
	}
	x := s.newX(p)
	var rest vsxCont
	if resExpr != nil {
		rest = func() (string, string) { return x.expr(resExpr) }
	}
	c, pan := x.stmts(list[i0:i1], rest)
	if x.err != nil {
		o.brokenDef(s.coq, x.err.Error())
		return
	}
	var src []string
	for _, st := range list[i0:i1] {
		src = append(src, strings.Join(strings.Fields(printNode(p.fset, st)), " "))
	}
	if resExpr != nil {
		src = append(src, "=> "+strings.Join(strings.Fields(printNode(p.fset, resExpr)), " "))
	}
	o.vsxDef(s, what, c, pan, strings.Join(src, " ; "))
}

// a Go identifier as result expression
func vsxIdent(name string) vsxFinder {
	return func(p *pkgInfo, fd *ast.FuncDecl) ast.Expr { return ast.NewIdent(name) }
}

// ---- finders
func vsxCond(kind, marker string, nth int) (string, vsxFinder) {
	return fmt.Sprintf("%s condition #%d containing `%s`", kind, nth, marker), func(p *pkgInfo, fd *ast.FuncDecl) ast.Expr {
		var found ast.Expr
		k := 0
		ast.Inspect(fd.Body, func(n ast.Node) bool {
			if found != nil {
				return false
			}
			var cond ast.Expr
			if is, ok := n.(*ast.IfStmt); ok && kind == "if" {
				cond = is.Cond
			}
			if fs, ok := n.(*ast.ForStmt); ok && kind == "for" {
				cond = fs.Cond
			}
			if cond != nil && strings.Contains(strings.Join(strings.Fields(printNode(p.fset, cond)), " "), marker) {
				if k == nth {
					found = cond
					return false
				}
				k++
			}
			return true
		})
		return found
	}
}

func vsxAssignRhs(lhs string, nth int) (string, vsxFinder) {
	return fmt.Sprintf("assignment #%d to %s", nth, lhs), func(p *pkgInfo, fd *ast.FuncDecl) ast.Expr {
		var found ast.Expr
		k := 0
		ast.Inspect(fd.Body, func(n ast.Node) bool {
			if found != nil {
				return false
			}
			if as, ok := n.(*ast.AssignStmt); ok && len(as.Lhs) == 1 && len(as.Rhs) == 1 && printNode(p.fset, as.Lhs[0]) == lhs {
				if k == nth {
					found = as.Rhs[0]
					return false
				}
				k++
			}
			return true
		})
		return found
	}
}

func vsxCallArg(callee string, nth, arg int) (string, vsxFinder) {
	return fmt.Sprintf("argument %d of call #%d to %s", arg, nth, callee), func(p *pkgInfo, fd *ast.FuncDecl) ast.Expr {
		var found ast.Expr
		k := 0
		ast.Inspect(fd.Body, func(n ast.Node) bool {
			if found != nil {
				return false
			}
			if ce, ok := n.(*ast.CallExpr); ok && vsxStrip(printNode(p.fset, ce.Fun)) == vsxStrip(callee) {
				if k == nth {
					if len(ce.Args) > arg {
						found = ce.Args[arg]
					}
					return false
				}
				k++
			}
			return true
		})
		return found
	}
}

// value of field `field` in the first composite literal of type `typ`
func vsxLitField(typ, field string) (string, vsxFinder) {
	return fmt.Sprintf("field %s of the %s literal", field, typ), func(p *pkgInfo, fd *ast.FuncDecl) ast.Expr {
		var found ast.Expr
		ast.Inspect(fd.Body, func(n ast.Node) bool {
			if found != nil {
				return false
			}
			if cl, ok := n.(*ast.CompositeLit); ok && cl.Type != nil && printNode(p.fset, cl.Type) == typ {
				for _, el := range cl.Elts {
					if kv, ok := el.(*ast.KeyValueExpr); ok && printNode(p.fset, kv.Key) == field {
						found = kv.Value
					}
				}
				return false
			}
			return true
		})
		return found
	}
}

// body of the nth `for ... range` statement of a function
func vsxRangeBody(nth int) func(p *pkgInfo, fd *ast.FuncDecl) []ast.Stmt {
	return func(p *pkgInfo, fd *ast.FuncDecl) []ast.Stmt {
		var found []ast.Stmt
		k := 0
		ast.Inspect(fd.Body, func(n ast.Node) bool {
			if found != nil {
				return false
			}
			if rs, ok := n.(*ast.RangeStmt); ok {
				if k == nth {
					found = rs.Body.List
					return false
				}
				k++
			}
			return true
		})
		return found
	}
}

// ---- things that are not expressions

// bool: does the function body contain a statement / expression whose printed form (spaces removed) contains `frag`?
func (o *out) vsxContains(dir, recv, fn, frag, coq string) {
	p, fd := findFunc(dir, recv, fn)
	if fd == nil {
		o.brokenDef(coq, "function "+dir+":"+recv+"."+fn+" not found")
		return
	}
	found := strings.Contains(vsxStrip(printNode(p.fset, fd.Body)), vsxStrip(frag))
	o.f("Definition %s : bool := %v. (* %s:%s.%s contains `%s` *)\n", coq, found, dir, recv, fn, frag)
}

// string literals passed as argument `arg` to the calls of a method named `method`, in source order
func (o *out) vsxCallStrings(dir, recv, fn, method string, arg int, coq string) {
	_, fd := findFunc(dir, recv, fn)
	if fd == nil {
		o.brokenDef(coq, "function "+dir+":"+recv+"."+fn+" not found")
		return
	}
	// ast.Inspect visits a call chain a.F("x").G("y") outermost first; order by position instead
	type pos struct {
		at      token.Pos
		lit, nm string
	}
	var ps []pos
	ast.Inspect(fd.Body, func(n ast.Node) bool {
		ce, ok := n.(*ast.CallExpr)
		if !ok {
			return true
		}
		se, ok := ce.Fun.(*ast.SelectorExpr)
		if !ok || se.Sel.Name != method || len(ce.Args) <= arg {
			return true
		}
		if s, ok := vsxConstStr(dir, ce.Args[arg]); ok {
			ps = append(ps, pos{ce.Args[arg].Pos(), bytesLit([]byte(s)), s})
		}
		return true
	})
	sort.Slice(ps, func(i, j int) bool { return ps[i].at < ps[j].at })
	var items, names []string
	for _, q := range ps {
		items = append(items, q.lit)
		names = append(names, q.nm)
	}
	o.f("Definition %s : list (list Z) := [%s]. (* %s:%s.%s : argument %d of every %s call: %s *)\n", coq, strings.Join(items, "; "), dir, recv, fn, arg, method, strings.Join(names, " "))
}

// struct field tags: for struct `name`, the list of (Go field name, xml tag) in declaration order
func vsxStructTags(dir, name string) ([][2]string, bool) {
	_, st := findStruct(dir, name)
	if st == nil {
		return nil, false
	}
	var out [][2]string
	for _, f := range st.Fields.List {
		tag := ""
		if f.Tag != nil {
			if u, err := strconv.Unquote(f.Tag.Value); err == nil {
				tag = reflect.StructTag(u).Get("xml")
			}
		}
		for _, n := range f.Names {
			out = append(out, [2]string{n.Name, tag})
		}
	}
	return out, true
}

func (o *out) vsxXMLName(dir, name, coqNS, coqTag string) {
	tags, ok := vsxStructTags(dir, name)
	if ok {
		for _, t := range tags {
			if t[0] == "XMLName" {
				parts := strings.Fields(t[1])
				if len(parts) == 2 {
					o.f("Definition %s : list Z := %s. (* %s.%s XMLName namespace %q *)\n", coqNS, bytesLit([]byte(parts[0])), dir, name, parts[0])
					o.f("Definition %s : list Z := %s. (* %s.%s XMLName local name %q *)\n", coqTag, bytesLit([]byte(parts[1])), dir, name, parts[1])
					return
				}
			}
		}
	}
	o.brokenDef(coqNS, "XMLName tag of "+dir+"."+name+" not found")
}

// the attribute fields (`xml:",attr"`) of a struct, in declaration order: the order xml.Marshal writes them in
func (o *out) vsxAttrFields(dir, name, coq string) {
	tags, ok := vsxStructTags(dir, name)
	if !ok {
		o.brokenDef(coq, "struct "+dir+"."+name+" not found")
		return
	}
	var items, names []string
	for _, t := range tags {
		if t[0] == "XMLName" {
			continue
		}
		if t[1] != ",attr" {
			o.brokenDef(coq, fmt.Sprintf("field %s of %s.%s is not a plain attribute (tag %q)", t[0], dir, name, t[1]))
			return
		}
		items = append(items, bytesLit([]byte(t[0])))
		names = append(names, t[0])
	}
	o.f("Definition %s : list (list Z) := [%s]. (* %s.%s attribute fields in declaration order: %s *)\n", coq, strings.Join(items, "; "), dir, name, strings.Join(names, " "))
}

// the element fields of a struct with their xml paths (a>b), in declaration order; an empty tag means the field name
func (o *out) vsxElemFields(dir, name, coq string) {
	tags, ok := vsxStructTags(dir, name)
	if !ok {
		o.brokenDef(coq, "struct "+dir+"."+name+" not found")
		return
	}
	var items, names []string
	for _, t := range tags {
		if t[0] == "XMLName" {
			continue
		}
		tag := t[1]
		kind := "0" // element
		if tag == ",attr" {
			kind, tag = "1", t[0]
		} else if tag == "" {
			tag = t[0]
		} else if strings.Contains(tag, ",") {
			o.brokenDef(coq, fmt.Sprintf("field %s of %s.%s has an unmodelled xml tag %q", t[0], dir, name, t[1]))
			return
		}
		var segs []string
		for _, sg := range strings.Split(tag, ">") {
			segs = append(segs, bytesLit([]byte(sg)))
		}
		items = append(items, "("+kind+", ["+strings.Join(segs, "; ")+"])")
		names = append(names, t[0]+"="+tag)
	}
	o.f("Definition %s : list (Z * list (list Z)) := [%s]. (* %s.%s fields (1 = attribute, 0 = element path): %s *)\n", coq, strings.Join(items, "; "), dir, name, strings.Join(names, " "))
}

func vsxGoroot() string {
	cmd := exec.Command("go", "env", "GOROOT")
	if out, err := cmd.Output(); err == nil && strings.TrimSpace(string(out)) != "" {
		return strings.TrimSpace(string(out))
	}
	return runtime.GOROOT()
}

// const Header of encoding/xml (the toolchain that builds relic)
func (o *out) vsxXMLHeader(coq string) {
	path := filepath.Join(vsxGoroot(), "src", "encoding", "xml", "marshal.go")
	fset := token.NewFileSet()
	f, err := parser.ParseFile(fset, path, nil, 0)
	if err != nil {
		o.brokenDef(coq, "cannot parse "+path)
		return
	}
	for _, d := range f.Decls {
		gd, ok := d.(*ast.GenDecl)
		if !ok || gd.Tok != token.CONST {
			continue
		}
		for _, s := range gd.Specs {
			vs := s.(*ast.ValueSpec)
			for i, n := range vs.Names {
				if n.Name == "Header" && len(vs.Values) > i {
					var parts []string
					okAll := true
					var walk func(e ast.Expr)
					walk = func(e ast.Expr) {
						switch v := e.(type) {
						case *ast.BasicLit:
							u, err := strconv.Unquote(v.Value)
							if err != nil {
								okAll = false
							}
							parts = append(parts, u)
						case *ast.BinaryExpr:
							walk(v.X)
							walk(v.Y)
						default:
							okAll = false
						}
					}
					walk(vs.Values[i])
					if okAll {
						h := strings.Join(parts, "")
						o.f("Definition %s : list Z := %s. (* GOROOT/src/encoding/xml/marshal.go Header = %q *)\n", coq, bytesLit([]byte(h)), h)
						return
					}
				}
			}
		}
	}
	o.brokenDef(coq, "const Header not found in "+path)
}

// var contentTypes = map[string]string{...}: sorted by key
func (o *out) vsxStringMap(dir, name, coq string) {
	ce, _, _, _ := findConstExpr(dir, name)
	cl, ok := ce.(*ast.CompositeLit)
	if !ok {
		o.brokenDef(coq, "var "+name+" map literal not found")
		return
	}
	type ent struct{ k, v string }
	var ents []ent
	for _, el := range cl.Elts {
		kv, ok := el.(*ast.KeyValueExpr)
		if !ok {
			o.brokenDef(coq, "unexpected element in "+name)
			return
		}
		k, ok1 := vsxConstStr(dir, kv.Key)
		v, ok2 := vsxConstStr(dir, kv.Value)
		if !ok1 || !ok2 {
			o.brokenDef(coq, "non-constant entry in "+name)
			return
		}
		ents = append(ents, ent{k, v})
	}
	sort.Slice(ents, func(i, j int) bool { return ents[i].k < ents[j].k })
	var items, names []string
	for _, e := range ents {
		items = append(items, fmt.Sprintf("(%s, %s)", bytesLit([]byte(e.k)), bytesLit([]byte(e.v))))
		names = append(names, e.k+" -> "+e.v)
	}
	o.f("Definition %s : list (list Z * list Z) := [\n  %s].\n", coq, strings.Join(items, ";\n  "))
	o.f("(* %s.%s, sorted by key: %s *)\n", dir, name, strings.Join(names, " ; "))
}

func (o *out) vsxConst(dir, name, coq string) {
	ce, _, _, _ := findConstExpr(dir, name)
	if ce == nil {
		o.brokenDef(coq, "constant "+dir+"."+name+" not found")
		return
	}
	s, ok := vsxConstStr(dir, ce)
	if !ok {
		o.brokenDef(coq, "constant "+dir+"."+name+" is not a string constant expression")
		return
	}
	o.f("Definition %s : list Z := %s. (* %s.%s = %q *)\n", coq, bytesLit([]byte(s)), dir, name, s)
}

// the body of the function literal passed to inz.Mangle in mangleZip: if C { A } else { B }
func vsxMangleCallback(p *pkgInfo, fd *ast.FuncDecl) *ast.IfStmt {
	var found *ast.IfStmt
	ast.Inspect(fd.Body, func(n ast.Node) bool {
		if found != nil {
			return false
		}
		if fl, ok := n.(*ast.FuncLit); ok {
			for _, st := range fl.Body.List {
				if is, ok := st.(*ast.IfStmt); ok && found == nil {
					found = is
				}
			}
			return false
		}
		return true
	})
	return found
}

func init() {
	generators["FmtVSIX_gen"] = func(o *out) {
		const d = "signers/vsix"
		const a = "lib/signappx"
		o.f("From Relic Require Import FmtVSIX.Lib.\n\n")

		o.f("(* ---- consts.go *)\n")
		for _, c := range [][2]string{{"contentTypesPath", "vsix_content_types_path"}, {"rootRelsPath", "vsix_root_rels_path"}, {"digSigPath", "vsix_digsig_path"},
			{"originPath", "vsix_origin_path"}, {"xmlSigPath", "vsix_xml_sig_path"}, {"xmlCertPath", "vsix_xml_cert_path"}, {"nsDigSig", "vsix_ns_digsig"},
			{"sigOriginType", "vsix_sig_origin_type"}, {"sigType", "vsix_sig_type"}, {"certType", "vsix_cert_type"}, {"defaultContentType", "vsix_default_content_type"},
			{"tsFormatXML", "vsix_ts_format_xml"}, {"tsFormatGo", "vsix_ts_format_go"}} {
			o.vsxConst(d, c[0], c[1])
		}
		o.vsxStringMap(d, "contentTypes", "vsix_content_types")

		o.f("\n(* ---- mangle.go: keepFile, the Mangle callback *)\n")
		o.vsxFunc(vsxSpec{dir: d, fn: "keepFile", coq: "vsix_keep_file", params: "(fp : list Z)", ret: "bool", leaves: map[string]string{"fp": "fp"}, ltypes: map[string]string{"fp": "str"}})
		{
			p, fd := findFunc(d, "", "mangleZip")
			var cb *ast.IfStmt
			if fd != nil {
				cb = vsxMangleCallback(p, fd)
			}
			if cb == nil || cb.Else == nil {
				o.brokenDef("vsix_mangle_keeps", "the Mangle callback of mangleZip is not `if C { ... } else { ... }`")
			} else {
				sp := vsxSpec{dir: d, fn: "mangleZip", ret: "bool", params: "(name : list Z)", leaves: map[string]string{"f.Name": "name"}, ltypes: map[string]string{"f.Name": "str"},
					calls: map[string][2]string{"keepFile": {"vsix_keep_file", "vsix_keep_file_panics"}}}
				x := sp.newX(p)
				c, pan := x.expr(cb.Cond)
				if x.err != nil {
					o.brokenDef("vsix_mangle_keeps", x.err.Error())
				} else {
					sp.coq = "vsix_mangle_keeps"
					o.vsxDef(sp, "condition of the callback", c, pan, printNode(p.fset, cb.Cond))
				}
				thenTxt := vsxStrip(printNode(p.fset, cb.Body))
				o.f("Definition vsix_mangle_kept_is_digested : bool := %v. (* the kept branch stores f.Digest(hash) in m.digests[f.Name] *)\n",
					strings.Contains(thenTxt, "f.Digest(hash)") && strings.Contains(thenTxt, "m.digests[f.Name]=sum"))
				o.f("Definition vsix_mangle_kept_is_deleted : bool := %v. (* the kept branch calls f.Delete() *)\n", strings.Contains(thenTxt, "f.Delete()"))
				eb, _ := cb.Else.(*ast.BlockStmt)
				var inner *ast.IfStmt
				deletes := false
				if eb != nil {
					for _, st := range eb.List {
						if is, ok := st.(*ast.IfStmt); ok && inner == nil {
							inner = is
						}
						if vsxStrip(printNode(p.fset, st)) == "f.Delete()" {
							deletes = true
						}
					}
				}
				o.f("Definition vsix_mangle_dropped_is_deleted : bool := %v. (* the other branch ends with f.Delete() *)\n", deletes)
				if inner == nil {
					o.brokenDef("vsix_mangle_parses", "no nested if in the else branch of the Mangle callback")
				} else {
					x := sp.newX(p)
					c, pan := x.expr(inner.Cond)
					if x.err != nil {
						o.brokenDef("vsix_mangle_parses", x.err.Error())
					} else {
						sp.coq = "vsix_mangle_parses"
						o.vsxDef(sp, "nested condition of the other branch", c, pan, printNode(p.fset, inner.Cond))
					}
					o.f("Definition vsix_mangle_parse_calls_parse_types : bool := %v. (* ... guarding m.parseTypes(f) *)\n", strings.Contains(vsxStrip(printNode(p.fset, inner.Body)), "m.parseTypes(f)"))
				}
			}
		}
		o.vsxContains(d, "mangler", "parseTypes", "m.ctypes.Parse(blob)", "vsix_parse_types_parses_blob")

		o.f("\n(* ---- lib/signappx contenttypes.go, xml.go *)\n")
		o.vsxFunc(vsxSpec{dir: a, recv: "ContentTypes", fn: "Find", coq: "vsix_ct_find", params: "(by_ovr by_ext : assoc) (name : list Z)", ret: "list Z",
			leaves: map[string]string{"name": "name"}, ltypes: map[string]string{"name": "str"}, maps: map[string]string{"c.ByOverride": "by_ovr", "c.ByExt": "by_ext"}})
		o.vsxContains(a, "ContentTypes", "Parse", "c.ByExt[def.Extension] = def.ContentType", "vsix_ct_parse_sets_ext")
		o.vsxContains(a, "ContentTypes", "Parse", "c.ByOverride[ovr.PartName] = ovr.ContentType", "vsix_ct_parse_sets_ovr")
		o.callOrder(a, "ContentTypes", "Marshal", "vsix_ct_marshal_calls", []string{"Strings", "marshalXML"})
		o.vsxContains(a, "ContentTypes", "Marshal", "sort.Strings(extnames)", "vsix_ct_marshal_sorts_ext")
		o.vsxContains(a, "ContentTypes", "Marshal", "sort.Strings(ovrnames)", "vsix_ct_marshal_sorts_ovr")
		o.vsxXMLName(a, "xmlContentTypes", "vsix_ct_xmlns", "vsix_ct_root")
		o.vsxElemFields(a, "xmlContentTypes", "vsix_ct_fields")
		o.vsxAttrFields(a, "contentTypeDefault", "vsix_ct_default_attrs")
		o.vsxAttrFields(a, "contentTypeOverride", "vsix_ct_override_attrs")
		o.vsxConst(a, "xmlHdr", "vsix_ct_xml_hdr_fmt")
		{
			sp := vsxSpec{dir: a, recv: "ContentTypes", fn: "Marshal", coq: "vsix_ct_marshal_standalone", ret: "bool", noPanics: true}
			w, f := vsxCallArg("marshalXML", 0, 1)
			o.vsxEmit(sp, w, f)
			sp2 := vsxSpec{dir: a, fn: "marshalXML", coq: "vsix_ct_standalone_no", ret: "list Z", noPanics: true}
			w, f = vsxAssignRhs("sstr", 0)
			o.vsxEmit(sp2, w, f)
			sp2.coq = "vsix_ct_standalone_yes"
			w, f = vsxAssignRhs("sstr", 1)
			o.vsxEmit(sp2, w, f)
			sp2.coq, sp2.ret = "vsix_ct_standalone_is_yes", "bool"
			sp2.params = "(standalone : bool)"
			sp2.leaves = map[string]string{"standalone": "standalone"}
			sp2.ltypes = map[string]string{"standalone": "bool"}
			w, f = vsxCond("if", "standalone", 0)
			o.vsxEmit(sp2, w, f)
		}

		o.f("\n(* ---- contenttypes.go: newCtypes *)\n")
		{
			sp := vsxSpec{dir: d, recv: "mangler", fn: "newCtypes", coq: "vsix_newct_skip", params: "(ext : list Z) (hasCer : bool)", ret: "bool",
				leaves: map[string]string{"ext": "ext", "hasCer": "hasCer"}, ltypes: map[string]string{"ext": "str", "hasCer": "bool"}, noPanics: true}
			w, f := vsxCond("if", "hasCer", 0)
			o.vsxEmit(sp, w, f)
			o.vsxContains(d, "mangler", "newCtypes", "m.ctypes.ByExt[ext] = ctype", "vsix_newct_sets_ext")
			o.vsxContains(d, "mangler", "newCtypes", "for ext, ctype := range contentTypes", "vsix_newct_ranges_table")
			sp2 := vsxSpec{dir: d, recv: "mangler", fn: "newCtypes", coq: "vsix_newct_name", ret: "list Z", noPanics: true}
			w, f = vsxCallArg("m.m.NewFile", 0, 0)
			o.vsxEmit(sp2, w, f)
		}

		o.f("\n(* ---- rels.go *)\n")
		o.vsxFunc(vsxSpec{dir: d, fn: "relPath", coq: "vsix_rel_path", params: "(fp : list Z)", ret: "list Z", leaves: map[string]string{"fp": "fp"}, ltypes: map[string]string{"fp": "str"}})
		o.vsxXMLName(d, "oxfRelationships", "vsix_rels_xmlns", "vsix_rels_root")
		o.vsxElemFields(d, "oxfRelationships", "vsix_rels_fields")
		o.vsxAttrFields(d, "oxfRelationship", "vsix_rel_attrs")
		o.vsxXMLHeader("vsix_xml_header")
		o.vsxContains(d, "oxfRelationships", "Marshal", "copy(ret, xml.Header)", "vsix_rels_marshal_writes_header")
		{
			sp := vsxSpec{dir: d, recv: "oxfRelationships", fn: "Find", coq: "vsix_rels_find_hit", params: "(rel_type rtype : list Z)", ret: "bool",
				leaves: map[string]string{"rel.Type": "rel_type", "rType": "rtype"}, ltypes: map[string]string{"rel.Type": "str", "rType": "str"}, noPanics: true}
			w, f := vsxCond("if", "rel.Type", 0)
			o.vsxEmit(sp, w, f)
			sp2 := vsxSpec{dir: d, recv: "oxfRelationships", fn: "Find", coq: "vsix_rels_find_path", params: "(target : list Z)", ret: "list Z",
				leaves: map[string]string{"rel.Target": "target"}, ltypes: map[string]string{"rel.Target": "str"}}
			o.vsxBlock(sp2, "the value returned on a hit", func(p *pkgInfo, fd *ast.FuncDecl) []ast.Stmt {
				body := vsxRangeBody(0)(p, fd)
				for _, st := range body {
					if is, ok := st.(*ast.IfStmt); ok {
						return is.Body.List
					}
				}
				return nil
			}, "", "", nil)
			o.vsxContains(d, "oxfRelationships", "Find", `return ""`, "vsix_rels_find_miss_is_empty")
			sp3 := vsxSpec{dir: d, recv: "oxfRelationships", fn: "Append", coq: "vsix_rels_target", params: "(zipPath : list Z)", ret: "list Z",
				leaves: map[string]string{"zipPath": "zipPath"}, ltypes: map[string]string{"zipPath": "str"}}
			w, f = vsxLitField("oxfRelationship", "Target")
			o.vsxEmit(sp3, w, f)
			sp4 := vsxSpec{dir: d, recv: "oxfRelationships", fn: "Append", coq: "vsix_rels_type", params: "(relType : list Z)", ret: "list Z",
				leaves: map[string]string{"relType": "relType"}, ltypes: map[string]string{"relType": "str"}, noPanics: true}
			w, f = vsxLitField("oxfRelationship", "Type")
			o.vsxEmit(sp4, w, f)
			// Id: fmt.Sprintf("R%X", d.Sum(nil)[:4]) over SHA-1(zipPath ++ relType ++ zeros)
			sp5 := vsxSpec{dir: d, recv: "oxfRelationships", fn: "Append", coq: "vsix_rels_id_fmt", ret: "list Z", noPanics: true}
			w, f = vsxCallArg("fmt.Sprintf", 0, 0)
			o.vsxEmit(sp5, w, f)
			p, fd := findFunc(d, "oxfRelationships", "Append")
			if fd != nil {
				_, g := vsxCallArg("fmt.Sprintf", 0, 1)
				e := g(p, fd)
				se, _ := e.(*ast.SliceExpr)
				if se == nil || se.Low != nil || se.High == nil || vsxStrip(printNode(p.fset, se.X)) != "d.Sum(nil)" {
					o.brokenDef("vsix_rels_id_bytes", "the Id is not formatted from d.Sum(nil)[:n]")
				} else {
					o.f("Definition vsix_rels_id_bytes : Z := %s. (* %s:oxfRelationships.Append : d.Sum(nil)[:%s] *)\n", printNode(p.fset, se.High), d, printNode(p.fset, se.High))
				}
				body := vsxStrip(printNode(p.fset, fd.Body))
				o.f("Definition vsix_rels_id_hashes_path_then_type : bool := %v. (* d.Write([]byte(zipPath)) then d.Write([]byte(relType)) on crypto.SHA1 *)\n",
					strings.Contains(body, "d:=crypto.SHA1.New()d.Write([]byte(zipPath))d.Write([]byte(relType))"))
				o.f("Definition vsix_rels_id_retry_appends_zero : bool := %v. (* on an Id collision: d.Write([]byte{0}) and try again *)\n",
					strings.Contains(body, "ifrel2.Id==rel.Id{ok=false}") && strings.Contains(body, "d.Write([]byte{0})"))
				o.f("Definition vsix_rels_appends : bool := %v. (* rels.Relationship = append(rels.Relationship, rel) *)\n",
					strings.Contains(body, "rels.Relationship=append(rels.Relationship,rel)"))
			} else {
				o.brokenDef("vsix_rels_id_bytes", "oxfRelationships.Append not found")
			}
		}
		o.callOrder(d, "mangler", "newRels", "vsix_newrels_calls", []string{"Append", "Marshal", "relPath", "addFile"})
		{
			sp := vsxSpec{dir: d, recv: "mangler", fn: "newRels", coq: "vsix_newrels_name", params: "(parent : list Z)", ret: "list Z",
				leaves: map[string]string{"parent": "parent"}, ltypes: map[string]string{"parent": "str"}, calls: map[string][2]string{"relPath": {"vsix_rel_path", "vsix_rel_path_panics"}}}
			w, f := vsxCallArg("m.addFile", 0, 0)
			o.vsxEmit(sp, w, f)
		}
		o.vsxContains(d, "mangler", "addFile", "m.digests[name] = d.Sum(nil)", "vsix_addfile_digests")
		o.vsxContains(d, "mangler", "addFile", "m.m.NewFile(name, contents)", "vsix_addfile_adds")
		{
			sp := vsxSpec{dir: d, recv: "mangler", fn: "addOrigin", coq: "vsix_origin_name", ret: "list Z", noPanics: true}
			w, f := vsxCallArg("m.addFile", 0, 0)
			o.vsxEmit(sp, w, f)
			sp.coq = "vsix_origin_content"
			w, f = vsxCallArg("m.addFile", 0, 1)
			o.vsxEmit(sp, w, f)
		}
		{
			cl := map[string][2]string{"calcFileName": {"vsix_fname_of", ""}, "relPath": {"vsix_rel_path", "vsix_rel_path_panics"}}
			sp := vsxSpec{dir: d, recv: "mangler", fn: "addCerts", coq: "vsix_cert_path", params: "(fname : list Z)", ret: "list Z",
				leaves: map[string]string{"calcFileName(chain)": "fname"}, ltypes: map[string]string{"calcFileName(chain)": "str"}, calls: cl}
			w, f := vsxAssignRhs("certpath", 0)
			o.vsxEmit(sp, w, f)
			sp2 := vsxSpec{dir: d, recv: "mangler", fn: "addCerts", coq: "vsix_cert_rels_name", params: "(sigName : list Z)", ret: "list Z",
				leaves: map[string]string{"sigName": "sigName"}, ltypes: map[string]string{"sigName": "str"}, calls: cl}
			w, f = vsxCallArg("m.m.NewFile", 1, 0)
			o.vsxEmit(sp2, w, f)
			sp3 := vsxSpec{dir: d, recv: "mangler", fn: "addCerts", coq: "vsix_cert_rel_type", ret: "list Z", noPanics: true}
			w, f = vsxCallArg("rels.Append", 0, 1)
			o.vsxEmit(sp3, w, f)
			o.vsxContains(d, "mangler", "addCerts", "m.addFile(", "vsix_certs_are_digested")
			o.vsxContains(d, "mangler", "addCerts", "m.m.NewFile(certpath, chain.Raw)", "vsix_certs_added_raw")
			o.vsxContains(d, "mangler", "addCerts", "for _, chain := range cert.Chain()", "vsix_certs_whole_chain")
		}

		o.f("\n(* ---- oxmlsig.go: calcFileName, makeSignature *)\n")
		{
			p, fd := findFunc(d, "", "calcFileName")
			ok := false
			if fd != nil {
				for _, st := range fd.Body.List {
					if rs, isr := st.(*ast.ReturnStmt); isr && len(rs.Results) == 1 {
						if se, iss := rs.Results[0].(*ast.SliceExpr); iss && se.Low == nil && se.High != nil {
							if vsxStrip(printNode(p.fset, se.X)) == "strings.ToLower(base32.StdEncoding.EncodeToString(sum))" {
								o.f("Definition vsix_fname_len : Z := %s. (* %s:.calcFileName : strings.ToLower(base32.StdEncoding.EncodeToString(sha1(cert.Raw)))[:%s] *)\n",
									printNode(p.fset, se.High), d, printNode(p.fset, se.High))
								ok = true
							}
						}
					}
				}
			}
			if !ok {
				o.brokenDef("vsix_fname_len", "calcFileName is not lower-cased base32 of a digest cut to a fixed length")
			}
		}
		{
			sp := vsxSpec{dir: d, recv: "mangler", fn: "makeSignature", coq: "vsix_ref_uri", params: "(by_ovr by_ext : assoc) (name : list Z)", ret: "list Z",
				leaves: map[string]string{"name": "name"}, ltypes: map[string]string{"name": "str"}, maps: map[string]string{"contentTypes": "vsix_content_types"},
				calls: map[string][2]string{"m.ctypes.Find": {"vsix_ct_find by_ovr by_ext", "vsix_ct_find_panics by_ovr by_ext"}}}
			o.vsxBlock(sp, "content type choice and Reference URI of the loop body", vsxRangeBody(1), "ctype :=", "ref :=", func(p *pkgInfo, fd *ast.FuncDecl) ast.Expr {
				_, f := vsxCallArg("ref.CreateAttr", 0, 1)
				return f(p, fd)
			})
		}
		o.vsxCallStrings(d, "mangler", "makeSignature", "CreateElement", 0, "vsix_ms_elements")
		o.vsxCallStrings(d, "mangler", "makeSignature", "CreateAttr", 0, "vsix_ms_attr_names")
		{
			sp := vsxSpec{dir: d, recv: "mangler", fn: "makeSignature", coq: "vsix_ms_object_tag", ret: "list Z", noPanics: true}
			w, f := vsxCallArg("etree.NewElement", 0, 0)
			o.vsxEmit(sp, w, f)
			sp.coq = "vsix_ms_object_id"
			w, f = vsxCallArg("pkg.CreateAttr", 0, 1)
			o.vsxEmit(sp, w, f)
		}
		o.vsxContains(d, "mangler", "makeSignature", "sort.Strings(names)", "vsix_ms_sorts_names")
		o.vsxContains(d, "mangler", "makeSignature", "for name := range m.digests", "vsix_ms_names_are_digest_keys")
		o.vsxContains(d, "mangler", "makeSignature", "SetText(base64.StdEncoding.EncodeToString(digest))", "vsix_ms_digest_is_base64")
		o.vsxContains(d, "mangler", "makeSignature", `CreateAttr("Algorithm", hashUri)`, "vsix_ms_digest_method_is_hash_uri")
		o.vsxContains(d, "mangler", "makeSignature", "hashUri := xmldsig.HashUris[opts.Hash]", "vsix_ms_hash_uri_from_table")
		o.vsxContains(d, "mangler", "makeSignature", "xmldsig.SignOptions{UseRecC14n: true, IncludeKeyValue: true}", "vsix_ms_rec_c14n_keyvalue")
		o.vsxContains(d, "mangler", "makeSignature", "if !detachCerts { xopts.IncludeX509 = true }", "vsix_ms_x509_unless_detached")
		o.vsxContains(d, "mangler", "makeSignature", "xmldsig.SignEnveloping(pkg, opts.Hash, cert.Signer(), cert.Chain(), xopts)", "vsix_ms_signs_enveloping")
		o.vsxContains(d, "mangler", "makeSignature", "if cert.Timestamper != nil", "vsix_ms_timestamps_when_configured")
		o.vsxContains(d, "mangler", "makeSignature", "pkcs9.Verify", "vsix_ms_verifies_timestamp")
		o.vsxContains(d, "mangler", "makeSignature", "checkTimestamp(", "vsix_ms_checks_timestamp")
		o.vsxContains(d, "mangler", "makeSignature", "sigtime.CreateElement(\"Value\").SetText(opts.Time.Format(tsFormatGo))", "vsix_ms_time_value")

		o.f("\n(* ---- signer.go: sign *)\n")
		{
			cl := map[string][2]string{"calcFileName": {"vsix_fname_of", ""}}
			sp := vsxSpec{dir: d, fn: "sign", coq: "vsix_sig_name", params: "(fname : list Z)", ret: "list Z",
				leaves: map[string]string{"calcFileName(cert.Leaf)": "fname"}, ltypes: map[string]string{"calcFileName(cert.Leaf)": "str"}, calls: cl}
			w, f := vsxAssignRhs("sigName", 0)
			o.vsxEmit(sp, w, f)
			for i, nm := range []string{"vsix_sign_rels1", "vsix_sign_rels2"} {
				for j, part := range []string{"parent", "child", "type"} {
					s2 := vsxSpec{dir: d, fn: "sign", coq: nm + "_" + part, params: "(sigName : list Z)", ret: "list Z", noPanics: true,
						leaves: map[string]string{"sigName": "sigName"}, ltypes: map[string]string{"sigName": "str"}}
					w, f := vsxCallArg("m.newRels", i, j)
					o.vsxEmit(s2, w, f)
				}
			}
			s3 := vsxSpec{dir: d, fn: "sign", coq: "vsix_sign_sig_part", params: "(sigName : list Z)", ret: "list Z", noPanics: true,
				leaves: map[string]string{"sigName": "sigName"}, ltypes: map[string]string{"sigName": "str"}}
			w, f = vsxCallArg("m.m.NewFile", 0, 0)
			o.vsxEmit(s3, w, f)
			s4 := vsxSpec{dir: d, fn: "sign", coq: "vsix_sign_adds_certs", params: "(detachCerts : bool)", ret: "bool", noPanics: true,
				leaves: map[string]string{"detachCerts": "detachCerts"}, ltypes: map[string]string{"detachCerts": "bool"}}
			w, f = vsxCond("if", "detachCerts", 0)
			o.vsxEmit(s4, w, f)
			s5 := vsxSpec{dir: d, fn: "sign", coq: "vsix_sign_ctypes_has_cer", params: "(detachCerts : bool)", ret: "bool", noPanics: true,
				leaves: map[string]string{"detachCerts": "detachCerts"}, ltypes: map[string]string{"detachCerts": "bool"}}
			w, f = vsxCallArg("m.newCtypes", 0, 0)
			o.vsxEmit(s5, w, f)
		}
		o.callOrder(d, "", "sign", "vsix_sign_calls", []string{"mangleZip", "newRels", "addOrigin", "addCerts", "makeSignature", "NewFile", "newCtypes", "MakePatch", "SetBinPatch"})

		o.f("\n(* ---- oxmlsig.go: readSignature, checkManifest, checkTimestamp; signer.go: verify *)\n")
		{
			nl := map[string]string{"files[top]": "has_top", "files[relPath(sigpath)]": "has_sig_rels", "zf": "has_file", "tsEl": "has_ts", "psig.Certificate": "has_leaf"}
			mk := func(fn, coq, params string, leaves map[string]string, lt map[string]string) vsxSpec {
				return vsxSpec{dir: d, fn: fn, coq: coq, params: params, ret: "bool", leaves: leaves, ltypes: lt, nilable: nl, noPanics: true}
			}
			w, f := vsxCond("if", "files[top]", 0)
			o.vsxEmit(mk("readSignature", "vsix_rs_no_root_rels", "(has_top : bool)", nil, nil), w, f)
			w, f = vsxCond("if", "origin", 0)
			o.vsxEmit(mk("readSignature", "vsix_rs_no_origin", "(origin : list Z)", map[string]string{"origin": "origin"}, map[string]string{"origin": "str"}), w, f)
			w, f = vsxCond("if", "sigpath ==", 0)
			o.vsxEmit(mk("readSignature", "vsix_rs_no_sigpath", "(sigpath : list Z)", map[string]string{"sigpath": "sigpath"}, map[string]string{"sigpath": "str"}), w, f)
			w, f = vsxCond("if", "files[relPath(sigpath)]", 0)
			o.vsxEmit(mk("readSignature", "vsix_rs_has_cert_rels", "(has_sig_rels : bool)", nil, nil), w, f)
			w, f = vsxCond("if", "rel.Type", 0)
			o.vsxEmit(mk("readSignature", "vsix_rs_skip_rel", "(rel_type : list Z)", map[string]string{"rel.Type": "rel_type"}, map[string]string{"rel.Type": "str"}), w, f)
			sp := vsxSpec{dir: d, fn: "readSignature", coq: "vsix_rs_cert_path", params: "(target : list Z)", ret: "list Z",
				leaves: map[string]string{"rel.Target": "target"}, ltypes: map[string]string{"rel.Target": "str"}}
			w, f = vsxAssignRhs("p", 0)
			o.vsxEmit(sp, w, f)
			sp2 := vsxSpec{dir: d, fn: "readSignature", coq: "vsix_rs_top", ret: "list Z", calls: map[string][2]string{"relPath": {"vsix_rel_path", "vsix_rel_path_panics"}}}
			w, f = vsxAssignRhs("top", 0)
			o.vsxEmit(sp2, w, f)
			for i, nm := range []string{"vsix_rs_origin_type", "vsix_rs_sig_type"} {
				spf := vsxSpec{dir: d, fn: "readSignature", coq: nm, ret: "list Z", noPanics: true}
				w, f = vsxCallArg("r.Find", i, 0)
				o.vsxEmit(spf, w, f)
			}
			o.callOrder(d, "", "readSignature", "vsix_rs_calls", []string{"relPath", "parseRels", "Find", "readZip", "ParseCertificates"})
			o.vsxContains(d, "", "readSignature", "r, err = parseRels(files, relPath(origin))", "vsix_rs_origin_rels_by_relpath")
			o.vsxContains(d, "", "readSignature", "sigblob, err := readZip(files, sigpath)", "vsix_rs_reads_sigpath")
			o.vsxContains(d, "", "readZip", "zf := files[path]", "vsix_readzip_by_name")
			w, f = vsxCond("if", "zf", 0)
			o.vsxEmit(mk("readZip", "vsix_readzip_missing", "(has_file : bool)", nil, nil), w, f)

			sp3 := vsxSpec{dir: d, fn: "checkManifest", coq: "vsix_ref_path", params: "(uri : list Z)", ret: "list Z",
				leaves: map[string]string{"ref.URI": "uri"}, ltypes: map[string]string{"ref.URI": "str"}}
			o.vsxBlock(sp3, "the part a Reference URI is resolved to", vsxRangeBody(0), "p :=", "zf :=", vsxIdent("p"))
			w, f = vsxCond("if", "zf", 0)
			o.vsxEmit(mk("checkManifest", "vsix_cm_missing", "(has_file : bool)", nil, nil), w, f)
			w, f = vsxCond("if", "hash.Available", 0)
			o.vsxEmit(mk("checkManifest", "vsix_cm_bad_alg", "(available : bool)", map[string]string{"hash.Available()": "available"}, map[string]string{"hash.Available()": "bool"}), w, f)
			w, f = vsxCond("if", "hmac.Equal", 0)
			o.vsxEmit(mk("checkManifest", "vsix_cm_mismatch", "(equal : bool)", map[string]string{"hmac.Equal(refv, refCalc)": "equal"}, map[string]string{"hmac.Equal(refv, refCalc)": "bool"}), w, f)
			o.vsxContains(d, "", "checkManifest", "xmldsig.HashAlgorithm(ref.DigestMethod.Algorithm)", "vsix_cm_alg_per_reference")
			o.vsxContains(d, "", "checkManifest", "base64.StdEncoding.DecodeString(ref.DigestValue)", "vsix_cm_decodes_digest_value")
			o.vsxContains(d, "", "checkManifest", "ref.Transforms", "vsix_cm_looks_at_transforms")
			o.vsxContains(d, "", "checkManifest", "for _, ref := range m.References", "vsix_cm_all_references")
			o.vsxElemFields(d, "oxmlManifest", "vsix_cm_manifest_fields")
			o.vsxElemFields(d, "reference", "vsix_cm_reference_fields")
			o.vsxElemFields(d, "method", "vsix_cm_method_fields")
			sp4 := vsxSpec{dir: d, fn: "checkTimestamp", coq: "vsix_ts_path", ret: "list Z", noPanics: true}
			w, f = vsxCallArg("root.FindElement", 0, 0)
			o.vsxEmit(sp4, w, f)
			w, f = vsxCond("if", "tsEl", 0)
			o.vsxEmit(mk("checkTimestamp", "vsix_ts_absent", "(has_ts : bool)", nil, nil), w, f)
			o.callOrder(d, "", "verify", "vsix_verify_calls", []string{"NewReader", "readSignature", "ReadFromString", "Verify", "checkManifest", "checkTimestamp", "Leaf"})
			o.vsxContains(d, "", "verify", "for _, f := range inz.File { files[f.Name] = f }", "vsix_verify_last_name_wins")
			o.vsxContains(d, "", "checkManifest", `if zf == nil { return fmt.Errorf("validation failed: file not found: %s", p) }`, "vsix_cm_missing_is_error")
			o.vsxContains(d, "", "checkManifest", `if !hash.Available() { return errors.New("validation failed: unsupported digest algorithm") }`, "vsix_cm_bad_alg_is_error")
			o.vsxContains(d, "", "checkManifest", `if err != nil { return errors.New("validation failed: invalid digest") }`, "vsix_cm_bad_digest_is_error")
			o.vsxContains(d, "", "checkManifest", `if !hmac.Equal(refv, refCalc) { return fmt.Errorf(`, "vsix_cm_mismatch_is_error")
			o.vsxContains(d, "", "readSignature", `if files[top] == nil { return nil, nil, sigerrors.NotSignedError{Type: "vsix"} }`, "vsix_rs_no_root_rels_is_not_signed")
			o.vsxContains(d, "", "readSignature", `if origin == "" { return nil, nil, sigerrors.NotSignedError{Type: "vsix"} }`, "vsix_rs_no_origin_is_not_signed")
			o.vsxContains(d, "", "readSignature", `if sigpath == "" { return nil, nil, sigerrors.NotSignedError{Type: "vsix"} }`, "vsix_rs_no_sigpath_is_not_signed")
			o.vsxContains(d, "", "readZip", `if zf == nil { return nil, fmt.Errorf("file missing from zip: %s", path) }`, "vsix_readzip_missing_is_error")
			o.vsxContains(d, "", "verify", `if psig.Certificate == nil { return nil, errors.New("leaf x509 certificate not found") }`, "vsix_verify_no_leaf_is_error")
			o.vsxContains(d, "", "verify", `xmldsig.Verify(root, ".", certs)`, "vsix_verify_root_signature")
			o.vsxContains(d, "", "verify", "checkManifest(files, xs.Reference)", "vsix_verify_checks_referenced_object")
			w, f = vsxCond("if", "psig.Certificate", 0)
			o.vsxEmit(mk("verify", "vsix_verify_no_leaf", "(has_leaf : bool)", nil, nil), w, f)
		}
		for _, fp := range [][3]string{{d, "", "mangleZip"}, {d, "", "keepFile"}, {d, "mangler", "parseTypes"}, {d, "mangler", "newCtypes"}, {d, "oxfRelationships", "Find"},
			{d, "oxfRelationships", "Append"}, {d, "oxfRelationships", "Marshal"}, {d, "", "relPath"}, {d, "mangler", "addFile"}, {d, "mangler", "newRels"}, {d, "mangler", "addCerts"},
			{d, "", "checkManifest"}, {d, "", "checkTimestamp"}, {d, "", "calcFileName"}, {d, "", "readSignature"}, {d, "mangler", "makeSignature"}, {d, "", "sign"}, {d, "", "verify"},
			{a, "ContentTypes", "Parse"}, {a, "ContentTypes", "Find"}, {a, "ContentTypes", "Marshal"}, {a, "", "marshalXML"}} {
			fingerprint(fp[0], fp[1], fp[2])
		}
	}
}
