package main

// FmtMAGIC_gen: file type detection and signer dispatch.
//
//	lib/magic/magic.go      FileType / CompressionType enumerations; the helpers hasPrefix / contains / atPosition / isTar translated
//	                        statement by statement over an abstract bufio.Reader (rd_peek); the tagless switch of Detect as an ORDERED
//	                        decision list (tests with their byte strings and peek sizes, result per clause), the nested PE probe of the
//	                        "MZ" clause (peek sizes, slice bounds, comparison, the `err == nil` requirement), the switch of
//	                        DetectCompressed (gzip / xz sniffing, zip hand-over, default), detectTar, and the member-name rules of
//	                        detectZip (the "/" fix, path.Clean, the exact-name switch in order, the deferred JAR flag, the suffix switch).
//	signers/signers.go      the match conditions of ByName / ByMagic / ByFileName, the step list and conditions of ByFile, the verifier
//	                        preference and the error classification of IsSigned.
//	signers/*/              the registered module table: Name, Aliases, Magic, CertTypes, AllowStdin, which function fields are set,
//	                        which TestPath; the extension table behind the ps module's TestPath and the suffix test of the dmg module.
//	cmdline/verify, cmdline/token, cmdline/remotecmd, server/view_sign.go
//	                        which lookup each caller uses, in which order, and what it does with compressed input / stdin / a missing signer.
//	lib/signjar, lib/signappx, signers/vsix
//	                        the member names the ZIP-family signers add (for magic_stable_under_signing).
//	GOROOT/src/bufio        defaultBufSize (the bound of every Peek), fingerprint of Reader.Peek.
//
// Anything that does not have the expected shape is a broken tie (comment only, the Coq build of the model fails).

import (
	"fmt"
	"go/ast"
	"go/token"
	"os"
	"os/exec"
	"path/filepath"
	"sort"
	"strconv"
	"strings"
)

const fmtmagicDir = "lib/magic"

func fmtmagicNorm(p *pkgInfo, n ast.Node) string {
	return strings.Join(strings.Fields(printNode(p.fset, n)), " ")
}

func fmtmagicGoroot() string {
	cmd := exec.Command("go", "env", "GOROOT")
	cmd.Env = append(os.Environ(), "GOFLAGS=-mod=mod", "GOPROXY=off", "GOSUMDB=off", "GOTOOLCHAIN=local")
	if outb, err := cmd.Output(); err == nil {
		if s := strings.TrimSpace(string(outb)); s != "" {
			return s
		}
	}
	return os.Getenv("GOROOT")
}

func fmtmagicRel(abs string) string {
	r, err := filepath.Rel(repo, abs)
	if err != nil {
		return abs
	}
	return r
}

// fmtmagicBytes: []byte{0x.., ...} or []byte("...") as a byte string.
func fmtmagicBytes(dir string, e ast.Expr) ([]byte, bool) {
	switch x := e.(type) {
	case *ast.CompositeLit:
		at, ok := x.Type.(*ast.ArrayType)
		if !ok || at.Len != nil {
			return nil, false
		}
		if id, ok := at.Elt.(*ast.Ident); !ok || id.Name != "byte" {
			return nil, false
		}
		var out []byte
		for _, el := range x.Elts {
			v, err := evalConst(dir, el, 0)
			if err != nil || v.isFloat || v.i < 0 || v.i > 255 {
				return nil, false
			}
			out = append(out, byte(v.i))
		}
		return out, true
	case *ast.CallExpr:
		at, ok := x.Fun.(*ast.ArrayType)
		if !ok || at.Len != nil || len(x.Args) != 1 {
			return nil, false
		}
		if id, ok := at.Elt.(*ast.Ident); !ok || id.Name != "byte" {
			return nil, false
		}
		bl, ok := x.Args[0].(*ast.BasicLit)
		if !ok || bl.Kind != token.STRING {
			return nil, false
		}
		s, err := strconv.Unquote(bl.Value)
		if err != nil {
			return nil, false
		}
		return []byte(s), true
	}
	return nil, false
}

func fmtmagicStr(e ast.Expr) (string, bool) {
	bl, ok := e.(*ast.BasicLit)
	if !ok || bl.Kind != token.STRING {
		return "", false
	}
	s, err := strconv.Unquote(bl.Value)
	return s, err == nil
}

func fmtmagicQ(s string) string { return strings.ReplaceAll(strconv.Quote(s), "*)", "* )") }

// fmtmagicTest translates one case expression of Detect / DetectCompressed: a call of one of the four helpers on the reader `br`.
func fmtmagicTest(p *pkgInfo, e ast.Expr) (string, error) {
	ce, ok := e.(*ast.CallExpr)
	if !ok {
		return "", fmt.Errorf("case expression %s is not a helper call", fmtmagicNorm(p, e))
	}
	fn := printNode(p.fset, ce.Fun)
	if len(ce.Args) < 1 || printNode(p.fset, ce.Args[0]) != "br" {
		return "", fmt.Errorf("%s is not applied to the reader br", fmtmagicNorm(p, e))
	}
	num := func(a ast.Expr) (int64, error) {
		v, err := evalConst(fmtmagicDir, a, 0)
		if err != nil || v.isFloat {
			return 0, fmt.Errorf("%s: argument %s is not an integer constant", fn, fmtmagicNorm(p, a))
		}
		return v.i, nil
	}
	switch {
	case fn == "hasPrefix" && len(ce.Args) == 2:
		b, ok := fmtmagicBytes(fmtmagicDir, ce.Args[1])
		if !ok {
			return "", fmt.Errorf("hasPrefix: %s is not a byte string literal", fmtmagicNorm(p, ce.Args[1]))
		}
		return "TPrefix " + bytesLit(b), nil
	case (fn == "contains" || fn == "atPosition") && len(ce.Args) == 3:
		b, ok := fmtmagicBytes(fmtmagicDir, ce.Args[1])
		if !ok {
			return "", fmt.Errorf("%s: %s is not a byte string literal", fn, fmtmagicNorm(p, ce.Args[1]))
		}
		n, err := num(ce.Args[2])
		if err != nil {
			return "", err
		}
		if fn == "contains" {
			return fmt.Sprintf("TContains %s %d", bytesLit(b), n), nil
		}
		return fmt.Sprintf("TAt %s %d", bytesLit(b), n), nil
	case fn == "isTar" && len(ce.Args) == 1:
		return "TTar", nil
	}
	return "", fmt.Errorf("unknown test %s", fmtmagicNorm(p, e))
}

func fmtmagicTests(p *pkgInfo, cc *ast.CaseClause) (string, error) {
	var ts []string
	for _, e := range cc.List {
		t, err := fmtmagicTest(p, e)
		if err != nil {
			return "", err
		}
		ts = append(ts, t)
	}
	return "[" + strings.Join(ts, "; ") + "]", nil
}

func fmtmagicSwitch(fd *ast.FuncDecl) *ast.SwitchStmt {
	for _, st := range fd.Body.List {
		if sw, ok := st.(*ast.SwitchStmt); ok && sw.Tag == nil && sw.Init == nil {
			return sw
		}
	}
	return nil
}

func fmtmagicFileType(e ast.Expr) (int64, bool) {
	id, ok := e.(*ast.Ident)
	if !ok || !strings.HasPrefix(id.Name, "FileType") {
		return 0, false
	}
	v, err := evalConst(fmtmagicDir, id, 0)
	if err != nil || v.isFloat {
		return 0, false
	}
	return v.i, true
}

// ---------------------------------------------------------------- helpers over the reader

// fmtmagicHelper translates a helper (hasPrefix / contains / atPosition / isTar) statement by statement.  Statement forms:
// `x := e`, `d, _ := br.Peek(e)`, `if c { return false }`, `return e`.
func fmtmagicHelper(o *out, name, coqName, params string) {
	p, fd := findFunc(fmtmagicDir, "", name)
	if fd == nil {
		o.brokenDef(coqName, "function lib/magic."+name+" not found")
		return
	}
	leaves := map[string]string{"br": "br", "blob": "blob", "n": "n", "d": "d", "l": "l", "len(blob)": "(zlen blob)", "len(d)": "(zlen d)",
		"d[n:]": "(zdrop n d)"}
	calls := map[string]string{"bytes.Equal": "bytes_eqb", "bytes.Contains": "bytes_contains", "atPosition": "magic_atPosition", "[]byte": "bytes_of"}
	t := o.newTr(p, funcSpec{dir: fmtmagicDir, name: name, leaves: leaves, calls: calls, types: map[string]string{"bytes.Equal()": "bool", "bytes.Contains()": "bool", "atPosition()": "bool"}})
	var rec func(list []ast.Stmt) string
	rec = func(list []ast.Stmt) string {
		if len(list) == 0 {
			return t.fail("%s falls off its end", name)
		}
		s, tail := list[0], list[1:]
		switch x := s.(type) {
		case *ast.ReturnStmt:
			if len(x.Results) != 1 {
				return t.fail("return with %d results", len(x.Results))
			}
			return t.expr(x.Results[0])
		case *ast.AssignStmt:
			if len(x.Lhs) == 2 && len(x.Rhs) == 1 && x.Tok == token.DEFINE {
				ce, ok := x.Rhs[0].(*ast.CallExpr)
				if ok && printNode(p.fset, ce.Fun) == "br.Peek" && len(ce.Args) == 1 && printNode(p.fset, x.Lhs[0]) == "d" && printNode(p.fset, x.Lhs[1]) == "_" {
					return "(let d := rd_peek br " + t.expr(ce.Args[0]) + " in " + rec(tail) + ")"
				}
			}
			if len(x.Lhs) == 1 && len(x.Rhs) == 1 && x.Tok == token.DEFINE {
				if id, ok := x.Lhs[0].(*ast.Ident); ok && id.Name == "l" {
					return "(let l := " + t.expr(x.Rhs[0]) + " in " + rec(tail) + ")"
				}
			}
			return t.fail("unsupported assignment %s", fmtmagicNorm(p, s))
		case *ast.IfStmt:
			if x.Init == nil && x.Else == nil && len(x.Body.List) == 1 {
				if r, ok := x.Body.List[0].(*ast.ReturnStmt); ok && len(r.Results) == 1 {
					return "(if " + t.expr(x.Cond) + " then " + t.expr(r.Results[0]) + " else " + rec(tail) + ")"
				}
			}
			return t.fail("unsupported if statement %s", fmtmagicNorm(p, s))
		}
		return t.fail("unsupported statement %s", fmtmagicNorm(p, s))
	}
	body := rec(fd.Body.List)
	if t.err != nil {
		o.brokenDef(coqName, t.err.Error())
		return
	}
	o.f("Definition %s %s : bool :=\n  %s.\n(* from lib/magic.%s *)\n", coqName, params, body, name)
	fingerprint(fmtmagicDir, "", name)
}

// ---------------------------------------------------------------- Detect

func fmtmagicDetect(o *out) {
	p, fd := findFunc(fmtmagicDir, "", "Detect")
	if fd == nil {
		o.brokenDef("magic_detect_cases", "function lib/magic.Detect not found")
		return
	}
	// the reader: bufio.NewReader(r) (default buffer) or bufio.NewReaderSize(r, n)
	if len(fd.Body.List) != 3 {
		o.brokenDef("magic_detect_cases", fmt.Sprintf("Detect: expected reader construction, switch, return; found %d statements", len(fd.Body.List)))
		return
	}
	switch fmtmagicNorm(p, fd.Body.List[0]) {
	case "br := bufio.NewReader(r)":
		o.f("Definition magic_detect_bufsize : Z := go_bufio_defaultBufSize. (* Detect: br := bufio.NewReader(r) *)\n")
	default:
		o.brokenDef("magic_detect_bufsize", "Detect: reader construction is `"+fmtmagicNorm(p, fd.Body.List[0])+"`")
	}
	sw, ok := fd.Body.List[1].(*ast.SwitchStmt)
	if !ok || sw.Tag != nil || sw.Init != nil {
		o.brokenDef("magic_detect_cases", "Detect: second statement is not a tagless switch")
		return
	}
	var rows, notes []string
	var peBody []ast.Stmt
	for _, c := range sw.Body.List {
		cc := c.(*ast.CaseClause)
		if cc.List == nil {
			o.brokenDef("magic_detect_cases", "Detect: switch has a default clause")
			return
		}
		ts, err := fmtmagicTests(p, cc)
		if err != nil {
			o.brokenDef("magic_detect_cases", "Detect: "+err.Error())
			return
		}
		res := ""
		if len(cc.Body) == 1 {
			if r, ok := cc.Body[0].(*ast.ReturnStmt); ok && len(r.Results) == 1 {
				if v, ok := fmtmagicFileType(r.Results[0]); ok {
					res = fmt.Sprintf("RType %d", v)
					notes = append(notes, printNode(p.fset, r.Results[0]))
				} else if fmtmagicNorm(p, r.Results[0]) == "detectTar(br)" {
					res = "RTar"
					notes = append(notes, "detectTar")
				}
			} else if _, ok := cc.Body[0].(*ast.IfStmt); ok && peBody == nil {
				res = "RPE"
				peBody = cc.Body
				notes = append(notes, "PE probe")
			}
		}
		if res == "" {
			o.brokenDef("magic_detect_cases", "Detect: clause body not understood: "+fmtmagicNorm(p, cc))
			return
		}
		rows = append(rows, "  ("+ts+", "+res+")")
	}
	o.f("Definition magic_detect_cases : list (list mtest * mres) := [\n%s].\n(* lib/magic.Detect, clauses in source order: %s *)\n", strings.Join(rows, ";\n"), strings.Join(notes, ", "))
	if r, ok := fd.Body.List[2].(*ast.ReturnStmt); ok && len(r.Results) == 1 {
		if v, ok := fmtmagicFileType(r.Results[0]); ok {
			o.f("Definition magic_detect_default : Z := %d. (* Detect: %s *)\n", v, fmtmagicNorm(p, r))
		} else {
			o.brokenDef("magic_detect_default", "Detect: final return is "+fmtmagicNorm(p, r))
		}
	} else {
		o.brokenDef("magic_detect_default", "Detect: no final return")
	}
	fmtmagicPE(o, p, peBody)
	fingerprint(fmtmagicDir, "", "Detect")
}

// fmtmagicPE: the body of the "MZ" clause:
//
//	if blob, _ := br.Peek(A); len(blob) == A' { reloc := binary.LittleEndian.Uint16(blob[B:C]); if blob, err := br.Peek(E(reloc)); err == nil {
//	    if bytes.Equal(blob[F(reloc):G(reloc)], []byte("PE\0\0")) { return FileTypePECOFF } } }
func fmtmagicPE(o *out, p *pkgInfo, body []ast.Stmt) {
	bad := func(why string) { o.brokenDef("magic_pe_probe", "Detect, MZ clause: "+why) }
	if len(body) != 1 {
		bad("no PE probe found")
		return
	}
	if1, ok := body[0].(*ast.IfStmt)
	if !ok || if1.Init == nil || if1.Else != nil || len(if1.Body.List) != 2 {
		bad("outer statement is not `if blob, _ := br.Peek(..); cond { reloc := ..; if .. }`")
		return
	}
	peekArg := func(s ast.Stmt, second string) ast.Expr {
		as, ok := s.(*ast.AssignStmt)
		if !ok || len(as.Lhs) != 2 || len(as.Rhs) != 1 || as.Tok != token.DEFINE || printNode(p.fset, as.Lhs[0]) != "blob" || printNode(p.fset, as.Lhs[1]) != second {
			return nil
		}
		ce, ok := as.Rhs[0].(*ast.CallExpr)
		if !ok || printNode(p.fset, ce.Fun) != "br.Peek" || len(ce.Args) != 1 {
			return nil
		}
		return ce.Args[0]
	}
	a1 := peekArg(if1.Init, "_")
	if a1 == nil {
		bad("first peek is `" + fmtmagicNorm(p, if1.Init) + "`")
		return
	}
	mk := func(leaves map[string]string) *tr {
		return o.newTr(p, funcSpec{dir: fmtmagicDir, name: "Detect", leaves: leaves, calls: map[string]string{"bytes.Equal": "bytes_eqb", "[]byte": "bytes_of"},
			types: map[string]string{"bytes.Equal()": "bool", "err == nil": "bool"}})
	}
	t := mk(map[string]string{"len(blob)": "blob_len"})
	peek1 := t.expr(a1)
	cond1 := t.expr(if1.Cond)
	// reloc := binary.LittleEndian.Uint16(blob[B:C])
	as, ok := if1.Body.List[0].(*ast.AssignStmt)
	var lo, hi string
	le := ""
	if ok && len(as.Lhs) == 1 && len(as.Rhs) == 1 && printNode(p.fset, as.Lhs[0]) == "reloc" {
		if ce, ok := as.Rhs[0].(*ast.CallExpr); ok && len(ce.Args) == 1 {
			switch printNode(p.fset, ce.Fun) {
			case "binary.LittleEndian.Uint16":
				le = "true"
			case "binary.BigEndian.Uint16":
				le = "false"
			}
			if sl, ok := ce.Args[0].(*ast.SliceExpr); ok && printNode(p.fset, sl.X) == "blob" && sl.Low != nil && sl.High != nil && sl.Max == nil {
				lo, hi = t.expr(sl.Low), t.expr(sl.High)
			}
		}
	}
	if le == "" || lo == "" {
		bad("reloc is `" + fmtmagicNorm(p, if1.Body.List[0]) + "`")
		return
	}
	if2, ok := if1.Body.List[1].(*ast.IfStmt)
	if !ok || if2.Init == nil || if2.Else != nil || len(if2.Body.List) != 1 {
		bad("second statement is not `if blob, err := br.Peek(..); cond { if .. }`")
		return
	}
	a2 := peekArg(if2.Init, "err")
	if a2 == nil {
		bad("second peek is `" + fmtmagicNorm(p, if2.Init) + "`")
		return
	}
	t2 := mk(map[string]string{"reloc": "reloc", "err == nil": "noerr"})
	peek2 := t2.expr(a2)
	cond2 := t2.expr(if2.Cond)
	if3, ok := if2.Body.List[0].(*ast.IfStmt)
	if !ok || if3.Init != nil || if3.Else != nil || len(if3.Body.List) != 1 {
		bad("innermost statement is not `if bytes.Equal(..) { return .. }`")
		return
	}
	ce, ok := if3.Cond.(*ast.CallExpr)
	var slo, shi string
	var sig []byte
	if ok && printNode(p.fset, ce.Fun) == "bytes.Equal" && len(ce.Args) == 2 {
		if sl, ok := ce.Args[0].(*ast.SliceExpr); ok && printNode(p.fset, sl.X) == "blob" && sl.Low != nil && sl.High != nil && sl.Max == nil {
			slo, shi = t2.expr(sl.Low), t2.expr(sl.High)
		}
		sig, _ = fmtmagicBytes(fmtmagicDir, ce.Args[1])
	}
	r, okr := if3.Body.List[0].(*ast.ReturnStmt)
	var ty int64
	okt := false
	if okr && len(r.Results) == 1 {
		ty, okt = fmtmagicFileType(r.Results[0])
	}
	if slo == "" || sig == nil || !okt {
		bad("signature comparison is `" + fmtmagicNorm(p, if3) + "`")
		return
	}
	if t.err != nil || t2.err != nil {
		if t.err == nil {
			t.err = t2.err
		}
		bad(t.err.Error())
		return
	}
	o.f("Definition magic_pe_peek1 : Z := %s.\nDefinition magic_pe_cond1 (blob_len : Z) : bool := %s.\n", peek1, cond1)
	o.f("Definition magic_pe_reloc_lo : Z := %s.\nDefinition magic_pe_reloc_hi : Z := %s.\nDefinition magic_pe_reloc_little_endian : bool := %s.\n", lo, hi, le)
	o.f("Definition magic_pe_peek2 (reloc : Z) : Z := %s.\nDefinition magic_pe_cond2 (noerr : bool) : bool := %s.\n", peek2, cond2)
	o.f("Definition magic_pe_sig_lo (reloc : Z) : Z := %s.\nDefinition magic_pe_sig_hi (reloc : Z) : Z := %s.\nDefinition magic_pe_sig : list Z := %s.\nDefinition magic_pe_type : Z := %d.\n", slo, shi, bytesLit(sig), ty)
	o.f("(* from lib/magic.Detect, clause hasPrefix(br, \"MZ\"): %s *)\n", fmtmagicNorm(p, if1))
}

// ---------------------------------------------------------------- DetectCompressed, detectTar

func fmtmagicDetectCompressed(o *out) {
	p, fd := findFunc(fmtmagicDir, "", "DetectCompressed")
	if fd == nil {
		o.brokenDef("magic_dc_cases", "function lib/magic.DetectCompressed not found")
		return
	}
	bad := func(why string) { o.brokenDef("magic_dc_cases", "DetectCompressed: "+why) }
	if len(fd.Body.List) != 4 || fmtmagicNorm(p, fd.Body.List[0]) != "br := bufio.NewReader(f)" || fmtmagicNorm(p, fd.Body.List[1]) != "ftype := FileTypeUnknown" {
		bad("expected `br := bufio.NewReader(f)`, `ftype := FileTypeUnknown`, switch, return")
		return
	}
	sw, ok := fd.Body.List[2].(*ast.SwitchStmt)
	if !ok || sw.Tag != nil || sw.Init != nil {
		bad("third statement is not a tagless switch")
		return
	}
	comp := func(e ast.Expr) (int64, bool) {
		id, ok := e.(*ast.Ident)
		if !ok || !strings.HasPrefix(id.Name, "Compressed") {
			return 0, false
		}
		v, err := evalConst(fmtmagicDir, id, 0)
		return v.i, err == nil && !v.isFloat
	}
	sniff := func(lib string) string {
		return "zr, err := " + lib + " if err == nil { zbr := bufio.NewReader(zr) if isTar(zbr) { ftype = detectTar(zbr) } }"
	}
	var rows []string
	for _, c := range sw.Body.List {
		cc := c.(*ast.CaseClause)
		if cc.List == nil {
			bad("switch has a default clause")
			return
		}
		ts, err := fmtmagicTests(p, cc)
		if err != nil {
			bad(err.Error())
			return
		}
		if len(cc.Body) == 0 {
			bad("empty clause")
			return
		}
		ret, ok := cc.Body[len(cc.Body)-1].(*ast.ReturnStmt)
		if !ok || len(ret.Results) != 2 {
			bad("clause does not end in a two-value return: " + fmtmagicNorm(p, cc))
			return
		}
		cv, ok := comp(ret.Results[1])
		if !ok {
			bad("second result is not a Compressed* constant: " + fmtmagicNorm(p, ret))
			return
		}
		var pre []string
		for _, s := range cc.Body[:len(cc.Body)-1] {
			pre = append(pre, fmtmagicNorm(p, s))
		}
		body := strings.Join(pre, " ")
		r0 := fmtmagicNorm(p, ret.Results[0])
		switch {
		case body == sniff("gzip.NewReader(br)") && r0 == "ftype":
			rows = append(rows, fmt.Sprintf("  (%s, DSniff 1 %d)", ts, cv))
		case body == sniff("xz.NewReader(br, 0)") && r0 == "ftype":
			rows = append(rows, fmt.Sprintf("  (%s, DSniff 2 %d)", ts, cv))
		case body == "" && r0 == "detectZip(f)":
			rows = append(rows, fmt.Sprintf("  (%s, DZip %d)", ts, cv))
		default:
			bad("clause body not understood: " + fmtmagicNorm(p, cc))
			return
		}
	}
	o.f("Definition magic_dc_cases : list (list mtest * dcres) := [\n%s].\n(* lib/magic.DetectCompressed, clauses in source order; DSniff lib comp: decompress with lib (1 gzip, 2 xz), `if isTar(zbr) { ftype = detectTar(zbr) }`, return (ftype, comp); DZip comp: return (detectZip(f), comp) *)\n", strings.Join(rows, ";\n"))
	ret, ok := fd.Body.List[3].(*ast.ReturnStmt)
	if ok && len(ret.Results) == 2 && fmtmagicNorm(p, ret.Results[0]) == "Detect(br)" {
		if cv, ok := comp(ret.Results[1]); ok {
			o.f("Definition magic_dc_default_comp : Z := %d. (* DetectCompressed: %s *)\n", cv, fmtmagicNorm(p, ret))
		} else {
			o.brokenDef("magic_dc_default_comp", "DetectCompressed: final return is "+fmtmagicNorm(p, ret))
		}
	} else {
		o.brokenDef("magic_dc_default_comp", "DetectCompressed: final statement is not `return Detect(br), Compressed..`")
	}
	o.decisionFunc(funcSpec{dir: fmtmagicDir, name: "detectTar", coqName: "magic_detectTar", params: "", retType: "Z"})
	fingerprint(fmtmagicDir, "", "DetectCompressed")
	fingerprint(fmtmagicDir, "", "Decompress")
}

// ---------------------------------------------------------------- detectZip

func fmtmagicDetectZip(o *out) {
	p, fd := findFunc(fmtmagicDir, "", "detectZip")
	if fd == nil {
		o.brokenDef("magic_zip_exact", "function lib/magic.detectZip not found")
		return
	}
	bad := func(why string) { o.brokenDef("magic_zip_exact", "detectZip: "+why) }
	var loop *ast.RangeStmt
	var before, after []string
	for _, s := range fd.Body.List {
		if rs, ok := s.(*ast.RangeStmt); ok && loop == nil {
			loop = rs
			continue
		}
		if loop == nil {
			before = append(before, fmtmagicNorm(p, s))
		} else {
			after = append(after, fmtmagicNorm(p, s))
		}
	}
	wantBefore := []string{"size, err := f.Seek(0, io.SeekEnd)", "if err != nil { return FileTypeUnknown }", "inz, err := zip.NewReader(f, size)",
		"if err != nil { return FileTypeUnknown }", "var isJar bool"}
	if loop == nil || strings.Join(before, " ;; ") != strings.Join(wantBefore, " ;; ") {
		bad("prologue is `" + strings.Join(before, " ;; ") + "`")
		return
	}
	if fmtmagicNorm(p, loop.X) != "inz.File" || loop.Value == nil || printNode(p.fset, loop.Value) != "zf" {
		bad("loop is not `for _, zf := range inz.File`")
		return
	}
	o.f("Definition magic_zip_open_error_type : Z := 0. (* detectZip: Seek / zip.NewReader error -> FileTypeUnknown *)\n")
	body := loop.Body.List
	if len(body) != 5 || fmtmagicNorm(p, body[0]) != "name := zf.Name" {
		bad(fmt.Sprintf("loop body has %d statements (expected name := zf.Name; \"/\" fix; path.Clean; exact switch; suffix switch)", len(body)))
		return
	}
	// if strings.HasPrefix(name, "/") { name = "." + name }
	okFix := false
	if is, ok := body[1].(*ast.IfStmt); ok && is.Init == nil && is.Else == nil && len(is.Body.List) == 1 {
		if ce, ok := is.Cond.(*ast.CallExpr); ok && printNode(p.fset, ce.Fun) == "strings.HasPrefix" && len(ce.Args) == 2 && printNode(p.fset, ce.Args[0]) == "name" {
			if pre, ok := fmtmagicStr(ce.Args[1]); ok {
				if as, ok := is.Body.List[0].(*ast.AssignStmt); ok && len(as.Lhs) == 1 && len(as.Rhs) == 1 && as.Tok == token.ASSIGN && printNode(p.fset, as.Lhs[0]) == "name" {
					if be, ok := as.Rhs[0].(*ast.BinaryExpr); ok && be.Op == token.ADD && printNode(p.fset, be.Y) == "name" {
						if add, ok := fmtmagicStr(be.X); ok {
							o.f("Definition magic_zip_abs_prefix : list Z := %s. (* detectZip: strings.HasPrefix(name, %s) *)\n", bytesLit([]byte(pre)), fmtmagicQ(pre))
							o.f("Definition magic_zip_abs_fix : list Z := %s. (* detectZip: name = %s + name *)\n", bytesLit([]byte(add)), fmtmagicQ(add))
							okFix = true
						}
					}
				}
			}
		}
	}
	if !okFix {
		bad("second loop statement is `" + fmtmagicNorm(p, body[1]) + "`")
		return
	}
	o.f("Definition magic_zip_cleans : bool := %v. (* detectZip: name = path.Clean(name) *)\n", fmtmagicNorm(p, body[2]) == "name = path.Clean(name)")
	if fmtmagicNorm(p, body[2]) != "name = path.Clean(name)" {
		bad("third loop statement is `" + fmtmagicNorm(p, body[2]) + "`")
		return
	}
	// switch name { case "..": return T ... case "META-INF/MANIFEST.MF": isJar = true }
	sw, ok := body[3].(*ast.SwitchStmt)
	if !ok || sw.Init != nil || sw.Tag == nil || printNode(p.fset, sw.Tag) != "name" {
		bad("fourth loop statement is not `switch name`")
		return
	}
	var rows []string
	for _, c := range sw.Body.List {
		cc := c.(*ast.CaseClause)
		if cc.List == nil || len(cc.Body) != 1 {
			bad("exact-name switch: clause " + fmtmagicNorm(p, cc))
			return
		}
		act := ""
		if r, ok := cc.Body[0].(*ast.ReturnStmt); ok && len(r.Results) == 1 {
			if v, ok := fmtmagicFileType(r.Results[0]); ok {
				act = fmt.Sprintf("%d", v)
			}
		} else if fmtmagicNorm(p, cc.Body[0]) == "isJar = true" {
			act = "(-1)"
		}
		if act == "" {
			bad("exact-name switch: action " + fmtmagicNorm(p, cc.Body[0]))
			return
		}
		for _, e := range cc.List {
			s, ok := fmtmagicStr(e)
			if !ok {
				bad("exact-name switch: case " + fmtmagicNorm(p, e))
				return
			}
			rows = append(rows, fmt.Sprintf("  (%s, %s) (* %s *)", bytesLit([]byte(s)), act, fmtmagicQ(s)))
		}
	}
	o.f("Definition magic_zip_exact : list (list Z * Z) := [\n%s].\n(* lib/magic.detectZip `switch name`, in source order: (cleaned member name, returned FileType); -1 = `isJar = true` (decided after the loop) *)\n", strings.Join(rows, ";\n"))
	// switch { case strings.HasSuffix(name, ".."): return T }
	sw2, ok := body[4].(*ast.SwitchStmt)
	if !ok || sw2.Init != nil || sw2.Tag != nil {
		o.brokenDef("magic_zip_suffix", "detectZip: fifth loop statement is not a tagless switch")
		return
	}
	rows = nil
	for _, c := range sw2.Body.List {
		cc := c.(*ast.CaseClause)
		okc := false
		if cc.List != nil && len(cc.Body) == 1 {
			if r, ok := cc.Body[0].(*ast.ReturnStmt); ok && len(r.Results) == 1 {
				if v, ok := fmtmagicFileType(r.Results[0]); ok {
					okc = true
					for _, e := range cc.List {
						ce, ok := e.(*ast.CallExpr)
						if !ok || printNode(p.fset, ce.Fun) != "strings.HasSuffix" || len(ce.Args) != 2 || printNode(p.fset, ce.Args[0]) != "name" {
							okc = false
							break
						}
						s, ok := fmtmagicStr(ce.Args[1])
						if !ok {
							okc = false
							break
						}
						rows = append(rows, fmt.Sprintf("  (%s, %d) (* %s *)", bytesLit([]byte(s)), v, fmtmagicQ(s)))
					}
				}
			}
		}
		if !okc {
			o.brokenDef("magic_zip_suffix", "detectZip: suffix switch clause "+fmtmagicNorm(p, cc))
			return
		}
	}
	o.f("Definition magic_zip_suffix : list (list Z * Z) := [\n%s].\n(* lib/magic.detectZip tagless switch after the exact names: (suffix of the cleaned member name, returned FileType) *)\n", strings.Join(rows, ";\n"))
	// after the loop: if isJar { return FileTypeJAR } ; return FileTypeUnknown
	okAfter := false
	if len(after) == 2 {
		fl := fd.Body.List
		if is, ok := fl[len(fl)-2].(*ast.IfStmt); ok && is.Init == nil && is.Else == nil && printNode(p.fset, is.Cond) == "isJar" && len(is.Body.List) == 1 {
			if r, ok := is.Body.List[0].(*ast.ReturnStmt); ok && len(r.Results) == 1 {
				if v, ok := fmtmagicFileType(r.Results[0]); ok {
					if r2, ok := fl[len(fl)-1].(*ast.ReturnStmt); ok && len(r2.Results) == 1 {
						if v2, ok := fmtmagicFileType(r2.Results[0]); ok {
							o.f("Definition magic_zip_deferred_type : Z := %d. (* detectZip: %s *)\nDefinition magic_zip_default : Z := %d. (* detectZip: %s *)\n", v, after[0], v2, after[1])
							okAfter = true
						}
					}
				}
			}
		}
	}
	if !okAfter {
		o.brokenDef("magic_zip_deferred_type", "detectZip: epilogue is `"+strings.Join(after, " ;; ")+"`")
	}
	fingerprint(fmtmagicDir, "", "detectZip")
}

// ---------------------------------------------------------------- signers/signers.go

func fmtmagicSigners(o *out) {
	const d = "signers"
	o.f("\n(* ---- signers/signers.go *)\n")
	o.constInt(d, "CertTypeX509", "signers_CertTypeX509")
	o.constInt(d, "CertTypePgp", "signers_CertTypePgp")
	sb := map[string]string{"m": "m", "s.Magic": "s_magic", "magic.FileTypeUnknown": "magic_FileTypeUnknown"}
	o.condOf(funcSpec{dir: d, name: "ByMagic", coqName: "signers_bymagic_refuses", params: "(m : Z)", retType: "bool", leaves: sb}, "if:FileTypeUnknown")
	o.condOf(funcSpec{dir: d, name: "ByMagic", coqName: "signers_bymagic_match", params: "(s_magic m : Z)", retType: "bool", leaves: sb}, "if:s.Magic")
	sn := map[string]string{"s.Name": "s_name", "name": "name", "n2": "n2"}
	ty := map[string]string{"s.Name": "str", "name": "str", "n2": "str", "sigtype": "str"}
	o.condOf(funcSpec{dir: d, name: "ByName", coqName: "signers_byname_match_name", params: "(s_name name : list Z)", retType: "bool", leaves: sn, types: ty}, "if:s.Name")
	o.condOf(funcSpec{dir: d, name: "ByName", coqName: "signers_byname_match_alias", params: "(n2 name : list Z)", retType: "bool", leaves: sn, types: ty}, "if:n2")
	o.condOf(funcSpec{dir: d, name: "ByFileName", coqName: "signers_byfilename_match", params: "(has_testpath testpath_result : bool)", retType: "bool",
		leaves: map[string]string{"s.TestPath != nil": "has_testpath", "s.TestPath(name)": "testpath_result"}, types: map[string]string{"s.TestPath != nil": "bool", "s.TestPath(name)": "bool"}}, "if:TestPath")
	// the loops: first match in registration order, nil when nothing matches
	for _, fn := range []struct{ name, want string }{
		{"ByName", "for _, s := range registered { if s.Name == name { return s } for _, n2 := range s.Aliases { if n2 == name { return s } } } ;; return nil"},
		{"ByMagic", "if m == magic.FileTypeUnknown { return nil } ;; for _, s := range registered { if s.Magic == m { return s } } ;; return nil"},
		{"ByFileName", "for _, s := range registered { if s.TestPath != nil && s.TestPath(name) { return s } } ;; return nil"},
	} {
		p, fd := findFunc(d, "", fn.name)
		coq := "signers_" + strings.ToLower(fn.name) + "_first_match"
		if fd == nil {
			o.brokenDef(coq, "function signers."+fn.name+" not found")
			continue
		}
		// shape with the conditions blanked out (the conditions themselves are translated above)
		shape := fmtmagicShape(p, fd)
		wantShape := fmtmagicBlank(fn.want)
		if shape != wantShape {
			o.brokenDef(coq, fn.name+": statement shape is `"+shape+"`")
			continue
		}
		o.f("Definition %s : bool := true. (* signers.%s: first match over `registered` in registration order, nil otherwise; shape %s *)\n", coq, fn.name, shape)
		fingerprint(d, "", fn.name)
	}
	// ByFile
	p, fd := findFunc(d, "", "ByFile")
	if fd == nil {
		o.brokenDef("signers_byfile_steps", "function signers.ByFile not found")
	} else {
		want := []struct {
			code int
			text string
		}{
			{1, `if sigtype != "" { mod := ByName(sigtype) if mod == nil { return nil, errors.New("no signer with that name") } return mod, nil }`},
			{2, `if name == "-" { return nil, errors.New("reading from standard input is not supported") }`},
			{3, `f, err := os.Open(name)`},
			{3, `if err != nil { return nil, err }`},
			{4, `defer f.Close()`},
			{5, `fileType, compressionType := magic.DetectCompressed(f)`},
			{6, `if compressionType != magic.CompressedNone { return nil, errors.New("cannot sign compressed file") }`},
			{7, `if mod := ByMagic(fileType); mod != nil { return mod, nil } else if mod := ByFileName(name); mod != nil { return mod, nil }`},
			{8, `return nil, errors.New("unknown filetype")`},
		}
		var steps []string
		okAll := len(fd.Body.List) == len(want)
		for i, s := range fd.Body.List {
			if !okAll {
				break
			}
			// conditions are translated separately: compare with operators of the conditions blanked
			if fmtmagicBlank(fmtmagicNorm(p, s)) != fmtmagicBlank(want[i].text) {
				o.brokenDef("signers_byfile_steps", "ByFile: statement "+strconv.Itoa(i)+" is `"+fmtmagicNorm(p, s)+"`")
				okAll = false
				break
			}
			steps = append(steps, strconv.Itoa(want[i].code))
		}
		if okAll {
			o.f("Definition signers_byfile_steps : list Z := [%s]. (* signers.ByFile: 1 explicit type -> ByName (nil = error), 2 refuse \"-\", 3 open, 4 defer close, 5 DetectCompressed, 6 refuse compressed, 7 ByMagic else ByFileName, 8 unknown filetype *)\n", strings.Join(steps, "; "))
		} else if len(fd.Body.List) != len(want) {
			o.brokenDef("signers_byfile_steps", fmt.Sprintf("ByFile: %d statements, expected %d", len(fd.Body.List), len(want)))
		}
		bl := map[string]string{"sigtype": "sigtype", "name": "name", "compressionType": "c", "magic.CompressedNone": "magic_CompressedNone", "mod != nil": "found", "mod == nil": "(negb found)"}
		bt := map[string]string{"sigtype": "str", "name": "str", "mod != nil": "bool", "mod == nil": "bool"}
		o.condOf(funcSpec{dir: d, name: "ByFile", coqName: "signers_byfile_explicit", params: "(sigtype : list Z)", retType: "bool", leaves: bl, types: bt}, "if:sigtype")
		o.condOf(funcSpec{dir: d, name: "ByFile", coqName: "signers_byfile_explicit_missing", params: "(found : bool)", retType: "bool", leaves: bl, types: bt}, "if:mod == nil")
		o.condOf(funcSpec{dir: d, name: "ByFile", coqName: "signers_byfile_stdin", params: "(name : list Z)", retType: "bool", leaves: bl, types: bt}, "if:name ==")
		o.condOf(funcSpec{dir: d, name: "ByFile", coqName: "signers_byfile_refuses_compression", params: "(c : Z)", retType: "bool", leaves: bl, types: bt}, "if:compressionType")
		o.condOf(funcSpec{dir: d, name: "ByFile", coqName: "signers_byfile_magic_found", params: "(found : bool)", retType: "bool", leaves: bl, types: bt}, "if:mod != nil", 0)
		o.condOf(funcSpec{dir: d, name: "ByFile", coqName: "signers_byfile_name_found", params: "(found : bool)", retType: "bool", leaves: bl, types: bt}, "if:mod != nil", 1)
		fingerprint(d, "", "ByFile")
	}
	// IsSigned
	p, fd = findFunc(d, "Signer", "IsSigned")
	if fd == nil {
		o.brokenDef("signers_issigned_steps", "method signers.(*Signer).IsSigned not found")
		return
	}
	want := []string{
		"var err error",
		`if s.VerifyStream != nil { _, err = s.VerifyStream(f, VerifyOpts{NoDigests: true, NoChain: true}) } else if s.Verify != nil { _, err = s.Verify(f, VerifyOpts{NoDigests: true, NoChain: true}) } else { return false, errors.New("cannot check if this type of file is signed") }`,
		"if err == nil { return true, nil }",
		"switch err.(type) { case sigerrors.NotSignedError: return false, nil case pgptools.ErrNoKey: return true, nil }",
		"return false, err",
	}
	var got []string
	for _, s := range fd.Body.List {
		got = append(got, fmtmagicNorm(p, s))
	}
	if strings.Join(got, " ;; ") != strings.Join(want, " ;; ") {
		o.brokenDef("signers_issigned_steps", "IsSigned: body is `"+strings.Join(got, " ;; ")+"`")
		return
	}
	o.f("Definition signers_issigned_prefers_stream : bool := true. (* IsSigned: VerifyStream if set, else Verify, else an error; both with NoDigests and NoChain *)\n")
	o.f("Definition signers_issigned_table : list (Z * (bool * bool)) := [(0, (true, false)); (1, (false, false)); (2, (true, false))].\n(* IsSigned: verifier outcome class (0 = nil error, 1 = sigerrors.NotSignedError, 2 = pgptools.ErrNoKey) -> (signed, error returned) *)\n")
	o.f("Definition signers_issigned_default : bool * bool := (false, true). (* IsSigned: any other error -> (false, err) *)\n")
	fingerprint(d, "Signer", "IsSigned")
}

// fmtmagicBlank replaces comparison operators by a placeholder so that statement shapes can be compared while the conditions
// themselves are translated (a changed operator then changes a generated definition instead of breaking the shape).
func fmtmagicBlank(s string) string {
	for _, op := range []string{"==", "!=", "<=", ">=", "&&", "||"} {
		s = strings.ReplaceAll(s, " "+op+" ", " ? ")
	}
	return s
}

func fmtmagicShape(p *pkgInfo, fd *ast.FuncDecl) string {
	var parts []string
	for _, s := range fd.Body.List {
		parts = append(parts, fmtmagicNorm(p, s))
	}
	return fmtmagicBlank(strings.Join(parts, " ;; "))
}

// ---------------------------------------------------------------- module table

type fmtmagicMod struct {
	pkg, file, varName string
	pos                token.Pos
	name               string
	aliases            []string
	magic, cert        int64
	stdin              bool
	testPath           string
	fields             map[string]bool
	registered         bool
}

func fmtmagicEvalSel(e ast.Expr) (int64, bool) {
	switch x := e.(type) {
	case *ast.SelectorExpr:
		pk, ok := x.X.(*ast.Ident)
		if !ok {
			return 0, false
		}
		dir := map[string]string{"magic": fmtmagicDir, "signers": "signers"}[pk.Name]
		if dir == "" {
			return 0, false
		}
		v, err := evalConst(dir, x.Sel, 0)
		return v.i, err == nil && !v.isFloat
	case *ast.BinaryExpr:
		a, ok1 := fmtmagicEvalSel(x.X)
		b, ok2 := fmtmagicEvalSel(x.Y)
		if !ok1 || !ok2 {
			return 0, false
		}
		switch x.Op {
		case token.OR:
			return a | b, true
		case token.ADD:
			return a + b, true
		}
	case *ast.ParenExpr:
		return fmtmagicEvalSel(x.X)
	}
	return 0, false
}

func fmtmagicModules(o *out) []fmtmagicMod {
	o.f("\n(* ---- the registered signer modules (signers/*/: composite literals of signers.Signer passed to signers.Register) *)\n")
	ents, err := os.ReadDir(filepath.Join(repo, "signers"))
	if err != nil {
		o.brokenDef("signers_table", "cannot list signers/: "+err.Error())
		return nil
	}
	var mods []fmtmagicMod
	okAll := true
	for _, e := range ents {
		if !e.IsDir() {
			continue
		}
		dir := "signers/" + e.Name()
		p := loadPkg(dir)
		var files []string
		for fn := range p.files {
			files = append(files, fn)
		}
		sort.Strings(files)
		var local []fmtmagicMod
		regd := map[string]bool{}
		for _, fn := range files {
			f := p.files[fn]
			ast.Inspect(f, func(n ast.Node) bool {
				switch x := n.(type) {
				case *ast.ValueSpec:
					for i, v := range x.Values {
						cl := fmtmagicSignerLit(p, v)
						if cl == nil || i >= len(x.Names) {
							continue
						}
						m := fmtmagicMod{pkg: dir, file: fn, varName: x.Names[i].Name, pos: cl.Pos(), fields: map[string]bool{}}
						for _, el := range cl.Elts {
							kv, ok := el.(*ast.KeyValueExpr)
							if !ok {
								okAll = false
								o.brokenDef("signers_table", dir+": positional field in signers.Signer literal")
								continue
							}
							key := printNode(p.fset, kv.Key)
							switch key {
							case "Name":
								s, ok := fmtmagicStr(kv.Value)
								if !ok {
									okAll = false
									o.brokenDef("signers_table", dir+": Name is not a string literal")
								}
								m.name = s
							case "Aliases":
								al, ok := kv.Value.(*ast.CompositeLit)
								if !ok {
									okAll = false
									o.brokenDef("signers_table", dir+": Aliases is not a literal")
									break
								}
								for _, ae := range al.Elts {
									s, ok := fmtmagicStr(ae)
									if !ok {
										okAll = false
										o.brokenDef("signers_table", dir+": alias is not a string literal")
									}
									m.aliases = append(m.aliases, s)
								}
							case "Magic":
								v, ok := fmtmagicEvalSel(kv.Value)
								if !ok {
									okAll = false
									o.brokenDef("signers_table", dir+": Magic "+fmtmagicNorm(p, kv.Value)+" is not a magic.FileType constant")
								}
								m.magic = v
							case "CertTypes":
								v, ok := fmtmagicEvalSel(kv.Value)
								if !ok {
									okAll = false
									o.brokenDef("signers_table", dir+": CertTypes "+fmtmagicNorm(p, kv.Value)+" not understood")
								}
								m.cert = v
							case "AllowStdin":
								m.stdin = printNode(p.fset, kv.Value) == "true"
								if v := printNode(p.fset, kv.Value); v != "true" && v != "false" {
									okAll = false
									o.brokenDef("signers_table", dir+": AllowStdin "+v)
								}
							case "TestPath":
								m.testPath = printNode(p.fset, kv.Value)
								m.fields[key] = true
							default:
								m.fields[key] = printNode(p.fset, kv.Value) != "nil"
							}
						}
						local = append(local, m)
					}
				case *ast.CallExpr:
					if printNode(p.fset, x.Fun) == "signers.Register" && len(x.Args) == 1 {
						regd[printNode(p.fset, x.Args[0])] = true
					}
				}
				return true
			})
		}
		for _, m := range local {
			m.registered = regd[m.varName]
			mods = append(mods, m)
		}
		for v := range regd {
			found := false
			for _, m := range local {
				if m.varName == v {
					found = true
				}
			}
			if !found {
				okAll = false
				o.brokenDef("signers_table", dir+": signers.Register("+v+") of something that is not a package-level signers.Signer literal")
			}
		}
	}
	if !okAll {
		return nil
	}
	sort.SliceStable(mods, func(i, j int) bool {
		if mods[i].pkg != mods[j].pkg {
			return mods[i].pkg < mods[j].pkg
		}
		if mods[i].file != mods[j].file {
			return mods[i].file < mods[j].file
		}
		return mods[i].pos < mods[j].pos
	})
	tp := map[string]int{"": 0}
	var rows []string
	for _, m := range mods {
		if !m.registered {
			continue
		}
		var al []string
		for _, a := range m.aliases {
			al = append(al, bytesLit([]byte(a)))
		}
		k := 0
		if m.testPath != "" {
			key := m.pkg + "." + m.testPath
			if _, ok := tp[key]; !ok {
				tp[key] = len(tp)
			}
			k = tp[key]
		}
		b := func(f string) string { return fmt.Sprintf("%v", m.fields[f]) }
		rows = append(rows, fmt.Sprintf("  mkMod %s [%s] %d %d %v %d %s %s %s %s %s (* %s: %s%s *)", bytesLit([]byte(m.name)), strings.Join(al, "; "), m.magic, m.cert, m.stdin, k,
			b("Verify"), b("VerifyStream"), b("Sign"), b("Transform"), b("Fixup"), m.pkg, fmtmagicQ(m.name), map[bool]string{true: " TestPath=" + m.testPath, false: ""}[m.testPath != ""]))
	}
	o.f("Definition signers_table : list smod := [\n%s].\n(* mkMod name aliases magic certtypes allow_stdin testpath_id has_Verify has_VerifyStream has_Sign has_Transform has_Fixup; order: package path, file name, position (the order of the init functions) *)\n", strings.Join(rows, ";\n"))
	var tps []string
	for k, v := range tp {
		if k != "" {
			tps = append(tps, fmt.Sprintf("%d = %s", v, k))
		}
	}
	sort.Strings(tps)
	o.f("(* testpath ids: %s *)\n", strings.Join(tps, ", "))
	// the two TestPath functions
	psID, dmgID := tp["signers/ps.testPath"], tp["signers/dmg.testPath"]
	o.f("Definition signers_testpath_ps : Z := %d.\nDefinition signers_testpath_dmg : Z := %d.\n", psID, dmgID)
	if len(tp) != 3 || psID == 0 || dmgID == 0 {
		o.brokenDef("signers_testpath_known", fmt.Sprintf("TestPath functions are %v; modelled: signers/ps.testPath, signers/dmg.testPath", tps))
	} else {
		o.f("Definition signers_testpath_known : bool := true.\n")
	}
	return mods
}

func fmtmagicSignerLit(p *pkgInfo, e ast.Expr) *ast.CompositeLit {
	if u, ok := e.(*ast.UnaryExpr); ok && u.Op == token.AND {
		e = u.X
	}
	cl, ok := e.(*ast.CompositeLit)
	if !ok || cl.Type == nil || printNode(p.fset, cl.Type) != "signers.Signer" {
		return nil
	}
	return cl
}

func fmtmagicTestPaths(o *out) {
	// ps: testPath = `_, ok := authenticode.GetSigStyle(fp); return ok`; GetSigStyle = psExtMap[filepath.Ext(filename)]
	p, fd := findFunc("signers/ps", "", "testPath")
	if fd == nil || fmtmagicShape(p, fd) != "_, ok := authenticode.GetSigStyle(fp) ;; return ok" {
		o.brokenDef("ps_ext_table", "signers/ps.testPath is not `_, ok := authenticode.GetSigStyle(fp); return ok`")
	} else if p2, fd2 := findFunc("lib/authenticode", "", "GetSigStyle"); fd2 == nil || fmtmagicShape(p2, fd2) != "style, ok := psExtMap[filepath.Ext(filename)] ;; return style, ok" {
		o.brokenDef("ps_ext_table", "lib/authenticode.GetSigStyle is not a lookup of filepath.Ext(filename) in psExtMap")
	} else {
		ce, _, _, _ := findConstExpr("lib/authenticode", "psExtMap")
		cl, ok := ce.(*ast.CompositeLit)
		if !ok {
			o.brokenDef("ps_ext_table", "lib/authenticode.psExtMap is not a map literal")
		} else {
			var rows []string
			okAll := true
			for _, el := range cl.Elts {
				kv, ok := el.(*ast.KeyValueExpr)
				if !ok {
					okAll = false
					break
				}
				k, ok := fmtmagicStr(kv.Key)
				v, err := evalConst("lib/authenticode", kv.Value, 0)
				if !ok || err != nil {
					okAll = false
					break
				}
				rows = append(rows, fmt.Sprintf("  (%s, %d) (* %s *)", bytesLit([]byte(k)), v.i, fmtmagicQ(k)))
			}
			if !okAll {
				o.brokenDef("ps_ext_table", "lib/authenticode.psExtMap: entry not understood")
			} else {
				o.f("Definition ps_ext_table : list (list Z * Z) := [\n%s].\n(* lib/authenticode.psExtMap: exact, case-sensitive match on filepath.Ext(filename); value = signature style *)\n", strings.Join(rows, ";\n"))
			}
		}
	}
	o.decisionFunc(funcSpec{dir: "signers/dmg", name: "testPath", coqName: "dmg_testPath", params: "(s : list Z)", retType: "bool",
		leaves: map[string]string{"s": "s"}, calls: map[string]string{"strings.HasSuffix": "has_suffix"}})
	fingerprint("signers/ps", "", "testPath")
	fingerprint("lib/authenticode", "", "GetSigStyle")
}

// ---------------------------------------------------------------- callers

func fmtmagicCallers(o *out) {
	o.f("\n(* ---- callers *)\n")
	const v = "cmdline/verify"
	o.callOrder(v, "", "verifyOne", "verify_calls", []string{"DetectCompressed", "Seek", "ByMagic", "ByFileName", "Decompress", "VerifyStream", "Verify", "ByName", "Detect"})
	vl := map[string]string{"mod == nil": "(negb found)", "mod.VerifyStream != nil": "has_stream", "opts.Compression": "c", "magic.CompressedNone": "magic_CompressedNone"}
	vt := map[string]string{"mod == nil": "bool", "mod.VerifyStream != nil": "bool"}
	o.condOf(funcSpec{dir: v, name: "verifyOne", coqName: "verify_falls_back_to_name", params: "(found : bool)", retType: "bool", leaves: vl, types: vt}, "if:mod == nil", 0)
	o.condOf(funcSpec{dir: v, name: "verifyOne", coqName: "verify_unknown", params: "(found : bool)", retType: "bool", leaves: vl, types: vt}, "if:mod == nil", 1)
	o.condOf(funcSpec{dir: v, name: "verifyOne", coqName: "verify_uses_stream", params: "(has_stream : bool)", retType: "bool", leaves: vl, types: vt}, "if:mod.VerifyStream")
	o.condOf(funcSpec{dir: v, name: "verifyOne", coqName: "verify_refuses_compression", params: "(c : Z)", retType: "bool", leaves: vl, types: vt}, "if:opts.Compression")
	o.hasStmt(v, "", "verifyOne", "fileType, compression := magic.DetectCompressed(f)", "verify_detects_compressed")
	o.hasStmt(v, "", "verifyOne", "mod := signers.ByMagic(fileType)", "verify_by_magic_first")
	o.hasStmt(v, "", "verifyOne", "mod = signers.ByFileName(path)", "verify_then_by_filename")
	o.hasStmt(v, "", "verifyOne", "if _, err := f.Seek(0, 0); err != nil { return err }", "verify_rewinds")
	o.hasStmt(v, "", "verifyOne", "r, err2 := magic.Decompress(f, opts.Compression)", "verify_decompresses_for_stream")
	fingerprint(v, "", "verifyOne")
	for _, c := range []struct{ dir, pre string }{{"cmdline/token", "token"}, {"cmdline/remotecmd", "remote"}} {
		o.hasStmt(c.dir, "", "signCmd", "mod, err := signers.ByFile(argFile, argSigType)", c.pre+"_sign_uses_byfile")
		o.condOf(funcSpec{dir: c.dir, name: "signCmd", coqName: c.pre + "_sign_refuses_verify_only", params: "(has_sign : bool)", retType: "bool",
			leaves: map[string]string{"mod.Sign == nil": "(negb has_sign)"}, types: map[string]string{"mod.Sign == nil": "bool"}}, "if:mod.Sign")
		o.condOf(funcSpec{dir: c.dir, name: "signCmd", coqName: c.pre + "_sign_refuses_stdin", params: "(allow_stdin : bool)", retType: "bool",
			leaves: map[string]string{"mod.AllowStdin": "allow_stdin"}, types: map[string]string{"mod.AllowStdin": "bool"}}, "if:mod.AllowStdin")
		o.hasStmt(c.dir, "", "signCmd", "if signed, err := mod.IsSigned(infile); err != nil { return shared.Fail(err) } else if signed { fmt.Fprintf(os.Stderr, \"skipping already-signed file: %s\\n\", argFile) return nil }", c.pre+"_sign_probe_same_module")
		fingerprint(c.dir, "", "signCmd")
	}
	o.hasStmt("cmdline/remotecmd", "", "signCmd", "values.Add(\"sigtype\", mod.Name)", "remote_sign_sends_module_name")
	o.hasStmt("server", "Server", "serveSign", "sigType := query.Get(\"sigtype\")", "server_sign_reads_sigtype")
	o.hasStmt("server", "Server", "serveSign", "mod := signers.ByName(sigType)", "server_sign_by_name")
	// the server never looks at the content to choose the module
	p, fd := findFunc("server", "Server", "serveSign")
	if fd == nil {
		o.brokenDef("server_sign_sniffs", "server.(*Server).serveSign not found")
	} else {
		sniffs := false
		ast.Inspect(fd.Body, func(n ast.Node) bool {
			if ce, ok := n.(*ast.CallExpr); ok {
				fn := printNode(p.fset, ce.Fun)
				if strings.HasPrefix(fn, "magic.") || strings.HasSuffix(fn, ".ByMagic") || strings.HasSuffix(fn, ".ByFile") || strings.HasSuffix(fn, ".ByFileName") {
					sniffs = true
				}
			}
			return true
		})
		o.f("Definition server_sign_sniffs : bool := %v. (* server.serveSign calls magic.* / ByMagic / ByFile / ByFileName *)\n", sniffs)
		o.condOf(funcSpec{dir: "server", recv: "Server", name: "serveSign", coqName: "server_sign_unknown_type", params: "(found has_sign : bool)", retType: "bool",
			leaves: map[string]string{"mod == nil": "(negb found)", "mod.Sign == nil": "(negb has_sign)"}, types: map[string]string{"mod == nil": "bool", "mod.Sign == nil": "bool"}}, "if:mod == nil")
		fingerprint("server", "Server", "serveSign")
	}
}

// ---------------------------------------------------------------- names added by the ZIP-family signers

func fmtmagicAddedNames(o *out) {
	o.f("\n(* ---- member names written by the ZIP-family signers *)\n")
	o.constStringExpr("lib/signjar", "metaInf", "jar_metaInf")
	o.constStringExpr("lib/signjar", "manifestName", "jar_manifestName")
	// sigNames: the suffixes appended to the upper-cased alias, and the "SIG-" prefix of the fallback
	p, fd := findFunc("lib/signjar", "", "sigNames")
	if fd == nil {
		o.brokenDef("jar_sig_suffixes", "lib/signjar.sigNames not found")
	} else {
		var lits, names []string
		ast.Inspect(fd.Body, func(n ast.Node) bool {
			if bl, ok := n.(*ast.BasicLit); ok && bl.Kind == token.STRING {
				s, _ := strconv.Unquote(bl.Value)
				lits = append(lits, bytesLit([]byte(s)))
				names = append(names, s)
			}
			return true
		})
		o.f("Definition jar_sig_literals : list (list Z) := [%s]. (* every string literal of lib/signjar.sigNames: %s *)\n", strings.Join(lits, "; "), strings.Join(names, " "))
		o.hasStmt("lib/signjar", "", "sigNames", "signame = strings.ToUpper(alias) + \".SF\"", "jar_signame_is_upper_alias_sf")
		_ = p
	}
	for _, c := range []string{"appxSignature", "appxCodeIntegrity", "appxBlockMap", "appxManifest", "appxContentTypes", "bundleManifestFile"} {
		o.constStringExpr("lib/signappx", c, "appx_"+c)
	}
	for _, c := range []string{"contentTypesPath", "rootRelsPath", "digSigPath", "originPath", "xmlSigPath"} {
		o.constStringExpr("signers/vsix", c, "vsix_"+c)
	}
}

// constStringExpr: a string constant that may be a concatenation of literals and other string constants of the package.
func (o *out) constStringExpr(dir, goName, coqName string) {
	var ev func(e ast.Expr, depth int) (string, bool)
	ev = func(e ast.Expr, depth int) (string, bool) {
		if depth > 8 {
			return "", false
		}
		switch x := e.(type) {
		case *ast.BasicLit:
			return fmtmagicStr(x)
		case *ast.ParenExpr:
			return ev(x.X, depth+1)
		case *ast.Ident:
			ce, _, _, _ := findConstExpr(dir, x.Name)
			if ce == nil {
				return "", false
			}
			return ev(ce, depth+1)
		case *ast.BinaryExpr:
			if x.Op != token.ADD {
				return "", false
			}
			a, ok1 := ev(x.X, depth+1)
			b, ok2 := ev(x.Y, depth+1)
			return a + b, ok1 && ok2
		}
		return "", false
	}
	ce, _, _, _ := findConstExpr(dir, goName)
	if ce == nil {
		o.brokenDef(coqName, "string constant "+dir+"."+goName+" not found")
		return
	}
	s, ok := ev(ce, 0)
	if !ok {
		o.brokenDef(coqName, "string constant "+dir+"."+goName+" is not a concatenation of literals")
		return
	}
	o.f("Definition %s : list Z := %s. (* %s.%s = %s *)\n", coqName, bytesLit([]byte(s)), dir, goName, fmtmagicQ(s))
}

func init() {
	generators["FmtMAGIC_gen"] = func(o *out) {
		o.f("From Relic Require Import FmtMAGIC.Lib.\n\n")
		bufioDir := fmtmagicRel(filepath.Join(fmtmagicGoroot(), "src", "bufio"))
		o.f("(* ---- Go standard library: the bound of every bufio.Reader.Peek *)\n")
		o.constInt(bufioDir, "defaultBufSize", "go_bufio_defaultBufSize")
		fp := fingerprint(bufioDir, "Reader", "Peek")
		delete(fingers, bufioDir+":Reader.Peek")
		fingers["GOROOT/src/bufio:Reader.Peek"] = fp
		o.f("\n(* ---- lib/magic: enumerations *)\n")
		for _, c := range []string{"FileTypeUnknown", "FileTypeRPM", "FileTypeDEB", "FileTypePGP", "FileTypeJAR", "FileTypePKCS7", "FileTypePECOFF", "FileTypeMSI", "FileTypeCAB",
			"FileTypeAppManifest", "FileTypeCAT", "FileTypeAPPX", "FileTypeVSIX", "FileTypeXAP", "FileTypeAPK", "FileTypeMachO", "FileTypeMachOFat", "FileTypeIPA", "FileTypeXAR"} {
			o.constInt(fmtmagicDir, c, "magic_"+c)
		}
		// the enumeration must not have grown: every FileType constant of the package is listed above
		n := 0
		pk := loadPkg(fmtmagicDir)
		for _, f := range pk.files {
			for _, d := range f.Decls {
				if gd, ok := d.(*ast.GenDecl); ok && gd.Tok == token.CONST {
					for _, s := range gd.Specs {
						for _, nm := range s.(*ast.ValueSpec).Names {
							if strings.HasPrefix(nm.Name, "FileType") {
								n++
							}
						}
					}
				}
			}
		}
		o.f("Definition magic_FileType_count : Z := %d. (* number of FileType* constants in lib/magic *)\n", n)
		for _, c := range []string{"CompressedNone", "CompressedGzip", "CompressedXz"} {
			o.constInt(fmtmagicDir, c, "magic_"+c)
		}
		o.f("\n(* ---- lib/magic: helpers over the reader *)\n")
		fmtmagicHelper(o, "atPosition", "magic_atPosition", "(br : reader) (blob : list Z) (n : Z)")
		fmtmagicHelper(o, "hasPrefix", "magic_hasPrefix", "(br : reader) (blob : list Z)")
		fmtmagicHelper(o, "contains", "magic_contains", "(br : reader) (blob : list Z) (n : Z)")
		fmtmagicHelper(o, "isTar", "magic_isTar", "(br : reader)")
		o.f("\n(* ---- lib/magic.Detect *)\n")
		fmtmagicDetect(o)
		o.f("\n(* ---- lib/magic.DetectCompressed *)\n")
		fmtmagicDetectCompressed(o)
		o.f("\n(* ---- lib/magic.detectZip *)\n")
		fmtmagicDetectZip(o)
		fmtmagicSigners(o)
		fmtmagicModules(o)
		fmtmagicTestPaths(o)
		fmtmagicCallers(o)
		fmtmagicAddedNames(o)
	}
}
