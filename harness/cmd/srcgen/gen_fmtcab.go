package main

// FmtCAB_gen: constants, struct layouts, branch conditions and field tables of the CAB signer
// (lib/cabfile Digest / MakePatch, lib/authenticode VerifyCab) and of the XAP trailer signer
// (lib/signxap DigestXapTar / removeSignature / Sign / Verify, lib/zipslicer FindDirectory).

import (
	"fmt"
	"go/ast"
	"go/token"
	"strings"
)

// fcBitLeaves pre-translates every bitwise binary expression (& | &^) of the function and registers the result as a
// leaf, innermost first, so that condOf/exprOfAssign (which do not know these operators) translate the enclosing
// expression.  A changed operator or constant therefore changes the generated Coq term.
func (o *out) fcBitLeaves(fs *funcSpec) {
	p, fd := findFunc(fs.dir, fs.recv, fs.name)
	if fd == nil {
		return
	}
	if fs.leaves == nil {
		fs.leaves = map[string]string{}
	}
	var nodes []*ast.BinaryExpr
	ast.Inspect(fd.Body, func(n ast.Node) bool {
		if be, ok := n.(*ast.BinaryExpr); ok && (be.Op == token.AND || be.Op == token.OR || be.Op == token.AND_NOT) {
			nodes = append(nodes, be)
		}
		return true
	})
	for i := len(nodes) - 1; i >= 0; i-- { // reverse pre-order: children before parents
		be := nodes[i]
		t := o.newTr(p, *fs)
		a, b := t.expr(be.X), t.expr(be.Y)
		if t.err != nil {
			continue
		}
		fn := map[token.Token]string{token.AND: "Z.land", token.OR: "Z.lor", token.AND_NOT: "Z.ldiff"}[be.Op]
		fs.leaves[printNode(p.fset, be)] = "(" + fn + " " + a + " " + b + ")"
	}
}

// fcCompound translates the nth compound assignment `lhs op= rhs` of the function into `lhs op rhs`.
func (o *out) fcCompound(fs funcSpec, lhs string, nth int) {
	p, fd := findFunc(fs.dir, fs.recv, fs.name)
	if fd == nil {
		o.brokenDef(fs.coqName, "function "+fs.dir+":"+fs.recv+"."+fs.name+" not found")
		return
	}
	o.fcBitLeaves(&fs)
	var found *ast.AssignStmt
	k := 0
	ast.Inspect(fd.Body, func(n ast.Node) bool {
		if found != nil {
			return false
		}
		as, ok := n.(*ast.AssignStmt)
		if !ok || len(as.Lhs) != 1 || len(as.Rhs) != 1 || as.Tok == token.ASSIGN || as.Tok == token.DEFINE {
			return true
		}
		if printNode(p.fset, as.Lhs[0]) == lhs {
			if k == nth {
				found = as
				return false
			}
			k++
		}
		return true
	})
	if found == nil {
		o.brokenDef(fs.coqName, fmt.Sprintf("no compound assignment #%d to `%s` in %s", nth, lhs, fs.name))
		return
	}
	t := o.newTr(p, fs)
	a, b := t.expr(found.Lhs[0]), t.expr(found.Rhs[0])
	if t.err != nil {
		o.brokenDef(fs.coqName, t.err.Error())
		return
	}
	var c string
	switch found.Tok {
	case token.ADD_ASSIGN:
		c = "(" + a + " + " + b + ")"
	case token.SUB_ASSIGN:
		c = "(" + a + " - " + b + ")"
	case token.OR_ASSIGN:
		c = "(Z.lor " + a + " " + b + ")"
	case token.AND_ASSIGN:
		c = "(Z.land " + a + " " + b + ")"
	case token.AND_NOT_ASSIGN:
		c = "(Z.ldiff " + a + " " + b + ")"
	default:
		o.brokenDef(fs.coqName, "unsupported compound operator "+found.Tok.String())
		return
	}
	o.f("Definition %s %s : %s :=\n  %s.\n(* from %s:%s.%s : %s *)\n", fs.coqName, fs.params, fs.retType, c, fs.dir, fs.recv, fs.name,
		strings.ReplaceAll(strings.Join(strings.Fields(printNode(p.fset, found)), " "), "*)", "* )"))
}

// fcCond is condOf after the bitwise pre-pass.
func (o *out) fcCond(fs funcSpec, marker string, nth ...int) {
	o.fcBitLeaves(&fs)
	o.condOf(fs, marker, nth...)
}

// fcAssign is exprOfAssign after the bitwise pre-pass.
func (o *out) fcAssign(fs funcSpec, lhs string, nth int) {
	o.fcBitLeaves(&fs)
	o.exprOfAssign(fs, lhs, nth)
}

// fcEmitExpr translates one expression found by `pick` in the function.
func (o *out) fcEmitExpr(fs funcSpec, what string, pick func(p *pkgInfo, fd *ast.FuncDecl) ast.Expr) {
	p, fd := findFunc(fs.dir, fs.recv, fs.name)
	if fd == nil {
		o.brokenDef(fs.coqName, "function "+fs.dir+":"+fs.recv+"."+fs.name+" not found")
		return
	}
	o.fcBitLeaves(&fs)
	e := pick(p, fd)
	if e == nil {
		o.brokenDef(fs.coqName, "no "+what+" in "+fs.name)
		return
	}
	t := o.newTr(p, fs)
	c := t.expr(e)
	if t.err != nil {
		o.brokenDef(fs.coqName, t.err.Error())
		return
	}
	o.f("Definition %s %s : %s :=\n  %s.\n(* from %s:%s.%s : %s = %s *)\n", fs.coqName, fs.params, fs.retType, c, fs.dir, fs.recv, fs.name, what,
		strings.ReplaceAll(printNode(p.fset, e), "*)", "* )"))
}

// fcCallArg: argument #arg of the nth call whose printed callee equals `callee`.
func (o *out) fcCallArg(fs funcSpec, callee string, nth, arg int) {
	o.fcEmitExpr(fs, fmt.Sprintf("argument %d of call #%d to %s", arg, nth, callee), func(p *pkgInfo, fd *ast.FuncDecl) ast.Expr {
		var found ast.Expr
		k := 0
		ast.Inspect(fd.Body, func(n ast.Node) bool {
			if found != nil {
				return false
			}
			ce, ok := n.(*ast.CallExpr)
			if !ok || printNode(p.fset, ce.Fun) != callee {
				return true
			}
			if k == nth {
				if arg < len(ce.Args) {
					found = ce.Args[arg]
				}
				return false
			}
			k++
			return true
		})
		return found
	})
}

// fcSliceLow: the low bound of the first slice expression over `base` (e.g. hdr[48:], cd[size-10:size]).
func (o *out) fcSliceLow(fs funcSpec, base string) {
	o.fcEmitExpr(fs, "low bound of slice of "+base, func(p *pkgInfo, fd *ast.FuncDecl) ast.Expr {
		var found ast.Expr
		ast.Inspect(fd.Body, func(n ast.Node) bool {
			if found != nil {
				return false
			}
			if se, ok := n.(*ast.SliceExpr); ok && printNode(p.fset, se.X) == base && se.Low != nil {
				found = se.Low
				return false
			}
			return true
		})
		return found
	})
}

// fcLitField: value of `field` in the nth composite literal of type `typ` in the function.
func fcFindLit(p *pkgInfo, fd *ast.FuncDecl, typ string, nth int) *ast.CompositeLit {
	var found *ast.CompositeLit
	k := 0
	ast.Inspect(fd.Body, func(n ast.Node) bool {
		if found != nil {
			return false
		}
		cl, ok := n.(*ast.CompositeLit)
		if !ok || cl.Type == nil {
			return true
		}
		tn := printNode(p.fset, cl.Type)
		if tn == typ || strings.HasSuffix(tn, "."+typ) {
			if k == nth {
				found = cl
				return false
			}
			k++
		}
		return true
	})
	return found
}

func (o *out) fcLitField(fs funcSpec, typ string, nth int, field string) {
	o.fcEmitExpr(fs, "field "+field+" of literal "+typ, func(p *pkgInfo, fd *ast.FuncDecl) ast.Expr {
		cl := fcFindLit(p, fd, typ, nth)
		if cl == nil {
			return nil
		}
		for _, el := range cl.Elts {
			if kv, ok := el.(*ast.KeyValueExpr); ok && printNode(p.fset, kv.Key) == field {
				return kv.Value
			}
		}
		return nil
	})
}

// fcLitKeys: the set of keys of a composite literal, as indices into the struct's field order (fields not
// mentioned are zero in Go).
func structFieldNames(dir, goName string) []string {
	_, st := findStruct(dir, goName)
	if st == nil {
		return nil
	}
	var names []string
	for _, fl := range st.Fields.List {
		if len(fl.Names) == 0 {
			names = append(names, "_")
		}
		for _, n := range fl.Names {
			names = append(names, n.Name)
		}
	}
	return names
}

func indexOf(xs []string, x string) int {
	for i, y := range xs {
		if y == x {
			return i
		}
	}
	return -1
}

func (o *out) fcLitKeys(dir, recv, fn, typ string, nth int, structDir, structName, coqName string) {
	p, fd := findFunc(dir, recv, fn)
	names := structFieldNames(structDir, structName)
	if fd == nil || names == nil {
		o.brokenDef(coqName, "function or struct not found: "+fn+" / "+structName)
		return
	}
	cl := fcFindLit(p, fd, typ, nth)
	if cl == nil {
		o.brokenDef(coqName, "no literal "+typ+" in "+fn)
		return
	}
	var idx, ks []string
	for _, el := range cl.Elts {
		kv, ok := el.(*ast.KeyValueExpr)
		if !ok {
			o.brokenDef(coqName, "unkeyed literal "+typ)
			return
		}
		k := printNode(p.fset, kv.Key)
		i := indexOf(names, k)
		if i < 0 {
			o.brokenDef(coqName, "unknown field "+k)
			return
		}
		idx = append(idx, fmt.Sprint(i))
		ks = append(ks, k)
	}
	o.f("Definition %s : list nat := [%s]%%nat. (* %s:%s.%s literal %s sets %s *)\n", coqName, strings.Join(idx, "; "), dir, recv, fn, typ, strings.Join(ks, ","))
}

// fcStructIndex emits coqName_ix_<Field> : nat (position in the struct's field order) and coqName_nfields.
func (o *out) fcStructIndex(dir, goName, coqName string) {
	names := structFieldNames(dir, goName)
	if names == nil {
		o.brokenDef(coqName+"_nfields", "struct "+dir+"."+goName+" not found")
		return
	}
	for i, n := range names {
		o.f("Definition %s_ix_%s : nat := %d.\n", coqName, n, i)
	}
	o.f("Definition %s_nfields : nat := %d. (* %s.%s *)\n", coqName, len(names), dir, goName)
}

// fcFieldSources: for a keyed composite literal of struct `typ`, emit for every field of the struct (in struct order)
// where its value comes from: i (field i of struct srcA, written srcAPrefix.Field), 100+i (field i of srcB), or 999
// (absent = zero value).
func (o *out) fcFieldSources(dir, recv, fn, typ, aPrefix, aStruct, bPrefix, bStruct, coqName string) {
	p, fd := findFunc(dir, recv, fn)
	names := structFieldNames(dir, typ)
	an, bn := structFieldNames(dir, aStruct), structFieldNames(dir, bStruct)
	if fd == nil || names == nil || an == nil || bn == nil {
		o.brokenDef(coqName, "function or struct not found for "+typ)
		return
	}
	cl := fcFindLit(p, fd, typ, 0)
	if cl == nil {
		o.brokenDef(coqName, "no literal "+typ+" in "+fn)
		return
	}
	src := map[string]string{}
	for _, el := range cl.Elts {
		kv, ok := el.(*ast.KeyValueExpr)
		if !ok {
			o.brokenDef(coqName, "unkeyed literal "+typ)
			return
		}
		src[printNode(p.fset, kv.Key)] = printNode(p.fset, kv.Value)
	}
	var codes, expl []string
	for _, n := range names {
		v, ok := src[n]
		code := 999
		switch {
		case !ok:
		case strings.HasPrefix(v, aPrefix+"."):
			if i := indexOf(an, v[len(aPrefix)+1:]); i >= 0 {
				code = i
			} else {
				code = 998
			}
		case strings.HasPrefix(v, bPrefix+"."):
			if i := indexOf(bn, v[len(bPrefix)+1:]); i >= 0 {
				code = 100 + i
			} else {
				code = 998
			}
		default:
			code = 997 // a constant or computed value, extracted separately
		}
		if code == 998 {
			o.brokenDef(coqName, "field "+n+" of "+typ+" has an unrecognised source "+v)
			return
		}
		codes = append(codes, fmt.Sprint(code))
		expl = append(expl, n+"<-"+v)
	}
	o.f("Definition %s : list Z := [%s]. (* %s:%s.%s %s{...}: %s ; i = %s field i, 100+i = %s field i, 997 = other expression, 999 = zero *)\n", coqName, strings.Join(codes, "; "),
		dir, recv, fn, typ, strings.Join(expl, " "), aStruct, bStruct)
}

// fcFieldCopies: plain assignments `lPrefix.F = rPrefix.G` in the function, as pairs (index of F, index of G).
func (o *out) fcFieldCopies(dir, recv, fn, lPrefix, lStruct, rPrefix, rStruct, coqName string) {
	p, fd := findFunc(dir, recv, fn)
	ln, rn := structFieldNames(dir, lStruct), structFieldNames(dir, rStruct)
	if fd == nil || ln == nil || rn == nil {
		o.brokenDef(coqName, "function or struct not found")
		return
	}
	var pairs, expl []string
	bad := ""
	ast.Inspect(fd.Body, func(n ast.Node) bool {
		as, ok := n.(*ast.AssignStmt)
		if !ok || as.Tok != token.ASSIGN || len(as.Lhs) != 1 || len(as.Rhs) != 1 {
			return true
		}
		l, r := printNode(p.fset, as.Lhs[0]), printNode(p.fset, as.Rhs[0])
		if !strings.HasPrefix(l, lPrefix+".") {
			return true
		}
		if !strings.HasPrefix(r, rPrefix+".") {
			bad = l + " = " + r
			return true
		}
		i, j := indexOf(ln, l[len(lPrefix)+1:]), indexOf(rn, r[len(rPrefix)+1:])
		if i < 0 || j < 0 {
			bad = l + " = " + r
			return true
		}
		pairs = append(pairs, fmt.Sprintf("(%d, %d)%%nat", i, j))
		expl = append(expl, l+"="+r)
		return true
	})
	if bad != "" {
		o.brokenDef(coqName, "unrecognised assignment "+bad)
		return
	}
	o.f("Definition %s : list (nat * nat) := [%s]. (* %s:%s.%s : %s *)\n", coqName, strings.Join(pairs, "; "), dir, recv, fn, strings.Join(expl, "; "))
}

// fcReturns: the (single) result expressions of every return statement of the function, in source order, as a list.
func (o *out) fcReturns(fs funcSpec) {
	p, fd := findFunc(fs.dir, fs.recv, fs.name)
	if fd == nil {
		o.brokenDef(fs.coqName, "function "+fs.dir+":"+fs.recv+"."+fs.name+" not found")
		return
	}
	o.fcBitLeaves(&fs)
	var items, src []string
	t := o.newTr(p, fs)
	ast.Inspect(fd.Body, func(n ast.Node) bool {
		if _, ok := n.(*ast.FuncLit); ok {
			return false
		}
		if rs, ok := n.(*ast.ReturnStmt); ok && len(rs.Results) == 1 {
			items = append(items, t.expr(rs.Results[0]))
			src = append(src, printNode(p.fset, rs.Results[0]))
		}
		return true
	})
	if t.err != nil || len(items) == 0 {
		why := "no return statements"
		if t.err != nil {
			why = t.err.Error()
		}
		o.brokenDef(fs.coqName, why)
		return
	}
	o.f("Definition %s %s : %s :=\n  [%s].\n(* from %s:%s.%s : return values in source order: %s *)\n", fs.coqName, fs.params, fs.retType, strings.Join(items, "; "),
		fs.dir, fs.recv, fs.name, strings.ReplaceAll(strings.Join(src, " | "), "*)", "* )"))
}

// fcArgIs emits a bool: is argument #arg of the nth call to callee printed exactly as `want`?
func (o *out) fcArgIs(dir, recv, fn, callee string, nth, arg int, want, coqName string) {
	p, fd := findFunc(dir, recv, fn)
	if fd == nil {
		o.brokenDef(coqName, "function "+dir+":"+recv+"."+fn+" not found")
		return
	}
	k, got, seen := 0, "", false
	ast.Inspect(fd.Body, func(n ast.Node) bool {
		ce, ok := n.(*ast.CallExpr)
		if !ok || printNode(p.fset, ce.Fun) != callee {
			return true
		}
		if k == nth && arg < len(ce.Args) && !seen {
			got, seen = printNode(p.fset, ce.Args[arg]), true
		}
		k++
		return true
	})
	if !seen {
		o.brokenDef(coqName, fmt.Sprintf("no argument %d of call #%d to %s in %s", arg, nth, callee, fn))
		return
	}
	o.f("Definition %s : bool := %v. (* %s:%s.%s : argument %d of call #%d to %s is `%s` *)\n", coqName, got == want, dir, recv, fn, arg, nth, callee, got)
}

func init() {
	generators["FmtCAB_gen"] = func(o *out) {
		// ------------------------------------------------------------------ CAB
		const d = "lib/cabfile"
		o.f("(* Go's uint32(x) conversion of an integer value *)\nDefinition fc_wrap32 (x : Z) : Z := x mod 4294967296.\n\n")
		o.constInt(d, "Magic", "cab_Magic")
		o.constInt(d, "FlagPrevCabinet", "cab_FlagPrevCabinet")
		o.constInt(d, "FlagNextCabinet", "cab_FlagNextCabinet")
		o.constInt(d, "FlagReservePresent", "cab_FlagReservePresent")
		o.constInt(d, "reserveHeaderSize", "cab_reserveHeaderSize")
		o.constInt(d, "signatureHeaderSize", "cab_signatureHeaderSize")
		for _, s := range [][2]string{{"Header", "cabh"}, {"ReserveHeader", "cabrh"}, {"SignatureHeader", "cabsh"}, {"FolderHeader", "cabfh"}, {"sigBlob", "cabsb"}} {
			o.structLayout(d, s[0], s[1])
			o.fcStructIndex(d, s[0], s[1])
		}
		dl := map[string]string{
			"cab.Header.Magic": "magic", "cab.Header.Flags": "flags", "cab.Header.TotalSize": "total", "cab.Header.OffsetFiles": "offiles",
			"cab.Header.NumFolders":        "nfolders",
			"cab.ReserveHeader.HeaderSize": "rh_header", "cab.ReserveHeader.FolderSize": "rh_folder", "cab.ReserveHeader.DataSize": "rh_data",
			"cab.SignatureHeader.CabinetSize": "sh_cabsize", "padding": "padding", "v": "v", "addOffset": "add_offset", "i": "i",
			"outHeader.Flags": "flags", "hdrEnd": "hdr_end",
			"binary.Size(cab.Header)": "cabh_size", "binary.Size(FolderHeader{})": "cabfh_size",
		}
		dg := func(name, params, ret string) funcSpec {
			return funcSpec{dir: d, recv: "", name: "Digest", coqName: name, params: params, retType: ret, leaves: dl}
		}
		o.fcCond(dg("cab_bad_magic", "(magic : Z)", "bool"), "cab.Header.Magic")
		o.fcCond(dg("cab_has_reserve", "(flags : Z)", "bool"), "Flags&FlagReservePresent")
		o.fcCond(dg("cab_bad_reserve", "(rh_header rh_folder rh_data : Z)", "bool"), "cab.ReserveHeader.HeaderSize")
		o.fcAssign(dg("cab_padding", "(rh_header : Z)", "Z"), "padding", 0)
		o.fcCond(dg("cab_padding_present", "(padding : Z)", "bool"), "if:padding")
		o.fcCond(dg("cab_padded_with_size", "(sh_cabsize : Z)", "bool"), "cab.SignatureHeader.CabinetSize", 0)
		o.fcCond(dg("cab_pad_nonzero", "(v : Z)", "bool"), "if:v ")
		o.fcCompound(dg("cab_offset_remove_padding", "(add_offset padding : Z)", "Z"), "addOffset", 0)
		o.fcCond(dg("cab_size_mismatch", "(total sh_cabsize : Z)", "bool"), "cab.Header.TotalSize")
		o.fcCompound(dg("cab_offset_add_reserve", "(add_offset : Z)", "Z"), "addOffset", 1)
		o.fcCond(dg("cab_multipart", "(flags : Z)", "bool"), "FlagPrevCabinet")
		o.fcCond(dg("cab_unsupported_flags", "(flags : Z)", "bool"), "Flags&^FlagReservePresent")
		// guard added by relic commit 6b49488: the folder table must end at coffFiles and coffFiles <= cbCabinet
		o.fcAssign(dg("cab_hdr_end", "(nfolders : Z)", "Z"), "hdrEnd", 0)
		o.fcCond(dg("cab_hdr_end_has_reserve", "(flags : Z)", "bool"), "Flags&FlagReservePresent", 1)
		o.fcCompound(dg("cab_hdr_end_reserve", "(hdr_end rh_header : Z)", "Z"), "hdrEnd", 0)
		o.fcCond(dg("cab_bad_layout", "(offiles hdr_end total : Z)", "bool"), "if:int64(cab.Header.OffsetFiles)")
		o.fcCompound(dg("cab_out_flags", "(flags : Z)", "Z"), "outHeader.Flags", 0)
		o.fcCond(dg("cab_more_folders", "(i nfolders : Z)", "bool"), "for:cab.Header.NumFolders")
		o.fcCallArg(dg("cab_data_len", "(total offiles : Z)", "Z"), "io.CopyN", 0, 2)
		o.hasStmt(d, "", "Digest", "outHeader := cab.Header", "cab_out_header_is_copy")
		o.fcLitField(dg("cab_out_reserve_header_size", "", "Z"), "ReserveHeader", 0, "HeaderSize")
		o.fcLitKeys(d, "", "Digest", "ReserveHeader", 0, d, "ReserveHeader", "cab_out_reserve_keys")
		o.fcLitField(dg("cab_out_sig_unknown1", "", "Z"), "SignatureHeader", 0, "Unknown1")
		o.fcLitKeys(d, "", "Digest", "SignatureHeader", 0, d, "SignatureHeader", "cab_out_sig_keys")
		o.fcFieldSources(d, "", "Digest", "SignatureHeader", "outHeader", "Header", "-", "SignatureHeader", "cab_out_sig_src_raw")
		o.fcFieldCopies(d, "", "Digest", "outSigHeader", "SignatureHeader", "cab.SignatureHeader", "SignatureHeader", "cab_sig_preserved")
		o.fcFieldSources(d, "", "Digest", "sigBlob", "outHeader", "Header", "outSigHeader", "SignatureHeader", "cab_sigblob_src")
		o.exprOfAssign(funcSpec{dir: d, recv: "", name: "add32", coqName: "cab_add32", params: "(offset increment : Z)", retType: "Z",
			leaves: map[string]string{"*offset": "offset", "increment": "increment"}, calls: map[string]string{"uint32": "fc_wrap32"}}, "*offset", 0)
		o.callOrder(d, "", "Digest", "cab_add32_calls", []string{"add32"})
		o.decisionFunc(funcSpec{dir: d, recv: "SignatureHeader", name: "Size", coqName: "cab_sig_size", params: "(is_nil : bool) (sigsize : Z)", retType: "Z",
			leaves: map[string]string{"sh == nil": "is_nil", "sh.SignatureSize": "sigsize"}})
		ml := map[string]string{"len(pkcs)": "blob_len", "len(padded)": "padded_len", "d.Cabinet.Header.OffsetFiles": "offiles",
			"d.Cabinet.Header.TotalSize": "total", "d.Cabinet.SignatureHeader.Size()": "old_sig_size"}
		mp := func(name, params, ret string) funcSpec {
			return funcSpec{dir: d, recv: "CabinetDigest", name: "MakePatch", coqName: name, params: params, retType: ret, leaves: ml,
				calls: map[string]string{"uint32": "fc_wrap32"}}
		}
		o.fcCallArg(mp("cab_padded_len", "(blob_len : Z)", "Z"), "make", 0, 1)
		o.fcSliceLow(mp("cab_sigsize_patch_offset", "", "Z"), "hdr")
		o.fcCallArg(mp("cab_sigsize_patch_value", "(padded_len : Z)", "Z"), "binary.LittleEndian.PutUint32", 0, 1)
		o.fcCallArg(mp("cab_patch1_off", "", "Z"), "p.Add", 0, 0)
		o.fcCallArg(mp("cab_patch1_old", "(offiles : Z)", "Z"), "p.Add", 0, 1)
		o.fcCallArg(mp("cab_patch2_off", "(total : Z)", "Z"), "p.Add", 1, 0)
		o.fcCallArg(mp("cab_patch2_old", "(old_sig_size : Z)", "Z"), "p.Add", 1, 1)
		o.condOf(funcSpec{dir: "lib/authenticode", recv: "", name: "VerifyCab", coqName: "cab_not_signed", params: "(sig_len : Z)", retType: "bool",
			leaves: map[string]string{"len(cab.Signature)": "sig_len"}}, "cab.Signature")
		fingerprint(d, "", "Digest")
		fingerprint(d, "", "Parse")
		fingerprint(d, "CabinetDigest", "MakePatch")
		fingerprint(d, "", "add32")
		fingerprint("lib/authenticode", "", "VerifyCab")
		fingerprint("lib/authenticode", "", "SignCabImprint")
		fingerprint("signers/cab", "", "sign")
		fingerprint("signers/cab", "", "verify")

		// ------------------------------------------------------------------ XAP trailer + zip directory discovery
		const x = "lib/signxap"
		const z = "lib/zipslicer"
		o.f("\n")
		o.constInt(x, "trailerMagic", "xap_trailerMagic")
		for _, s := range [][2]string{{"xapTrailer", "xaptr"}, {"xapHeader", "xaphd"}} {
			o.structLayout(x, s[0], s[1])
			o.fcStructIndex(x, s[0], s[1])
		}
		for _, c := range [][2]string{{"directoryEndSignature", "zip_directoryEndSignature"}, {"directory64LocSignature", "zip_directory64LocSignature"},
			{"directory64EndSignature", "zip_directory64EndSignature"}, {"directoryEndLen", "zip_directoryEndLen"},
			{"directory64LocLen", "zip_directory64LocLen"}, {"directory64EndLen", "zip_directory64EndLen"},
			{"uint32Max", "zip_uint32Max"}, {"uint16Max", "zip_uint16Max"}} {
			o.constInt(z, c[0], c[1])
		}
		for _, s := range [][2]string{{"zipEndRecord", "zipend"}, {"zip64Loc", "ziploc"}, {"zip64End", "zipend64"}} {
			o.structLayout(z, s[0], s[1])
			o.fcStructIndex(z, s[0], s[1])
		}
		fl := map[string]string{"size": "size", "pos": "pos", "end.Signature": "end_sig", "end.TotalCDCount": "end_count", "end.CDSize": "end_cdsize",
			"end.CDOffset": "end_cdoffset", "loc64.Signature": "loc_sig", "end64.Signature": "end64_sig"}
		fd := func(name, params, ret string) funcSpec {
			return funcSpec{dir: z, recv: "", name: "FindDirectory", coqName: name, params: params, retType: ret, leaves: fl}
		}
		o.exprOfAssign(fd("zip_find_pos", "(size : Z)", "Z"), "pos", 0)
		o.condOf(fd("zip_find_short", "(pos size : Z)", "bool"), "if:pos")
		o.fcSliceLow(fd("zip_find_short_skip", "(pos : Z)", "Z"), "endb")
		o.exprOfAssign(fd("zip_find_short_pos", "", "Z"), "pos", 1)
		o.condOf(fd("zip_no_end_record", "(end_sig : Z)", "bool"), "end.Signature")
		o.condOf(fd("zip_needs_zip64", "(end_count end_cdsize end_cdoffset : Z)", "bool"), "end.TotalCDCount")
		o.condOf(fd("zip_no_locator", "(loc_sig : Z)", "bool"), "loc64.Signature")
		o.condOf(fd("zip_no_end64", "(end64_sig : Z)", "bool"), "end64.Signature")
		// ZipToTar = ZipToTarTrailer with a literal zero trailer; ZipToTarTrailer looks for the directory in the first
		// size-trailerLen bytes and puts [dirLoc, size) and [0, size) into the two tar members
		o.fcCallArg(funcSpec{dir: z, recv: "", name: "ZipToTar", coqName: "zip_tar_plain_trailer", params: "", retType: "Z"}, "ZipToTarTrailer", 0, 2)
		tl := map[string]string{"size": "size", "dirLoc": "dir_loc", "trailerLen": "trailer_len"}
		tt := func(name, params, ret string) funcSpec {
			return funcSpec{dir: z, recv: "", name: "ZipToTarTrailer", coqName: name, params: params, retType: ret, leaves: tl}
		}
		o.callOrder(z, "", "ZipToTarTrailer", "zip_tar_member_order", []string{"FindDirectory", "tarAddStream"})
		o.condOf(tt("zip_tar_bad_trailer", "(trailer_len size : Z)", "bool"), "if:trailerLen")
		o.fcCallArg(tt("zip_tar_find_size", "(size trailer_len : Z)", "Z"), "FindDirectory", 0, 1)
		o.fcCallArg(tt("zip_tar_cd_from", "(dir_loc : Z)", "Z"), "io.NewSectionReader", 0, 1)
		o.fcCallArg(tt("zip_tar_cd_len", "(size dir_loc : Z)", "Z"), "io.NewSectionReader", 0, 2)
		o.fcCallArg(tt("zip_tar_cd_size", "(size dir_loc : Z)", "Z"), "tarAddStream", 0, 3)
		o.fcCallArg(tt("zip_tar_zip_from", "", "Z"), "io.NewSectionReader", 1, 1)
		o.fcCallArg(tt("zip_tar_zip_len", "(size : Z)", "Z"), "io.NewSectionReader", 1, 2)
		o.fcCallArg(tt("zip_tar_zip_size", "(size dir_loc : Z)", "Z"), "tarAddStream", 1, 3)
		// signxap.TrailerSize: how many bytes at the end of the file the XAP transform treats as an existing signature
		kl := map[string]string{"size": "size", "tr.Magic": "tr_magic", "tr.TrailerSize": "tr_size"}
		ts := func(name, params, ret string) funcSpec {
			return funcSpec{dir: x, recv: "", name: "TrailerSize", coqName: name, params: params, retType: ret, leaves: kl}
		}
		o.condOf(ts("xap_ts_too_short", "(size : Z)", "bool"), "if:size", 0)
		o.fcCallArg(ts("xap_ts_trailer_off", "(size : Z)", "Z"), "io.NewSectionReader", 0, 1)
		o.fcCallArg(ts("xap_ts_trailer_len", "", "Z"), "io.NewSectionReader", 0, 2)
		o.condOf(ts("xap_ts_no_trailer", "(tr_magic tr_size size : Z)", "bool"), "if:tr.Magic")
		o.fcReturns(ts("xap_ts_returns", "(tr_size : Z)", "list Z"))
		// the XAP transformer: trailer := signxap.TrailerSize(f, size) is what ZipToTarTrailer gets; Apply is ApplyBinPatch
		const sx = "signers/xap"
		o.callOrder(sx, "xapTransformer", "GetReader", "xap_tf_call_order", []string{"signxap.TrailerSize", "zipslicer.ZipToTarTrailer"})
		o.hasStmt(sx, "xapTransformer", "GetReader", "trailer := signxap.TrailerSize(t.f, st.Size())", "xap_tf_trailer_from_trailer_size")
		o.fcArgIs(sx, "xapTransformer", "GetReader", "zipslicer.ZipToTarTrailer", 0, 2, "trailer", "xap_tf_passes_trailer")
		o.fcArgIs(sx, "xapTransformer", "GetReader", "zipslicer.ZipToTarTrailer", 0, 0, "t.f", "xap_tf_same_file")
		o.hasStmt(sx, "xapTransformer", "Apply", "return signers.ApplyBinPatch(t.f, dest, result)", "xap_tf_apply_is_binpatch")
		o.hasStmt(sx, "", "transform", "return &xapTransformer{f}, nil", "xap_tf_transform_is_xap")
		xl := map[string]string{"totalSize": "total_size", "len(cd)": "cd_len", "bodySize": "body_size", "zipSize": "zip_size"}
		dx := func(name, params, ret string) funcSpec {
			return funcSpec{dir: x, recv: "", name: "DigestXapTar", coqName: name, params: params, retType: ret, leaves: xl}
		}
		o.exprOfAssign(dx("xap_body_size", "(total_size cd_len : Z)", "Z"), "bodySize", 0)
		o.exprOfAssign(dx("xap_zip_size", "(body_size cd_len : Z)", "Z"), "zipSize", 0)
		o.fcLitField(dx("xap_patch_start", "(zip_size : Z)", "Z"), "XapDigest", 0, "PatchStart")
		o.fcLitField(dx("xap_patch_len", "(total_size zip_size : Z)", "Z"), "XapDigest", 0, "PatchLen")
		o.callOrder(x, "", "DigestXapTar", "xap_digest_order", []string{"io.CopyN", "removeSignature", "d.Write"})
		rl := map[string]string{"size": "size", "tr.Magic": "tr_magic", "tr.TrailerSize": "tr_size"}
		rs := func(name, params, ret string) funcSpec {
			return funcSpec{dir: x, recv: "", name: "removeSignature", coqName: name, params: params, retType: ret, leaves: rl}
		}
		// guard added by relic commit f898997: a blob shorter than a trailer is returned as it is
		o.condOf(rs("xap_rm_too_short", "(size : Z)", "bool"), "if:size", 0)
		o.fcSliceLow(rs("xap_rm_trailer_start", "(size : Z)", "Z"), "cd")
		o.condOf(rs("xap_rm_has_trailer", "(tr_magic tr_size size : Z)", "bool"), "tr.Magic")
		o.fcCompound(rs("xap_rm_new_size", "(size tr_size : Z)", "Z"), "size", 0)
		sl := map[string]string{"len(ts.Raw)": "raw_len", "d.PatchStart": "patch_start", "d.PatchLen": "patch_len"}
		sg := func(name, params, ret string) funcSpec {
			return funcSpec{dir: x, recv: "XapDigest", name: "Sign", coqName: name, params: params, retType: ret, leaves: sl,
				calls: map[string]string{"uint32": "fc_wrap32"}}
		}
		o.fcLitField(sg("xap_hdr_unknown1", "", "Z"), "xapHeader", 0, "Unknown1")
		o.fcLitField(sg("xap_hdr_unknown2", "", "Z"), "xapHeader", 0, "Unknown2")
		o.fcLitField(sg("xap_hdr_sigsize", "(raw_len : Z)", "Z"), "xapHeader", 0, "SignatureSize")
		o.fcLitKeys(x, "XapDigest", "Sign", "xapHeader", 0, x, "xapHeader", "xap_hdr_keys")
		o.fcLitField(sg("xap_tr_magic", "", "Z"), "xapTrailer", 0, "Magic")
		o.fcLitField(sg("xap_tr_unknown1", "", "Z"), "xapTrailer", 0, "Unknown1")
		o.fcLitField(sg("xap_tr_size", "(raw_len : Z)", "Z"), "xapTrailer", 0, "TrailerSize")
		o.fcLitKeys(x, "XapDigest", "Sign", "xapTrailer", 0, x, "xapTrailer", "xap_tr_keys")
		o.callOrder(x, "XapDigest", "Sign", "xap_write_order", []string{"binary.Write", "w.Write"})
		o.fcCallArg(sg("xap_patch_off", "(patch_start : Z)", "Z"), "patch.Add", 0, 0)
		o.fcCallArg(sg("xap_patch_old", "(patch_len : Z)", "Z"), "patch.Add", 0, 1)
		vl := map[string]string{"size": "size", "tr.Magic": "tr_magic", "tr.TrailerSize": "tr_size", "zipMagic": "zip_magic",
			"hdr.SignatureSize": "hdr_sigsize"}
		vf := func(name, params, ret string) funcSpec {
			return funcSpec{dir: x, recv: "", name: "Verify", coqName: name, params: params, retType: ret, leaves: vl}
		}
		o.fcCallArg(vf("xap_v_trailer_off", "(size : Z)", "Z"), "io.NewSectionReader", 0, 1)
		o.fcCallArg(vf("xap_v_trailer_len", "", "Z"), "io.NewSectionReader", 0, 2)
		o.condOf(vf("xap_v_no_trailer", "(tr_magic : Z)", "bool"), "tr.Magic")
		o.fcCallArg(vf("xap_v_zipmagic_off", "(size : Z)", "Z"), "io.NewSectionReader", 1, 1)
		o.fcCallArg(vf("xap_v_zipmagic_len", "", "Z"), "io.NewSectionReader", 1, 2)
		o.condOf(vf("xap_v_is_zip", "(zip_magic : Z)", "bool"), "zipMagic")
		o.fcCompound(vf("xap_v_body_size", "(size tr_size : Z)", "Z"), "size", 0)
		o.fcCallArg(vf("xap_v_hdr_len", "", "Z"), "io.NewSectionReader", 2, 2)
		o.condOf(vf("xap_v_size_mismatch", "(hdr_sigsize tr_size : Z)", "bool"), "hdr.SignatureSize")
		o.fcCallArg(vf("xap_v_blob_off", "(size : Z)", "Z"), "r.ReadAt", 0, 1)
		o.fcCallArg(vf("xap_v_digest_from", "", "Z"), "io.NewSectionReader", 3, 1)
		o.fcCallArg(vf("xap_v_digest_len", "(size : Z)", "Z"), "io.NewSectionReader", 3, 2)
		fingerprint(x, "", "DigestXapTar")
		fingerprint(x, "", "removeSignature")
		fingerprint(x, "XapDigest", "Sign")
		fingerprint(x, "", "Verify")
		fingerprint(z, "", "FindDirectory")
		fingerprint(z, "", "ZipToTar")
		fingerprint(z, "", "ZipToTarTrailer")
		fingerprint(x, "", "TrailerSize")
		fingerprint(z, "", "tarAddStream")
		fingerprint("signers/xap", "", "sign")
		fingerprint("signers/xap", "", "verify")
		fingerprint("signers/xap", "", "transform")
		fingerprint("signers/xap", "xapTransformer", "GetReader")
		fingerprint("signers/xap", "xapTransformer", "Apply")
	}
}
