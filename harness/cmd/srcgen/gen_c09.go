package main

import (
	"fmt"
	"go/ast"
	"go/token"
	"sort"
	"strconv"
	"strings"
)

// c09BitLeaves: the shared translator knows no bit operators. For every binary expression with & | << >> inside the
// function, register its translation (Z.land/Z.lor/Z.shiftl/Z.shiftr over the translated operands) as a leaf, children
// first, so that o.condOf / o.exprOfAssign can then translate the enclosing expression. A changed operand or shift
// amount therefore changes the generated Coq term.
func c09BitLeaves(o *out, fs funcSpec) {
	p, fd := findFunc(fs.dir, fs.recv, fs.name)
	if fd == nil {
		return
	}
	var nodes []*ast.BinaryExpr
	ast.Inspect(fd.Body, func(n ast.Node) bool {
		if be, ok := n.(*ast.BinaryExpr); ok {
			switch be.Op {
			case token.AND, token.OR, token.SHL, token.SHR:
				nodes = append(nodes, be)
			}
		}
		return true
	})
	ops := map[token.Token]string{token.AND: "Z.land", token.OR: "Z.lor", token.SHL: "Z.shiftl", token.SHR: "Z.shiftr"}
	for i := len(nodes) - 1; i >= 0; i-- {
		be := nodes[i]
		t := o.newTr(p, fs)
		a, b := t.expr(be.X), t.expr(be.Y)
		if t.err != nil {
			continue
		}
		fs.leaves[printNode(p.fset, be)] = "(" + ops[be.Op] + " " + a + " " + b + ")"
	}
}

// c09IntMap emits the entries of a package-level map[string]int literal whose keys are string constants, as a list of
// (key bytes, value), sorted by value.
func c09IntMap(o *out, dir, goName, coqName string) {
	ce, p, _, _ := findConstExpr(dir, goName)
	cl, ok := ce.(*ast.CompositeLit)
	if ce == nil || !ok {
		o.brokenDef(coqName, "map literal "+dir+"."+goName+" not found")
		return
	}
	type ent struct {
		k string
		v int64
	}
	var ents []ent
	for _, el := range cl.Elts {
		kv, ok := el.(*ast.KeyValueExpr)
		if !ok {
			o.brokenDef(coqName, "map literal element is not key:value")
			return
		}
		var key string
		switch k := kv.Key.(type) {
		case *ast.BasicLit:
			key, _ = strconv.Unquote(k.Value)
		case *ast.Ident:
			ke, _, _, _ := findConstExpr(dir, k.Name)
			bl, ok := ke.(*ast.BasicLit)
			if !ok || bl.Kind != token.STRING {
				o.brokenDef(coqName, "map key "+k.Name+" is not a string constant")
				return
			}
			key, _ = strconv.Unquote(bl.Value)
		default:
			o.brokenDef(coqName, "unsupported map key "+printNode(p.fset, kv.Key))
			return
		}
		v, err := evalConst(dir, kv.Value, 0)
		if err != nil || v.isFloat {
			o.brokenDef(coqName, "map value not an integer")
			return
		}
		ents = append(ents, ent{key, v.i})
	}
	sort.Slice(ents, func(i, j int) bool { return ents[i].v < ents[j].v || (ents[i].v == ents[j].v && ents[i].k < ents[j].k) })
	var items, names []string
	for _, e := range ents {
		items = append(items, fmt.Sprintf("(%s, %d)", bytesLit([]byte(e.k)), e.v))
		names = append(names, fmt.Sprintf("%q:%d", e.k, e.v))
	}
	o.f("Definition %s : list (list Z * Z) := [%s]. (* %s.%s = {%s} *)\n", coqName, strings.Join(items, "; "), dir, goName, strings.Join(names, ", "))
}

// c09CallArgs: the argIdx-th argument (printed) of every call to callee in the function, mapped through classes
// (unknown → 99), in source order.
func c09CallArgs(o *out, dir, recv, name, coqName, callee string, argIdx int, classes map[string]int) {
	p, fd := findFunc(dir, recv, name)
	if fd == nil {
		o.brokenDef(coqName, "function "+dir+":"+recv+"."+name+" not found")
		return
	}
	var seq, names []string
	ast.Inspect(fd.Body, func(n ast.Node) bool {
		ce, ok := n.(*ast.CallExpr)
		if !ok || printNode(p.fset, ce.Fun) != callee || len(ce.Args) <= argIdx {
			return true
		}
		arg := printNode(p.fset, ce.Args[argIdx])
		code, ok := classes[arg]
		if !ok {
			code = 99
		}
		seq = append(seq, strconv.Itoa(code))
		names = append(names, arg)
		return true
	})
	if len(seq) == 0 {
		o.brokenDef(coqName, "no call to "+callee+" in "+dir+":"+recv+"."+name)
	}
	o.f("Definition %s : list Z := [%s]. (* %s:%s.%s : %s(... %s ...) *)\n", coqName, strings.Join(seq, "; "), dir, recv, name, callee, strings.Join(names, ", "))
}

// c09InLoop: is there a call to callee lexically inside a for/range statement of the function?
func c09InLoop(o *out, dir, recv, name, coqName, callee string) {
	p, fd := findFunc(dir, recv, name)
	if fd == nil {
		o.brokenDef(coqName, "function "+dir+":"+recv+"."+name+" not found")
		return
	}
	found := false
	var walk func(n ast.Node, inLoop bool)
	walk = func(n ast.Node, inLoop bool) {
		ast.Inspect(n, func(m ast.Node) bool {
			if m == n {
				return true
			}
			switch x := m.(type) {
			case *ast.ForStmt:
				walk(x.Body, true)
				return false
			case *ast.RangeStmt:
				walk(x.Body, true)
				return false
			case *ast.CallExpr:
				if inLoop && printNode(p.fset, x.Fun) == callee {
					found = true
				}
			}
			return true
		})
	}
	walk(fd.Body, false)
	o.f("Definition %s : bool := %v. (* %s:%s.%s calls %s inside its loop *)\n", coqName, found, dir, recv, name, callee)
}

// c09NoCall: true iff the function contains no call to a method or function named `name`.
func c09NoCall(o *out, dir, recv, fn, coqName, name string) {
	p, fd := findFunc(dir, recv, fn)
	if fd == nil {
		o.brokenDef(coqName, "function "+dir+":"+recv+"."+fn+" not found")
		return
	}
	found := false
	ast.Inspect(fd.Body, func(n ast.Node) bool {
		if ce, ok := n.(*ast.CallExpr); ok {
			callee := printNode(p.fset, ce.Fun)
			if callee == name || strings.HasSuffix(callee, "."+name) {
				found = true
			}
		}
		return true
	})
	o.f("Definition %s : bool := %v. (* %s:%s.%s makes no call to %s *)\n", coqName, !found, dir, recv, fn, name)
}

// ---------------------------------------------------------------------------------------------------------------------
// Error-flow translation: a Go function body (or the body of its k-th `go func(){...}()` literal) is translated into a
// value of the small statement language ef_stmt (declared in the generated file itself): calls whose error result
// is kept or dropped, assignments between error variables, if/else on `err == nil` / `err != nil` (any other condition is
// an opaque boolean the environment decides), defer (closure or call), return (naked or with a value) and named results.
// Everything that does not touch an error variable and is not a listed effect is skipped. Loops, switches, labels and
// branches are not supported (broken tie). The model interprets the program (C09/Upload.v exec_fn), so a reordered Close,
// an error overwritten in a deferred closure, a dropped `if err == nil` guard or a CloseWithError(nil) changes the theorem.
type efSpec struct {
	dir, recv, name string
	goLit           int  // -1: the function body; k >= 0: body of the k-th go-statement function literal
	anyLit          bool // with goLit = k: the k-th function literal of any kind (a returned handler closure)
	coqName         string
	effects         map[string]int // printed callee -> effect code (99 = unknown effect whose error result is used)
}

type efTr struct {
	p      *pkgInfo
	sp     efSpec
	vars   map[interface{}]int
	names  []string
	opaque []string
	err    error
	fresh  int
}

// error variables are recognised by name: err, err2, cerr, closeErr ... (not the package `errors`, not exported sentinels)
func efIsErrName(n string) bool {
	if n == "" || n == "errors" || (n[0] >= 'A' && n[0] <= 'Z') {
		return false
	}
	return strings.Contains(strings.ToLower(n), "err")
}

func (t *efTr) varOf(id *ast.Ident) int {
	var key interface{} = id.Name
	if id.Obj != nil {
		key = id.Obj
	}
	if v, ok := t.vars[key]; ok {
		return v
	}
	v := len(t.names)
	t.vars[key] = v
	t.names = append(t.names, id.Name)
	return v
}

func (t *efTr) failf(format string, a ...interface{}) string {
	if t.err == nil {
		t.err = fmt.Errorf(format, a...)
	}
	return "[]"
}

// error-valued expression, or "" when the expression is not one the language tracks
func (t *efTr) eexpr(e ast.Expr) string {
	switch x := e.(type) {
	case *ast.ParenExpr:
		return t.eexpr(x.X)
	case *ast.Ident:
		if x.Name == "nil" {
			return "ENil"
		}
		if efIsErrName(x.Name) {
			return fmt.Sprintf("EVar %d", t.varOf(x))
		}
	}
	return ""
}

func (t *efTr) cond(e ast.Expr) string {
	switch x := e.(type) {
	case *ast.ParenExpr:
		return t.cond(x.X)
	case *ast.UnaryExpr:
		if x.Op == token.NOT {
			return "(CNot " + t.cond(x.X) + ")"
		}
	case *ast.BinaryExpr:
		switch x.Op {
		case token.LAND:
			return "(CAnd " + t.cond(x.X) + " " + t.cond(x.Y) + ")"
		case token.LOR:
			return "(COr " + t.cond(x.X) + " " + t.cond(x.Y) + ")"
		case token.EQL, token.NEQ:
			a, b := t.eexpr(x.X), t.eexpr(x.Y)
			if a == "ENil" && strings.HasPrefix(b, "EVar") {
				a, b = b, a
			}
			if strings.HasPrefix(a, "EVar") && b == "ENil" {
				if x.Op == token.EQL {
					return "(CNil " + a[5:] + ")"
				}
				return "(CNotNil " + a[5:] + ")"
			}
			// comparison with a sentinel error (ErrFoo / pkg.ErrFoo): equal implies non-nil; which sentinel is opaque
			sentinel := func(e ast.Expr) bool {
				n := printNode(t.p.fset, e)
				if k := strings.LastIndex(n, "."); k >= 0 {
					n = n[k+1:]
				}
				return strings.HasPrefix(n, "Err") || n == "EOF"
			}
			if a == "" && strings.HasPrefix(b, "EVar") && sentinel(x.X) {
				a, b = b, a
				x = &ast.BinaryExpr{X: x.Y, Op: x.Op, Y: x.X}
			}
			if strings.HasPrefix(a, "EVar") && b == "" && sentinel(x.Y) {
				c := "(CAnd (CNotNil " + a[5:] + ") " + t.opaqueOf(e) + ")"
				if x.Op == token.NEQ {
					return "(CNot " + c + ")"
				}
				return c
			}
		}
	}
	return t.opaqueOf(e)
}

func (t *efTr) opaqueOf(e ast.Expr) string {
	txt := strings.Join(strings.Fields(printNode(t.p.fset, e)), " ")
	for i, o := range t.opaque {
		if o == txt {
			return fmt.Sprintf("(COpaque %d)", i)
		}
	}
	t.opaque = append(t.opaque, txt)
	return fmt.Sprintf("(COpaque %d)", len(t.opaque)-1)
}

func (t *efTr) call(dst int, ce *ast.CallExpr) string {
	callee := printNode(t.p.fset, ce.Fun)
	code, ok := t.sp.effects[callee]
	if !ok {
		if dst < 0 {
			return "" // not an effect the model tracks and its error (if any) is not kept
		}
		if strings.HasPrefix(callee, "errors.New") || strings.HasPrefix(callee, "fmt.Errorf") {
			return fmt.Sprintf("EfSet %d (EConst 1)", dst)
		}
		code = 99
	}
	var args []string
	for _, a := range ce.Args {
		if s := t.eexpr(a); s != "" {
			args = append(args, s)
		}
	}
	d := fmt.Sprintf("%d", dst)
	if dst < 0 {
		d = "(-1)"
	}
	return fmt.Sprintf("EfCall %s %d [%s]", d, code, strings.Join(args, "; "))
}

func (t *efTr) block(list []ast.Stmt) string {
	var out []string
	for _, s := range list {
		out = append(out, t.stmt(s)...)
	}
	return "[" + strings.Join(out, "; ") + "]"
}

func (t *efTr) stmt(s ast.Stmt) []string {
	switch x := s.(type) {
	case *ast.BlockStmt:
		var out []string
		for _, y := range x.List {
			out = append(out, t.stmt(y)...)
		}
		return out
	case *ast.AssignStmt:
		dst := -1
		for _, l := range x.Lhs {
			if id, ok := l.(*ast.Ident); ok && efIsErrName(id.Name) {
				dst = t.varOf(id)
			}
		}
		if len(x.Rhs) == 1 {
			if ce, ok := x.Rhs[0].(*ast.CallExpr); ok {
				if c := t.call(dst, ce); c != "" {
					return []string{c}
				}
				return nil
			}
		}
		if dst >= 0 && len(x.Lhs) == 1 && len(x.Rhs) == 1 {
			if e := t.eexpr(x.Rhs[0]); e != "" {
				return []string{fmt.Sprintf("EfSet %d (%s)", dst, e)}
			}
			return []string{fmt.Sprintf("EfSet %d (EConst 1)", dst)}
		}
		if dst >= 0 {
			t.failf("unsupported assignment to an error variable: %s", printNode(t.p.fset, s))
		}
		return nil
	case *ast.ExprStmt:
		if ce, ok := x.X.(*ast.CallExpr); ok {
			if c := t.call(-1, ce); c != "" {
				return []string{c}
			}
		}
		return nil
	case *ast.IfStmt:
		var out []string
		if x.Init != nil {
			out = append(out, t.stmt(x.Init)...)
		}
		c := t.cond(x.Cond)
		th := t.block(x.Body.List)
		el := "[]"
		switch e := x.Else.(type) {
		case *ast.BlockStmt:
			el = t.block(e.List)
		case *ast.IfStmt:
			el = "[" + strings.Join(t.stmt(e), "; ") + "]"
		}
		if th == "[]" && el == "[]" && strings.HasPrefix(c, "(COpaque") {
			return out // a branch without any tracked effect
		}
		return append(out, fmt.Sprintf("EfIf %s %s %s", c, th, el))
	case *ast.ReturnStmt:
		if len(x.Results) == 0 {
			return []string{"EfReturn None"}
		}
		last := x.Results[len(x.Results)-1]
		if e := t.eexpr(last); e != "" {
			return []string{fmt.Sprintf("EfReturn (Some (%s))", e)}
		}
		if ce, ok := last.(*ast.CallExpr); ok {
			t.fresh++
			tmp := len(t.names)
			t.names = append(t.names, fmt.Sprintf("ret%d", t.fresh))
			if c := t.call(tmp, ce); c != "" {
				return []string{c, fmt.Sprintf("EfReturn (Some (EVar %d))", tmp)}
			}
		}
		return []string{"EfReturn (Some (EConst 1))"}
	case *ast.DeferStmt:
		if fl, ok := x.Call.Fun.(*ast.FuncLit); ok {
			body := t.block(fl.Body.List)
			if strings.Contains(body, "EfDefer") {
				t.failf("defer inside a deferred closure")
			}
			return []string{"EfDefer " + body}
		}
		if c := t.call(-1, x.Call); c != "" {
			return []string{"EfDefer [" + c + "]"}
		}
		return nil
	case *ast.GoStmt:
		return nil // translated on its own (goLit)
	case *ast.DeclStmt, *ast.IncDecStmt, *ast.EmptyStmt:
		return nil
	}
	t.failf("unsupported statement in an error-flow function: %T", s)
	return nil
}

func c09ErrFlow(o *out, sp efSpec) {
	p, fd := findFunc(sp.dir, sp.recv, sp.name)
	if fd == nil {
		o.brokenDef(sp.coqName, "function "+sp.dir+":"+sp.recv+"."+sp.name+" not found")
		return
	}
	t := &efTr{p: p, sp: sp, vars: map[interface{}]int{}}
	body := fd.Body
	named := -1
	if sp.goLit >= 0 {
		k := 0
		var lit *ast.FuncLit
		ast.Inspect(fd.Body, func(n ast.Node) bool {
			if fl, ok := n.(*ast.FuncLit); ok && sp.anyLit {
				if k == sp.goLit && lit == nil {
					lit = fl
				}
				k++
			}
			if gs, ok := n.(*ast.GoStmt); ok && !sp.anyLit {
				if fl, ok := gs.Call.Fun.(*ast.FuncLit); ok {
					if k == sp.goLit && lit == nil {
						lit = fl
					}
					k++
				}
			}
			return true
		})
		if lit == nil {
			o.brokenDef(sp.coqName, fmt.Sprintf("no go-statement function literal #%d in %s", sp.goLit, sp.name))
			return
		}
		body = lit.Body
	} else if fd.Type.Results != nil {
		for _, f := range fd.Type.Results.List {
			if id, ok := f.Type.(*ast.Ident); ok && id.Name == "error" {
				for _, n := range f.Names {
					named = t.varOf(n)
				}
			}
		}
	}
	prog := t.block(body.List)
	if t.err != nil {
		o.brokenDef(sp.coqName, t.err.Error())
		return
	}
	var vn []string
	for i, n := range t.names {
		vn = append(vn, fmt.Sprintf("%d=%s", i, n))
	}
	var en []string
	for k, v := range sp.effects {
		en = append(en, fmt.Sprintf("%d=%s", v, k))
	}
	sort.Strings(en)
	var on []string
	for i, c := range t.opaque {
		on = append(on, fmt.Sprintf("%d=`%s`", i, c))
	}
	where := sp.dir + ":" + sp.recv + "." + sp.name
	if sp.goLit >= 0 {
		where += fmt.Sprintf(" (function literal #%d)", sp.goLit)
	}
	o.f("(* error flow of %s ; variables %s ; effects %s ; opaque conditions %s *)\n", where, strings.Join(vn, " "), strings.Join(en, " "), strings.Join(on, " "))
	o.f("Definition %s : list ef_stmt :=\n  %s.\n", sp.coqName, prog)
	if named < 0 {
		o.f("Definition %s_result : Z := (-2). (* unnamed error result: deferred closures cannot change it *)\n", sp.coqName)
	} else {
		o.f("Definition %s_result : Z := %d. (* named error result *)\n", sp.coqName, named)
	}
}

const efPreamble = `(* the statement language of the error-flow translation (see c09ErrFlow in gen_c09.go) *)
Inductive ef_expr := ENil | EVar (v : Z) | EConst (k : Z).
Inductive ef_cond := CNil (v : Z) | CNotNil (v : Z) | CAnd (a b : ef_cond) | COr (a b : ef_cond) | CNot (a : ef_cond) | COpaque (k : Z).
Inductive ef_stmt :=
| EfCall (dst fn : Z) (args : list ef_expr)
| EfSet (dst : Z) (e : ef_expr)
| EfIf (c : ef_cond) (th el : list ef_stmt)
| EfDefer (body : list ef_stmt)
| EfReturn (e : option ef_expr).
`

// c09SwitchKinds: a function whose body is one `switch <tag> { case consts...: return ctor(...), ... }` over string
// constants: emits the decision "which constructor does this encoding select" as a Gallina function of the tag, the
// constructors being mapped to small integers through classes (a result that is not a listed constructor call maps to -1).
func c09SwitchKinds(o *out, dir, name, coqName string, classes map[string]int) {
	p, fd := findFunc(dir, "", name)
	if fd == nil {
		o.brokenDef(coqName, "function "+dir+":."+name+" not found")
		return
	}
	var sw *ast.SwitchStmt
	for _, s := range fd.Body.List {
		if x, ok := s.(*ast.SwitchStmt); ok && sw == nil {
			sw = x
		}
	}
	if sw == nil || sw.Tag == nil || len(fd.Body.List) != 1 {
		o.brokenDef(coqName, name+" is no longer a single switch over the encoding")
		return
	}
	kindOf := func(body []ast.Stmt) (int, string, bool) {
		if len(body) != 1 {
			return 0, "", false
		}
		rs, ok := body[0].(*ast.ReturnStmt)
		if !ok || len(rs.Results) == 0 {
			return 0, "", false
		}
		txt := printNode(p.fset, rs.Results[0])
		var callee string
		switch r := rs.Results[0].(type) {
		case *ast.CallExpr:
			callee = printNode(p.fset, r.Fun)
		case *ast.CompositeLit:
			callee = printNode(p.fset, r.Type)
		default:
			callee = txt
		}
		if k, ok := classes[callee]; ok {
			return k, callee, true
		}
		return -1, callee, true
	}
	res := ""
	var arms []string
	var clauses []*ast.CaseClause
	for _, c := range sw.Body.List {
		cc := c.(*ast.CaseClause)
		if cc.List == nil {
			k, callee, ok := kindOf(cc.Body)
			if !ok {
				o.brokenDef(coqName, "default arm of "+name+" is not a single return")
				return
			}
			res = fmt.Sprintf("(%d)", k)
			arms = append(arms, "default→"+callee)
		} else {
			clauses = append(clauses, cc)
		}
	}
	if res == "" {
		o.brokenDef(coqName, name+" has no default arm")
		return
	}
	for i := len(clauses) - 1; i >= 0; i-- {
		cc := clauses[i]
		k, callee, ok := kindOf(cc.Body)
		if !ok {
			o.brokenDef(coqName, "an arm of "+name+" is not a single return")
			return
		}
		var conds, labels []string
		for _, ce := range cc.List {
			var lit string
			switch v := ce.(type) {
			case *ast.BasicLit:
				lit, _ = strconv.Unquote(v.Value)
			case *ast.Ident:
				ke, _, _, _ := findConstExpr(dir, v.Name)
				bl, ok := ke.(*ast.BasicLit)
				if !ok || bl.Kind != token.STRING {
					o.brokenDef(coqName, "case label "+v.Name+" is not a string constant")
					return
				}
				lit, _ = strconv.Unquote(bl.Value)
			default:
				o.brokenDef(coqName, "unsupported case label "+printNode(p.fset, ce))
				return
			}
			conds = append(conds, "bytes_eqb enc "+bytesLit([]byte(lit)))
			labels = append(labels, strconv.Quote(lit))
		}
		res = fmt.Sprintf("(if %s then %d else %s)", strings.Join(conds, " || "), k, res)
		arms = append([]string{strings.Join(labels, ",") + "→" + callee}, arms...)
	}
	o.f("Definition %s (enc : list Z) : Z :=\n  %s.\n(* from %s:.%s : %s *)\n", coqName, res, dir, name, strings.Join(arms, " ; "))
}

func init() {
	generators["C09_gen"] = func(o *out) {
		// ------------------------------------------------------------ APK merkle hasher
		const apk = "signers/apk"
		o.constInt(apk, "merkleBlock", "merkleBlock")
		ml := map[string]string{"h.n": "n", "len(d)": "dlen", "merkleBlock": "blk", "inz.DirLoc": "dirloc"}
		wr := funcSpec{dir: apk, recv: "merkleHasher", name: "Write", leaves: ml}
		wr.coqName, wr.params, wr.retType = "merkle_complete_cond", "(blk n dlen : Z)", "bool"
		o.condOf(wr, "if:h.n", 0)
		wr.coqName, wr.params = "merkle_direct_cond", "(blk dlen : Z)"
		o.condOf(wr, "for:len(d)", 0)
		wr.coqName, wr.params = "merkle_save_cond", "(dlen : Z)"
		o.condOf(wr, "if:len(d)", 1)
		o.condOf(funcSpec{dir: apk, recv: "merkleHasher", name: "flush", coqName: "merkle_flush_cond", params: "(n : Z)", retType: "bool", leaves: ml}, "if:h.n", 0)
		o.exprOfAssign(funcSpec{dir: apk, recv: "merkleHasher", name: "block", coqName: "merkle_block_prefix", params: "", retType: "Z", leaves: ml}, "pref[0]", 0)
		fin := funcSpec{dir: apk, recv: "merkleHasher", name: "Finish", leaves: ml}
		c09BitLeaves(o, fin)
		fin.coqName, fin.params, fin.retType = "merkle_top_prefix", "", "Z"
		o.exprOfAssign(fin, "pref[0]", 0)
		fin.coqName, fin.params, fin.retType = "merkle_zip64_cond", "(dirloc : Z)", "bool"
		o.condOf(fin, "if:inz.DirLoc", 0)
		// index into [h.flush h.Write master.Write]
		o.callOrder(apk, "merkleHasher", "Finish", "finish_calls", []string{"h.flush", "h.Write", "master.Write"})
		c09CallArgs(o, apk, "merkleHasher", "Finish", "finish_write_args", "h.Write", 0, map[string]int{"cdirEntries": 0, "endOfDir": 1})
		for _, fn := range []string{"Write", "flush", "Finish", "block"} {
			fingerprint(apk, "merkleHasher", fn)
		}
		fingerprint(apk, "", "digestApkStream")
		fingerprint(apk, "", "newMerkleHasher")

		// ------------------------------------------------------------ AppX block map
		const appx = "lib/signappx"
		o.constInt(appx, "blockMapSize", "blockMapSize")
		o.condOf(funcSpec{dir: appx, recv: "blockMap", name: "AddFile", coqName: "bm_block_cond", params: "(n : Z)", retType: "bool",
			leaves: map[string]string{"n": "n"}}, "if:n ", 0)
		o.condOf(funcSpec{dir: appx, recv: "", name: "verifyBlockMap", coqName: "bm_count_bad", params: "(nblocks usize : Z)", retType: "bool",
			leaves: map[string]string{"len(bmf.Block)": "nblocks", "zf.UncompressedSize64": "usize"}}, "if:len(bmf.Block)", 0)
		o.condOf(funcSpec{dir: appx, recv: "", name: "verifyBlockMap", coqName: "bm_verify_clip", params: "(count : Z)", retType: "bool",
			leaves: map[string]string{"count": "count"}}, "if:count", 0)
		c09CallArgs(o, appx, "blockMap", "AddFile", "bm_copyn_limit", "io.CopyN", 2, map[string]int{"blockMapSize": 0})
		fingerprint(appx, "blockMap", "AddFile")
		fingerprint(appx, "", "verifyBlockMap")

		// ------------------------------------------------------------ PE image hasher
		const ac = "lib/authenticode"
		o.constInt(ac, "dosHeaderSize", "dosHeaderSize")
		pl := map[string]string{"remaining": "remaining", "n": "n", "len(h.pageBuf)": "pagesz", "len(h.zeroPage)": "pagesz",
			"len(blob)": "bloblen", "removed": "removed", "origSize": "orig"}
		o.condOf(funcSpec{dir: ac, recv: "imageHasher", name: "section", coqName: "pe_sec_loop_cond", params: "(remaining : Z)", retType: "bool", leaves: pl}, "for:remaining", 0)
		o.condOf(funcSpec{dir: ac, recv: "imageHasher", name: "section", coqName: "pe_sec_clip_cond", params: "(n pagesz : Z)", retType: "bool", leaves: pl}, "if:len(h.pageBuf)", 0)
		o.condOf(funcSpec{dir: ac, recv: "imageHasher", name: "section", coqName: "pe_sec_plain_cond", params: "(do_page_hash : bool)", retType: "bool",
			leaves: map[string]string{"h.doPageHash": "do_page_hash"}, types: map[string]string{"h.doPageHash": "bool"}}, "if:h.doPageHash", 0)
		o.condOf(funcSpec{dir: ac, recv: "imageHasher", name: "addPageHash", coqName: "pe_null_page_cond", params: "(bloblen : Z)", retType: "bool", leaves: pl}, "if:len(blob)", 0)
		o.exprOfAssign(funcSpec{dir: ac, recv: "imageHasher", name: "addPageHash", coqName: "pe_needzero", params: "(pagesz bloblen removed : Z)", retType: "Z", leaves: pl}, "needzero", 0)
		o.exprOfAssign(funcSpec{dir: ac, recv: "", name: "DigestPE", coqName: "pe_tail_rem", params: "(orig : Z)", retType: "Z", leaves: pl}, "n", 0)
		o.exprOfAssign(funcSpec{dir: ac, recv: "", name: "DigestPE", coqName: "pe_tail_padding", params: "(n : Z)", retType: "Z", leaves: pl}, "padding", 0)
		for _, fn := range []string{"section", "addPageHash", "finish"} {
			fingerprint(ac, "imageHasher", fn)
		}
		for _, fn := range []string{"DigestPE", "setupDigester", "readTrailer", "readSections", "readOptHeader"} {
			fingerprint(ac, "", fn)
		}

		// ------------------------------------------------------------ PE checksum
		kl := map[string]string{"peStart": "pe_start", "h.odd": "odd", "n": "n", "h.cksumPos": "ckpos", "h.pos": "pos", "i": "i", "abs": "abs",
			"d[i+1]": "hi", "d[i]": "lo", "sum": "sum", "h.size": "size"}
		kt := map[string]string{"h.odd": "bool"}
		o.condOf(funcSpec{dir: ac, recv: "", name: "NewPEChecksum", coqName: "ck_new_none_cond", params: "(pe_start : Z)", retType: "bool", leaves: kl, types: kt}, "if:peStart", 0)
		o.exprOfAssign(funcSpec{dir: ac, recv: "", name: "NewPEChecksum", coqName: "ck_new_pos", params: "(pe_start : Z)", retType: "Z", leaves: kl, types: kt}, "cksumPos", 1)
		kw := funcSpec{dir: ac, recv: "peChecksum", name: "Write", leaves: kl, types: kt, retType: "bool"}
		c09BitLeaves(o, kw)
		kw.coqName, kw.params = "ck_odd_err_cond", "(odd : bool)"
		o.condOf(kw, "if:h.odd", 0)
		kw.coqName, kw.params = "ck_write_odd_cond", "(n : Z)"
		o.condOf(kw, "if:n%2", 0)
		kw.coqName, kw.params = "ck_zero_cond", "(abs ckpos : Z)"
		o.condOf(kw, "if:h.cksumPos", 0)
		kw.coqName, kw.params = "ck_loop_cond", "(i n : Z)"
		o.condOf(kw, "for:i", 0)
		kw.retType = "Z"
		kw.coqName, kw.params = "ck_abs", "(pos i : Z)"
		o.exprOfAssign(kw, "abs", 0)
		kw.coqName, kw.params = "ck_word", "(lo hi : Z)"
		o.exprOfAssign(kw, "val", 0)
		kw.coqName, kw.params = "ck_fold", "(sum : Z)"
		o.exprOfAssign(kw, "sum", 2)
		kw.coqName, kw.params = "ck_pos_advance", "(n : Z)"
		o.exprOfAssign(kw, "h.pos", 0)
		ks := funcSpec{dir: ac, recv: "peChecksum", name: "Sum", leaves: kl, types: kt, retType: "Z", coqName: "ck_final_fold", params: "(sum : Z)"}
		c09BitLeaves(o, ks)
		o.exprOfAssign(ks, "sum", 1)
		for _, fn := range []string{"Write", "Sum", "Reset"} {
			fingerprint(ac, "peChecksum", fn)
		}
		fingerprint(ac, "", "NewPEChecksum")
		fingerprint(ac, "", "FixPEChecksum")

		// ------------------------------------------------------------ Mach-O code directory pages
		const cs = "lib/fruit/csblob"
		o.constInt(cs, "defaultPageSizeLog2", "cs_page_log2")
		o.condOf(funcSpec{dir: cs, recv: "", name: "hashPages", coqName: "hp_stop_cond", params: "(n : Z)", retType: "bool",
			leaves: map[string]string{"n": "n"}}, "if:n ", 0)
		fingerprint(cs, "", "hashPages")

		// ------------------------------------------------------------ tar framing of zip uploads
		const zs = "lib/zipslicer"
		o.constString(zs, "TarMemberCD", "tar_member_cd")
		o.constString(zs, "TarMemberZip", "tar_member_zip")
		// members in the order ZipToTar emits them / ReadZipTar expects them: 0 = central directory, 1 = whole zip; each is
		// read through io.NewSectionReader(r, offset, length) (positioned reads: no shared file offset)
		c09CallArgs(o, zs, "", "ZipToTarTrailer", "ziptotar_members", "tarAddStream", 2, map[string]int{"TarMemberCD": 0, "TarMemberZip": 1})
		c09CallArgs(o, zs, "", "ZipToTarTrailer", "ziptotar_sizes", "tarAddStream", 3, map[string]int{"size - dirLoc": 0, "size": 1})
		c09CallArgs(o, zs, "", "ZipToTarTrailer", "ziptotar_offsets", "io.NewSectionReader", 1, map[string]int{"0": 0, "dirLoc": 1})
		c09CallArgs(o, zs, "", "ZipToTarTrailer", "ziptotar_lengths", "io.NewSectionReader", 2, map[string]int{"size - dirLoc": 0, "size": 1})
		c09NoCall(o, zs, "", "ZipToTarTrailer", "ziptotar_no_seek", "Seek")
		// ZipToTar = ZipToTarTrailer with a zero-length trailer (argument class 0 = literal 0)
		c09CallArgs(o, zs, "", "ZipToTar", "ziptotar_trailer_arg", "ZipToTarTrailer", 2, map[string]int{"0": 0})
		c09NoCall(o, zs, "", "tarAddStream", "taraddstream_no_seek", "Seek")
		c09NoCall(o, "signers/macho", "transformer", "send", "macho_send_no_seek", "Seek")
		c09NoCall(o, "signers/dmg", "transformer", "send", "dmg_send_no_seek", "Seek")
		c09NoCall(o, ac, "", "MsiToTar", "msitotar_no_seek", "Seek")
		o.condOf(funcSpec{dir: zs, recv: "", name: "ReadZipTar", coqName: "readziptar_first_bad", params: "(name : bytes)", retType: "bool",
			leaves: map[string]string{"hdr.Name": "name", "TarMemberCD": "tar_member_cd", "TarMemberZip": "tar_member_zip", "err != nil": "false"},
			types:  map[string]string{"hdr.Name": "bytes", "TarMemberCD": "bytes", "TarMemberZip": "bytes", "err != nil": "bool"}}, "if:hdr.Name", 0)
		o.condOf(funcSpec{dir: zs, recv: "", name: "ReadZipTar", coqName: "readziptar_second_bad", params: "(name : bytes)", retType: "bool",
			leaves: map[string]string{"hdr.Name": "name", "TarMemberCD": "tar_member_cd", "TarMemberZip": "tar_member_zip", "err != nil": "false"},
			types:  map[string]string{"hdr.Name": "bytes", "TarMemberCD": "bytes", "TarMemberZip": "bytes", "err != nil": "bool"}}, "if:hdr.Name", 1)
		for _, fn := range []string{"ZipToTar", "ZipToTarTrailer", "tarAddStream", "ReadZipTar"} {
			fingerprint(zs, "", fn)
		}
		fingerprint(zs, "zipTarReader", "Read")
		fingerprint("signers", "fileProducer", "GetReader")
		fingerprint("signers/zipbased", "zipTransformer", "GetReader")
		fingerprint("signers/msi", "msiTransformer", "GetReader")
		fingerprint("signers/macho", "transformer", "send")
		fingerprint("signers/dmg", "transformer", "send")
		fingerprint(ac, "", "MsiToTar")
		fingerprint(ac, "", "DigestMsiTar")
		o.hasStmt("signers", "fileProducer", "GetReader", "return p.f, nil", "fileproducer_returns_file")
		c09CallArgs(o, "signers", "fileProducer", "GetReader", "fileproducer_seek", "p.f.Seek", 0, map[string]int{"0": 0})

		// ------------------------------------------------------------ client transport
		const rc = "cmdline/remotecmd"
		dl := map[string]string{"len(bases)": "nbases", "minAttempts": "min_attempts", "len(repeated)": "nrep",
			"response.StatusCode": "code", "response != nil": "has_resp", `encodings != ""`: "has_enc",
			"httperror.Temporary(err)": "temporary", "i": "i", `encoding != ""`: "has_enc"}
		dt := map[string]string{"response != nil": "bool", `encodings != ""`: "bool", "httperror.Temporary(err)": "bool", `encoding != ""`: "bool"}
		dr := funcSpec{dir: rc, recv: "client", name: "doRequest", leaves: dl, types: dt, retType: "bool"}
		dr.coqName, dr.params = "dr_repeat_cond", "(nbases min_attempts : Z)"
		o.condOf(dr, "if:minAttempts", 0)
		dr.coqName, dr.params = "dr_repeat_loop_cond", "(nrep min_attempts : Z)"
		o.condOf(dr, "for:minAttempts", 0)
		dr.coqName, dr.params = "dr_success_cond", "(code : Z)"
		o.condOf(dr, "if:response.StatusCode", 0)
		dr.coqName, dr.params = "dr_fallback_cond", "(has_resp : bool) (code : Z) (has_enc : bool)"
		o.condOf(dr, "if:response.StatusCode", 1)
		dr.coqName, dr.params = "dr_next_cond", "(temporary : bool) (i nbases : Z)"
		o.condOf(dr, "if:httperror.Temporary", 0)
		o.hasStmt(rc, "client", "doRequest", "goto loop", "dr_fallback_restarts")
		o.hasStmt(rc, "client", "doRequest", `encodings = ""`, "dr_fallback_clears_encoding")
		o.hasStmt(rc, "client", "doRequest", "break loop", "dr_success_breaks")
		// index into [cli.buildRequest cli.cli.Do request.Body.Close httperror.FromResponse compresshttp.DecompressResponse]
		o.callOrder(rc, "client", "doRequest", "dr_calls", []string{"cli.buildRequest", "cli.cli.Do", "request.Body.Close", "httperror.FromResponse", "compresshttp.DecompressResponse"})
		c09InLoop(o, rc, "client", "doRequest", "dr_builds_request_per_attempt", "cli.buildRequest")
		// index into [bodyFile.GetReader compresshttp.CompressRequest]
		o.callOrder(rc, "client", "buildRequest", "br_calls", []string{"bodyFile.GetReader", "compresshttp.CompressRequest"})
		o.condOf(funcSpec{dir: rc, recv: "client", name: "buildRequest", coqName: "br_send_accept_cond", params: "(has_enc : bool)", retType: "bool", leaves: dl, types: dt}, "if:encoding", 0)
		fingerprint(rc, "client", "doRequest")
		fingerprint(rc, "client", "buildRequest")
		fingerprint(rc, "client", "getDirectory")
		fingerprint(rc, "", "CallRemote")
		const he = "internal/httperror"
		o.decisionFunc(funcSpec{dir: he, recv: "", name: "statusIsTemporary", coqName: "status_is_temporary",
			params: "(code : Z)", retType: "bool", leaves: map[string]string{"code": "code"}})
		fingerprint(he, "", "Temporary")
		fingerprint(he, "", "FromResponse")

		// ------------------------------------------------------------ compression negotiation
		const ch = "lib/compresshttp"
		o.constString(ch, "EncodingIdentity", "enc_identity")
		o.constString(ch, "EncodingGzip", "enc_gzip")
		o.constString(ch, "EncodingSnappy", "enc_snappy")
		c09IntMap(o, ch, "prefs", "enc_prefs")
		o.condOf(funcSpec{dir: ch, recv: "", name: "selectEncoding", coqName: "sel_better_cond", params: "(p2 pref : Z)", retType: "bool",
			leaves: map[string]string{"p2": "p2", "pref": "pref"}}, "if:pref", 0)
		o.condOf(funcSpec{dir: ch, recv: "", name: "CompressRequest", coqName: "creq_plain_cond", params: "(enc : bytes)", retType: "bool",
			leaves: map[string]string{"encoding": "enc"}, types: map[string]string{"encoding": "bytes"}}, "if:encoding", 0)
		o.condOf(funcSpec{dir: ch, recv: "responseCompressor", name: "WriteHeader", coqName: "resp_no_compress_cond", params: "(status : Z)", retType: "bool",
			leaves: map[string]string{"status": "status"}}, "if:status", 0)
		for _, fn := range []string{"selectEncoding", "setupCompression", "compress", "decompress", "CompressRequest", "DecompressRequest", "CompressResponse", "DecompressResponse", "Middleware"} {
			fingerprint(ch, "", fn)
		}
		fingerprint("server", "Server", "serveSign")

		// ------------------------------------------------------------ error propagation of the upload path
		o.f("\n%s\n", efPreamble)
		// effects: 0 setupCompression  1 io.Copy(compr, r)  2 compr.Close
		c09ErrFlow(o, efSpec{dir: ch, name: "compress", goLit: -1, coqName: "compress_prog",
			effects: map[string]int{"setupCompression": 0, "io.Copy": 1, "compr.Close": 2}})
		// effects: 0 compress  1 plain.Close  2 pw.CloseWithError(arg)  3 pw.Close
		c09ErrFlow(o, efSpec{dir: ch, name: "CompressRequest", goLit: 0, coqName: "creq_goroutine_prog",
			effects: map[string]int{"compress": 0, "plain.Close": 1, "pw.CloseWithError": 2, "pw.Close": 3}})
		// the outer function: what it returns (no tracked effects: the wiring is checked by the statement facts below)
		c09ErrFlow(o, efSpec{dir: ch, name: "CompressRequest", goLit: -1, coqName: "creq_outer_prog", effects: map[string]int{}})
		o.hasStmt(ch, "", "CompressRequest", "pr, pw := io.Pipe()", "creq_uses_pipe")
		o.hasStmt(ch, "", "CompressRequest", "request.Body = alsoClose{ReadCloser: pr, also: plain}", "creq_body_is_pipe_reader")
		o.hasStmt(ch, "", "CompressRequest", "plain := &readBlocker{Reader: request.Body}", "creq_source_is_request_body")
		o.hasStmt(ch, "", "CompressRequest", "request.Header.Set(contentEncoding, encoding)", "creq_sets_content_encoding")
		// effects: 0 decompress  1 request.Body replaced by the decoder (ioutil.NopCloser(r))
		c09ErrFlow(o, efSpec{dir: ch, name: "DecompressRequest", goLit: -1, coqName: "dreq_prog", effects: map[string]int{"decompress": 0, "ioutil.NopCloser": 1, "io.NopCloser": 1}})
		o.hasStmt(ch, "", "DecompressRequest", "request.Body = ioutil.NopCloser(r)", "dreq_body_is_decoder")
		// effects: 0 DecompressRequest  1 http.Error  2 next.ServeHTTP  3 wrapped.Close
		c09ErrFlow(o, efSpec{dir: ch, name: "Middleware", goLit: 0, anyLit: true, coqName: "middleware_prog",
			effects: map[string]int{"DecompressRequest": 0, "http.Error": 1, "next.ServeHTTP": 2, "wrapped.Close": 3}})
		// which codec an encoding selects on either side: 0 pass-through, 1 gzip, 2 snappy-framed, -1 refused
		c09SwitchKinds(o, ch, "setupCompression", "setup_kind", map[string]int{"nopCloseWriter": 0, "gzip.NewWriterLevel": 1, "snappy.NewBufferedWriter": 2})
		c09SwitchKinds(o, ch, "decompress", "decompress_kind", map[string]int{"ioutil.NopCloser": 0, "io.NopCloser": 0, "gzip.NewReader": 1, "snappy.NewReader": 2})
		// the client: buildRequest's error flow. effects: 0 http.NewRequest 1 request.URL.Parse 2 cli.tokenSource.Token 3 bodyFile.GetReader 4 compresshttp.CompressRequest
		c09ErrFlow(o, efSpec{dir: rc, recv: "client", name: "buildRequest", goLit: -1, coqName: "br_prog",
			effects: map[string]int{"http.NewRequest": 0, "request.URL.Parse": 1, "cli.tokenSource.Token": 2, "bodyFile.GetReader": 3, "compresshttp.CompressRequest": 4}})
		o.hasStmt(rc, "client", "buildRequest", "request.Body = io.NopCloser(stream)", "br_body_is_stream")
		o.hasStmt(rc, "client", "doRequest", "if err != nil { return nil, err }", "dr_build_error_returns")
		o.hasStmt(rc, "client", "doRequest", "err = httperror.FromResponse(response)", "dr_status_becomes_error")
		// every pipe-backed transform hands its producer's error to the pipe: argument class 0 = the producer call itself
		c09CallArgs(o, "signers/zipbased", "zipTransformer", "GetReader", "zip_producer_close", "w.CloseWithError", 0, map[string]int{"zipslicer.ZipToTar(t.f, w)": 0})
		c09CallArgs(o, "signers/msi", "msiTransformer", "GetReader", "msi_producer_close", "w.CloseWithError", 0, map[string]int{"authenticode.MsiToTar(t.cdf, w)": 0})
		c09CallArgs(o, "signers/macho", "transformer", "GetReader", "macho_producer_close", "w.CloseWithError", 0, map[string]int{"t.send(w)": 0})
		c09CallArgs(o, "signers/dmg", "transformer", "GetReader", "dmg_producer_close", "w.CloseWithError", 0, map[string]int{"t.send(w)": 0})
		// effects: 0 tw.WriteHeader 1 io.CopyN
		c09ErrFlow(o, efSpec{dir: zs, name: "tarAddStream", goLit: -1, coqName: "taraddstream_prog", effects: map[string]int{"tw.WriteHeader": 0, "io.CopyN": 1}})
		fingerprint(ch, "readBlocker", "Read")
		fingerprint(ch, "readBlocker", "Close")
		fingerprint(ch, "alsoClose", "Close")
	}
}
