package main

import (
	"fmt"
	"go/ast"
	"go/token"
	"sort"
	"strconv"
	"strings"
)

// c09BitLeaves: the shared translator knows no bit operators. For every binary expression with & | << >> inside the
// function, register its translation (Z.land/Z.lor/Z.shiftl/Z.shiftr over the translated operands) as a leaf, children
// first, so that o.condOf / o.exprOfAssign can then translate the enclosing expression. A changed operand or shift
// amount therefore changes the generated Coq term.
func c09BitLeaves(o *out, fs funcSpec) {
	p, fd := findFunc(fs.dir, fs.recv, fs.name)
	if fd == nil {
		return
	}
	var nodes []*ast.BinaryExpr
	ast.Inspect(fd.Body, func(n ast.Node) bool {
		if be, ok := n.(*ast.BinaryExpr); ok {
			switch be.Op {
			case token.AND, token.OR, token.SHL, token.SHR:
				nodes = append(nodes, be)
			}
		}
		return true
	})
	ops := map[token.Token]string{token.AND: "Z.land", token.OR: "Z.lor", token.SHL: "Z.shiftl", token.SHR: "Z.shiftr"}
	for i := len(nodes) - 1; i >= 0; i-- {
		be := nodes[i]
		t := o.newTr(p, fs)
		a, b := t.expr(be.X), t.expr(be.Y)
		if t.err != nil {
			continue
		}
		fs.leaves[printNode(p.fset, be)] = "(" + ops[be.Op] + " " + a + " " + b + ")"
	}
}

// c09IntMap emits the entries of a package-level map[string]int literal whose keys are string constants, as a list of
// (key bytes, value), sorted by value.
func c09IntMap(o *out, dir, goName, coqName string) {
	ce, p, _, _ := findConstExpr(dir, goName)
	cl, ok := ce.(*ast.CompositeLit)
	if ce == nil || !ok {
		o.brokenDef(coqName, "map literal "+dir+"."+goName+" not found")
		return
	}
	type ent struct {
		k string
		v int64
	}
	var ents []ent
	for _, el := range cl.Elts {
		kv, ok := el.(*ast.KeyValueExpr)
		if !ok {
			o.brokenDef(coqName, "map literal element is not key:value")
			return
		}
		var key string
		switch k := kv.Key.(type) {
		case *ast.BasicLit:
			key, _ = strconv.Unquote(k.Value)
		case *ast.Ident:
			ke, _, _, _ := findConstExpr(dir, k.Name)
			bl, ok := ke.(*ast.BasicLit)
			if !ok || bl.Kind != token.STRING {
				o.brokenDef(coqName, "map key "+k.Name+" is not a string constant")
				return
			}
			key, _ = strconv.Unquote(bl.Value)
		default:
			o.brokenDef(coqName, "unsupported map key "+printNode(p.fset, kv.Key))
			return
		}
		v, err := evalConst(dir, kv.Value, 0)
		if err != nil || v.isFloat {
			o.brokenDef(coqName, "map value not an integer")
			return
		}
		ents = append(ents, ent{key, v.i})
	}
	sort.Slice(ents, func(i, j int) bool { return ents[i].v < ents[j].v || (ents[i].v == ents[j].v && ents[i].k < ents[j].k) })
	var items, names []string
	for _, e := range ents {
		items = append(items, fmt.Sprintf("(%s, %d)", bytesLit([]byte(e.k)), e.v))
		names = append(names, fmt.Sprintf("%q:%d", e.k, e.v))
	}
	o.f("Definition %s : list (list Z * Z) := [%s]. (* %s.%s = {%s} *)\n", coqName, strings.Join(items, "; "), dir, goName, strings.Join(names, ", "))
}

// c09CallArgs: the argIdx-th argument (printed) of every call to callee in the function, mapped through classes
// (unknown → 99), in source order.
func c09CallArgs(o *out, dir, recv, name, coqName, callee string, argIdx int, classes map[string]int) {
	p, fd := findFunc(dir, recv, name)
	if fd == nil {
		o.brokenDef(coqName, "function "+dir+":"+recv+"."+name+" not found")
		return
	}
	var seq, names []string
	ast.Inspect(fd.Body, func(n ast.Node) bool {
		ce, ok := n.(*ast.CallExpr)
		if !ok || printNode(p.fset, ce.Fun) != callee || len(ce.Args) <= argIdx {
			return true
		}
		arg := printNode(p.fset, ce.Args[argIdx])
		code, ok := classes[arg]
		if !ok {
			code = 99
		}
		seq = append(seq, strconv.Itoa(code))
		names = append(names, arg)
		return true
	})
	if len(seq) == 0 {
		o.brokenDef(coqName, "no call to "+callee+" in "+dir+":"+recv+"."+name)
	}
	o.f("Definition %s : list Z := [%s]. (* %s:%s.%s : %s(... %s ...) *)\n", coqName, strings.Join(seq, "; "), dir, recv, name, callee, strings.Join(names, ", "))
}

// c09InLoop: is there a call to callee lexically inside a for/range statement of the function?
func c09InLoop(o *out, dir, recv, name, coqName, callee string) {
	p, fd := findFunc(dir, recv, name)
	if fd == nil {
		o.brokenDef(coqName, "function "+dir+":"+recv+"."+name+" not found")
		return
	}
	found := false
	var walk func(n ast.Node, inLoop bool)
	walk = func(n ast.Node, inLoop bool) {
		ast.Inspect(n, func(m ast.Node) bool {
			if m == n {
				return true
			}
			switch x := m.(type) {
			case *ast.ForStmt:
				walk(x.Body, true)
				return false
			case *ast.RangeStmt:
				walk(x.Body, true)
				return false
			case *ast.CallExpr:
				if inLoop && printNode(p.fset, x.Fun) == callee {
					found = true
				}
			}
			return true
		})
	}
	walk(fd.Body, false)
	o.f("Definition %s : bool := %v. (* %s:%s.%s calls %s inside its loop *)\n", coqName, found, dir, recv, name, callee)
}

// c09NoCall: true iff the function contains no call to a method or function named `name`.
func c09NoCall(o *out, dir, recv, fn, coqName, name string) {
	p, fd := findFunc(dir, recv, fn)
	if fd == nil {
		o.brokenDef(coqName, "function "+dir+":"+recv+"."+fn+" not found")
		return
	}
	found := false
	ast.Inspect(fd.Body, func(n ast.Node) bool {
		if ce, ok := n.(*ast.CallExpr); ok {
			callee := printNode(p.fset, ce.Fun)
			if callee == name || strings.HasSuffix(callee, "."+name) {
				found = true
			}
		}
		return true
	})
	o.f("Definition %s : bool := %v. (* %s:%s.%s makes no call to %s *)\n", coqName, !found, dir, recv, fn, name)
}

func init() {
	generators["C09_gen"] = func(o *out) {
		// ------------------------------------------------------------ APK merkle hasher
		const apk = "signers/apk"
		o.constInt(apk, "merkleBlock", "merkleBlock")
		ml := map[string]string{"h.n": "n", "len(d)": "dlen", "merkleBlock": "blk", "inz.DirLoc": "dirloc"}
		wr := funcSpec{dir: apk, recv: "merkleHasher", name: "Write", leaves: ml}
		wr.coqName, wr.params, wr.retType = "merkle_complete_cond", "(blk n dlen : Z)", "bool"
		o.condOf(wr, "if:h.n", 0)
		wr.coqName, wr.params = "merkle_direct_cond", "(blk dlen : Z)"
		o.condOf(wr, "for:len(d)", 0)
		wr.coqName, wr.params = "merkle_save_cond", "(dlen : Z)"
		o.condOf(wr, "if:len(d)", 1)
		o.condOf(funcSpec{dir: apk, recv: "merkleHasher", name: "flush", coqName: "merkle_flush_cond", params: "(n : Z)", retType: "bool", leaves: ml}, "if:h.n", 0)
		o.exprOfAssign(funcSpec{dir: apk, recv: "merkleHasher", name: "block", coqName: "merkle_block_prefix", params: "", retType: "Z", leaves: ml}, "pref[0]", 0)
		fin := funcSpec{dir: apk, recv: "merkleHasher", name: "Finish", leaves: ml}
		c09BitLeaves(o, fin)
		fin.coqName, fin.params, fin.retType = "merkle_top_prefix", "", "Z"
		o.exprOfAssign(fin, "pref[0]", 0)
		fin.coqName, fin.params, fin.retType = "merkle_zip64_cond", "(dirloc : Z)", "bool"
		o.condOf(fin, "if:inz.DirLoc", 0)
		// index into [h.flush h.Write master.Write]
		o.callOrder(apk, "merkleHasher", "Finish", "finish_calls", []string{"h.flush", "h.Write", "master.Write"})
		c09CallArgs(o, apk, "merkleHasher", "Finish", "finish_write_args", "h.Write", 0, map[string]int{"cdirEntries": 0, "endOfDir": 1})
		for _, fn := range []string{"Write", "flush", "Finish", "block"} {
			fingerprint(apk, "merkleHasher", fn)
		}
		fingerprint(apk, "", "digestApkStream")
		fingerprint(apk, "", "newMerkleHasher")

		// ------------------------------------------------------------ AppX block map
		const appx = "lib/signappx"
		o.constInt(appx, "blockMapSize", "blockMapSize")
		o.condOf(funcSpec{dir: appx, recv: "blockMap", name: "AddFile", coqName: "bm_block_cond", params: "(n : Z)", retType: "bool",
			leaves: map[string]string{"n": "n"}}, "if:n ", 0)
		o.condOf(funcSpec{dir: appx, recv: "", name: "verifyBlockMap", coqName: "bm_count_bad", params: "(nblocks usize : Z)", retType: "bool",
			leaves: map[string]string{"len(bmf.Block)": "nblocks", "zf.UncompressedSize64": "usize"}}, "if:len(bmf.Block)", 0)
		o.condOf(funcSpec{dir: appx, recv: "", name: "verifyBlockMap", coqName: "bm_verify_clip", params: "(count : Z)", retType: "bool",
			leaves: map[string]string{"count": "count"}}, "if:count", 0)
		c09CallArgs(o, appx, "blockMap", "AddFile", "bm_copyn_limit", "io.CopyN", 2, map[string]int{"blockMapSize": 0})
		fingerprint(appx, "blockMap", "AddFile")
		fingerprint(appx, "", "verifyBlockMap")

		// ------------------------------------------------------------ PE image hasher
		const ac = "lib/authenticode"
		o.constInt(ac, "dosHeaderSize", "dosHeaderSize")
		pl := map[string]string{"remaining": "remaining", "n": "n", "len(h.pageBuf)": "pagesz", "len(h.zeroPage)": "pagesz",
			"len(blob)": "bloblen", "removed": "removed", "origSize": "orig"}
		o.condOf(funcSpec{dir: ac, recv: "imageHasher", name: "section", coqName: "pe_sec_loop_cond", params: "(remaining : Z)", retType: "bool", leaves: pl}, "for:remaining", 0)
		o.condOf(funcSpec{dir: ac, recv: "imageHasher", name: "section", coqName: "pe_sec_clip_cond", params: "(n pagesz : Z)", retType: "bool", leaves: pl}, "if:len(h.pageBuf)", 0)
		o.condOf(funcSpec{dir: ac, recv: "imageHasher", name: "section", coqName: "pe_sec_plain_cond", params: "(do_page_hash : bool)", retType: "bool",
			leaves: map[string]string{"h.doPageHash": "do_page_hash"}, types: map[string]string{"h.doPageHash": "bool"}}, "if:h.doPageHash", 0)
		o.condOf(funcSpec{dir: ac, recv: "imageHasher", name: "addPageHash", coqName: "pe_null_page_cond", params: "(bloblen : Z)", retType: "bool", leaves: pl}, "if:len(blob)", 0)
		o.exprOfAssign(funcSpec{dir: ac, recv: "imageHasher", name: "addPageHash", coqName: "pe_needzero", params: "(pagesz bloblen removed : Z)", retType: "Z", leaves: pl}, "needzero", 0)
		o.exprOfAssign(funcSpec{dir: ac, recv: "", name: "DigestPE", coqName: "pe_tail_rem", params: "(orig : Z)", retType: "Z", leaves: pl}, "n", 0)
		o.exprOfAssign(funcSpec{dir: ac, recv: "", name: "DigestPE", coqName: "pe_tail_padding", params: "(n : Z)", retType: "Z", leaves: pl}, "padding", 0)
		for _, fn := range []string{"section", "addPageHash", "finish"} {
			fingerprint(ac, "imageHasher", fn)
		}
		for _, fn := range []string{"DigestPE", "setupDigester", "readTrailer", "readSections", "readOptHeader"} {
			fingerprint(ac, "", fn)
		}

		// ------------------------------------------------------------ PE checksum
		kl := map[string]string{"peStart": "pe_start", "h.odd": "odd", "n": "n", "h.cksumPos": "ckpos", "h.pos": "pos", "i": "i", "abs": "abs",
			"d[i+1]": "hi", "d[i]": "lo", "sum": "sum", "h.size": "size"}
		kt := map[string]string{"h.odd": "bool"}
		o.condOf(funcSpec{dir: ac, recv: "", name: "NewPEChecksum", coqName: "ck_new_none_cond", params: "(pe_start : Z)", retType: "bool", leaves: kl, types: kt}, "if:peStart", 0)
		o.exprOfAssign(funcSpec{dir: ac, recv: "", name: "NewPEChecksum", coqName: "ck_new_pos", params: "(pe_start : Z)", retType: "Z", leaves: kl, types: kt}, "cksumPos", 1)
		kw := funcSpec{dir: ac, recv: "peChecksum", name: "Write", leaves: kl, types: kt, retType: "bool"}
		c09BitLeaves(o, kw)
		kw.coqName, kw.params = "ck_odd_err_cond", "(odd : bool)"
		o.condOf(kw, "if:h.odd", 0)
		kw.coqName, kw.params = "ck_write_odd_cond", "(n : Z)"
		o.condOf(kw, "if:n%2", 0)
		kw.coqName, kw.params = "ck_zero_cond", "(abs ckpos : Z)"
		o.condOf(kw, "if:h.cksumPos", 0)
		kw.coqName, kw.params = "ck_loop_cond", "(i n : Z)"
		o.condOf(kw, "for:i", 0)
		kw.retType = "Z"
		kw.coqName, kw.params = "ck_abs", "(pos i : Z)"
		o.exprOfAssign(kw, "abs", 0)
		kw.coqName, kw.params = "ck_word", "(lo hi : Z)"
		o.exprOfAssign(kw, "val", 0)
		kw.coqName, kw.params = "ck_fold", "(sum : Z)"
		o.exprOfAssign(kw, "sum", 2)
		kw.coqName, kw.params = "ck_pos_advance", "(n : Z)"
		o.exprOfAssign(kw, "h.pos", 0)
		ks := funcSpec{dir: ac, recv: "peChecksum", name: "Sum", leaves: kl, types: kt, retType: "Z", coqName: "ck_final_fold", params: "(sum : Z)"}
		c09BitLeaves(o, ks)
		o.exprOfAssign(ks, "sum", 1)
		for _, fn := range []string{"Write", "Sum", "Reset"} {
			fingerprint(ac, "peChecksum", fn)
		}
		fingerprint(ac, "", "NewPEChecksum")
		fingerprint(ac, "", "FixPEChecksum")

		// ------------------------------------------------------------ Mach-O code directory pages
		const cs = "lib/fruit/csblob"
		o.constInt(cs, "defaultPageSizeLog2", "cs_page_log2")
		o.condOf(funcSpec{dir: cs, recv: "", name: "hashPages", coqName: "hp_stop_cond", params: "(n : Z)", retType: "bool",
			leaves: map[string]string{"n": "n"}}, "if:n ", 0)
		fingerprint(cs, "", "hashPages")

		// ------------------------------------------------------------ tar framing of zip uploads
		const zs = "lib/zipslicer"
		o.constString(zs, "TarMemberCD", "tar_member_cd")
		o.constString(zs, "TarMemberZip", "tar_member_zip")
		// members in the order ZipToTar emits them / ReadZipTar expects them: 0 = central directory, 1 = whole zip; each is
		// read through io.NewSectionReader(r, offset, length) (positioned reads: no shared file offset)
		c09CallArgs(o, zs, "", "ZipToTarTrailer", "ziptotar_members", "tarAddStream", 2, map[string]int{"TarMemberCD": 0, "TarMemberZip": 1})
		c09CallArgs(o, zs, "", "ZipToTarTrailer", "ziptotar_sizes", "tarAddStream", 3, map[string]int{"size - dirLoc": 0, "size": 1})
		c09CallArgs(o, zs, "", "ZipToTarTrailer", "ziptotar_offsets", "io.NewSectionReader", 1, map[string]int{"0": 0, "dirLoc": 1})
		c09CallArgs(o, zs, "", "ZipToTarTrailer", "ziptotar_lengths", "io.NewSectionReader", 2, map[string]int{"size - dirLoc": 0, "size": 1})
		c09NoCall(o, zs, "", "ZipToTarTrailer", "ziptotar_no_seek", "Seek")
		// ZipToTar = ZipToTarTrailer with a zero-length trailer (argument class 0 = literal 0)
		c09CallArgs(o, zs, "", "ZipToTar", "ziptotar_trailer_arg", "ZipToTarTrailer", 2, map[string]int{"0": 0})
		c09NoCall(o, zs, "", "tarAddStream", "taraddstream_no_seek", "Seek")
		c09NoCall(o, "signers/macho", "transformer", "send", "macho_send_no_seek", "Seek")
		c09NoCall(o, "signers/dmg", "transformer", "send", "dmg_send_no_seek", "Seek")
		c09NoCall(o, ac, "", "MsiToTar", "msitotar_no_seek", "Seek")
		o.condOf(funcSpec{dir: zs, recv: "", name: "ReadZipTar", coqName: "readziptar_first_bad", params: "(name : bytes)", retType: "bool",
			leaves: map[string]string{"hdr.Name": "name", "TarMemberCD": "tar_member_cd", "TarMemberZip": "tar_member_zip", "err != nil": "false"},
			types:  map[string]string{"hdr.Name": "bytes", "TarMemberCD": "bytes", "TarMemberZip": "bytes", "err != nil": "bool"}}, "if:hdr.Name", 0)
		o.condOf(funcSpec{dir: zs, recv: "", name: "ReadZipTar", coqName: "readziptar_second_bad", params: "(name : bytes)", retType: "bool",
			leaves: map[string]string{"hdr.Name": "name", "TarMemberCD": "tar_member_cd", "TarMemberZip": "tar_member_zip", "err != nil": "false"},
			types:  map[string]string{"hdr.Name": "bytes", "TarMemberCD": "bytes", "TarMemberZip": "bytes", "err != nil": "bool"}}, "if:hdr.Name", 1)
		for _, fn := range []string{"ZipToTar", "ZipToTarTrailer", "tarAddStream", "ReadZipTar"} {
			fingerprint(zs, "", fn)
		}
		fingerprint(zs, "zipTarReader", "Read")
		fingerprint("signers", "fileProducer", "GetReader")
		fingerprint("signers/zipbased", "zipTransformer", "GetReader")
		fingerprint("signers/msi", "msiTransformer", "GetReader")
		fingerprint("signers/macho", "transformer", "send")
		fingerprint("signers/dmg", "transformer", "send")
		fingerprint(ac, "", "MsiToTar")
		fingerprint(ac, "", "DigestMsiTar")
		o.hasStmt("signers", "fileProducer", "GetReader", "return p.f, nil", "fileproducer_returns_file")
		c09CallArgs(o, "signers", "fileProducer", "GetReader", "fileproducer_seek", "p.f.Seek", 0, map[string]int{"0": 0})

		// ------------------------------------------------------------ client transport
		const rc = "cmdline/remotecmd"
		dl := map[string]string{"len(bases)": "nbases", "minAttempts": "min_attempts", "len(repeated)": "nrep",
			"response.StatusCode": "code", "response != nil": "has_resp", `encodings != ""`: "has_enc",
			"httperror.Temporary(err)": "temporary", "i": "i", `encoding != ""`: "has_enc"}
		dt := map[string]string{"response != nil": "bool", `encodings != ""`: "bool", "httperror.Temporary(err)": "bool", `encoding != ""`: "bool"}
		dr := funcSpec{dir: rc, recv: "client", name: "doRequest", leaves: dl, types: dt, retType: "bool"}
		dr.coqName, dr.params = "dr_repeat_cond", "(nbases min_attempts : Z)"
		o.condOf(dr, "if:minAttempts", 0)
		dr.coqName, dr.params = "dr_repeat_loop_cond", "(nrep min_attempts : Z)"
		o.condOf(dr, "for:minAttempts", 0)
		dr.coqName, dr.params = "dr_success_cond", "(code : Z)"
		o.condOf(dr, "if:response.StatusCode", 0)
		dr.coqName, dr.params = "dr_fallback_cond", "(has_resp : bool) (code : Z) (has_enc : bool)"
		o.condOf(dr, "if:response.StatusCode", 1)
		dr.coqName, dr.params = "dr_next_cond", "(temporary : bool) (i nbases : Z)"
		o.condOf(dr, "if:httperror.Temporary", 0)
		o.hasStmt(rc, "client", "doRequest", "goto loop", "dr_fallback_restarts")
		o.hasStmt(rc, "client", "doRequest", `encodings = ""`, "dr_fallback_clears_encoding")
		o.hasStmt(rc, "client", "doRequest", "break loop", "dr_success_breaks")
		// index into [cli.buildRequest cli.cli.Do request.Body.Close httperror.FromResponse compresshttp.DecompressResponse]
		o.callOrder(rc, "client", "doRequest", "dr_calls", []string{"cli.buildRequest", "cli.cli.Do", "request.Body.Close", "httperror.FromResponse", "compresshttp.DecompressResponse"})
		c09InLoop(o, rc, "client", "doRequest", "dr_builds_request_per_attempt", "cli.buildRequest")
		// index into [bodyFile.GetReader compresshttp.CompressRequest]
		o.callOrder(rc, "client", "buildRequest", "br_calls", []string{"bodyFile.GetReader", "compresshttp.CompressRequest"})
		o.condOf(funcSpec{dir: rc, recv: "client", name: "buildRequest", coqName: "br_send_accept_cond", params: "(has_enc : bool)", retType: "bool", leaves: dl, types: dt}, "if:encoding", 0)
		fingerprint(rc, "client", "doRequest")
		fingerprint(rc, "client", "buildRequest")
		fingerprint(rc, "client", "getDirectory")
		fingerprint(rc, "", "CallRemote")
		const he = "internal/httperror"
		o.decisionFunc(funcSpec{dir: he, recv: "", name: "statusIsTemporary", coqName: "status_is_temporary",
			params: "(code : Z)", retType: "bool", leaves: map[string]string{"code": "code"}})
		fingerprint(he, "", "Temporary")
		fingerprint(he, "", "FromResponse")

		// ------------------------------------------------------------ compression negotiation
		const ch = "lib/compresshttp"
		o.constString(ch, "EncodingIdentity", "enc_identity")
		o.constString(ch, "EncodingGzip", "enc_gzip")
		o.constString(ch, "EncodingSnappy", "enc_snappy")
		c09IntMap(o, ch, "prefs", "enc_prefs")
		o.condOf(funcSpec{dir: ch, recv: "", name: "selectEncoding", coqName: "sel_better_cond", params: "(p2 pref : Z)", retType: "bool",
			leaves: map[string]string{"p2": "p2", "pref": "pref"}}, "if:pref", 0)
		o.condOf(funcSpec{dir: ch, recv: "", name: "CompressRequest", coqName: "creq_plain_cond", params: "(enc : bytes)", retType: "bool",
			leaves: map[string]string{"encoding": "enc"}, types: map[string]string{"encoding": "bytes"}}, "if:encoding", 0)
		o.condOf(funcSpec{dir: ch, recv: "responseCompressor", name: "WriteHeader", coqName: "resp_no_compress_cond", params: "(status : Z)", retType: "bool",
			leaves: map[string]string{"status": "status"}}, "if:status", 0)
		for _, fn := range []string{"selectEncoding", "setupCompression", "compress", "decompress", "CompressRequest", "DecompressRequest", "CompressResponse", "DecompressResponse", "Middleware"} {
			fingerprint(ch, "", fn)
		}
		fingerprint("server", "Server", "serveSign")
	}
}
