package main

// FmtMSI_gen: the MSI Authenticode digest layer of relic (lib/authenticode msiverify.go msitar.go msisign.go msinames.go,
// the directory entry layout and name decoding of lib/comdoc): constants, the 128-byte directory entry layout, the comparison
// used to order streams for hashing (prologue, loop condition, loop body, tie break), the exclusion test and the per-type
// dispatch of hashMsiDir / prehashMsiDir, the guard and the ordered list of slices written by prehashMsiDirent, the tests of
// DigestMsiTar, the name construction of msiToTarDir, msiDecodeName / msiDecodeRune, the decisions of VerifyMSI and the call
// list of InsertMSISignature.  Everything is translated from the current source; a shape the translator does not recognise
// is a broken tie.

import (
	"fmt"
	"go/ast"
	"go/token"
	"strconv"
	"strings"
	"unicode"
)

const (
	msiA = "lib/authenticode"
	msiC = "lib/comdoc"
)

func msiNorm(s string) string { return strings.Join(strings.Fields(s), " ") }

// comdoc.X constants as leaves of the authenticode translator
func msiComdocLeaves(extra map[string]string) map[string]string {
	m := map[string]string{}
	for _, n := range []string{"DirEmpty", "DirStorage", "DirStream", "DirRoot"} {
		if ce, _, si, _ := findConstExpr(msiC, n); ce != nil {
			if v, err := evalConst(msiC, ce, si); err == nil {
				m["comdoc."+n] = fmt.Sprintf("%d", v.i)
			}
		}
	}
	for k, v := range extra {
		m[k] = v
	}
	return m
}

// splits `a, b := e1, e2` into single assignments (valid here: the right-hand sides never mention the left-hand names)
func msiSplitAssigns(list []ast.Stmt) []ast.Stmt {
	var out []ast.Stmt
	for _, s := range list {
		if as, ok := s.(*ast.AssignStmt); ok && len(as.Lhs) > 1 && len(as.Lhs) == len(as.Rhs) {
			for i := range as.Lhs {
				out = append(out, &ast.AssignStmt{Lhs: []ast.Expr{as.Lhs[i]}, Tok: as.Tok, Rhs: []ast.Expr{as.Rhs[i]}})
			}
			continue
		}
		out = append(out, s)
	}
	return out
}

// ---- sortMsiFiles: the closure handed to sort.Slice
func (o *out) msiSort() {
	names := []string{"msi_sort_n", "msi_sort_loop_cond", "msi_sort_body", "msi_sort_tiebreak"}
	fail := func(why string) {
		for _, n := range names {
			o.brokenDef(n, why)
		}
	}
	p, fd := findFunc(msiA, "", "sortMsiFiles")
	if fd == nil {
		fail("function sortMsiFiles not found")
		return
	}
	var lit *ast.FuncLit
	ast.Inspect(fd.Body, func(n ast.Node) bool {
		if ce, ok := n.(*ast.CallExpr); ok && printNode(p.fset, ce.Fun) == "sort.Slice" && len(ce.Args) == 2 {
			if fl, ok := ce.Args[1].(*ast.FuncLit); ok {
				lit = fl
			}
		}
		return lit == nil
	})
	if lit == nil || len(lit.Body.List) != 5 {
		fail("sortMsiFiles is no longer sort.Slice(files, func(i, j int) bool { a, b := ...; n := ...; if ...; for ...; return ... })")
		return
	}
	L := lit.Body.List
	if msiNorm(printNode(p.fset, L[0])) != "a, b := files[i], files[j]" {
		fail("comparison closure does not start with `a, b := files[i], files[j]`")
		return
	}
	fl, ok := L[3].(*ast.ForStmt)
	ret, ok2 := L[4].(*ast.ReturnStmt)
	if !ok || !ok2 || fl.Init == nil || fl.Post == nil || fl.Cond == nil || len(ret.Results) != 1 ||
		msiNorm(printNode(p.fset, fl.Init)) != "k := uint16(0)" || msiNorm(printNode(p.fset, fl.Post)) != "k++" {
		fail("comparison closure: expected `for k := uint16(0); cond; k++ {...}` followed by a single-value return")
		return
	}
	leaves := map[string]string{"a.NameLength": "alen", "b.NameLength": "blen", "k": "k", "len(a.NameRunes)": "lenrunes", "len(b.NameRunes)": "lenrunes",
		"a.NameRunes[k]": "x", "b.NameRunes[k]": "y"}
	mk := func(extra map[string]string) *tr {
		lv := map[string]string{}
		for k, v := range leaves {
			lv[k] = v
		}
		for k, v := range extra {
			lv[k] = v
		}
		return o.newTr(p, funcSpec{dir: msiA, leaves: lv})
	}
	// prologue: n := a.NameLength; if b.NameLength < n { n = b.NameLength }
	t := mk(nil)
	pro := t.stmts(L[1:3], "v_n")
	if t.err != nil {
		o.brokenDef("msi_sort_n", t.err.Error())
	} else {
		o.f("Definition msi_sort_n (alen blen : Z) : Z :=\n  %s.\n(* from %s:.sortMsiFiles : %s ; %s *)\n", pro, msiA, msiNorm(printNode(p.fset, L[1])), msiNorm(printNode(p.fset, L[2])))
	}
	t = mk(map[string]string{"n": "n"})
	c := t.expr(fl.Cond)
	if t.err != nil {
		o.brokenDef("msi_sort_loop_cond", t.err.Error())
	} else {
		o.f("Definition msi_sort_loop_cond (k n lenrunes : Z) : bool :=\n  %s.\n(* from %s:.sortMsiFiles : for %s *)\n", c, msiA, printNode(p.fset, fl.Cond))
	}
	t = mk(nil)
	body := t.stmts(msiSplitAssigns(fl.Body.List), "cont")
	if t.err != nil {
		o.brokenDef("msi_sort_body", t.err.Error())
	} else {
		o.f("Definition msi_sort_body (x y : Z) (cont : bool) : bool :=\n  %s.\n(* from %s:.sortMsiFiles : loop body; x = a.NameRunes[k], y = b.NameRunes[k], cont = the remaining iterations *)\n", body, msiA)
	}
	t = mk(nil)
	r := t.expr(ret.Results[0])
	if t.err != nil {
		o.brokenDef("msi_sort_tiebreak", t.err.Error())
	} else {
		o.f("Definition msi_sort_tiebreak (alen blen : Z) : bool :=\n  %s.\n(* from %s:.sortMsiFiles : return %s *)\n", r, msiA, printNode(p.fset, ret.Results[0]))
	}
}

// ---- hashMsiDir / prehashMsiDir / msiToTarDir: the loop over the sorted children
// emits <pfx>_skip (name pty) (or nothing when the function has no exclusion test and wantSkip is false), <pfx>_is_stream ty, <pfx>_is_storage ty,
// <pfx>_sorts, and the position flag given by `posStmt` relative to the loop: after=true means "is after the loop".
func (o *out) msiDirLoop(fn, pfx string, wantSkip bool, kinds map[string][]string, posName, posMarker string, after bool) {
	all := []string{pfx + "_is_stream", pfx + "_is_storage", pfx + "_sorts", posName}
	if wantSkip {
		all = append(all, pfx+"_skip")
	}
	fail := func(why string) {
		for _, n := range all {
			o.brokenDef(n, why)
		}
	}
	p, fd := findFunc(msiA, "", fn)
	if fd == nil {
		fail("function " + fn + " not found")
		return
	}
	var rng *ast.RangeStmt
	rngIdx, posIdx, sortIdx := -1, -1, -1
	for i, s := range fd.Body.List {
		if r, ok := s.(*ast.RangeStmt); ok && rng == nil && printNode(p.fset, r.X) == "files" {
			rng, rngIdx = r, i
		}
		txt := msiNorm(printNode(p.fset, s))
		if strings.Contains(txt, posMarker) && posIdx < 0 {
			posIdx = i
		}
		if txt == "sortMsiFiles(files)" {
			sortIdx = i
		}
	}
	if rng == nil {
		fail(fn + ": no `for _, item := range files` at top level")
		return
	}
	o.f("Definition %s_sorts : bool := %v. (* %s:.%s calls sortMsiFiles(files) before the loop *)\n", pfx, sortIdx >= 0 && sortIdx < rngIdx, msiA, fn)
	if posIdx < 0 {
		o.brokenDef(posName, fn+": statement `"+posMarker+"` not found at top level")
	} else {
		o.f("Definition %s : bool := %v. (* %s:.%s : `%s` is %s the loop over the children *)\n", posName, (posIdx > rngIdx) == after, msiA, fn, posMarker,
			map[bool]string{true: "after", false: "before"}[after])
	}
	// the exclusion test: if <cond> { continue } in front of the switch
	var sw *ast.SwitchStmt
	var skip ast.Expr
	skipBeforeSwitch := false
	for _, s := range rng.Body.List {
		switch x := s.(type) {
		case *ast.IfStmt:
			if len(x.Body.List) == 1 && x.Else == nil && x.Init == nil {
				if br, ok := x.Body.List[0].(*ast.BranchStmt); ok && br.Tok == token.CONTINUE && br.Label == nil && skip == nil {
					skip = x.Cond
					skipBeforeSwitch = sw == nil
				}
			}
		case *ast.SwitchStmt:
			if sw == nil {
				sw = x
			}
		}
	}
	leaves := msiComdocLeaves(map[string]string{"name": "name", "parent.Type": "pty", "item.Type": "ty", "isMsiSignatureName(name)": "issig",
		"isMsiSignatureStream(parent, item)": "issigstream", "msiDigitalSignature": "msi_sig_name", "msiDigitalSignatureEx": "msi_sigex_name"})
	if wantSkip {
		if skip == nil || !skipBeforeSwitch {
			o.brokenDef(pfx+"_skip", fn+": no `if ... { continue }` in front of the type switch")
		} else {
			t := o.newTr(p, funcSpec{dir: msiA, leaves: leaves, types: map[string]string{"name": "str", "msiDigitalSignature": "str", "msiDigitalSignatureEx": "str", "isMsiSignatureName(name)": "bool", "isMsiSignatureStream(parent, item)": "bool"}})
			c := t.expr(skip)
			if t.err != nil {
				o.brokenDef(pfx+"_skip", t.err.Error())
			} else {
				o.f("Definition %s_skip (issigstream issig : bool) (name : list Z) (pty ty : Z) : bool :=\n  %s.\n(* from %s:.%s : if %s { continue } *)\n", pfx, c, msiA, fn, printNode(p.fset, skip))
			}
		}
	} else if skip != nil {
		o.brokenDef(pfx+"_is_stream", fn+": unexpected `continue` test in the loop (the model has none)")
		return
	}
	if sw == nil || sw.Tag == nil || printNode(p.fset, sw.Tag) != "item.Type" {
		o.brokenDef(pfx+"_is_stream", fn+": no `switch item.Type`")
		o.brokenDef(pfx+"_is_storage", fn+": no `switch item.Type`")
		return
	}
	conds := map[string][]string{}
	for _, cs := range sw.Body.List {
		cc := cs.(*ast.CaseClause)
		txt := ""
		for _, s := range cc.Body {
			txt += printNode(p.fset, s) + "\n"
		}
		kind := ""
		for k, marks := range kinds {
			okAll := true
			for _, m := range marks {
				if !strings.Contains(txt, m) {
					okAll = false
				}
			}
			if okAll && (kind == "" || len(marks) > len(kinds[kind])) {
				kind = k
			}
		}
		if cc.List == nil || kind == "" {
			if len(cc.Body) > 0 {
				o.brokenDef(pfx+"_is_stream", fn+": a case of the type switch does something the model does not know: "+msiNorm(txt))
				return
			}
			continue
		}
		t := o.newTr(p, funcSpec{dir: msiA, leaves: leaves})
		for _, v := range cc.List {
			conds[kind] = append(conds[kind], "(ty =? "+t.expr(v)+")")
		}
		if t.err != nil {
			o.brokenDef(pfx+"_is_"+kind, t.err.Error())
			return
		}
	}
	for _, k := range []string{"stream", "storage"} {
		c := "false"
		if len(conds[k]) > 0 {
			c = strings.Join(conds[k], " || ")
		}
		o.f("Definition %s_is_%s (ty : Z) : bool := %s. (* %s:.%s : case label(s) of the branch that %s *)\n", pfx, k, c, msiA, fn, strings.Join(kinds[k], " + "))
	}
}

// ---- prehashMsiDirent: guard + the ordered list of (condition, slice of the 128-byte entry) written to the digest
func (o *out) msiPrehashDirent(uidOff, uidW int) {
	p, fd := findFunc(msiA, "", "prehashMsiDirent")
	if fd == nil {
		o.brokenDef("msi_pre_plan", "function prehashMsiDirent not found")
		o.brokenDef("msi_pre_badlen", "function prehashMsiDirent not found")
		return
	}
	leaves := msiComdocLeaves(map[string]string{"item.Type": "ty", "item.NameLength": "nlen"})
	var plan []string
	var descr []string
	guardDone, encCap := false, ""
	for _, s := range fd.Body.List {
		txt := msiNorm(printNode(p.fset, s))
		var cond ast.Expr
		var inner ast.Stmt = s
		if is, ok := s.(*ast.IfStmt); ok {
			if is.Init != nil || is.Else != nil || len(is.Body.List) != 1 {
				o.brokenDef("msi_pre_plan", "prehashMsiDirent: unexpected if statement: "+txt)
				return
			}
			if _, ok := is.Body.List[0].(*ast.ReturnStmt); ok && !guardDone && len(plan) == 0 {
				t := o.newTr(p, funcSpec{dir: msiA, leaves: leaves})
				c := t.expr(is.Cond)
				if t.err != nil {
					o.brokenDef("msi_pre_badlen", t.err.Error())
				} else {
					o.f("Definition msi_pre_badlen (ty nlen : Z) : bool :=\n  %s.\n(* from %s:.prehashMsiDirent : if %s { return error } *)\n", c, msiA, printNode(p.fset, is.Cond))
				}
				guardDone = true
				continue
			}
			cond, inner = is.Cond, is.Body.List[0]
		}
		switch x := inner.(type) {
		case *ast.AssignStmt:
			itxt := msiNorm(printNode(p.fset, x))
			if strings.HasPrefix(itxt, "_, _ = d.Write(") && len(x.Rhs) == 1 {
				arg := x.Rhs[0].(*ast.CallExpr).Args[0]
				t := o.newTr(p, funcSpec{dir: msiA, leaves: leaves})
				lo, hi := "", ""
				if se, ok := arg.(*ast.SliceExpr); ok && !se.Slice3 {
					switch printNode(p.fset, se.X) {
					case "enc":
						lo, hi = "0", "msi_de_size"
						if se.Low != nil {
							lo = t.expr(se.Low)
						}
						if se.High != nil {
							hi = t.expr(se.High)
						}
					case "item.UID":
						if se.Low == nil && se.High == nil {
							lo, hi = fmt.Sprint(uidOff), fmt.Sprint(uidOff+uidW)
						}
					}
				}
				c := "true"
				if cond != nil {
					c = t.expr(cond)
				}
				if lo == "" || t.err != nil {
					o.brokenDef("msi_pre_plan", "prehashMsiDirent: cannot translate "+itxt)
					return
				}
				plan = append(plan, fmt.Sprintf("(%s, (%s, %s))", c, lo, hi))
				descr = append(descr, txt)
				continue
			}
			if cond == nil && (itxt == "buf := bytes.NewBuffer(make([]byte, 0, 128))" || strings.HasPrefix(itxt, "buf := bytes.NewBuffer(make([]byte, 0,")) {
				encCap = strings.TrimSuffix(strings.TrimPrefix(itxt, "buf := bytes.NewBuffer(make([]byte, 0, "), "))")
				continue
			}
			if cond == nil && (itxt == "_ = binary.Write(buf, binary.LittleEndian, item.RawDirEnt)" || itxt == "enc := buf.Bytes()") {
				continue
			}
			o.brokenDef("msi_pre_plan", "prehashMsiDirent: unexpected statement "+itxt)
			return
		case *ast.ReturnStmt:
			if cond == nil && msiNorm(printNode(p.fset, x)) == "return nil" {
				continue
			}
			o.brokenDef("msi_pre_plan", "prehashMsiDirent: unexpected return "+txt)
			return
		default:
			o.brokenDef("msi_pre_plan", "prehashMsiDirent: unexpected statement "+txt)
			return
		}
	}
	if !guardDone {
		o.brokenDef("msi_pre_badlen", "prehashMsiDirent: the name length guard is gone")
	}
	if encCap == "" {
		o.brokenDef("msi_pre_enc_cap", "prehashMsiDirent: buffer no longer made with make([]byte, 0, N)")
	} else {
		o.f("Definition msi_pre_enc_cap : Z := %s. (* capacity of the buffer the entry is serialised into *)\n", encCap)
	}
	o.f("Definition msi_pre_plan (ty nlen : Z) : list (bool * (Z * Z)) :=\n  [%s].\n(* from %s:.prehashMsiDirent, in source order:\n   %s *)\n", strings.Join(plan, ";\n   "), msiA, strings.Join(descr, "\n   "))
}

// msiContinueFirst: in the loop over the root's children of fn, the first statement is `if <cond on item.Type> { continue }`
func (o *out) msiContinueFirst(fn, coq string) {
	p, fd := findFunc(msiA, "", fn)
	if fd == nil {
		o.brokenDef(coq, "function "+fn+" not found")
		return
	}
	ok := false
	for _, s := range fd.Body.List {
		if r, isR := s.(*ast.RangeStmt); isR && printNode(p.fset, r.X) == "files" && len(r.Body.List) > 0 {
			if is, isIf := r.Body.List[0].(*ast.IfStmt); isIf && is.Else == nil && len(is.Body.List) == 1 && strings.Contains(printNode(p.fset, is.Cond), "item.Type") {
				if br, isB := is.Body.List[0].(*ast.BranchStmt); isB && br.Tok == token.CONTINUE {
					ok = true
				}
			}
		}
	}
	if !ok {
		o.brokenDef(coq, fn+": the loop over the root's children no longer starts with `if item.Type ... { continue }`")
		return
	}
	o.f("Definition %s : bool := true. (* %s:.%s : entries of another type are passed over before the name is looked at *)\n", coq, msiA, fn)
}

// order of two top-level statement markers in a function
func (o *out) msiOrder(fn, coq, first, second string) {
	p, fd := findFunc(msiA, "", fn)
	if fd == nil {
		o.brokenDef(coq, "function "+fn+" not found")
		return
	}
	i1, i2 := -1, -1
	for i, s := range fd.Body.List {
		txt := msiNorm(printNode(p.fset, s))
		if i1 < 0 && strings.Contains(txt, first) {
			i1 = i
		}
		if strings.Contains(txt, second) {
			i2 = i
		}
	}
	if i1 < 0 || i2 < 0 {
		o.brokenDef(coq, fmt.Sprintf("%s: `%s` / `%s` not found at top level", fn, first, second))
		return
	}
	o.f("Definition %s : bool := %v. (* %s:.%s : `%s` comes before `%s` *)\n", coq, i1 < i2, msiA, fn, first, second)
}

// exact text of the right-hand side of an assignment / of a call argument, as a tie for string concatenations
func (o *out) msiTextTie(fn, coq, want, def string) {
	p, fd := findFunc(msiA, "", fn)
	if fd == nil {
		o.brokenDef(coq, "function "+fn+" not found")
		return
	}
	found := false
	ast.Inspect(fd.Body, func(n ast.Node) bool {
		if e, ok := n.(ast.Expr); ok && msiNorm(printNode(p.fset, e)) == want {
			found = true
		}
		return !found
	})
	if !found {
		o.brokenDef(coq, fn+": expression `"+want+"` not found")
		return
	}
	o.f("%s\n(* from %s:.%s : %s *)\n", def, msiA, fn, want)
}

// ---- msiDecodeName: range conditions, offsets subtracted, arguments of msiDecodeRune, the literal
func (o *out) msiDecodeName() {
	p, fd := findFunc(msiA, "", "msiDecodeName")
	if fd == nil {
		o.brokenDef("msi_dn_pair", "function msiDecodeName not found")
		return
	}
	var rng *ast.RangeStmt
	for _, s := range fd.Body.List {
		if r, ok := s.(*ast.RangeStmt); ok {
			rng = r
		}
	}
	if rng == nil || len(rng.Body.List) != 1 {
		o.brokenDef("msi_dn_pair", "msiDecodeName: loop body is not a single if chain")
		return
	}
	leaves := map[string]string{"x": "x"}
	arm := 0
	cur, _ := rng.Body.List[0].(*ast.IfStmt)
	names := []string{"pair", "single", "table"}
	for cur != nil && arm < 3 {
		t := o.newTr(p, funcSpec{dir: msiA, leaves: leaves})
		c := t.expr(cur.Cond)
		if t.err != nil {
			o.brokenDef("msi_dn_"+names[arm], t.err.Error())
			return
		}
		o.f("Definition msi_dn_%s (x : Z) : bool :=\n  %s.\n(* from %s:.msiDecodeName : if %s *)\n", names[arm], c, msiA, printNode(p.fset, cur.Cond))
		// statements of the arm
		sub := "0"
		var args []string
		lit := ""
		for _, s := range cur.Body.List {
			as, ok := s.(*ast.AssignStmt)
			if !ok || len(as.Lhs) != 1 || len(as.Rhs) != 1 {
				o.brokenDef("msi_dn_"+names[arm]+"_out", "msiDecodeName: unexpected statement "+msiNorm(printNode(p.fset, s)))
				return
			}
			lhs := printNode(p.fset, as.Lhs[0])
			switch {
			case lhs == "x" && as.Tok == token.SUB_ASSIGN:
				sub = t.expr(as.Rhs[0])
			case lhs == "out" && as.Tok == token.ADD_ASSIGN:
				// string(msiDecodeRune(e1)) + string(msiDecodeRune(e2)) ... | "literal"
				var walk func(e ast.Expr) bool
				walk = func(e ast.Expr) bool {
					switch y := e.(type) {
					case *ast.BinaryExpr:
						return y.Op == token.ADD && walk(y.X) && walk(y.Y)
					case *ast.BasicLit:
						if y.Kind == token.STRING {
							lit = t.expr(y)
							return true
						}
					case *ast.CallExpr:
						if printNode(p.fset, y.Fun) == "string" && len(y.Args) == 1 {
							if in, ok := y.Args[0].(*ast.CallExpr); ok && printNode(p.fset, in.Fun) == "msiDecodeRune" && len(in.Args) == 1 {
								args = append(args, t.expr(in.Args[0]))
								return true
							}
						}
					}
					return false
				}
				if !walk(as.Rhs[0]) {
					o.brokenDef("msi_dn_"+names[arm]+"_out", "msiDecodeName: unexpected right-hand side "+printNode(p.fset, as.Rhs[0]))
					return
				}
			default:
				o.brokenDef("msi_dn_"+names[arm]+"_out", "msiDecodeName: unexpected statement "+msiNorm(printNode(p.fset, s)))
				return
			}
		}
		if t.err != nil {
			o.brokenDef("msi_dn_"+names[arm]+"_out", t.err.Error())
			return
		}
		if lit != "" {
			o.f("Definition msi_dn_%s_out : list Z := %s. (* the literal appended *)\n", names[arm], lit)
		} else {
			o.f("Definition msi_dn_%s_out (x0 : Z) : list Z := let x := x0 - %s in [%s]. (* arguments of msiDecodeRune, in order, after x -= %s *)\n",
				names[arm], sub, strings.Join(args, "; "), sub)
		}
		arm++
		switch e := cur.Else.(type) {
		case *ast.IfStmt:
			cur = e
		case *ast.BlockStmt:
			if arm != 3 || msiNorm(printNode(p.fset, e)) != "{ out += string(x) }" {
				o.brokenDef("msi_dn_else_identity", "msiDecodeName: final else is not `out += string(x)`")
				return
			}
			o.f("Definition msi_dn_else_identity : bool := true. (* every other code point is copied *)\n")
			cur = nil
		default:
			cur = nil
		}
	}
	if arm != 3 {
		o.brokenDef("msi_dn_table", "msiDecodeName: expected three range tests")
	}
}

// ---- InsertMSISignature: (op, name) of every AddFile / DeleteFile call in source order; op 0 AddFile 1 DeleteFile; name 0 sig 1 sigex
func (o *out) msiInsertCalls() {
	p, fd := findFunc(msiA, "", "InsertMSISignature")
	if fd == nil {
		o.brokenDef("msi_insert_calls", "function InsertMSISignature not found")
		return
	}
	var items []string
	ok := true
	ast.Inspect(fd.Body, func(n ast.Node) bool {
		ce, isCall := n.(*ast.CallExpr)
		if !isCall {
			return true
		}
		fn := printNode(p.fset, ce.Fun)
		op := -1
		if fn == "cdf.AddFile" {
			op = 0
		} else if fn == "cdf.DeleteFile" {
			op = 1
		} else {
			return true
		}
		nm := -1
		switch printNode(p.fset, ce.Args[0]) {
		case "msiDigitalSignature":
			nm = 0
		case "msiDigitalSignatureEx":
			nm = 1
		}
		pay := 2
		if op == 0 && len(ce.Args) == 2 {
			switch printNode(p.fset, ce.Args[1]) {
			case "pkcs":
				pay = 0
			case "exsig":
				pay = 1
			default:
				ok = false
			}
		}
		if nm < 0 {
			ok = false
		}
		items = append(items, fmt.Sprintf("(%d, %d, %d)", op, nm, pay))
		return true
	})
	if !ok {
		o.brokenDef("msi_insert_calls", "InsertMSISignature: a call on something other than the two signature names / the two payloads")
		return
	}
	o.f("Definition msi_insert_calls : list (Z * Z * Z) := [%s].\n(* %s:.InsertMSISignature : (op, name, payload) in source order: op 0 AddFile 1 DeleteFile; name 0 msiDigitalSignature 1 msiDigitalSignatureEx; payload 0 pkcs 1 exsig 2 none; first two are the then/else arms of the exsig test *)\n",
		strings.Join(items, "; "), msiA)
}

// ---- comdoc.DeleteFile matches names by lessDirEnt (MS-CFB 2.6.4): for every code unit of a probed name, the code units that
// have the same image under comdoc.upperUnit (unicode.ToUpper of the toolchain, surrogates and non-BMP results left alone)
func msiUpperUnit(u int) int {
	if u >= 0xd800 && u <= 0xdfff {
		return u
	}
	if r := unicode.ToUpper(rune(u)); r <= 0xffff {
		return int(r)
	}
	return u
}

func (o *out) msiFoldAlts(goConst, coqName string) {
	ce, _, _, _ := findConstExpr(msiA, goConst)
	bl, ok := ce.(*ast.BasicLit)
	if ce == nil || !ok || bl.Kind != token.STRING {
		o.brokenDef(coqName, "string constant "+goConst+" not found")
		return
	}
	s, _ := strconv.Unquote(bl.Value)
	var parts []string
	for _, r := range s {
		if r >= 0x80 {
			o.brokenDef(coqName, goConst+" is no longer ASCII")
			return
		}
		var alts []string
		for u := 0; u < 0x10000; u++ {
			if msiUpperUnit(u) == msiUpperUnit(int(r)) {
				alts = append(alts, strconv.Itoa(u))
			}
		}
		parts = append(parts, "["+strings.Join(alts, "; ")+"]")
	}
	o.f("Definition %s : list (list Z) := [%s].\n(* per code unit of %s.%s: the code units with the same comdoc.upperUnit image (Unicode %s) *)\n", coqName, strings.Join(parts, "; "), msiA, goConst, unicode.Version)
}

func init() {
	generators["FmtMSI_gen"] = func(o *out) {
		// ---- lib/comdoc: entry types, the raw directory entry, RawDirEnt.Name
		o.constInt(msiC, "DirEmpty", "msi_DirEmpty")
		o.constInt(msiC, "DirStorage", "msi_DirStorage")
		o.constInt(msiC, "DirStream", "msi_DirStream")
		o.constInt(msiC, "DirRoot", "msi_DirRoot")
		o.structLayout(msiC, "RawDirEnt", "msi_de")
		nameL := map[string]string{"e.NameLength": "nlen", "e.Type": "ty", "used": "used"}
		o.exprOfAssign(funcSpec{dir: msiC, recv: "RawDirEnt", name: "Name", coqName: "msi_name_used", params: "(nlen : Z)", retType: "Z", leaves: nameL}, "used", 0)
		o.condOf(funcSpec{dir: msiC, recv: "RawDirEnt", name: "Name", coqName: "msi_name_empty", params: "(ty used : Z)", retType: "bool", leaves: nameL}, "if:used")
		o.msiTextTie2(msiC, "RawDirEnt", "Name", "msi_name_decodes_prefix", "string(utf16.Decode(e.NameRunes[:used]))",
			"Definition msi_name_decodes_prefix : bool := true. (* the name is utf16.Decode of the first `used` code units *)")
		// ---- names
		o.constString(msiA, "msiDigitalSignature", "msi_sig_name")
		o.constString(msiA, "msiDigitalSignatureEx", "msi_sigex_name")
		o.constString(msiA, "msiTarExMeta", "msi_tar_exmeta_name")
		o.constString(msiA, "msiTarStorageUID", "msi_tar_uid_name")
		// ---- the hashing order
		o.msiSort()
		// ---- hashMsiDir / prehashMsiDir
		o.msiDirLoop("hashMsiDir", "msi_hash", true, map[string][]string{"stream": {"cdf.ReadStream(item)", "io.Copy(d, r)"}, "storage": {"hashMsiDir(cdf, item, d)"}},
			"msi_hash_uid_last", "d.Write(parent.UID[:])", true)
		o.msiDirLoop("prehashMsiDir", "msi_pre", true, map[string][]string{"stream": {"prehashMsiDirent(item, d)"}, "storage": {"prehashMsiDir(cdf, item, d)"}},
			"msi_pre_parent_first", "prehashMsiDirent(parent, d)", false)
		uidOff, uidW := msiFieldOff("UID")
		o.msiPrehashDirent(uidOff, uidW)
		o.msiOrder("DigestMSI", "msi_digest_prehash_first", "d.Write(prehash)", "hashMsiDir(cdf, cdf.RootStorage(), d)")
		o.condOf(funcSpec{dir: msiA, name: "DigestMSI", coqName: "msi_digest_with_prehash", params: "(extended : bool)", retType: "bool",
			leaves: map[string]string{"extended": "extended"}, types: map[string]string{"extended": "bool"}}, "if:extended")
		// ---- VerifyMSI
		vl := map[string]string{"name": "name", "msiDigitalSignature": "msi_sig_name", "msiDigitalSignatureEx": "msi_sigex_name", "len(sig)": "siglen",
			"comdoc.SameName(name, msiDigitalSignature)": "same_sig", "comdoc.SameName(name, msiDigitalSignatureEx)": "same_sigex", "isMsiSignatureName(hdr.Name)": "issig"}
		vt := map[string]string{"name": "str", "msiDigitalSignature": "str", "msiDigitalSignatureEx": "str",
			"comdoc.SameName(name, msiDigitalSignature)": "bool", "comdoc.SameName(name, msiDigitalSignatureEx)": "bool", "isMsiSignatureName(hdr.Name)": "bool"}
		o.decisionFunc(funcSpec{dir: msiA, name: "isMsiSignatureName", coqName: "msi_is_sig_name", params: "(same_sig same_sigex : bool)", retType: "bool", leaves: vl, types: vt})
		o.decisionFunc(funcSpec{dir: msiA, name: "isMsiSignatureStream", coqName: "msi_is_sig_stream", params: "(pty ty : Z) (issig : bool)", retType: "bool",
			leaves: msiComdocLeaves(map[string]string{"parent.Type": "pty", "item.Type": "ty", "isMsiSignatureName(item.Name())": "issig"}),
			types:  map[string]string{"isMsiSignatureName(item.Name())": "bool"}})
		o.condOf(funcSpec{dir: msiA, name: "VerifyMSI", coqName: "msi_verify_is_sig", params: "(same_sig same_sigex : bool) (name : list Z)", retType: "bool", leaves: vl, types: vt}, "if:name", 0)
		o.condOf(funcSpec{dir: msiA, name: "VerifyMSI", coqName: "msi_verify_is_sigex", params: "(same_sig same_sigex : bool) (name : list Z)", retType: "bool", leaves: vl, types: vt}, "if:name", 1)
		o.msiTextTie2(msiC, "", "SameName", "msi_samename_encodes", "utf16.Encode([]rune(a))",
			"Definition msi_samename_encodes : bool := true. (* comdoc.SameName compares the UTF-16 encodings of the two names *)")
		o.msiTextTie2(msiC, "", "SameName", "msi_samename_len", "len(ra) != len(rb)",
			"Definition msi_samename_len : bool := true. (* ... which must have the same number of code units *)")
		o.msiTextTie2(msiC, "", "SameName", "msi_samename_upper", "upperUnit(ra[k]) != upperUnit(rb[k])",
			"Definition msi_samename_upper : bool := true. (* ... and the same upperUnit image, unit by unit *)")
		o.condOf(funcSpec{dir: msiA, name: "VerifyMSI", coqName: "msi_verify_skip_nonstream", params: "(ty : Z)", retType: "bool",
			leaves: msiComdocLeaves(map[string]string{"item.Type": "ty"})}, "if:item.Type")
		o.msiContinueFirst("VerifyMSI", "msi_verify_nonstream_first")
		o.condOf(funcSpec{dir: msiA, name: "VerifyMSI", coqName: "msi_verify_unsigned", params: "(siglen : Z)", retType: "bool", leaves: vl, types: vt}, "if:len(sig)")
		o.msiTextTie("VerifyMSI", "msi_verify_extended_iff_exsig", "DigestMSI(cdf, hash, exsig != nil)",
			"Definition msi_verify_extended_iff_exsig : bool := true. (* the verifier digests in extended mode exactly when a MsiDigitalSignatureEx stream exists *)")
		o.msiTextTie("VerifyMSI", "msi_verify_lists_root", "cdf.ListDir(nil)",
			"Definition msi_verify_lists_root : bool := true. (* the signature streams are looked up among the children of the root storage *)")
		// ---- InsertMSISignature
		o.condOf(funcSpec{dir: msiA, name: "InsertMSISignature", coqName: "msi_insert_has_ex", params: "(exlen : Z)", retType: "bool", leaves: map[string]string{"len(exsig)": "exlen"}}, "if:len(exsig)")
		o.msiInsertCalls()
		o.condOf(funcSpec{dir: msiA, name: "InsertMSISignature", coqName: "msi_insert_refuses", params: "(ty : Z) (issig : bool)", retType: "bool",
			leaves: msiComdocLeaves(map[string]string{"item.Type": "ty", "isMsiSignatureName(item.Name())": "issig"}),
			types:  map[string]string{"isMsiSignatureName(item.Name())": "bool"}}, "if:item.Type")
		o.msiOrder("InsertMSISignature", "msi_insert_check_first", "can't delete or replace storages", "cdf.AddFile(msiDigitalSignatureEx, exsig)")
		o.msiTextTie("InsertMSISignature", "msi_insert_check_lists_root", "cdf.ListDir(nil)",
			"Definition msi_insert_check_lists_root : bool := true. (* the check in front of the first AddFile / DeleteFile looks at the children of the root storage *)")
		o.msiFoldAlts("msiDigitalSignature", "msi_sig_fold")
		o.msiFoldAlts("msiDigitalSignatureEx", "msi_sigex_fold")
		o.msiTextTie2(msiC, "", "upperUnit", "msi_upper_is_toupper", "unicode.ToUpper(rune(u))",
			"Definition msi_upper_is_toupper : bool := true. (* comdoc.upperUnit is unicode.ToUpper on single code units *)")
		o.msiTextTie2(msiC, "", "lessDirEnt", "msi_less_dirent_len_first", "e.NameLength != f.NameLength",
			"Definition msi_less_dirent_len_first : bool := true. (* comdoc.lessDirEnt: names of different NameLength never match *)")
		o.msiTextTie2(msiC, "ComDoc", "DeleteFile", "msi_delete_matches_by_less", "lessDirEnt(item, probe) || lessDirEnt(probe, item)",
			"Definition msi_delete_matches_by_less : bool := true. (* comdoc.DeleteFile keeps exactly the entries that differ from the probe under lessDirEnt *)")
		// ---- tar route
		tl := map[string]string{"hdr.Name": "name", "msiTarExMeta": "msi_tar_exmeta_name", "msiDigitalSignature": "msi_sig_name", "msiDigitalSignatureEx": "msi_sigex_name", "extended": "extended",
			"isMsiSignatureName(hdr.Name)": "issig"}
		tt := map[string]string{"hdr.Name": "str", "msiTarExMeta": "str", "msiDigitalSignature": "str", "msiDigitalSignatureEx": "str", "extended": "bool", "isMsiSignatureName(hdr.Name)": "bool"}
		o.condOf(funcSpec{dir: msiA, name: "DigestMsiTar", coqName: "msi_tar_is_exmeta", params: "(name : list Z)", retType: "bool", leaves: tl, types: tt}, "if:hdr.Name", 0)
		o.condOf(funcSpec{dir: msiA, name: "DigestMsiTar", coqName: "msi_tar_exmeta_dropped", params: "(extended : bool)", retType: "bool", leaves: tl, types: tt}, "if:extended")
		o.condOf(funcSpec{dir: msiA, name: "DigestMsiTar", coqName: "msi_tar_is_sig", params: "(issig : bool) (name : list Z)", retType: "bool", leaves: tl, types: tt}, "if:hdr.Name", 1)
		o.msiTextTie("DigestMsiTar", "msi_tar_exmeta_hashed_once", "d2.Write(exmeta)",
			"Definition msi_tar_exmeta_hashed_once : bool := true. (* the exmeta member is digested on its own and the digest value is written to the imprint *)")
		o.msiOrder("MsiToTar", "msi_tar_exmeta_first", "tarAddFile(tw, msiTarExMeta, buf.Bytes())", "msiToTarDir(cdf, tw, cdf.RootStorage(), \"\")")
		o.msiTextTie("MsiToTar", "msi_tar_exmeta_is_prehash", "prehashMsiDir(cdf, cdf.RootStorage(), &buf)",
			"Definition msi_tar_exmeta_is_prehash : bool := true. (* the exmeta member is the byte string prehashMsiDir writes for the root *)")
		o.msiDirLoop("msiToTarDir", "msi_tard", false, map[string][]string{"stream": {"cdf.ReadStream(item)", "io.Copy(tw, r)"}, "storage": {"msiToTarDir(cdf, tw, item,"}},
			"msi_tard_uid_last", "tarAddFile(tw, path+msiTarStorageUID, parent.UID[:])", true)
		o.msiTextTie("msiToTarDir", "msi_tard_item_path", "path + msiDecodeName(item.Name())",
			"Definition msi_tard_item_path (path dname : list Z) : list Z := path ++ dname.")
		o.msiTextTie("msiToTarDir", "msi_tard_sub_path", "msiToTarDir(cdf, tw, item, itemPath+\"/\")",
			"Definition msi_tard_sub_path (item_path : list Z) : list Z := item_path ++ [47].")
		o.msiTextTie("msiToTarDir", "msi_tard_uid_path", "path + msiTarStorageUID",
			"Definition msi_tard_uid_path (path : list Z) : list Z := path ++ msi_tar_uid_name.")
		o.msiTextTie("msiToTarDir", "msi_tard_size_is_streamsize", "int64(item.StreamSize)",
			"Definition msi_tard_size_is_streamsize : bool := true.")
		// ---- msinames.go
		o.msiDecodeName()
		o.decisionFunc(funcSpec{dir: msiA, name: "msiDecodeRune", coqName: "msi_decode_rune", params: "(x : Z)", retType: "Z", leaves: map[string]string{"x": "x"}})
		for _, fn := range []string{"VerifyMSI", "DigestMSI", "PrehashMSI", "hashMsiDir", "prehashMsiDir", "prehashMsiDirent", "sortMsiFiles",
			"MsiToTar", "DigestMsiTar", "tarAddFile", "msiToTarDir", "InsertMSISignature", "msiDecodeName", "msiDecodeRune"} {
			fingerprint(msiA, "", fn)
		}
		fingerprint(msiC, "RawDirEnt", "Name")
		fingerprint(msiC, "ComDoc", "ListDir")
		fingerprint(msiC, "ComDoc", "AddFile")
		fingerprint(msiC, "ComDoc", "DeleteFile")
		fingerprint(msiC, "ComDoc", "newDirEnt")
		fingerprint(msiC, "", "lessDirEnt")
		fingerprint(msiC, "", "SameName")
		fingerprint(msiA, "", "isMsiSignatureName")
		fingerprint(msiA, "", "isMsiSignatureStream")
		fingerprint(msiC, "", "upperUnit")
		fingerprint("signers/msi", "", "transform")
		fingerprint("signers/msi", "", "sign")
		fingerprint("signers/msi", "msiTransformer", "Apply")
	}
}

// offset and width of a field of comdoc.RawDirEnt (the same computation structLayout emits)
func msiFieldOff(field string) (int, int) {
	_, st := findStruct(msiC, "RawDirEnt")
	if st == nil {
		return -1, 0
	}
	off := 0
	for _, fl := range st.Fields.List {
		w, ok := typeWidth(msiC, fl.Type)
		if !ok {
			return -1, 0
		}
		n := len(fl.Names)
		if n == 0 {
			n = 1
		}
		for i := 0; i < n; i++ {
			if len(fl.Names) > i && fl.Names[i].Name == field {
				return off, w
			}
			off += w
		}
	}
	return -1, 0
}

// msiTextTie for a method in another package
func (o *out) msiTextTie2(dir, recv, fn, coq, want, def string) {
	p, fd := findFunc(dir, recv, fn)
	if fd == nil {
		o.brokenDef(coq, "function "+fn+" not found")
		return
	}
	found := false
	ast.Inspect(fd.Body, func(n ast.Node) bool {
		if e, ok := n.(ast.Expr); ok && msiNorm(printNode(p.fset, e)) == want {
			found = true
		}
		return !found
	})
	if !found {
		o.brokenDef(coq, fn+": expression `"+want+"` not found")
		return
	}
	o.f("%s\n(* from %s:%s.%s : %s *)\n", def, dir, recv, fn, want)
}
