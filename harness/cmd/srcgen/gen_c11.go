package main

// C11 — guards of the small server-reachable parsers that the Coq models in coq/C11 are built from: every bounds check
// in front of a slice expression / allocation is a generated definition, so a removed or weakened check changes the model.
func init() {
	generators["C11_gen"] = func(o *out) {
		// ---------------- binpatch.Load
		bp := "lib/binpatch"
		o.structLayout(bp, "PatchSetHeader", "c11_psh")
		o.structLayout(bp, "PatchHeader", "c11_ph")
		ldL := map[string]string{"h.Version": "version", "h.NumPatches": "num", "r.Len()": "rlen", "hdr.NewSize": "new_size"}
		ld := func(coq, params string) funcSpec {
			return funcSpec{dir: bp, name: "Load", coqName: coq, params: params, retType: "bool", leaves: ldL}
		}
		o.condOf(ld("c11_load_version_bad", "(version : Z)"), "if:h.Version")
		o.condOf(ld("c11_load_count_exceeds", "(num rlen : Z)"), "if:h.NumPatches")
		o.condOf(ld("c11_load_blob_exceeds", "(new_size rlen : Z)"), "if:hdr.NewSize")
		fingerprint(bp, "", "Load")

		// ---------------- csblob.parseSuper
		cs := "lib/fruit/csblob"
		psL := map[string]string{"len(blob)": "blob_len", "uint32(len(blob))": "blob_len", "length": "length", "count": "count", "offset": "offset"}
		ps := func(coq, params string) funcSpec {
			return funcSpec{dir: cs, name: "parseSuper", coqName: coq, params: params, retType: "bool", leaves: psL}
		}
		o.condOf(ps("c11_super_short", "(blob_len : Z)"), "if:len(blob) < 12")
		o.condOf(ps("c11_super_len_bad", "(length blob_len : Z)"), "if:length < 8", 0)
		o.condOf(ps("c11_super_index_short", "(blob_len count : Z)"), "if:8*count")
		o.condOf(ps("c11_super_off_bad", "(offset blob_len : Z)"), "if:offset < 0")
		o.condOf(ps("c11_super_item_bad", "(length offset blob_len : Z)"), "if:length < 8", 1)
		fingerprint(cs, "", "parseSuper")

		// ---------------- signxap.removeSignature
		xp := "lib/signxap"
		o.constInt(xp, "trailerMagic", "c11_xap_trailer_magic")
		xpL := map[string]string{"size": "size", "tr.Magic": "magic", "tr.TrailerSize": "tsize", "trailerMagic": "c11_xap_trailer_magic"}
		o.condOf(funcSpec{dir: xp, name: "removeSignature", coqName: "c11_xap_short", params: "(size : Z)", retType: "bool", leaves: xpL}, "if:size < 10")
		o.condOf(funcSpec{dir: xp, name: "removeSignature", coqName: "c11_xap_is_trailer", params: "(magic tsize size : Z)", retType: "bool", leaves: xpL}, "if:tr.Magic")
		o.structLayout(xp, "xapTrailer", "c11_xtr")
		fingerprint(xp, "", "removeSignature")

		// ---------------- apk: getSigBlock, the pair loop of verify, unmarshalR
		ap := "signers/apk"
		sbL := map[string]string{"sigLoc": "sig_loc", "inz.DirLoc": "dir_loc", "len(blob)": "blob_len", "len(sigMagic)": "magic_len",
			"size1": "size1", "size2": "size2", "expected": "expected"}
		sb := func(coq, params string) funcSpec {
			return funcSpec{dir: ap, name: "getSigBlock", coqName: coq, params: params, retType: "bool", leaves: sbL}
		}
		o.condOf(sb("c11_sb_unsigned", "(sig_loc dir_loc : Z)"), "if:sigLoc == inz.DirLoc")
		o.condOf(sb("c11_sb_out_of_range", "(sig_loc dir_loc : Z)"), "if:sigLoc < 0")
		o.condOf(sb("c11_sb_too_short", "(blob_len magic_len : Z)"), "if:len(blob) < 8")
		o.condOf(sb("c11_sb_size_bad", "(size1 size2 expected : Z)"), "if:size1 != expected")
		o.callOrder(ap, "", "getSigBlock", "c11_sb_order", []string{"bytes.HasSuffix", "binary.LittleEndian.Uint64", "make"})
		vfL := map[string]string{"len(block)": "block_len", "uint64(len(block))": "block_len", "partSize": "part_size", "partType": "part_type",
			"sigApkV2": "c11_sig_apk_v2", "len(signerList)": "n_signers"}
		o.constInt(ap, "sigApkV2", "c11_sig_apk_v2")
		vf := func(coq, params string) funcSpec {
			return funcSpec{dir: ap, name: "verify", coqName: coq, params: params, retType: "bool", leaves: vfL}
		}
		o.condOf(vf("c11_pair_more", "(block_len : Z)"), "for:len(block) > 0")
		o.condOf(vf("c11_pair_short", "(block_len : Z)"), "if:len(block) < 12")
		o.condOf(vf("c11_pair_size_bad", "(part_size block_len : Z)"), "if:partSize < 4")
		o.condOf(vf("c11_pair_other", "(part_type : Z)"), "if:partType != sigApkV2")
		umL := map[string]string{"len(blob)": "blob_len", "size": "size"}
		um := func(coq, params string) funcSpec {
			return funcSpec{dir: ap, name: "unmarshalR", coqName: coq, params: params, retType: "bool", leaves: umL}
		}
		o.condOf(um("c11_um_scalar_short", "(blob_len : Z)"), "if:len(blob) < 4", 0)
		o.condOf(um("c11_um_prefix_short", "(blob_len : Z)"), "if:len(blob) < 4", 1)
		o.condOf(um("c11_um_size_exceeds", "(size blob_len : Z)"), "if:size > len(blob)")
		o.condOf(um("c11_um_slice_more", "(blob_len : Z)"), "for:len(blob) > 0")
		o.condOf(um("c11_um_struct_trailing", "(blob_len : Z)"), "if:len(blob) > 0")
		for _, fn := range []string{"getSigBlock", "verify", "unmarshalR", "unmarshal"} {
			fingerprint(ap, "", fn)
		}
	}
}
