package main

import (
	"fmt"
	"go/ast"
	"go/token"
	"os"
	"path/filepath"
	"regexp"
	"sort"
	"strconv"
	"strings"
)

// C11 — guards of the small server-reachable parsers that the Coq models in coq/C11 are built from: every bounds check
// in front of a slice expression / allocation is a generated definition, so a removed or weakened check changes the model.
func init() {
	generators["C11_gen"] = func(o *out) {
		// ---------------- binpatch.Load
		bp := "lib/binpatch"
		o.structLayout(bp, "PatchSetHeader", "c11_psh")
		o.structLayout(bp, "PatchHeader", "c11_ph")
		ldL := map[string]string{"h.Version": "version", "h.NumPatches": "num", "r.Len()": "rlen", "hdr.NewSize": "new_size"}
		ld := func(coq, params string) funcSpec {
			return funcSpec{dir: bp, name: "Load", coqName: coq, params: params, retType: "bool", leaves: ldL}
		}
		o.condOf(ld("c11_load_version_bad", "(version : Z)"), "if:h.Version")
		o.condOf(ld("c11_load_count_exceeds", "(num rlen : Z)"), "if:h.NumPatches")
		o.condOf(ld("c11_load_blob_exceeds", "(new_size rlen : Z)"), "if:hdr.NewSize")
		fingerprint(bp, "", "Load")

		// ---------------- csblob.parseSuper
		cs := "lib/fruit/csblob"
		psL := map[string]string{"len(blob)": "blob_len", "uint32(len(blob))": "blob_len", "length": "length", "count": "count", "offset": "offset"}
		ps := func(coq, params string) funcSpec {
			return funcSpec{dir: cs, name: "parseSuper", coqName: coq, params: params, retType: "bool", leaves: psL}
		}
		o.condOf(ps("c11_super_short", "(blob_len : Z)"), "if:len(blob) < 12")
		o.condOf(ps("c11_super_len_bad", "(length blob_len : Z)"), "if:length < 8", 0)
		o.condOf(ps("c11_super_index_short", "(blob_len count : Z)"), "if:8*count")
		o.condOf(ps("c11_super_off_bad", "(offset blob_len : Z)"), "if:offset < 0")
		o.condOf(ps("c11_super_item_bad", "(length offset blob_len : Z)"), "if:length < 8", 1)
		fingerprint(cs, "", "parseSuper")

		// ---------------- signxap.removeSignature
		xp := "lib/signxap"
		o.constInt(xp, "trailerMagic", "c11_xap_trailer_magic")
		xpL := map[string]string{"size": "size", "tr.Magic": "magic", "tr.TrailerSize": "tsize", "trailerMagic": "c11_xap_trailer_magic"}
		o.condOf(funcSpec{dir: xp, name: "removeSignature", coqName: "c11_xap_short", params: "(size : Z)", retType: "bool", leaves: xpL}, "if:size < 10")
		o.condOf(funcSpec{dir: xp, name: "removeSignature", coqName: "c11_xap_is_trailer", params: "(magic tsize size : Z)", retType: "bool", leaves: xpL}, "if:tr.Magic")
		o.structLayout(xp, "xapTrailer", "c11_xtr")
		fingerprint(xp, "", "removeSignature")

		// ---------------- apk: getSigBlock, the pair loop of verify, unmarshalR
		ap := "signers/apk"
		sbL := map[string]string{"sigLoc": "sig_loc", "inz.DirLoc": "dir_loc", "len(blob)": "blob_len", "len(sigMagic)": "magic_len",
			"size1": "size1", "size2": "size2", "expected": "expected"}
		sb := func(coq, params string) funcSpec {
			return funcSpec{dir: ap, name: "getSigBlock", coqName: coq, params: params, retType: "bool", leaves: sbL}
		}
		o.condOf(sb("c11_sb_unsigned", "(sig_loc dir_loc : Z)"), "if:sigLoc == inz.DirLoc")
		o.condOf(sb("c11_sb_out_of_range", "(sig_loc dir_loc : Z)"), "if:sigLoc < 0")
		o.condOf(sb("c11_sb_too_short", "(blob_len magic_len : Z)"), "if:len(blob) < 8")
		o.condOf(sb("c11_sb_size_bad", "(size1 size2 expected : Z)"), "if:size1 != expected")
		o.callOrder(ap, "", "getSigBlock", "c11_sb_order", []string{"bytes.HasSuffix", "binary.LittleEndian.Uint64", "make"})
		vfL := map[string]string{"len(block)": "block_len", "uint64(len(block))": "block_len", "partSize": "part_size", "partType": "part_type",
			"sigApkV2": "c11_sig_apk_v2", "len(signerList)": "n_signers"}
		o.constInt(ap, "sigApkV2", "c11_sig_apk_v2")
		vf := func(coq, params string) funcSpec {
			return funcSpec{dir: ap, name: "verify", coqName: coq, params: params, retType: "bool", leaves: vfL}
		}
		o.condOf(vf("c11_pair_more", "(block_len : Z)"), "for:len(block) > 0")
		o.condOf(vf("c11_pair_short", "(block_len : Z)"), "if:len(block) < 12")
		o.condOf(vf("c11_pair_size_bad", "(part_size block_len : Z)"), "if:partSize < 4")
		o.condOf(vf("c11_pair_other", "(part_type : Z)"), "if:partType != sigApkV2")
		umL := map[string]string{"len(blob)": "blob_len", "size": "size"}
		um := func(coq, params string) funcSpec {
			return funcSpec{dir: ap, name: "unmarshalR", coqName: coq, params: params, retType: "bool", leaves: umL}
		}
		o.condOf(um("c11_um_scalar_short", "(blob_len : Z)"), "if:len(blob) < 4", 0)
		o.condOf(um("c11_um_prefix_short", "(blob_len : Z)"), "if:len(blob) < 4", 1)
		o.condOf(um("c11_um_size_exceeds", "(size blob_len : Z)"), "if:size > len(blob)")
		o.condOf(um("c11_um_slice_more", "(blob_len : Z)"), "for:len(blob) > 0")
		o.condOf(um("c11_um_struct_trailing", "(blob_len : Z)"), "if:len(blob) > 0")
		for _, fn := range []string{"getSigBlock", "verify", "unmarshalR", "unmarshal"} {
			fingerprint(ap, "", fn)
		}
		c11Text(o)
	}
}

// =====================================================================================================================
// Site analysis: for every index expression x[i], slice expression x[a:b] and single-value type assertion x.(T) of a
// function, decide with a light forward analysis of the AST whether a dominating condition implies that it cannot panic.
// Facts are relations between printed expressions ("A<B", "A<=B"), constant lower bounds (expr >= k), results of the
// strings/bytes Index family (j = Index(x, sep): j >= -1, and j >= 0 -> j+len(sep) <= len(x)), range indices and
// aliases n := len(x).  Facts are killed when a variable they mention is assigned.  The analysis is deliberately simple:
// what it cannot prove is listed as UNGUARDED, and the Coq side states that the list equals a reviewed list.
type c11Site struct {
	fn, kind, text string
	guarded        bool
}

type c11Idx struct {
	x string
	s int64
}

type c11Facts struct {
	rel   map[string]bool   // "A<B" / "A<=B"
	lb    map[string]int64  // expr >= k
	idx   map[string]c11Idx // j = Index*(x, sep)
	rng   map[string]string // i from `for i := range x`
	alias map[string]string // n -> "len(x)"
}

func newC11Facts() *c11Facts {
	return &c11Facts{rel: map[string]bool{}, lb: map[string]int64{}, idx: map[string]c11Idx{}, rng: map[string]string{}, alias: map[string]string{}}
}
func (f *c11Facts) clone() *c11Facts {
	g := newC11Facts()
	for k, v := range f.rel {
		g.rel[k] = v
	}
	for k, v := range f.lb {
		g.lb[k] = v
	}
	for k, v := range f.idx {
		g.idx[k] = v
	}
	for k, v := range f.rng {
		g.rng[k] = v
	}
	for k, v := range f.alias {
		g.alias[k] = v
	}
	return g
}

var c11IdentRe = regexp.MustCompile(`[A-Za-z_][A-Za-z0-9_]*`)

func c11Mentions(expr string, names map[string]bool) bool {
	for _, id := range c11IdentRe.FindAllString(expr, -1) {
		if names[id] {
			return true
		}
	}
	return false
}

func (f *c11Facts) kill(names map[string]bool) {
	if len(names) == 0 {
		return
	}
	for k := range f.rel {
		if c11Mentions(k, names) {
			delete(f.rel, k)
		}
	}
	for k := range f.lb {
		if c11Mentions(k, names) {
			delete(f.lb, k)
		}
	}
	for k, v := range f.idx {
		if c11Mentions(k, names) || c11Mentions(v.x, names) {
			delete(f.idx, k)
		}
	}
	for k, v := range f.rng {
		if c11Mentions(k, names) || c11Mentions(v, names) {
			delete(f.rng, k)
		}
	}
	for k, v := range f.alias {
		if c11Mentions(k, names) || c11Mentions(v, names) {
			delete(f.alias, k)
		}
	}
}
func (f *c11Facts) setLB(e string, k int64) {
	if old, ok := f.lb[e]; !ok || k > old {
		f.lb[e] = k
	}
}

type c11An struct {
	p      *pkgInfo
	fn     string
	sites  []c11Site
	maps   map[string]bool // identifiers / field names known to be maps
	okAsrt map[*ast.TypeAssertExpr]bool
}

var c11Conv = map[string]bool{"int": true, "int64": true, "int32": true, "uint": true, "uint32": true, "uint64": true, "uint16": true, "uint8": true, "byte": true}

func (a *c11An) norm(f *c11Facts, e ast.Expr) string {
	switch x := e.(type) {
	case *ast.ParenExpr:
		return a.norm(f, x.X)
	case *ast.CallExpr:
		if id, ok := x.Fun.(*ast.Ident); ok && c11Conv[id.Name] && len(x.Args) == 1 {
			return a.norm(f, x.Args[0])
		}
		if id, ok := x.Fun.(*ast.Ident); ok && id.Name == "len" && len(x.Args) == 1 {
			return "len(" + a.norm(f, x.Args[0]) + ")"
		}
	case *ast.Ident:
		if f != nil {
			if v, ok := f.alias[x.Name]; ok {
				return v
			}
		}
		return x.Name
	case *ast.BinaryExpr:
		if x.Op == token.ADD || x.Op == token.SUB || x.Op == token.MUL {
			return a.norm(f, x.X) + x.Op.String() + a.norm(f, x.Y)
		}
	}
	return strings.Join(strings.Fields(printNode(a.p.fset, e)), "")
}

func c11Const(e ast.Expr) (int64, bool) {
	switch x := e.(type) {
	case *ast.ParenExpr:
		return c11Const(x.X)
	case *ast.BasicLit:
		if x.Kind == token.INT {
			v, err := strconv.ParseInt(x.Value, 0, 64)
			return v, err == nil
		}
		if x.Kind == token.CHAR {
			return 0, false
		}
	case *ast.UnaryExpr:
		if x.Op == token.SUB {
			v, ok := c11Const(x.X)
			return -v, ok
		}
	case *ast.CallExpr:
		if id, ok := x.Fun.(*ast.Ident); ok && c11Conv[id.Name] && len(x.Args) == 1 {
			return c11Const(x.Args[0])
		}
	}
	return 0, false
}

// length of a string literal / []byte("lit") / 'c' argument; -1 when unknown
func c11LitLen(e ast.Expr) int64 {
	switch x := e.(type) {
	case *ast.BasicLit:
		if x.Kind == token.STRING {
			s, err := strconv.Unquote(x.Value)
			if err == nil {
				return int64(len(s))
			}
		}
		if x.Kind == token.CHAR {
			return 1
		}
	case *ast.CallExpr:
		if len(x.Args) == 1 {
			if at, ok := x.Fun.(*ast.ArrayType); ok && at.Len == nil {
				return c11LitLen(x.Args[0])
			}
		}
	case *ast.CompositeLit:
		if at, ok := x.Type.(*ast.ArrayType); ok && at.Len == nil {
			return int64(len(x.Elts))
		}
	}
	return -1
}

// E = A+c / A-c decomposition on the AST
func c11PlusConst(e ast.Expr) (ast.Expr, int64, bool) {
	if p, ok := e.(*ast.ParenExpr); ok {
		return c11PlusConst(p.X)
	}
	if b, ok := e.(*ast.BinaryExpr); ok && (b.Op == token.ADD || b.Op == token.SUB) {
		if c, ok := c11Const(b.Y); ok {
			if b.Op == token.SUB {
				c = -c
			}
			return b.X, c, true
		}
		if c, ok := c11Const(b.X); ok && b.Op == token.ADD {
			return b.Y, c, true
		}
	}
	return nil, 0, false
}

func (a *c11An) assume(f *c11Facts, c ast.Expr, truth bool) {
	switch x := c.(type) {
	case *ast.ParenExpr:
		a.assume(f, x.X, truth)
		return
	case *ast.UnaryExpr:
		if x.Op == token.NOT {
			a.assume(f, x.X, !truth)
		}
		return
	case *ast.CallExpr:
		fn := printNode(a.p.fset, x.Fun)
		if truth && len(x.Args) == 2 && (fn == "strings.HasPrefix" || fn == "bytes.HasPrefix" || fn == "strings.HasSuffix" || fn == "bytes.HasSuffix") {
			if n := c11LitLen(x.Args[1]); n >= 0 {
				f.setLB("len("+a.norm(f, x.Args[0])+")", n)
			}
		}
		return
	case *ast.BinaryExpr:
		switch x.Op {
		case token.LAND:
			if truth {
				a.assume(f, x.X, true)
				a.assume(f, x.Y, true)
			}
			return
		case token.LOR:
			if !truth {
				a.assume(f, x.X, false)
				a.assume(f, x.Y, false)
			}
			return
		}
		op := x.Op
		if !truth {
			switch op {
			case token.LSS:
				op = token.GEQ
			case token.LEQ:
				op = token.GTR
			case token.GTR:
				op = token.LEQ
			case token.GEQ:
				op = token.LSS
			case token.EQL:
				op = token.NEQ
			case token.NEQ:
				op = token.EQL
			default:
				return
			}
		}
		L, R := x.X, x.Y
		// turn everything into L < R / L <= R / L == R / L != R
		switch op {
		case token.GTR:
			L, R, op = R, L, token.LSS
		case token.GEQ:
			L, R, op = R, L, token.LEQ
		}
		ln, rn := a.norm(f, L), a.norm(f, R)
		lc, lok := c11Const(L)
		rc, rok := c11Const(R)
		// string emptiness
		if bl, ok := R.(*ast.BasicLit); ok && bl.Kind == token.STRING {
			s, _ := strconv.Unquote(bl.Value)
			if (op == token.NEQ && s == "") || (x.Op == token.EQL && !truth && s == "") {
				f.setLB("len("+ln+")", 1)
			}
			if op == token.EQL {
				f.setLB("len("+ln+")", int64(len(s)))
			}
			return
		}
		switch op {
		case token.LSS:
			if lok && !rok {
				f.setLB(rn, lc+1)
			} else if !lok && !rok {
				f.rel[ln+"<"+rn] = true
			}
		case token.LEQ:
			if lok && !rok {
				f.setLB(rn, lc)
			} else if !lok && !rok {
				f.rel[ln+"<="+rn] = true
			}
		case token.EQL:
			if rok && !lok {
				f.setLB(ln, rc)
			} else if lok && !rok {
				f.setLB(rn, lc)
			} else if !lok && !rok {
				f.rel[ln+"<="+rn] = true
				f.rel[rn+"<="+ln] = true
			}
		case token.NEQ:
			// e != -1 for an Index result, len(x) != 0
			if rok && !lok {
				if cur, ok := f.lb[ln]; (ok && cur == rc) || (strings.HasPrefix(ln, "len(") && rc == 0) {
					f.setLB(ln, rc+1)
				} else if _, isIdx := f.idx[ln]; isIdx && rc == -1 {
					f.setLB(ln, 0)
				}
			}
		}
	}
}

func (a *c11An) lbOf(f *c11Facts, e string) (int64, bool) {
	if v, ok := f.lb[e]; ok {
		return v, true
	}
	if strings.HasPrefix(e, "len(") {
		return 0, true
	}
	if _, ok := f.idx[e]; ok {
		return -1, true
	}
	if _, ok := f.rng[e]; ok {
		return 0, true
	}
	return 0, false
}

func (a *c11An) nonneg(f *c11Facts, e ast.Expr) bool {
	if c, ok := c11Const(e); ok {
		return c >= 0
	}
	n := a.norm(f, e)
	if v, ok := a.lbOf(f, n); ok && v >= 0 {
		return true
	}
	if b, c, ok := c11PlusConst(e); ok {
		if v, ok2 := a.lbOf(f, a.norm(f, b)); ok2 && v+c >= 0 {
			return true
		}
	}
	return false
}

// e <= len(X) (strict: e < len(X))
func (a *c11An) belowLen(f *c11Facts, e ast.Expr, X string, strict bool) bool {
	L := "len(" + X + ")"
	if c, ok := c11Const(e); ok {
		v, _ := a.lbOf(f, L)
		if strict {
			return v >= c+1
		}
		return v >= c
	}
	n := a.norm(f, e)
	if n == L {
		return !strict
	}
	if f.rel[n+"<"+L] || (!strict && f.rel[n+"<="+L]) {
		return true
	}
	if f.rng[n] == X {
		return true
	}
	if ix, ok := f.idx[n]; ok && ix.x == X && a.nonneg(f, e) {
		if !strict || ix.s >= 1 {
			return true
		}
	}
	if b, c, ok := c11PlusConst(e); ok {
		bn := a.norm(f, b)
		if bn == L && c < 0 { // len(x)-c
			v, _ := a.lbOf(f, L)
			return v >= -c
		}
		if ix, ok := f.idx[bn]; ok && ix.x == X && a.nonneg(f, b) {
			if (strict && c < ix.s) || (!strict && c <= ix.s) {
				return true
			}
		}
		if c <= 0 && (f.rel[bn+"<"+L] || f.rel[bn+"<="+L] && (!strict || c < 0) || f.rng[bn] == X) {
			return true
		}
		if c == 1 && !strict && (f.rel[bn+"<"+L] || f.rng[bn] == X) {
			return true
		}
	}
	return false
}

func (a *c11An) isMap(x ast.Expr) bool {
	switch v := x.(type) {
	case *ast.Ident:
		return a.maps[v.Name]
	case *ast.SelectorExpr:
		return a.maps["."+v.Sel.Name] || v.Sel.Name == "HashNames" // x509tools.HashNames: map[crypto.Hash]string of another package
	case *ast.CallExpr:
		return false
	}
	return false
}

func (a *c11An) record(kind string, e ast.Expr, guarded bool) {
	a.sites = append(a.sites, c11Site{fn: a.fn, kind: kind, text: strings.Join(strings.Fields(printNode(a.p.fset, e)), " "), guarded: guarded})
}

func (a *c11An) siteIndex(f *c11Facts, x *ast.IndexExpr) {
	if a.isMap(x.X) {
		return
	}
	if bl, ok := x.Index.(*ast.BasicLit); ok && bl.Kind == token.STRING {
		return
	}
	X := a.norm(f, x.X)
	g := a.belowLen(f, x.Index, X, true) && a.nonneg(f, x.Index)
	a.record("index", x, g)
}

func (a *c11An) siteSlice(f *c11Facts, x *ast.SliceExpr) {
	X := a.norm(f, x.X)
	g := true
	switch {
	case x.Low == nil && x.High == nil:
	case x.High == nil:
		g = a.nonneg(f, x.Low) && a.belowLen(f, x.Low, X, false)
	case x.Low == nil:
		g = a.nonneg(f, x.High) && a.belowLen(f, x.High, X, false)
	default:
		g = a.nonneg(f, x.Low) && a.belowLen(f, x.High, X, false)
		lc, lok := c11Const(x.Low)
		hc, hok := c11Const(x.High)
		ln, hn := a.norm(f, x.Low), a.norm(f, x.High)
		switch {
		case lok && hok:
			g = g && lc <= hc
		case lok:
			v, ok := a.lbOf(f, hn)
			g = g && (lc == 0 && a.nonneg(f, x.High) || ok && v >= lc)
		default:
			ordered := ln == hn || f.rel[ln+"<="+hn] || f.rel[ln+"<"+hn]
			if b, c, ok := c11PlusConst(x.High); ok && a.norm(f, b) == ln && c >= 0 {
				ordered = true
			}
			g = g && ordered
		}
	}
	a.record("slice", x, g)
}

func (a *c11An) expr(f *c11Facts, e ast.Node) {
	if e == nil {
		return
	}
	ast.Inspect(e, func(n ast.Node) bool {
		switch x := n.(type) {
		case *ast.BinaryExpr:
			if x.Op == token.LAND || x.Op == token.LOR {
				a.expr(f, x.X)
				g := f.clone()
				a.assume(g, x.X, x.Op == token.LAND)
				a.expr(g, x.Y)
				return false
			}
		case *ast.FuncLit:
			a.block(f.clone(), x.Body.List)
			return false
		case *ast.IndexExpr:
			a.siteIndex(f, x)
		case *ast.SliceExpr:
			a.siteSlice(f, x)
		case *ast.TypeAssertExpr:
			if x.Type != nil && !a.okAsrt[x] {
				a.record("assert", x, false)
			}
		}
		return true
	})
}

func c11Assigned(n ast.Node, into map[string]bool) {
	if n == nil {
		return
	}
	ast.Inspect(n, func(m ast.Node) bool {
		switch x := m.(type) {
		case *ast.AssignStmt:
			for _, l := range x.Lhs {
				c11Root(l, into)
			}
		case *ast.IncDecStmt:
			c11Root(x.X, into)
		case *ast.RangeStmt:
			if x.Key != nil {
				c11Root(x.Key, into)
			}
			if x.Value != nil {
				c11Root(x.Value, into)
			}
		case *ast.DeclStmt:
			if gd, ok := x.Decl.(*ast.GenDecl); ok {
				for _, sp := range gd.Specs {
					if vs, ok := sp.(*ast.ValueSpec); ok {
						for _, nm := range vs.Names {
							into[nm.Name] = true
						}
					}
				}
			}
		case *ast.UnaryExpr:
			if x.Op == token.AND { // &v handed to a callee that may write it
				c11Root(x.X, into)
			}
		}
		return true
	})
}
func c11Root(e ast.Expr, into map[string]bool) {
	switch x := e.(type) {
	case *ast.Ident:
		into[x.Name] = true
	case *ast.SelectorExpr:
		into[x.Sel.Name] = true
		c11Root(x.X, into)
	case *ast.IndexExpr:
		c11Root(x.X, into)
	case *ast.StarExpr:
		c11Root(x.X, into)
	case *ast.ParenExpr:
		c11Root(x.X, into)
	}
}

func c11Terminates(list []ast.Stmt) bool {
	if len(list) == 0 {
		return false
	}
	switch x := list[len(list)-1].(type) {
	case *ast.ReturnStmt:
		return true
	case *ast.BranchStmt:
		return x.Tok == token.CONTINUE || x.Tok == token.BREAK || x.Tok == token.GOTO
	case *ast.ExprStmt:
		if ce, ok := x.X.(*ast.CallExpr); ok {
			if id, ok := ce.Fun.(*ast.Ident); ok && id.Name == "panic" {
				return true
			}
		}
	case *ast.BlockStmt:
		return c11Terminates(x.List)
	case *ast.IfStmt:
		if eb, ok := x.Else.(*ast.BlockStmt); ok {
			return c11Terminates(x.Body.List) && c11Terminates(eb.List)
		}
	}
	return false
}

var c11IndexFns = map[string]int64{"strings.Index": -2, "bytes.Index": -2, "strings.LastIndex": -2, "bytes.LastIndex": -2,
	"strings.IndexByte": 1, "bytes.IndexByte": 1, "strings.IndexRune": 1, "bytes.IndexRune": 1, "strings.IndexAny": 1, "bytes.IndexAny": 1,
	"strings.LastIndexByte": 1, "bytes.LastIndexByte": 1, "strings.LastIndexAny": 1, "bytes.LastIndexAny": 1}

func (a *c11An) noteMapType(name string, t ast.Expr) {
	switch x := t.(type) {
	case *ast.MapType:
		a.maps[name] = true
	case *ast.SelectorExpr:
		s := printNode(a.p.fset, x)
		if s == "http.Header" || s == "url.Values" || s == "textproto.MIMEHeader" {
			a.maps[name] = true
		}
	case *ast.Ident:
		if a.maps["type:"+x.Name] {
			a.maps[name] = true
		}
	case *ast.StarExpr:
	}
}

func (a *c11An) assign(f *c11Facts, x *ast.AssignStmt) {
	if len(x.Lhs) == 2 && len(x.Rhs) == 1 {
		if ta, ok := x.Rhs[0].(*ast.TypeAssertExpr); ok {
			a.okAsrt[ta] = true
		}
	}
	for _, r := range x.Rhs {
		a.expr(f, r)
	}
	for _, l := range x.Lhs {
		if _, ok := l.(*ast.Ident); !ok {
			a.expr(f, l)
		}
	}
	names := map[string]bool{}
	for _, l := range x.Lhs {
		c11Root(l, names)
	}
	selfRef := false
	if len(x.Lhs) == 1 && len(x.Rhs) == 1 {
		if id, ok := x.Lhs[0].(*ast.Ident); ok {
			selfRef = c11Mentions(printNode(a.p.fset, x.Rhs[0]), map[string]bool{id.Name: true})
		}
	}
	f.kill(names)
	if len(x.Lhs) != len(x.Rhs) {
		return
	}
	for i, l := range x.Lhs {
		id, ok := l.(*ast.Ident)
		if !ok || id.Name == "_" || selfRef {
			continue
		}
		switch r := x.Rhs[i].(type) {
		case *ast.CallExpr:
			fn := printNode(a.p.fset, r.Fun)
			if s, ok := c11IndexFns[fn]; ok && len(r.Args) == 2 {
				if s == -2 {
					s = c11LitLen(r.Args[1])
					if s < 0 {
						s = 0
					}
				}
				f.idx[id.Name] = c11Idx{x: a.norm(f, r.Args[0]), s: s}
			}
			if fn == "len" && len(r.Args) == 1 {
				f.alias[id.Name] = "len(" + a.norm(f, r.Args[0]) + ")"
			}
			if fn == "make" && len(r.Args) >= 2 {
				a.noteMapType(id.Name, r.Args[0])
				if c, ok := c11Const(r.Args[1]); ok {
					f.setLB("len("+id.Name+")", c)
				} else if _, isArr := r.Args[0].(*ast.ArrayType); isArr {
					f.rel[a.norm(f, r.Args[1])+"<=len("+id.Name+")"] = true
				}
			}
			if fn == "make" && len(r.Args) == 1 {
				a.noteMapType(id.Name, r.Args[0])
			}
		case *ast.CompositeLit:
			if r.Type != nil {
				a.noteMapType(id.Name, r.Type)
			}
		case *ast.BasicLit:
			if c, ok := c11Const(r); ok {
				f.setLB(id.Name, c)
			}
		}
	}
}

func (a *c11An) block(f *c11Facts, list []ast.Stmt) {
	for _, s := range list {
		a.stmt(f, s)
	}
}

func (a *c11An) stmt(f *c11Facts, s ast.Stmt) {
	switch x := s.(type) {
	case nil:
	case *ast.BlockStmt:
		a.block(f, x.List)
	case *ast.LabeledStmt:
		a.stmt(f, x.Stmt)
	case *ast.AssignStmt:
		a.assign(f, x)
	case *ast.IncDecStmt:
		a.expr(f, x.X)
		nm := map[string]bool{}
		c11Root(x.X, nm)
		n := a.norm(f, x.X)
		old, had := f.lb[n]
		f.kill(nm)
		if had && x.Tok == token.INC {
			f.lb[n] = old
		}
	case *ast.DeclStmt:
		if gd, ok := x.Decl.(*ast.GenDecl); ok {
			for _, sp := range gd.Specs {
				vs, ok := sp.(*ast.ValueSpec)
				if !ok {
					continue
				}
				if len(vs.Names) == 2 && len(vs.Values) == 1 {
					if ta, ok := vs.Values[0].(*ast.TypeAssertExpr); ok {
						a.okAsrt[ta] = true
					}
				}
				for _, v := range vs.Values {
					a.expr(f, v)
				}
				nm := map[string]bool{}
				for _, id := range vs.Names {
					nm[id.Name] = true
				}
				f.kill(nm)
				for _, id := range vs.Names {
					if vs.Type != nil {
						a.noteMapType(id.Name, vs.Type)
						if at, ok := vs.Type.(*ast.ArrayType); ok && at.Len != nil {
							if c, ok := c11Const(at.Len); ok {
								f.setLB("len("+id.Name+")", c)
							}
						}
					}
				}
			}
		}
	case *ast.ExprStmt:
		a.expr(f, x.X)
		nm := map[string]bool{}
		c11Assigned(x, nm)
		f.kill(nm)
	case *ast.ReturnStmt:
		for _, r := range x.Results {
			a.expr(f, r)
		}
	case *ast.GoStmt:
		if fl, ok := x.Call.Fun.(*ast.FuncLit); ok {
			for _, arg := range x.Call.Args {
				a.expr(f, arg)
			}
			a.block(newC11Facts(), fl.Body.List)
		} else {
			a.expr(f, x.Call)
		}
	case *ast.DeferStmt:
		a.expr(f, x.Call)
	case *ast.SendStmt:
		a.expr(f, x.Chan)
		a.expr(f, x.Value)
	case *ast.IfStmt:
		if x.Init != nil {
			a.stmt(f, x.Init)
		}
		a.expr(f, x.Cond)
		ft := f.clone()
		a.assume(ft, x.Cond, true)
		a.block(ft, x.Body.List)
		fe := f.clone()
		a.assume(fe, x.Cond, false)
		var elseList []ast.Stmt
		switch e := x.Else.(type) {
		case *ast.BlockStmt:
			elseList = e.List
			a.block(fe, e.List)
		case *ast.IfStmt:
			elseList = []ast.Stmt{e}
			a.stmt(fe, e)
		}
		thenT, elseT := c11Terminates(x.Body.List), x.Else != nil && c11Terminates(elseList)
		nm := map[string]bool{}
		switch {
		case thenT && !elseT:
			if x.Else != nil {
				c11Assigned(x.Else, nm)
			}
			f.kill(nm)
			a.assume(f, x.Cond, false)
			if x.Else != nil { // facts established inside the else branch survive
				for k, v := range fe.lb {
					f.setLB(k, v)
				}
			}
		case elseT && !thenT:
			c11Assigned(x.Body, nm)
			f.kill(nm)
			a.assume(f, x.Cond, true)
		default:
			c11Assigned(x.Body, nm)
			if x.Else != nil {
				c11Assigned(x.Else, nm)
			}
			f.kill(nm)
		}
	case *ast.ForStmt:
		if x.Init != nil {
			a.stmt(f, x.Init)
		}
		nm := map[string]bool{}
		c11Assigned(x.Body, nm)
		var ctr string
		var ctrLB int64
		if x.Post != nil {
			c11Assigned(x.Post, nm)
			// loop counter: i := c; ...; i++ / i += k with no other assignment to i
			if as, ok := x.Init.(*ast.AssignStmt); ok && len(as.Lhs) == 1 && len(as.Rhs) == 1 {
				if id, ok := as.Lhs[0].(*ast.Ident); ok {
					if c, ok := c11Const(as.Rhs[0]); ok {
						inc := false
						switch p := x.Post.(type) {
						case *ast.IncDecStmt:
							inc = p.Tok == token.INC && printNode(a.p.fset, p.X) == id.Name
						case *ast.AssignStmt:
							if p.Tok == token.ADD_ASSIGN && len(p.Lhs) == 1 && printNode(a.p.fset, p.Lhs[0]) == id.Name {
								k, ok := c11Const(p.Rhs[0])
								inc = ok && k >= 0
							}
						}
						body := map[string]bool{}
						c11Assigned(x.Body, body)
						if inc && !body[id.Name] {
							ctr, ctrLB = id.Name, c
						}
					}
				}
			}
		}
		f.kill(nm)
		if ctr != "" {
			f.setLB(ctr, ctrLB)
		}
		fb := f.clone()
		if x.Cond != nil {
			a.expr(f, x.Cond)
			a.assume(fb, x.Cond, true)
		}
		a.block(fb, x.Body.List)
		if x.Post != nil {
			a.stmt(fb, x.Post)
		}
	case *ast.RangeStmt:
		a.expr(f, x.X)
		nm := map[string]bool{}
		c11Assigned(x.Body, nm)
		if x.Key != nil {
			c11Root(x.Key, nm)
		}
		if x.Value != nil {
			c11Root(x.Value, nm)
		}
		f.kill(nm)
		fb := f.clone()
		if id, ok := x.Key.(*ast.Ident); ok && id.Name != "_" {
			X := a.norm(f, x.X)
			body := map[string]bool{}
			c11Assigned(x.Body, body)
			if !c11Mentions(X, body) && !body[id.Name] && !a.isMap(x.X) {
				fb.rng[id.Name] = X
			}
		}
		a.block(fb, x.Body.List)
	case *ast.SwitchStmt:
		if x.Init != nil {
			a.stmt(f, x.Init)
		}
		if x.Tag != nil {
			a.expr(f, x.Tag)
		}
		var prev []ast.Expr
		for _, c := range x.Body.List {
			cc := c.(*ast.CaseClause)
			fc := f.clone()
			if x.Tag == nil {
				for _, p := range prev {
					a.assume(fc, p, false)
				}
			}
			for _, e := range cc.List {
				a.expr(fc, e)
			}
			if x.Tag == nil && len(cc.List) == 1 {
				a.assume(fc, cc.List[0], true)
			}
			if x.Tag == nil {
				prev = append(prev, cc.List...)
			}
			a.block(fc, cc.Body)
		}
		nm := map[string]bool{}
		c11Assigned(x.Body, nm)
		f.kill(nm)
	case *ast.TypeSwitchStmt:
		if x.Init != nil {
			a.stmt(f, x.Init)
		}
		// the guard x.(type) is not a panicking assertion
		for _, c := range x.Body.List {
			a.block(f.clone(), c.(*ast.CaseClause).Body)
		}
		nm := map[string]bool{}
		c11Assigned(x.Body, nm)
		f.kill(nm)
	case *ast.SelectStmt:
		for _, c := range x.Body.List {
			cc := c.(*ast.CommClause)
			fc := f.clone()
			if cc.Comm != nil {
				a.stmt(fc, cc.Comm)
			}
			a.block(fc, cc.Body)
		}
		nm := map[string]bool{}
		c11Assigned(x.Body, nm)
		f.kill(nm)
	case *ast.BranchStmt, *ast.EmptyStmt:
	default:
		a.expr(f, s)
	}
}

// package-level map knowledge: struct fields of map type (by field name, ".Name"), named map types ("type:Name")
func c11PkgMaps(p *pkgInfo) map[string]bool {
	m := map[string]bool{}
	for pass := 0; pass < 2; pass++ {
		for _, f := range p.files {
			for _, d := range f.Decls {
				gd, ok := d.(*ast.GenDecl)
				if !ok {
					continue
				}
				for _, sp := range gd.Specs {
					switch ts := sp.(type) {
					case *ast.TypeSpec:
						switch t := ts.Type.(type) {
						case *ast.MapType:
							m["type:"+ts.Name.Name] = true
						case *ast.StructType:
							for _, fl := range t.Fields.List {
								isMap := false
								switch ft := fl.Type.(type) {
								case *ast.MapType:
									isMap = true
								case *ast.SelectorExpr:
									s := printNode(p.fset, ft)
									isMap = s == "http.Header" || s == "url.Values"
								case *ast.Ident:
									isMap = m["type:"+ft.Name]
								}
								if isMap {
									for _, nm := range fl.Names {
										m["."+nm.Name] = true
									}
								}
							}
						}
					case *ast.ValueSpec:
						for _, nm := range ts.Names {
							if _, ok := ts.Type.(*ast.MapType); ok {
								m[nm.Name] = true
							}
							for _, v := range ts.Values {
								if cl, ok := v.(*ast.CompositeLit); ok {
									if _, ok := cl.Type.(*ast.MapType); ok {
										m[nm.Name] = true
									}
								}
							}
						}
					}
				}
			}
		}
	}
	return m
}

func c11FuncName(fd *ast.FuncDecl) string {
	if fd.Recv != nil && len(fd.Recv.List) == 1 {
		t := fd.Recv.List[0].Type
		if s, ok := t.(*ast.StarExpr); ok {
			t = s.X
		}
		if id, ok := t.(*ast.Ident); ok {
			return id.Name + "." + fd.Name.Name
		}
	}
	return fd.Name.Name
}

// analyse every function declared in the given files of a package (nil = all files); source order
func c11Analyse(dir string, files []string) []c11Site {
	p := loadPkg(dir)
	pm := c11PkgMaps(p)
	var names []string
	for n := range p.files {
		if files == nil {
			names = append(names, n)
		} else {
			for _, w := range files {
				if w == n {
					names = append(names, n)
				}
			}
		}
	}
	sort.Strings(names)
	if files != nil && len(names) != len(files) {
		broken = append(broken, fmt.Sprintf("C11 site analysis: files %v of %s not all present (%v)", files, dir, names))
	}
	var all []c11Site
	for _, n := range names {
		for _, d := range p.files[n].Decls {
			fd, ok := d.(*ast.FuncDecl)
			if !ok || fd.Body == nil {
				continue
			}
			a := &c11An{p: p, fn: c11FuncName(fd), maps: map[string]bool{}, okAsrt: map[*ast.TypeAssertExpr]bool{}}
			for k, v := range pm {
				a.maps[k] = v
			}
			f := newC11Facts()
			if fd.Type.Params != nil {
				for _, fl := range fd.Type.Params.List {
					for _, nm := range fl.Names {
						a.noteMapType(nm.Name, fl.Type)
						if at, ok := fl.Type.(*ast.ArrayType); ok && at.Len != nil {
							if c, ok := c11Const(at.Len); ok {
								f.setLB("len("+nm.Name+")", c)
							}
						}
					}
				}
			}
			a.block(f, fd.Body.List)
			all = append(all, a.sites...)
		}
	}
	return all
}

func c11CoqStr(s string) string { return "\"" + strings.ReplaceAll(s, "\"", "\"\"") + "\"" }

func (o *out) c11Unguarded(coqName, dir string, files []string) {
	sites := c11Analyse(dir, files)
	var items []string
	total := 0
	for _, s := range sites {
		total++
		if !s.guarded {
			items = append(items, "  "+c11CoqStr(s.fn+": "+s.kind+" "+s.text))
		}
	}
	o.f("(* %s %v: %d index / slice / assertion sites, %d not dominated by a bounds / ok check *)\n", dir, files, total, len(items))
	o.f("Definition %s : list String.string := [\n%s]%%string.\n", coqName, strings.Join(items, ";\n"))
}

// the complete site table of one function: (site, guarded)
func (o *out) c11SiteTable(coqName, dir, fn string) {
	sites := c11Analyse(dir, nil)
	var items []string
	for _, s := range sites {
		if s.fn == fn {
			items = append(items, fmt.Sprintf("  (%s, %v)", c11CoqStr(s.kind+" "+s.text), s.guarded))
		}
	}
	if _, fd := findFunc(dir, "", fn); fd == nil && !strings.Contains(fn, ".") {
		o.brokenDef(coqName, "function "+dir+":"+fn+" not found")
		return
	}
	o.f("Definition %s : list (String.string * bool) := [\n%s]%%string. (* every index / slice / assertion site of %s:%s in source order *)\n", coqName, strings.Join(items, ";\n"), dir, fn)
}

// =====================================================================================================================
// Goroutine inventory: every `go` statement of the packages under lib/ and signers/: where it is, which package-local
// functions the goroutine calls, whether it recovers, whether it drains its pipe after the parser returned, and whether
// the channel it reports on is buffered.
type c11Go struct {
	where   string
	callees []string
	recov   bool
	drains  bool
	closes  bool // closes the read side of its pipe (CloseWithError / Close on a *PipeReader-like local), which unblocks the writer
}

func c11Goroutines(roots []string) []c11Go {
	var dirs []string
	for _, r := range roots {
		_ = filepath.Walk(filepath.Join(repo, r), func(path string, info os.FileInfo, err error) error {
			if err == nil && info.IsDir() {
				rel, _ := filepath.Rel(repo, path)
				dirs = append(dirs, rel)
			}
			return nil
		})
	}
	sort.Strings(dirs)
	var res []c11Go
	for _, d := range dirs {
		p := loadPkg(d)
		local := map[string]bool{}
		var fnames []string
		for n, f := range p.files {
			fnames = append(fnames, n)
			for _, dd := range f.Decls {
				if fd, ok := dd.(*ast.FuncDecl); ok && fd.Recv == nil {
					local[fd.Name.Name] = true
				}
			}
		}
		sort.Strings(fnames)
		for _, n := range fnames {
			for _, dd := range p.files[n].Decls {
				fd, ok := dd.(*ast.FuncDecl)
				if !ok || fd.Body == nil {
					continue
				}
				ast.Inspect(fd.Body, func(m ast.Node) bool {
					gs, ok := m.(*ast.GoStmt)
					if !ok {
						return true
					}
					g := c11Go{where: d + ":" + c11FuncName(fd)}
					seen := map[string]bool{}
					ast.Inspect(gs.Call, func(k ast.Node) bool {
						ce, ok := k.(*ast.CallExpr)
						if !ok {
							return true
						}
						callee := printNode(p.fset, ce.Fun)
						if id, ok := ce.Fun.(*ast.Ident); ok {
							if id.Name == "recover" {
								g.recov = true
							}
							if local[id.Name] && !seen[id.Name] {
								seen[id.Name] = true
								g.callees = append(g.callees, id.Name)
							}
						}
						if sel, ok := ce.Fun.(*ast.SelectorExpr); ok && !seen["."+sel.Sel.Name] {
							// method calls on package-local receivers are listed by method name
							if _, isIdent := sel.X.(*ast.Ident); isIdent && ast.IsExported(sel.Sel.Name) == false {
								seen["."+sel.Sel.Name] = true
								g.callees = append(g.callees, "."+sel.Sel.Name)
							}
						}
						if sel, ok := ce.Fun.(*ast.SelectorExpr); ok && (sel.Sel.Name == "CloseWithError" || sel.Sel.Name == "Close") {
							if id, ok := sel.X.(*ast.Ident); ok && strings.Contains(strings.ToLower(id.Name), "read") {
								g.closes = true
							}
						}
						if callee == "io.Copy" && len(ce.Args) == 2 {
							a0 := printNode(p.fset, ce.Args[0])
							if a0 == "ioutil.Discard" || a0 == "io.Discard" {
								g.drains = true
							}
						}
						return true
					})
					res = append(res, g)
					return true
				})
			}
		}
	}
	return res
}

func (o *out) c11GoInventory(coqName string, roots []string) {
	gs := c11Goroutines(roots)
	if len(gs) == 0 {
		o.brokenDef(coqName, "no go statements found under "+strings.Join(roots, ","))
		return
	}
	var items []string
	for _, g := range gs {
		var cs []string
		for _, c := range g.callees {
			cs = append(cs, c11CoqStr(c))
		}
		items = append(items, fmt.Sprintf("  (%s, [%s], %v, %v)", c11CoqStr(g.where), strings.Join(cs, "; "), g.recov, g.drains || g.closes))
	}
	o.f("(* go statements under %s: (package:function, package-local callees, recovers, releases its writer: drains the reader with io.Copy(Discard) or closes the read side) *)\n", strings.Join(roots, ", "))
	o.f("Definition %s : list (String.string * list String.string * bool * bool) := [\n%s]%%string.\n", coqName, strings.Join(items, ";\n"))
	for _, g := range gs {
		if len(g.callees) == 1 && (g.callees[0] == "tailClearSign" || g.callees[0] == "headClearSign" || g.callees[0] == "parseControl") {
			o.f("Definition %s_releases_%s : bool := %v. (* the goroutine of %s around %s drains or closes its reader *)\n", coqName, g.callees[0], g.drains || g.closes, g.where, g.callees[0])
		}
	}
}

// ------------------------------------------------------------------------------------------------ small extractors
func c11LitBytes(e ast.Expr) ([]byte, bool) {
	switch x := e.(type) {
	case *ast.BasicLit:
		if x.Kind == token.STRING {
			s, err := strconv.Unquote(x.Value)
			return []byte(s), err == nil
		}
		if x.Kind == token.CHAR {
			r, _, _, err := strconv.UnquoteChar(x.Value[1:len(x.Value)-1], '\'')
			if err == nil && r < 256 {
				return []byte{byte(r)}, true
			}
		}
	case *ast.CallExpr:
		if at, ok := x.Fun.(*ast.ArrayType); ok && at.Len == nil && len(x.Args) == 1 {
			return c11LitBytes(x.Args[0])
		}
	case *ast.CompositeLit:
		if at, ok := x.Type.(*ast.ArrayType); ok && at.Len == nil {
			var b []byte
			for _, el := range x.Elts {
				v, ok := c11LitBytes(el)
				if !ok || len(v) != 1 {
					return nil, false
				}
				b = append(b, v[0])
			}
			return b, true
		}
	}
	return nil, false
}

// the literal (string / []byte / rune) argument #arg of the nth call of `callee` in the function
func (o *out) c11CallLit(dir, fn, callee string, arg, nth int, coqName string) {
	p, fd := findFunc(dir, "", fn)
	if fd == nil {
		o.brokenDef(coqName, "function "+dir+":"+fn+" not found")
		return
	}
	k := 0
	var found ast.Expr
	ast.Inspect(fd.Body, func(n ast.Node) bool {
		if ce, ok := n.(*ast.CallExpr); ok && found == nil && printNode(p.fset, ce.Fun) == callee && len(ce.Args) > arg {
			if k == nth {
				found = ce.Args[arg]
			}
			k++
		}
		return true
	})
	if found == nil {
		o.brokenDef(coqName, fmt.Sprintf("no call #%d of %s in %s", nth, callee, fn))
		return
	}
	if c, ok := c11Const(found); ok {
		o.f("Definition %s : Z := %d. (* %s:%s : argument %d of %s *)\n", coqName, c, dir, fn, arg, callee)
		return
	}
	b, ok := c11LitBytes(found)
	if !ok {
		o.brokenDef(coqName, fmt.Sprintf("argument %d of %s in %s is not a literal: %s", arg, callee, fn, printNode(p.fset, found)))
		return
	}
	o.f("Definition %s : list Z := %s. (* %s:%s : argument %d of %s = %q *)\n", coqName, bytesLit(b), dir, fn, arg, callee, string(b))
}

// package-level `var name = []byte("lit")`
func (o *out) c11VarBytes(dir, name, coqName string) {
	p := loadPkg(dir)
	for _, f := range p.files {
		for _, d := range f.Decls {
			gd, ok := d.(*ast.GenDecl)
			if !ok || gd.Tok != token.VAR {
				continue
			}
			for _, sp := range gd.Specs {
				vs := sp.(*ast.ValueSpec)
				for i, nm := range vs.Names {
					if nm.Name == name && i < len(vs.Values) {
						if b, ok := c11LitBytes(vs.Values[i]); ok {
							o.f("Definition %s : list Z := %s. (* %s.%s = %q *)\n", coqName, bytesLit(b), dir, name, string(b))
							return
						}
					}
				}
			}
		}
	}
	o.brokenDef(coqName, "package variable "+dir+"."+name+" with a literal value not found")
}

// bounds (lo, hi) of the nth slice expression of the function whose printed form is `text`; an omitted low bound is 0,
// an omitted high bound is the leaf "len(<base>)"
func (o *out) c11SliceBounds(fs funcSpec, text string, nth int) {
	p, fd := findFunc(fs.dir, fs.recv, fs.name)
	if fd == nil {
		o.brokenDef(fs.coqName, "function "+fs.dir+":"+fs.name+" not found")
		return
	}
	var found *ast.SliceExpr
	k := 0
	ast.Inspect(fd.Body, func(n ast.Node) bool {
		if se, ok := n.(*ast.SliceExpr); ok && found == nil && strings.Join(strings.Fields(printNode(p.fset, se)), "") == strings.ReplaceAll(text, " ", "") {
			if k == nth {
				found = se
			}
			k++
		}
		return true
	})
	if found == nil {
		o.brokenDef(fs.coqName, fmt.Sprintf("no slice expression #%d `%s` in %s", nth, text, fs.name))
		return
	}
	t := o.newTr(p, fs)
	lo, hi := "0", ""
	if found.Low != nil {
		lo = t.expr(found.Low)
	}
	if found.High != nil {
		hi = t.expr(found.High)
	} else {
		hi = t.expr(&ast.CallExpr{Fun: ast.NewIdent("len"), Args: []ast.Expr{found.X}})
	}
	if t.err != nil {
		o.brokenDef(fs.coqName, t.err.Error())
		return
	}
	o.f("Definition %s %s : Z * Z := (%s, %s). (* %s:%s : bounds of %s *)\n", fs.coqName, fs.params, lo, hi, fs.dir, fs.name, text)
}

// the constant indexes applied to variable `base` in the function, in source order
func (o *out) c11ConstIndexes(dir, fn, base, coqName string) {
	p, fd := findFunc(dir, "", fn)
	if fd == nil {
		o.brokenDef(coqName, "function "+dir+":"+fn+" not found")
		return
	}
	var xs []string
	bad := ""
	ast.Inspect(fd.Body, func(n ast.Node) bool {
		if ie, ok := n.(*ast.IndexExpr); ok && printNode(p.fset, ie.X) == base {
			if c, ok := c11Const(ie.Index); ok {
				xs = append(xs, strconv.FormatInt(c, 10))
			} else {
				bad = printNode(p.fset, ie)
			}
		}
		return true
	})
	if bad != "" {
		o.brokenDef(coqName, "non-constant index "+bad)
		return
	}
	o.f("Definition %s : list Z := [%s]. (* %s:%s : constant indexes into %s *)\n", coqName, strings.Join(xs, "; "), dir, fn, base)
}

// tagged switch whose tag contains marker: (case literal, first assigned selector of the body)
func (o *out) c11SwitchLits(dir, fn, marker, coqName string, targets []string) {
	type litT struct {
		lit    []byte
		target string
	}
	var lits []litT
	p, fd := findFunc(dir, "", fn)
	if fd == nil {
		o.brokenDef(coqName, "function "+dir+":"+fn+" not found")
		return
	}
	var items []string
	ok := false
	ast.Inspect(fd.Body, func(n ast.Node) bool {
		sw, is := n.(*ast.SwitchStmt)
		if !is || sw.Tag == nil || !strings.Contains(printNode(p.fset, sw.Tag), marker) || ok {
			return true
		}
		ok = true
		for _, c := range sw.Body.List {
			cc := c.(*ast.CaseClause)
			target := "?"
			if len(cc.Body) == 1 {
				if as, is := cc.Body[0].(*ast.AssignStmt); is && len(as.Lhs) == 1 && len(as.Rhs) == 1 {
					target = printNode(p.fset, as.Lhs[0]) + "=" + printNode(p.fset, as.Rhs[0])
				}
			}
			if cc.List == nil {
				items = append(items, fmt.Sprintf("([], %s)", c11CoqStr("default:"+target)))
			}
			for _, e := range cc.List {
				b, isLit := c11LitBytes(e)
				if !isLit {
					ok = false
					return false
				}
				items = append(items, fmt.Sprintf("(%s, %s)", bytesLit(b), c11CoqStr(target)))
				lits = append(lits, litT{b, target})
			}
		}
		return false
	})
	if !ok {
		o.brokenDef(coqName, "no switch on `"+marker+"` with literal cases in "+fn)
		return
	}
	o.f("Definition %s : list (list Z * String.string) := [%s]%%string. (* %s:%s : switch %s *)\n", coqName, strings.Join(items, "; "), dir, fn, marker)
	// the same table with the assignment target as its position in `targets` (99 = none of them), for the executable model
	var coded []string
	for _, it := range lits {
		code := 99
		for i, t := range targets {
			if it.target == t {
				code = i
			}
		}
		coded = append(coded, fmt.Sprintf("(%s, %d)", bytesLit(it.lit), code))
	}
	o.f("Definition %s_coded : list (list Z * Z) := [%s]. (* targets: %s *)\n", coqName, strings.Join(coded, "; "), strings.Join(targets, " | "))
}

// capacity of the channel assigned to `name` by make(chan T[, n]) in the function (0 = unbuffered)
func (o *out) c11ChanCap(dir, fn, name, coqName string) {
	p, fd := findFunc(dir, "", fn)
	if fd == nil {
		o.brokenDef(coqName, "function "+dir+":"+fn+" not found")
		return
	}
	capv := int64(-1)
	ast.Inspect(fd.Body, func(n ast.Node) bool {
		as, ok := n.(*ast.AssignStmt)
		if !ok || len(as.Lhs) != 1 || len(as.Rhs) != 1 || printNode(p.fset, as.Lhs[0]) != name {
			return true
		}
		ce, ok := as.Rhs[0].(*ast.CallExpr)
		if !ok || printNode(p.fset, ce.Fun) != "make" || len(ce.Args) == 0 {
			return true
		}
		if _, isChan := ce.Args[0].(*ast.ChanType); !isChan {
			return true
		}
		capv = 0
		if len(ce.Args) == 2 {
			if c, ok := c11Const(ce.Args[1]); ok {
				capv = c
			} else {
				capv = -2
			}
		}
		return true
	})
	if capv < 0 {
		o.brokenDef(coqName, fmt.Sprintf("no `%s = make(chan ...)` with a constant capacity in %s", name, fn))
		return
	}
	o.f("Definition %s : Z := %d. (* %s:%s : capacity of channel %s *)\n", coqName, capv, dir, fn, name)
}

// condition of the case clause (tagless switch) whose printed condition contains marker
func (o *out) c11CaseCond(fs funcSpec, marker string, nth int) {
	p, fd := findFunc(fs.dir, fs.recv, fs.name)
	if fd == nil {
		o.brokenDef(fs.coqName, "function "+fs.dir+":"+fs.name+" not found")
		return
	}
	var found ast.Expr
	k := 0
	ast.Inspect(fd.Body, func(n ast.Node) bool {
		if cc, ok := n.(*ast.CaseClause); ok && found == nil && len(cc.List) == 1 && strings.Contains(printNode(p.fset, cc.List[0]), marker) {
			if k == nth {
				found = cc.List[0]
			}
			k++
		}
		return true
	})
	if found == nil {
		o.brokenDef(fs.coqName, "no case condition containing `"+marker+"` in "+fs.name)
		return
	}
	t := o.newTr(p, fs)
	c := t.expr(found)
	if t.err != nil {
		o.brokenDef(fs.coqName, t.err.Error())
		return
	}
	o.f("Definition %s %s : %s := %s. (* %s:%s : case %s *)\n", fs.coqName, fs.params, fs.retType, c, fs.dir, fs.name, printNode(p.fset, found))
}

// =====================================================================================================================
// The hand-written text / line parsers on signing and verification paths (coq/C11/Text.v)
func c11Text(o *out) {
	o.f("\n(* ---------------------------------------------------------------- text / line parsers (C11/Text.v) *)\n")
	o.f("Require Import Coq.Strings.String.\n")

	// ---------------- lib/signdeb parseControl
	sd := "lib/signdeb"
	o.c11CallLit(sd, "parseControl", "strings.IndexAny", 1, 0, "c11_pc_ws")
	o.c11CallLit(sd, "parseControl", "strings.Index", 1, 0, "c11_pc_colon")
	o.c11CallLit(sd, "parseControl", "strings.Trim", 1, 0, "c11_pc_trim")
	pcL := map[string]string{"i": "i", "j": "j", "len(line)": "line_len", "info.Package": "pkg", "info.Version": "ver"}
	pcT := map[string]string{"info.Package": "str", "info.Version": "str"}
	pc := func(coq, params, ret string) funcSpec {
		return funcSpec{dir: sd, name: "parseControl", coqName: coq, params: params, retType: ret, leaves: pcL, types: pcT}
	}
	o.condOf(pc("c11_pc_skip", "(i j : Z)", "bool"), "if:j ")
	o.c11SliceBounds(pc("c11_pc_key_bounds", "(j line_len : Z)", ""), "line[:j]", 0)
	o.c11SliceBounds(pc("c11_pc_value_bounds", "(j line_len : Z)", ""), "line[j+1:]", 0)
	o.c11SwitchLits(sd, "parseControl", "key", "c11_pc_fields", []string{"info.Package=value", "info.Version=value", "info.Arch=value"})
	o.condOf(pc("c11_pc_missing", "(pkg ver : list Z)", "bool"), "if:info.Package")
	o.callOrder(sd, "", "parseControl", "c11_pc_scanner_tuning", []string{"Buffer", "Split"})
	o.c11SiteTable("c11_pc_sites", sd, "parseControl")
	fingerprint(sd, "", "parseControl")

	// ---------------- lib/signdeb checkSig
	csL := map[string]string{"line": "line", "line[0]": "c0", "len(line)": "line_len"}
	csT := map[string]string{"line": "str"}
	cs := func(coq, params, ret string) funcSpec {
		return funcSpec{dir: sd, name: "checkSig", coqName: coq, params: params, retType: ret, leaves: csL, types: csT}
	}
	o.condOf(cs("c11_cs_is_files", "(line : list Z)", "bool"), "if:line ==", 0)
	o.condOf(cs("c11_cs_is_end", "(line : list Z)", "bool"), "if:line ==", 1)
	o.condOf(cs("c11_cs_malformed", "(c0 line_len : Z)", "bool"), "if:line[0]")
	o.c11SliceBounds(cs("c11_cs_rest_bounds", "(line_len : Z)", ""), "line[1:]", 0)
	o.c11CallLit(sd, "checkSig", "strings.SplitN", 1, 0, "c11_cs_sep")
	o.c11CallLit(sd, "checkSig", "strings.SplitN", 2, 0, "c11_cs_nparts")
	o.condOf(funcSpec{dir: sd, name: "checkSig", coqName: "c11_cs_parts_bad", params: "(nparts : Z)", retType: "bool", leaves: map[string]string{"len(parts)": "nparts"}}, "if:len(parts)")
	o.c11ConstIndexes(sd, "checkSig", "parts", "c11_cs_part_indexes")
	o.c11SiteTable("c11_cs_sites", sd, "checkSig")
	fingerprint(sd, "", "checkSig")
	// signdeb.Sign: the ext slice of "control.tar*" names
	o.c11SiteTable("c11_sign_sites", sd, "Sign")
	o.c11CallLit(sd, "Sign", "strings.HasPrefix", 1, 1, "c11_sign_control_prefix")

	// ---------------- lib/signjar manifest text layer
	sj := "lib/signjar"
	o.c11CallLit(sj, "splitManifest", "bytes.Index", 1, 0, "c11_sm_sep_crlf")
	o.c11CallLit(sj, "splitManifest", "bytes.Index", 1, 1, "c11_sm_sep_lf")
	smL := map[string]string{"i1": "i1", "i2": "i2", "len(manifest)": "mlen", "idx": "idx", "len(bytes.TrimSpace(section))": "trimmed_len"}
	sm := func(coq, params, ret string) funcSpec {
		return funcSpec{dir: sj, name: "splitManifest", coqName: coq, params: params, retType: ret, leaves: smL}
	}
	o.condOf(sm("c11_sm_more", "(mlen : Z)", "bool"), "for:len(manifest)")
	o.c11CaseCond(sm("c11_sm_case_crlf", "(i1 i2 : Z)", "bool"), "i", 0)
	o.c11CaseCond(sm("c11_sm_case_lf", "(i1 i2 : Z)", "bool"), "i", 1)
	o.exprOfAssign(sm("c11_sm_idx_crlf", "(i1 : Z)", "Z"), "idx", 0)
	o.exprOfAssign(sm("c11_sm_idx_lf", "(i2 : Z)", "Z"), "idx", 1)
	o.exprOfAssign(sm("c11_sm_idx_rest", "(mlen : Z)", "Z"), "idx", 2)
	o.c11SliceBounds(sm("c11_sm_section_bounds", "(idx mlen : Z)", ""), "manifest[:idx]", 0)
	o.c11SliceBounds(sm("c11_sm_rest_bounds", "(idx mlen : Z)", ""), "manifest[idx:]", 0)
	o.condOf(sm("c11_sm_empty_section", "(trimmed_len : Z)", "bool"), "if:TrimSpace")
	o.c11SiteTable("c11_sm_sites", sj, "splitManifest")
	psL := map[string]string{"len(line)": "line_len", "idx": "idx"}
	pse := func(coq, params, ret string) funcSpec {
		return funcSpec{dir: sj, name: "parseSection", coqName: coq, params: params, retType: ret, leaves: psL}
	}
	o.c11CallLit(sj, "parseSection", "bytes.ReplaceAll", 1, 0, "c11_ps_crlf")
	o.c11CallLit(sj, "parseSection", "bytes.ReplaceAll", 2, 0, "c11_ps_crlf_to")
	o.c11CallLit(sj, "parseSection", "bytes.ReplaceAll", 1, 1, "c11_ps_cont")
	o.c11CallLit(sj, "parseSection", "bytes.ReplaceAll", 2, 1, "c11_ps_cont_to")
	o.c11CallLit(sj, "parseSection", "bytes.Split", 1, 0, "c11_ps_line_sep")
	o.c11CallLit(sj, "parseSection", "bytes.IndexRune", 1, 0, "c11_ps_colon")
	o.condOf(pse("c11_ps_skip_line", "(line_len : Z)", "bool"), "if:len(line)")
	o.condOf(pse("c11_ps_no_colon", "(idx : Z)", "bool"), "if:idx")
	o.c11SliceBounds(pse("c11_ps_key_bounds", "(idx line_len : Z)", ""), "line[:idx]", 0)
	o.c11SliceBounds(pse("c11_ps_value_bounds", "(idx line_len : Z)", ""), "line[idx+1:]", 0)
	o.c11SiteTable("c11_ps_sites", sj, "parseSection")
	pmL := map[string]string{"len(sections)": "nsections", "i": "i", "len(section)": "section_len", "name": "name"}
	pm := func(coq, params, ret string) funcSpec {
		return funcSpec{dir: sj, name: "parseManifest", coqName: coq, params: params, retType: ret, leaves: pmL, types: map[string]string{"name": "str"}}
	}
	o.condOf(pm("c11_pm_no_sections", "(nsections : Z)", "bool"), "if:len(sections)")
	o.condOf(pm("c11_pm_skip_section", "(i section_len : Z)", "bool"), "if:len(section)")
	o.condOf(pm("c11_pm_no_name", "(name : list Z)", "bool"), "if:name")
	o.c11CallLit(sj, "parseManifest", "hdr.Get", 0, 0, "c11_pm_name_attr")
	o.c11SiteTable("c11_pm_sites", sj, "parseManifest")
	o.condOf(funcSpec{dir: sj, name: "DigestManifest", coqName: "c11_dm_empty", params: "(nsections : Z)", retType: "bool", leaves: pmL}, "if:len(sections)")
	o.c11SiteTable("c11_dm_sites", sj, "DigestManifest")
	o.callOrder(sj, "", "DigestManifest", "c11_dm_order", []string{"splitManifest", "hashSection", "parseSection"})
	for _, fn := range []string{"splitManifest", "parseSection", "parseManifest", "DigestManifest"} {
		fingerprint(sj, "", fn)
	}

	// ---------------- lib/pgptools: the line scanners that run in goroutines fed by an io.Pipe
	pg := "lib/pgptools"
	o.c11VarBytes(pg, "sigHeader", "c11_cl_sig_header")
	o.c11VarBytes(pg, "crlf", "c11_cl_crlf")
	clL := map[string]string{"copying": "copying", "bytes.Equal(line, sigHeader)": "is_hdr"}
	clT := map[string]string{"copying": "bool", "bytes.Equal(line, sigHeader)": "bool"}
	o.condOf(funcSpec{dir: pg, name: "tailClearSign", coqName: "c11_cl_tail_copy", params: "(copying is_hdr : bool)", retType: "bool", leaves: clL, types: clT}, "if:copying")
	o.condOf(funcSpec{dir: pg, name: "headClearSign", coqName: "c11_cl_head_found", params: "(is_hdr : bool)", retType: "bool", leaves: clL, types: clT}, "if:bytes.Equal")
	o.callOrder(pg, "", "tailClearSign", "c11_cl_tail_scanner_tuning", []string{"Buffer", "Split"})
	o.callOrder(pg, "", "headClearSign", "c11_cl_head_scanner_tuning", []string{"Buffer", "Split"})
	o.c11ChanCap(pg, "DetachClearSign", "done", "c11_cl_detach_done_cap")
	o.c11ChanCap(pg, "MergeClearSign", "done", "c11_cl_merge_done_cap")
	o.c11ChanCap(sd, "Sign", "errch", "c11_sign_errch_cap")
	o.c11ChanCap(sd, "Sign", "infoch", "c11_sign_infoch_cap")
	for _, fn := range []string{"tailClearSign", "headClearSign", "DetachClearSign", "MergeClearSign"} {
		fingerprint(pg, "", fn)
	}

	// ---------------- goroutine inventory and the reviewed lists of unguarded sites
	o.c11GoInventory("c11_goroutines", []string{"lib", "signers"})
	o.c11Unguarded("c11_unguarded_signdeb", "lib/signdeb", nil)
	o.c11Unguarded("c11_unguarded_pgptools", "lib/pgptools", nil)
	o.c11Unguarded("c11_unguarded_signjar", "lib/signjar", []string{"manifest.go", "digest.go", "verify.go"})
	o.c11Unguarded("c11_unguarded_appmanifest", "lib/appmanifest", nil)
	o.c11Unguarded("c11_unguarded_signers_deb", "signers/deb", nil)
	o.c11Unguarded("c11_unguarded_signers_pgp", "signers/pgp", nil)
	o.c11Unguarded("c11_unguarded_xmldsig", "lib/xmldsig", []string{"verify.go"})
	o.c11Unguarded("c11_unguarded_comdoc", "lib/comdoc", []string{"reader.go", "dirent.go", "msat.go", "sectors.go", "shortsector.go", "stream.go"})
	o.c11Unguarded("c11_unguarded_csblob", "lib/fruit/csblob", []string{"superblob.go", "codedir.go", "reqparse.go", "verify.go", "csblob.go", "attrs.go", "asn1.go", "pagehash.go"})
	o.c11Unguarded("c11_unguarded_xar", "lib/fruit/xar", []string{"xar.go", "verify.go"})
	o.c11Unguarded("c11_unguarded_dmg", "lib/fruit/dmg", []string{"dmg.go", "verify.go"})
	o.c11Unguarded("c11_unguarded_machos", "lib/fruit/machos", []string{"header.go", "verify.go"})
}
