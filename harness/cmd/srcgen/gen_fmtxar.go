package main

// FmtXAR_gen: Apple flat packages (lib/fruit/xar, signers/xar) and disk images (lib/fruit/dmg, signers/dmg).
// Everything the Coq model of coq/FmtXAR uses from the Go source is translated here from the CURRENT tree: struct layouts of the
// xar header and of the UDIF (koly) trailer, magic numbers, the hash enumerations and the two switch tables between them and
// crypto.Hash, every comparison in front of an allocation / read / refusal, the offset arithmetic of Open and Sign (as call
// arguments and assignments), the slot plan of reserveSignatures (symbolically executed), the order in which appendSignatures and
// dmg.Sign write their pieces, the patch ranges, what is hashed and what is signed, the if-chain of Verify, the file selection of
// gatherDataFiles and of the signer's checkFiles, the seek rules of streamReaderAt.

import (
	"fmt"
	"go/ast"
	"go/token"
	"sort"
	"strconv"
	"strings"
)

// fxFloatLeaves registers every float literal with an integral value (1e6, 10e6) of the function as a leaf.
func fxFloatLeaves(fs *funcSpec) {
	_, fd := findFunc(fs.dir, fs.recv, fs.name)
	if fd == nil {
		return
	}
	nl := map[string]string{}
	for k, v := range fs.leaves {
		nl[k] = v
	}
	ast.Inspect(fd.Body, func(n ast.Node) bool {
		if bl, ok := n.(*ast.BasicLit); ok && bl.Kind == token.FLOAT {
			if v, err := strconv.ParseFloat(bl.Value, 64); err == nil && v == float64(int64(v)) {
				nl[bl.Value] = strconv.FormatInt(int64(v), 10)
			}
		}
		return true
	})
	fs.leaves = nl
}

func (o *out) fxCond(fs funcSpec, marker string, nth ...int) {
	fxFloatLeaves(&fs)
	o.condOf(fs, marker, nth...)
}

func (o *out) fxAssign(fs funcSpec, lhs string, nth int) {
	fxFloatLeaves(&fs)
	o.exprOfAssign(fs, lhs, nth)
}

// fxCalls: the calls of a function whose printed callee equals `callee` (or ends with "."+callee), in source order.
func fxCalls(fs funcSpec, callee string) (*pkgInfo, []*ast.CallExpr) {
	p, fd := findFunc(fs.dir, fs.recv, fs.name)
	if fd == nil {
		return p, nil
	}
	var out []*ast.CallExpr
	ast.Inspect(fd.Body, func(n ast.Node) bool {
		if ce, ok := n.(*ast.CallExpr); ok {
			c := printNode(p.fset, ce.Fun)
			if c == callee || strings.HasSuffix(c, "."+callee) {
				out = append(out, ce)
			}
		}
		return true
	})
	return p, out
}

// fxCallArg translates argument argIdx of the nth call to `callee` in the function.
func (o *out) fxCallArg(fs funcSpec, callee string, nth, argIdx int) {
	fxFloatLeaves(&fs)
	p, calls := fxCalls(fs, callee)
	if nth >= len(calls) || argIdx >= len(calls[nth].Args) {
		o.brokenDef(fs.coqName, fmt.Sprintf("no call #%d to %s with %d arguments in %s", nth, callee, argIdx+1, fs.name))
		return
	}
	t := o.newTr(p, fs)
	c := t.expr(calls[nth].Args[argIdx])
	if t.err != nil {
		o.brokenDef(fs.coqName, t.err.Error())
		return
	}
	o.f("Definition %s %s : %s :=\n  %s.\n(* from %s:%s.%s : argument %d of %s *)\n", fs.coqName, fs.params, fs.retType, c, fs.dir, fs.recv, fs.name, argIdx,
		strings.ReplaceAll(printNode(p.fset, calls[nth]), "*)", "* )"))
}

// fxCallArgText emits the printed text of an argument as a small code through `names` (99 = unknown).
func (o *out) fxCallArgText(fs funcSpec, callee string, nth, argIdx int, names []string) {
	p, calls := fxCalls(fs, callee)
	if nth >= len(calls) || argIdx >= len(calls[nth].Args) {
		o.brokenDef(fs.coqName, fmt.Sprintf("no call #%d to %s with %d arguments in %s", nth, callee, argIdx+1, fs.name))
		return
	}
	txt := printNode(p.fset, calls[nth].Args[argIdx])
	code := 99
	for i, n := range names {
		if n == txt {
			code = i
		}
	}
	o.f("Definition %s : Z := %d. (* %s:%s.%s : argument %d of %s is `%s`; index into [%s] *)\n", fs.coqName, code, fs.dir, fs.recv, fs.name, argIdx, callee, txt, strings.Join(names, " "))
}

// fxWriteOrder lists, in source order, the first argument's text of every call to one of the writer callees, through `names`.
func (o *out) fxWriteOrder(dir, recv, name, coqName string, callees []string, argIdx map[string]int, names []string) {
	p, fd := findFunc(dir, recv, name)
	if fd == nil {
		o.brokenDef(coqName, "function "+dir+":"+recv+"."+name+" not found")
		return
	}
	var seq, txts []string
	ast.Inspect(fd.Body, func(n ast.Node) bool {
		ce, ok := n.(*ast.CallExpr)
		if !ok {
			return true
		}
		c := printNode(p.fset, ce.Fun)
		for _, w := range callees {
			if c == w {
				ai := argIdx[w]
				if ai >= len(ce.Args) {
					continue
				}
				txt := printNode(p.fset, ce.Args[ai])
				code := 99
				for i, nm := range names {
					if nm == txt || (strings.HasSuffix(nm, "*") && strings.HasPrefix(txt, strings.TrimSuffix(nm, "*"))) {
						code = i
					}
				}
				seq = append(seq, strconv.Itoa(code))
				txts = append(txts, txt)
			}
		}
		return true
	})
	if len(seq) == 0 {
		o.brokenDef(coqName, "no writes found in "+name)
		return
	}
	o.f("Definition %s : list Z := [%s]. (* %s:%s.%s writes: %s ; index into [%s] *)\n", coqName, strings.Join(seq, "; "), dir, recv, name,
		strings.ReplaceAll(strings.Join(txts, " | "), "*)", "* )"), strings.Join(names, " "))
}

// fxLayout: struct layout with blank fields numbered (pad1, pad2, ...): <coq>_widths, <coq>_blank (1 = blank field, skipped by
// binary.Read and written as zeros by binary.Write), <coq>_size, <coq>_off_<Field>, <coq>_idx_<Field>.
func (o *out) fxLayout(dir, goName, coqName string) {
	_, st := findStruct(dir, goName)
	if st == nil {
		o.brokenDef(coqName, "struct "+dir+"."+goName+" not found")
		return
	}
	var names []string
	var ws []int
	var blank []string
	nb := 0
	for _, fl := range st.Fields.List {
		w, ok := typeWidth(dir, fl.Type)
		if !ok {
			o.brokenDef(coqName, "struct "+goName+" has a field of non-fixed width")
			return
		}
		ns := fl.Names
		if len(ns) == 0 {
			ns = []*ast.Ident{{Name: "_"}}
		}
		for _, n := range ns {
			nm := n.Name
			b := "0"
			if nm == "_" {
				nb++
				nm = fmt.Sprintf("pad%d", nb)
				b = "1"
			}
			names, ws, blank = append(names, nm), append(ws, w), append(blank, b)
		}
	}
	off := 0
	var items []string
	for i, n := range names {
		items = append(items, strconv.Itoa(ws[i]))
		o.f("Definition %s_off_%s : Z := %d.\nDefinition %s_idx_%s : nat := %d.\n", coqName, n, off, coqName, n, i)
		off += ws[i]
	}
	o.f("Definition %s_widths : list Z := [%s]. (* %s.%s fields: %s *)\n", coqName, strings.Join(items, "; "), dir, goName, strings.Join(names, ","))
	o.f("Definition %s_blank : list Z := [%s].\n", coqName, strings.Join(blank, "; "))
	o.f("Definition %s_size : Z := %d.\n", coqName, off)
	// signedness of each field (1 = signed integer type), for the two's complement reading of int64 fields
	var sg []string
	for _, fl := range st.Fields.List {
		s := "0"
		if id, ok := fl.Type.(*ast.Ident); ok && strings.HasPrefix(id.Name, "int") {
			s = "1"
		}
		n := len(fl.Names)
		if n == 0 {
			n = 1
		}
		for i := 0; i < n; i++ {
			sg = append(sg, s)
		}
	}
	o.f("Definition %s_signed : list Z := [%s].\n", coqName, strings.Join(sg, "; "))
}

var fxHashID = map[string]int{"crypto.MD5": 2, "crypto.SHA1": 3, "crypto.SHA256": 5, "crypto.SHA384": 6, "crypto.SHA512": 7}

// fxSwitchTable: the switch statement with tag `tag` in the function, every clause a single assignment `lhs = value`;
// emits [(case constant, assigned constant)] where crypto.X selectors are Go's crypto.Hash numbers and identifiers are package constants.
func (o *out) fxSwitchTable(dir, recv, name, tag, coqName string) {
	p, fd := findFunc(dir, recv, name)
	if fd == nil {
		o.brokenDef(coqName, "function "+dir+":"+recv+"."+name+" not found")
		return
	}
	var sw *ast.SwitchStmt
	ast.Inspect(fd.Body, func(n ast.Node) bool {
		if s, ok := n.(*ast.SwitchStmt); ok && sw == nil && s.Tag != nil && printNode(p.fset, s.Tag) == tag {
			sw = s
		}
		return sw == nil
	})
	if sw == nil {
		o.brokenDef(coqName, "no switch on "+tag+" in "+name)
		return
	}
	val := func(e ast.Expr) (int64, bool) {
		s := printNode(p.fset, e)
		if v, ok := fxHashID[s]; ok {
			return int64(v), true
		}
		v, err := evalConst(dir, e, 0)
		return v.i, err == nil && !v.isFloat
	}
	var pairs []string
	defaultReturns := false
	for _, c := range sw.Body.List {
		cc := c.(*ast.CaseClause)
		if cc.List == nil {
			for _, s := range cc.Body {
				if _, ok := s.(*ast.ReturnStmt); ok {
					defaultReturns = true
				}
			}
			continue
		}
		if len(cc.Body) != 1 {
			o.brokenDef(coqName, "switch clause is not a single assignment")
			return
		}
		as, ok := cc.Body[0].(*ast.AssignStmt)
		if !ok || len(as.Rhs) != 1 {
			o.brokenDef(coqName, "switch clause is not a single assignment")
			return
		}
		r, ok := val(as.Rhs[0])
		if !ok {
			o.brokenDef(coqName, "switch clause assigns a non-constant")
			return
		}
		for _, ce := range cc.List {
			k, ok := val(ce)
			if !ok {
				o.brokenDef(coqName, "switch case is not a constant")
				return
			}
			pairs = append(pairs, fmt.Sprintf("(%d, %d)", k, r))
		}
	}
	o.f("Definition %s : list (Z * Z) := [%s]. (* %s:%s.%s switch %s *)\n", coqName, strings.Join(pairs, "; "), dir, recv, name, tag)
	o.f("Definition %s_default_refuses : bool := %v.\n", coqName, defaultReturns)
}

// fxStringList: a composite literal []string{...} ranged over in the function (first one found)
func (o *out) fxStringList(dir, recv, name, coqName string) {
	p, fd := findFunc(dir, recv, name)
	if fd == nil {
		o.brokenDef(coqName, "function "+dir+":"+recv+"."+name+" not found")
		return
	}
	var lit *ast.CompositeLit
	ast.Inspect(fd.Body, func(n ast.Node) bool {
		if cl, ok := n.(*ast.CompositeLit); ok && lit == nil && printNode(p.fset, cl.Type) == "[]string" {
			lit = cl
		}
		return lit == nil
	})
	if lit == nil {
		o.brokenDef(coqName, "no []string literal in "+name)
		return
	}
	var items, txt []string
	for _, e := range lit.Elts {
		bl, ok := e.(*ast.BasicLit)
		if !ok || bl.Kind != token.STRING {
			o.brokenDef(coqName, "non-literal element")
			return
		}
		s, _ := strconv.Unquote(bl.Value)
		items = append(items, bytesLit([]byte(s)))
		txt = append(txt, s)
	}
	o.f("Definition %s : list (list Z) := [%s]. (* %s:%s.%s : %s *)\n", coqName, strings.Join(items, "; "), dir, recv, name, strings.Join(txt, ", "))
}

// fxStringArg: a string literal argument of the nth call to callee
func (o *out) fxStringArg(dir, recv, name, callee string, nth, argIdx int, coqName string) {
	p, calls := fxCalls(funcSpec{dir: dir, recv: recv, name: name}, callee)
	if nth >= len(calls) || argIdx >= len(calls[nth].Args) {
		o.brokenDef(coqName, fmt.Sprintf("no call #%d to %s in %s", nth, callee, name))
		return
	}
	bl, ok := calls[nth].Args[argIdx].(*ast.BasicLit)
	if !ok || bl.Kind != token.STRING {
		o.brokenDef(coqName, "argument is not a string literal: "+printNode(p.fset, calls[nth].Args[argIdx]))
		return
	}
	s, _ := strconv.Unquote(bl.Value)
	o.f("Definition %s : list Z := %s. (* %s:%s.%s : %s(%q) *)\n", coqName, bytesLit([]byte(s)), dir, recv, name, callee, s)
}

// fxCompositeField: value of a keyed field in the first composite literal of type `typ` in the function
func (o *out) fxCompositeField(fs funcSpec, typ, field string) {
	p, fd := findFunc(fs.dir, fs.recv, fs.name)
	if fd == nil {
		o.brokenDef(fs.coqName, "function "+fs.dir+":"+fs.recv+"."+fs.name+" not found")
		return
	}
	var found ast.Expr
	ast.Inspect(fd.Body, func(n ast.Node) bool {
		if cl, ok := n.(*ast.CompositeLit); ok && found == nil && cl.Type != nil && printNode(p.fset, cl.Type) == typ {
			for _, e := range cl.Elts {
				if kv, ok := e.(*ast.KeyValueExpr); ok && printNode(p.fset, kv.Key) == field {
					found = kv.Value
				}
			}
		}
		return found == nil
	})
	if found == nil {
		o.brokenDef(fs.coqName, "no field "+field+" in a "+typ+" literal of "+fs.name)
		return
	}
	t := o.newTr(p, fs)
	c := t.expr(found)
	if t.err != nil {
		o.brokenDef(fs.coqName, t.err.Error())
		return
	}
	o.f("Definition %s %s : %s :=\n  %s.\n(* from %s:%s.%s : %s{%s: %s} *)\n", fs.coqName, fs.params, fs.retType, c, fs.dir, fs.recv, fs.name, typ, field, printNode(p.fset, found))
}

// fxGuardsBefore: the disjunction of the conditions of all refusing if-statements (body ends in return) that precede, in source
// order, the first statement containing `target` and whose condition mentions `subject`.  false when there is none: the model
// then has no guard in front of that allocation / read.
func (o *out) fxGuardsBefore(fs funcSpec, target, subject string) {
	fxFloatLeaves(&fs)
	p, fd := findFunc(fs.dir, fs.recv, fs.name)
	if fd == nil {
		o.brokenDef(fs.coqName, "function "+fs.dir+":"+fs.recv+"."+fs.name+" not found")
		return
	}
	var tpos token.Pos
	ast.Inspect(fd.Body, func(n ast.Node) bool {
		if ce, ok := n.(*ast.CallExpr); ok && tpos == 0 && strings.Join(strings.Fields(printNode(p.fset, ce)), "") == strings.Join(strings.Fields(target), "") {
			tpos = ce.Pos()
		}
		return tpos == 0
	})
	if tpos == 0 {
		o.brokenDef(fs.coqName, "no call `"+target+"` in "+fs.name)
		return
	}
	var conds []string
	var src []string
	var terr error
	ast.Inspect(fd.Body, func(n ast.Node) bool {
		is, ok := n.(*ast.IfStmt)
		if !ok || is.Pos() >= tpos || len(is.Body.List) == 0 {
			return true
		}
		if _, ret := is.Body.List[len(is.Body.List)-1].(*ast.ReturnStmt); !ret {
			return true
		}
		ct := printNode(p.fset, is.Cond)
		if !strings.Contains(ct, subject) {
			return true
		}
		t := o.newTr(p, fs)
		c := t.expr(is.Cond)
		if t.err != nil {
			terr = t.err
			return true
		}
		conds = append(conds, c)
		src = append(src, ct)
		return true
	})
	if terr != nil {
		o.brokenDef(fs.coqName, "guard not translatable: "+terr.Error())
		return
	}
	body := "false"
	if len(conds) > 0 {
		body = strings.Join(conds, " || ")
	}
	o.f("Definition %s %s : bool :=\n  %s.\n(* from %s:%s.%s : refusing conditions on %s in front of %s: [%s] *)\n", fs.coqName, fs.params, body, fs.dir, fs.recv, fs.name, subject,
		strings.ReplaceAll(target, "*)", "* )"), strings.ReplaceAll(strings.Join(src, " ; "), "*)", "* )"))
}

// fxRangeGuard: a refusing loop `for _, v := range []T{e1, e2, ...} { if cond { return ... } }` in front of allocations: emits the
// condition as a function of the loop variable's fields and the list of elements it covers (codes through `names`).  When the
// function has no such loop the guard is `false` and covers nothing (the model then has no check in front of the allocations).
func (o *out) fxRangeGuard(fs funcSpec, loopVar string, names []string, coqCovers string) {
	fxFloatLeaves(&fs)
	p, fd := findFunc(fs.dir, fs.recv, fs.name)
	if fd == nil {
		o.brokenDef(fs.coqName, "function "+fs.dir+":"+fs.recv+"."+fs.name+" not found")
		return
	}
	var rs *ast.RangeStmt
	ast.Inspect(fd.Body, func(n ast.Node) bool {
		if r, ok := n.(*ast.RangeStmt); ok && rs == nil {
			if id, ok := r.Value.(*ast.Ident); ok && id.Name == loopVar {
				if _, ok := r.X.(*ast.CompositeLit); ok {
					rs = r
				}
			}
		}
		return rs == nil
	})
	if rs != nil { // the loop only counts when it stands in front of the allocations it is meant to protect (every make but the first)
		_, mk := fxCalls(fs, "make")
		if len(mk) > 1 && rs.Pos() > mk[1].Pos() {
			rs = nil
		}
	}
	if rs == nil {
		o.f("Definition %s %s : bool :=\n  false.\n(* %s:%s.%s has no refusing loop over %s *)\n", fs.coqName, fs.params, fs.dir, fs.recv, fs.name, loopVar)
		o.f("Definition %s : list Z := [].\n", coqCovers)
		return
	}
	var codes, txt []string
	for _, e := range rs.X.(*ast.CompositeLit).Elts {
		t := printNode(p.fset, e)
		code := 99
		for i, n := range names {
			if n == t {
				code = i
			}
		}
		codes, txt = append(codes, strconv.Itoa(code)), append(txt, t)
	}
	if len(rs.Body.List) != 1 {
		o.brokenDef(fs.coqName, "the loop over "+loopVar+" is not a single if-statement")
		return
	}
	is, ok := rs.Body.List[0].(*ast.IfStmt)
	if !ok || is.Else != nil || len(is.Body.List) == 0 {
		o.brokenDef(fs.coqName, "the loop over "+loopVar+" is not a single refusing if-statement")
		return
	}
	if _, ret := is.Body.List[len(is.Body.List)-1].(*ast.ReturnStmt); !ret {
		o.brokenDef(fs.coqName, "the if-statement in the loop over "+loopVar+" does not return")
		return
	}
	t := o.newTr(p, fs)
	c := t.expr(is.Cond)
	if t.err != nil {
		o.brokenDef(fs.coqName, t.err.Error())
		return
	}
	// the loop has to stand in front of the first allocation from one of the covered elements
	o.f("Definition %s %s : bool :=\n  %s.\n(* from %s:%s.%s : for _, %s := range {%s} { if %s { return } } *)\n", fs.coqName, fs.params, c, fs.dir, fs.recv, fs.name, loopVar,
		strings.Join(txt, ", "), strings.ReplaceAll(printNode(p.fset, is.Cond), "*)", "* )"))
	o.f("Definition %s : list Z := [%s]. (* index into [%s] *)\n", coqCovers, strings.Join(codes, "; "), strings.Join(names, " "))
}

// fxIfChain: the printed conditions of an if / else-if chain that starts at the first if-statement of the function whose condition
// equals `first`; emitted through `names` (99 = unknown); the final else is reported by <coq>_has_else.
func (o *out) fxIfChain(dir, recv, name, first, coqName string, names []string) {
	p, fd := findFunc(dir, recv, name)
	if fd == nil {
		o.brokenDef(coqName, "function "+dir+":"+recv+"."+name+" not found")
		return
	}
	var start *ast.IfStmt
	ast.Inspect(fd.Body, func(n ast.Node) bool {
		if is, ok := n.(*ast.IfStmt); ok && start == nil && printNode(p.fset, is.Cond) == first {
			start = is
		}
		return start == nil
	})
	if start == nil {
		o.brokenDef(coqName, "no if-statement on `"+first+"` in "+name)
		return
	}
	var seq, txt []string
	hasElse := false
	for is := start; is != nil; {
		c := printNode(p.fset, is.Cond)
		code := 99
		for i, n := range names {
			if n == c {
				code = i
			}
		}
		seq, txt = append(seq, strconv.Itoa(code)), append(txt, c)
		switch e := is.Else.(type) {
		case *ast.IfStmt:
			is = e
		case *ast.BlockStmt:
			hasElse = true
			is = nil
		default:
			is = nil
		}
	}
	o.f("Definition %s : list Z := [%s]. (* %s:%s.%s if-chain: %s ; index into [%s] *)\n", coqName, strings.Join(seq, "; "), dir, recv, name, strings.Join(txt, " | "), strings.Join(names, " | "))
	o.f("Definition %s_has_else : bool := %v.\n", coqName, hasElse)
}

// fxReserve symbolically executes reserveSignatures once with and once without an RSA leaf and emits, for each variant, the slots
// in the order they are created: (insert index, kind by key [checksum signature x-signature], offset, size) and the returned total.
func (o *out) fxReserve(dir, name, coqName string) {
	p, fd := findFunc(dir, "", name)
	if fd == nil {
		o.brokenDef(coqName, "function "+dir+":."+name+" not found")
		return
	}
	kinds := map[string]int{"checksum": 0, "signature": 1, "x-signature": 2}
	tracked := map[string]bool{"newSigSize": true, "added": true, "cksumSize": true, "classicSize": true, "cmsSize": true}
	for _, rsa := range []bool{true, false} {
		fs := funcSpec{dir: dir, name: name, leaves: map[string]string{"hashType.Size()": "hsize", "n.Size()": "classic", "len(cert.Raw)": "certsum"}}
		t := o.newTr(p, fs)
		t.locals["newSigSize"] = "0"
		type slot struct {
			kind           int
			off, size, idx string
		}
		elems := map[string]*slot{}
		var order []*slot
		var fail string
		var exec func(list []ast.Stmt)
		assign := func(name, val string) { t.locals[name] = val }
		exec = func(list []ast.Stmt) {
			for _, s := range list {
				if fail != "" {
					return
				}
				switch x := s.(type) {
				case *ast.AssignStmt:
					if len(x.Lhs) != 1 || len(x.Rhs) != 1 {
						continue
					}
					id, ok := x.Lhs[0].(*ast.Ident)
					if !ok {
						continue
					}
					if ce, ok := x.Rhs[0].(*ast.CallExpr); ok && printNode(p.fset, ce.Fun) == "newSigElement" && len(ce.Args) == 5 {
						bl, ok := ce.Args[0].(*ast.BasicLit)
						if !ok {
							fail = "newSigElement key is not a literal"
							return
						}
						key, _ := strconv.Unquote(bl.Value)
						k, ok := kinds[key]
						if !ok {
							fail = "unknown slot key " + key
							return
						}
						sl := &slot{kind: k, off: t.expr(ce.Args[2]), size: t.expr(ce.Args[3])}
						elems[id.Name] = sl
						continue
					}
					if !tracked[id.Name] {
						continue
					}
					v := t.expr(x.Rhs[0])
					switch x.Tok {
					case token.DEFINE, token.ASSIGN:
						assign(id.Name, v)
					case token.ADD_ASSIGN:
						assign(id.Name, "("+t.locals[id.Name]+" + "+v+")")
					default:
						fail = "unsupported assignment to " + id.Name
					}
				case *ast.IncDecStmt:
					if id, ok := x.X.(*ast.Ident); ok && tracked[id.Name] {
						if x.Tok == token.INC {
							assign(id.Name, "("+t.locals[id.Name]+" + 1)")
						} else {
							fail = "decrement of " + id.Name
						}
					}
				case *ast.ExprStmt:
					ce, ok := x.X.(*ast.CallExpr)
					if !ok {
						continue
					}
					if strings.HasSuffix(printNode(p.fset, ce.Fun), ".InsertChildAt") && len(ce.Args) == 2 {
						if id, ok := ce.Args[1].(*ast.Ident); ok && elems[id.Name] != nil {
							elems[id.Name].idx = t.expr(ce.Args[0])
							order = append(order, elems[id.Name])
						} else {
							fail = "InsertChildAt of an unknown element"
						}
					}
				case *ast.IfStmt:
					if x.Init != nil && strings.Contains(printNode(p.fset, x.Init), "certs[0].PublicKey.(*rsa.PublicKey)") && printNode(p.fset, x.Cond) == "ok" {
						if rsa {
							exec(x.Body.List)
						} else if x.Else != nil {
							fail = "RSA test has an else branch"
						}
					} else {
						fail = "unknown if-statement: " + printNode(p.fset, x.Cond)
					}
				case *ast.RangeStmt:
					// the certificate text loop assigns nothing that is tracked; the CMS size loop adds len(cert.Raw) per certificate
					ast.Inspect(x.Body, func(n ast.Node) bool {
						if as, ok := n.(*ast.AssignStmt); ok && len(as.Lhs) == 1 {
							if id, ok := as.Lhs[0].(*ast.Ident); ok && tracked[id.Name] {
								if as.Tok == token.ADD_ASSIGN && printNode(p.fset, as.Rhs[0]) == "int64(len(cert.Raw))" && printNode(p.fset, x.X) == "certs" {
									assign(id.Name, "("+t.locals[id.Name]+" + certsum)")
								} else {
									fail = "loop assigns " + id.Name + " in an unknown way"
								}
							}
						}
						return true
					})
				case *ast.ReturnStmt, *ast.DeclStmt:
				}
			}
		}
		exec(fd.Body.List)
		if fail == "" && t.err != nil {
			fail = t.err.Error()
		}
		if fail != "" {
			o.brokenDef(coqName, fail)
			return
		}
		var items []string
		for _, sl := range order {
			items = append(items, fmt.Sprintf("(%s, %d, %s, %s)", sl.idx, sl.kind, sl.off, sl.size))
		}
		suffix := "_norsa"
		if rsa {
			suffix = "_rsa"
		}
		o.f("Definition %s%s (hsize classic certsum : Z) : list (Z * Z * Z * Z) * Z :=\n  ([%s], %s).\n(* from %s:.%s, symbolic execution, RSA leaf = %v: (insert index, kind, offset, size) and the returned total *)\n",
			coqName, suffix, strings.Join(items, "; "), t.locals["newSigSize"], dir, name, rsa)
	}
}

// fxElseIf: is the statement that follows `if cond {...}` an `else if` on `cond2` (true), i.e. the second test is only made when the first fails
func (o *out) fxElseIf(dir, recv, name, cond, cond2, coqName string) {
	p, fd := findFunc(dir, recv, name)
	if fd == nil {
		o.brokenDef(coqName, "function "+dir+":"+recv+"."+name+" not found")
		return
	}
	found, res := false, false
	ast.Inspect(fd.Body, func(n ast.Node) bool {
		if is, ok := n.(*ast.IfStmt); ok && !found && printNode(p.fset, is.Cond) == cond {
			found = true
			if e, ok := is.Else.(*ast.IfStmt); ok && printNode(p.fset, e.Cond) == cond2 {
				res = true
			}
		}
		return !found
	})
	if !found {
		o.brokenDef(coqName, "no if-statement on `"+cond+"` in "+name)
		return
	}
	o.f("Definition %s : bool := %v. (* %s:%s.%s : `%s` is tested only in the else branch of `%s` *)\n", coqName, res, dir, recv, name, cond2, cond)
}

// fxCaseStrings: string constants of the case clauses of the switch on `tag` (supported checksum styles)
func (o *out) fxCaseStrings(dir, recv, name, tag, coqName string) {
	p, fd := findFunc(dir, recv, name)
	if fd == nil {
		o.brokenDef(coqName, "function "+dir+":"+recv+"."+name+" not found")
		return
	}
	var sw *ast.SwitchStmt
	ast.Inspect(fd.Body, func(n ast.Node) bool {
		if s, ok := n.(*ast.SwitchStmt); ok && sw == nil && s.Tag != nil && printNode(p.fset, s.Tag) == tag {
			sw = s
		}
		return sw == nil
	})
	if sw == nil {
		o.brokenDef(coqName, "no switch on "+tag+" in "+name)
		return
	}
	var items, txt []string
	for _, c := range sw.Body.List {
		cc := c.(*ast.CaseClause)
		for _, e := range cc.List {
			bl, ok := e.(*ast.BasicLit)
			if !ok || bl.Kind != token.STRING {
				o.brokenDef(coqName, "case is not a string literal")
				return
			}
			s, _ := strconv.Unquote(bl.Value)
			h := ""
			if len(cc.Body) == 1 {
				if as, ok := cc.Body[0].(*ast.AssignStmt); ok && len(as.Rhs) == 1 {
					h = printNode(p.fset, as.Rhs[0])
				}
			}
			id := map[string]int{"sha1.New()": 3, "sha256.New()": 5, "sha512.New()": 7, "md5.New()": 2, "sha512.New384()": 6}[h]
			items = append(items, fmt.Sprintf("(%s, %d)", bytesLit([]byte(s)), id))
			txt = append(txt, s+"->"+h)
		}
	}
	o.f("Definition %s : list (list Z * Z) := [%s]. (* %s:%s.%s switch %s: %s *)\n", coqName, strings.Join(items, "; "), dir, recv, name, tag, strings.Join(txt, ", "))
}

// fxBefore: does the first statement printed as `stmtA` come before (true) the first call whose printed callee ends with `calleeB`
func (o *out) fxBefore(dir, recv, name, stmtA, calleeB, coqName string) {
	p, fd := findFunc(dir, recv, name)
	if fd == nil {
		o.brokenDef(coqName, "function "+dir+":"+recv+"."+name+" not found")
		return
	}
	var pa, pb token.Pos
	ast.Inspect(fd.Body, func(n ast.Node) bool {
		if st, ok := n.(ast.Stmt); ok && pa == 0 && strings.Join(strings.Fields(printNode(p.fset, st)), " ") == stmtA {
			pa = st.Pos()
		}
		if ce, ok := n.(*ast.CallExpr); ok && pb == 0 && strings.HasSuffix(printNode(p.fset, ce.Fun), calleeB) {
			pb = ce.Pos()
		}
		return true
	})
	if pa == 0 || pb == 0 {
		o.brokenDef(coqName, "statement `"+stmtA+"` or call `"+calleeB+"` not found in "+name)
		return
	}
	o.f("Definition %s : bool := %v. (* %s:%s.%s : `%s` precedes the call of %s *)\n", coqName, pa < pb, dir, recv, name, stmtA, calleeB)
}

func init() {
	generators["FmtXAR_gen"] = func(o *out) {
		const xd, dd, sx, sd = "lib/fruit/xar", "lib/fruit/dmg", "signers/xar", "signers/dmg"
		fs := func(dir, recv, name, coq, params, ret string, leaves map[string]string) funcSpec {
			return funcSpec{dir: dir, recv: recv, name: name, coqName: coq, params: params, retType: ret, leaves: leaves, types: map[string]string{}}
		}
		// ================================================================= xar: header
		o.f("(* ---- xar header (lib/fruit/xar/structs.go, xar.go parseHeader) *)\n")
		o.fxLayout(xd, "fileHeader", "xar_hdr")
		o.constInt(xd, "xarMagic", "xar_magic")
		for _, c := range []string{"hashNone", "hashSHA1", "hashMD5", "hashSHA256", "hashSHA512"} {
			o.constInt(xd, c, "xar_"+strings.ToLower(c[:4])+"_"+strings.ToLower(c[4:]))
		}
		hl := map[string]string{"hdr.Magic": "magic", "hdr.Version": "version", "hdr.CompressedSize": "clen", "hdr.UncompressedSize": "ulen", "hdr.HeaderSize": "hsize"}
		o.fxCond(fs(xd, "", "parseHeader", "xar_bad_magic", "(magic : Z)", "bool", hl), "if:hdr.Magic")
		o.fxCond(fs(xd, "", "parseHeader", "xar_bad_version", "(version : Z)", "bool", hl), "if:hdr.Version")
		o.fxSwitchTable(xd, "", "parseHeader", "hdr.HashType", "xar_hash_of_enum")
		o.fxSwitchTable(xd, "", "appendSignatures", "hashType", "xar_enum_of_hash")
		// ================================================================= xar: Open
		o.f("\n(* ---- xar.Open *)\n")
		ol := map[string]string{"hdr.HeaderSize": "hsize", "hdr.CompressedSize": "clen", "base": "base", "toc.Checksum.Size": "cksize", "toc.Checksum.Offset": "ckoff",
			"toc.Signature.Size": "sigsize", "toc.Signature.Offset": "sigoff", "toc.XSignature.Size": "xsize", "toc.XSignature.Offset": "xoff",
			"hashType.Size()": "hsz", "lastOffset(toc.Files)": "last", "size": "size", "lo": "lo", "trailer": "trailer"}
		o.fxCallArg(fs(xd, "", "Open", "xar_open_header_len", "", "Z", ol), "io.NewSectionReader", 0, 2)
		o.fxAssign(fs(xd, "", "Open", "xar_open_toc_off", "(hsize : Z)", "Z", ol), "base", 0)
		o.fxCallArg(fs(xd, "", "Open", "xar_open_toc_len", "(clen : Z)", "Z", ol), "io.NewSectionReader", 1, 2)
		o.hasStmt(xd, "", "Open", "base += hdr.CompressedSize", "xar_open_heap_after_toc")
		o.fxCond(fs(xd, "", "Open", "xar_open_bad_cksize", "(cksize hsz : Z)", "bool", ol), "if:toc.Checksum.Size")
		o.fxCallArg(fs(xd, "", "Open", "xar_open_ck_alloc", "(cksize : Z)", "Z", ol), "make", 0, 1)
		o.fxCallArg(fs(xd, "", "Open", "xar_open_ck_at", "(base ckoff : Z)", "Z", ol), "r.ReadAt", 0, 1)
		o.fxCallArg(fs(xd, "", "Open", "xar_open_sig_alloc", "(sigsize : Z)", "Z", ol), "make", 1, 1)
		o.fxCallArg(fs(xd, "", "Open", "xar_open_sig_at", "(base sigoff : Z)", "Z", ol), "r.ReadAt", 1, 1)
		o.fxCallArg(fs(xd, "", "Open", "xar_open_xsig_alloc", "(xsize : Z)", "Z", ol), "make", 2, 1)
		o.fxCallArg(fs(xd, "", "Open", "xar_open_xsig_at", "(base xoff : Z)", "Z", ol), "r.ReadAt", 2, 1)
		o.fxGuardsBefore(fs(xd, "", "Open", "xar_open_sig_guard", "(sigsize sigoff base size : Z)", "bool", ol), "make([]byte, toc.Signature.Size)", "toc.Signature.Size")
		o.fxGuardsBefore(fs(xd, "", "Open", "xar_open_xsig_guard", "(xsize xoff base size : Z)", "bool", ol), "make([]byte, toc.XSignature.Size)", "toc.XSignature.Size")
		gl2 := map[string]string{"sig != nil": "present", "sig.Size": "ssize", "sig.Offset": "soff", "base": "base", "size": "size"}
		o.fxRangeGuard(funcSpec{dir: xd, name: "Open", coqName: "xar_open_slot_guard", params: "(present : bool) (ssize soff base size : Z)", retType: "bool", leaves: gl2,
			types: map[string]string{"sig != nil": "bool"}}, "sig", []string{"toc.Checksum", "toc.Signature", "toc.XSignature"}, "xar_open_slot_guard_covers")
		o.fxAssign(fs(xd, "", "Open", "xar_open_lo", "(last base : Z)", "Z", ol), "lo", 0)
		o.fxAssign(fs(xd, "", "Open", "xar_open_trailer", "(size lo : Z)", "Z", ol), "trailer", 0)
		o.fxCond(fs(xd, "", "Open", "xar_open_has_trailer", "(trailer : Z)", "bool", ol), "if:trailer")
		o.fxCallArg(fs(xd, "", "Open", "xar_open_trailer_alloc", "(trailer : Z)", "Z", ol), "make", 3, 1)
		o.fxCallArg(fs(xd, "", "Open", "xar_open_trailer_at", "(lo : Z)", "Z", ol), "r.ReadAt", 3, 1)
		ll := map[string]string{"f.Offset": "off", "f.Length": "len", "fileEnd": "fileEnd", "end": "cur", "subEnd": "subEnd"}
		o.fxAssign(fs(xd, "", "lastOffset", "xar_last_file_end", "(off len : Z)", "Z", ll), "fileEnd", 0)
		o.fxCond(fs(xd, "", "lastOffset", "xar_last_takes_file", "(fileEnd cur : Z)", "bool", ll), "if:fileEnd")
		o.fxCond(fs(xd, "", "lastOffset", "xar_last_takes_sub", "(subEnd cur : Z)", "bool", ll), "if:subEnd")
		// ================================================================= xar: Sign
		o.f("\n(* ---- xar.Sign *)\n")
		sl := map[string]string{"hdr.CompressedSize": "clen", "hdr.UncompressedSize": "ulen", "origSigSize": "origSigSize", "newSigSize": "newSigSize", "len(ztocBytes)": "zlen_ztoc", "origTotal": "origTotal"}
		o.fxCond(fs(xd, "", "Sign", "xar_sign_toc_too_large", "(clen ulen : Z)", "bool", sl), "if:hdr.CompressedSize")
		o.fxCallArgText(fs(xd, "", "Sign", "xar_sign_toc_len_is", "", "Z", sl), "tocEtree", 0, 1, []string{"hdr.CompressedSize"})
		o.fxCallArgText(fs(xd, "", "tocEtree", "xar_sign_toc_limit_is", "", "Z", sl), "io.LimitReader", 0, 1, []string{"compressedSize"})
		o.fxStringArg(xd, "", "Sign", "doc.FindElement", 0, 0, "xar_path_toc")
		o.fxStringArg(xd, "", "adjustOffsets", "doc.FindElements", 0, 0, "xar_path_adjust")
		o.fxStringArg(xd, "", "checkFiles", "toc.FindElements", 0, 0, "xar_path_check")
		o.fxStringArg(xd, "", "checkFiles", "ed.SelectElement", 0, 0, "xar_check_requires")
		o.fxStringList(xd, "", "removeSigs", "xar_remove_keys")
		o.fxStringArg(xd, "", "removeSigs", "el.SelectElement", 0, 0, "xar_remove_size_child")
		o.hasStmt(xd, "", "removeSigs", "size += n", "xar_remove_adds_size")
		o.hasStmt(xd, "", "removeSigs", "el.Parent().RemoveChild(el)", "xar_remove_removes")
		o.fxReserve(xd, "reserveSignatures", "xar_reserve")
		o.fxCallArg(fs(xd, "", "Sign", "xar_sign_delta", "(newSigSize origSigSize : Z)", "Z", sl), "adjustOffsets", 0, 1)
		o.hasStmt(xd, "", "adjustOffsets", "offset += delta", "xar_adjust_adds_delta")
		o.hasStmt(xd, "", "adjustOffsets", "continue", "xar_adjust_skips_unparsable")
		o.fxAssign(fs(xd, "", "Sign", "xar_sign_orig_total", "(clen origSigSize : Z)", "Z", sl), "origTotal", 0)
		o.fxCallArg(fs(xd, "", "Sign", "xar_sign_patch_off", "", "Z", sl), "p.Add", 0, 0)
		o.fxCallArg(fs(xd, "", "Sign", "xar_sign_patch_old", "(origTotal : Z)", "Z", sl), "p.Add", 0, 1)
		// call order of Sign: old slots removed, new ones reserved, files checked, offsets moved, TOC compressed, signatures appended
		o.callOrder(xd, "", "Sign", "xar_sign_order", []string{"parseHeader", "tocEtree", "removeSigs", "reserveSignatures", "checkFiles", "adjustOffsets", "compress", "appendSignatures", "Add"})
		// ---- appendSignatures
		o.f("\n(* ---- appendSignatures *)\n")
		al := map[string]string{"xarMagic": "xar_magic", "uncompSize": "ulen", "len(ztoc)": "zlen_ztoc", "usedSigSize": "used", "reservedSigSize": "reserved"}
		o.fxCompositeField(fs(xd, "", "appendSignatures", "xar_out_magic", "", "Z", al), "fileHeader", "Magic")
		o.fxCompositeField(fs(xd, "", "appendSignatures", "xar_out_hsize", "", "Z", al), "fileHeader", "HeaderSize")
		o.fxCompositeField(fs(xd, "", "appendSignatures", "xar_out_version", "", "Z", al), "fileHeader", "Version")
		o.fxCompositeField(fs(xd, "", "appendSignatures", "xar_out_ulen", "(ulen : Z)", "Z", al), "fileHeader", "UncompressedSize")
		o.fxCompositeField(fs(xd, "", "appendSignatures", "xar_out_clen", "(zlen_ztoc : Z)", "Z", al), "fileHeader", "CompressedSize")
		names := []string{"hdr", "ztoc", "ztocHash", "classicBytes", "tssig.Raw", "make([]byte, *"}
		o.fxWriteOrder(xd, "", "appendSignatures", "xar_append_order", []string{"binary.Write", "out.Write"}, map[string]int{"binary.Write": 2, "out.Write": 0}, names)
		o.fxCallArgText(fs(xd, "", "appendSignatures", "xar_checksum_covers", "", "Z", al), "d.Write", 0, 0, names)
		o.fxCallArgText(fs(xd, "", "appendSignatures", "xar_classic_signs", "", "Z", al), "Sign", 0, 1, names)
		o.fxCallArgText(fs(xd, "", "appendSignatures", "xar_cms_content", "", "Z", al), "builder.SetContentData", 0, 0, names)
		o.fxCond(fs(xd, "", "appendSignatures", "xar_append_overflow", "(used reserved : Z)", "bool", al), "if:usedSigSize")
		o.fxCallArg(fs(xd, "", "appendSignatures", "xar_append_pad", "(reserved used : Z)", "Z", al), "make", 0, 1)
		o.hasStmt(xd, "", "appendSignatures", "usedSigSize += int64(len(ztocHash))", "xar_used_counts_checksum")
		o.hasStmt(xd, "", "appendSignatures", "usedSigSize += int64(len(classicBytes))", "xar_used_counts_classic")
		o.hasStmt(xd, "", "appendSignatures", "usedSigSize += int64(len(tssig.Raw))", "xar_used_counts_cms")
		// ---- verify.go
		o.f("\n(* ---- xar Verify / checkFiles / streamReaderAt *)\n")
		o.fxIfChain(xd, "XAR", "Verify", "x.CMSSignature != nil", "xar_verify_chain", []string{"x.CMSSignature != nil", "x.ClassicSignature != nil"})
		o.fxCallArgText(fs(xd, "XAR", "Verify", "xar_verify_cms_content", "", "Z", nil), "psd.Content.Verify", 0, 0, []string{"x.TOCHash"})
		o.fxCallArgText(fs(xd, "XAR", "Verify", "xar_verify_classic_content", "", "Z", nil), "x509tools.Verify", 0, 2, []string{"x.TOCHash"})
		o.fxCond(fs(xd, "XAR", "Verify", "xar_verify_checks_files", "(skipDigests : bool)", "bool", map[string]string{"skipDigests": "skipDigests"}), "if:skipDigests")
		gl := map[string]string{"f.Length": "len", "len(f.Files)": "nkids"}
		o.fxCond(fs(xd, "", "gatherDataFiles", "xar_gather_takes", "(len : Z)", "bool", gl), "if:f.Length")
		o.fxCond(fs(xd, "", "gatherDataFiles", "xar_gather_descends", "(nkids : Z)", "bool", gl), "if:len(f.Files)")
		o.fxElseIf(xd, "", "gatherDataFiles", "f.Length != 0", "len(f.Files) != 0", "xar_gather_descends_only_if_not_taken")
		o.fxCond(fs(xd, "", "checkFiles", "xar_check_skips", "(has_ck : bool)", "bool", map[string]string{"ek == nil": "(negb has_ck)"}), "if:ek")
		o.fxCaseStrings(xd, "", "checkFile", "f.ArchivedChecksum.Style", "xar_file_styles")
		o.fxCond(fs(xd, "", "checkFile", "xar_file_short", "(n len : Z)", "bool", map[string]string{"n": "n", "f.Length": "len"}), "if:f.Length")
		rl := map[string]string{"p": "p", "r.pos": "pos"}
		o.fxCond(fs(xd, "streamReaderAt", "ReadAt", "xar_stream_skips", "(p pos : Z)", "bool", rl), "if:r.pos", 0)
		o.fxCond(fs(xd, "streamReaderAt", "ReadAt", "xar_stream_backwards", "(p pos : Z)", "bool", rl), "if:r.pos", 1)
		o.fxCallArg(fs(xd, "streamReaderAt", "ReadAt", "xar_stream_skip_len", "(p pos : Z)", "Z", rl), "io.CopyN", 0, 2)
		for _, fn := range []string{"Open", "parseHeader", "parseTOC", "lastOffset", "Sign", "tocEtree", "removeSigs", "reserveSignatures", "newSigElement", "adjustOffsets", "compress", "appendSignatures", "checkFiles", "checkFile", "gatherDataFiles"} {
			fingerprint(xd, "", fn)
		}
		fingerprint(xd, "XAR", "Verify")
		fingerprint(xd, "XAR", "checkFiles")
		fingerprint(xd, "streamReaderAt", "ReadAt")
		fingerprint(sx, "", "sign")
		fingerprint(sx, "", "verify")
		// ================================================================= dmg
		o.f("\n(* ---- dmg: UDIF trailer (lib/fruit/dmg/dmg.go) *)\n")
		o.fxLayout(dd, "udifResourceFile", "dmg_koly")
		o.fxLayout(dd, "udifChecksum", "dmg_cksum")
		o.constInt(dd, "udifSignature", "dmg_magic")
		dl := map[string]string{"d.rsf.Signature": "magic", "d.rsf.SignatureLength": "siglen", "d.rsf.SignatureOffset": "sigoff", "len(d.sigBlob)": "bloblen",
			"d.rsf.XMLOffset": "xmloff", "d.rsf.XMLLength": "xmllen", "io.SeekEnd": "2"}
		o.fxCallArg(fs(dd, "", "Open", "dmg_open_seek", "", "Z", dl), "f.Seek", 0, 0)
		o.fxCond(fs(dd, "", "Open", "dmg_open_bad_magic", "(magic : Z)", "bool", dl), "if:d.rsf.Signature ")
		o.fxCond(fs(dd, "", "Open", "dmg_open_has_sig", "(siglen : Z)", "bool", dl), "if:d.rsf.SignatureLength", 0)
		o.fxCond(fs(dd, "", "Open", "dmg_open_sig_unreasonable", "(siglen : Z)", "bool", dl), "if:d.rsf.SignatureLength", 1)
		o.fxCallArg(fs(dd, "", "Open", "dmg_open_alloc", "(siglen : Z)", "Z", dl), "make", 0, 1)
		o.fxCallArg(fs(dd, "", "Open", "dmg_open_blob_at", "(sigoff : Z)", "Z", dl), "f.ReadAt", 0, 1)
		o.hasStmt(dd, "udifResourceFile", "ForHashing", "rsf.SignatureLength = 0", "dmg_hashing_zeroes_siglen")
		o.fxCond(fs(dd, "DMG", "Verify", "dmg_verify_unsigned", "(bloblen : Z)", "bool", dl), "if:len(d.sigBlob)")
		o.fxCallArg(fs(dd, "DMG", "Verify", "dmg_verify_pages_from", "", "Z", dl), "io.NewSectionReader", 0, 1)
		o.fxCallArg(fs(dd, "DMG", "Verify", "dmg_verify_pages_len", "(xmloff xmllen : Z)", "Z", dl), "io.NewSectionReader", 0, 2)
		sgl := map[string]string{"rsf.XMLOffset": "xmloff", "rsf.XMLLength": "xmllen", "bundleSize": "bundleSize", "oldOffset": "oldOffset", "oldLength": "oldLength",
			"rsf.SignatureOffset": "sigoff", "oldSize": "oldSize", "len(blob)": "zlen_blob"}
		o.fxAssign(fs(dd, "", "Sign", "dmg_sign_bundle", "(xmloff xmllen : Z)", "Z", sgl), "bundleSize", 0)
		o.fxAssign(fs(dd, "", "Sign", "dmg_sign_new_sigoff", "(bundleSize : Z)", "Z", sgl), "rsf.SignatureOffset", 0)
		o.fxAssign(fs(dd, "", "Sign", "dmg_sign_new_siglen", "(zlen_blob : Z)", "Z", sgl), "rsf.SignatureLength", 0)
		o.fxCond(fs(dd, "", "Sign", "dmg_sign_has_old", "(oldOffset : Z)", "bool", sgl), "if:oldOffset", 0)
		o.fxCond(fs(dd, "", "Sign", "dmg_sign_gap", "(oldOffset bundleSize : Z)", "bool", sgl), "if:oldOffset", 1)
		o.fxCallArg(fs(dd, "", "Sign", "dmg_sign_pages_len", "(bundleSize : Z)", "Z", sgl), "io.LimitReader", 0, 1)
		o.fxCallArg(fs(dd, "", "Sign", "dmg_sign_old_len", "(oldLength : Z)", "Z", sgl), "io.LimitReader", 1, 1)
		o.fxCallArg(fs(dd, "", "Sign", "dmg_sign_patch_off", "(sigoff : Z)", "Z", sgl), "patch.Add", 0, 0)
		o.fxCallArg(fs(dd, "", "Sign", "dmg_sign_patch_old", "(oldSize sigoff : Z)", "Z", sgl), "patch.Add", 0, 1)
		o.fxWriteOrder(dd, "", "Sign", "dmg_sign_order", []string{"b.Write", "binary.Write"}, map[string]int{"b.Write": 0, "binary.Write": 2}, []string{"blob", "rsf"})
		// the assignments to the trailer happen in this order relative to the hashing of the trailer: offset before, length after
		o.fxBefore(dd, "", "Sign", "rsf.SignatureOffset = bundleSize", "rsf.ForHashing", "dmg_sign_hashes_new_offset")
		o.callOrder(dd, "", "Sign", "dmg_sign_calls", []string{"ForHashing", "csblob.Sign", "Copy", "Add"})
		for _, fn := range []string{"Open", "Sign"} {
			fingerprint(dd, "", fn)
		}
		fingerprint(dd, "DMG", "Verify")
		fingerprint(dd, "udifResourceFile", "ForHashing")
		// ---- signers/dmg: the trailer handed to the signer is the last 512 bytes of the file
		o.f("\n(* ---- signers/dmg transform *)\n")
		tl := map[string]string{"io.SeekEnd": "2"}
		o.fxCallArg(fs(sd, "", "transform", "dmg_transform_seek", "", "Z", tl), "f.Seek", 0, 0)
		o.fxCallArg(fs(sd, "", "transform", "dmg_transform_len", "", "Z", tl), "make", 0, 1)
		for _, fn := range []string{"transform", "sign", "verify", "extractFiles"} {
			fingerprint(sd, "", fn)
		}
		fingerprint(sd, "transformer", "send")
		_ = sort.Strings
	}
}
