// srcgen: regenerates coq/Generated/*.v from /repo's current working tree.
//
// It never imports relic; it parses the anchored Go files with go/parser and
// emits (a) constants, (b) struct layouts, (c) loop-free decision functions and
// single conditions translated into Gallina, (d) ordered call tables, and
// (e) fingerprints of the hand-modelled functions.  Anything it cannot find or
// translate is reported as an item in the "broken" list of the JSON summary and
// the corresponding Coq definition is emitted as a *comment only*, so that the
// Coq build of the dependent model fails (a broken tie is never silent).
package main

import (
	"bytes"
	"crypto/sha256"
	"encoding/hex"
	"encoding/json"
	"flag"
	"fmt"
	"go/ast"
	"go/parser"
	"go/printer"
	"go/token"
	"os"
	"path/filepath"
	"sort"
	"strconv"
	"strings"
)

type pkgInfo struct {
	fset  *token.FileSet
	files map[string]*ast.File
}

// generators: one entry per coq/Generated/<name>.v, registered by the gen_*.go files compiled into this binary
var generators = map[string]func(*out){}

var (
	repo    string
	pkgs    = map[string]*pkgInfo{}
	broken  []string
	fingers = map[string]string{}
)

func loadPkg(dir string) *pkgInfo {
	if p, ok := pkgs[dir]; ok {
		return p
	}
	p := &pkgInfo{fset: token.NewFileSet(), files: map[string]*ast.File{}}
	ents, err := os.ReadDir(filepath.Join(repo, dir))
	if err != nil {
		broken = append(broken, "missing package dir "+dir)
		pkgs[dir] = p
		return p
	}
	for _, e := range ents {
		n := e.Name()
		if !strings.HasSuffix(n, ".go") || strings.HasSuffix(n, "_test.go") || strings.HasPrefix(n, "verif_") {
			continue
		}
		f, err := parser.ParseFile(p.fset, filepath.Join(repo, dir, n), nil, 0)
		if err != nil {
			broken = append(broken, "parse error "+dir+"/"+n+": "+err.Error())
			continue
		}
		p.files[n] = f
	}
	pkgs[dir] = p
	return p
}

// findFunc locates func name or (recv).name; recv "" matches plain functions.
func findFunc(dir, recv, name string) (*pkgInfo, *ast.FuncDecl) {
	p := loadPkg(dir)
	for _, f := range p.files {
		for _, d := range f.Decls {
			fd, ok := d.(*ast.FuncDecl)
			if !ok || fd.Name.Name != name {
				continue
			}
			r := ""
			if fd.Recv != nil && len(fd.Recv.List) == 1 {
				t := fd.Recv.List[0].Type
				if s, ok := t.(*ast.StarExpr); ok {
					t = s.X
				}
				if id, ok := t.(*ast.Ident); ok {
					r = id.Name
				}
			}
			if r == recv {
				return p, fd
			}
		}
	}
	return p, nil
}

func printNode(fset *token.FileSet, n ast.Node) string {
	var b bytes.Buffer
	_ = printer.Fprint(&b, fset, n)
	return b.String()
}

func fingerprint(dir, recv, name string) string {
	p, fd := findFunc(dir, recv, name)
	key := dir + ":" + recv + "." + name
	if fd == nil {
		broken = append(broken, "function not found: "+key)
		fingers[key] = "MISSING"
		return "MISSING"
	}
	s := printNode(p.fset, fd)
	// normalise whitespace
	s = strings.Join(strings.Fields(s), " ")
	h := sha256.Sum256([]byte(s))
	fp := hex.EncodeToString(h[:8])
	fingers[key] = fp
	return fp
}

// ---------------------------------------------------------------- constants

// constant evaluation over integer/float literal expressions, package consts and a few selectors
type cval struct {
	isFloat bool
	i       int64
	f       float64
}

var selectorConsts = map[string]cval{
	"time.Nanosecond":  {i: 1},
	"time.Microsecond": {i: 1000},
	"time.Millisecond": {i: 1000000},
	"time.Second":      {i: 1000000000},
	"time.Minute":      {i: 60000000000},
	"time.Hour":        {i: 3600000000000},
	"http.StatusOK":    {i: 200}, "http.StatusBadRequest": {i: 400}, "http.StatusUnauthorized": {i: 401}, "http.StatusForbidden": {i: 403},
	"http.StatusNotFound": {i: 404}, "http.StatusNotAcceptable": {i: 406}, "http.StatusInternalServerError": {i: 500},
	"http.StatusBadGateway": {i: 502}, "http.StatusServiceUnavailable": {i: 503}, "http.StatusGatewayTimeout": {i: 504},
	"http.StatusInsufficientStorage": {i: 507}, "http.StatusUnsupportedMediaType": {i: 415}, "http.StatusMultipleChoices": {i: 300},
	"http.StatusRequestEntityTooLarge": {i: 413}, "http.StatusTooManyRequests": {i: 429}, "http.StatusNotImplemented": {i: 501},
}

func findConstExpr(dir, name string) (ast.Expr, *pkgInfo, int, *ast.ValueSpec) {
	p := loadPkg(dir)
	for _, f := range p.files {
		for _, d := range f.Decls {
			gd, ok := d.(*ast.GenDecl)
			if !ok || (gd.Tok != token.CONST && gd.Tok != token.VAR) {
				continue
			}
			var lastVals []ast.Expr
			for si, s := range gd.Specs {
				vs := s.(*ast.ValueSpec)
				if len(vs.Values) > 0 {
					lastVals = vs.Values
				}
				for i, n := range vs.Names {
					if n.Name == name {
						if len(vs.Values) > i {
							return vs.Values[i], p, si, vs
						}
						if len(lastVals) > i { // iota continuation
							return lastVals[i], p, si, vs
						}
						return nil, p, si, vs
					}
				}
			}
		}
	}
	return nil, p, 0, nil
}

func evalConst(dir string, e ast.Expr, iota int) (cval, error) {
	switch x := e.(type) {
	case *ast.BasicLit:
		switch x.Kind {
		case token.INT:
			v, err := strconv.ParseInt(x.Value, 0, 64)
			if err != nil {
				u, err2 := strconv.ParseUint(x.Value, 0, 64)
				if err2 != nil {
					return cval{}, err
				}
				return cval{i: int64(u)}, nil
			}
			return cval{i: v}, nil
		case token.FLOAT:
			v, err := strconv.ParseFloat(x.Value, 64)
			return cval{isFloat: true, f: v}, err
		case token.CHAR:
			r, _, _, err := strconv.UnquoteChar(x.Value[1:len(x.Value)-1], '\'')
			return cval{i: int64(r)}, err
		}
	case *ast.ParenExpr:
		return evalConst(dir, x.X, iota)
	case *ast.Ident:
		if x.Name == "iota" {
			return cval{i: int64(iota)}, nil
		}
		ce, _, si, _ := findConstExpr(dir, x.Name)
		if ce == nil {
			return cval{}, fmt.Errorf("unknown const %s", x.Name)
		}
		return evalConst(dir, ce, si)
	case *ast.SelectorExpr:
		s := printNode(token.NewFileSet(), x)
		if v, ok := selectorConsts[s]; ok {
			return v, nil
		}
		return cval{}, fmt.Errorf("unknown selector const %s", s)
	case *ast.CallExpr: // conversions like int64(x), time.Duration(x), uint32(x)
		if len(x.Args) == 1 {
			return evalConst(dir, x.Args[0], iota)
		}
	case *ast.UnaryExpr:
		v, err := evalConst(dir, x.X, iota)
		if err != nil {
			return v, err
		}
		switch x.Op {
		case token.SUB:
			v.i, v.f = -v.i, -v.f
			return v, nil
		case token.XOR:
			v.i = ^v.i
			return v, nil
		}
	case *ast.BinaryExpr:
		a, err := evalConst(dir, x.X, iota)
		if err != nil {
			return a, err
		}
		b, err := evalConst(dir, x.Y, iota)
		if err != nil {
			return b, err
		}
		if a.isFloat || b.isFloat {
			af, bf := a.f, b.f
			if !a.isFloat {
				af = float64(a.i)
			}
			if !b.isFloat {
				bf = float64(b.i)
			}
			switch x.Op {
			case token.ADD:
				return cval{isFloat: true, f: af + bf}, nil
			case token.SUB:
				return cval{isFloat: true, f: af - bf}, nil
			case token.MUL:
				return cval{isFloat: true, f: af * bf}, nil
			case token.QUO:
				return cval{isFloat: true, f: af / bf}, nil
			}
		} else {
			switch x.Op {
			case token.ADD:
				return cval{i: a.i + b.i}, nil
			case token.SUB:
				return cval{i: a.i - b.i}, nil
			case token.MUL:
				return cval{i: a.i * b.i}, nil
			case token.QUO:
				if b.i == 0 {
					return cval{}, fmt.Errorf("div by zero")
				}
				return cval{i: a.i / b.i}, nil
			case token.SHL:
				return cval{i: a.i << uint(b.i)}, nil
			case token.SHR:
				return cval{i: a.i >> uint(b.i)}, nil
			case token.OR:
				return cval{i: a.i | b.i}, nil
			case token.AND:
				return cval{i: a.i & b.i}, nil
			}
		}
	}
	return cval{}, fmt.Errorf("unsupported const expr %T", e)
}

type out struct {
	name string
	b    strings.Builder
}

// f writes formatted text; every Coq comment on the line is sanitised so that Go text such as new(*T) cannot
// open a nested comment.
func (o *out) f(format string, a ...interface{}) {
	s := fmt.Sprintf(format, a...)
	lines := strings.Split(s, "\n")
	for i, ln := range lines {
		if k := strings.Index(ln, "(* "); k >= 0 && strings.HasSuffix(strings.TrimRight(ln, " "), "*)") {
			body := ln[k+3 : strings.LastIndex(ln, "*)")]
			body = strings.ReplaceAll(strings.ReplaceAll(body, "(*", "( *"), "*)", "* )")
			lines[i] = ln[:k+3] + body + "*)"
		}
	}
	o.b.WriteString(strings.Join(lines, "\n"))
}

func (o *out) brokenDef(coqName, why string) {
	broken = append(broken, o.name+": "+coqName+": "+why)
	o.f("(* BROKEN TIE: %s — %s *)\n", coqName, strings.ReplaceAll(why, "*)", "* )"))
}

// constInt emits Definition coqName : Z := <value>.
func (o *out) constInt(dir, goName, coqName string) {
	ce, _, si, _ := findConstExpr(dir, goName)
	if ce == nil {
		o.brokenDef(coqName, "constant "+dir+"."+goName+" not found")
		return
	}
	v, err := evalConst(dir, ce, si)
	if err != nil || v.isFloat {
		o.brokenDef(coqName, fmt.Sprintf("constant %s.%s not an integer literal expression (%v)", dir, goName, err))
		return
	}
	o.f("Definition %s : Z := %d. (* %s.%s *)\n", coqName, v.i, dir, goName)
}

// constMilli emits a float constant scaled by 1000 (rounded) as Z.
func (o *out) constMilli(dir, goName, coqName string) {
	ce, _, si, _ := findConstExpr(dir, goName)
	if ce == nil {
		o.brokenDef(coqName, "constant "+dir+"."+goName+" not found")
		return
	}
	v, err := evalConst(dir, ce, si)
	if err != nil {
		o.brokenDef(coqName, err.Error())
		return
	}
	f := v.f
	if !v.isFloat {
		f = float64(v.i)
	}
	o.f("Definition %s : Z := %d. (* %s.%s x1000 *)\n", coqName, int64(f*1000+0.5), dir, goName)
}

// constString emits a string constant (as Coq string) — requires String scope in the consumer.
func (o *out) constString(dir, goName, coqName string) {
	ce, _, _, _ := findConstExpr(dir, goName)
	bl, ok := ce.(*ast.BasicLit)
	if ce == nil || !ok || bl.Kind != token.STRING {
		o.brokenDef(coqName, "string constant "+dir+"."+goName+" not found")
		return
	}
	s, _ := strconv.Unquote(bl.Value)
	o.f("Definition %s : list Z := %s. (* %s.%s = %q *)\n", coqName, bytesLit([]byte(s)), dir, goName, s)
}

func bytesLit(b []byte) string {
	parts := make([]string, len(b))
	for i, c := range b {
		parts[i] = strconv.Itoa(int(c))
	}
	return "[" + strings.Join(parts, "; ") + "]"
}

// ---------------------------------------------------------------- struct layouts

var widths = map[string]int{"uint8": 1, "int8": 1, "byte": 1, "uint16": 2, "int16": 2, "uint32": 4, "int32": 4, "uint64": 8, "int64": 8}

func findStruct(dir, name string) (*pkgInfo, *ast.StructType) {
	p := loadPkg(dir)
	for _, f := range p.files {
		for _, d := range f.Decls {
			gd, ok := d.(*ast.GenDecl)
			if !ok || gd.Tok != token.TYPE {
				continue
			}
			for _, s := range gd.Specs {
				ts := s.(*ast.TypeSpec)
				if ts.Name.Name == name {
					if st, ok := ts.Type.(*ast.StructType); ok {
						return p, st
					}
				}
			}
		}
	}
	return p, nil
}

// resolves named types to basic widths inside the package (type SecID int32 etc.)
func typeWidth(dir string, e ast.Expr) (int, bool) {
	switch t := e.(type) {
	case *ast.Ident:
		if w, ok := widths[t.Name]; ok {
			return w, true
		}
		p := loadPkg(dir)
		for _, f := range p.files {
			for _, d := range f.Decls {
				gd, ok := d.(*ast.GenDecl)
				if !ok || gd.Tok != token.TYPE {
					continue
				}
				for _, s := range gd.Specs {
					ts := s.(*ast.TypeSpec)
					if ts.Name.Name == t.Name {
						if st, ok := ts.Type.(*ast.StructType); ok {
							tot := 0
							for _, fl := range st.Fields.List {
								w, ok := typeWidth(dir, fl.Type)
								if !ok {
									return 0, false
								}
								n := len(fl.Names)
								if n == 0 {
									n = 1
								}
								tot += w * n
							}
							return tot, true
						}
						return typeWidth(dir, ts.Type)
					}
				}
			}
		}
	case *ast.ArrayType:
		if t.Len == nil {
			return 0, false
		}
		n, err := evalConst(dir, t.Len, 0)
		if err != nil {
			return 0, false
		}
		w, ok := typeWidth(dir, t.Elt)
		return int(n.i) * w, ok
	case *ast.SelectorExpr:
		return 0, false
	}
	return 0, false
}

// structLayout emits Definition coqName : list (list Z * Z) := [(name, width); ...] with names as byte strings,
// plus coqName_size, and one Definition coqName_off_<Field> : Z per field.
func (o *out) structLayout(dir, goName, coqName string) {
	_, st := findStruct(dir, goName)
	if st == nil {
		o.brokenDef(coqName, "struct "+dir+"."+goName+" not found")
		return
	}
	var names []string
	var ws []int
	for _, fl := range st.Fields.List {
		w, ok := typeWidth(dir, fl.Type)
		if !ok {
			o.brokenDef(coqName, "struct "+goName+" has a field of non-fixed width")
			return
		}
		if len(fl.Names) == 0 {
			names = append(names, "_")
			ws = append(ws, w)
		}
		for _, n := range fl.Names {
			names = append(names, n.Name)
			ws = append(ws, w)
		}
	}
	off := 0
	var items []string
	for i, n := range names {
		items = append(items, fmt.Sprintf("%d", ws[i]))
		o.f("Definition %s_off_%s : Z := %d.\nDefinition %s_w_%s : Z := %d.\n", coqName, n, off, coqName, n, ws[i])
		off += ws[i]
	}
	o.f("Definition %s_widths : list Z := [%s]. (* %s.%s fields: %s *)\n", coqName, strings.Join(items, "; "), dir, goName, strings.Join(names, ","))
	o.f("Definition %s_size : Z := %d.\n", coqName, off)
}

// ---------------------------------------------------------------- expression / decision translation

type tr struct {
	fset   *token.FileSet
	dir    string
	leaves map[string]string // printed Go expr -> Coq term
	types  map[string]string // printed Go expr -> "Z"|"bool"|"str"|"bytes"
	calls  map[string]string // Go callee printed -> Coq function
	locals map[string]string // identifiers bound by let
	ignore []string          // substrings of side-effect-only statements that may be skipped
	err    error
}

func (t *tr) ignorable(s ast.Stmt) bool {
	txt := printNode(t.fset, s)
	switch x := s.(type) {
	case *ast.ExprStmt, *ast.DeferStmt, *ast.DeclStmt:
		for _, pat := range t.ignore {
			if strings.Contains(txt, pat) {
				return true
			}
		}
	case *ast.IfStmt:
		if x.Else != nil || x.Init != nil {
			return false
		}
		for _, b := range x.Body.List {
			if !t.ignorable(b) {
				return false
			}
		}
		return len(x.Body.List) > 0
	case *ast.AssignStmt:
		for _, pat := range t.ignore {
			if strings.Contains(txt, pat) {
				return true
			}
		}
	}
	return false
}

func (t *tr) fail(format string, a ...interface{}) string {
	if t.err == nil {
		t.err = fmt.Errorf(format, a...)
	}
	return "BROKEN"
}

func (t *tr) typeOf(e ast.Expr) string {
	s := printNode(t.fset, e)
	if ty, ok := t.types[s]; ok {
		return ty
	}
	switch x := e.(type) {
	case *ast.BasicLit:
		if x.Kind == token.STRING {
			return "str"
		}
		return "Z"
	case *ast.ParenExpr:
		return t.typeOf(x.X)
	case *ast.BinaryExpr:
		switch x.Op {
		case token.LAND, token.LOR, token.EQL, token.NEQ, token.LSS, token.LEQ, token.GTR, token.GEQ:
			return "bool"
		}
		return t.typeOf(x.X)
	case *ast.UnaryExpr:
		if x.Op == token.NOT {
			return "bool"
		}
		return t.typeOf(x.X)
	case *ast.Ident:
		if x.Name == "true" || x.Name == "false" {
			return "bool"
		}
	case *ast.CallExpr:
		fn := printNode(t.fset, x.Fun)
		if ty, ok := t.types[fn+"()"]; ok {
			return ty
		}
		if _, ok := widths[fn]; ok || fn == "int" || fn == "uint" || fn == "len" {
			return "Z"
		}
	}
	return "Z"
}

func (t *tr) expr(e ast.Expr) string {
	s := printNode(t.fset, e)
	if c, ok := t.leaves[s]; ok {
		return c
	}
	switch x := e.(type) {
	case *ast.ParenExpr:
		return "(" + t.expr(x.X) + ")"
	case *ast.BasicLit:
		switch x.Kind {
		case token.INT:
			v, err := strconv.ParseInt(x.Value, 0, 64)
			if err != nil {
				return t.fail("bad int literal %s", x.Value)
			}
			if v < 0 {
				return fmt.Sprintf("(%d)", v)
			}
			return fmt.Sprintf("%d", v)
		case token.STRING:
			u, _ := strconv.Unquote(x.Value)
			return bytesLit([]byte(u))
		case token.CHAR:
			r, _, _, _ := strconv.UnquoteChar(x.Value[1:len(x.Value)-1], '\'')
			return fmt.Sprintf("%d", r)
		}
	case *ast.Ident:
		if x.Name == "true" || x.Name == "false" {
			return x.Name
		}
		if c, ok := t.locals[x.Name]; ok {
			return c
		}
		// package constant?
		if ce, _, si, _ := findConstExpr(t.dir, x.Name); ce != nil {
			if v, err := evalConst(t.dir, ce, si); err == nil && !v.isFloat {
				if v.i < 0 {
					return fmt.Sprintf("(%d)", v.i)
				}
				return fmt.Sprintf("%d", v.i)
			}
		}
		return t.fail("unmapped identifier %s", x.Name)
	case *ast.SelectorExpr:
		if v, ok := selectorConsts[s]; ok {
			return fmt.Sprintf("%d", v.i)
		}
		return t.fail("unmapped selector %s", s)
	case *ast.UnaryExpr:
		switch x.Op {
		case token.NOT:
			return "(negb " + t.expr(x.X) + ")"
		case token.SUB:
			return "(- " + t.expr(x.X) + ")"
		}
	case *ast.BinaryExpr:
		a, b := t.expr(x.X), t.expr(x.Y)
		ty := t.typeOf(x.X)
		if ty == "Z" && t.typeOf(x.Y) != "Z" {
			ty = t.typeOf(x.Y)
		}
		switch x.Op {
		case token.LAND:
			return "(" + a + " && " + b + ")"
		case token.LOR:
			return "(" + a + " || " + b + ")"
		case token.ADD:
			return "(" + a + " + " + b + ")"
		case token.SUB:
			return "(" + a + " - " + b + ")"
		case token.MUL:
			return "(" + a + " * " + b + ")"
		case token.QUO:
			return "(Z.quot " + a + " " + b + ")"
		case token.REM:
			return "(Z.rem " + a + " " + b + ")"
		case token.EQL, token.NEQ:
			var r string
			switch ty {
			case "bool":
				r = "(Bool.eqb " + a + " " + b + ")"
			case "str", "bytes":
				r = "(bytes_eqb " + a + " " + b + ")"
			default:
				r = "(" + a + " =? " + b + ")"
			}
			if x.Op == token.NEQ {
				r = "(negb " + r + ")"
			}
			return r
		case token.LSS:
			return "(" + a + " <? " + b + ")"
		case token.LEQ:
			return "(" + a + " <=? " + b + ")"
		case token.GTR:
			return "(" + a + " >? " + b + ")"
		case token.GEQ:
			return "(" + a + " >=? " + b + ")"
		case token.SHR:
			return "(Z.shiftr " + a + " " + b + ")"
		case token.SHL:
			return "(Z.shiftl " + a + " " + b + ")"
		case token.OR:
			return "(Z.lor " + a + " " + b + ")"
		case token.AND:
			return "(Z.land " + a + " " + b + ")"
		}
	case *ast.CallExpr:
		fn := printNode(t.fset, x.Fun)
		if _, ok := widths[fn]; ok || fn == "int" || fn == "uint" {
			if c, ok := t.calls[fn]; ok { // wrap-around conversions can be mapped explicitly
				return "(" + c + " " + t.expr(x.Args[0]) + ")"
			}
			return t.expr(x.Args[0])
		}
		if c, ok := t.calls[fn]; ok {
			parts := []string{c}
			for _, a := range x.Args {
				parts = append(parts, t.expr(a))
			}
			return "(" + strings.Join(parts, " ") + ")"
		}
		return t.fail("unmapped call %s", fn)
	}
	return t.fail("unsupported expression %s", s)
}

// stmts translates a loop-free statement list ending in returns into a Gallina term.
// rest is the continuation used when the list falls through.
func (t *tr) stmts(list []ast.Stmt, rest string) string {
	if len(list) == 0 {
		if rest == "" {
			return t.fail("fallthrough without continuation")
		}
		return rest
	}
	s, tail := list[0], list[1:]
	if t.ignorable(s) {
		return t.stmts(tail, rest)
	}
	switch x := s.(type) {
	case *ast.ReturnStmt:
		if len(x.Results) == 1 {
			return t.expr(x.Results[0])
		}
		var parts []string
		for _, r := range x.Results {
			parts = append(parts, t.expr(r))
		}
		return "(" + strings.Join(parts, ", ") + ")"
	case *ast.IfStmt:
		if x.Init != nil {
			return t.fail("if with init")
		}
		cont := ""
		if len(tail) > 0 || rest != "" {
			cont = t.stmts(tail, rest)
		}
		thenS := t.stmts(x.Body.List, cont)
		var elseS string
		switch e := x.Else.(type) {
		case nil:
			elseS = cont
			if elseS == "" {
				return t.fail("if without else at end")
			}
		case *ast.BlockStmt:
			elseS = t.stmts(e.List, cont)
		case *ast.IfStmt:
			elseS = t.stmts([]ast.Stmt{e}, cont)
		}
		return "(if " + t.expr(x.Cond) + " then " + thenS + " else " + elseS + ")"
	case *ast.AssignStmt:
		if len(x.Lhs) == 1 && len(x.Rhs) == 1 {
			if id, ok := x.Lhs[0].(*ast.Ident); ok {
				v := t.expr(x.Rhs[0])
				name := "v_" + id.Name
				old, had := t.locals[id.Name]
				t.locals[id.Name] = name
				body := t.stmts(tail, rest)
				if had {
					t.locals[id.Name] = old
				}
				return "(let " + name + " := " + v + " in " + body + ")"
			}
		}
		return t.fail("unsupported assignment %s", printNode(t.fset, s))
	case *ast.SwitchStmt:
		if x.Init != nil {
			return t.fail("switch with init")
		}
		cont := ""
		if len(tail) > 0 || rest != "" {
			cont = t.stmts(tail, rest)
		}
		var deflt *ast.CaseClause
		res := ""
		var clauses []*ast.CaseClause
		for _, c := range x.Body.List {
			cc := c.(*ast.CaseClause)
			if cc.List == nil {
				deflt = cc
			} else {
				clauses = append(clauses, cc)
			}
		}
		if deflt != nil {
			res = t.stmts(deflt.Body, cont)
		} else {
			res = cont
			if res == "" {
				return t.fail("switch without default at end")
			}
		}
		for i := len(clauses) - 1; i >= 0; i-- {
			cc := clauses[i]
			var conds []string
			for _, ce := range cc.List {
				if x.Tag != nil {
					conds = append(conds, t.expr(&ast.BinaryExpr{X: x.Tag, Op: token.EQL, Y: ce}))
				} else {
					conds = append(conds, t.expr(ce))
				}
			}
			res = "(if " + strings.Join(conds, " || ") + " then " + t.stmts(cc.Body, cont) + " else " + res + ")"
		}
		return res
	case *ast.ExprStmt, *ast.DeclStmt:
		// side-effect-only statements (logging etc.) must be declared ignorable by the entry
		if _, ok := t.leaves["__ignore__:"+printNode(t.fset, s)]; ok {
			return t.stmts(tail, rest)
		}
		return t.fail("unsupported statement %s", printNode(t.fset, s))
	}
	return t.fail("unsupported statement %T", s)
}

type funcSpec struct {
	dir, recv, name string
	coqName         string
	params          string // Coq binder text, e.g. "(offset lastEnd : Z)"
	retType         string
	leaves          map[string]string
	types           map[string]string
	calls           map[string]string
	ignore          []string
}

func (o *out) newTr(p *pkgInfo, fs funcSpec) *tr {
	t := &tr{fset: p.fset, dir: fs.dir, leaves: fs.leaves, types: fs.types, calls: fs.calls, locals: map[string]string{}, ignore: fs.ignore}
	if t.leaves == nil {
		t.leaves = map[string]string{}
	}
	if t.types == nil {
		t.types = map[string]string{}
	}
	if t.calls == nil {
		t.calls = map[string]string{}
	}
	return t
}

// decisionFunc translates an entire loop-free function body.
func (o *out) decisionFunc(fs funcSpec) {
	p, fd := findFunc(fs.dir, fs.recv, fs.name)
	if fd == nil {
		o.brokenDef(fs.coqName, "function "+fs.dir+":"+fs.recv+"."+fs.name+" not found")
		return
	}
	t := o.newTr(p, fs)
	body := t.stmts(fd.Body.List, "")
	if t.err != nil {
		o.brokenDef(fs.coqName, t.err.Error())
		return
	}
	o.f("Definition %s %s : %s :=\n  %s.\n(* from %s:%s.%s *)\n", fs.coqName, fs.params, fs.retType, body, fs.dir, fs.recv, fs.name)
}

// condOf translates the condition of the nth (0-based) if/for statement of the function whose printed
// condition contains `marker` (source order, nested statements included). Markers should name the
// variables involved, not operators or literals, so that a changed comparison is translated rather than lost.
func (o *out) condOf(fs funcSpec, marker string, nth ...int) {
	p, fd := findFunc(fs.dir, fs.recv, fs.name)
	if fd == nil {
		o.brokenDef(fs.coqName, "function "+fs.dir+":"+fs.recv+"."+fs.name+" not found")
		return
	}
	want := 0
	if len(nth) > 0 {
		want = nth[0]
	}
	var found ast.Expr
	k := 0
	wantIf, wantFor := true, true
	if strings.HasPrefix(marker, "for:") {
		marker, wantIf = marker[4:], false
	} else if strings.HasPrefix(marker, "if:") {
		marker, wantFor = marker[3:], false
	}
	ast.Inspect(fd.Body, func(n ast.Node) bool {
		if found != nil {
			return false
		}
		var cond ast.Expr
		if is, ok := n.(*ast.IfStmt); ok && wantIf {
			cond = is.Cond
		}
		if fs, ok := n.(*ast.ForStmt); ok && fs.Cond != nil && wantFor {
			cond = fs.Cond
		}
		if cond != nil && strings.Contains(printNode(p.fset, cond), marker) {
			if k == want {
				found = cond
				return false
			}
			k++
		}
		return true
	})
	if found == nil {
		o.brokenDef(fs.coqName, fmt.Sprintf("no if/for condition #%d containing `%s` in %s", want, marker, fs.name))
		return
	}
	t := o.newTr(p, fs)
	c := t.expr(found)
	if t.err != nil {
		o.brokenDef(fs.coqName, t.err.Error())
		return
	}
	o.f("Definition %s %s : %s :=\n  %s.\n(* from %s:%s.%s : if %s *)\n", fs.coqName, fs.params, fs.retType, c, fs.dir, fs.recv, fs.name,
		strings.ReplaceAll(printNode(p.fset, found), "*)", "* )"))
}

// exprOfAssign translates the right-hand side of the first assignment `lhs := / = ...` in the function.
func (o *out) exprOfAssign(fs funcSpec, lhs string, nth int) {
	p, fd := findFunc(fs.dir, fs.recv, fs.name)
	if fd == nil {
		o.brokenDef(fs.coqName, "function "+fs.dir+":"+fs.recv+"."+fs.name+" not found")
		return
	}
	var found ast.Expr
	k := 0
	ast.Inspect(fd.Body, func(n ast.Node) bool {
		if found != nil {
			return false
		}
		if as, ok := n.(*ast.AssignStmt); ok && len(as.Lhs) == 1 && len(as.Rhs) == 1 {
			if printNode(p.fset, as.Lhs[0]) == lhs {
				if k == nth {
					found = as.Rhs[0]
					return false
				}
				k++
			}
		}
		return true
	})
	if found == nil {
		o.brokenDef(fs.coqName, fmt.Sprintf("no assignment #%d to `%s` in %s", nth, lhs, fs.name))
		return
	}
	t := o.newTr(p, fs)
	c := t.expr(found)
	if t.err != nil {
		o.brokenDef(fs.coqName, t.err.Error())
		return
	}
	o.f("Definition %s %s : %s :=\n  %s.\n(* from %s:%s.%s : %s = %s *)\n", fs.coqName, fs.params, fs.retType, c, fs.dir, fs.recv, fs.name, lhs,
		strings.ReplaceAll(printNode(p.fset, found), "*)", "* )"))
}

// callOrder emits the ordered list of calls (by printed callee) made in a function body, restricted to
// callees matching one of the given names; the result is a list of small integers indexing `names`.
func (o *out) callOrder(dir, recv, name, coqName string, names []string) {
	p, fd := findFunc(dir, recv, name)
	if fd == nil {
		o.brokenDef(coqName, "function "+dir+":"+recv+"."+name+" not found")
		return
	}
	var seq []string
	var seqNames []string
	ast.Inspect(fd.Body, func(n ast.Node) bool {
		// do not descend into function literals (deferred closures etc. are listed separately)
		if ce, ok := n.(*ast.CallExpr); ok {
			callee := printNode(p.fset, ce.Fun)
			for i, nm := range names {
				if callee == nm || strings.HasSuffix(callee, "."+nm) {
					seq = append(seq, strconv.Itoa(i))
					seqNames = append(seqNames, nm)
					break
				}
			}
		}
		return true
	})
	o.f("Definition %s : list Z := [%s]. (* %s:%s.%s calls: %s ; index into [%s] *)\n", coqName, strings.Join(seq, "; "), dir, recv, name,
		strings.Join(seqNames, " "), strings.Join(names, " "))
}

// selectArmExits: in function fn, find the select arm whose communication contains `marker`; emit a bool that is
// true iff executing that arm leaves the enclosing for loop (return, or break/goto with a label).
func (o *out) selectArmExits(dir, recv, name, marker, coqName string) {
	p, fd := findFunc(dir, recv, name)
	if fd == nil {
		o.brokenDef(coqName, "function "+dir+":"+recv+"."+name+" not found")
		return
	}
	found := false
	exits := false
	ast.Inspect(fd.Body, func(n ast.Node) bool {
		cc, ok := n.(*ast.CommClause)
		if !ok || cc.Comm == nil || !strings.Contains(printNode(p.fset, cc.Comm), marker) {
			return true
		}
		found = true
		for _, st := range cc.Body {
			switch x := st.(type) {
			case *ast.ReturnStmt:
				exits = true
			case *ast.BranchStmt:
				if x.Label != nil && (x.Tok == token.BREAK || x.Tok == token.GOTO) {
					exits = true
				}
			}
		}
		return false
	})
	if !found {
		o.brokenDef(coqName, "no select arm on `"+marker+"` in "+name)
		return
	}
	o.f("Definition %s : bool := %v. (* %s:%s.%s select arm on %s leaves the loop *)\n", coqName, exits, dir, recv, name, marker)
}

// hasStmt emits a bool: does the function contain a statement whose printed form equals stmt?
func (o *out) hasStmt(dir, recv, name, stmt, coqName string) {
	p, fd := findFunc(dir, recv, name)
	if fd == nil {
		o.brokenDef(coqName, "function "+dir+":"+recv+"."+name+" not found")
		return
	}
	found := false
	ast.Inspect(fd.Body, func(n ast.Node) bool {
		if st, ok := n.(ast.Stmt); ok {
			if strings.Join(strings.Fields(printNode(p.fset, st)), " ") == stmt {
				found = true
			}
		}
		return !found
	})
	o.f("Definition %s : bool := %v. (* %s:%s.%s contains `%s` *)\n", coqName, found, dir, recv, name, stmt)
}

// callArgClasses: lists, in source order, the second argument of every call to one of `callees` inside the
// function, mapped through `classes` to small integers (unknown arguments map to 99).
func (o *out) callArgClasses(dir, recv, name, coqName string, callees []string, classes map[string]int) {
	p, fd := findFunc(dir, recv, name)
	if fd == nil {
		o.brokenDef(coqName, "function "+dir+":"+recv+"."+name+" not found")
		return
	}
	var seq, names []string
	ast.Inspect(fd.Body, func(n ast.Node) bool {
		ce, ok := n.(*ast.CallExpr)
		if !ok || len(ce.Args) != 2 {
			return true
		}
		callee := printNode(p.fset, ce.Fun)
		for _, c := range callees {
			if callee == c {
				arg := printNode(p.fset, ce.Args[1])
				code, ok := classes[arg]
				if !ok {
					code = 99
				}
				seq = append(seq, strconv.Itoa(code))
				names = append(names, arg)
			}
		}
		return true
	})
	o.f("Definition %s : list Z := [%s]. (* %s:%s.%s : %s *)\n", coqName, strings.Join(seq, "; "), dir, recv, name, strings.Join(names, ", "))
}

// ---------------------------------------------------------------- main

func header(name string) *out {
	o := &out{name: name}
	o.f("(* GENERATED by /verif/harness/cmd/srcgen from /repo — do not edit. *)\n")
	o.f("From Relic Require Import Base.Prelude.\n\n")
	return o
}

func writeIfChanged(path string, data []byte) bool {
	old, err := os.ReadFile(path)
	if err == nil && bytes.Equal(old, data) {
		return false
	}
	if err := os.WriteFile(path, data, 0o644); err != nil {
		fmt.Fprintln(os.Stderr, "write:", err)
		os.Exit(2)
	}
	return true
}

func main() {
	outDir := flag.String("out", "", "coq/Generated directory")
	flag.StringVar(&repo, "repo", "/repo", "relic working tree")
	summary := flag.String("summary", "", "JSON summary path")
	flag.Parse()
	if *outDir == "" {
		fmt.Fprintln(os.Stderr, "usage: srcgen -out DIR [-repo /repo] [-summary file.json]")
		os.Exit(2)
	}
	_ = os.MkdirAll(*outDir, 0o755)
	var changed []string
	var names []string
	for name := range generators {
		names = append(names, name)
	}
	sort.Strings(names)
	perFileBroken := map[string][]string{}
	for _, name := range names {
		o := header(name)
		before := len(broken)
		generators[name](o)
		perFileBroken[name] = append([]string{}, broken[before:]...)
		if writeIfChanged(filepath.Join(*outDir, name+".v"), []byte(o.b.String())) {
			changed = append(changed, name)
		}
	}
	sum := map[string]interface{}{"changed": changed, "broken": broken, "broken_by_file": perFileBroken, "fingerprints": fingers}
	js, _ := json.MarshalIndent(sum, "", " ")
	if *summary != "" {
		_ = os.WriteFile(*summary, js, 0o644)
	} else {
		fmt.Println(string(js))
	}
}
