package main

// FmtMACHO_gen: constants, field layouts, offsets, comparisons and branch conditions of relic's Apple code signature code
// (lib/fruit/csblob superblob.go codedir.go sign.go verify.go pagehash.go csblob.go; lib/fruit/machos header.go sign.go verify.go).
// Helpers local to this generator carry the prefix mm.

import (
	"fmt"
	"go/ast"
	"go/token"
	"sort"
	"strings"
)

// ---------------------------------------------------------------- helpers

func mmNorm(s string) string { return strings.Join(strings.Fields(s), " ") }

// mmEmit translates a picked expression with the shared translator.
func (o *out) mmEmit(fs funcSpec, what string, pick func(p *pkgInfo, fd *ast.FuncDecl) ast.Expr) {
	p, fd := findFunc(fs.dir, fs.recv, fs.name)
	if fd == nil {
		o.brokenDef(fs.coqName, "function "+fs.dir+":"+fs.recv+"."+fs.name+" not found")
		return
	}
	found := pick(p, fd)
	if found == nil {
		o.brokenDef(fs.coqName, what+" not found in "+fs.name)
		return
	}
	t := o.newTr(p, fs)
	c := t.expr(found)
	if t.err != nil {
		o.brokenDef(fs.coqName, t.err.Error())
		return
	}
	o.f("Definition %s %s : %s :=\n  %s.\n(* from %s:%s.%s : %s : %s *)\n", fs.coqName, fs.params, fs.retType, c, fs.dir, fs.recv, fs.name, what,
		strings.ReplaceAll(mmNorm(printNode(p.fset, found)), "*)", "* )"))
}

// mmAssign: the nth assignment to lhs (printed), INCLUDING its operator: `=`/`:=` give rhs, `+=` gives old + rhs, `-=` old - rhs.
// The generated definition takes the old value as its first parameter `old`.
func (o *out) mmAssign(fs funcSpec, lhs string, nth int) {
	p, fd := findFunc(fs.dir, fs.recv, fs.name)
	if fd == nil {
		o.brokenDef(fs.coqName, "function "+fs.name+" not found")
		return
	}
	var found *ast.AssignStmt
	k := 0
	ast.Inspect(fd.Body, func(n ast.Node) bool {
		if found != nil {
			return false
		}
		if as, ok := n.(*ast.AssignStmt); ok && len(as.Lhs) == 1 && len(as.Rhs) == 1 && printNode(p.fset, as.Lhs[0]) == lhs {
			if k == nth {
				found = as
				return false
			}
			k++
		}
		return true
	})
	if found == nil {
		o.brokenDef(fs.coqName, fmt.Sprintf("no assignment #%d to `%s` in %s", nth, lhs, fs.name))
		return
	}
	t := o.newTr(p, fs)
	c := t.expr(found.Rhs[0])
	if t.err != nil {
		o.brokenDef(fs.coqName, t.err.Error())
		return
	}
	switch found.Tok {
	case token.ASSIGN, token.DEFINE:
	case token.ADD_ASSIGN:
		c = "(old + " + c + ")"
	case token.SUB_ASSIGN:
		c = "(old - " + c + ")"
	default:
		o.brokenDef(fs.coqName, "unsupported assignment operator "+found.Tok.String())
		return
	}
	o.f("Definition %s %s : %s :=\n  %s.\n(* from %s:%s.%s : %s *)\n", fs.coqName, fs.params, fs.retType, c, fs.dir, fs.recv, fs.name,
		strings.ReplaceAll(mmNorm(printNode(p.fset, found)), "*)", "* )"))
}

// pick: nth call whose callee prints `callee`; argument argIdx; part "" = the argument, "low"/"high" = bound of the slice
// expression the argument is (an absent low bound is reported as literal 0).
func mmPickCallArg(callee string, nth, argIdx int, part string) func(p *pkgInfo, fd *ast.FuncDecl) ast.Expr {
	return func(p *pkgInfo, fd *ast.FuncDecl) ast.Expr {
		var found ast.Expr
		k := 0
		ast.Inspect(fd.Body, func(n ast.Node) bool {
			if found != nil {
				return false
			}
			if ce, ok := n.(*ast.CallExpr); ok && printNode(p.fset, ce.Fun) == callee && len(ce.Args) > argIdx {
				if k == nth {
					found = mmPart(ce.Args[argIdx], part)
					return false
				}
				k++
			}
			return true
		})
		return found
	}
}

func mmPart(e ast.Expr, part string) ast.Expr {
	if part == "" {
		return e
	}
	se, ok := e.(*ast.SliceExpr)
	if !ok {
		if part == "low" { // x itself: offset 0
			return &ast.BasicLit{Kind: token.INT, Value: "0"}
		}
		return nil
	}
	if part == "low" {
		if se.Low == nil {
			return &ast.BasicLit{Kind: token.INT, Value: "0"}
		}
		return se.Low
	}
	return se.High
}

// pick: nth slice expression whose operand prints x; part low/high
func mmPickSlice(x string, nth int, part string) func(p *pkgInfo, fd *ast.FuncDecl) ast.Expr {
	return func(p *pkgInfo, fd *ast.FuncDecl) ast.Expr {
		var found ast.Expr
		k := 0
		ast.Inspect(fd.Body, func(n ast.Node) bool {
			if found != nil {
				return false
			}
			if se, ok := n.(*ast.SliceExpr); ok && printNode(p.fset, se.X) == x {
				if k == nth {
					found = mmPart(se, part)
					return false
				}
				k++
			}
			return true
		})
		return found
	}
}

// pick: index expression of the left-hand side `arr[...]` of the assignment whose right-hand side prints rhs
func mmPickLhsIndex(arr, rhs string) func(p *pkgInfo, fd *ast.FuncDecl) ast.Expr {
	return func(p *pkgInfo, fd *ast.FuncDecl) ast.Expr {
		var found ast.Expr
		ast.Inspect(fd.Body, func(n ast.Node) bool {
			if found != nil {
				return false
			}
			if as, ok := n.(*ast.AssignStmt); ok && len(as.Lhs) == 1 && len(as.Rhs) == 1 && mmNorm(printNode(p.fset, as.Rhs[0])) == rhs {
				if ie, ok := as.Lhs[0].(*ast.IndexExpr); ok && printNode(p.fset, ie.X) == arr {
					found = ie.Index
					return false
				}
			}
			return true
		})
		return found
	}
}

// pick: value of `field:` in the first composite literal of type typeName
func mmPickLitField(typeName, field string) func(p *pkgInfo, fd *ast.FuncDecl) ast.Expr {
	return func(p *pkgInfo, fd *ast.FuncDecl) ast.Expr {
		var found ast.Expr
		ast.Inspect(fd.Body, func(n ast.Node) bool {
			if found != nil {
				return false
			}
			if cl, ok := n.(*ast.CompositeLit); ok && cl.Type != nil && printNode(p.fset, cl.Type) == typeName {
				for _, el := range cl.Elts {
					if kv, ok := el.(*ast.KeyValueExpr); ok && printNode(p.fset, kv.Key) == field {
						found = kv.Value
					}
				}
				return false
			}
			return true
		})
		return found
	}
}

// pick: nth case expression (source order over all case clauses of the function) containing marker
func mmPickCase(marker string, nth int) func(p *pkgInfo, fd *ast.FuncDecl) ast.Expr {
	return func(p *pkgInfo, fd *ast.FuncDecl) ast.Expr {
		var found ast.Expr
		k := 0
		ast.Inspect(fd.Body, func(n ast.Node) bool {
			if found != nil {
				return false
			}
			if cc, ok := n.(*ast.CaseClause); ok {
				for _, e := range cc.List {
					if strings.Contains(printNode(p.fset, e), marker) {
						if k == nth {
							found = e
							return false
						}
						k++
					}
				}
			}
			return true
		})
		return found
	}
}

// pick: tag of the nth switch statement with a tag
func mmPickSwitchTag(nth int) func(p *pkgInfo, fd *ast.FuncDecl) ast.Expr {
	return func(p *pkgInfo, fd *ast.FuncDecl) ast.Expr {
		var found ast.Expr
		k := 0
		ast.Inspect(fd.Body, func(n ast.Node) bool {
			if found != nil {
				return false
			}
			if sw, ok := n.(*ast.SwitchStmt); ok && sw.Tag != nil {
				if k == nth {
					found = sw.Tag
					return false
				}
				k++
			}
			return true
		})
		return found
	}
}

// pick: the init value of the for statement whose condition contains marker
func mmPickForInit(marker string) func(p *pkgInfo, fd *ast.FuncDecl) ast.Expr {
	return func(p *pkgInfo, fd *ast.FuncDecl) ast.Expr {
		var found ast.Expr
		ast.Inspect(fd.Body, func(n ast.Node) bool {
			if found != nil {
				return false
			}
			if fs, ok := n.(*ast.ForStmt); ok && fs.Cond != nil && strings.Contains(printNode(p.fset, fs.Cond), marker) {
				if as, ok := fs.Init.(*ast.AssignStmt); ok && len(as.Rhs) == 1 {
					found = as.Rhs[0]
				}
				return false
			}
			return true
		})
		return found
	}
}

// pick: the single result of the nth return statement (all nested function literals included)
func mmPickReturn(nth int) func(p *pkgInfo, fd *ast.FuncDecl) ast.Expr {
	return func(p *pkgInfo, fd *ast.FuncDecl) ast.Expr {
		var found ast.Expr
		k := 0
		ast.Inspect(fd.Body, func(n ast.Node) bool {
			if found != nil {
				return false
			}
			if rs, ok := n.(*ast.ReturnStmt); ok && len(rs.Results) == 1 {
				if k == nth {
					found = rs.Results[0]
					return false
				}
				k++
			}
			return true
		})
		return found
	}
}

var mmSelWidths = map[string]int{"macho.LoadCmd": 4, "macho.Cpu": 4, "macho.Type": 4}

// mmStruct: like structLayout, but blank fields are numbered (pad1, pad2, ...) and a few selector types are known.
func (o *out) mmStruct(dir, goName, coqName string) {
	_, st := findStruct(dir, goName)
	if st == nil {
		o.brokenDef(coqName, "struct "+dir+"."+goName+" not found")
		return
	}
	off, pad := 0, 0
	var names, items []string
	for _, fl := range st.Fields.List {
		w, ok := typeWidth(dir, fl.Type)
		if !ok {
			if se, isSel := fl.Type.(*ast.SelectorExpr); isSel {
				w, ok = mmSelWidths[printNode(token.NewFileSet(), se)]
			}
		}
		if !ok {
			o.brokenDef(coqName, "struct "+goName+" has a field of non-fixed width")
			return
		}
		ns := fl.Names
		if len(ns) == 0 {
			ns = []*ast.Ident{{Name: "_"}}
		}
		for _, n := range ns {
			name := n.Name
			if name == "_" {
				pad++
				name = fmt.Sprintf("pad%d", pad)
			}
			names = append(names, name)
			items = append(items, fmt.Sprintf("%d", w))
			o.f("Definition %s_off_%s : Z := %d.\nDefinition %s_w_%s : Z := %d.\n", coqName, name, off, coqName, name, w)
			off += w
		}
	}
	o.f("Definition %s_widths : list Z := [%s]. (* %s.%s fields: %s *)\n", coqName, strings.Join(items, "; "), dir, goName, strings.Join(names, ","))
	o.f("Definition %s_size : Z := %d.\n", coqName, off)
}

// mmMapLit: a package level map literal with constant keys and values -> association list
func (o *out) mmMapLit(dir, varName, coqName string) {
	ce, p, _, _ := findConstExpr(dir, varName)
	cl, ok := ce.(*ast.CompositeLit)
	if ce == nil || !ok {
		o.brokenDef(coqName, "map literal "+dir+"."+varName+" not found")
		return
	}
	var items, txt []string
	for _, el := range cl.Elts {
		kv, ok := el.(*ast.KeyValueExpr)
		if !ok {
			o.brokenDef(coqName, "map literal element without key")
			return
		}
		k, err1 := evalConst(dir, kv.Key, 0)
		v, err2 := evalConst(dir, kv.Value, 0)
		if err1 != nil || err2 != nil {
			o.brokenDef(coqName, "map literal with a non-constant entry")
			return
		}
		items = append(items, fmt.Sprintf("(%d, %d)", k.i, v.i))
		txt = append(txt, printNode(p.fset, kv.Key))
	}
	o.f("Definition %s : list (Z * Z) := [%s]. (* %s.%s keys: %s *)\n", coqName, strings.Join(items, "; "), dir, varName, strings.Join(txt, ","))
}

// mmCode maps a printed expression through a code table; unknown text is 99.
func mmCode(codes map[string]int, s string) int {
	if c, ok := codes[mmNorm(s)]; ok {
		return c
	}
	return 99
}

// mmLitOrder: the elements of the composite literal assigned to variable `name`, through a code table
func (o *out) mmLitOrder(dir, recv, fn, name, coqName string, codes map[string]int) {
	p, fd := findFunc(dir, recv, fn)
	if fd == nil {
		o.brokenDef(coqName, "function "+fn+" not found")
		return
	}
	var seq, txt []string
	found := false
	ast.Inspect(fd.Body, func(n ast.Node) bool {
		if found {
			return false
		}
		if as, ok := n.(*ast.AssignStmt); ok && len(as.Lhs) == 1 && len(as.Rhs) == 1 && printNode(p.fset, as.Lhs[0]) == name {
			if cl, ok := as.Rhs[0].(*ast.CompositeLit); ok {
				found = true
				for _, el := range cl.Elts {
					s := printNode(p.fset, el)
					seq = append(seq, fmt.Sprint(mmCode(codes, s)))
					txt = append(txt, s)
				}
			}
		}
		return true
	})
	if !found {
		o.brokenDef(coqName, "composite literal for "+name+" not found in "+fn)
		return
	}
	o.f("Definition %s : list Z := [%s]. (* %s.%s %s := {%s} *)\n", coqName, strings.Join(seq, "; "), dir, fn, name, strings.Join(txt, ", "))
}

// mmCalls: every call (source order) whose callee prints one of callees: emits rows [callee index; code of arg0; code of arg1; code of arg2; guard]
// where guard = 1 when the call sits inside an if statement whose condition contains guardMarker (0 otherwise).
func (o *out) mmCalls(dir, recv, fn, coqName string, callees []string, codes map[string]int, guardMarker string) {
	p, fd := findFunc(dir, recv, fn)
	if fd == nil {
		o.brokenDef(coqName, "function "+fn+" not found")
		return
	}
	var rows, txt []string
	var walk func(n ast.Node, guard int)
	walk = func(n ast.Node, guard int) {
		ast.Inspect(n, func(m ast.Node) bool {
			if m == n {
				return true
			}
			if is, ok := m.(*ast.IfStmt); ok {
				g := guard
				if guardMarker != "" && strings.Contains(printNode(p.fset, is.Cond), guardMarker) {
					g = 1
				}
				if is.Init != nil {
					walk(is.Init, guard)
				}
				walk(is.Cond, guard)
				walk(is.Body, g)
				if is.Else != nil {
					walk(is.Else, guard)
				}
				return false
			}
			if ce, ok := m.(*ast.CallExpr); ok {
				callee := printNode(p.fset, ce.Fun)
				for i, c := range callees {
					if callee == c {
						a0, a1, a2 := 0, 0, 0
						if len(ce.Args) > 0 {
							a0 = mmCode(codes, printNode(p.fset, ce.Args[0]))
						}
						if len(ce.Args) > 1 {
							a1 = mmCode(codes, printNode(p.fset, ce.Args[1]))
						}
						if len(ce.Args) > 2 {
							a2 = mmCode(codes, printNode(p.fset, ce.Args[2]))
						}
						rows = append(rows, fmt.Sprintf("[%d; %d; %d; %d; %d]", i, a0, a1, a2, guard))
						txt = append(txt, mmNorm(printNode(p.fset, ce)))
					}
				}
			}
			return true
		})
	}
	walk(fd.Body, 0)
	o.f("Definition %s : list (list Z) := [%s].\n(* %s:%s.%s : %s *)\n", coqName, strings.Join(rows, "; "), dir, recv, fn,
		strings.ReplaceAll(strings.Join(txt, " ; "), "*)", "* )"))
}

// mmSwitch: the clauses of the nth switch statement of a function.  For a tagless switch each clause condition is translated
// (coqName_cond_<i> params : bool); for a switch with a tag the case constants are evaluated (coqName_keys : list (list Z)).
// coqName_acts : list (list Z) = per clause the codes of the assignment targets / appended variables found in its body,
// coqName_fall : list bool = does the clause end in fallthrough, coqName_default : list Z = targets of the default clause.
func (o *out) mmSwitch(fs funcSpec, nth int, codes map[string]int) {
	p, fd := findFunc(fs.dir, fs.recv, fs.name)
	if fd == nil {
		o.brokenDef(fs.coqName, "function "+fs.name+" not found")
		return
	}
	var sw *ast.SwitchStmt
	k := 0
	ast.Inspect(fd.Body, func(n ast.Node) bool {
		if sw != nil {
			return false
		}
		if s, ok := n.(*ast.SwitchStmt); ok {
			if k == nth {
				sw = s
				return false
			}
			k++
		}
		return true
	})
	if sw == nil {
		o.brokenDef(fs.coqName, fmt.Sprintf("switch #%d not found in %s", nth, fs.name))
		return
	}
	targets := func(body []ast.Stmt) string {
		var out []string
		for _, st := range body {
			ast.Inspect(st, func(n ast.Node) bool {
				if as, ok := n.(*ast.AssignStmt); ok {
					for _, l := range as.Lhs {
						if c, ok := codes[printNode(p.fset, l)]; ok {
							out = append(out, fmt.Sprint(c))
						}
					}
				}
				return true
			})
		}
		return "[" + strings.Join(out, "; ") + "]"
	}
	var acts, falls, keys []string
	deflt := "[]"
	i := 0
	for _, c := range sw.Body.List {
		cc := c.(*ast.CaseClause)
		if cc.List == nil {
			deflt = targets(cc.Body)
			continue
		}
		if sw.Tag == nil {
			t := o.newTr(p, fs)
			var conds []string
			for _, e := range cc.List {
				conds = append(conds, t.expr(e))
			}
			if t.err != nil {
				o.brokenDef(fs.coqName, t.err.Error())
				return
			}
			o.f("Definition %s_cond_%d %s : bool :=\n  %s.\n(* from %s.%s : case %s *)\n", fs.coqName, i, fs.params, strings.Join(conds, " || "), fs.dir, fs.name,
				strings.ReplaceAll(mmNorm(printNode(p.fset, cc.List[0])), "*)", "* )"))
		} else {
			var ks []string
			for _, e := range cc.List {
				if c, ok := fs.leaves[printNode(p.fset, e)]; ok {
					ks = append(ks, c)
					continue
				}
				v, err := evalConst(fs.dir, e, 0)
				if err != nil {
					o.brokenDef(fs.coqName, "non-constant case "+printNode(p.fset, e))
					return
				}
				ks = append(ks, fmt.Sprint(v.i))
			}
			keys = append(keys, "["+strings.Join(ks, "; ")+"]")
		}
		acts = append(acts, targets(cc.Body))
		fall := "false"
		if n := len(cc.Body); n > 0 {
			if bs, ok := cc.Body[n-1].(*ast.BranchStmt); ok && bs.Tok == token.FALLTHROUGH {
				fall = "true"
			}
		}
		falls = append(falls, fall)
		i++
	}
	if sw.Tag != nil {
		o.f("Definition %s_keys : list (list Z) := [%s].\n", fs.coqName, strings.Join(keys, "; "))
	}
	o.f("Definition %s_n : Z := %d.\n", fs.coqName, i)
	o.f("Definition %s_acts : list (list Z) := [%s].\n", fs.coqName, strings.Join(acts, "; "))
	o.f("Definition %s_fall : list bool := [%s].\n", fs.coqName, strings.Join(falls, "; "))
	o.f("Definition %s_default : list Z := %s. (* %s.%s switch #%d *)\n", fs.coqName, deflt, fs.dir, fs.name, nth)
}

// mmBranchTargets: for the if statement whose condition contains marker: codes of the assignment targets in the then and else branch
func (o *out) mmBranchTargets(dir, recv, fn, marker, coqName string, codes map[string]int) {
	p, fd := findFunc(dir, recv, fn)
	if fd == nil {
		o.brokenDef(coqName, "function "+fn+" not found")
		return
	}
	var is *ast.IfStmt
	ast.Inspect(fd.Body, func(n ast.Node) bool {
		if is != nil {
			return false
		}
		if s, ok := n.(*ast.IfStmt); ok && strings.Contains(printNode(p.fset, s.Cond), marker) {
			is = s
			return false
		}
		return true
	})
	if is == nil {
		o.brokenDef(coqName, "if on "+marker+" not found in "+fn)
		return
	}
	col := func(n ast.Node) string {
		var out []string
		if n != nil {
			ast.Inspect(n, func(m ast.Node) bool {
				if as, ok := m.(*ast.AssignStmt); ok {
					for _, l := range as.Lhs {
						out = append(out, fmt.Sprint(mmCode(codes, printNode(p.fset, l))))
					}
				}
				return true
			})
		}
		return "[" + strings.Join(out, "; ") + "]"
	}
	var els ast.Node
	if is.Else != nil {
		els = is.Else
	}
	o.f("Definition %s_then : list Z := %s.\nDefinition %s_else : list Z := %s. (* %s.%s if %s *)\n", coqName, col(is.Body), coqName, col(els), dir, fn,
		strings.ReplaceAll(mmNorm(printNode(p.fset, is.Cond)), "*)", "* )"))
}

// mmHashTable: the switch of hashFunc (hashType constant -> crypto hash) as [(hash type, crypto.Hash id, digest size)]
func (o *out) mmHashTable(dir, fn, coqName string) {
	p, fd := findFunc(dir, "", fn)
	if fd == nil {
		o.brokenDef(coqName, "function "+fn+" not found")
		return
	}
	sizes := map[string][2]int{"crypto.SHA1": {3, 20}, "crypto.SHA224": {4, 28}, "crypto.SHA256": {5, 32}, "crypto.SHA384": {6, 48}, "crypto.SHA512": {7, 64}, "crypto.MD5": {2, 16}}
	var rows []string
	ok := true
	ast.Inspect(fd.Body, func(n ast.Node) bool {
		cc, isCC := n.(*ast.CaseClause)
		if !isCC || cc.List == nil {
			return true
		}
		for _, e := range cc.List {
			v, err := evalConst(dir, e, 0)
			if err != nil || len(cc.Body) != 1 {
				ok = false
				return false
			}
			as, isAs := cc.Body[0].(*ast.AssignStmt)
			if !isAs || len(as.Rhs) != 1 {
				ok = false
				return false
			}
			sz, known := sizes[printNode(p.fset, as.Rhs[0])]
			if !known {
				ok = false
				return false
			}
			rows = append(rows, fmt.Sprintf("(%d, (%d, %d))", v.i, sz[0], sz[1]))
		}
		return false
	})
	if !ok || len(rows) == 0 {
		o.brokenDef(coqName, "hash table of "+fn+" not in the expected shape")
		return
	}
	o.f("Definition %s : list (Z * (Z * Z)) := [%s]. (* %s.%s: hash type -> (crypto.Hash, size) *)\n", coqName, strings.Join(rows, "; "), dir, fn)
}

// mmReturnTable: `switch h { case crypto.X: return HashY, nil }` of hashType as [(crypto.Hash id, hash type)]
func (o *out) mmReturnTable(dir, fn, coqName string) {
	p, fd := findFunc(dir, "", fn)
	if fd == nil {
		o.brokenDef(coqName, "function "+fn+" not found")
		return
	}
	ids := map[string]int{"crypto.SHA1": 3, "crypto.SHA224": 4, "crypto.SHA256": 5, "crypto.SHA384": 6, "crypto.SHA512": 7, "crypto.MD5": 2}
	var rows []string
	ok := true
	ast.Inspect(fd.Body, func(n ast.Node) bool {
		cc, isCC := n.(*ast.CaseClause)
		if !isCC || cc.List == nil {
			return true
		}
		for _, e := range cc.List {
			id, known := ids[printNode(p.fset, e)]
			if !known || len(cc.Body) != 1 {
				ok = false
				return false
			}
			rs, isRs := cc.Body[0].(*ast.ReturnStmt)
			if !isRs || len(rs.Results) != 2 {
				ok = false
				return false
			}
			v, err := evalConst(dir, rs.Results[0], 0)
			if err != nil {
				ok = false
				return false
			}
			rows = append(rows, fmt.Sprintf("(%d, %d)", id, v.i))
		}
		return false
	})
	if !ok || len(rows) == 0 {
		o.brokenDef(coqName, "return table of "+fn+" not in the expected shape")
		return
	}
	o.f("Definition %s : list (Z * Z) := [%s]. (* %s.%s: crypto.Hash -> hash type *)\n", coqName, strings.Join(rows, "; "), dir, fn)
}

// mmGuards: for every call of callee (source order): the translated condition of the innermost enclosing if statement
func (o *out) mmGuards(fs funcSpec, callee string) {
	p, fd := findFunc(fs.dir, fs.recv, fs.name)
	if fd == nil {
		o.brokenDef(fs.coqName, "function "+fs.name+" not found")
		return
	}
	var conds []ast.Expr
	var walk func(n ast.Node, cur ast.Expr)
	walk = func(n ast.Node, cur ast.Expr) {
		ast.Inspect(n, func(m ast.Node) bool {
			if m == n {
				return true
			}
			if is, ok := m.(*ast.IfStmt); ok {
				if is.Init != nil {
					walk(is.Init, is.Cond) // `if err := hashCheck(...); err != nil` sits in the init of the inner if: guarded by cur
				}
				walk(is.Body, is.Cond)
				if is.Else != nil {
					walk(is.Else, cur)
				}
				return false
			}
			if ce, ok := m.(*ast.CallExpr); ok && printNode(p.fset, ce.Fun) == callee {
				conds = append(conds, cur)
			}
			return true
		})
	}
	// the call sits in the Init of an inner `if err := ...`; the guard we want is the if AROUND that statement
	var outer func(n ast.Node, cur ast.Expr)
	conds = nil
	outer = func(n ast.Node, cur ast.Expr) {
		ast.Inspect(n, func(m ast.Node) bool {
			if m == n {
				return true
			}
			if is, ok := m.(*ast.IfStmt); ok {
				if is.Init != nil {
					ast.Inspect(is.Init, func(q ast.Node) bool {
						if ce, ok := q.(*ast.CallExpr); ok && printNode(p.fset, ce.Fun) == callee {
							conds = append(conds, cur)
						}
						return true
					})
				}
				outer(is.Body, is.Cond)
				if is.Else != nil {
					outer(is.Else, cur)
				}
				return false
			}
			return true
		})
	}
	outer(fd.Body, nil)
	_ = walk
	var items []string
	for _, c := range conds {
		if c == nil {
			items = append(items, "(fun "+fs.params+" => true)")
			continue
		}
		t := o.newTr(p, fs)
		s := t.expr(c)
		if t.err != nil {
			o.brokenDef(fs.coqName, t.err.Error())
			return
		}
		items = append(items, "(fun "+fs.params+" => "+s+")")
	}
	o.f("Definition %s : list (%s) := [%s]. (* %s.%s guards of %s *)\n", fs.coqName, fs.retType, strings.Join(items, ";\n  "), fs.dir, fs.name, callee)
}

func mmSortedKeys(m map[string]int) []string {
	var ks []string
	for k := range m {
		ks = append(ks, k)
	}
	sort.Strings(ks)
	return ks
}


// ---------------------------------------------------------------- statement-level translation of VerifyPages (coq/FmtMACHO/VpLang.v)

// vpTr translates a Go statement list into the constructor syntax of FmtMACHO.VpLang.vstmt.  Expressions go through the shared
// expression translator with leaves naming VARIABLES (remaining, pageSize, len(page), ...), so every operator, constant and operand of
// a condition or assignment is whatever the source says now.  A statement shape the translator does not know is a broken tie.
type vpTr struct {
	o   *out
	p   *pkgInfo
	fs  funcSpec
	err error
}

func (v *vpTr) fail(format string, a ...interface{}) string {
	if v.err == nil {
		v.err = fmt.Errorf(format, a...)
	}
	return "BROKEN"
}

func (v *vpTr) expr(e ast.Expr) string {
	t := v.o.newTr(v.p, v.fs)
	s := t.expr(e)
	if t.err != nil && v.err == nil {
		v.err = t.err
	}
	return "(fun c s => " + s + ")"
}

// the class of a new error, by its message: the same table as harness/p/fmtmacho classify
func vpErrClass(msg string) int {
	has := func(x string) bool { return strings.Contains(msg, x) }
	switch {
	case has("no valid code dir"), has("code directory not found"):
		return 7
	case has("digest mismatch"):
		return 6
	case has("unsupported page size"), has("not enough hash slots"), has("expected 1 hash slot"), has("expected code size"), has("invalid code limit"):
		return 10
	}
	return 9
}

func (v *vpTr) block(list []ast.Stmt) string {
	var items []string
	for _, s := range list {
		items = append(items, v.stmt(s)...)
	}
	return "[" + strings.Join(items, ";\n    ") + "]"
}

func (v *vpTr) stmt(s ast.Stmt) []string {
	txt := mmNorm(printNode(v.p.fset, s))
	pr := func(e ast.Expr) string { return mmNorm(printNode(v.p.fset, e)) }
	switch x := s.(type) {
	case *ast.AssignStmt:
		if len(x.Lhs) == 2 && len(x.Rhs) == 1 {
			l0, l1, r := pr(x.Lhs[0]), pr(x.Lhs[1]), pr(x.Rhs[0])
			switch {
			case l0 == "n" && l1 == "err" && r == "io.Copy(h, r)" && x.Tok == token.DEFINE:
				return []string{"SCopyAll"}
			case l0 == "_" && l1 == "err" && r == "io.ReadFull(r, page)":
				return []string{"SReadFull"}
			}
			return []string{v.fail("unsupported statement %s", txt)}
		}
		if len(x.Lhs) != 1 || len(x.Rhs) != 1 {
			return []string{v.fail("unsupported statement %s", txt)}
		}
		lhs, rhs := pr(x.Lhs[0]), pr(x.Rhs[0])
		arith := func(old string) string {
			e := v.expr(x.Rhs[0])
			inner := strings.TrimSuffix(strings.TrimPrefix(e, "(fun c s => "), ")")
			switch x.Tok {
			case token.ASSIGN, token.DEFINE:
				return "(fun c s => mm_s64 " + inner + ")"
			case token.SUB_ASSIGN:
				return "(fun c s => mm_s64 (" + old + " - " + inner + "))"
			case token.ADD_ASSIGN:
				return "(fun c s => mm_s64 (" + old + " + " + inner + "))"
			}
			return v.fail("unsupported assignment operator in %s", txt)
		}
		switch lhs {
		case "dir":
			if rhs == "s.bestDir()" && x.Tok == token.DEFINE {
				return []string{"SBestDir"}
			}
		case "remaining":
			return []string{"SSetRemaining " + arith("(s_remaining s)")}
		case "pageSize":
			return []string{"SSetPageSize " + arith("(s_page_size s)")}
		case "page":
			if ce, ok := x.Rhs[0].(*ast.CallExpr); ok && pr(ce.Fun) == "make" && len(ce.Args) == 2 && pr(ce.Args[0]) == "[]byte" {
				return []string{"SMakePage " + v.expr(ce.Args[1])}
			}
			if se, ok := x.Rhs[0].(*ast.SliceExpr); ok && pr(se.X) == "page" && se.Low == nil && se.High != nil && se.Max == nil && x.Tok == token.ASSIGN {
				return []string{"SReslice " + v.expr(se.High)}
			}
		case "h":
			if rhs == "dir.HashFunc.New()" && x.Tok == token.DEFINE {
				return []string{"SNewHash"}
			}
		case "computed":
			if rhs == "h.Sum(nil)" && x.Tok == token.DEFINE {
				return []string{"SHashSum"}
			}
		}
		return []string{v.fail("unsupported statement %s", txt)}
	case *ast.ExprStmt:
		switch txt {
		case "h.Reset()":
			return []string{"SHashReset"}
		case "h.Write(page)":
			return []string{"SHashWritePage"}
		}
		return []string{v.fail("unsupported statement %s", txt)}
	case *ast.IfStmt:
		var items []string
		if x.Init != nil {
			items = append(items, v.stmt(x.Init)...)
		}
		els := "[]"
		switch e := x.Else.(type) {
		case nil:
		case *ast.BlockStmt:
			els = v.block(e.List)
		case *ast.IfStmt:
			els = "[" + strings.Join(v.stmt(e), ";\n    ") + "]"
		default:
			els = v.fail("unsupported else in %s", txt)
		}
		return append(items, "SIf "+v.expr(x.Cond)+" "+v.block(x.Body.List)+" "+els)
	case *ast.ReturnStmt:
		if len(x.Results) != 1 {
			return []string{v.fail("unsupported return %s", txt)}
		}
		switch r := pr(x.Results[0]); r {
		case "nil":
			return []string{"SRet 0"}
		case "err":
			return []string{"SRetErr"}
		}
		if ce, ok := x.Results[0].(*ast.CallExpr); ok && (pr(ce.Fun) == "errors.New" || pr(ce.Fun) == "fmt.Errorf") && len(ce.Args) >= 1 {
			if bl, ok := ce.Args[0].(*ast.BasicLit); ok && bl.Kind == token.STRING {
				return []string{fmt.Sprintf("SRet %d", vpErrClass(bl.Value))}
			}
		}
		return []string{v.fail("unsupported return %s", txt)}
	case *ast.RangeStmt:
		if pr(x.X) == "dir.CodeHashes" && x.Tok == token.DEFINE && x.Key != nil && x.Value != nil && pr(x.Value) == "expected" && (pr(x.Key) == "i" || pr(x.Key) == "_") {
			return []string{"SRange " + v.block(x.Body.List)}
		}
		return []string{v.fail("unsupported range statement over %s", pr(x.X))}
	}
	return []string{v.fail("unsupported statement %s", txt)}
}

// mmProg emits Definition coqName : list vstmt := <the translated body of the function>.
func (o *out) mmProg(fs funcSpec) {
	p, fd := findFunc(fs.dir, fs.recv, fs.name)
	if fd == nil {
		o.brokenDef(fs.coqName, "function "+fs.dir+":"+fs.recv+"."+fs.name+" not found")
		return
	}
	v := &vpTr{o: o, p: p, fs: fs}
	body := v.block(fd.Body.List)
	if v.err != nil {
		o.brokenDef(fs.coqName, v.err.Error())
		return
	}
	o.f("Definition %s : list vstmt :=\n  %s.\n(* from %s:%s.%s, statement by statement *)\n", fs.coqName, body, fs.dir, fs.recv, fs.name)
}

// ---------------------------------------------------------------- the generator

func init() {
	generators["FmtMACHO_gen"] = func(o *out) {
		const cs = "lib/fruit/csblob"
		const ms = "lib/fruit/machos"
		o.f("From Relic Require Import FmtMACHO.VpLang.\n\n")
		o.f("Definition mm_wrap32 (x : Z) : Z := x mod 4294967296.\n")
		o.f("Definition mm_wrap64 (x : Z) : Z := x mod 18446744073709551616.\n")
		o.f("Definition mm_s64 (x : Z) : Z := (x + 9223372036854775808) mod 18446744073709551616 - 9223372036854775808. (* int64(uint64) *)\n")
		o.f("Definition mm_clear1 (x : Z) : Z := x - x mod 2. (* x &^ 1 *)\n\n")
		W32 := map[string]string{"uint32": "mm_wrap32", "uint8": "wrap8"}

		// ================================================================ superblob.go
		for _, c := range [][2]string{{"csEmbeddedSignature", "cs_magic_embedded"}, {"csDetachedSignature", "cs_magic_detached"}, {"csRequirement", "cs_magic_requirement"},
			{"csRequirements", "cs_magic_requirements"}, {"csCodeDirectory", "cs_magic_codedirectory"}, {"csEntitlement", "cs_magic_entitlement"},
			{"csEntitlementDER", "cs_magic_entitlement_der"}, {"csBlobWrapper", "cs_magic_blobwrapper"},
			{"cdInfoSlot", "cd_slot_info"}, {"cdRequirementsSlot", "cd_slot_requirements"}, {"cdResourceDirSlot", "cd_slot_resourcedir"}, {"cdTopDirectorySlot", "cd_slot_topdir"},
			{"cdEntitlementSlot", "cd_slot_entitlement"}, {"cdRepSpecificSlot", "cd_slot_repspecific"}, {"cdEntitlementDERSlot", "cd_slot_entitlement_der"},
			{"cdCodeDirectorySlot", "cd_slot_codedirectory"}, {"cdAlternateCodeDirectorySlots", "cd_slot_alternate"}, {"cdSignatureSlot", "cd_slot_signature"},
			{"cdTicketSlot", "cd_slot_ticket"}, {"DesignatedRequirement", "cs_designated_requirement"}, {"defaultPageSizeLog2", "cs_default_page_log2"},
			{"HashSHA1", "cs_hash_sha1"}, {"HashSHA256", "cs_hash_sha256"}, {"HashSHA384", "cs_hash_sha384"},
			{"maxPageSizeLog2", "cs_max_page_log2"}, {"FlagAdhoc", "cs_flag_adhoc"}, {"FlagLinkerSigned", "cs_flag_linker_signed"}, {"FlagRuntime", "cs_flag_runtime"}} {
			o.constInt(cs, c[0], c[1])
		}
		o.mmMapLit(cs, "csItypes", "cs_itypes")

		psL := map[string]string{"len(blob)": "blob_len", "uint32(len(blob))": "blob_len", "length": "length", "count": "count", "offset": "offset",
			"origLen": "orig_len", "dataOffset": "data_off", "i": "i"}
		ps := func(coq, params, ret string) funcSpec {
			return funcSpec{dir: cs, name: "parseSuper", coqName: coq, params: params, retType: ret, leaves: psL}
		}
		o.condOf(ps("sb_short", "(blob_len : Z)", "bool"), "if:len(blob) < 12")
		o.condOf(ps("sb_len_bad", "(length blob_len : Z)", "bool"), "if:length < 8", 0)
		o.condOf(ps("sb_index_short", "(blob_len count : Z)", "bool"), "if:8*count")
		o.condOf(ps("sb_off_bad", "(offset blob_len : Z)", "bool"), "if:offset < 0")
		o.condOf(ps("sb_item_bad", "(length offset blob_len : Z)", "bool"), "if:length < 8", 1)
		o.condOf(ps("sb_loop_cond", "(i count : Z)", "bool"), "for:i < count")
		o.mmEmit(ps("sb_rd_magic_at", "", "Z"), "offset of the magic read", mmPickCallArg("binary.BigEndian.Uint32", 0, 0, "low"))
		o.mmEmit(ps("sb_rd_length_at", "", "Z"), "offset of the length read", mmPickCallArg("binary.BigEndian.Uint32", 1, 0, "low"))
		o.mmEmit(ps("sb_rd_count_at", "", "Z"), "offset of the count read", mmPickCallArg("binary.BigEndian.Uint32", 2, 0, "low"))
		o.mmEmit(ps("sb_hdr_skip", "", "Z"), "blob = blob[12:]", mmPickSlice("blob", 2, "low"))
		o.mmEmit(ps("sb_index_bytes", "(count : Z)", "Z"), "indexes = blob[:8*count]", mmPickSlice("blob", 3, "high"))
		o.mmAssign(ps("sb_data_off", "(orig_len blob_len : Z)", "Z"), "dataOffset", 0)
		o.mmEmit(ps("sb_rd_itype_at", "(i : Z)", "Z"), "index type offset", mmPickCallArg("binary.BigEndian.Uint32", 3, 0, "low"))
		o.mmEmit(ps("sb_rd_ioff_at", "(i : Z)", "Z"), "index offset offset", mmPickCallArg("binary.BigEndian.Uint32", 4, 0, "low"))
		o.mmAssign(ps("sb_rel_off", "(old data_off : Z)", "Z"), "offset", 1)
		o.mmEmit(ps("sb_rd_ilen_at", "(offset : Z)", "Z"), "item length offset", mmPickCallArg("binary.BigEndian.Uint32", 5, 0, "low"))
		o.mmEmit(ps("sb_rd_imagic_at", "(offset : Z)", "Z"), "item magic offset", mmPickCallArg("binary.BigEndian.Uint32", 6, 0, "low"))
		o.mmEmit(ps("sb_item_lo", "(offset length : Z)", "Z"), "item data low", mmPickSlice("blob", 7, "low"))
		o.mmEmit(ps("sb_item_hi", "(offset length : Z)", "Z"), "item data high", mmPickSlice("blob", 7, "high"))

		mL := map[string]string{"len(items)": "n", "len(ints)": "nints", "i": "i", "length": "length", "len(item.data)": "item_len"}
		mb := func(coq, params, ret string) funcSpec {
			return funcSpec{dir: cs, name: "marshalSuperBlob", coqName: coq, params: params, retType: ret, leaves: mL, calls: W32}
		}
		o.mmEmit(mb("sbw_nints", "(n : Z)", "Z"), "make([]uint32, ...)", mmPickCallArg("make", 0, 1, ""))
		o.mmAssign(mb("sbw_len0", "(nints : Z)", "Z"), "length", 0)
		o.mmAssign(mb("sbw_len_step", "(old item_len : Z)", "Z"), "length", 1)
		o.mmEmit(mb("sbw_pos_magic", "", "Z"), "ints[..] = uint32(magic)", mmPickLhsIndex("ints", "uint32(magic)"))
		o.mmEmit(mb("sbw_pos_length", "", "Z"), "ints[..] = length (final)", func(p *pkgInfo, fd *ast.FuncDecl) ast.Expr {
			// the assignment `ints[k] = length` that is NOT inside the range loop
			var found ast.Expr
			for _, st := range fd.Body.List {
				if as, ok := st.(*ast.AssignStmt); ok && len(as.Lhs) == 1 && printNode(p.fset, as.Rhs[0]) == "length" {
					if ie, ok := as.Lhs[0].(*ast.IndexExpr); ok {
						found = ie.Index
					}
				}
			}
			return found
		})
		o.mmEmit(mb("sbw_pos_count", "", "Z"), "ints[..] = uint32(len(items))", mmPickLhsIndex("ints", "uint32(len(items))"))
		o.mmEmit(mb("sbw_count_val", "(n : Z)", "Z"), "count value", func(p *pkgInfo, fd *ast.FuncDecl) ast.Expr {
			var found ast.Expr
			ast.Inspect(fd.Body, func(n ast.Node) bool {
				if as, ok := n.(*ast.AssignStmt); ok && len(as.Rhs) == 1 && printNode(p.fset, as.Rhs[0]) == "uint32(len(items))" {
					found = as.Rhs[0]
				}
				return found == nil
			})
			return found
		})
		o.mmEmit(mb("sbw_pos_itype", "(i : Z)", "Z"), "ints[..] = item.itype", mmPickLhsIndex("ints", "item.itype"))
		o.mmEmit(mb("sbw_pos_ioff", "(i : Z)", "Z"), "ints[..] = length (per item)", func(p *pkgInfo, fd *ast.FuncDecl) ast.Expr {
			var found ast.Expr
			ast.Inspect(fd.Body, func(n ast.Node) bool {
				if rs, ok := n.(*ast.RangeStmt); ok && found == nil {
					for _, st := range rs.Body.List {
						if as, ok := st.(*ast.AssignStmt); ok && len(as.Lhs) == 1 && printNode(p.fset, as.Rhs[0]) == "length" {
							if ie, ok := as.Lhs[0].(*ast.IndexExpr); ok {
								found = ie.Index
							}
						}
					}
					return false
				}
				return true
			})
			return found
		})
		o.mmCalls(cs, "", "marshalSuperBlob", "sbw_writes", []string{"binary.Write", "b.Write"}, map[string]int{"b": 1, "item.data": 2, "binary.BigEndian": 3}, "")

		nL := map[string]string{"len(payload)": "payload_len"}
		ni := func(coq, params, ret string) funcSpec {
			return funcSpec{dir: cs, name: "newSuperItem", coqName: coq, params: params, retType: ret, leaves: nL, calls: W32}
		}
		o.mmEmit(ni("si_total", "(payload_len : Z)", "Z"), "make([]byte, ...)", mmPickCallArg("make", 0, 1, ""))
		o.mmEmit(ni("si_magic_at", "", "Z"), "PutUint32(packed, magic)", mmPickCallArg("binary.BigEndian.PutUint32", 0, 0, "low"))
		o.mmEmit(ni("si_len_at", "", "Z"), "PutUint32(packed[4:], ...)", mmPickCallArg("binary.BigEndian.PutUint32", 1, 0, "low"))
		o.mmEmit(ni("si_len_val", "(payload_len : Z)", "Z"), "length field value", mmPickCallArg("binary.BigEndian.PutUint32", 1, 1, ""))
		o.mmEmit(ni("si_payload_at", "", "Z"), "copy(packed[8:], payload)", mmPickCallArg("copy", 0, 0, "low"))

		// ================================================================ codedir.go: newCodeDirectory
		o.mmStruct(cs, "CodeDirectoryHeader", "cdh")
		cdL := map[string]string{"params.Flags": "flags", "len(params.Specials)": "n_specials", "params.CodeSlotCount": "n_code", "params.HashFunc.Size()": "hash_size",
			"defaultPageSizeLog2": "cs_default_page_log2", "csCodeDirectory": "cs_magic_codedirectory",
			"hdr.ExecSegmentBase": "es_base", "hdr.ExecSegmentLimit": "es_limit", "hdr.ExecSegmentFlags": "es_flags",
			"params.ExecSegmentBase": "es_base", "params.ExecSegmentLimit": "es_limit", "params.ExecSegmentFlags": "es_flags",
			"params.CodeLimit": "code_limit", "params.SinglePage": "single_page", "binary.Size(hdr)": "cdh_size", "offset": "offset",
			"len(params.SigningIdentity)": "ident_len", "len(params.TeamIdentifier)": "team_len", "params.TeamIdentifier": "team",
			"hdr.SpecialSlotCount": "n_specials32", "hdr.HashSize": "hash_size8", "len(specialSlots)": "special_bytes", "len(params.CodeSlots)": "code_bytes",
			"special != nil": "present"}
		cdT := map[string]string{"params.TeamIdentifier": "str", "params.SinglePage": "bool", "special != nil": "bool"}
		cd := func(coq, params, ret string) funcSpec {
			return funcSpec{dir: cs, name: "newCodeDirectory", coqName: coq, params: params, retType: ret, leaves: cdL, types: cdT, calls: W32}
		}
		lit := func(coq, params, field string) {
			o.mmEmit(cd(coq, params, "Z"), "CodeDirectoryHeader{"+field+": ...}", mmPickLitField("CodeDirectoryHeader", field))
		}
		lit("cd_init_magic", "", "Magic")
		lit("cd_init_version", "", "Version")
		lit("cd_init_flags", "(flags : Z)", "Flags")
		lit("cd_init_nspecial", "(n_specials : Z)", "SpecialSlotCount")
		lit("cd_init_ncode", "(n_code : Z)", "CodeSlotCount")
		lit("cd_init_hashsize", "(hash_size : Z)", "HashSize")
		lit("cd_init_pagesize", "", "PageSizeLog2")
		lit("cd_init_es_base", "(es_base : Z)", "ExecSegmentBase")
		lit("cd_init_es_limit", "(es_limit : Z)", "ExecSegmentLimit")
		lit("cd_init_es_flags", "(es_flags : Z)", "ExecSegmentFlags")
		o.condOf(cd("cd_has_execseg", "(es_base es_limit es_flags : Z)", "bool"), "if:hdr.ExecSegmentBase")
		o.mmAssign(cd("cd_execseg_version", "", "Z"), "hdr.Version", 0)
		o.condOf(cd("cd_is_single_page", "(single_page : bool)", "bool"), "if:params.SinglePage")
		o.mmAssign(cd("cd_single_pagesize", "", "Z"), "hdr.PageSizeLog2", 0)
		o.condOf(cd("cd_special_present", "(present : bool)", "bool"), "if:special != nil")
		o.hasStmt(cs, "", "newCodeDirectory", "specialSlots = h.Sum(specialSlots)", "cd_special_hashed")
		o.hasStmt(cs, "", "newCodeDirectory", "specialSlots = specialSlots[:len(specialSlots)+h.Size()]", "cd_special_zero_filled")
		o.condOf(cd("cd_limit_is64", "(code_limit : Z)", "bool"), "if:params.CodeLimit >")
		o.mmBranchTargets(cs, "", "newCodeDirectory", "params.CodeLimit >", "cd_limit_targets", map[string]int{"hdr.CodeLimit64": 64, "hdr.CodeLimit": 32})
		o.mmAssign(cd("cd_limit64_val", "(code_limit : Z)", "Z"), "hdr.CodeLimit64", 0)
		o.mmAssign(cd("cd_limit32_val", "(code_limit : Z)", "Z"), "hdr.CodeLimit", 0)
		o.mmAssign(cd("cd_off0", "", "Z"), "offset", 0)
		o.mmAssign(cd("cd_ident_off", "(offset : Z)", "Z"), "hdr.IdentOffset", 0)
		o.mmAssign(cd("cd_off_after_ident", "(old ident_len : Z)", "Z"), "offset", 1)
		o.condOf(cd("cd_has_team", "(team : bytes)", "bool"), "if:params.TeamIdentifier", 0)
		o.mmAssign(cd("cd_team_off", "(offset : Z)", "Z"), "hdr.TeamOffset", 0)
		o.mmAssign(cd("cd_off_after_team", "(old team_len : Z)", "Z"), "offset", 2)
		o.mmAssign(cd("cd_hash_off", "(offset n_specials32 hash_size8 : Z)", "Z"), "hdr.HashOffset", 0)
		o.mmAssign(cd("cd_off_after_slots", "(old special_bytes code_bytes : Z)", "Z"), "offset", 3)
		o.mmAssign(cd("cd_length", "(offset : Z)", "Z"), "hdr.Length", 0)
		o.mmCalls(cs, "", "newCodeDirectory", "cd_writes", []string{"binary.Write", "b.WriteString", "b.WriteByte", "b.Write"},
			map[string]int{"b": 9, "params.SigningIdentity": 1, "params.TeamIdentifier": 2, "specialSlots": 3, "params.CodeSlots": 4, "0": 0, "binary.BigEndian": 8}, "params.TeamIdentifier")
		o.mmCalls(cs, "", "newCodeDirectory", "cd_hash_calls", []string{"h.Reset", "h.Write", "h.Sum"},
			map[string]int{"special": 1, "blob": 2, "specialSlots": 3, "nil": 4}, "")
		o.mmReturnTable(cs, "hashType", "cs_hash_type_of")
		o.mmHashTable(cs, "hashFunc", "cs_hash_func_of")
		hfL := map[string]string{"h": "h", "h.Size()": "h_size", "hashLen": "hash_len"}
		o.condOf(funcSpec{dir: cs, name: "hashFunc", coqName: "cs_hash_unknown", params: "(h : Z)", retType: "bool", leaves: hfL}, "if:h == 0")
		o.condOf(funcSpec{dir: cs, name: "hashFunc", coqName: "cs_hash_size_bad", params: "(h_size hash_len : Z)", retType: "bool", leaves: hfL}, "if:h.Size()")

		// ================================================================ codedir.go: parseCodeDirectory, cstring
		pcL := map[string]string{"hdr.Version": "version", "hdr.IdentOffset": "ident_off", "hdr.TeamOffset": "team_off", "hdr.ScatterOffset": "scatter_off",
			"hdr.SpecialSlotCount": "n_special", "hdr.CodeSlotCount": "n_code", "hashLen": "hash_len", "hashBase": "hash_base", "len(blob)": "blob_len", "i": "i", "c": "c"}
		pc := func(coq, params, ret string) funcSpec {
			return funcSpec{dir: cs, name: "parseCodeDirectory", coqName: coq, params: params, retType: ret, leaves: pcL}
		}
		zf := map[string]int{"hdr.ScatterOffset": 1, "hdr.TeamOffset": 2, "hdr.CodeLimit64": 3, "hdr.ExecSegmentBase": 4, "hdr.ExecSegmentFlags": 5, "hdr.ExecSegmentLimit": 6}
		o.mmSwitch(pc("pcd_ver", "(version : Z)", "bool"), 0, zf)
		o.condOf(pc("pcd_has_ident", "(ident_off : Z)", "bool"), "if:hdr.IdentOffset")
		o.condOf(pc("pcd_has_team", "(team_off : Z)", "bool"), "if:hdr.TeamOffset")
		o.condOf(pc("pcd_has_scatter", "(scatter_off : Z)", "bool"), "if:hdr.ScatterOffset")
		o.condOf(pc("pcd_slots_bad", "(n_special n_code hash_len hash_base blob_len : Z)", "bool"), "if:int64(hdr.SpecialSlotCount)")
		o.mmEmit(pc("pcd_slot_lo", "(hash_base hash_len i : Z)", "Z"), "slot low bound", mmPickSlice("blob", 0, "low"))
		o.mmEmit(pc("pcd_slot_hi", "(hash_base hash_len i : Z)", "Z"), "slot high bound", mmPickSlice("blob", 0, "high"))
		o.condOf(pc("pcd_slot_byte_nonzero", "(c : Z)", "bool"), "if:c != 0")
		o.condOf(pc("pcd_code_loop", "(i n_code : Z)", "bool"), "for:i < int(hdr.CodeSlotCount)")
		o.mmEmit(pc("pcd_code_loop_init", "", "Z"), "code slot loop start", mmPickForInit("i < int(hdr.CodeSlotCount)"))
		o.condOf(pc("pcd_special_loop", "(i n_special : Z)", "bool"), "for:i <= int(hdr.SpecialSlotCount)")
		o.mmEmit(pc("pcd_special_loop_init", "", "Z"), "special slot loop start", mmPickForInit("i <= int(hdr.SpecialSlotCount)"))
		o.mmEmit(pc("pcd_special_arg", "(i : Z)", "Z"), "v := slot(-i)", mmPickCallArg("slot", 1, 0, ""))
		o.mmEmit(pc("pcd_code_arg", "(i : Z)", "Z"), "slot(i)", mmPickCallArg("slot", 0, 0, ""))
		sf := map[string]int{"dir.ManifestHash": 1, "dir.RequirementsHash": 2, "dir.ResourcesHash": 3, "dir.EntitlementsHash": 5, "dir.RepSpecificHash": 6, "dir.EntitlementsDERHash": 7}
		o.mmSwitch(pc("pcd_field", "", "bool"), 1, sf)
		o.mmCalls(cs, "", "parseCodeDirectory", "pcd_cdhash_calls", []string{"h.Write", "h.Sum"}, map[string]int{"blob": 2, "nil": 4}, "")
		csL := map[string]string{"i": "i", "len(blob)": "blob_len", "j": "j"}
		o.condOf(funcSpec{dir: cs, name: "cstring", coqName: "cstr_off_bad", params: "(i blob_len : Z)", retType: "bool", leaves: csL}, "if:i >= len(blob)")
		o.condOf(funcSpec{dir: cs, name: "cstring", coqName: "cstr_no_nul", params: "(j : Z)", retType: "bool", leaves: csL}, "if:j < 0")

		// ================================================================ csblob.go: parseSignature
		sgL := map[string]string{"item.itype": "itype", "magic": "magic", "len(item.data)": "data_len"}
		sg := func(coq, params, ret string) funcSpec {
			return funcSpec{dir: cs, name: "parseSignature", coqName: coq, params: params, retType: ret, leaves: sgL}
		}
		o.condOf(sg("psig_magic_bad", "(magic : Z)", "bool"), "if:magic != csEmbeddedSignature")
		o.mmSwitch(sg("psig", "(itype : Z)", "bool"), 0, map[string]int{"sig.RawRequirements": 2, "sig.Entitlement": 5, "sig.EntitlementDER": 7, "sig.NotaryTicket": 102,
			"sig.Directories": 100, "sig.CMS": 101, "sig.Unknowns": 103})
		o.condOf(sg("psig_cms_empty", "(data_len : Z)", "bool"), "if:len(item.data) <= 8")
		o.mmEmit(sg("psig_cms_skip", "", "Z"), "item.data[8:]", mmPickSlice("item.data", 0, "low"))
		o.hasStmt(cs, "", "parseSignature", "return sig.Directories[i].IType < sig.Directories[j].IType", "psig_sorts_by_itype")

		// ================================================================ sign.go: Sign
		snL := map[string]string{"len(v)": "req_len", "specials[0] == nil": "first_nil", "len(specials)": "n", "i": "i",
			"params.Requirements != nil": "has_req", "params.Entitlement != nil": "has_ent", "params.EntitlementDER != nil": "has_der", "params.RepSpecific != nil": "has_rep"}
		snT := map[string]string{"specials[0] == nil": "bool", "params.Requirements != nil": "bool", "params.Entitlement != nil": "bool", "params.EntitlementDER != nil": "bool", "params.RepSpecific != nil": "bool"}
		sn := func(coq, params, ret string) funcSpec {
			return funcSpec{dir: cs, name: "Sign", coqName: coq, params: params, retType: ret, leaves: snL, types: snT, calls: W32}
		}
		o.mmAssign(sn("sign_single_page", "(has_rep : bool)", "bool"), "singlePage", 0)
		o.condOf(sn("sign_req_short", "(req_len : Z)", "bool"), "if:len(v) < 8")
		o.mmEmit(sn("sign_req_magic_tag", "", "Z"), "switch csMagic(Uint32(v))", func(p *pkgInfo, fd *ast.FuncDecl) ast.Expr {
			e := mmPickSwitchTag(0)(p, fd)
			if e != nil && mmNorm(printNode(p.fset, e)) == "csMagic(binary.BigEndian.Uint32(v))" {
				return &ast.BasicLit{Kind: token.INT, Value: "0"} // read at offset 0 of v
			}
			return nil
		})
		o.mmSwitch(sn("sign_req", "", "bool"), 0, map[string]int{"v": 1, "j.itype": 2, "j": 3})
		o.mmCalls(cs, "", "Sign", "sign_new_items", []string{"newSuperItem"}, map[string]int{"csRequirement": 1, "csRequirements": 2, "csEntitlement": 5, "csEntitlementDER": 7,
			"csBlobWrapper": 101, "v[8:]": 10, "params.Entitlement": 11, "params.EntitlementDER": 12, "tssig.Raw": 13}, "")
		o.mmCalls(cs, "", "Sign", "sign_marshals", []string{"marshalSuperBlob"}, map[string]int{"csRequirements": 2, "csEmbeddedSignature": 200, "[]superItem{j}": 3, "items": 4}, "")
		o.mmEmit(sn("sign_req_strip", "", "Z"), "v[8:]", mmPickSlice("v", 0, "low"))
		o.mmLitOrder(cs, "", "Sign", "specials", "sign_specials_order", map[string]int{"entDERBlob": 7, "params.RepSpecific": 6, "entBlob": 5, "nil": 4, "params.Resources": 3, "reqBlob": 2, "params.InfoPlist": 1})
		o.condOf(sn("sign_trim_cond", "(first_nil : bool) (n : Z)", "bool"), "for:specials[0] == nil")
		o.mmEmit(sn("sign_trim_step", "", "Z"), "specials = specials[1:]", mmPickSlice("specials", 0, "low"))
		o.mmCalls(cs, "", "Sign", "sign_appends", []string{"append"}, map[string]int{"hashedItems": 1, "attrHashes": 2, "plistHashes.CDHashes": 3, "items": 4, "i": 5, "item": 6,
			"hashedItems...": 7, "result.Digest[:20]": 8, "newSuperItem(csBlobWrapper, tssig.Raw)": 9}, "")
		o.condOf(sn("sign_is_first_cd", "(i : Z)", "bool"), "if:i == 0")
		o.mmAssign(sn("sign_first_itype", "", "Z"), "item.itype", 0)
		o.mmAssign(sn("sign_alt_itype", "(i : Z)", "Z"), "item.itype", 1)
		o.mmEmit(sn("sign_plist_trunc", "", "Z"), "result.Digest[:20]", mmPickSlice("result.Digest", 0, "high"))
		o.mmCalls(cs, "", "Sign", "sign_cms_content", []string{"builder.SetContentData"}, map[string]int{"firstCD": 1}, "")
		o.mmBranchTargets(cs, "", "Sign", "i == 0", "sign_first_targets", map[string]int{"firstCD": 1, "item.itype": 2})
		o.mmEmit(funcSpec{dir: cs, recv: "SignatureParams", name: "hashFuncs", coqName: "sign_hash_funcs_n", params: "", retType: "Z",
			leaves: map[string]string{"[]crypto.Hash{p.HashFunc}": "1"}}, "return []crypto.Hash{p.HashFunc}", mmPickReturn(0))

		// ================================================================ verify.go
		vgL := map[string]string{}
		for _, n := range []string{"EntitlementsDERHash", "EntitlementsHash", "RequirementsHash", "RepSpecificHash", "ManifestHash", "ResourcesHash"} {
			vgL["dir."+n+" != nil"] = "has_slot"
		}
		for _, n := range []string{"InfoPlist", "Resources"} {
			vgL["params."+n+" != nil"] = "has_param"
		}
		vgT := map[string]string{}
		for k := range vgL {
			vgT[k] = "bool"
		}
		o.mmGuards(funcSpec{dir: cs, name: "Verify", coqName: "vfy_check_guards", params: "(has_slot has_param : bool)", retType: "bool -> bool -> bool", leaves: vgL, types: vgT}, "hashCheck")
		o.mmCalls(cs, "", "Verify", "vfy_checks", []string{"hashCheck"}, map[string]int{"sig.EntitlementDER": 7, "sig.Entitlement": 5, "sig.RawRequirements": 2, "params.RepSpecific": 6,
			"params.InfoPlist": 1, "params.Resources": 3, "dir.EntitlementsDERHash": 7, "dir.EntitlementsHash": 5, "dir.RequirementsHash": 2, "dir.RepSpecificHash": 6,
			"dir.ManifestHash": 1, "dir.ResourcesHash": 3, "h": 0}, "")
		vfL := map[string]string{"len(sig.Directories)": "n_dirs", "sig.CMS == nil": "cms_nil"}
		vf := func(coq, params, ret string) funcSpec {
			return funcSpec{dir: cs, name: "Verify", coqName: coq, params: params, retType: ret, leaves: vfL, types: map[string]string{"sig.CMS == nil": "bool"}}
		}
		o.condOf(vf("vfy_no_dirs", "(n_dirs : Z)", "bool"), "if:len(sig.Directories)")
		o.condOf(vf("vfy_no_cms", "(cms_nil : bool)", "bool"), "if:sig.CMS == nil")
		o.mmEmit(vf("vfy_content_dir", "", "Z"), "mdContent := sig.Directories[0].Raw", func(p *pkgInfo, fd *ast.FuncDecl) ast.Expr {
			var found ast.Expr
			ast.Inspect(fd.Body, func(n ast.Node) bool {
				if as, ok := n.(*ast.AssignStmt); ok && len(as.Lhs) == 1 && printNode(p.fset, as.Lhs[0]) == "mdContent" {
					if se, ok := as.Rhs[0].(*ast.SelectorExpr); ok && se.Sel.Name == "Raw" {
						if ie, ok := se.X.(*ast.IndexExpr); ok && printNode(p.fset, ie.X) == "sig.Directories" {
							found = ie.Index
						}
					}
				}
				return found == nil
			})
			return found
		})
		o.callOrder(cs, "", "Verify", "vfy_order", []string{"parseSignature", "Verify", "checkCDHashes", "checkPlistHashes", "VerifyOptionalTimestamp"})
		bdL := map[string]string{"dir == nil": "none", "dir2.Header.HashType": "t2", "dir.Header.HashType": "t1"}
		o.condOf(funcSpec{dir: cs, recv: "SigBlob", name: "bestDir", coqName: "vfy_better_dir", params: "(none : bool) (t2 t1 : Z)", retType: "bool", leaves: bdL, types: map[string]string{"dir == nil": "bool"}}, "if:dir2.Header.HashType")
		// CodeSize: the whole (loop-free) function
		o.decisionFunc(funcSpec{dir: cs, recv: "SigBlob", name: "CodeSize", coqName: "cs_code_size_of", params: "(none : bool) (limit64 limit32 : Z)", retType: "Z",
			leaves: map[string]string{"s.bestDir()": "tt", "dir == nil": "none", "dir.Header.CodeLimit64": "limit64", "dir.Header.CodeLimit": "limit32"}, types: map[string]string{"dir == nil": "bool"}})
		// VerifyPages: the whole body as a program of FmtMACHO.VpLang
		o.mmProg(funcSpec{dir: cs, recv: "SigBlob", name: "VerifyPages", coqName: "vp_prog",
			leaves: map[string]string{"dir == nil": "(i_none c)", "dir.Header.PageSizeLog2": "(i_log2 c)", "len(dir.CodeHashes)": "(zlen (i_hashes c))", "dir.CodeHashes[0]": "(hd [] (i_hashes c))",
				"s.CodeSize()": "(i_code_size c)", "remaining": "(s_remaining s)", "pageSize": "(s_page_size s)", "len(page)": "(s_plen s)", "n": "(s_n s)", "i": "(s_i s)",
				"err != nil": "(s_err s)", "err == nil": "(negb (s_err s))", "computed": "(s_computed s)", "expected": "(s_expected s)", "maxPageSizeLog2": "cs_max_page_log2"},
			types: map[string]string{"dir == nil": "bool", "err != nil": "bool", "err == nil": "bool", "computed": "bytes", "expected": "bytes", "dir.CodeHashes[0]": "bytes"},
			calls: map[string]string{"hmac.Equal": "bytes_eqb", "bytes.Equal": "bytes_eqb", "int64": "mm_s64"}})
		cpL := map[string]string{"len(parsed.CDHashes)": "n_plist", "len(computedList)": "n_dirs"}
		o.condOf(funcSpec{dir: cs, name: "checkPlistHashes", coqName: "vfy_plist_count_bad", params: "(n_plist n_dirs : Z)", retType: "bool", leaves: cpL}, "if:len(parsed.CDHashes)")
		o.mmEmit(funcSpec{dir: cs, name: "checkPlistHashes", coqName: "vfy_plist_trunc", params: "", retType: "Z"}, "computed[...][:20]", func(p *pkgInfo, fd *ast.FuncDecl) ast.Expr {
			var found ast.Expr
			ast.Inspect(fd.Body, func(n ast.Node) bool {
				if se, ok := n.(*ast.SliceExpr); ok && found == nil && strings.HasPrefix(printNode(p.fset, se.X), "computed[") {
					found = se.High
				}
				return found == nil
			})
			return found
		})
		o.hasStmt(cs, "", "checkCDHashes", "hc := computed[hash]", "vfy_attr_lookup_by_hash")
		ccL := map[string]string{"hc == nil": "missing"}
		o.condOf(funcSpec{dir: cs, name: "checkCDHashes", coqName: "vfy_attr_missing", params: "(missing : bool)", retType: "bool", leaves: ccL, types: map[string]string{"hc == nil": "bool"}}, "if:hc == nil")

		// ================================================================ machos/header.go
		for _, c := range [][2]string{{"loadCmdCodeSignature", "mo_lc_code_signature"}, {"alignSegmentFile", "mo_align_file"}, {"alignSegmentMem", "mo_align_mem"}} {
			o.constInt(ms, c[0], c[1])
		}
		o.constString(ms, "segLinkEdit", "mo_seg_linkedit")
		o.mmStruct(ms, "codeSigCmd", "mo_cscmd")
		scL := map[string]string{"macho.Magic32 &^ 1": "4277009102", "be &^ 1": "(mm_clear1 be)", "le &^ 1": "(mm_clear1 le)", "f.Magic": "magic", "macho.Magic64": "4277009103",
			"binary.Size(f.FileHeader)": "28", "len(dat)": "dat_len", "uint32(len(dat))": "dat_len", "int(f.Cmdsz)": "cmdsz", "int(f.Ncmd)": "ncmd", "i": "i", "siz": "siz", "endOfHeader": "end_of_header",
			"sh.Size": "sh_size", "sh.Offset": "sh_offset", "int64(sh.Offset)": "sh_offset", "f.firstSh": "first_sh", "seg.Filesz": "seg_filesz",
			"f.linkEditHdr.Offset": "le_offset", "f.linkEditHdr.Filesz": "le_filesz", "f.sigLen": "sig_len", "f.sigStart": "sig_start", "sigEnd": "sig_end", "linkEditEnd": "link_edit_end",
			"f.linkEditHdrPos": "le_pos", "macho.LoadCmdSegment": "1", "macho.LoadCmdSegment64": "25", "loadCmdCodeSignature": "mo_lc_code_signature", "int(seg.Nsect)": "nsect"}
		sc := func(coq, params, ret string) funcSpec {
			return funcSpec{dir: ms, name: "scanFile", coqName: coq, params: params, retType: ret, leaves: scL, calls: map[string]string{"int64": "mm_s64"}}
		}
		o.mmEmit(sc("mo_magic_tag", "", "Z"), "switch macho.Magic32 &^ 1", mmPickSwitchTag(0))
		o.mmEmit(sc("mo_magic_case_be", "(be : Z)", "Z"), "case be &^ 1", mmPickCase("be &^ 1", 0))
		o.mmEmit(sc("mo_magic_case_le", "(le : Z)", "Z"), "case le &^ 1", mmPickCase("le &^ 1", 0))
		o.mmAssign(sc("mo_hdr_size0", "", "Z"), "endOfHeader", 0)
		o.condOf(sc("mo_is_64", "(magic : Z)", "bool"), "if:f.Magic == macho.Magic64")
		o.mmAssign(sc("mo_hdr_size64", "(old : Z)", "Z"), "endOfHeader", 1)
		o.condOf(sc("mo_cmds_short", "(dat_len cmdsz : Z)", "bool"), "if:len(dat) != int(f.Cmdsz)")
		o.mmAssign(sc("mo_first_sh_init", "", "Z"), "f.firstSh", 0)
		o.condOf(sc("mo_cmd_loop", "(i ncmd : Z)", "bool"), "for:i < int(f.Ncmd)")
		o.condOf(sc("mo_cmd_block_small", "(dat_len : Z)", "bool"), "if:len(dat) < 8")
		o.condOf(sc("mo_cmd_size_bad", "(siz dat_len : Z)", "bool"), "if:siz < 8")
		o.mmAssign(funcSpec{dir: ms, name: "scanFile", coqName: "mo_cmd_pos", params: "(end_of_header dat_len : Z)", retType: "Z", leaves: scL}, "cmdPos", 0)
		o.mmSwitch(funcSpec{dir: ms, name: "scanFile", coqName: "mo_cmd_switch", params: "", retType: "bool", leaves: scL}, 1,
			map[string]int{"f.linkEditHdrPos": 1, "f.linkEditHdr": 2, "f.firstSh": 3, "f.sigStart": 4, "f.sigLen": 5, "f.loadCsStart": 6})
		o.condOf(sc("mo_sect32_lowers", "(sh_size sh_offset first_sh : Z)", "bool"), "if:sh.Size != 0", 0)
		o.condOf(sc("mo_sect64_lowers", "(seg_filesz sh_size sh_offset first_sh : Z)", "bool"), "if:sh.Size != 0", 1)
		o.condOf(sc("mo_sect_loop", "(i nsect : Z)", "bool"), "for:i < int(seg.Nsect)", 0)
		o.condOf(sc("mo_no_linkedit", "(le_pos : Z)", "bool"), "if:f.linkEditHdrPos")
		o.mmAssign(sc("mo_link_edit_end", "(le_offset le_filesz : Z)", "Z"), "linkEditEnd", 0)
		o.condOf(sc("mo_has_old_sig", "(sig_len : Z)", "bool"), "if:f.sigLen != 0")
		o.mmAssign(sc("mo_sig_end", "(sig_start sig_len : Z)", "Z"), "sigEnd", 0)
		o.condOf(sc("mo_old_sig_misplaced", "(sig_end link_edit_end : Z)", "bool"), "if:sigEnd > linkEditEnd")
		o.mmBranchTargets(ms, "", "scanFile", "f.sigLen != 0", "mo_codesize_targets", map[string]int{"f.codeSize": 1, "sigEnd": 2})
		o.mmAssign(sc("mo_codesize_signed", "(sig_start : Z)", "Z"), "f.codeSize", 0)
		o.mmAssign(sc("mo_codesize_unsigned", "(link_edit_end : Z)", "Z"), "f.codeSize", 1)

		alL := map[string]string{"addr": "addr", "align": "a", "n": "n"}
		al := func(coq, params, ret string) funcSpec {
			return funcSpec{dir: ms, name: "align", coqName: coq, params: params, retType: ret, leaves: alL}
		}
		o.mmAssign(al("mo_align_rem", "(addr a : Z)", "Z"), "n", 0)
		o.condOf(al("mo_align_needed", "(n : Z)", "bool"), "if:n != 0")
		o.mmAssign(al("mo_align_bump", "(old a n : Z)", "Z"), "addr", 0)

		ptL := map[string]string{"f.sigLen": "sig_len", "sigSize": "sig_size", "sigStart": "sig_start", "f.codeSize": "code_size", "padding": "padding", "f.sigStart": "sig_start0",
			"alignSegmentFile": "mo_align_file", "alignSegmentMem": "mo_align_mem", "f.loadCsStart": "load_cs_start", "f.nextLc": "next_lc", "loadCsEnd": "load_cs_end", "f.firstSh": "first_sh",
			"int64(len(newHeader))": "hdr_len", "f.linkEditHdrPos": "le_pos", "hdr.Offset": "le_offset", "end": "end_", "f.Magic": "magic", "macho.Magic64": "4277009103",
			"loadCmdCodeSignature": "mo_lc_code_signature", "hdr.Memsz": "memsz", "hdr.Filesz": "filesz"}
		pt := func(fn, coq, params, ret string) funcSpec {
			return funcSpec{dir: ms, recv: "machoMarkers", name: fn, coqName: coq, params: params, retType: ret, leaves: ptL,
				calls: map[string]string{"align": "mo_align", "uint32": "mm_wrap32", "uint64": "mm_wrap64", "int64": "mm_s64"}}
		}
		o.f("(* mo_align is defined by the model from mo_align_rem / mo_align_needed / mo_align_bump; the translated expressions below take it as a parameter *)\n")
		o.f("Section WithAlign.\nVariable mo_align : Z -> Z -> Z.\n")
		o.condOf(pt("PatchSignature", "mo_reuse_block", "(sig_len sig_size : Z)", "bool"), "if:f.sigLen >= sigSize")
		o.mmAssign(pt("PatchSignature", "mo_sig_size_aligned", "(sig_size : Z)", "Z"), "sigSize", 0)
		o.condOf(pt("PatchSignature", "mo_sig_start_unset", "(sig_start : Z)", "bool"), "if:sigStart == 0")
		o.mmAssign(pt("PatchSignature", "mo_sig_start_new", "(code_size : Z)", "Z"), "sigStart", 1)
		o.mmAssign(pt("PatchSignature", "mo_padding", "(sig_start code_size : Z)", "Z"), "padding", 0)
		o.condOf(pt("PatchSignature", "mo_padding_neg", "(padding : Z)", "bool"), "if:padding < 0")
		o.mmEmit(pt("PatchSignature", "mo_padded_len", "(padding sig_size : Z)", "Z"), "make([]byte, padding+sigSize)", mmPickCallArg("make", 1, 1, ""))
		o.mmAssign(pt("patchLinkEdit", "mo_le_end", "(sig_start sig_size : Z)", "Z"), "end", 0)
		o.mmAssign(pt("patchLinkEdit", "mo_le_filesz", "(end_ le_offset : Z)", "Z"), "hdr.Filesz", 0)
		o.mmAssign(pt("patchLinkEdit", "mo_le_memsz", "(end_ le_offset : Z)", "Z"), "hdr.Memsz", 0)
		o.f("End WithAlign.\n")
		o.mmCalls(ms, "machoMarkers", "PatchSignature", "mo_patch_calls", []string{"patch.Add", "f.patchNcmd", "f.patchLinkEdit", "f.patchLoadCmd"},
			map[string]int{"f.sigStart": 1, "f.sigLen": 2, "f.codeSize": 3, "newHeader": 4, "patch": 5}, "f.sigLen >= sigSize")
		o.mmCalls(ms, "machoMarkers", "PatchSignature", "mo_patch_final_add", []string{"patch.Add"}, map[string]int{"f.sigStart": 1, "f.sigLen": 2, "f.codeSize": 3}, "")
		o.condOf(pt("patchNcmd", "mo_has_load_cs", "(load_cs_start : Z)", "bool"), "if:f.loadCsStart != 0")
		o.mmAssign(pt("patchNcmd", "mo_load_cs_end", "(next_lc : Z)", "Z"), "loadCsEnd", 0)
		o.condOf(pt("patchNcmd", "mo_lc_overflows", "(load_cs_end first_sh : Z)", "bool"), "if:loadCsEnd > f.firstSh")
		o.condOf(pt("patchNcmd", "mo_hdr_extend", "(hdr_len load_cs_end : Z)", "bool"), "if:int64(len(newHeader)) < loadCsEnd")
		o.mmEmit(pt("patchNcmd", "mo_ncmd_at", "", "Z"), "PutUint32(newHeader[16:], ...)", mmPickCallArg("f.ByteOrder.PutUint32", 0, 0, "low"))
		o.mmEmit(pt("patchNcmd", "mo_cmdsz_at", "", "Z"), "PutUint32(newHeader[20:], ...)", mmPickCallArg("f.ByteOrder.PutUint32", 1, 0, "low"))
		pnL := map[string]string{"f.ByteOrder.Uint32(newHeader[16:])": "ncmd", "f.ByteOrder.Uint32(newHeader[20:])": "cmdsz"}
		o.mmEmit(funcSpec{dir: ms, recv: "machoMarkers", name: "patchNcmd", coqName: "mo_ncmd_new", params: "(ncmd : Z)", retType: "Z", leaves: pnL}, "new Ncmd", mmPickCallArg("f.ByteOrder.PutUint32", 0, 1, ""))
		o.mmEmit(funcSpec{dir: ms, recv: "machoMarkers", name: "patchNcmd", coqName: "mo_cmdsz_new", params: "(cmdsz : Z)", retType: "Z", leaves: pnL}, "new Cmdsz", mmPickCallArg("f.ByteOrder.PutUint32", 1, 1, ""))
		o.mmEmit(pt("patchNcmd", "mo_ncmd_patch_off", "", "Z"), "patch.Add(16, 8, ...)", mmPickCallArg("patch.Add", 0, 0, ""))
		o.mmEmit(pt("patchNcmd", "mo_ncmd_patch_len", "", "Z"), "patch.Add(16, 8, ...)", mmPickCallArg("patch.Add", 0, 1, ""))
		for i, n := range []string{"cmd", "len", "off", "size"} {
			o.mmEmit(pt("patchLoadCmd", "mo_lc_"+n+"_at", "(load_cs_start : Z)", "Z"), "PutUint32 position", mmPickCallArg("f.ByteOrder.PutUint32", i, 0, "low"))
			o.mmEmit(pt("patchLoadCmd", "mo_lc_"+n+"_val", "(sig_start sig_size : Z)", "Z"), "PutUint32 value", mmPickCallArg("f.ByteOrder.PutUint32", i, 1, ""))
		}
		o.mmEmit(pt("patchLoadCmd", "mo_lc_patch_len", "", "Z"), "patch.Add(f.loadCsStart, 16, ...)", mmPickCallArg("patch.Add", 0, 1, ""))
		o.condOf(pt("patchLinkEdit", "mo_le_is_64", "(magic : Z)", "bool"), "if:f.Magic == macho.Magic64")
		o.mmEmit(pt("patchLinkEdit", "mo_le64_memsz_at", "(le_pos : Z)", "Z"), "PutUint64 Memsz position", mmPickCallArg("f.ByteOrder.PutUint64", 0, 0, "low"))
		o.mmEmit(pt("patchLinkEdit", "mo_le64_filesz_at", "(le_pos : Z)", "Z"), "PutUint64 Filesz position", mmPickCallArg("f.ByteOrder.PutUint64", 1, 0, "low"))
		o.mmEmit(pt("patchLinkEdit", "mo_le32_memsz_at", "(le_pos : Z)", "Z"), "PutUint32 Memsz position", mmPickCallArg("f.ByteOrder.PutUint32", 0, 0, "low"))
		o.mmEmit(pt("patchLinkEdit", "mo_le32_filesz_at", "(le_pos : Z)", "Z"), "PutUint32 Filesz position", mmPickCallArg("f.ByteOrder.PutUint32", 1, 0, "low"))
		o.mmEmit(pt("patchLinkEdit", "mo_le32_memsz_val", "(memsz : Z)", "Z"), "PutUint32 Memsz value", mmPickCallArg("f.ByteOrder.PutUint32", 0, 1, ""))
		o.mmEmit(pt("patchLinkEdit", "mo_le32_filesz_val", "(filesz : Z)", "Z"), "PutUint32 Filesz value", mmPickCallArg("f.ByteOrder.PutUint32", 1, 1, ""))
		pick2 := func(nth, idx int) func(p *pkgInfo, fd *ast.FuncDecl) ast.Expr {
			return func(p *pkgInfo, fd *ast.FuncDecl) ast.Expr {
				var found ast.Expr
				k := 0
				ast.Inspect(fd.Body, func(n ast.Node) bool {
					if as, ok := n.(*ast.AssignStmt); ok && len(as.Lhs) == 2 && len(as.Rhs) == 2 && printNode(p.fset, as.Lhs[0]) == "patchStart" {
						if k == nth {
							found = as.Rhs[idx]
						}
						k++
					}
					return found == nil
				})
				return found
			}
		}
		o.mmEmit(pt("patchLinkEdit", "mo_le64_patch_off", "(le_pos : Z)", "Z"), "patchStart (64)", pick2(0, 0))
		o.mmEmit(pt("patchLinkEdit", "mo_le64_patch_len", "", "Z"), "patchSize (64)", pick2(0, 1))
		o.mmEmit(pt("patchLinkEdit", "mo_le32_patch_off", "(le_pos : Z)", "Z"), "patchStart (32)", pick2(1, 0))
		o.mmEmit(pt("patchLinkEdit", "mo_le32_patch_len", "", "Z"), "patchSize (32)", pick2(1, 1))

		// ================================================================ machos/sign.go, verify.go
		msL := map[string]string{"markers.codeSize": "code_size", "params.HashFunc.Size()": "hash_size", "len(params.Entitlement)": "ent_len", "len(params.Requirements)": "req_len",
			"len(blob)": "blob_len", "len(sigBuf)": "sig_buf_len", "extended": "extended", "len(headerBuf)": "hdr_len", "oldHeaderSize": "old_hdr_len", "markers.sigLen": "sig_len", "int64(len(headerBuf))": "hdr_len"}
		mg := func(coq, params, ret string) funcSpec {
			return funcSpec{dir: ms, name: "Sign", coqName: coq, params: params, retType: ret, leaves: msL}
		}
		o.mmAssign(mg("mo_est0", "(code_size hash_size : Z)", "Z"), "estimatedSize", 0)
		o.mmAssign(mg("mo_est1", "(old ent_len req_len : Z)", "Z"), "estimatedSize", 1)
		o.mmAssign(mg("mo_est2", "(old : Z)", "Z"), "estimatedSize", 2)
		o.condOf(mg("mo_blob_overflows", "(blob_len sig_buf_len : Z)", "bool"), "if:len(blob) > len(sigBuf)")
		o.condOf(mg("mo_hdr_extended", "(extended : Z)", "bool"), "if:extended > 0")
		o.condOf(mg("mo_reads_old_sig", "(sig_len : Z)", "bool"), "if:markers.sigLen != 0")
		o.mmEmit(mg("mo_code_limit", "(code_size hdr_len : Z)", "Z"), "code := io.LimitReader(r, ...)", mmPickCallArg("io.LimitReader", 0, 1, ""))
		o.mmCalls(ms, "", "Sign", "mo_pages_reader", []string{"io.LimitReader", "io.MultiReader"},
			map[string]int{"bytes.NewReader(headerBuf)": 1, "r": 2, "bytes.NewReader(make([]byte, padding))": 3, "sigStart": 4, "markers.sigLen": 5,
				"io.MultiReader(bytes.NewReader(headerBuf), code, bytes.NewReader(make([]byte, padding)))": 6, "code": 7, "markers.codeSize - int64(len(headerBuf))": 8},
			"markers.sigLen != 0")
		o.mmEmit(funcSpec{dir: ms, name: "Sign", coqName: "mo_pages_third_reader", params: "", retType: "Z",
			leaves: map[string]string{"bytes.NewReader(make([]byte, padding))": "3"}}, "third MultiReader argument", mmPickCallArg("io.MultiReader", 0, 2, ""))
		rsL := map[string]string{"cmd": "cmd", "loadCmdCodeSignature": "mo_lc_code_signature", "len(raw)": "raw_len", "length": "length", "10e6": "10000000", "skipDigests": "skip"}
		rs := func(fn, coq, params, ret string) funcSpec {
			return funcSpec{dir: ms, name: fn, coqName: coq, params: params, retType: ret, leaves: rsL, types: map[string]string{"skipDigests": "bool"}}
		}
		o.condOf(rs("readSigBlob", "mo_v_not_cs", "(cmd : Z)", "bool"), "if:cmd != loadCmdCodeSignature")
		o.condOf(rs("readSigBlob", "mo_v_cmd_len_bad", "(raw_len : Z)", "bool"), "if:len(raw) != 16")
		o.condOf(rs("readSigBlob", "mo_v_too_large", "(length : Z)", "bool"), "if:length > 10e6")
		o.mmEmit(rs("readSigBlob", "mo_v_off_at", "", "Z"), "Uint32(raw[8:])", mmPickCallArg("hdr.ByteOrder.Uint32", 1, 0, "low"))
		o.mmEmit(rs("readSigBlob", "mo_v_len_at", "", "Z"), "Uint32(raw[12:])", mmPickCallArg("hdr.ByteOrder.Uint32", 2, 0, "low"))
		o.condOf(rs("Verify", "mo_v_checks_pages", "(skip : bool)", "bool"), "if:!skipDigests")
		o.mmCalls(ms, "", "Verify", "mo_v_section", []string{"io.NewSectionReader"}, map[string]int{"r": 1, "0": 0}, "")

		for _, fn := range []string{"parseSuper", "newSuperItem", "marshalSuperBlob", "parseCodeDirectory", "cstring", "newCodeDirectory", "Sign", "Verify", "hashCheck", "parseSignature",
			"hashFunc", "hashType", "checkCDHashes", "checkPlistHashes", "addCSHashes", "addPlistHashes"} {
			fingerprint(cs, "", fn)
		}
		for _, fn := range []string{"bestDir", "CodeSize", "VerifyPages"} {
			fingerprint(cs, "SigBlob", fn)
		}
		fingerprint(cs, "SignatureParams", "hashFuncs")
		fingerprint(cs, "SignatureParams", "DefaultsFromSignature")
		for _, fn := range []string{"scanFile", "Sign", "Verify", "readSigBlob", "align"} {
			fingerprint(ms, "", fn)
		}
		for _, fn := range []string{"PatchSignature", "patchNcmd", "patchLoadCmd", "patchLinkEdit"} {
			fingerprint(ms, "machoMarkers", fn)
		}
		_ = mmSortedKeys
	}
}
