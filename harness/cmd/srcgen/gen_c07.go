package main

// C07 — signatures only under a certificate that matches the key.
//
// Generated items (coq/Generated/C07_gen.v):
//   * SameKey: the two Signer normalisations, the type-switch case list and, per case, the asserted type of the
//     second operand and the translated comparison;
//   * parseCertificates / parseCertificatesDer: the index of the certificate that becomes Leaf;
//   * LoadTokenCertificates / LoadX509KeyPair: guard conditions (parametric in the key comparison);
//   * Certificate.Chain: the three branch conditions;
//   * pkcs7.SignatureBuilder.Sign, xmldsig.Sign, xmldsig.SignEnveloping: guard conditions, the order of guard and
//     private-key operation, the certificate index the SignerInfo names;
//   * per signing site: where the private key and the embedded certificates are taken from (argument classes);
//   * config.GetKey / tokencache.GetKey conditions used by the key-lookup model.

import (
	"fmt"
	"go/ast"
	"go/token"
	"strconv"
	"strings"
)

// typeSwitchCases translates `switch key1 := pub1.(type) { case *T: key2, ok := pub2.(*U); return <expr> ... default: return <lit> }`.
func c07SameKey(o *out) {
	const d = "lib/x509tools"
	p, fd := findFunc(d, "", "SameKey")
	if fd == nil {
		o.brokenDef("same_key_cases", "function SameKey not found")
		return
	}
	typeCode := map[string]int{"*rsa.PublicKey": 1, "*ecdsa.PublicKey": 2, "ed25519.PublicKey": 3, "*ed25519.PublicKey": 3}
	// normalisations
	norm := map[string]bool{}
	var ts *ast.TypeSwitchStmt
	for _, st := range fd.Body.List {
		switch x := st.(type) {
		case *ast.IfStmt:
			if x.Init == nil {
				o.brokenDef("same_key_cases", "unexpected if in SameKey")
				return
			}
			init := strings.Join(strings.Fields(printNode(p.fset, x.Init)), " ")
			body := ""
			if len(x.Body.List) == 1 {
				body = strings.Join(strings.Fields(printNode(p.fset, x.Body.List[0])), " ")
			}
			cond := printNode(p.fset, x.Cond)
			for _, v := range []string{"pub1", "pub2"} {
				if init == "privkey, ok := "+v+".(crypto.Signer)" && cond == "ok" && body == v+" = privkey.Public()" {
					norm[v] = true
				}
			}
		case *ast.TypeSwitchStmt:
			ts = x
		default:
			o.brokenDef("same_key_cases", "unexpected statement in SameKey: "+printNode(p.fset, st))
			return
		}
	}
	o.f("Definition same_key_norm1 : bool := %v. (* pub1 is replaced by privkey.Public() when it is a crypto.Signer *)\n", norm["pub1"])
	o.f("Definition same_key_norm2 : bool := %v. (* pub2 likewise *)\n", norm["pub2"])
	if ts == nil {
		o.brokenDef("same_key_cases", "no type switch in SameKey")
		return
	}
	if as := strings.Join(strings.Fields(printNode(p.fset, ts.Assign)), " "); as != "key1 := pub1.(type)" {
		o.brokenDef("same_key_cases", "type switch is not on pub1: "+as)
		return
	}
	var cases []string
	deflt := "false"
	emitted := map[int]bool{}
	for _, c := range ts.Body.List {
		cc := c.(*ast.CaseClause)
		if cc.List == nil {
			if len(cc.Body) == 1 {
				if r, ok := cc.Body[0].(*ast.ReturnStmt); ok && len(r.Results) == 1 {
					deflt = printNode(p.fset, r.Results[0])
				}
			}
			continue
		}
		if len(cc.List) != 1 || len(cc.Body) != 2 {
			o.brokenDef("same_key_cases", "unexpected case shape in SameKey")
			return
		}
		tname := printNode(p.fset, cc.List[0])
		code, ok := typeCode[tname]
		if !ok {
			o.brokenDef("same_key_cases", "unknown key type in SameKey: "+tname)
			return
		}
		as, ok1 := cc.Body[0].(*ast.AssignStmt)
		ret, ok2 := cc.Body[1].(*ast.ReturnStmt)
		if !ok1 || !ok2 || len(ret.Results) != 1 || len(as.Rhs) != 1 {
			o.brokenDef("same_key_cases", "unexpected case body in SameKey")
			return
		}
		ta, ok := as.Rhs[0].(*ast.TypeAssertExpr)
		if !ok || printNode(p.fset, ta.X) != "pub2" || strings.Join(strings.Fields(printNode(p.fset, as.Lhs[0])+","+printNode(p.fset, as.Lhs[1])), "") != "key2,ok" {
			o.brokenDef("same_key_cases", "case does not assert the type of pub2")
			return
		}
		other, ok := typeCode[printNode(p.fset, ta.Type)]
		if !ok {
			other = 99
		}
		cases = append(cases, strconv.Itoa(code))
		emitted[code] = true
		fs := funcSpec{dir: d, name: "SameKey"}
		switch code {
		case 1:
			fs.leaves = map[string]string{"ok": "ok", "key1.E": "e1", "key2.E": "e2", "key1.N.Cmp(key2.N)": "(zcmp n1 n2)", "key2.N.Cmp(key1.N)": "(zcmp n2 n1)"}
			fs.types = map[string]string{"ok": "bool"}
			t := o.newTr(p, fs)
			e := t.expr(ret.Results[0])
			if t.err != nil {
				o.brokenDef("same_key_rsa", t.err.Error())
			} else {
				o.f("Definition same_key_rsa (zcmp : Z -> Z -> Z) (ok : bool) (n1 e1 n2 e2 : Z) : bool :=\n  %s.\n(* case %s: return %s *)\n", e, tname, printNode(p.fset, ret.Results[0]))
			}
			o.f("Definition same_key_rsa_other : Z := %d. (* type asserted for pub2 in the RSA case *)\n", other)
		case 2:
			fs.leaves = map[string]string{"ok": "ok", "key1.X.Cmp(key2.X)": "(zcmp x1 x2)", "key1.Y.Cmp(key2.Y)": "(zcmp y1 y2)",
				"key2.X.Cmp(key1.X)": "(zcmp x2 x1)", "key2.Y.Cmp(key1.Y)": "(zcmp y2 y1)",
				"key1.Curve == key2.Curve": "(c1 =? c2)", "key1.Curve != key2.Curve": "(negb (c1 =? c2))"}
			fs.types = map[string]string{"ok": "bool", "key1.Curve == key2.Curve": "bool", "key1.Curve != key2.Curve": "bool"}
			t := o.newTr(p, fs)
			e := t.expr(ret.Results[0])
			if t.err != nil {
				o.brokenDef("same_key_ec", t.err.Error())
			} else {
				o.f("Definition same_key_ec (zcmp : Z -> Z -> Z) (ok : bool) (c1 x1 y1 c2 x2 y2 : Z) : bool :=\n  %s.\n(* case %s: return %s *)\n", e, tname, printNode(p.fset, ret.Results[0]))
			}
			o.f("Definition same_key_ec_other : Z := %d. (* type asserted for pub2 in the ECDSA case *)\n", other)
		default:
			o.brokenDef("same_key_cases", "no translation for key type "+tname)
		}
	}
	if !emitted[1] {
		o.f("Definition same_key_rsa (zcmp : Z -> Z -> Z) (ok : bool) (n1 e1 n2 e2 : Z) : bool := false. (* no RSA case *)\nDefinition same_key_rsa_other : Z := 0.\n")
	}
	if !emitted[2] {
		o.f("Definition same_key_ec (zcmp : Z -> Z -> Z) (ok : bool) (c1 x1 y1 c2 x2 y2 : Z) : bool := false. (* no ECDSA case *)\nDefinition same_key_ec_other : Z := 0.\n")
	}
	o.f("Definition same_key_cases : list Z := [%s]. (* type switch cases: 1 *rsa.PublicKey, 2 *ecdsa.PublicKey *)\n", strings.Join(cases, "; "))
	if deflt != "true" && deflt != "false" {
		o.brokenDef("same_key_default", "default case does not return a literal")
		return
	}
	o.f("Definition same_key_default : bool := %s.\n", deflt)
}

// leafIndex: in function fn find the composite literal Certificate{Leaf: certs[K], Certificates: certs} and emit K;
// also records whether the Certificates field is the whole list.
func c07LeafIndex(o *out, fn, coqName string) {
	const d = "lib/certloader"
	p, fd := findFunc(d, "", fn)
	if fd == nil {
		o.brokenDef(coqName, "function "+fn+" not found")
		return
	}
	idx, whole, n := int64(-1), false, 0
	ast.Inspect(fd.Body, func(nd ast.Node) bool {
		cl, ok := nd.(*ast.CompositeLit)
		if !ok || printNode(p.fset, cl.Type) != "Certificate" {
			return true
		}
		for _, el := range cl.Elts {
			kv, ok := el.(*ast.KeyValueExpr)
			if !ok {
				continue
			}
			switch printNode(p.fset, kv.Key) {
			case "Leaf":
				n++
				if ie, ok := kv.Value.(*ast.IndexExpr); ok && printNode(p.fset, ie.X) == "certs" {
					if v, err := evalConst(d, ie.Index, 0); err == nil {
						idx = v.i
					}
				}
			case "Certificates":
				whole = printNode(p.fset, kv.Value) == "certs"
			}
		}
		return true
	})
	if n != 1 || idx < 0 {
		o.brokenDef(coqName, fmt.Sprintf("%s: expected exactly one Certificate{Leaf: certs[const]} literal (found %d)", fn, n))
		return
	}
	o.f("Definition %s : Z := %d. (* %s: Leaf: certs[%d] *)\n", coqName, idx, fn, idx)
	o.f("Definition %s_whole : bool := %v. (* %s: Certificates: certs *)\n", coqName, whole, fn)
}

// caseCond translates the nth case expression of the first tagless switch in the function.
func c07CaseCond(o *out, fs funcSpec, nth int) {
	p, fd := findFunc(fs.dir, fs.recv, fs.name)
	if fd == nil {
		o.brokenDef(fs.coqName, "function "+fs.name+" not found")
		return
	}
	var sw *ast.SwitchStmt
	ast.Inspect(fd.Body, func(n ast.Node) bool {
		if s, ok := n.(*ast.SwitchStmt); ok && sw == nil && s.Tag == nil {
			sw = s
		}
		return sw == nil
	})
	if sw == nil || len(sw.Body.List) <= nth {
		o.brokenDef(fs.coqName, "no tagless switch with enough cases in "+fs.name)
		return
	}
	cc := sw.Body.List[nth].(*ast.CaseClause)
	if len(cc.List) != 1 {
		o.brokenDef(fs.coqName, "case is not a single expression")
		return
	}
	t := o.newTr(p, fs)
	e := t.expr(cc.List[0])
	if t.err != nil {
		o.brokenDef(fs.coqName, t.err.Error())
		return
	}
	ft := false
	if len(cc.Body) > 0 {
		if b, ok := cc.Body[len(cc.Body)-1].(*ast.BranchStmt); ok && b.Tok == token.FALLTHROUGH {
			ft = true
		}
	}
	o.f("Definition %s %s : %s :=\n  %s.\n(* from %s:%s switch case %d: %s *)\n", fs.coqName, fs.params, fs.retType, e, fs.dir, fs.name, nth, printNode(p.fset, cc.List[0]))
	o.f("Definition %s_fallthrough : bool := %v.\n", fs.coqName, ft)
}

// indexUses lists the constant indexes applied to expression `base` inside the function, in source order.
func c07IndexUses(o *out, dir, recv, name, base, coqName string) {
	p, fd := findFunc(dir, recv, name)
	if fd == nil {
		o.brokenDef(coqName, "function "+name+" not found")
		return
	}
	var seq []string
	bad := false
	ast.Inspect(fd.Body, func(n ast.Node) bool {
		if ie, ok := n.(*ast.IndexExpr); ok && printNode(p.fset, ie.X) == base {
			if v, err := evalConst(dir, ie.Index, 0); err == nil {
				seq = append(seq, strconv.FormatInt(v.i, 10))
			} else {
				bad = true
			}
		}
		return true
	})
	if bad {
		o.brokenDef(coqName, "non-constant index on "+base+" in "+name)
		return
	}
	o.f("Definition %s : list Z := [%s]. (* %s:%s.%s constant indexes applied to %s *)\n", coqName, strings.Join(seq, "; "), dir, recv, name, base)
}

var c07ArgClass = map[string]int{
	"cert.Signer()": 1, "cert.Chain()": 2, "cert.Certificates": 3, "cert.Leaf": 4, "cert.PgpKey": 5, "cert.PgpKey.PrivateKey": 6,
	"cert.Leaf.RawSubjectPublicKeyInfo": 7, "cert.Leaf.PublicKey": 8, "cert.PrivateKey": 9,
}

// site emits, for every call to `callee` (or method call ending in .callee) inside the function, the classes of the
// arguments at positions `pos` (flattened).  A method call `X.Sign(...)` with pos -1 reports the class of the receiver X.
func c07Site(o *out, dir, recv, name, callee, coqName string, pos []int) {
	p, fd := findFunc(dir, recv, name)
	if fd == nil {
		o.brokenDef(coqName, "function "+dir+":"+recv+"."+name+" not found")
		return
	}
	var seq, txt []string
	ast.Inspect(fd.Body, func(n ast.Node) bool {
		ce, ok := n.(*ast.CallExpr)
		if !ok {
			return true
		}
		fn := printNode(p.fset, ce.Fun)
		if fn != callee && !strings.HasSuffix(fn, "."+callee) {
			return true
		}
		for _, k := range pos {
			var a string
			if k == -1 {
				// private-key operations only: X.Sign(rand.Reader, ...)
				se, ok := ce.Fun.(*ast.SelectorExpr)
				if !ok || len(ce.Args) == 0 || printNode(p.fset, ce.Args[0]) != "rand.Reader" {
					continue
				}
				a = printNode(p.fset, se.X)
			} else if k < len(ce.Args) {
				a = printNode(p.fset, ce.Args[k])
			} else {
				a = "<missing>"
			}
			code, ok := c07ArgClass[a]
			if !ok {
				code = 99
			}
			seq = append(seq, strconv.Itoa(code))
			txt = append(txt, a)
		}
		return true
	})
	o.f("Definition %s : list Z := [%s]. (* %s:%s.%s %s(...): %s *)\n", coqName, strings.Join(seq, "; "), dir, recv, name, callee, strings.Join(txt, ", "))
}

// rangeSource: the class of the expression ranged over by the nth `for ... := range <expr>` whose body mentions marker.
func c07RangeSource(o *out, dir, recv, name, marker, coqName string) {
	p, fd := findFunc(dir, recv, name)
	if fd == nil {
		o.brokenDef(coqName, "function "+name+" not found")
		return
	}
	code, txt := 0, ""
	ast.Inspect(fd.Body, func(n ast.Node) bool {
		rs, ok := n.(*ast.RangeStmt)
		if ok && code == 0 && strings.Contains(printNode(p.fset, rs.Body), marker) {
			txt = printNode(p.fset, rs.X)
			c, ok := c07ArgClass[txt]
			if !ok {
				c = 99
			}
			code = c
		}
		return true
	})
	if code == 0 {
		o.brokenDef(coqName, "no range loop mentioning "+marker+" in "+name)
		return
	}
	o.f("Definition %s : Z := %d. (* %s:%s.%s ranges over %s *)\n", coqName, code, dir, recv, name, txt)
}

// fieldSource: class of the value given to composite-literal field `field` inside the function.
func c07FieldSource(o *out, dir, recv, name, field, coqName string) {
	p, fd := findFunc(dir, recv, name)
	if fd == nil {
		o.brokenDef(coqName, "function "+name+" not found")
		return
	}
	code, txt := 0, ""
	ast.Inspect(fd.Body, func(n ast.Node) bool {
		kv, ok := n.(*ast.KeyValueExpr)
		if ok && code == 0 && printNode(p.fset, kv.Key) == field {
			txt = printNode(p.fset, kv.Value)
			c, ok := c07ArgClass[txt]
			if !ok {
				c = 99
			}
			code = c
		}
		return true
	})
	if code == 0 {
		o.brokenDef(coqName, "no field "+field+" in "+name)
		return
	}
	o.f("Definition %s : Z := %d. (* %s:%s.%s %s: %s *)\n", coqName, code, dir, recv, name, field, txt)
}

func init() {
	generators["C07_gen"] = func(o *out) {
		c07SameKey(o)
		const cl = "lib/certloader"
		c07LeafIndex(o, "parseCertificates", "parse_pem_leaf_index")
		c07LeafIndex(o, "parseCertificatesDer", "parse_der_leaf_index")
		o.constInt(cl, "asn1Magic", "asn1_magic")
		// ---- LoadTokenCertificates
		sk := map[string]string{"x509tools.SameKey": "same_key"}
		ll := map[string]string{"key": "key", "cert.Leaf.PublicKey": "leaf_pub", "priv.PublicKey.PublicKey": "pgp_pub",
			"x509cert": "x509cert", "len(x509contents)": "(zlen x509contents)", "pgpcert": "pgpcert", "len(keyring)": "n_entities"}
		lt := map[string]string{"x509cert": "str", "pgpcert": "str", "x509tools.SameKey()": "bool"}
		c07CaseCond(o, funcSpec{dir: cl, name: "LoadTokenCertificates", coqName: "load_case_file",
			params: "(x509cert : bytes)", retType: "bool", leaves: ll, types: lt}, 0)
		c07CaseCond(o, funcSpec{dir: cl, name: "LoadTokenCertificates", coqName: "load_case_blob",
			params: "(x509contents : bytes)", retType: "bool", leaves: ll, types: lt}, 1)
		o.condOf(funcSpec{dir: cl, name: "LoadTokenCertificates", coqName: "load_x509_mismatch",
			params: "{K : Type} (same_key : K -> K -> bool) (key leaf_pub : K)", retType: "bool", leaves: ll, types: lt, calls: sk}, "if:cert.Leaf")
		o.condOf(funcSpec{dir: cl, name: "LoadTokenCertificates", coqName: "load_has_pgp",
			params: "(pgpcert : bytes)", retType: "bool", leaves: ll, types: lt}, "if:pgpcert")
		o.condOf(funcSpec{dir: cl, name: "LoadTokenCertificates", coqName: "load_pgp_count_bad",
			params: "(n_entities : Z)", retType: "bool", leaves: ll, types: lt}, "if:len(keyring)")
		o.condOf(funcSpec{dir: cl, name: "LoadTokenCertificates", coqName: "load_pgp_mismatch",
			params: "{K : Type} (same_key : K -> K -> bool) (key pgp_pub : K)", retType: "bool", leaves: ll, types: lt, calls: sk}, "if:priv.PublicKey")
		o.hasStmt(cl, "", "LoadTokenCertificates", "cert.PrivateKey = key", "load_sets_private_key")
		o.hasStmt(cl, "", "LoadTokenCertificates", "entity := keyring[0]", "load_pgp_first_entity")
		o.hasStmt(cl, "", "LoadTokenCertificates", "cert.PgpKey = entity", "load_sets_pgp_key")
		o.condOf(funcSpec{dir: cl, name: "LoadX509KeyPair", coqName: "loadpair_mismatch",
			params: "{K : Type} (same_key : K -> K -> bool) (key leaf_pub : K)", retType: "bool", leaves: ll, types: lt, calls: sk}, "if:cert.Leaf")
		// ---- Chain
		chl := map[string]string{"s.Leaf != nil": "has_leaf", "i": "i", "cert.RawIssuer": "iss", "cert.RawSubject": "subj", "cert": "cid", "s.Leaf": "leaf_id"}
		cht := map[string]string{"s.Leaf != nil": "bool", "bytes.Equal()": "bool"}
		chc := map[string]string{"bytes.Equal": "Z.eqb"}
		o.condOf(funcSpec{dir: cl, recv: "Certificate", name: "Chain", coqName: "chain_leaf_first",
			params: "(has_leaf : bool)", retType: "bool", leaves: chl, types: cht, calls: chc}, "if:s.Leaf != nil")
		o.condOf(funcSpec{dir: cl, recv: "Certificate", name: "Chain", coqName: "chain_skip_root",
			params: "(i iss subj : Z)", retType: "bool", leaves: chl, types: cht, calls: chc}, "if:cert.RawIssuer")
		o.condOf(funcSpec{dir: cl, recv: "Certificate", name: "Chain", coqName: "chain_skip_leaf",
			params: "(cid leaf_id : Z)", retType: "bool", leaves: chl, types: cht, calls: chc}, "if:cert == s.Leaf")
		// ---- pkcs7 builder
		const p7 = "lib/pkcs7"
		bl := map[string]string{"len(sb.certs)": "ncerts", "pubKey": "pubkey", "sb.certs[0].PublicKey": "cert0_pub"}
		o.condOf(funcSpec{dir: p7, recv: "SignatureBuilder", name: "Sign", coqName: "builder_refuses",
			params: "{K : Type} (same_key : K -> K -> bool) (ncerts : Z) (pubkey cert0_pub : K)", retType: "bool", leaves: bl,
			types: map[string]string{"x509tools.SameKey()": "bool"}, calls: sk}, "if:sb.certs")
		o.hasStmt(p7, "SignatureBuilder", "Sign", "pubKey := sb.privateKey.Public()", "builder_pub_from_signer")
		o.callOrder(p7, "SignatureBuilder", "Sign", "builder_call_order", []string{"SameKey", "sb.privateKey.Sign"})
		c07IndexUses(o, p7, "SignatureBuilder", "Sign", "sb.certs", "builder_cert_indexes")
		o.hasStmt(p7, "SignatureBuilder", "Sign", "sig, err := sb.privateKey.Sign(rand.Reader, digest, sb.signerOpts)", "builder_signs_with_own_key")
		// ---- xmldsig
		const xd = "lib/xmldsig"
		xl := map[string]string{"len(certs)": "ncerts", "pubKey": "pubkey", "certs[0].PublicKey": "cert0_pub"}
		for _, fn := range [][2]string{{"Sign", "xmldsig_sign"}, {"SignEnveloping", "xmldsig_env"}} {
			o.condOf(funcSpec{dir: xd, name: fn[0], coqName: fn[1] + "_refuses",
				params: "{K : Type} (same_key : K -> K -> bool) (ncerts : Z) (pubkey cert0_pub : K)", retType: "bool", leaves: xl,
				types: map[string]string{"x509tools.SameKey()": "bool"}, calls: sk}, "if:certs")
			o.hasStmt(xd, "", fn[0], "pubKey := privKey.Public()", fn[1]+"_pub_from_signer")
			o.callOrder(xd, "", fn[0], fn[1]+"_call_order", []string{"SameKey", "finishSignature"})
		}
		o.callOrder(xd, "", "finishSignature", "xmldsig_finish_calls", []string{"privKey.Sign", "addCerts"})
		// ---- signing sites: (private key source, certificate list source)
		o.f("(* argument classes: 1 cert.Signer()  2 cert.Chain()  3 cert.Certificates  4 cert.Leaf  5 cert.PgpKey  6 cert.PgpKey.PrivateKey\n   7 cert.Leaf.RawSubjectPublicKeyInfo  8 cert.Leaf.PublicKey  9 cert.PrivateKey  99 anything else *)\n")
		c07Site(o, "lib/authenticode", "", "signIndirect", "pkcs7.NewBuilder", "site_authenticode", []int{0, 1})
		c07Site(o, "lib/authenticode", "Catalog", "Sign", "pkcs7.NewBuilder", "site_catalog", []int{0, 1})
		c07Site(o, "signers/cat", "", "sign", "pkcs7.NewBuilder", "site_cat", []int{0, 1})
		c07Site(o, "lib/signjar", "JarDigest", "Sign", "pkcs7.NewBuilder", "site_jar", []int{0, 1})
		c07Site(o, "lib/fruit/csblob", "", "Sign", "pkcs7.NewBuilder", "site_csblob", []int{0, 1})
		c07Site(o, "lib/fruit/xar", "", "appendSignatures", "pkcs7.NewBuilder", "site_xar_cms", []int{0, 1})
		c07Site(o, "lib/fruit/xar", "", "appendSignatures", "Sign", "site_xar_classic_key", []int{-1})
		c07Site(o, "lib/fruit/xar", "", "Sign", "reserveSignatures", "site_xar_certs", []int{2})
		c07Site(o, "lib/appmanifest", "", "Sign", "xmldsig.Sign", "site_appmanifest", []int{3, 4})
		c07Site(o, "signers/vsix", "mangler", "makeSignature", "xmldsig.SignEnveloping", "site_vsix", []int{2, 3})
		c07Site(o, "signers/apk", "Digest", "Sign", "Sign", "site_apk_key", []int{-1})
		c07RangeSource(o, "signers/apk", "Digest", "Sign", "sd.Certificates", "site_apk_certs")
		c07FieldSource(o, "signers/apk", "Digest", "Sign", "PublicKey", "site_apk_pubkey")
		c07Site(o, "signers/cosign", "", "sign", "Sign", "site_cosign_key", []int{-1})
		c07RangeSource(o, "signers/cosign", "", "attachCertificates", "certificateAnnotationKey", "site_cosign_certs")
		c07Site(o, "signers/pgp", "", "sign", "sf", "site_pgp", []int{1})
		c07Site(o, "signers/deb", "", "sign", "signdeb.Sign", "site_deb", []int{1})
		c07Site(o, "signers/rpm", "", "sign", "rpmutils.SignRpmStream", "site_rpm", []int{1})
		// ---- key lookup
		const c = "config"
		gk := map[string]string{`keyConf.Alias != ""`: "has_alias", "!ok": "(negb found)"}
		gt := map[string]string{`keyConf.Alias != ""`: "bool", "!ok": "bool"}
		o.condOf(funcSpec{dir: c, recv: "Config", name: "GetKey", coqName: "cfg_missing",
			params: "(found : bool)", retType: "bool", leaves: gk, types: gt}, "ok", 0)
		o.condOf(funcSpec{dir: c, recv: "Config", name: "GetKey", coqName: "cfg_follow_alias",
			params: "(has_alias : bool)", retType: "bool", leaves: gk, types: gt}, "keyConf.Alias", 0)
		o.hasStmt(c, "Config", "GetKey", "keyConf, ok = config.Keys[alias]", "cfg_alias_one_level")
		const tc = "token/tokencache"
		tcl := map[string]string{"cached.key != nil": "has_cached", "cached.expires.After(time.Now())": "fresh",
			"len(wantKeyID)": "want_len", "bytes.Equal(wantKeyID, haveKeyID)": "ids_equal", "c.expiry": "expiry"}
		tct := map[string]string{"cached.key != nil": "bool", "cached.expires.After(time.Now())": "bool", "bytes.Equal(wantKeyID, haveKeyID)": "bool"}
		o.condOf(funcSpec{dir: tc, recv: "Cache", name: "GetKey", coqName: "tc_entry_live",
			params: "(has_cached fresh : bool)", retType: "bool", leaves: tcl, types: tct}, "cached.key")
		o.condOf(funcSpec{dir: tc, recv: "Cache", name: "GetKey", coqName: "tc_id_acceptable",
			params: "(want_len : Z) (ids_equal : bool)", retType: "bool", leaves: tcl, types: tct}, "haveKeyID")
		o.condOf(funcSpec{dir: tc, recv: "Cache", name: "GetKey", coqName: "tc_may_store",
			params: "(expiry want_len : Z)", retType: "bool", leaves: tcl, types: tct}, "c.expiry")
		o.hasStmt(tc, "Cache", "GetKey", "cached := c.keys[keyName]", "tc_lookup_by_name")
		o.hasStmt(tc, "Cache", "GetKey", "key, err := c.Token.GetKey(ctx, keyName)", "tc_fetch_by_name")
		// signinit.InitKey: which configuration the certificates are read from
		c07SiteInit(o)
		for _, fn := range [][3]string{{"lib/x509tools", "", "SameKey"}, {cl, "", "LoadTokenCertificates"}, {cl, "", "LoadX509KeyPair"},
			{cl, "", "parseCertificates"}, {cl, "", "parseCertificatesDer"}, {cl, "Certificate", "Chain"}, {cl, "", "ParsePKCS12"},
			{p7, "SignatureBuilder", "Sign"}, {xd, "", "Sign"}, {xd, "", "SignEnveloping"}, {xd, "", "finishSignature"},
			{"internal/signinit", "", "InitKey"}, {"internal/signinit", "", "Init"}, {"token/filetoken", "fileToken", "GetKey"},
			{"signers/apk", "Digest", "Sign"}, {"lib/fruit/xar", "", "appendSignatures"}, {"signers/cosign", "", "sign"},
			{"signers/cosign", "", "attachCertificates"}, {tc, "Cache", "GetKey"}} {
			fingerprint(fn[0], fn[1], fn[2])
		}
	}
}

// InitKey: LoadTokenCertificates(key, kconf.X509Certificate, kconf.PgpCertificate, key.Certificate()) with kconf := key.Config()
func c07SiteInit(o *out) {
	const d = "internal/signinit"
	p, fd := findFunc(d, "", "InitKey")
	if fd == nil {
		o.brokenDef("initkey_args", "InitKey not found")
		return
	}
	cls := map[string]int{"key": 1, "kconf.X509Certificate": 2, "kconf.PgpCertificate": 3, "key.Certificate()": 4}
	var seq, txt []string
	ast.Inspect(fd.Body, func(n ast.Node) bool {
		ce, ok := n.(*ast.CallExpr)
		if ok && printNode(p.fset, ce.Fun) == "certloader.LoadTokenCertificates" {
			for _, a := range ce.Args {
				s := printNode(p.fset, a)
				c, ok := cls[s]
				if !ok {
					c = 99
				}
				seq = append(seq, strconv.Itoa(c))
				txt = append(txt, s)
			}
		}
		return true
	})
	o.f("Definition initkey_args : list Z := [%s]. (* InitKey: LoadTokenCertificates(%s) *)\n", strings.Join(seq, "; "), strings.Join(txt, ", "))
	o.hasStmt(d, "", "InitKey", "kconf := key.Config()", "initkey_conf_from_key")
	o.hasStmt(d, "", "InitKey", "key, err := tok.GetKey(ctx, keyName)", "initkey_key_by_name")
	o.hasStmt("token/filetoken", "fileToken", "GetKey", "keyConf, err := tok.config.GetKey(keyName)", "filetoken_conf_by_name")
	o.hasStmt("token/filetoken", "fileToken", "GetKey", "blob, err := ioutil.ReadFile(keyConf.KeyFile)", "filetoken_reads_conf_keyfile")
}
