package main

// C07 — signatures only under a certificate that matches the key.
//
// Generated items (coq/Generated/C07_gen.v):
//   * SameKey: the two Signer normalisations, the type-switch case list and, per case, the asserted type of the
//     second operand and the translated comparison;
//   * parseCertificates / parseCertificatesDer: the index of the certificate that becomes Leaf;
//   * LoadTokenCertificates / LoadX509KeyPair: guard conditions (parametric in the key comparison);
//   * Certificate.Chain: the three branch conditions;
//   * pkcs7.SignatureBuilder.Sign, xmldsig.Sign, xmldsig.SignEnveloping: guard conditions, the order of guard and
//     private-key operation, the certificate index the SignerInfo names;
//   * per signing site: where the private key and the embedded certificates are taken from (argument classes);
//   * config.GetKey / tokencache.GetKey conditions used by the key-lookup model;
//   * history inside a long-lived process (C07/History.v): inventory of package-level variables of internal/signinit,
//     lib/certloader, signers (+ the signer packages without a second guard), token/tokencache, token/filetoken; field
//     lists of the long-lived objects (tokencache.Cache, cachedKey, fileToken, fileKey, certloader.Certificate); data-flow tables: on every path of InitKey / Init the returned bundle is the one
//     LoadTokenCertificates / InitKey produced in THIS invocation, and in serveSign / signCmd the bundle given to
//     mod.Sign is the one signinit.Init returned in this request; the certificate-type conditions of Init and the
//     CertTypes of every signer.

import (
	"fmt"
	"go/ast"
	"go/token"
	"os"
	"path/filepath"
	"strconv"
	"strings"
)

// typeSwitchCases translates `switch key1 := pub1.(type) { case *T: key2, ok := pub2.(*U); return <expr> ... default: return <lit> }`.
func c07SameKey(o *out) {
	const d = "lib/x509tools"
	p, fd := findFunc(d, "", "SameKey")
	if fd == nil {
		o.brokenDef("same_key_cases", "function SameKey not found")
		return
	}
	typeCode := map[string]int{"*rsa.PublicKey": 1, "*ecdsa.PublicKey": 2, "ed25519.PublicKey": 3, "*ed25519.PublicKey": 3}
	// normalisations
	norm := map[string]bool{}
	var ts *ast.TypeSwitchStmt
	for _, st := range fd.Body.List {
		switch x := st.(type) {
		case *ast.IfStmt:
			if x.Init == nil {
				o.brokenDef("same_key_cases", "unexpected if in SameKey")
				return
			}
			init := strings.Join(strings.Fields(printNode(p.fset, x.Init)), " ")
			body := ""
			if len(x.Body.List) == 1 {
				body = strings.Join(strings.Fields(printNode(p.fset, x.Body.List[0])), " ")
			}
			cond := printNode(p.fset, x.Cond)
			for _, v := range []string{"pub1", "pub2"} {
				if init == "privkey, ok := "+v+".(crypto.Signer)" && cond == "ok" && body == v+" = privkey.Public()" {
					norm[v] = true
				}
			}
		case *ast.TypeSwitchStmt:
			ts = x
		default:
			o.brokenDef("same_key_cases", "unexpected statement in SameKey: "+printNode(p.fset, st))
			return
		}
	}
	o.f("Definition same_key_norm1 : bool := %v. (* pub1 is replaced by privkey.Public() when it is a crypto.Signer *)\n", norm["pub1"])
	o.f("Definition same_key_norm2 : bool := %v. (* pub2 likewise *)\n", norm["pub2"])
	if ts == nil {
		o.brokenDef("same_key_cases", "no type switch in SameKey")
		return
	}
	if as := strings.Join(strings.Fields(printNode(p.fset, ts.Assign)), " "); as != "key1 := pub1.(type)" {
		o.brokenDef("same_key_cases", "type switch is not on pub1: "+as)
		return
	}
	var cases []string
	deflt := "false"
	emitted := map[int]bool{}
	for _, c := range ts.Body.List {
		cc := c.(*ast.CaseClause)
		if cc.List == nil {
			if len(cc.Body) == 1 {
				if r, ok := cc.Body[0].(*ast.ReturnStmt); ok && len(r.Results) == 1 {
					deflt = printNode(p.fset, r.Results[0])
				}
			}
			continue
		}
		if len(cc.List) != 1 || len(cc.Body) != 2 {
			o.brokenDef("same_key_cases", "unexpected case shape in SameKey")
			return
		}
		tname := printNode(p.fset, cc.List[0])
		code, ok := typeCode[tname]
		if !ok {
			o.brokenDef("same_key_cases", "unknown key type in SameKey: "+tname)
			return
		}
		as, ok1 := cc.Body[0].(*ast.AssignStmt)
		ret, ok2 := cc.Body[1].(*ast.ReturnStmt)
		if !ok1 || !ok2 || len(ret.Results) != 1 || len(as.Rhs) != 1 {
			o.brokenDef("same_key_cases", "unexpected case body in SameKey")
			return
		}
		ta, ok := as.Rhs[0].(*ast.TypeAssertExpr)
		if !ok || printNode(p.fset, ta.X) != "pub2" || strings.Join(strings.Fields(printNode(p.fset, as.Lhs[0])+","+printNode(p.fset, as.Lhs[1])), "") != "key2,ok" {
			o.brokenDef("same_key_cases", "case does not assert the type of pub2")
			return
		}
		other, ok := typeCode[printNode(p.fset, ta.Type)]
		if !ok {
			other = 99
		}
		cases = append(cases, strconv.Itoa(code))
		emitted[code] = true
		fs := funcSpec{dir: d, name: "SameKey"}
		switch code {
		case 1:
			fs.leaves = map[string]string{"ok": "ok", "key1.E": "e1", "key2.E": "e2", "key1.N.Cmp(key2.N)": "(zcmp n1 n2)", "key2.N.Cmp(key1.N)": "(zcmp n2 n1)"}
			fs.types = map[string]string{"ok": "bool"}
			t := o.newTr(p, fs)
			e := t.expr(ret.Results[0])
			if t.err != nil {
				o.brokenDef("same_key_rsa", t.err.Error())
			} else {
				o.f("Definition same_key_rsa (zcmp : Z -> Z -> Z) (ok : bool) (n1 e1 n2 e2 : Z) : bool :=\n  %s.\n(* case %s: return %s *)\n", e, tname, printNode(p.fset, ret.Results[0]))
			}
			o.f("Definition same_key_rsa_other : Z := %d. (* type asserted for pub2 in the RSA case *)\n", other)
		case 2:
			fs.leaves = map[string]string{"ok": "ok", "key1.X.Cmp(key2.X)": "(zcmp x1 x2)", "key1.Y.Cmp(key2.Y)": "(zcmp y1 y2)",
				"key2.X.Cmp(key1.X)": "(zcmp x2 x1)", "key2.Y.Cmp(key1.Y)": "(zcmp y2 y1)",
				"key1.Curve == key2.Curve": "(c1 =? c2)", "key1.Curve != key2.Curve": "(negb (c1 =? c2))"}
			fs.types = map[string]string{"ok": "bool", "key1.Curve == key2.Curve": "bool", "key1.Curve != key2.Curve": "bool"}
			t := o.newTr(p, fs)
			e := t.expr(ret.Results[0])
			if t.err != nil {
				o.brokenDef("same_key_ec", t.err.Error())
			} else {
				o.f("Definition same_key_ec (zcmp : Z -> Z -> Z) (ok : bool) (c1 x1 y1 c2 x2 y2 : Z) : bool :=\n  %s.\n(* case %s: return %s *)\n", e, tname, printNode(p.fset, ret.Results[0]))
			}
			o.f("Definition same_key_ec_other : Z := %d. (* type asserted for pub2 in the ECDSA case *)\n", other)
		default:
			o.brokenDef("same_key_cases", "no translation for key type "+tname)
		}
	}
	if !emitted[1] {
		o.f("Definition same_key_rsa (zcmp : Z -> Z -> Z) (ok : bool) (n1 e1 n2 e2 : Z) : bool := false. (* no RSA case *)\nDefinition same_key_rsa_other : Z := 0.\n")
	}
	if !emitted[2] {
		o.f("Definition same_key_ec (zcmp : Z -> Z -> Z) (ok : bool) (c1 x1 y1 c2 x2 y2 : Z) : bool := false. (* no ECDSA case *)\nDefinition same_key_ec_other : Z := 0.\n")
	}
	o.f("Definition same_key_cases : list Z := [%s]. (* type switch cases: 1 *rsa.PublicKey, 2 *ecdsa.PublicKey *)\n", strings.Join(cases, "; "))
	if deflt != "true" && deflt != "false" {
		o.brokenDef("same_key_default", "default case does not return a literal")
		return
	}
	o.f("Definition same_key_default : bool := %s.\n", deflt)
}

// leafIndex: in function fn find the composite literal Certificate{Leaf: certs[K], Certificates: certs} and emit K;
// also records whether the Certificates field is the whole list.
func c07LeafIndex(o *out, fn, coqName string) {
	const d = "lib/certloader"
	p, fd := findFunc(d, "", fn)
	if fd == nil {
		o.brokenDef(coqName, "function "+fn+" not found")
		return
	}
	idx, whole, n := int64(-1), false, 0
	ast.Inspect(fd.Body, func(nd ast.Node) bool {
		cl, ok := nd.(*ast.CompositeLit)
		if !ok || printNode(p.fset, cl.Type) != "Certificate" {
			return true
		}
		for _, el := range cl.Elts {
			kv, ok := el.(*ast.KeyValueExpr)
			if !ok {
				continue
			}
			switch printNode(p.fset, kv.Key) {
			case "Leaf":
				n++
				if ie, ok := kv.Value.(*ast.IndexExpr); ok && printNode(p.fset, ie.X) == "certs" {
					if v, err := evalConst(d, ie.Index, 0); err == nil {
						idx = v.i
					}
				}
			case "Certificates":
				whole = printNode(p.fset, kv.Value) == "certs"
			}
		}
		return true
	})
	if n != 1 || idx < 0 {
		o.brokenDef(coqName, fmt.Sprintf("%s: expected exactly one Certificate{Leaf: certs[const]} literal (found %d)", fn, n))
		return
	}
	o.f("Definition %s : Z := %d. (* %s: Leaf: certs[%d] *)\n", coqName, idx, fn, idx)
	o.f("Definition %s_whole : bool := %v. (* %s: Certificates: certs *)\n", coqName, whole, fn)
}

// caseCond translates the nth case expression of the first tagless switch in the function.
func c07CaseCond(o *out, fs funcSpec, nth int) {
	p, fd := findFunc(fs.dir, fs.recv, fs.name)
	if fd == nil {
		o.brokenDef(fs.coqName, "function "+fs.name+" not found")
		return
	}
	var sw *ast.SwitchStmt
	ast.Inspect(fd.Body, func(n ast.Node) bool {
		if s, ok := n.(*ast.SwitchStmt); ok && sw == nil && s.Tag == nil {
			sw = s
		}
		return sw == nil
	})
	if sw == nil || len(sw.Body.List) <= nth {
		o.brokenDef(fs.coqName, "no tagless switch with enough cases in "+fs.name)
		return
	}
	cc := sw.Body.List[nth].(*ast.CaseClause)
	if len(cc.List) != 1 {
		o.brokenDef(fs.coqName, "case is not a single expression")
		return
	}
	t := o.newTr(p, fs)
	e := t.expr(cc.List[0])
	if t.err != nil {
		o.brokenDef(fs.coqName, t.err.Error())
		return
	}
	ft := false
	if len(cc.Body) > 0 {
		if b, ok := cc.Body[len(cc.Body)-1].(*ast.BranchStmt); ok && b.Tok == token.FALLTHROUGH {
			ft = true
		}
	}
	o.f("Definition %s %s : %s :=\n  %s.\n(* from %s:%s switch case %d: %s *)\n", fs.coqName, fs.params, fs.retType, e, fs.dir, fs.name, nth, printNode(p.fset, cc.List[0]))
	o.f("Definition %s_fallthrough : bool := %v.\n", fs.coqName, ft)
}

// indexUses lists the constant indexes applied to expression `base` inside the function, in source order.
func c07IndexUses(o *out, dir, recv, name, base, coqName string) {
	p, fd := findFunc(dir, recv, name)
	if fd == nil {
		o.brokenDef(coqName, "function "+name+" not found")
		return
	}
	var seq []string
	bad := false
	ast.Inspect(fd.Body, func(n ast.Node) bool {
		if ie, ok := n.(*ast.IndexExpr); ok && printNode(p.fset, ie.X) == base {
			if v, err := evalConst(dir, ie.Index, 0); err == nil {
				seq = append(seq, strconv.FormatInt(v.i, 10))
			} else {
				bad = true
			}
		}
		return true
	})
	if bad {
		o.brokenDef(coqName, "non-constant index on "+base+" in "+name)
		return
	}
	o.f("Definition %s : list Z := [%s]. (* %s:%s.%s constant indexes applied to %s *)\n", coqName, strings.Join(seq, "; "), dir, recv, name, base)
}

var c07ArgClass = map[string]int{
	"cert.Signer()": 1, "cert.Chain()": 2, "cert.Certificates": 3, "cert.Leaf": 4, "cert.PgpKey": 5, "cert.PgpKey.PrivateKey": 6,
	"cert.Leaf.RawSubjectPublicKeyInfo": 7, "cert.Leaf.PublicKey": 8, "cert.PrivateKey": 9,
	"signer.PrivateKey": 10, "signer": 11,
}

// site emits, for every call to `callee` (or method call ending in .callee) inside the function, the classes of the
// arguments at positions `pos` (flattened).  A method call `X.Sign(...)` with pos -1 reports the class of the receiver X.
func c07Site(o *out, dir, recv, name, callee, coqName string, pos []int) {
	p, fd := findFunc(dir, recv, name)
	if fd == nil {
		o.brokenDef(coqName, "function "+dir+":"+recv+"."+name+" not found")
		return
	}
	var seq, txt []string
	ast.Inspect(fd.Body, func(n ast.Node) bool {
		ce, ok := n.(*ast.CallExpr)
		if !ok {
			return true
		}
		fn := printNode(p.fset, ce.Fun)
		if fn != callee && !strings.HasSuffix(fn, "."+callee) {
			return true
		}
		for _, k := range pos {
			var a string
			if k == -1 {
				// private-key operations only: X.Sign(rand.Reader, ...)
				se, ok := ce.Fun.(*ast.SelectorExpr)
				if !ok || len(ce.Args) == 0 || printNode(p.fset, ce.Args[0]) != "rand.Reader" {
					continue
				}
				a = printNode(p.fset, se.X)
			} else if k < len(ce.Args) {
				a = printNode(p.fset, ce.Args[k])
			} else {
				a = "<missing>"
			}
			code, ok := c07ArgClass[a]
			if !ok {
				code = 99
			}
			seq = append(seq, strconv.Itoa(code))
			txt = append(txt, a)
		}
		return true
	})
	o.f("Definition %s : list Z := [%s]. (* %s:%s.%s %s(...): %s *)\n", coqName, strings.Join(seq, "; "), dir, recv, name, callee, strings.Join(txt, ", "))
}

// rangeSource: the class of the expression ranged over by the nth `for ... := range <expr>` whose body mentions marker.
func c07RangeSource(o *out, dir, recv, name, marker, coqName string) {
	p, fd := findFunc(dir, recv, name)
	if fd == nil {
		o.brokenDef(coqName, "function "+name+" not found")
		return
	}
	code, txt := 0, ""
	ast.Inspect(fd.Body, func(n ast.Node) bool {
		rs, ok := n.(*ast.RangeStmt)
		if ok && code == 0 && strings.Contains(printNode(p.fset, rs.Body), marker) {
			txt = printNode(p.fset, rs.X)
			c, ok := c07ArgClass[txt]
			if !ok {
				c = 99
			}
			code = c
		}
		return true
	})
	if code == 0 {
		o.brokenDef(coqName, "no range loop mentioning "+marker+" in "+name)
		return
	}
	o.f("Definition %s : Z := %d. (* %s:%s.%s ranges over %s *)\n", coqName, code, dir, recv, name, txt)
}

// fieldSource: class of the value given to composite-literal field `field` inside the function.
func c07FieldSource(o *out, dir, recv, name, field, coqName string) {
	p, fd := findFunc(dir, recv, name)
	if fd == nil {
		o.brokenDef(coqName, "function "+name+" not found")
		return
	}
	code, txt := 0, ""
	ast.Inspect(fd.Body, func(n ast.Node) bool {
		kv, ok := n.(*ast.KeyValueExpr)
		if ok && code == 0 && printNode(p.fset, kv.Key) == field {
			txt = printNode(p.fset, kv.Value)
			c, ok := c07ArgClass[txt]
			if !ok {
				c = 99
			}
			code = c
		}
		return true
	})
	if code == 0 {
		o.brokenDef(coqName, "no field "+field+" in "+name)
		return
	}
	o.f("Definition %s : Z := %d. (* %s:%s.%s %s: %s *)\n", coqName, code, dir, recv, name, field, txt)
}

func init() {
	generators["C07_gen"] = func(o *out) {
		c07SameKey(o)
		const cl = "lib/certloader"
		c07LeafIndex(o, "parseCertificates", "parse_pem_leaf_index")
		c07LeafIndex(o, "parseCertificatesDer", "parse_der_leaf_index")
		o.constInt(cl, "asn1Magic", "asn1_magic")
		// ---- LoadTokenCertificates
		sk := map[string]string{"x509tools.SameKey": "same_key"}
		ll := map[string]string{"key": "key", "cert.Leaf.PublicKey": "leaf_pub", "priv.PublicKey.PublicKey": "pgp_pub",
			"x509cert": "x509cert", "len(x509contents)": "(zlen x509contents)", "pgpcert": "pgpcert", "len(keyring)": "n_entities"}
		lt := map[string]string{"x509cert": "str", "pgpcert": "str", "x509tools.SameKey()": "bool"}
		c07CaseCond(o, funcSpec{dir: cl, name: "LoadTokenCertificates", coqName: "load_case_file",
			params: "(x509cert : bytes)", retType: "bool", leaves: ll, types: lt}, 0)
		c07CaseCond(o, funcSpec{dir: cl, name: "LoadTokenCertificates", coqName: "load_case_blob",
			params: "(x509contents : bytes)", retType: "bool", leaves: ll, types: lt}, 1)
		o.condOf(funcSpec{dir: cl, name: "LoadTokenCertificates", coqName: "load_x509_mismatch",
			params: "{K : Type} (same_key : K -> K -> bool) (key leaf_pub : K)", retType: "bool", leaves: ll, types: lt, calls: sk}, "if:cert.Leaf")
		o.condOf(funcSpec{dir: cl, name: "LoadTokenCertificates", coqName: "load_has_pgp",
			params: "(pgpcert : bytes)", retType: "bool", leaves: ll, types: lt}, "if:pgpcert")
		o.condOf(funcSpec{dir: cl, name: "LoadTokenCertificates", coqName: "load_pgp_count_bad",
			params: "(n_entities : Z)", retType: "bool", leaves: ll, types: lt}, "if:len(keyring)")
		o.condOf(funcSpec{dir: cl, name: "LoadTokenCertificates", coqName: "load_pgp_mismatch",
			params: "{K : Type} (same_key : K -> K -> bool) (key pgp_pub : K)", retType: "bool", leaves: ll, types: lt, calls: sk}, "if:priv.PublicKey")
		o.hasStmt(cl, "", "LoadTokenCertificates", "cert.PrivateKey = key", "load_sets_private_key")
		o.hasStmt(cl, "", "LoadTokenCertificates", "entity := keyring[0]", "load_pgp_first_entity")
		o.hasStmt(cl, "", "LoadTokenCertificates", "cert.PgpKey = entity", "load_sets_pgp_key")
		o.condOf(funcSpec{dir: cl, name: "LoadX509KeyPair", coqName: "loadpair_mismatch",
			params: "{K : Type} (same_key : K -> K -> bool) (key leaf_pub : K)", retType: "bool", leaves: ll, types: lt, calls: sk}, "if:cert.Leaf")
		// ---- Chain
		chl := map[string]string{"s.Leaf != nil": "has_leaf", "i": "i", "cert.RawIssuer": "iss", "cert.RawSubject": "subj", "cert": "cid", "s.Leaf": "leaf_id"}
		cht := map[string]string{"s.Leaf != nil": "bool", "bytes.Equal()": "bool"}
		chc := map[string]string{"bytes.Equal": "Z.eqb"}
		o.condOf(funcSpec{dir: cl, recv: "Certificate", name: "Chain", coqName: "chain_leaf_first",
			params: "(has_leaf : bool)", retType: "bool", leaves: chl, types: cht, calls: chc}, "if:s.Leaf != nil")
		o.condOf(funcSpec{dir: cl, recv: "Certificate", name: "Chain", coqName: "chain_skip_root",
			params: "(i iss subj : Z)", retType: "bool", leaves: chl, types: cht, calls: chc}, "if:cert.RawIssuer")
		o.condOf(funcSpec{dir: cl, recv: "Certificate", name: "Chain", coqName: "chain_skip_leaf",
			params: "(cid leaf_id : Z)", retType: "bool", leaves: chl, types: cht, calls: chc}, "if:cert == s.Leaf")
		// ---- pkcs7 builder
		const p7 = "lib/pkcs7"
		bl := map[string]string{"len(sb.certs)": "ncerts", "pubKey": "pubkey", "sb.certs[0].PublicKey": "cert0_pub"}
		o.condOf(funcSpec{dir: p7, recv: "SignatureBuilder", name: "Sign", coqName: "builder_refuses",
			params: "{K : Type} (same_key : K -> K -> bool) (ncerts : Z) (pubkey cert0_pub : K)", retType: "bool", leaves: bl,
			types: map[string]string{"x509tools.SameKey()": "bool"}, calls: sk}, "if:sb.certs")
		o.hasStmt(p7, "SignatureBuilder", "Sign", "pubKey := sb.privateKey.Public()", "builder_pub_from_signer")
		o.callOrder(p7, "SignatureBuilder", "Sign", "builder_call_order", []string{"SameKey", "sb.privateKey.Sign"})
		c07IndexUses(o, p7, "SignatureBuilder", "Sign", "sb.certs", "builder_cert_indexes")
		o.hasStmt(p7, "SignatureBuilder", "Sign", "sig, err := sb.privateKey.Sign(rand.Reader, digest, sb.signerOpts)", "builder_signs_with_own_key")
		// ---- xmldsig
		const xd = "lib/xmldsig"
		xl := map[string]string{"len(certs)": "ncerts", "pubKey": "pubkey", "certs[0].PublicKey": "cert0_pub"}
		for _, fn := range [][2]string{{"Sign", "xmldsig_sign"}, {"SignEnveloping", "xmldsig_env"}} {
			o.condOf(funcSpec{dir: xd, name: fn[0], coqName: fn[1] + "_refuses",
				params: "{K : Type} (same_key : K -> K -> bool) (ncerts : Z) (pubkey cert0_pub : K)", retType: "bool", leaves: xl,
				types: map[string]string{"x509tools.SameKey()": "bool"}, calls: sk}, "if:certs")
			o.hasStmt(xd, "", fn[0], "pubKey := privKey.Public()", fn[1]+"_pub_from_signer")
			o.callOrder(xd, "", fn[0], fn[1]+"_call_order", []string{"SameKey", "finishSignature"})
		}
		o.callOrder(xd, "", "finishSignature", "xmldsig_finish_calls", []string{"privKey.Sign", "addCerts"})
		// ---- signing sites: (private key source, certificate list source)
		o.f("(* argument classes: 1 cert.Signer()  2 cert.Chain()  3 cert.Certificates  4 cert.Leaf  5 cert.PgpKey  6 cert.PgpKey.PrivateKey\n   7 cert.Leaf.RawSubjectPublicKeyInfo  8 cert.Leaf.PublicKey  9 cert.PrivateKey  99 anything else *)\n")
		c07Site(o, "lib/authenticode", "", "signIndirect", "pkcs7.NewBuilder", "site_authenticode", []int{0, 1})
		c07Site(o, "lib/authenticode", "Catalog", "Sign", "pkcs7.NewBuilder", "site_catalog", []int{0, 1})
		c07Site(o, "signers/cat", "", "sign", "pkcs7.NewBuilder", "site_cat", []int{0, 1})
		c07Site(o, "lib/signjar", "JarDigest", "Sign", "pkcs7.NewBuilder", "site_jar", []int{0, 1})
		c07Site(o, "lib/fruit/csblob", "", "Sign", "pkcs7.NewBuilder", "site_csblob", []int{0, 1})
		c07Site(o, "lib/fruit/xar", "", "appendSignatures", "pkcs7.NewBuilder", "site_xar_cms", []int{0, 1})
		c07Site(o, "lib/fruit/xar", "", "appendSignatures", "Sign", "site_xar_classic_key", []int{-1})
		c07Site(o, "lib/fruit/xar", "", "Sign", "reserveSignatures", "site_xar_certs", []int{2})
		c07Site(o, "lib/appmanifest", "", "Sign", "xmldsig.Sign", "site_appmanifest", []int{3, 4})
		c07Site(o, "signers/vsix", "mangler", "makeSignature", "xmldsig.SignEnveloping", "site_vsix", []int{2, 3})
		c07Site(o, "signers/apk", "Digest", "Sign", "Sign", "site_apk_key", []int{-1})
		c07RangeSource(o, "signers/apk", "Digest", "Sign", "sd.Certificates", "site_apk_certs")
		c07FieldSource(o, "signers/apk", "Digest", "Sign", "PublicKey", "site_apk_pubkey")
		c07Site(o, "signers/cosign", "", "sign", "Sign", "site_cosign_key", []int{-1})
		c07RangeSource(o, "signers/cosign", "", "attachCertificates", "certificateAnnotationKey", "site_cosign_certs")
		c07Site(o, "signers/pgp", "", "sign", "sf", "site_pgp", []int{1})
		c07Site(o, "signers/deb", "", "sign", "signdeb.Sign", "site_deb", []int{1})
		c07Site(o, "signers/rpm", "", "sign", "rpmutils.SignRpmStream", "site_rpm", []int{1})
		// ---- key lookup
		const c = "config"
		gk := map[string]string{`keyConf.Alias != ""`: "has_alias", "!ok": "(negb found)"}
		gt := map[string]string{`keyConf.Alias != ""`: "bool", "!ok": "bool"}
		o.condOf(funcSpec{dir: c, recv: "Config", name: "GetKey", coqName: "cfg_missing",
			params: "(found : bool)", retType: "bool", leaves: gk, types: gt}, "ok", 0)
		o.condOf(funcSpec{dir: c, recv: "Config", name: "GetKey", coqName: "cfg_follow_alias",
			params: "(has_alias : bool)", retType: "bool", leaves: gk, types: gt}, "keyConf.Alias", 0)
		o.hasStmt(c, "Config", "GetKey", "keyConf, ok = config.Keys[alias]", "cfg_alias_one_level")
		// (fix 1867fd2) the section an alias names must not be an alias itself
		o.condOf(funcSpec{dir: c, recv: "Config", name: "GetKey", coqName: "cfg_alias_chain_refused",
			params: "(has_alias : bool)", retType: "bool", leaves: gk, types: gt}, "keyConf.Alias", 1)
		const tc = "token/tokencache"
		tcl := map[string]string{"cached.key != nil": "has_cached", "cached.expires.After(time.Now())": "fresh",
			"len(wantKeyID)": "want_len", "bytes.Equal(wantKeyID, haveKeyID)": "ids_equal", "c.expiry": "expiry"}
		tct := map[string]string{"cached.key != nil": "bool", "cached.expires.After(time.Now())": "bool", "bytes.Equal(wantKeyID, haveKeyID)": "bool"}
		o.condOf(funcSpec{dir: tc, recv: "Cache", name: "GetKey", coqName: "tc_entry_live",
			params: "(has_cached fresh : bool)", retType: "bool", leaves: tcl, types: tct}, "cached.key")
		o.condOf(funcSpec{dir: tc, recv: "Cache", name: "GetKey", coqName: "tc_id_acceptable",
			params: "(want_len : Z) (ids_equal : bool)", retType: "bool", leaves: tcl, types: tct}, "haveKeyID")
		o.condOf(funcSpec{dir: tc, recv: "Cache", name: "GetKey", coqName: "tc_may_store",
			params: "(expiry want_len : Z)", retType: "bool", leaves: tcl, types: tct}, "c.expiry")
		o.hasStmt(tc, "Cache", "GetKey", "cached := c.keys[keyName]", "tc_lookup_by_name")
		o.hasStmt(tc, "Cache", "GetKey", "key, err := c.Token.GetKey(ctx, keyName)", "tc_fetch_by_name")
		// signinit.InitKey: which configuration the certificates are read from
		c07SiteInit(o)
		c07History(o)
		c07Pgp(o)
		for _, fn := range [][3]string{{"lib/x509tools", "", "SameKey"}, {cl, "", "LoadTokenCertificates"}, {cl, "", "LoadX509KeyPair"},
			{cl, "", "parseCertificates"}, {cl, "", "parseCertificatesDer"}, {cl, "Certificate", "Chain"}, {cl, "", "ParsePKCS12"},
			{p7, "SignatureBuilder", "Sign"}, {xd, "", "Sign"}, {xd, "", "SignEnveloping"}, {xd, "", "finishSignature"},
			{"internal/signinit", "", "InitKey"}, {"internal/signinit", "", "Init"}, {"token/filetoken", "fileToken", "GetKey"},
			{"signers/apk", "Digest", "Sign"}, {"lib/fruit/xar", "", "appendSignatures"}, {"signers/cosign", "", "sign"},
			{"signers/cosign", "", "attachCertificates"}, {tc, "Cache", "GetKey"},
			{"server", "Server", "serveSign"}, {"cmdline/token", "", "signCmd"}, {tc, "", "New"}} {
			fingerprint(fn[0], fn[1], fn[2])
		}
	}
}

// InitKey: LoadTokenCertificates(key, kconf.X509Certificate, kconf.PgpCertificate, key.Certificate()) with kconf := key.Config()
func c07SiteInit(o *out) {
	const d = "internal/signinit"
	p, fd := findFunc(d, "", "InitKey")
	if fd == nil {
		o.brokenDef("initkey_args", "InitKey not found")
		return
	}
	cls := map[string]int{"key": 1, "kconf.X509Certificate": 2, "kconf.PgpCertificate": 3, "key.Certificate()": 4}
	var seq, txt []string
	ast.Inspect(fd.Body, func(n ast.Node) bool {
		ce, ok := n.(*ast.CallExpr)
		if ok && printNode(p.fset, ce.Fun) == "certloader.LoadTokenCertificates" {
			for _, a := range ce.Args {
				s := printNode(p.fset, a)
				c, ok := cls[s]
				if !ok {
					c = 99
				}
				seq = append(seq, strconv.Itoa(c))
				txt = append(txt, s)
			}
		}
		return true
	})
	o.f("Definition initkey_args : list Z := [%s]. (* InitKey: LoadTokenCertificates(%s) *)\n", strings.Join(seq, "; "), strings.Join(txt, ", "))
	o.hasStmt(d, "", "InitKey", "kconf := key.Config()", "initkey_conf_from_key")
	o.hasStmt(d, "", "InitKey", "key, err := tok.GetKey(ctx, keyName)", "initkey_key_by_name")
	o.hasStmt("token/filetoken", "fileToken", "GetKey", "keyConf, err := tok.config.GetKey(keyName)", "filetoken_conf_by_name")
	o.hasStmt("token/filetoken", "fileToken", "GetKey", "blob, err := ioutil.ReadFile(keyConf.KeyFile)", "filetoken_reads_conf_keyfile")
}

// ============================================================================ history inside a long-lived process

// kindOfType classifies the declared type / initialiser of a package-level variable or struct field:
//
//	1 sync primitive  2 map  3 slice/array  4 pointer  5 scalar (string, bool, numbers, time.Duration)
//	6 error value  7 metric / flag-set / reflect.Type handle  8 function  9 anything else (named struct or interface type)
func c07KindOfType(fset *token.FileSet, t ast.Expr) int {
	switch x := t.(type) {
	case *ast.MapType:
		return 2
	case *ast.ArrayType:
		return 3
	case *ast.StarExpr:
		return 4
	case *ast.FuncType:
		return 8
	case *ast.Ident:
		switch x.Name {
		case "string", "bool", "int", "uint", "int8", "int16", "int32", "int64", "uint8", "uint16", "uint32", "uint64", "byte", "rune", "float64", "uintptr":
			return 5
		case "error":
			return 6
		}
		return 9
	case *ast.SelectorExpr:
		s := printNode(fset, x)
		switch {
		case strings.HasPrefix(s, "sync."), strings.HasPrefix(s, "atomic."):
			return 1
		case s == "time.Duration":
			return 5
		case s == "asn1.ObjectIdentifier":
			return 3
		}
		return 9
	}
	return 9
}

func c07KindOfValue(fset *token.FileSet, v ast.Expr) int {
	switch x := v.(type) {
	case *ast.CompositeLit:
		if x.Type != nil {
			return c07KindOfType(fset, x.Type)
		}
	case *ast.UnaryExpr:
		if x.Op == token.AND {
			return 4
		}
	case *ast.BasicLit:
		return 5
	case *ast.FuncLit:
		return 8
	case *ast.CallExpr:
		fn := printNode(fset, x.Fun)
		switch {
		case fn == "make" && len(x.Args) > 0:
			return c07KindOfType(fset, x.Args[0])
		case fn == "errors.New" || fn == "fmt.Errorf":
			return 6
		case strings.HasPrefix(fn, "promauto.") || strings.HasPrefix(fn, "prometheus.") || strings.HasPrefix(fn, "reflect.") || strings.HasPrefix(fn, "pflag."):
			return 7
		case fn == "new":
			return 4
		}
		if at, ok := x.Fun.(*ast.ArrayType); ok { // conversion []byte("...")
			return c07KindOfType(fset, at)
		}
	}
	return 9
}

func sortedFileNames(p *pkgInfo) []string {
	var ns []string
	for n := range p.files {
		ns = append(ns, n)
	}
	// insertion sort: the package list is tiny and this file must not need another import
	for i := 1; i < len(ns); i++ {
		for j := i; j > 0 && ns[j] < ns[j-1]; j-- {
			ns[j], ns[j-1] = ns[j-1], ns[j]
		}
	}
	return ns
}

// c07PkgState: every package-level variable of the listed packages (files in name order, declarations in source order):
// (package path, name, kind).  Constants are not state and are not listed.
func c07PkgState(o *out, dirs []string, coqName string) {
	var items []string
	for _, d := range dirs {
		p := loadPkg(d)
		if len(p.files) == 0 {
			o.brokenDef(coqName, "package "+d+" has no files")
			return
		}
		for _, fn := range sortedFileNames(p) {
			for _, decl := range p.files[fn].Decls {
				gd, ok := decl.(*ast.GenDecl)
				if !ok || gd.Tok != token.VAR {
					continue
				}
				for _, sp := range gd.Specs {
					vs := sp.(*ast.ValueSpec)
					for i, n := range vs.Names {
						if n.Name == "_" {
							continue
						}
						kind := 9
						if vs.Type != nil {
							kind = c07KindOfType(p.fset, vs.Type)
						} else if len(vs.Values) > i {
							kind = c07KindOfValue(p.fset, vs.Values[i])
						}
						items = append(items, fmt.Sprintf("  (%s, %s, %d) (* %s.%s *)", bytesLit([]byte(d)), bytesLit([]byte(n.Name)), kind, d, n.Name))
					}
				}
			}
		}
	}
	o.f("(* kinds: 1 sync primitive  2 map  3 slice/array  4 pointer  5 scalar  6 error value  7 metric/flag-set/reflect handle  8 function  9 other *)\n")
	o.f("Definition %s : list (bytes * bytes * Z) := [\n%s\n].\n", coqName, joinCoqItems(items))
}

// joinCoqItems joins "  term (* comment *)" items with ";" placed before the comment
func joinCoqItems(items []string) string {
	for i, it := range items {
		if i == len(items)-1 {
			break
		}
		if k := strings.Index(it, " (* "); k >= 0 {
			items[i] = it[:k] + ";" + it[k:]
		} else {
			items[i] = it + ";"
		}
	}
	return strings.Join(items, "\n")
}

// c07Fields: the fields of a struct type, in order: (name, kind).  Embedded fields are listed under the type's name.
func c07Fields(o *out, dir, goName, coqName string) {
	p, st := findStruct(dir, goName)
	if st == nil {
		o.brokenDef(coqName, "struct "+dir+"."+goName+" not found")
		return
	}
	var items []string
	for _, f := range st.Fields.List {
		kind := c07KindOfType(p.fset, f.Type)
		names := []string{}
		for _, n := range f.Names {
			names = append(names, n.Name)
		}
		if len(names) == 0 {
			t := printNode(p.fset, f.Type)
			t = strings.TrimPrefix(t, "*")
			if k := strings.LastIndex(t, "."); k >= 0 {
				t = t[k+1:]
			}
			names = []string{t}
		}
		for _, n := range names {
			items = append(items, fmt.Sprintf("  (%s, %d) (* %s %s *)", bytesLit([]byte(n)), kind, n, strings.ReplaceAll(printNode(p.fset, f.Type), "*", "^")))
		}
	}
	o.f("Definition %s : list (bytes * Z) := [\n%s\n]. (* fields of %s.%s *)\n", coqName, joinCoqItems(items), dir, goName)
}

// ---- data flow of one variable through a function body
//
// c07Flow follows variable `v` through the (structured) body of a function.  `bound` is true at a program point iff on
// EVERY path reaching it the last assignment to v was `v, ... := source(...)` (a call whose printed callee is `source`)
// executed in this invocation; assignments to fields of v do not change it but are listed.  Sinks are either the
// return statements of the function (sinkCallee == "": class 0 first result is nil, 1 it is v, 2 anything else) or the
// calls to sinkCallee (class 1 when argument sinkArg is v, 2 otherwise).  Emits <coq> : list (Z * bool), one entry per
// sink in source order, and <coq>_fields : list bytes, the assigned fields.
type c07flow struct {
	p          *pkgInfo
	v, source  string
	sinkCallee string
	sinkArg    int
	sinks      []string
	sinkTxt    []string
	fields     []string
}

func (fl *c07flow) isV(e ast.Expr) bool {
	id, ok := e.(*ast.Ident)
	return ok && id.Name == fl.v
}

func (fl *c07flow) rootIsV(e ast.Expr) (string, bool) {
	se, ok := e.(*ast.SelectorExpr)
	if !ok {
		return "", false
	}
	if fl.isV(se.X) {
		return se.Sel.Name, true
	}
	if _, ok := fl.rootIsV(se.X); ok {
		return printNode(fl.p.fset, se), true
	}
	return "", false
}

// scanSinks records call sinks inside an expression or simple statement
func (fl *c07flow) scanSinks(n ast.Node, bound bool) {
	if fl.sinkCallee == "" || n == nil {
		return
	}
	ast.Inspect(n, func(x ast.Node) bool {
		if _, ok := x.(*ast.FuncLit); ok {
			return false
		}
		ce, ok := x.(*ast.CallExpr)
		if !ok || printNode(fl.p.fset, ce.Fun) != fl.sinkCallee {
			return true
		}
		cls := 2
		if fl.sinkArg < len(ce.Args) && fl.isV(ce.Args[fl.sinkArg]) {
			cls = 1
		}
		fl.sinks = append(fl.sinks, fmt.Sprintf("(%d, %v)", cls, bound))
		fl.sinkTxt = append(fl.sinkTxt, strings.Join(strings.Fields(printNode(fl.p.fset, ce)), " "))
		return true
	})
}

// assign handles one assignment-like statement; returns the new state
func (fl *c07flow) assign(lhs, rhs []ast.Expr, bound bool) bool {
	for _, l := range lhs {
		if fl.isV(l) {
			bound = false
			if len(rhs) == 1 {
				if ce, ok := rhs[0].(*ast.CallExpr); ok && printNode(fl.p.fset, ce.Fun) == fl.source {
					bound = true
				}
			}
		} else if f, ok := fl.rootIsV(l); ok {
			fl.fields = append(fl.fields, f)
		} else if ie, ok := l.(*ast.IndexExpr); ok {
			if f, ok := fl.rootIsV(ie.X); ok {
				fl.fields = append(fl.fields, f+"[]")
			}
		}
	}
	return bound
}

// anyAssign: conservative treatment of statements that are not followed structurally (closures, go, defer, select)
func (fl *c07flow) anyAssign(n ast.Node, bound bool) bool {
	ast.Inspect(n, func(x ast.Node) bool {
		switch a := x.(type) {
		case *ast.AssignStmt:
			for _, l := range a.Lhs {
				if fl.isV(l) {
					bound = false
				} else if f, ok := fl.rootIsV(l); ok {
					fl.fields = append(fl.fields, f)
				}
			}
		case *ast.UnaryExpr:
			if a.Op == token.AND && fl.isV(a.X) { // &v escapes: no longer tracked
				bound = false
			}
		}
		return true
	})
	return bound
}

func (fl *c07flow) block(list []ast.Stmt, bound bool) (bool, bool) {
	for _, s := range list {
		var term bool
		bound, term = fl.stmt(s, bound)
		if term {
			return bound, true
		}
	}
	return bound, false
}

func (fl *c07flow) stmt(s ast.Stmt, bound bool) (out bool, terminated bool) {
	switch x := s.(type) {
	case nil:
		return bound, false
	case *ast.ReturnStmt:
		for _, r := range x.Results {
			fl.scanSinks(r, bound)
		}
		if fl.sinkCallee == "" {
			cls := 2
			if len(x.Results) == 0 {
				cls = 2
			} else if id, ok := x.Results[0].(*ast.Ident); ok && id.Name == "nil" {
				cls = 0
			} else if fl.isV(x.Results[0]) {
				cls = 1
			}
			fl.sinks = append(fl.sinks, fmt.Sprintf("(%d, %v)", cls, bound))
			fl.sinkTxt = append(fl.sinkTxt, strings.Join(strings.Fields(printNode(fl.p.fset, x)), " "))
		}
		return bound, true
	case *ast.AssignStmt:
		for _, r := range x.Rhs {
			fl.scanSinks(r, bound)
			bound = fl.anyAssignInFuncLit(r, bound)
		}
		return fl.assign(x.Lhs, x.Rhs, bound), false
	case *ast.DeclStmt:
		if gd, ok := x.Decl.(*ast.GenDecl); ok && gd.Tok == token.VAR {
			for _, sp := range gd.Specs {
				vs := sp.(*ast.ValueSpec)
				var lhs []ast.Expr
				for _, n := range vs.Names {
					lhs = append(lhs, n)
				}
				for _, r := range vs.Values {
					fl.scanSinks(r, bound)
				}
				bound = fl.assign(lhs, vs.Values, bound)
			}
		}
		return bound, false
	case *ast.ExprStmt:
		fl.scanSinks(x.X, bound)
		if ce, ok := x.X.(*ast.CallExpr); ok {
			if fn := printNode(fl.p.fset, ce.Fun); fn == "panic" || fn == "os.Exit" || fn == "log.Fatal" || fn == "log.Fatalf" {
				return bound, true
			}
		}
		return fl.anyAssignInFuncLit(x.X, bound), false
	case *ast.BlockStmt:
		return fl.block(x.List, bound)
	case *ast.LabeledStmt:
		return fl.stmt(x.Stmt, bound)
	case *ast.IfStmt:
		if x.Init != nil {
			bound, _ = fl.stmt(x.Init, bound)
		}
		fl.scanSinks(x.Cond, bound)
		tb, tt := fl.block(x.Body.List, bound)
		eb, et := bound, false
		if x.Else != nil {
			eb, et = fl.stmt(x.Else, bound)
		}
		switch {
		case tt && et:
			return bound, true
		case tt:
			return eb, false
		case et:
			return tb, false
		}
		return tb && eb, false
	case *ast.ForStmt:
		if x.Init != nil {
			bound, _ = fl.stmt(x.Init, bound)
		}
		fl.scanSinks(x.Cond, bound)
		bb, bt := fl.block(x.Body.List, bound)
		if x.Post != nil {
			bb, _ = fl.stmt(x.Post, bb)
		}
		if bt {
			return bound, false
		}
		return bound && bb, false
	case *ast.RangeStmt:
		fl.scanSinks(x.X, bound)
		if x.Key != nil && fl.isV(x.Key) || x.Value != nil && fl.isV(x.Value) {
			bound = false
		}
		bb, bt := fl.block(x.Body.List, bound)
		if bt {
			return bound, false
		}
		return bound && bb, false
	case *ast.SwitchStmt, *ast.TypeSwitchStmt:
		var body *ast.BlockStmt
		if sw, ok := x.(*ast.SwitchStmt); ok {
			if sw.Init != nil {
				bound, _ = fl.stmt(sw.Init, bound)
			}
			fl.scanSinks(sw.Tag, bound)
			body = sw.Body
		} else {
			ts := x.(*ast.TypeSwitchStmt)
			if ts.Init != nil {
				bound, _ = fl.stmt(ts.Init, bound)
			}
			bound, _ = fl.stmt(ts.Assign, bound)
			body = ts.Body
		}
		res, allTerm, hasDefault := true, true, false
		for _, c := range body.List {
			cc := c.(*ast.CaseClause)
			if cc.List == nil {
				hasDefault = true
			}
			for _, e := range cc.List {
				fl.scanSinks(e, bound)
			}
			cb, ct := fl.block(cc.Body, bound)
			if !ct {
				allTerm = false
				res = res && cb
			}
		}
		if !hasDefault {
			allTerm = false
			res = res && bound
		}
		if allTerm {
			return bound, true
		}
		return res, false
	case *ast.BranchStmt:
		// break / continue / goto: treated as falling out of the enclosing construct with the current state;
		// the enclosing loop joins with its entry state, which is at least as weak
		return bound, false
	default:
		// go, defer, select, send, inc/dec, empty: no structural tracking
		fl.scanSinks(s, bound)
		return fl.anyAssign(s, bound), false
	}
}

func (fl *c07flow) anyAssignInFuncLit(e ast.Expr, bound bool) bool {
	ast.Inspect(e, func(x ast.Node) bool {
		if f, ok := x.(*ast.FuncLit); ok {
			bound = fl.anyAssign(f.Body, bound)
			return false
		}
		if u, ok := x.(*ast.UnaryExpr); ok && u.Op == token.AND && fl.isV(u.X) {
			bound = false
		}
		return true
	})
	return bound
}

func c07Flow(o *out, dir, recv, name, v, source, sinkCallee string, sinkArg int, coqName string) {
	p, fd := findFunc(dir, recv, name)
	if fd == nil {
		o.brokenDef(coqName, "function "+dir+":"+recv+"."+name+" not found")
		return
	}
	fl := &c07flow{p: p, v: v, source: source, sinkCallee: sinkCallee, sinkArg: sinkArg}
	bound := false
	// a parameter or named result called v starts unbound
	fl.block(fd.Body.List, bound)
	what := "returns"
	if sinkCallee != "" {
		what = "calls of " + sinkCallee
	}
	o.f("Definition %s : list (Z * bool) := [%s].\n(* %s:%s.%s, variable %s bound by %s; %s: %s *)\n", coqName, strings.Join(fl.sinks, "; "), dir, recv, name, v, source, what,
		strings.ReplaceAll(strings.Join(fl.sinkTxt, " | "), "*)", "* )"))
	var fs []string
	for _, f := range fl.fields {
		fs = append(fs, bytesLit([]byte(f)))
	}
	o.f("Definition %s_fields : list bytes := [%s]. (* fields of %s assigned in %s: %s *)\n", coqName, strings.Join(fs, "; "), v, name, strings.Join(fl.fields, ", "))
}

// c07CertTypes: the CertTypes field of the package-level *signers.Signer literal(s) of a signer package, as a number
func c07CertTypes(o *out, dir, coqName string) {
	p := loadPkg(dir)
	var vals []string
	var txt []string
	for _, fn := range sortedFileNames(p) {
		ast.Inspect(p.files[fn], func(n ast.Node) bool {
			cl, ok := n.(*ast.CompositeLit)
			if !ok || printNode(p.fset, cl.Type) != "signers.Signer" {
				return true
			}
			hasSign, ct := false, "0"
			ctTxt := "(none)"
			for _, el := range cl.Elts {
				kv, ok := el.(*ast.KeyValueExpr)
				if !ok {
					continue
				}
				switch printNode(p.fset, kv.Key) {
				case "Sign":
					hasSign = true
				case "CertTypes":
					ctTxt = printNode(p.fset, kv.Value)
					v, err := c07EvalCertTypes(kv.Value)
					if err != nil {
						ct = "(-1)"
					} else {
						ct = strconv.FormatInt(v, 10)
					}
				}
			}
			if hasSign {
				vals = append(vals, ct)
				txt = append(txt, ctTxt)
			}
			return true
		})
	}
	if len(vals) == 0 {
		o.brokenDef(coqName, "no signers.Signer literal with a Sign function in "+dir)
		return
	}
	o.f("Definition %s : list Z := [%s]. (* %s: CertTypes of the signing modules: %s *)\n", coqName, strings.Join(vals, "; "), dir, strings.Join(txt, ", "))
}

func c07EvalCertTypes(e ast.Expr) (int64, error) {
	switch x := e.(type) {
	case *ast.SelectorExpr:
		if id, ok := x.X.(*ast.Ident); ok && id.Name == "signers" {
			ce, _, si, _ := findConstExpr("signers", x.Sel.Name)
			if ce == nil {
				return 0, fmt.Errorf("unknown constant signers.%s", x.Sel.Name)
			}
			v, err := evalConst("signers", ce, si)
			return v.i, err
		}
	case *ast.BinaryExpr:
		a, err := c07EvalCertTypes(x.X)
		if err != nil {
			return 0, err
		}
		b, err := c07EvalCertTypes(x.Y)
		if err != nil {
			return 0, err
		}
		switch x.Op {
		case token.OR:
			return a | b, nil
		case token.AND:
			return a & b, nil
		case token.ADD:
			return a + b, nil
		}
	case *ast.ParenExpr:
		return c07EvalCertTypes(x.X)
	}
	return 0, fmt.Errorf("unsupported CertTypes expression")
}

var c07StatePkgs = []string{"internal/signinit", "lib/certloader", "signers", "token/tokencache", "token/filetoken",
	"signers/cosign", "signers/apk", "signers/pgp", "signers/rpm", "signers/deb"}

func c07History(o *out) {
	o.f("\n(* ---- history inside a long-lived process ---- *)\n")
	c07PkgState(o, c07StatePkgs, "pkg_state")
	const tc = "token/tokencache"
	c07Fields(o, tc, "Cache", "cache_fields")
	c07Fields(o, tc, "cachedKey", "cached_key_fields")
	c07Fields(o, "token/filetoken", "fileToken", "filetoken_fields")
	c07Fields(o, "token/filetoken", "fileKey", "filekey_fields")
	c07Fields(o, "lib/certloader", "Certificate", "bundle_fields")
	// tokencache.New: a fresh, empty map per Cache
	o.hasStmt(tc, "", "New", "return &Cache{ Token: base, keys: make(map[string]cachedKey), expiry: expiry, }", "tc_new_empty")
	o.hasStmt(tc, "Cache", "GetKey", "c.keys[keyName] = cachedKey{ expires: time.Now().Add(c.expiry), key: key, }", "tc_stores_fetched_key")
	o.callOrder(tc, "Cache", "GetKey", "tc_call_order", []string{"c.mu.Lock", "c.Token.GetKey"})
	// file token: what a key object is made of
	o.hasStmt("token/filetoken", "fileToken", "GetKey", "return &fileKey{ keyConf: keyConf, signer: privateKey.(crypto.Signer), cert: certBlob, }, nil", "filetoken_key_object")
	o.hasStmt("token/filetoken", "fileKey", "Certificate", "return key.cert", "filekey_cert_is_field")
	o.hasStmt("token/filetoken", "fileKey", "Config", "return key.keyConf", "filekey_conf_is_field")
	// data flow
	const si = "internal/signinit"
	c07Flow(o, si, "", "InitKey", "cert", "certloader.LoadTokenCertificates", "", 0, "initkey_flow")
	c07Flow(o, si, "", "InitKey", "key", "tok.GetKey", "certloader.LoadTokenCertificates", 0, "initkey_key_flow")
	c07Flow(o, si, "", "Init", "cert", "InitKey", "", 0, "init_flow")
	c07Flow(o, "server", "Server", "serveSign", "cert", "signinit.Init", "mod.Sign", 1, "servesign_flow")
	c07Flow(o, "cmdline/token", "", "signCmd", "cert", "signinit.Init", "mod.Sign", 1, "signcmd_flow")
	// Init: certificate-type requirements
	o.constInt("signers", "CertTypeX509", "cert_type_x509")
	o.constInt("signers", "CertTypePgp", "cert_type_pgp")
	il := map[string]string{"cert.Leaf != nil": "has_leaf", "cert.PgpKey != nil": "has_pgp", "mod.CertTypes": "cert_types",
		"signers.CertTypeX509": "cert_type_x509", "signers.CertTypePgp": "cert_type_pgp"}
	it := map[string]string{"cert.Leaf != nil": "bool", "cert.PgpKey != nil": "bool"}
	o.condOf(funcSpec{dir: si, name: "Init", coqName: "init_has_leaf", params: "(has_leaf : bool)", retType: "bool", leaves: il, types: it}, "if:cert.Leaf")
	o.condOf(funcSpec{dir: si, name: "Init", coqName: "init_needs_x509", params: "(cert_types : Z)", retType: "bool", leaves: il, types: it}, "if:CertTypeX509")
	o.condOf(funcSpec{dir: si, name: "Init", coqName: "init_has_pgp", params: "(has_pgp : bool)", retType: "bool", leaves: il, types: it}, "if:cert.PgpKey")
	o.condOf(funcSpec{dir: si, name: "Init", coqName: "init_needs_pgp", params: "(cert_types : Z)", retType: "bool", leaves: il, types: it}, "if:CertTypePgp")
	for _, sg := range []string{"apk", "appmanifest", "appx", "cab", "cat", "cosign", "deb", "dmg", "jar", "macho", "msi", "pecoff", "pgp", "ps", "rpm", "vsix", "xap", "xar"} {
		c07CertTypes(o, "signers/"+sg, "certtypes_"+sg)
	}
}

// ============================================================================ OpenPGP: which key packet a signature NAMES and which private key SIGNS
//
// Every OpenPGP signature relic emits is made from a *packet.PrivateKey: its PublicKey half gives the issuer key id and
// fingerprint written into the signature packet, its PrivateKey half computes the value.  Generated here:
//   * LoadTokenCertificates, PGP branch: the classified statement list of the block, the two halves of the packet.PrivateKey
//     literal it builds, the guard (load_pgp_mismatch above, with the subkey / identity counts as further leaves);
//   * inventories: every packet.PrivateKey literal and every assignment to a `.PrivateKey` field in lib/certloader; every use
//     of the entity in pgptools.ClearSign / DetachClearSign, signdeb.Sign, and of `cert` in the pgp / rpm / deb signers;
//   * signers/pgp sign: the choice of the signing function as a decision over (clearsign, armor, textmode), the fields of the
//     packet.Config literal (no SigningKeyId: openpgp selects the key itself);
//   * the third-party code those sites end in, read from the module cache at the versions pinned in /repo/go.mod
//     (go-crypto: signingKeyByIdUsage conditions and results, detachSign guards, createSignaturePacket, Signature.Sign,
//     clearsign dashEscaper.Close; go-rpmutils: makeSignature): conditions translated, shapes as booleans, versions as bytes.

func c07ModVersion(mod string) (string, bool) {
	blob, err := os.ReadFile(filepath.Join(repo, "go.mod"))
	if err != nil {
		return "", false
	}
	ver, replaced := "", false
	for _, ln := range strings.Split(string(blob), "\n") {
		f := strings.Fields(ln)
		if len(f) >= 2 && f[0] == "require" {
			f = f[1:]
		}
		if len(f) >= 2 && f[0] == mod && strings.HasPrefix(f[1], "v") && ver == "" {
			ver = f[1]
		}
		if len(f) >= 2 && (f[0] == "replace" && f[1] == mod || f[0] == mod && len(f) >= 3 && f[1] == "=>" || f[0] == mod && len(f) >= 4 && f[2] == "=>") {
			replaced = true
		}
	}
	return ver, replaced
}

// c07ModDir: directory of a module package in the module cache, as a path usable with loadPkg ("" when absent)
func c07ModDir(mod, ver, sub string) string {
	cache := os.Getenv("GOMODCACHE")
	if cache == "" {
		if gp := os.Getenv("GOPATH"); gp != "" {
			cache = filepath.Join(strings.Split(gp, string(os.PathListSeparator))[0], "pkg", "mod")
		} else if h, err := os.UserHomeDir(); err == nil {
			cache = filepath.Join(h, "go", "pkg", "mod")
		}
	}
	var esc strings.Builder
	for _, r := range mod {
		if r >= 'A' && r <= 'Z' {
			esc.WriteByte('!')
			esc.WriteRune(r + 32)
		} else {
			esc.WriteRune(r)
		}
	}
	abs := filepath.Join(cache, esc.String()+"@"+ver, sub)
	if st, err := os.Stat(abs); err != nil || !st.IsDir() {
		return ""
	}
	absRepo, err := filepath.Abs(repo)
	if err != nil {
		return ""
	}
	rel, err := filepath.Rel(absRepo, abs)
	if err != nil {
		return ""
	}
	return rel
}

func c07BytesDef(o *out, coqName, s, comment string) {
	o.f("Definition %s : bytes := %s. (* %s *)\n", coqName, bytesLit([]byte(s)), comment)
}

func c07BytesList(o *out, coqName string, items []string, comment string) {
	var parts []string
	for _, it := range items {
		parts = append(parts, "  "+bytesLit([]byte(it))+" (* "+c07Comment(it)+" *)")
	}
	o.f("Definition %s : list bytes := [\n%s\n]. (* %s *)\n", coqName, joinCoqItems(parts), comment)
}

var c07PubSrc = map[string]int{"*entity.PrimaryKey": 1, "*sub.PublicKey": 2, "*subkey.PublicKey": 2}
var c07KeySrc = map[string]int{"key": 1}

// c07PrivLiteral: `v := &packet.PrivateKey{PublicKey: P, Encrypted: B, PrivateKey: K}` inside the function
func c07PrivLiteral(o *out, dir, fn, v, coq string) {
	p, fd := findFunc(dir, "", fn)
	if fd == nil {
		o.brokenDef(coq+"_pub", "function "+fn+" not found")
		return
	}
	var lit *ast.CompositeLit
	n := 0
	ast.Inspect(fd.Body, func(nd ast.Node) bool {
		as, ok := nd.(*ast.AssignStmt)
		if !ok || len(as.Lhs) != 1 || len(as.Rhs) != 1 || printNode(p.fset, as.Lhs[0]) != v {
			return true
		}
		n++
		if u, ok := as.Rhs[0].(*ast.UnaryExpr); ok && u.Op == token.AND {
			if cl, ok := u.X.(*ast.CompositeLit); ok && printNode(p.fset, cl.Type) == "packet.PrivateKey" {
				lit = cl
			}
		}
		return true
	})
	if lit == nil || n != 1 {
		o.brokenDef(coq+"_pub", fmt.Sprintf("%s: expected exactly one assignment %s := &packet.PrivateKey{...} (found %d assignments)", fn, v, n))
		return
	}
	pub, key, enc, extra := 0, 0, "false", 0
	txt := map[string]string{}
	for _, el := range lit.Elts {
		kv, ok := el.(*ast.KeyValueExpr)
		if !ok {
			extra++
			continue
		}
		val := strings.Join(strings.Fields(printNode(p.fset, kv.Value)), " ")
		k := printNode(p.fset, kv.Key)
		txt[k] = val
		switch k {
		case "PublicKey":
			pub = c07PubSrc[val]
			if pub == 0 {
				pub = 99
			}
		case "PrivateKey":
			key = c07KeySrc[val]
			if key == 0 {
				key = 99
			}
		case "Encrypted":
			enc = val
		default:
			extra++
		}
	}
	if enc != "true" && enc != "false" {
		o.brokenDef(coq+"_enc", "Encrypted is not a literal: "+enc)
		return
	}
	o.f("Definition %s_pub : Z := %d. (* %s: %s.PublicKey = %s ; 1 *entity.PrimaryKey  2 the public key of a subkey  0 not set  99 anything else *)\n", coq, pub, fn, v, c07Comment(txt["PublicKey"]))
	o.f("Definition %s_key : Z := %d. (* %s: %s.PrivateKey = %s ; 1 the token key  0 not set  99 anything else *)\n", coq, key, fn, v, c07Comment(txt["PrivateKey"]))
	o.f("Definition %s_enc : bool := %s. (* %s: %s.Encrypted *)\n", coq, enc, fn, v)
	o.f("Definition %s_extra : Z := %d. (* other fields of the literal *)\n", coq, extra)
}

// c07PgpBlock: the statements of the `if pgpcert != "" { ... }` block of LoadTokenCertificates, classified in order:
//
//	1 blob, err := ioutil.ReadFile(pgpcert)   2 if err != nil { return nil, err }   3 keyring, err := parsePGP(blob)
//	4 if <count condition> { return nil, <error> }   5 entity := keyring[0]   6 priv := &packet.PrivateKey{...}
//	7 if <condition naming priv / SameKey> { return nil, <error> }   8 entity.PrivateKey = priv   9 cert.PgpKey = entity
//	99 anything else (a loop, a call that receives the entity, another assignment)
func c07PgpBlock(o *out) {
	const d = "lib/certloader"
	p, fd := findFunc(d, "", "LoadTokenCertificates")
	if fd == nil {
		o.brokenDef("load_pgp_block", "LoadTokenCertificates not found")
		return
	}
	var blk *ast.BlockStmt
	for _, st := range fd.Body.List {
		if is, ok := st.(*ast.IfStmt); ok && is.Init == nil && is.Else == nil && strings.Contains(printNode(p.fset, is.Cond), "pgpcert") {
			blk = is.Body
		}
	}
	if blk == nil {
		o.brokenDef("load_pgp_block", "no top-level `if pgpcert ...` block in LoadTokenCertificates")
		return
	}
	flat := func(n ast.Node) string { return strings.Join(strings.Fields(printNode(p.fset, n)), " ") }
	returnsErr := func(is *ast.IfStmt) bool {
		if is.Init != nil || is.Else != nil || len(is.Body.List) != 1 {
			return false
		}
		r, ok := is.Body.List[0].(*ast.ReturnStmt)
		return ok && len(r.Results) == 2 && flat(r.Results[0]) == "nil" && flat(r.Results[1]) != "nil"
	}
	var seq, txt []string
	for _, st := range blk.List {
		s := flat(st)
		cls := 99
		switch x := st.(type) {
		case *ast.AssignStmt:
			switch {
			case s == "blob, err := ioutil.ReadFile(pgpcert)" || s == "blob, err := os.ReadFile(pgpcert)":
				cls = 1
			case s == "keyring, err := parsePGP(blob)":
				cls = 3
			case s == "entity := keyring[0]":
				cls = 5
			case strings.HasPrefix(s, "priv := &packet.PrivateKey{"):
				cls = 6
			case s == "entity.PrivateKey = priv":
				cls = 8
			case s == "cert.PgpKey = entity":
				cls = 9
			}
		case *ast.IfStmt:
			c := flat(x.Cond)
			switch {
			case !returnsErr(x):
			case c == "err != nil" && flat(x.Body.List[0]) == "return nil, err":
				cls = 2
			case strings.Contains(c, "len(keyring)") && !strings.Contains(c, "SameKey"):
				cls = 4
			case strings.Contains(c, "SameKey"):
				cls = 7
			}
		}
		seq = append(seq, strconv.Itoa(cls))
		if len(s) > 70 {
			s = s[:70] + "..."
		}
		txt = append(txt, s)
	}
	o.f("Definition load_pgp_block : list Z := [%s].\n(* LoadTokenCertificates, statements of the pgpcert block: %s *)\n", strings.Join(seq, "; "),
		c07Comment(strings.Join(txt, " | ")))
}

// c07Comment makes Go text safe inside a Coq comment (comment brackets, and quotes: Coq lexes strings inside comments)
func c07Comment(s string) string {
	s = strings.ReplaceAll(strings.ReplaceAll(s, "(*", "( *"), "*)", "* )")
	return strings.ReplaceAll(s, "\"", "'")
}

// c07PkgInventory: over all functions of a package (files and declarations in order): every composite literal of type
// packet.PrivateKey ("lit") and every assignment whose left-hand side ends in .PrivateKey ("set"), as "Func:kind:text"
func c07PkgInventory(o *out, dir, coqName string) {
	p := loadPkg(dir)
	if len(p.files) == 0 {
		o.brokenDef(coqName, "package "+dir+" has no files")
		return
	}
	var items []string
	for _, fn := range sortedFileNames(p) {
		for _, decl := range p.files[fn].Decls {
			fd, ok := decl.(*ast.FuncDecl)
			if !ok || fd.Body == nil {
				continue
			}
			ast.Inspect(fd.Body, func(n ast.Node) bool {
				switch x := n.(type) {
				case *ast.CompositeLit:
					if x.Type != nil && printNode(p.fset, x.Type) == "packet.PrivateKey" {
						items = append(items, fd.Name.Name+":lit")
					}
				case *ast.AssignStmt:
					for _, l := range x.Lhs {
						if se, ok := l.(*ast.SelectorExpr); ok && se.Sel.Name == "PrivateKey" {
							items = append(items, fd.Name.Name+":set:"+printNode(p.fset, l))
						}
					}
				}
				return true
			})
		}
	}
	c07BytesList(o, coqName, items, dir+": packet.PrivateKey literals and assignments to .PrivateKey fields")
}

// c07RootUses: every maximal selector chain (or bare use) rooted at identifier `root` inside the function, in source
// order; the declaration of a parameter is not a use.
func c07RootUses(o *out, dir, recv, name, root, coqName string) {
	p, fd := findFunc(dir, recv, name)
	if fd == nil {
		o.brokenDef(coqName, "function "+dir+":"+recv+"."+name+" not found")
		return
	}
	var items []string
	var walk func(n ast.Node) bool
	walk = func(n ast.Node) bool {
		switch x := n.(type) {
		case *ast.SelectorExpr:
			// root of the chain
			var e ast.Expr = x
			for {
				if se, ok := e.(*ast.SelectorExpr); ok {
					e = se.X
					continue
				}
				break
			}
			if id, ok := e.(*ast.Ident); ok && id.Name == root {
				items = append(items, printNode(p.fset, x))
				return false
			}
		case *ast.Ident:
			if x.Name == root {
				items = append(items, root)
			}
		case *ast.KeyValueExpr:
			// field names of composite literals are not uses
			ast.Inspect(x.Value, walk)
			return false
		}
		return true
	}
	ast.Inspect(fd.Body, walk)
	c07BytesList(o, coqName, items, fmt.Sprintf("%s:%s.%s uses of %s", dir, recv, name, root))
}

var c07SfClass = map[string]int{"pgptools.DetachClearSign": 1, "openpgp.ArmoredDetachSignText": 2, "openpgp.ArmoredDetachSign": 3,
	"openpgp.DetachSignText": 4, "openpgp.DetachSign": 5}

// c07SfChoice: the if/else tree of signers/pgp sign that assigns the signing function `sf`, as a decision function
func c07SfChoice(o *out) {
	const d = "signers/pgp"
	p, fd := findFunc(d, "", "sign")
	if fd == nil {
		o.brokenDef("pgp_sf_choice", "signers/pgp sign not found")
		return
	}
	fs := funcSpec{dir: d, name: "sign", leaves: map[string]string{"clearsign": "clearsign", "armor": "armor", "textmode": "textmode"},
		types: map[string]string{"clearsign": "bool", "armor": "bool", "textmode": "bool"}}
	t := o.newTr(p, fs)
	var tree func(st ast.Stmt) string
	block := func(b *ast.BlockStmt) string {
		if len(b.List) != 1 {
			return t.fail("branch of the sf choice has %d statements", len(b.List))
		}
		return tree(b.List[0])
	}
	tree = func(st ast.Stmt) string {
		switch x := st.(type) {
		case *ast.AssignStmt:
			if len(x.Lhs) == 1 && len(x.Rhs) == 1 && printNode(p.fset, x.Lhs[0]) == "sf" && x.Tok == token.ASSIGN {
				c, ok := c07SfClass[printNode(p.fset, x.Rhs[0])]
				if !ok {
					c = 99
				}
				return strconv.Itoa(c)
			}
		case *ast.IfStmt:
			if x.Init == nil && x.Else != nil {
				var els string
				switch e := x.Else.(type) {
				case *ast.BlockStmt:
					els = block(e)
				case *ast.IfStmt:
					els = tree(e)
				}
				return "(if " + t.expr(x.Cond) + " then " + block(x.Body) + " else " + els + ")"
			}
		case *ast.BlockStmt:
			return block(x)
		}
		return t.fail("unsupported statement in the sf choice: %s", printNode(p.fset, st))
	}
	var root *ast.IfStmt
	nAssign := 0
	ast.Inspect(fd.Body, func(n ast.Node) bool {
		if as, ok := n.(*ast.AssignStmt); ok && len(as.Lhs) == 1 && printNode(p.fset, as.Lhs[0]) == "sf" {
			nAssign++
		}
		return true
	})
	for _, st := range fd.Body.List {
		if is, ok := st.(*ast.IfStmt); ok && root == nil && strings.Contains(printNode(p.fset, is.Body), "sf = ") {
			root = is
		}
	}
	if root == nil {
		o.brokenDef("pgp_sf_choice", "no top-level if statement assigning sf in signers/pgp sign")
		return
	}
	e := tree(root)
	if t.err != nil {
		o.brokenDef("pgp_sf_choice", t.err.Error())
		return
	}
	if got := strings.Count(printNode(p.fset, root), "sf = "); got != nAssign {
		o.brokenDef("pgp_sf_choice", fmt.Sprintf("sf is assigned %d times, %d of them inside the choice", nAssign, got))
		return
	}
	o.f("Definition pgp_sf_choice (clearsign armor textmode : bool) : Z :=\n  %s.\n(* signers/pgp sign: 1 pgptools.DetachClearSign 2 openpgp.ArmoredDetachSignText 3 openpgp.ArmoredDetachSign 4 openpgp.DetachSignText 5 openpgp.DetachSign 99 other *)\n", e)
}

// c07LitFields: names of the fields set in the first composite literal of the given type inside the function
func c07LitFields(o *out, dir, recv, name, typ, coqName string) {
	p, fd := findFunc(dir, recv, name)
	if fd == nil {
		o.brokenDef(coqName, "function "+dir+":"+recv+"."+name+" not found")
		return
	}
	var lit *ast.CompositeLit
	ast.Inspect(fd.Body, func(n ast.Node) bool {
		if cl, ok := n.(*ast.CompositeLit); ok && lit == nil && cl.Type != nil && printNode(p.fset, cl.Type) == typ {
			lit = cl
		}
		return lit == nil
	})
	if lit == nil {
		o.brokenDef(coqName, "no "+typ+" literal in "+name)
		return
	}
	var items []string
	for _, el := range lit.Elts {
		if kv, ok := el.(*ast.KeyValueExpr); ok {
			items = append(items, printNode(p.fset, kv.Key)+"="+strings.Join(strings.Fields(printNode(p.fset, kv.Value)), " "))
		} else {
			items = append(items, "?")
		}
	}
	c07BytesList(o, coqName, items, fmt.Sprintf("%s:%s.%s fields of the %s literal", dir, recv, name, typ))
}

func c07Pgp(o *out) {
	o.f("\n(* ---- OpenPGP: which key packet a signature names, which private key signs ---- *)\n")
	const cl = "lib/certloader"
	c07PgpBlock(o)
	c07PrivLiteral(o, cl, "LoadTokenCertificates", "priv", "load_pgp_priv")
	c07PkgInventory(o, cl, "certloader_privkey_inventory")
	o.callOrder(cl, "", "LoadTokenCertificates", "load_pgp_guard_order", []string{"parsePGP", "SameKey"})
	// signing sites inside relic
	c07Site(o, "lib/pgptools", "", "ClearSign", "clearsign.Encode", "site_clearsign_key", []int{1})
	c07Site(o, "lib/pgptools", "", "DetachClearSign", "ClearSign", "site_detachclearsign", []int{1})
	c07Site(o, "lib/signdeb", "", "Sign", "pgptools.ClearSign", "site_signdeb", []int{1})
	c07RootUses(o, "lib/pgptools", "", "ClearSign", "signer", "uses_clearsign_signer")
	c07RootUses(o, "lib/pgptools", "", "DetachClearSign", "signer", "uses_detachclearsign_signer")
	c07RootUses(o, "lib/signdeb", "", "Sign", "signer", "uses_signdeb_signer")
	c07RootUses(o, "signers/pgp", "", "sign", "cert", "uses_pgp_cert")
	c07RootUses(o, "signers/rpm", "", "sign", "cert", "uses_rpm_cert")
	c07RootUses(o, "signers/deb", "", "sign", "cert", "uses_deb_cert")
	c07SfChoice(o)
	o.hasStmt("signers/pgp", "", "sign", `armor := opts.Flags.GetBool("armor")`, "pgp_flag_armor")
	o.hasStmt("signers/pgp", "", "sign", `clearsign := opts.Flags.GetBool("clearsign")`, "pgp_flag_clearsign")
	o.hasStmt("signers/pgp", "", "sign", `textmode := opts.Flags.GetBool("textmode")`, "pgp_flag_textmode")
	o.hasStmt("signers/pgp", "", "sign", `if pgpcompat := opts.Flags.GetString("pgp"); pgpcompat == "mini-clear" { clearsign = true }`, "pgp_compat_mini_clear")
	c07LitFields(o, "signers/pgp", "", "sign", "packet.Config", "pgp_config_fields")
	c07LitFields(o, "lib/signdeb", "", "Sign", "packet.Config", "signdeb_config_fields")
	// ---- third-party code at the pinned versions
	const gcMod, ruMod = "github.com/ProtonMail/go-crypto", "github.com/sassoftware/go-rpmutils"
	gcVer, gcRepl := c07ModVersion(gcMod)
	ruVer, ruRepl := c07ModVersion(ruMod)
	c07BytesDef(o, "gocrypto_version", gcVer, "go.mod: "+gcMod+" "+gcVer)
	c07BytesDef(o, "rpmutils_version", ruVer, "go.mod: "+ruMod+" "+ruVer)
	o.f("Definition pgp_modules_replaced : bool := %v. (* a replace directive for either module in go.mod *)\n", gcRepl || ruRepl)
	gc := c07ModDir(gcMod, gcVer, "openpgp")
	gp := c07ModDir(gcMod, gcVer, "openpgp/packet")
	gcs := c07ModDir(gcMod, gcVer, "openpgp/clearsign")
	ru := c07ModDir(ruMod, ruVer, "")
	if gc == "" || gp == "" || gcs == "" || ru == "" {
		o.brokenDef("gc_subkey_candidate", "module cache has no "+gcMod+"@"+gcVer+" / "+ruMod+"@"+ruVer)
		return
	}
	o.constInt(gp, "KeyFlagCertify", "key_flag_certify")
	o.constInt(gp, "KeyFlagSign", "key_flag_sign")
	o.hasStmt(gc, "Entity", "SigningKeyById", "return e.signingKeyByIdUsage(now, id, packet.KeyFlagSign)", "gc_signing_key_flags_sign")
	kl := map[string]string{
		"e.PrimaryKey.KeyExpired(i.SelfSignature, now)": "key_expired", "i.SelfSignature == nil": "no_self_sig", "i.SelfSignature.SigExpired(now)": "sig_expired",
		"e.Revoked(now)": "ent_revoked", "i.Revoked(now)": "id_revoked",
		"subkey.Sig.FlagsValid": "flags_valid", "subkey.Sig.FlagCertify": "flag_certify", "subkey.Sig.FlagSign": "flag_sign",
		"subkey.PublicKey.PubKeyAlgo.CanSign()": "can_sign", "subkey.PublicKey.KeyExpired(subkey.Sig, now)": "key_expired",
		"subkey.Sig.SigExpired(now)": "sig_expired", "subkey.Revoked(now)": "revoked", "maxTime.IsZero()": "max_zero",
		"subkey.Sig.CreationTime.After(maxTime)": "after_max", "flags": "flags", "id": "id", "subkey.PublicKey.KeyId": "kid",
		"packet.KeyFlagCertify": "key_flag_certify", "packet.KeyFlagSign": "key_flag_sign",
		"i.SelfSignature.FlagsValid": "flags_valid", "i.SelfSignature.FlagCertify": "flag_certify", "i.SelfSignature.FlagSign": "flag_sign",
		"e.PrimaryKey.PubKeyAlgo.CanSign()": "can_sign", "e.PrimaryKey.KeyId": "kid", "candidateSubkey": "candidate",
	}
	kt := map[string]string{}
	for k, v := range kl {
		switch v {
		case "flags", "id", "kid", "key_flag_certify", "key_flag_sign", "candidate":
		default:
			kt[k] = "bool"
		}
	}
	o.condOf(funcSpec{dir: gc, recv: "Entity", name: "signingKeyByIdUsage", coqName: "gc_entity_unusable",
		params: "(key_expired no_self_sig sig_expired ent_revoked id_revoked : bool)", retType: "bool", leaves: kl, types: kt}, "if:i.SelfSignature == nil")
	o.condOf(funcSpec{dir: gc, recv: "Entity", name: "signingKeyByIdUsage", coqName: "gc_subkey_candidate",
		params: "(flags_valid flag_certify flag_sign can_sign key_expired sig_expired revoked max_zero after_max : bool) (flags id kid : Z)", retType: "bool",
		leaves: kl, types: kt}, "if:subkey.Sig.FlagsValid")
	o.condOf(funcSpec{dir: gc, recv: "Entity", name: "signingKeyByIdUsage", coqName: "gc_primary_usable",
		params: "(flags_valid flag_certify flag_sign can_sign : bool) (flags id kid : Z)", retType: "bool", leaves: kl, types: kt}, "if:i.SelfSignature.FlagsValid")
	o.condOf(funcSpec{dir: gc, recv: "Entity", name: "signingKeyByIdUsage", coqName: "gc_has_candidate",
		params: "(candidate : Z)", retType: "bool", leaves: kl, types: kt}, "if:candidateSubkey")
	o.hasStmt(gc, "Entity", "signingKeyByIdUsage", "candidateSubkey := -1", "gc_candidate_init")
	o.hasStmt(gc, "Entity", "signingKeyByIdUsage", "return Key{e, subkey.PublicKey, subkey.PrivateKey, subkey.Sig, subkey.Revocations}, true", "gc_returns_subkey_pair")
	o.hasStmt(gc, "Entity", "signingKeyByIdUsage", "return Key{e, e.PrimaryKey, e.PrivateKey, i.SelfSignature, e.Revocations}, true", "gc_returns_primary_pair")
	o.hasStmt(gc, "Entity", "signingKeyByIdUsage", "i := e.PrimaryIdentity()", "gc_uses_primary_identity")
	// detachSign
	dl := map[string]string{"ok": "found", "signingKey.PrivateKey == nil": "no_priv", "signingKey.PrivateKey.Encrypted": "encrypted"}
	dt := map[string]string{"ok": "bool", "signingKey.PrivateKey == nil": "bool", "signingKey.PrivateKey.Encrypted": "bool"}
	o.hasStmt(gc, "", "detachSign", "signingKey, ok := signer.SigningKeyById(config.Now(), config.SigningKey())", "gc_detach_selects_by_config_id")
	o.condOf(funcSpec{dir: gc, name: "detachSign", coqName: "gc_detach_no_key", params: "(found : bool)", retType: "bool", leaves: dl, types: dt}, "if:ok")
	o.condOf(funcSpec{dir: gc, name: "detachSign", coqName: "gc_detach_no_priv", params: "(no_priv : bool)", retType: "bool", leaves: dl, types: dt}, "if:signingKey.PrivateKey == nil")
	o.condOf(funcSpec{dir: gc, name: "detachSign", coqName: "gc_detach_encrypted", params: "(encrypted : bool)", retType: "bool", leaves: dl, types: dt}, "if:signingKey.PrivateKey.Encrypted")
	o.hasStmt(gc, "", "detachSign", "sig := createSignaturePacket(signingKey.PublicKey, sigType, config)", "gc_detach_packet_from_selected_public")
	o.hasStmt(gc, "", "detachSign", "err = sig.Sign(h, signingKey.PrivateKey, config)", "gc_detach_signs_with_selected_private")
	o.callOrder(gc, "", "detachSign", "gc_detach_call_order", []string{"SigningKeyById", "createSignaturePacket", "sig.Sign", "sig.Serialize"})
	c07LitFields(o, gc, "", "createSignaturePacket", "packet.Signature", "gc_signature_packet_fields")
	for _, fn := range [][2]string{{"DetachSign", "return detachSign(w, signer, message, packet.SigTypeBinary, config)"},
		{"DetachSignText", "return detachSign(w, signer, message, packet.SigTypeText, config)"},
		{"ArmoredDetachSign", "return armoredDetachSign(w, signer, message, packet.SigTypeBinary, config)"},
		{"ArmoredDetachSignText", "return armoredDetachSign(w, signer, message, packet.SigTypeText, config)"},
		{"armoredDetachSign", "err = detachSign(out, signer, message, sigType, config)"}} {
		o.hasStmt(gc, "", fn[0], fn[1], "gc_route_"+fn[0])
	}
	// packet.Signature.Sign: the fingerprint always comes from the private-key packet
	o.hasStmt(gp, "Signature", "Sign", "sig.IssuerFingerprint = priv.PublicKey.Fingerprint", "gc_sign_fpr_from_priv_packet")
	o.hasStmt(gp, "Signature", "Sign", "sigdata, err := priv.PrivateKey.(crypto.Signer).Sign(config.Random(), digest, sig.Hash)", "gc_sign_rsa_with_priv_packet_key")
	o.hasStmt(gp, "Signature", "Sign", "sk := priv.PrivateKey.(*ecdsa.PrivateKey)", "gc_sign_ecdsa_with_priv_packet_key")
	// clearsign: issuer and value both from the packet handed in
	o.hasStmt(gcs, "", "Encode", "return EncodeMulti(w, []*packet.PrivateKey{privateKey}, config)", "gc_clearsign_encode_one_key")
	o.hasStmt(gcs, "dashEscaper", "Close", "sig.IssuerKeyId = &k.KeyId", "gc_clearsign_keyid_from_packet")
	o.hasStmt(gcs, "dashEscaper", "Close", "sig.IssuerFingerprint = k.Fingerprint", "gc_clearsign_fpr_from_packet")
	o.hasStmt(gcs, "dashEscaper", "Close", "if err = sig.Sign(d.hashers[i], k, d.config); err != nil { return }", "gc_clearsign_signs_with_packet")
	// go-rpmutils
	c07LitFields(o, ru, "", "makeSignature", "packet.Signature", "ru_signature_packet_fields")
	o.hasStmt(ru, "", "makeSignature", "err := sig.Sign(h, key, nil)", "ru_signs_with_packet")
	o.callOrder(ru, "", "SignRpmStream", "ru_sign_calls", []string{"makeSignature"})
	o.hasStmt(ru, "", "SignRpmStream", "sigPgp, err := makeSignature(combinedHash, key, opts)", "ru_pgp_sig_with_key")
	o.hasStmt(ru, "", "SignRpmStream", "sigRsa, err := makeSignature(genHash, key, opts)", "ru_rsa_sig_with_key")
	for _, fn := range [][3]string{{"lib/pgptools", "", "ClearSign"}, {"lib/pgptools", "", "DetachClearSign"}, {"lib/signdeb", "", "Sign"},
		{"signers/pgp", "", "sign"}, {"signers/rpm", "", "sign"}, {"signers/deb", "", "sign"}, {cl, "", "parsePGP"},
		{gc, "Entity", "signingKeyByIdUsage"}, {gc, "Entity", "PrimaryIdentity"}, {gc, "", "shouldPreferIdentity"}, {gc, "", "detachSign"},
		{gc, "", "createSignaturePacket"}, {gp, "Signature", "Sign"}, {gcs, "dashEscaper", "Close"}, {ru, "", "makeSignature"}, {ru, "", "SignRpmStream"}} {
		fingerprint(fn[0], fn[1], fn[2])
	}
}
