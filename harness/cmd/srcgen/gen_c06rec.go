package main

// gen_c06rec.go — C06, the CONTENT of the audit record.
//
// Generated/C06rec_gen.v carries, translated statement by statement into a small imperative language (types emitted
// below, interpreter in coq/C06/Record.v):
//   * lib/audit: New, SetPgpCert, SetX509Cert, SetTimestamp, SetCounterSignature, SetMimeType, GetMimeType, Marshal and
//     EVERY function or method of the package they reach (a helper that memoises, formats or looks something up is
//     translated too: its reads and writes of package-level variables become XGlobal terms);
//   * lib/x509tools FormatSubject / FormatIssuer; internal/authmodel *.AuditContext; signers SignOpts.SetBinPatch /
//     SetPkcs7 / WithContext; internal/signinit Init and PublishAudit;
//   * server serveSign and cmdline/token signCmd from their call of signinit.Init to the end ("window"), plus the
//     assignments made before it ("prelude": where keyName, filename, hash, ... come from);
//   * the table lib/x509tools.HashNames, the constants the code refers to;
//   * inventories: package-level variables of lib/audit, internal/signinit, internal/authmodel; every write to an
//     audit attribute anywhere in relic (file, function, key); every call of the identity setters SetX509Cert /
//     SetPgpCert / audit.New / PublishAudit anywhere in relic.
// A statement or expression the translator does not know becomes SUnknown / XUnk: the interpreter stops there and the
// theorems about the record no longer compute.

import (
	"fmt"
	"go/ast"
	"go/token"
	"os"
	"path/filepath"
	"sort"
	"strconv"
	"strings"
)

const c06recIR = `From Coq Require Strings.String Strings.Ascii.
Import String.StringSyntax.
Local Open Scope string_scope.
Definition zs06 (s : String.string) : bytes := map (fun a => Z.of_nat (Ascii.nat_of_ascii a)) (String.list_ascii_of_string s).
(* expressions and statements of the translated Go code *)
Inductive rx :=
| XVar (n : bytes)                                   (* parameter, receiver or local variable *)
| XGlobal (n : bytes)                                (* package-level VARIABLE of the function's own package, as "pkg.name" *)
| XExt (n : bytes) (isvar : bool)                    (* identifier of another package, as "pkg.Name"; isvar: it is a package-level variable there *)
| XStr (s : bytes) | XInt (z : Z) | XNil | XBool (b : bool)
| XSel (e : rx) (f : bytes)                          (* e.f *)
| XIndex (e k : rx)                                  (* e[k] *)
| XSlice (e lo hi : rx)                              (* e[lo:hi], XNil for an absent bound *)
| XCall (fn : bytes) (args : list rx)                (* "pkg.Func"(args): function of this or another package, builtin ("len", "make:T", "conv:T") *)
| XMeth (recv : rx) (m : bytes) (args : list rx)     (* recv.m(args) *)
| XBin (op : bytes) (a b : rx) | XNot (e : rx)
| XLit (ty : bytes) (addr : bool) (fs : list (bytes * rx))   (* T{f: e, ...} / &T{...} *)
| XAddr (e : rx) | XDeref (e : rx) | XAssert (e : rx) (ty : bytes)
| XUnk (src : bytes).                                (* not translated *)
Inductive rs :=
| SAssign (lhs rhs : list rx) (define : bool)        (* l1, l2 := r   /  l = r  (XVar "_" discards) *)
| SExpr (e : rx)
| SIf (init : list rs) (c : rx) (t e : list rs)
| SReturn (es : list rx)
| SDefer (e : rx)
| SUnknown (src : bytes).
(* name "pkg.Func" or "pkg.Type.Method"; is it a method; has it a pointer receiver; parameters (receiver first); body *)
Record rfun := mkFun { f_name : bytes; f_method : bool; f_ptr : bool; f_params : list bytes; f_body : list rs }.
`

const relicMod = "github.com/sassoftware/relic/v8/"

type recPkg struct {
	dir   string
	p     *pkgInfo
	name  string          // Go package name
	vars  map[string]bool // package-level variables
	funcs map[string]bool // plain functions
	meths map[string][]*ast.FuncDecl
	types map[string]bool
}

var recPkgs = map[string]*recPkg{}

func recLoad(dir string) *recPkg {
	if rp, ok := recPkgs[dir]; ok {
		return rp
	}
	rp := &recPkg{dir: dir, p: loadPkg(dir), vars: map[string]bool{}, funcs: map[string]bool{}, meths: map[string][]*ast.FuncDecl{}, types: map[string]bool{}}
	for _, f := range rp.p.files {
		rp.name = f.Name.Name
		for _, d := range f.Decls {
			switch x := d.(type) {
			case *ast.GenDecl:
				for _, s := range x.Specs {
					switch sp := s.(type) {
					case *ast.ValueSpec:
						if x.Tok == token.VAR {
							for _, n := range sp.Names {
								rp.vars[n.Name] = true
							}
						}
					case *ast.TypeSpec:
						rp.types[sp.Name.Name] = true
					}
				}
			case *ast.FuncDecl:
				if x.Recv == nil {
					rp.funcs[x.Name.Name] = true
				} else {
					rp.meths[x.Name.Name] = append(rp.meths[x.Name.Name], x)
				}
			}
		}
	}
	recPkgs[dir] = rp
	return rp
}

func recvTypeName(fd *ast.FuncDecl) string {
	if fd.Recv == nil || len(fd.Recv.List) != 1 {
		return ""
	}
	t := fd.Recv.List[0].Type
	if s, ok := t.(*ast.StarExpr); ok {
		t = s.X
	}
	if id, ok := t.(*ast.Ident); ok {
		return id.Name
	}
	return ""
}

// one function being translated
type recTr struct {
	rp      *recPkg
	file    *ast.File
	imports map[string]string // local name -> import path
	locals  map[string]bool
	calls   map[string]bool // same-package functions / method names called (for the closure)
	unk     []string
}

func (t *recTr) src(n ast.Node) string {
	return strings.Join(strings.Fields(printNode(t.rp.p.fset, n)), " ")
}

// a byte string: as a Coq string literal through zs06 when it is plain printable ASCII, else as a list of numbers
func coqBytes(s string) string {
	plain := len(s) <= 200
	for i := 0; plain && i < len(s); i++ {
		if s[i] < 32 || s[i] > 126 {
			plain = false
		}
	}
	if !plain {
		return bytesLit([]byte(s))
	}
	return "(zs06 \"" + strings.ReplaceAll(s, "\"", "\"\"") + "\")"
}

func coqList(items []string) string { return "[" + strings.Join(items, "; ") + "]" }

func (t *recTr) unknown(n ast.Node) string {
	s := t.src(n)
	if len(s) > 120 {
		s = s[:120]
	}
	t.unk = append(t.unk, s)
	return "XUnk " + coqBytes(s)
}

func fileOf(rp *recPkg, fd *ast.FuncDecl) *ast.File {
	for _, f := range rp.p.files {
		for _, d := range f.Decls {
			if d == ast.Decl(fd) {
				return f
			}
		}
	}
	return nil
}

func importsOf(f *ast.File) map[string]string {
	m := map[string]string{}
	if f == nil {
		return m
	}
	for _, im := range f.Imports {
		p, _ := strconv.Unquote(im.Path.Value)
		name := p[strings.LastIndex(p, "/")+1:]
		if strings.HasPrefix(name, "v") && len(name) <= 3 { // .../v8
			q := strings.TrimSuffix(p, "/"+name)
			name = q[strings.LastIndex(q, "/")+1:]
		}
		if im.Name != nil {
			name = im.Name.Name
		}
		m[name] = p
	}
	return m
}

func collectLocals(fd *ast.FuncDecl) map[string]bool {
	l := map[string]bool{}
	add := func(fl *ast.FieldList) {
		if fl == nil {
			return
		}
		for _, f := range fl.List {
			for _, n := range f.Names {
				l[n.Name] = true
			}
		}
	}
	add(fd.Recv)
	add(fd.Type.Params)
	add(fd.Type.Results)
	if fd.Body != nil {
		ast.Inspect(fd.Body, func(n ast.Node) bool {
			switch x := n.(type) {
			case *ast.AssignStmt:
				if x.Tok == token.DEFINE {
					for _, e := range x.Lhs {
						if id, ok := e.(*ast.Ident); ok {
							l[id.Name] = true
						}
					}
				}
			case *ast.ValueSpec:
				for _, n := range x.Names {
					l[n.Name] = true
				}
			case *ast.RangeStmt:
				for _, e := range []ast.Expr{x.Key, x.Value} {
					if id, ok := e.(*ast.Ident); ok {
						l[id.Name] = true
					}
				}
			case *ast.FuncLit:
				add(x.Type.Params)
			}
			return true
		})
	}
	return l
}

var recBuiltins = map[string]bool{"len": true, "cap": true, "append": true, "new": true, "panic": true, "delete": true, "copy": true, "min": true, "max": true}
var recConvTypes = map[string]bool{"string": true, "int": true, "int64": true, "int32": true, "uint": true, "uint32": true, "uint64": true, "byte": true, "float64": true, "bool": true, "error": true}

// the constant value of pkgdir.name if it is a constant with an integer or string literal value
func (t *recTr) constOf(dir, name string) (string, bool) {
	ce, p, si, vs := findConstExpr(dir, name)
	if vs == nil || p == nil {
		return "", false
	}
	// is it declared const?
	isConst := false
	for _, f := range p.files {
		for _, d := range f.Decls {
			if gd, ok := d.(*ast.GenDecl); ok && gd.Tok == token.CONST {
				for _, s := range gd.Specs {
					if s == ast.Spec(vs) {
						isConst = true
					}
				}
			}
		}
	}
	if !isConst || ce == nil {
		return "", false
	}
	if bl, ok := ce.(*ast.BasicLit); ok && bl.Kind == token.STRING {
		s, _ := strconv.Unquote(bl.Value)
		return "XStr " + coqBytes(s), true
	}
	if se, ok := ce.(*ast.SelectorExpr); ok { // const defaultHash = crypto.SHA256
		if id, ok := se.X.(*ast.Ident); ok {
			return "XExt " + coqBytes(id.Name+"."+se.Sel.Name) + " false", true
		}
	}
	v, err := evalConst(dir, ce, si)
	if err != nil || v.isFloat {
		return "", false
	}
	return "XInt " + c06recZ(v.i), true
}

func c06recZ(v int64) string {
	if v < 0 {
		return fmt.Sprintf("(%d)", v)
	}
	return strconv.FormatInt(v, 10)
}

func (t *recTr) args(as []ast.Expr) string {
	var s []string
	for _, a := range as {
		s = append(s, t.x(a))
	}
	return coqList(s)
}

func (t *recTr) x(e ast.Expr) string {
	switch x := e.(type) {
	case *ast.ParenExpr:
		return t.x(x.X)
	case *ast.Ident:
		switch {
		case x.Name == "nil":
			return "XNil"
		case x.Name == "true" || x.Name == "false":
			return "XBool " + x.Name
		case t.locals[x.Name] || x.Name == "_":
			return "XVar " + coqBytes(x.Name)
		case t.rp.vars[x.Name]:
			return "XGlobal " + coqBytes(t.rp.name+"."+x.Name)
		case t.rp.funcs[x.Name]:
			t.calls[x.Name] = true
			return "XExt " + coqBytes(t.rp.name+"."+x.Name) + " false"
		}
		if c, ok := t.constOf(t.rp.dir, x.Name); ok {
			return "(" + c + ")"
		}
		return t.unknown(x)
	case *ast.BasicLit:
		switch x.Kind {
		case token.INT:
			if v, err := strconv.ParseInt(x.Value, 0, 64); err == nil {
				return "XInt " + c06recZ(v)
			}
		case token.STRING:
			if s, err := strconv.Unquote(x.Value); err == nil {
				return "XStr " + coqBytes(s)
			}
		case token.CHAR:
			if r, _, _, err := strconv.UnquoteChar(x.Value[1:len(x.Value)-1], '\''); err == nil {
				return "XInt " + c06recZ(int64(r))
			}
		case token.FLOAT:
			if f, err := strconv.ParseFloat(x.Value, 64); err == nil && f == float64(int64(f)) {
				return "XInt " + c06recZ(int64(f))
			}
		}
		return t.unknown(x)
	case *ast.SelectorExpr:
		if id, ok := x.X.(*ast.Ident); ok && !t.locals[id.Name] {
			if path, ok := t.imports[id.Name]; ok {
				q := id.Name + "." + x.Sel.Name
				if strings.HasPrefix(path, relicMod) {
					dir := strings.TrimPrefix(path, relicMod)
					if c, ok := t.constOf(dir, x.Sel.Name); ok {
						return "(" + c + ")"
					}
					op := recLoad(dir)
					q = op.name + "." + x.Sel.Name
					return "XExt " + coqBytes(q) + " " + strconv.FormatBool(op.vars[x.Sel.Name])
				}
				// another module or the standard library: os.Stderr, crypto.SHA1, ... (whether it is a variable is not known here: the
				// interpreter knows the ones it gives a meaning to)
				return "XExt " + coqBytes(q) + " false"
			}
		}
		return "XSel (" + t.x(x.X) + ") " + coqBytes(x.Sel.Name)
	case *ast.IndexExpr:
		return "XIndex (" + t.x(x.X) + ") (" + t.x(x.Index) + ")"
	case *ast.SliceExpr:
		if x.Slice3 {
			return t.unknown(x)
		}
		lo, hi := "XNil", "XNil"
		if x.Low != nil {
			lo = t.x(x.Low)
		}
		if x.High != nil {
			hi = t.x(x.High)
		}
		return "XSlice (" + t.x(x.X) + ") (" + lo + ") (" + hi + ")"
	case *ast.StarExpr:
		return "XDeref (" + t.x(x.X) + ")"
	case *ast.TypeAssertExpr:
		if x.Type == nil {
			return t.unknown(x)
		}
		return "XAssert (" + t.x(x.X) + ") " + coqBytes(t.src(x.Type))
	case *ast.UnaryExpr:
		switch x.Op {
		case token.AND:
			if cl, ok := x.X.(*ast.CompositeLit); ok {
				return t.lit(cl, true)
			}
			return "XAddr (" + t.x(x.X) + ")"
		case token.NOT:
			return "XNot (" + t.x(x.X) + ")"
		case token.SUB:
			return "XBin " + coqBytes("-") + " (XInt 0) (" + t.x(x.X) + ")"
		}
		return t.unknown(x)
	case *ast.BinaryExpr:
		return "XBin " + coqBytes(x.Op.String()) + " (" + t.x(x.X) + ") (" + t.x(x.Y) + ")"
	case *ast.CompositeLit:
		return t.lit(x, false)
	case *ast.CallExpr:
		if x.Ellipsis != token.NoPos {
			return t.unknown(x)
		}
		switch f := x.Fun.(type) {
		case *ast.Ident:
			switch {
			case t.locals[f.Name]:
				return "XMeth (" + t.x(f) + ") " + coqBytes("()") + " " + t.args(x.Args) // call of a function value
			case f.Name == "make" && len(x.Args) >= 1:
				return "XCall " + coqBytes("make:"+t.src(x.Args[0])) + " " + t.args(x.Args[1:])
			case recBuiltins[f.Name]:
				return "XCall " + coqBytes(f.Name) + " " + t.args(x.Args)
			case t.rp.funcs[f.Name]:
				t.calls[f.Name] = true
				return "XCall " + coqBytes(t.rp.name+"."+f.Name) + " " + t.args(x.Args)
			case (recConvTypes[f.Name] || t.rp.types[f.Name]) && len(x.Args) == 1:
				return "XCall " + coqBytes("conv:"+f.Name) + " " + t.args(x.Args)
			}
			return t.unknown(x)
		case *ast.SelectorExpr:
			if id, ok := f.X.(*ast.Ident); ok && !t.locals[id.Name] {
				if path, ok := t.imports[id.Name]; ok {
					q := id.Name + "." + f.Sel.Name
					if strings.HasPrefix(path, relicMod) {
						op := recLoad(strings.TrimPrefix(path, relicMod))
						q = op.name + "." + f.Sel.Name
						if op.types[f.Sel.Name] && len(x.Args) == 1 {
							return "XCall " + coqBytes("conv:"+q) + " " + t.args(x.Args)
						}
					}
					return "XCall " + coqBytes(q) + " " + t.args(x.Args)
				}
			}
			t.calls["."+f.Sel.Name] = true
			return "XMeth (" + t.x(f.X) + ") " + coqBytes(f.Sel.Name) + " " + t.args(x.Args)
		case *ast.ArrayType, *ast.MapType, *ast.InterfaceType:
			if len(x.Args) == 1 {
				return "XCall " + coqBytes("conv:"+t.src(f)) + " " + t.args(x.Args)
			}
		case *ast.ParenExpr:
			if len(x.Args) == 1 {
				return "XCall " + coqBytes("conv:"+t.src(f.X)) + " " + t.args(x.Args)
			}
		}
		return t.unknown(x)
	}
	return t.unknown(e)
}

func (t *recTr) lit(cl *ast.CompositeLit, addr bool) string {
	ty := "?"
	if cl.Type != nil {
		ty = t.src(cl.Type)
		if id, ok := cl.Type.(*ast.Ident); ok && t.rp.types[id.Name] {
			ty = t.rp.name + "." + id.Name
		}
	}
	var fs []string
	for i, el := range cl.Elts {
		if kv, ok := el.(*ast.KeyValueExpr); ok {
			k := t.src(kv.Key)
			if _, isId := kv.Key.(*ast.Ident); !isId {
				// map / array literal keyed by expressions: keep the key expression as text after '='
				k = "=" + k
			}
			fs = append(fs, "("+coqBytes(k)+", "+t.x(kv.Value)+")")
		} else {
			fs = append(fs, "("+coqBytes("#"+strconv.Itoa(i))+", "+t.x(el)+")")
		}
	}
	return "XLit " + coqBytes(ty) + " " + strconv.FormatBool(addr) + " " + coqList(fs)
}

func (t *recTr) unknownStmt(n ast.Node) string {
	s := t.src(n)
	if len(s) > 120 {
		s = s[:120]
	}
	t.unk = append(t.unk, s)
	return "SUnknown " + coqBytes(s)
}

func (t *recTr) stmt(s ast.Stmt) []string {
	switch x := s.(type) {
	case *ast.AssignStmt:
		var l, r []string
		for _, e := range x.Lhs {
			l = append(l, t.x(e))
		}
		switch x.Tok {
		case token.ASSIGN, token.DEFINE:
			for _, e := range x.Rhs {
				r = append(r, t.x(e))
			}
			return []string{"SAssign " + coqList(l) + " " + coqList(r) + " " + strconv.FormatBool(x.Tok == token.DEFINE)}
		default:
			op := strings.TrimSuffix(x.Tok.String(), "=")
			if len(x.Lhs) == 1 && len(x.Rhs) == 1 && op != "" {
				return []string{"SAssign " + coqList(l) + " [XBin " + coqBytes(op) + " (" + l[0] + ") (" + t.x(x.Rhs[0]) + ")] false"}
			}
		}
		return []string{t.unknownStmt(x)}
	case *ast.IncDecStmt:
		op := "+"
		if x.Tok == token.DEC {
			op = "-"
		}
		l := t.x(x.X)
		return []string{"SAssign [" + l + "] [XBin " + coqBytes(op) + " (" + l + ") (XInt 1)] false"}
	case *ast.ExprStmt:
		return []string{"SExpr (" + t.x(x.X) + ")"}
	case *ast.DeferStmt:
		return []string{"SDefer (" + t.x(x.Call) + ")"}
	case *ast.ReturnStmt:
		var r []string
		for _, e := range x.Results {
			r = append(r, t.x(e))
		}
		return []string{"SReturn " + coqList(r)}
	case *ast.BlockStmt:
		return t.stmts(x.List)
	case *ast.DeclStmt:
		gd, ok := x.Decl.(*ast.GenDecl)
		if !ok || gd.Tok != token.VAR {
			return []string{t.unknownStmt(x)}
		}
		var out []string
		for _, sp := range gd.Specs {
			vs := sp.(*ast.ValueSpec)
			var l, r []string
			for _, n := range vs.Names {
				l = append(l, "XVar "+coqBytes(n.Name))
			}
			if len(vs.Values) == 0 {
				ty := "?"
				if vs.Type != nil {
					ty = t.src(vs.Type)
				}
				for range vs.Names {
					r = append(r, "XCall "+coqBytes("zero:"+ty)+" []")
				}
			} else {
				for _, v := range vs.Values {
					r = append(r, t.x(v))
				}
			}
			out = append(out, "SAssign "+coqList(l)+" "+coqList(r)+" true")
		}
		return out
	case *ast.IfStmt:
		var init []string
		if x.Init != nil {
			init = t.stmt(x.Init)
		}
		var el []string
		switch e := x.Else.(type) {
		case nil:
		case *ast.BlockStmt:
			el = t.stmts(e.List)
		default:
			el = t.stmt(e)
		}
		return []string{"SIf " + coqList(init) + " (" + t.x(x.Cond) + ")\n      " + coqList(t.stmts(x.Body.List)) + "\n      " + coqList(el)}
	case *ast.EmptyStmt:
		return nil
	}
	return []string{t.unknownStmt(s)}
}

func (t *recTr) stmts(list []ast.Stmt) []string {
	var out []string
	for _, s := range list {
		out = append(out, t.stmt(s)...)
	}
	return out
}

type recFun struct {
	name   string
	method bool
	ptr    bool
	params []string
	body   []string
	unk    []string
	calls  map[string]bool
}

func recTranslate(rp *recPkg, fd *ast.FuncDecl, from int) *recFun {
	t := &recTr{rp: rp, file: fileOf(rp, fd), locals: collectLocals(fd), calls: map[string]bool{}}
	t.imports = importsOf(t.file)
	rf := &recFun{name: rp.name + "." + fd.Name.Name, calls: t.calls}
	if r := recvTypeName(fd); r != "" {
		rf.name, rf.method = rp.name+"."+r+"."+fd.Name.Name, true
		_, rf.ptr = fd.Recv.List[0].Type.(*ast.StarExpr)
		if n := fd.Recv.List[0].Names; len(n) == 1 {
			rf.params = append(rf.params, n[0].Name)
		} else {
			rf.params = append(rf.params, "_")
		}
	}
	for _, f := range fd.Type.Params.List {
		if len(f.Names) == 0 {
			rf.params = append(rf.params, "_")
		}
		for _, n := range f.Names {
			rf.params = append(rf.params, n.Name)
		}
	}
	rf.body = t.stmts(fd.Body.List[from:])
	rf.unk = t.unk
	return rf
}

func (rf *recFun) coq() string {
	var ps []string
	for _, p := range rf.params {
		ps = append(ps, coqBytes(p))
	}
	return fmt.Sprintf("  mkFun %s %v %v %s (* %s *)\n    [%s]", coqBytes(rf.name), rf.method, rf.ptr, coqList(ps), rf.name, strings.Join(rf.body, ";\n     "))
}

// index of the first top-level statement of fd whose text contains marker
func stmtIndex(rp *recPkg, fd *ast.FuncDecl, marker string) int {
	for i, s := range fd.Body.List {
		if strings.Contains(printNode(rp.p.fset, s), marker) {
			return i
		}
	}
	return -1
}

// every assignment made by the statements before the window, in source order: (variables, right-hand side)
func recPrelude(rp *recPkg, fd *ast.FuncDecl, upto int) []string {
	t := &recTr{rp: rp, file: fileOf(rp, fd), locals: collectLocals(fd), calls: map[string]bool{}}
	t.imports = importsOf(t.file)
	var out []string
	for _, s := range fd.Body.List[:upto] {
		ast.Inspect(s, func(n ast.Node) bool {
			as, ok := n.(*ast.AssignStmt)
			if !ok {
				return true
			}
			var names []string
			for _, l := range as.Lhs {
				names = append(names, t.src(l))
			}
			var r []string
			for _, e := range as.Rhs {
				r = append(r, t.x(e))
			}
			out = append(out, "  ("+coqBytes(strings.Join(names, ","))+", "+coqList(r)+") (* "+t.src(as)+" *)")
			return true
		})
	}
	return out
}

func recJoin(items []string) string {
	for i, it := range items { // a double quote inside a Coq comment opens a string: keep comments free of them
		if k := strings.LastIndex(it, " (* "); k >= 0 && strings.HasSuffix(it, "*)") {
			items[i] = it[:k] + strings.ReplaceAll(it[k:], "\"", "'")
		}
	}
	for i, it := range items {
		if i == len(items)-1 {
			break
		}
		if k := strings.LastIndex(it, " (* "); k >= 0 && strings.HasSuffix(it, "*)") {
			items[i] = it[:k] + ";" + it[k:]
		} else {
			items[i] = it + ";"
		}
	}
	return strings.Join(items, "\n")
}

// ---- repository-wide inventories

func recWalkRepo(visit func(rel string, fset *token.FileSet, f *ast.File)) {
	var dirs []string
	filepath.Walk(repo, func(p string, info os.FileInfo, err error) error {
		if err != nil {
			return nil
		}
		if info.IsDir() {
			n := info.Name()
			if p != repo && (strings.HasPrefix(n, ".") || n == "vendor" || n == "functest" || n == "testdata" || n == "verifhooks") {
				return filepath.SkipDir
			}
			dirs = append(dirs, p)
		}
		return nil
	})
	sort.Strings(dirs)
	for _, d := range dirs {
		rel, _ := filepath.Rel(repo, d)
		if rel == "." {
			continue
		}
		p := loadPkg(rel)
		var names []string
		for n := range p.files {
			names = append(names, n)
		}
		sort.Strings(names)
		for _, n := range names {
			visit(rel+"/"+n, p.fset, p.files[n])
		}
	}
}

func enclosingFuncs(f *ast.File, visit func(fn string, body *ast.BlockStmt)) {
	for _, d := range f.Decls {
		if fd, ok := d.(*ast.FuncDecl); ok && fd.Body != nil {
			n := fd.Name.Name
			if r := recvTypeName(fd); r != "" {
				n = r + "." + n
			}
			visit(n, fd.Body)
		}
	}
}

func genC06Rec(o *out) {
	o.f("%s\n", c06recIR)
	var funs []*recFun
	have := map[string]bool{}
	var broken06 []string
	add := func(dir, recv, name string, closure bool) {
		rp := recLoad(dir)
		var todo []*ast.FuncDecl
		_, fd := findFunc(dir, recv, name)
		if fd == nil {
			broken06 = append(broken06, fmt.Sprintf("function %s:%s.%s not found", dir, recv, name))
			return
		}
		todo = append(todo, fd)
		for len(todo) > 0 {
			fd := todo[0]
			todo = todo[1:]
			rf := recTranslate(rp, fd, 0)
			if have[rf.name] {
				continue
			}
			have[rf.name] = true
			funs = append(funs, rf)
			if !closure {
				continue
			}
			var cs []string
			for c := range rf.calls {
				cs = append(cs, c)
			}
			sort.Strings(cs)
			for _, c := range cs {
				if strings.HasPrefix(c, ".") {
					todo = append(todo, rp.meths[c[1:]]...)
				} else if _, fd2 := findFunc(dir, "", c); fd2 != nil {
					todo = append(todo, fd2)
				}
			}
		}
	}
	add("lib/audit", "", "New", true)
	for _, m := range []string{"SetPgpCert", "SetX509Cert", "SetTimestamp", "SetCounterSignature", "SetMimeType", "GetMimeType", "Marshal"} {
		add("lib/audit", "Info", m, true)
	}
	add("lib/x509tools", "", "FormatSubject", false)
	add("lib/x509tools", "", "FormatIssuer", false)
	add("internal/authmodel", "CertificateInfo", "AuditContext", false)
	add("internal/authmodel", "PolicyInfo", "AuditContext", false)
	add("signers", "SignOpts", "SetBinPatch", false)
	add("signers", "SignOpts", "SetPkcs7", false)
	add("signers", "SignOpts", "WithContext", false)
	add("internal/signinit", "", "Init", false)
	add("internal/signinit", "", "PublishAudit", false)
	// the two callers: window from the call of signinit.Init to the end, and what was assigned before it
	type win struct{ dir, recv, name, coq string }
	var preludes []string
	for _, w := range []win{{"server", "Server", "serveSign", "servesign"}, {"cmdline/token", "", "signCmd", "signcmd"}} {
		rp := recLoad(w.dir)
		_, fd := findFunc(w.dir, w.recv, w.name)
		if fd == nil {
			broken06 = append(broken06, "function "+w.dir+":"+w.name+" not found")
			continue
		}
		k := stmtIndex(rp, fd, "signinit.Init(")
		if k < 0 {
			broken06 = append(broken06, w.name+" no longer calls signinit.Init at its top level")
			continue
		}
		rf := recTranslate(rp, fd, k)
		rf.name += ":window"
		funs = append(funs, rf)
		preludes = append(preludes, fmt.Sprintf("Definition %s_prelude : list (bytes * list rx) := Eval vm_compute in [\n%s\n].\n", w.coq, recJoin(recPrelude(rp, fd, k))))
	}
	if len(broken06) > 0 {
		o.brokenDef("rec_funcs", strings.Join(broken06, " | "))
	} else {
		var fs []string
		var unk []string
		for _, rf := range funs {
			fs = append(fs, rf.coq())
			for _, u := range rf.unk {
				unk = append(unk, rf.name+": "+u)
			}
		}
		o.f("Definition rec_funcs : list rfun := Eval vm_compute in [\n%s\n].\n", strings.Join(fs, ";\n"))
		var us []string
		for _, u := range unk {
			us = append(us, "  "+coqBytes(u)+" (* "+u+" *)")
		}
		o.f("(* statements and expressions the translator did not understand (the interpreter stops on them) *)\nDefinition rec_untranslated : list bytes := Eval vm_compute in [\n%s\n].\n", recJoin(us))
		for _, p := range preludes {
			o.f("%s", p)
		}
	}
	// ---- lib/x509tools.HashNames
	func() {
		ce, p, _, _ := findConstExpr("lib/x509tools", "HashNames")
		cl, ok := ce.(*ast.CompositeLit)
		if !ok {
			o.brokenDef("hash_names", "lib/x509tools.HashNames is not a map literal")
			return
		}
		ids := map[string]int{"crypto.MD4": 1, "crypto.MD5": 2, "crypto.SHA1": 3, "crypto.SHA224": 4, "crypto.SHA256": 5, "crypto.SHA384": 6, "crypto.SHA512": 7,
			"crypto.MD5SHA1": 8, "crypto.RIPEMD160": 9, "crypto.SHA3_224": 10, "crypto.SHA3_256": 11, "crypto.SHA3_384": 12, "crypto.SHA3_512": 13,
			"crypto.SHA512_224": 14, "crypto.SHA512_256": 15}
		var items []string
		for _, el := range cl.Elts {
			kv, ok := el.(*ast.KeyValueExpr)
			if !ok {
				o.brokenDef("hash_names", "entry without key")
				return
			}
			k := strings.Join(strings.Fields(printNode(p.fset, kv.Key)), "")
			id, ok1 := ids[k]
			bl, ok2 := kv.Value.(*ast.BasicLit)
			if !ok1 || !ok2 || bl.Kind != token.STRING {
				o.brokenDef("hash_names", "entry not understood: "+k)
				return
			}
			s, _ := strconv.Unquote(bl.Value)
			items = append(items, fmt.Sprintf("  (%d, %s) (* %s: %q *)", id, coqBytes(s), k, s))
		}
		o.f("(* lib/x509tools.HashNames (keys are crypto.Hash values of the Go standard library) *)\nDefinition hash_names : list (Z * bytes) := Eval vm_compute in [\n%s\n].\n", recJoin(items))
	}()
	// ---- package-level variables of the packages that build the record
	var pv []string
	for _, d := range []string{"lib/audit", "internal/signinit", "internal/authmodel"} {
		rp := recLoad(d)
		if len(rp.p.files) == 0 {
			o.brokenDef("rec_pkg_vars", "package "+d+" has no files")
		}
		var names []string
		for n := range rp.p.files {
			names = append(names, n)
		}
		sort.Strings(names)
		for _, fn := range names {
			for _, decl := range rp.p.files[fn].Decls {
				gd, ok := decl.(*ast.GenDecl)
				if !ok || gd.Tok != token.VAR {
					continue
				}
				for _, sp := range gd.Specs {
					vs := sp.(*ast.ValueSpec)
					for i, n := range vs.Names {
						ty := ""
						if vs.Type != nil {
							ty = strings.Join(strings.Fields(printNode(rp.p.fset, vs.Type)), " ")
						} else if len(vs.Values) > i {
							ty = "= " + strings.Join(strings.Fields(printNode(rp.p.fset, vs.Values[i])), " ")
							if k := strings.IndexAny(ty, "{("); k >= 0 { // initialiser: keep the type / callee only
								ty = ty[:k]
							}
						}
						pv = append(pv, fmt.Sprintf("  (%s, %s) (* %s: var %s %s *)", coqBytes(d+"."+n.Name), coqBytes(ty), d, n.Name, ty))
					}
				}
			}
		}
	}
	o.f("(* package-level variables of lib/audit, internal/signinit, internal/authmodel: (package.name, declared type or initialiser) *)\nDefinition rec_pkg_vars : list (bytes * bytes) := Eval vm_compute in [\n%s\n].\n", recJoin(pv))
	// ---- every write to an audit attribute and every call of an identity setter, anywhere in relic
	var writes, calls []string
	setters := map[string]bool{"SetX509Cert": true, "SetPgpCert": true, "PublishAudit": true}
	recWalkRepo(func(rel string, fset *token.FileSet, f *ast.File) {
		if strings.HasPrefix(rel, "cmdline/auditor/") {
			return // the consumer of audit records, not a producer
		}
		enclosingFuncs(f, func(fn string, body *ast.BlockStmt) {
			ast.Inspect(body, func(n ast.Node) bool {
				switch x := n.(type) {
				case *ast.AssignStmt:
					for _, l := range x.Lhs {
						ix, ok := l.(*ast.IndexExpr)
						if !ok {
							continue
						}
						base := strings.Join(strings.Fields(printNode(fset, ix.X)), "")
						if !strings.HasSuffix(base, ".Attributes") && !(rel == "lib/audit/audit.go" && base == "a") {
							continue
						}
						key := "?"
						if bl, ok := ix.Index.(*ast.BasicLit); ok && bl.Kind == token.STRING {
							key, _ = strconv.Unquote(bl.Value)
						}
						writes = append(writes, fmt.Sprintf("  (%s, %s, %s) (* %s %s: %s[%q] *)", coqBytes(rel), coqBytes(fn), coqBytes(key), rel, fn, base, key))
					}
				case *ast.CallExpr:
					name := ""
					switch f := x.Fun.(type) {
					case *ast.SelectorExpr:
						name = f.Sel.Name
						if id, ok := f.X.(*ast.Ident); ok && id.Name == "audit" && name == "New" {
							name = "audit.New"
						}
					case *ast.Ident:
						name = f.Name
					}
					if setters[name] || name == "audit.New" {
						arg := ""
						if len(x.Args) > 0 {
							arg = strings.Join(strings.Fields(printNode(fset, x.Args[0])), "")
						}
						calls = append(calls, fmt.Sprintf("  (%s, %s, %s, %s) (* %s %s: %s(%s...) *)", coqBytes(rel), coqBytes(fn), coqBytes(name), coqBytes(arg), rel, fn, name, arg))
					}
				}
				return true
			})
		})
	})
	o.f("(* every assignment to an audit attribute in relic (file, function, attribute key; \"?\" = key is not a literal) *)\nDefinition attr_writes : list (bytes * bytes * bytes) := Eval vm_compute in [\n%s\n].\n", recJoin(writes))
	o.f("(* every call of audit.New / SetX509Cert / SetPgpCert / PublishAudit in relic (file, function, callee, first argument) *)\nDefinition setter_calls : list (bytes * bytes * bytes * bytes) := Eval vm_compute in [\n%s\n].\n", recJoin(calls))
	for _, fn := range [][3]string{{"lib/audit", "Info", "SetX509Cert"}, {"lib/audit", "Info", "SetPgpCert"}, {"lib/audit", "Info", "SetCounterSignature"},
		{"internal/authmodel", "CertificateInfo", "AuditContext"}, {"signers", "SignOpts", "SetPkcs7"}, {"signers", "SignOpts", "SetBinPatch"}} {
		fingerprint(fn[0], fn[1], fn[2])
	}
}

func init() {
	generators["C06rec_gen"] = genC06Rec
}
