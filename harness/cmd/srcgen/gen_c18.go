package main

import (
	"fmt"
	"go/ast"
	"go/token"
	"strconv"
	"strings"
	"unicode"
)

// c18ReturnOfIf translates the single `return <expr>` in the body of the nth if statement (source order) of a function.
func (o *out) c18ReturnOfIf(fs funcSpec, nth int) {
	p, fd := findFunc(fs.dir, fs.recv, fs.name)
	if fd == nil {
		o.brokenDef(fs.coqName, "function "+fs.dir+":"+fs.recv+"."+fs.name+" not found")
		return
	}
	var found ast.Expr
	k := 0
	ast.Inspect(fd.Body, func(n ast.Node) bool {
		if found != nil {
			return false
		}
		if is, ok := n.(*ast.IfStmt); ok {
			if k == nth && len(is.Body.List) == 1 {
				if rs, ok := is.Body.List[0].(*ast.ReturnStmt); ok && len(rs.Results) == 1 {
					found = rs.Results[0]
					return false
				}
			}
			k++
		}
		return true
	})
	if found == nil {
		o.brokenDef(fs.coqName, fmt.Sprintf("if statement #%d of %s is not `if c { return e }`", nth, fs.name))
		return
	}
	t := o.newTr(p, fs)
	c := t.expr(found)
	if t.err != nil {
		o.brokenDef(fs.coqName, t.err.Error())
		return
	}
	o.f("Definition %s %s : %s :=\n  %s.\n(* from %s:%s.%s : return %s *)\n", fs.coqName, fs.params, fs.retType, c, fs.dir, fs.recv, fs.name,
		strings.ReplaceAll(printNode(p.fset, found), "*)", "* )"))
}

// c18LastReturn translates the final `return <expr>` statement of a function body.
func (o *out) c18LastReturn(fs funcSpec) {
	p, fd := findFunc(fs.dir, fs.recv, fs.name)
	if fd == nil || len(fd.Body.List) == 0 {
		o.brokenDef(fs.coqName, "function "+fs.dir+":"+fs.recv+"."+fs.name+" not found")
		return
	}
	rs, ok := fd.Body.List[len(fd.Body.List)-1].(*ast.ReturnStmt)
	if !ok || len(rs.Results) != 1 {
		o.brokenDef(fs.coqName, "last statement of "+fs.name+" is not a single-value return")
		return
	}
	t := o.newTr(p, fs)
	c := t.expr(rs.Results[0])
	if t.err != nil {
		o.brokenDef(fs.coqName, t.err.Error())
		return
	}
	o.f("Definition %s %s : %s :=\n  %s.\n(* from %s:%s.%s : final return %s *)\n", fs.coqName, fs.params, fs.retType, c, fs.dir, fs.recv, fs.name,
		printNode(p.fset, rs.Results[0]))
}

// c18UpperRuns: unicode.ToUpper of the toolchain that builds relic, restricted to single UTF-16 code units outside the
// surrogate range, as maximal runs (lo, hi, delta) with ToUpper(u) = u + delta.
func (o *out) c18UpperRuns(coqName string) {
	var parts []string
	lo, hi, delta := -1, -1, 0
	flush := func() {
		if lo >= 0 {
			parts = append(parts, fmt.Sprintf("(%d, %d, %s)", lo, hi, zlit(delta)))
		}
		lo = -1
	}
	for u := 0; u < 0x10000; u++ {
		if u >= 0xd800 && u <= 0xdfff {
			flush()
			continue
		}
		d := int(unicode.ToUpper(rune(u))) - u
		if d == 0 {
			flush()
			continue
		}
		if lo >= 0 && d == delta && u == hi+1 {
			hi = u
			continue
		}
		flush()
		lo, hi, delta = u, u, d
	}
	flush()
	o.f("Definition %s : list (Z * Z * Z) := [%s].\n(* unicode.ToUpper (Unicode %s) on UTF-16 code units: %d runs *)\n", coqName, strings.Join(parts, "; "), unicode.Version, len(parts))
}

func zlit(v int) string {
	if v < 0 {
		return fmt.Sprintf("(%d)", v)
	}
	return strconv.Itoa(v)
}

// c18NewNodeRed: in redblack.Tree.Insert, is the new node created with Red: true ?
func (o *out) c18NewNodeRed(coqName string) {
	const d = "lib/redblack"
	p, fd := findFunc(d, "Tree", "Insert")
	if fd == nil {
		o.brokenDef(coqName, "function lib/redblack:Tree.Insert not found")
		return
	}
	found, red := false, false
	ast.Inspect(fd.Body, func(n ast.Node) bool {
		cl, ok := n.(*ast.CompositeLit)
		if !ok || !strings.HasSuffix(printNode(p.fset, cl.Type), "Node") {
			return true
		}
		found = true
		for _, el := range cl.Elts {
			if kv, ok := el.(*ast.KeyValueExpr); ok && printNode(p.fset, kv.Key) == "Red" {
				v := printNode(p.fset, kv.Value)
				if v == "true" {
					red = true
				} else if v != "false" {
					found = false
				}
			}
		}
		return false
	})
	if !found {
		o.brokenDef(coqName, "no Node{...} literal with a constant Red field in Tree.Insert")
		return
	}
	o.f("Definition %s : bool := %v. (* lib/redblack:Tree.Insert creates the node with Red: %v *)\n", coqName, red, red)
}

// c18ByteVar: a package-level []byte{...} variable as a list of Z
func (o *out) c18ByteVar(dir, goName, coqName string) {
	ce, _, _, _ := findConstExpr(dir, goName)
	cl, ok := ce.(*ast.CompositeLit)
	if ce == nil || !ok {
		o.brokenDef(coqName, "byte slice variable "+dir+"."+goName+" not found")
		return
	}
	var parts []string
	for _, el := range cl.Elts {
		bl, ok := el.(*ast.BasicLit)
		if !ok || bl.Kind != token.INT {
			o.brokenDef(coqName, "non-literal element in "+goName)
			return
		}
		v, err := strconv.ParseInt(bl.Value, 0, 64)
		if err != nil {
			o.brokenDef(coqName, "bad literal in "+goName)
			return
		}
		parts = append(parts, strconv.FormatInt(v, 10))
	}
	o.f("Definition %s : list Z := [%s]. (* %s.%s *)\n", coqName, strings.Join(parts, "; "), dir, goName)
}

func init() {
	generators["C18_gen"] = func(o *out) {
		const d = "lib/comdoc"
		const a = "lib/authenticode"
		const rb = "lib/redblack"
		for _, c := range [][2]string{{"SecIDFree", "secid_free"}, {"SecIDEndOfChain", "secid_eoc"}, {"SecIDSAT", "secid_sat"}, {"SecIDMSAT", "secid_msat"},
			{"DirEmpty", "dir_empty"}, {"DirStorage", "dir_storage"}, {"DirStream", "dir_stream"}, {"DirRoot", "dir_root"},
			{"Red", "color_red"}, {"Black", "color_black"}, {"byteOrderMarker", "byte_order_marker"}, {"msatInHeader", "msat_in_header"}} {
			o.constInt(d, c[0], c[1])
		}
		o.c18ByteVar(d, "fileMagic", "file_magic")
		o.structLayout(d, "Header", "hdr")
		o.structLayout(d, "RawDirEnt", "de")
		// reader: header sanity and sector geometry
		hl := map[string]string{"header.SectorSize": "sshift", "header.ShortSectorSize": "mshift", "r.SectorSize": "ss"}
		o.condOf(funcSpec{dir: d, name: "openFile", coqName: "open_unreasonable", params: "(sshift mshift : Z)", retType: "bool", leaves: hl}, "if:header.SectorSize")
		o.condOf(funcSpec{dir: d, name: "openFile", coqName: "open_small_sector", params: "(ss : Z)", retType: "bool", leaves: hl}, "if:r.SectorSize", 1)
		nl := map[string]string{"e.NameLength": "namelen", "e.Type": "typ", "used": "used"}
		o.exprOfAssign(funcSpec{dir: d, recv: "RawDirEnt", name: "Name", coqName: "name_used", params: "(namelen : Z)", retType: "Z", leaves: nl}, "used", 0)
		o.condOf(funcSpec{dir: d, recv: "RawDirEnt", name: "Name", coqName: "name_is_empty", params: "(typ used : Z)", retType: "bool", leaves: nl}, "if:used")
		// writer: short/long decision
		wl := map[string]string{"len(contents)": "len", "r.Header.MinStdStreamSize": "cutoff", "item.StreamSize": "size"}
		o.exprOfAssign(funcSpec{dir: d, recv: "ComDoc", name: "AddFile", coqName: "add_is_short", params: "(len cutoff : Z)", retType: "bool", leaves: wl}, "isShort", 0)
		o.condOf(funcSpec{dir: d, recv: "ComDoc", name: "DeleteFile", coqName: "delete_is_short", params: "(size cutoff : Z)", retType: "bool", leaves: wl}, "if:item.StreamSize")
		// sector allocation
		ml := map[string]string{"count": "count", "sectorsPerBlock": "per_block", "r.SectorSize": "ss", "j": "entry"}
		o.condOf(funcSpec{dir: d, recv: "ComDoc", name: "makeFreeSectors", coqName: "mfs_nothing", params: "(count : Z)", retType: "bool", leaves: ml}, "if:count", 0)
		o.condOf(funcSpec{dir: d, recv: "ComDoc", name: "makeFreeSectors", coqName: "mfs_skip", params: "(entry : Z)", retType: "bool", leaves: ml}, "if:j")
		o.exprOfAssign(funcSpec{dir: d, recv: "ComDoc", name: "makeFreeSectors", coqName: "mfs_per_block", params: "(ss : Z)", retType: "Z", leaves: ml}, "sectorsPerBlock", 0)
		o.exprOfAssign(funcSpec{dir: d, recv: "ComDoc", name: "makeFreeSectors", coqName: "mfs_need_blocks", params: "(count per_block : Z)", retType: "Z", leaves: ml}, "needBlocks", 0)
		sl := map[string]string{"len(contents)": "len", "sectorSize": "sector_size"}
		o.exprOfAssign(funcSpec{dir: d, recv: "ComDoc", name: "addStream", coqName: "stream_need_short", params: "(len sector_size : Z)", retType: "Z", leaves: sl}, "needSectors", 0)
		o.exprOfAssign(funcSpec{dir: d, recv: "ComDoc", name: "addStream", coqName: "stream_need_long", params: "(len sector_size : Z)", retType: "Z", leaves: sl}, "needSectors", 1)
		o.condOf(funcSpec{dir: d, name: "freeSectors", coqName: "free_stop", params: "(next : Z)", retType: "bool", leaves: map[string]string{"nextSector": "next"}}, "if:nextSector")
		// mini stream growth
		ql := map[string]string{"int(shortSector)": "short_sector", "shortSector + 1": "(short_sector + 1)", "r.ShortSectorSize": "mss", "r.SectorSize": "ss",
			"bigSectorIndex": "big_index", "streamLength": "stream_length", "root.StreamSize": "root_size", "next": "next"}
		o.exprOfAssign(funcSpec{dir: d, recv: "ComDoc", name: "writeShortSector", coqName: "wss_big_index", params: "(short_sector mss ss : Z)", retType: "Z", leaves: ql}, "bigSectorIndex", 0)
		o.exprOfAssign(funcSpec{dir: d, recv: "ComDoc", name: "writeShortSector", coqName: "wss_stream_length", params: "(short_sector mss : Z)", retType: "Z", leaves: ql}, "streamLength", 0)
		o.condOf(funcSpec{dir: d, recv: "ComDoc", name: "writeShortSector", coqName: "wss_walk_more", params: "(big_index : Z)", retType: "bool", leaves: ql}, "for:bigSectorIndex")
		o.condOf(funcSpec{dir: d, recv: "ComDoc", name: "writeShortSector", coqName: "wss_walk_stop", params: "(next : Z)", retType: "bool", leaves: ql}, "if:next")
		o.condOf(funcSpec{dir: d, recv: "ComDoc", name: "writeShortSector", coqName: "wss_extend", params: "(big_index : Z)", retType: "bool", leaves: ql}, "if:bigSectorIndex")
		o.condOf(funcSpec{dir: d, recv: "ComDoc", name: "writeShortSector", coqName: "wss_grow_root", params: "(stream_length root_size : Z)", retType: "bool", leaves: ql}, "if:streamLength")
		// table allocation on Close
		tl := map[string]string{"len(r.MSAT)": "n_msat", "len(r.msatList)": "n_msatlist", "satSectors": "sat_sectors", "msatSectors": "msat_sectors",
			"msatPerSector": "msat_per", "satPerSector": "sat_per", "len(r.SAT)": "n_sat", "r.SectorSize": "ss"}
		o.exprOfAssign(funcSpec{dir: d, recv: "ComDoc", name: "allocSectorTables", coqName: "ast_sat_per", params: "(ss : Z)", retType: "Z", leaves: tl}, "satPerSector", 0)
		o.exprOfAssign(funcSpec{dir: d, recv: "ComDoc", name: "allocSectorTables", coqName: "ast_msat_per", params: "(sat_per : Z)", retType: "Z", leaves: tl}, "msatPerSector", 0)
		o.exprOfAssign(funcSpec{dir: d, recv: "ComDoc", name: "allocSectorTables", coqName: "ast_sat_sectors", params: "(n_sat sat_per : Z)", retType: "Z", leaves: tl}, "satSectors", 0)
		o.exprOfAssign(funcSpec{dir: d, recv: "ComDoc", name: "allocSectorTables", coqName: "ast_msat_sectors", params: "(n_msat msat_per : Z)", retType: "Z", leaves: tl}, "msatSectors", 0)
		o.condOf(funcSpec{dir: d, recv: "ComDoc", name: "allocSectorTables", coqName: "ast_need_sat", params: "(sat_sectors n_msat : Z)", retType: "bool", leaves: tl}, "if:satSectors")
		o.condOf(funcSpec{dir: d, recv: "ComDoc", name: "allocSectorTables", coqName: "ast_need_msat", params: "(msat_sectors n_msatlist : Z)", retType: "bool", leaves: tl}, "if:msatSectors")
		o.condOf(funcSpec{dir: d, recv: "ComDoc", name: "Close", coqName: "close_last_used", params: "(sat_i : Z)", retType: "bool", leaves: map[string]string{"r.SAT[i]": "sat_i"}}, "if:r.SAT[i]")
		o.condOf(funcSpec{dir: d, recv: "ComDoc", name: "writeDirStream", coqName: "wds_v4_count", params: "(version : Z)", retType: "bool", leaves: map[string]string{"r.Header.Version": "version"}}, "if:r.Header.Version")
		o.callOrder(d, "ComDoc", "Close", "close_order", []string{"writeShortSAT", "writeDirStream", "allocSectorTables", "writeSAT", "writeMSAT", "Truncate"})
		o.callOrder(d, "ComDoc", "AddFile", "addfile_order", []string{"DeleteFile", "addStream", "newDirEnt"})
		// directory comparator: NameLength first, then upper-cased UTF-16 code units in a loop (hand-modelled around these pieces)
		ll := map[string]string{"e.NameLength": "la", "f.NameLength": "lb", "int(e.NameLength)": "la", "k": "k", "n": "n",
			"len(e.NameRunes)": "cap", "a": "a", "b": "b", "u": "u", "r": "r"}
		o.condOf(funcSpec{dir: d, name: "lessDirEnt", coqName: "less_len_differs", params: "(la lb : Z)", retType: "bool", leaves: ll}, "if:", 0)
		o.c18ReturnOfIf(funcSpec{dir: d, name: "lessDirEnt", coqName: "less_len_ret", params: "(la lb : Z)", retType: "bool", leaves: ll}, 0)
		o.exprOfAssign(funcSpec{dir: d, name: "lessDirEnt", coqName: "less_n", params: "(la : Z)", retType: "Z", leaves: ll}, "n", 0)
		o.condOf(funcSpec{dir: d, name: "lessDirEnt", coqName: "less_loop_cond", params: "(k n cap : Z)", retType: "bool", leaves: ll}, "for:", 0)
		o.condOf(funcSpec{dir: d, name: "lessDirEnt", coqName: "less_unit_differs", params: "(a b : Z)", retType: "bool", leaves: ll}, "if:", 1)
		o.c18ReturnOfIf(funcSpec{dir: d, name: "lessDirEnt", coqName: "less_unit_ret", params: "(a b : Z)", retType: "bool", leaves: ll}, 1)
		o.c18LastReturn(funcSpec{dir: d, name: "lessDirEnt", coqName: "less_equal_ret", params: "", retType: "bool", leaves: ll})
		o.condOf(funcSpec{dir: d, name: "upperUnit", coqName: "upper_unit_is_surrogate", params: "(u : Z)", retType: "bool", leaves: ll}, "if:", 0)
		o.condOf(funcSpec{dir: d, name: "upperUnit", coqName: "upper_unit_fits", params: "(r : Z)", retType: "bool", leaves: ll}, "if:", 1)
		o.c18UpperRuns("go_upper_runs")
		fingerprint(d, "", "upperUnit")
		// red-black insertion: colour of new nodes and the root
		o.c18NewNodeRed("rb_new_node_red")
		o.hasStmt(rb, "Tree", "Insert", "t.Root.Red = false", "rb_root_blackened")
		o.hasStmt(rb, "Node", "rotate", "n.Red = true", "rb_rotate_reddens_old_root")
		o.hasStmt(rb, "Node", "rotate", "a.Red = false", "rb_rotate_blackens_new_root")
		// MSI glue
		o.constString(a, "msiDigitalSignature", "msi_sig_name")
		o.constString(a, "msiDigitalSignatureEx", "msi_sigex_name")
		o.constString(a, "msiTarExMeta", "msi_tar_exmeta")
		o.constString(a, "msiTarStorageUID", "msi_tar_storage_uid")
		o.callOrder(a, "", "InsertMSISignature", "insert_sig_order", []string{"AddFile", "DeleteFile"})
		for _, fn := range []string{"makeFreeSectors", "addStream", "writeShortSector", "writeShortSAT", "writeDirStream", "rebuildTree", "allocSectorTables",
			"writeSAT", "writeMSAT", "Close", "AddFile", "DeleteFile", "newDirEnt", "appendDirEnt", "readMSAT", "readSAT", "readShortSAT", "readDir", "ListDir"} {
			fingerprint(d, "ComDoc", fn)
		}
		fingerprint(d, "", "freeSectors")
		fingerprint(d, "", "lessDirEnt")
		fingerprint(rb, "Node", "insert")
		fingerprint(rb, "Node", "rotate")
		fingerprint(rb, "Node", "isRed")
		fingerprint(rb, "Tree", "Insert")
		for _, fn := range []string{"sortMsiFiles", "hashMsiDir", "prehashMsiDir", "prehashMsiDirent", "MsiToTar", "msiToTarDir", "DigestMsiTar", "DigestMSI", "InsertMSISignature", "msiDecodeName"} {
			fingerprint(a, "", fn)
		}
	}
}
