package main

import (
	"fmt"
	"go/ast"
	"go/token"
	"strconv"
	"strings"
	"unicode"
)

// c18ReturnOfIf translates the single `return <expr>` in the body of the nth if statement (source order) of a function.
func (o *out) c18ReturnOfIf(fs funcSpec, nth int) {
	p, fd := findFunc(fs.dir, fs.recv, fs.name)
	if fd == nil {
		o.brokenDef(fs.coqName, "function "+fs.dir+":"+fs.recv+"."+fs.name+" not found")
		return
	}
	var found ast.Expr
	k := 0
	ast.Inspect(fd.Body, func(n ast.Node) bool {
		if found != nil {
			return false
		}
		if is, ok := n.(*ast.IfStmt); ok {
			if k == nth && len(is.Body.List) == 1 {
				if rs, ok := is.Body.List[0].(*ast.ReturnStmt); ok && len(rs.Results) == 1 {
					found = rs.Results[0]
					return false
				}
			}
			k++
		}
		return true
	})
	if found == nil {
		o.brokenDef(fs.coqName, fmt.Sprintf("if statement #%d of %s is not `if c { return e }`", nth, fs.name))
		return
	}
	t := o.newTr(p, fs)
	c := t.expr(found)
	if t.err != nil {
		o.brokenDef(fs.coqName, t.err.Error())
		return
	}
	o.f("Definition %s %s : %s :=\n  %s.\n(* from %s:%s.%s : return %s *)\n", fs.coqName, fs.params, fs.retType, c, fs.dir, fs.recv, fs.name,
		strings.ReplaceAll(printNode(p.fset, found), "*)", "* )"))
}

// c18LastReturn translates the final `return <expr>` statement of a function body.
func (o *out) c18LastReturn(fs funcSpec) {
	p, fd := findFunc(fs.dir, fs.recv, fs.name)
	if fd == nil || len(fd.Body.List) == 0 {
		o.brokenDef(fs.coqName, "function "+fs.dir+":"+fs.recv+"."+fs.name+" not found")
		return
	}
	rs, ok := fd.Body.List[len(fd.Body.List)-1].(*ast.ReturnStmt)
	if !ok || len(rs.Results) != 1 {
		o.brokenDef(fs.coqName, "last statement of "+fs.name+" is not a single-value return")
		return
	}
	t := o.newTr(p, fs)
	c := t.expr(rs.Results[0])
	if t.err != nil {
		o.brokenDef(fs.coqName, t.err.Error())
		return
	}
	o.f("Definition %s %s : %s :=\n  %s.\n(* from %s:%s.%s : final return %s *)\n", fs.coqName, fs.params, fs.retType, c, fs.dir, fs.recv, fs.name,
		printNode(p.fset, rs.Results[0]))
}

// c18UpperRuns: unicode.ToUpper of the toolchain that builds relic, restricted to single UTF-16 code units outside the
// surrogate range, as maximal runs (lo, hi, delta) with ToUpper(u) = u + delta.
func (o *out) c18UpperRuns(coqName string) {
	var parts []string
	lo, hi, delta := -1, -1, 0
	flush := func() {
		if lo >= 0 {
			parts = append(parts, fmt.Sprintf("(%d, %d, %s)", lo, hi, zlit(delta)))
		}
		lo = -1
	}
	for u := 0; u < 0x10000; u++ {
		if u >= 0xd800 && u <= 0xdfff {
			flush()
			continue
		}
		d := int(unicode.ToUpper(rune(u))) - u
		if d == 0 {
			flush()
			continue
		}
		if lo >= 0 && d == delta && u == hi+1 {
			hi = u
			continue
		}
		flush()
		lo, hi, delta = u, u, d
	}
	flush()
	o.f("Definition %s : list (Z * Z * Z) := [%s].\n(* unicode.ToUpper (Unicode %s) on UTF-16 code units: %d runs *)\n", coqName, strings.Join(parts, "; "), unicode.Version, len(parts))
}

func zlit(v int) string {
	if v < 0 {
		return fmt.Sprintf("(%d)", v)
	}
	return strconv.Itoa(v)
}

// c18NewNodeRed: in redblack.Tree.Insert, is the new node created with Red: true ?
func (o *out) c18NewNodeRed(coqName string) {
	const d = "lib/redblack"
	p, fd := findFunc(d, "Tree", "Insert")
	if fd == nil {
		o.brokenDef(coqName, "function lib/redblack:Tree.Insert not found")
		return
	}
	found, red := false, false
	ast.Inspect(fd.Body, func(n ast.Node) bool {
		cl, ok := n.(*ast.CompositeLit)
		if !ok || !strings.HasSuffix(printNode(p.fset, cl.Type), "Node") {
			return true
		}
		found = true
		for _, el := range cl.Elts {
			if kv, ok := el.(*ast.KeyValueExpr); ok && printNode(p.fset, kv.Key) == "Red" {
				v := printNode(p.fset, kv.Value)
				if v == "true" {
					red = true
				} else if v != "false" {
					found = false
				}
			}
		}
		return false
	})
	if !found {
		o.brokenDef(coqName, "no Node{...} literal with a constant Red field in Tree.Insert")
		return
	}
	o.f("Definition %s : bool := %v. (* lib/redblack:Tree.Insert creates the node with Red: %v *)\n", coqName, red, red)
}

// c18ByteVar: a package-level []byte{...} variable as a list of Z
func (o *out) c18ByteVar(dir, goName, coqName string) {
	ce, _, _, _ := findConstExpr(dir, goName)
	cl, ok := ce.(*ast.CompositeLit)
	if ce == nil || !ok {
		o.brokenDef(coqName, "byte slice variable "+dir+"."+goName+" not found")
		return
	}
	var parts []string
	for _, el := range cl.Elts {
		bl, ok := el.(*ast.BasicLit)
		if !ok || bl.Kind != token.INT {
			o.brokenDef(coqName, "non-literal element in "+goName)
			return
		}
		v, err := strconv.ParseInt(bl.Value, 0, 64)
		if err != nil {
			o.brokenDef(coqName, "bad literal in "+goName)
			return
		}
		parts = append(parts, strconv.FormatInt(v, 10))
	}
	o.f("Definition %s : list Z := [%s]. (* %s.%s *)\n", coqName, strings.Join(parts, "; "), dir, goName)
}


// c18KeyOfLit translates the value of `key: value` in the first composite literal of the function that has such a key.
func (o *out) c18KeyOfLit(fs funcSpec, key string) {
	p, fd := findFunc(fs.dir, fs.recv, fs.name)
	if fd == nil {
		o.brokenDef(fs.coqName, "function "+fs.dir+":"+fs.recv+"."+fs.name+" not found")
		return
	}
	var found ast.Expr
	ast.Inspect(fd.Body, func(n ast.Node) bool {
		if found != nil {
			return false
		}
		if kv, ok := n.(*ast.KeyValueExpr); ok && printNode(p.fset, kv.Key) == key {
			if _, isLit := kv.Value.(*ast.CompositeLit); !isLit {
				found = kv.Value
				return false
			}
		}
		return true
	})
	if found == nil {
		o.brokenDef(fs.coqName, "no `"+key+": ...` in a composite literal of "+fs.name)
		return
	}
	t := o.newTr(p, fs)
	c := t.expr(found)
	if t.err != nil {
		o.brokenDef(fs.coqName, t.err.Error())
		return
	}
	o.f("Definition %s %s : %s :=\n  %s.\n(* from %s:%s.%s : %s: %s *)\n", fs.coqName, fs.params, fs.retType, c, fs.dir, fs.recv, fs.name, key,
		strings.ReplaceAll(printNode(p.fset, found), "*)", "* )"))
}

// c18MakeLen translates the length argument of `lhs := make(T, n)`.
func (o *out) c18MakeLen(fs funcSpec, lhs string) {
	p, fd := findFunc(fs.dir, fs.recv, fs.name)
	if fd == nil {
		o.brokenDef(fs.coqName, "function "+fs.dir+":"+fs.recv+"."+fs.name+" not found")
		return
	}
	var found ast.Expr
	ast.Inspect(fd.Body, func(n ast.Node) bool {
		if as, ok := n.(*ast.AssignStmt); ok && found == nil && len(as.Lhs) == 1 && len(as.Rhs) == 1 && printNode(p.fset, as.Lhs[0]) == lhs {
			if ce, ok := as.Rhs[0].(*ast.CallExpr); ok && printNode(p.fset, ce.Fun) == "make" && len(ce.Args) >= 2 {
				found = ce.Args[1]
			}
		}
		return found == nil
	})
	if found == nil {
		o.brokenDef(fs.coqName, "no `"+lhs+" := make(T, n)` in "+fs.name)
		return
	}
	t := o.newTr(p, fs)
	c := t.expr(found)
	if t.err != nil {
		o.brokenDef(fs.coqName, t.err.Error())
		return
	}
	o.f("Definition %s %s : %s :=\n  %s.\n(* from %s:%s.%s : %s := make(_, %s) *)\n", fs.coqName, fs.params, fs.retType, c, fs.dir, fs.recv, fs.name, lhs, printNode(p.fset, found))
}

func c18IsErrNotNil(p *pkgInfo, e ast.Expr) bool {
	return strings.Join(strings.Fields(printNode(p.fset, e)), "") == "err!=nil"
}

func c18ReturnsErr(p *pkgInfo, b *ast.BlockStmt) bool {
	if b == nil || len(b.List) != 1 {
		return false
	}
	rs, ok := b.List[0].(*ast.ReturnStmt)
	if !ok || len(rs.Results) == 0 {
		return false
	}
	return printNode(p.fset, rs.Results[len(rs.Results)-1]) == "err"
}

// c18ErrReturned: for the nth call (source order, top-level statements and if/else blocks of the function) whose callee ends in
// `callee`: is its error handed to the caller?  Recognised shapes: `if err := call; err != nil { return ..., err }`,
// `x, err := call` directly followed by `if err != nil { return ..., err }`, and `return call`.
func (o *out) c18ErrReturned(dir, recv, name, callee string, nth int, coqName string) {
	p, fd := findFunc(dir, recv, name)
	if fd == nil {
		o.brokenDef(coqName, "function "+dir+":"+recv+"."+name+" not found")
		return
	}
	isCall := func(e ast.Expr) bool {
		ce, ok := e.(*ast.CallExpr)
		if !ok {
			return false
		}
		c := printNode(p.fset, ce.Fun)
		return c == callee || strings.HasSuffix(c, "."+callee)
	}
	k := 0
	found, propagated := false, false
	var walk func(list []ast.Stmt)
	walk = func(list []ast.Stmt) {
		for i, s := range list {
			if found {
				return
			}
			hit, prop := false, false
			switch x := s.(type) {
			case *ast.IfStmt:
				if as, ok := x.Init.(*ast.AssignStmt); ok && len(as.Rhs) == 1 && isCall(as.Rhs[0]) {
					hit = true
					prop = c18IsErrNotNil(p, x.Cond) && c18ReturnsErr(p, x.Body) && printNode(p.fset, as.Lhs[len(as.Lhs)-1]) == "err"
				}
			case *ast.AssignStmt:
				if len(x.Rhs) == 1 && isCall(x.Rhs[0]) {
					hit = true
					if i+1 < len(list) {
						if is, ok := list[i+1].(*ast.IfStmt); ok && is.Init == nil {
							prop = c18IsErrNotNil(p, is.Cond) && c18ReturnsErr(p, is.Body) && printNode(p.fset, x.Lhs[len(x.Lhs)-1]) == "err"
						}
					}
				}
			case *ast.ReturnStmt:
				if len(x.Results) == 1 && isCall(x.Results[0]) {
					hit, prop = true, true
				}
			case *ast.ExprStmt:
				if isCall(x.X) {
					hit = true
				}
			}
			if hit {
				if k == nth {
					found, propagated = true, prop
					return
				}
				k++
			}
			if is, ok := s.(*ast.IfStmt); ok {
				walk(is.Body.List)
				if eb, ok := is.Else.(*ast.BlockStmt); ok {
					walk(eb.List)
				}
			}
		}
	}
	walk(fd.Body.List)
	if !found {
		o.brokenDef(coqName, fmt.Sprintf("call #%d of %s not found as a statement of %s", nth, callee, name))
		return
	}
	o.f("Definition %s : bool := %v. (* %s:%s.%s : error of %s call #%d is returned to the caller *)\n", coqName, propagated, dir, recv, name, callee, nth)
}

// c18IfElse: the if/else statement of a function whose condition contains marker.
func c18IfElse(dir, recv, name, marker string) (*pkgInfo, *ast.IfStmt) {
	p, fd := findFunc(dir, recv, name)
	if fd == nil {
		return p, nil
	}
	var found *ast.IfStmt
	ast.Inspect(fd.Body, func(n ast.Node) bool {
		if is, ok := n.(*ast.IfStmt); ok && found == nil && strings.Contains(printNode(p.fset, is.Cond), marker) {
			if _, ok := is.Else.(*ast.BlockStmt); ok {
				found = is
			}
		}
		return found == nil
	})
	return p, found
}

// c18FreeTables: which allocation table DeleteFile hands to freeSectors on the short / long branch (0 = r.SAT, 1 = r.SSAT),
// and whether the chain start is item.NextSector.
func (o *out) c18FreeTables() {
	const d = "lib/comdoc"
	p, is := c18IfElse(d, "ComDoc", "DeleteFile", "item.StreamSize")
	if is == nil {
		o.brokenDef("delete_free_table_short", "no if/else on item.StreamSize in DeleteFile")
		return
	}
	arg := func(list []ast.Stmt) (int, bool, bool) {
		if len(list) != 1 {
			return 0, false, false
		}
		es, ok := list[0].(*ast.ExprStmt)
		if !ok {
			return 0, false, false
		}
		ce, ok := es.X.(*ast.CallExpr)
		if !ok || printNode(p.fset, ce.Fun) != "freeSectors" || len(ce.Args) != 2 {
			return 0, false, false
		}
		tbl := map[string]int{"r.SAT": 0, "r.SSAT": 1}
		v, ok := tbl[printNode(p.fset, ce.Args[0])]
		return v, ok, printNode(p.fset, ce.Args[1]) == "item.NextSector"
	}
	a, ok1, n1 := arg(is.Body.List)
	b, ok2, n2 := arg(is.Else.(*ast.BlockStmt).List)
	if !ok1 || !ok2 {
		o.brokenDef("delete_free_table_short", "branches of the item.StreamSize test in DeleteFile are not single freeSectors(table, start) calls")
		return
	}
	o.f("Definition delete_free_table_short : Z := %d. (* lib/comdoc:ComDoc.DeleteFile : table freed when the size test holds; 0 = r.SAT, 1 = r.SSAT *)\n", a)
	o.f("Definition delete_free_table_long : Z := %d. (* lib/comdoc:ComDoc.DeleteFile : table freed otherwise *)\n", b)
	o.f("Definition delete_free_from_next : bool := %v. (* both calls start at item.NextSector *)\n", n1 && n2)
}

// c18RebuildLinks: how rebuildTree copies the red-black tree into the directory entries.
func (o *out) c18RebuildLinks() {
	const d = "lib/comdoc"
	lastAssign := func(p *pkgInfo, list []ast.Stmt) (string, ast.Expr) {
		if len(list) == 0 {
			return "", nil
		}
		as, ok := list[len(list)-1].(*ast.AssignStmt)
		if !ok || len(as.Lhs) != 1 || len(as.Rhs) != 1 {
			return "", nil
		}
		return printNode(p.fset, as.Lhs[0]), as.Rhs[0]
	}
	p, is := c18IfElse(d, "ComDoc", "rebuildTree", "n.Red")
	if is == nil {
		o.brokenDef("rebuild_color_if_red", "no if/else on n.Red in rebuildTree")
	} else {
		l1, r1 := lastAssign(p, is.Body.List)
		l2, r2 := lastAssign(p, is.Else.(*ast.BlockStmt).List)
		v1, e1 := evalConst(d, r1, 0)
		v2, e2 := evalConst(d, r2, 0)
		if l1 != "e.Color" || l2 != "e.Color" || r1 == nil || r2 == nil || e1 != nil || e2 != nil {
			o.brokenDef("rebuild_color_if_red", "branches of the n.Red test do not assign constants to e.Color")
		} else {
			o.f("Definition rebuild_color_if_red : Z := %d. (* lib/comdoc:ComDoc.rebuildTree : if n.Red { e.Color = %s } *)\n", v1.i, printNode(p.fset, r1))
			o.f("Definition rebuild_color_if_black : Z := %d. (* else { e.Color = %s } *)\n", v2.i, printNode(p.fset, r2))
		}
	}
	for k := 0; k < 2; k++ {
		nm := fmt.Sprintf("rebuild_child%d_field", k)
		p, is := c18IfElse(d, "ComDoc", "rebuildTree", fmt.Sprintf("n.Children[%d]", k))
		if is == nil {
			o.brokenDef(nm, fmt.Sprintf("no if/else on n.Children[%d] in rebuildTree", k))
			continue
		}
		cond := strings.Join(strings.Fields(printNode(p.fset, is.Cond)), "")
		l1, r1 := lastAssign(p, is.Body.List)
		l2, r2 := lastAssign(p, is.Else.(*ast.BlockStmt).List)
		fields := map[string]int{"e.LeftChild": 0, "e.RightChild": 1}
		f1, ok1 := fields[l1]
		_, ok2 := fields[l2]
		var none cval
		var err error
		if r2 != nil {
			none, err = evalConst(d, r2, 0)
		}
		// the then-branch must store the Index of the item of that same child
		src := ""
		if len(is.Body.List) == 2 {
			if as, ok := is.Body.List[0].(*ast.AssignStmt); ok && len(as.Lhs) == 1 && len(as.Rhs) == 1 {
				src = strings.Join(strings.Fields(printNode(p.fset, as.Rhs[0])), "")
				if r1 != nil && strings.Join(strings.Fields(printNode(p.fset, r1)), "") != "int32("+printNode(p.fset, as.Lhs[0])+".Index)" {
					src = ""
				}
			}
		}
		if cond != fmt.Sprintf("n.Children[%d]!=nil", k) || !ok1 || !ok2 || l1 != l2 || r2 == nil || err != nil || src != fmt.Sprintf("n.Children[%d].Item.(*DirEnt)", k) {
			o.brokenDef(nm, fmt.Sprintf("the n.Children[%d] test in rebuildTree does not have the shape `if c != nil { x := c.Item.(*DirEnt); e.F = int32(x.Index) } else { e.F = const }`", k))
			continue
		}
		o.f("Definition %s : Z := %d. (* lib/comdoc:ComDoc.rebuildTree : Index of n.Children[%d] is stored in %s ; 0 = LeftChild, 1 = RightChild *)\n", nm, f1, k, l1)
		o.f("Definition rebuild_child%d_none : Z := %d. (* else %s = %s *)\n", k, none.i, l2, printNode(p.fset, r2))
	}
}

// c18InsertPlan: InsertMSISignature as data.  A step is (op, name, payload): op 0 = AddFile, 1 = DeleteFile; name 0 = msiDigitalSignature,
// 1 = msiDigitalSignatureEx; payload 0 = pkcs, 1 = exsig, 2 = none.
func (o *out) c18InsertPlan() {
	const a = "lib/authenticode"
	p, fd := findFunc(a, "", "InsertMSISignature")
	if fd == nil {
		o.brokenDef("insert_plan_tail", "function lib/authenticode:InsertMSISignature not found")
		return
	}
	okAll := true
	step := func(e ast.Expr) string {
		ce, ok := e.(*ast.CallExpr)
		if !ok {
			okAll = false
			return ""
		}
		ops := map[string]int{"cdf.AddFile": 0, "cdf.DeleteFile": 1}
		names := map[string]int{"msiDigitalSignature": 0, "msiDigitalSignatureEx": 1}
		pay := map[string]int{"pkcs": 0, "exsig": 1}
		op, ok1 := ops[printNode(p.fset, ce.Fun)]
		if !ok1 || len(ce.Args) < 1 {
			okAll = false
			return ""
		}
		nm, ok2 := names[printNode(p.fset, ce.Args[0])]
		pl := 2
		if op == 0 {
			var ok3 bool
			if len(ce.Args) != 2 {
				okAll = false
				return ""
			}
			pl, ok3 = pay[printNode(p.fset, ce.Args[1])]
			okAll = okAll && ok3
		}
		okAll = okAll && ok2
		return fmt.Sprintf("(%d, %d, %d)", op, nm, pl)
	}
	// a block of `if err := call; err != nil { return err }` statements
	block := func(list []ast.Stmt) []string {
		var out []string
		for _, s := range list {
			is, ok := s.(*ast.IfStmt)
			if !ok {
				okAll = false
				continue
			}
			as, ok := is.Init.(*ast.AssignStmt)
			if !ok || len(as.Rhs) != 1 || !c18IsErrNotNil(p, is.Cond) || !c18ReturnsErr(p, is.Body) || is.Else != nil {
				okAll = false
				continue
			}
			out = append(out, step(as.Rhs[0]))
		}
		return out
	}
	// optional pre-check in front of the plan: `files, err := cdf.ListDir(nil); if err != nil { return err };
	// for _, item := range files { if <refusal test> { return errors.New(...) } }`
	body := fd.Body.List
	precheck := false
	if len(body) == 5 {
		shape := "InsertMSISignature: the statements in front of the exsig test are not `files, err := cdf.ListDir(nil); if err != nil { return err }; for _, item := range files { if c { return errors.New(..) } }`"
		as, okA := body[0].(*ast.AssignStmt)
		ie, okB := body[1].(*ast.IfStmt)
		rg, okC := body[2].(*ast.RangeStmt)
		if !okA || !okB || !okC || strings.Join(strings.Fields(printNode(p.fset, as)), " ") != "files, err := cdf.ListDir(nil)" ||
			ie.Init != nil || !c18IsErrNotNil(p, ie.Cond) || !c18ReturnsErr(p, ie.Body) || ie.Else != nil ||
			printNode(p.fset, rg.X) != "files" || rg.Value == nil || printNode(p.fset, rg.Value) != "item" || len(rg.Body.List) != 1 {
			o.brokenDef("insert_plan_tail", shape)
			return
		}
		ri, okD := rg.Body.List[0].(*ast.IfStmt)
		if !okD || ri.Init != nil || ri.Else != nil || len(ri.Body.List) != 1 {
			o.brokenDef("insert_plan_tail", shape)
			return
		}
		rr, okE := ri.Body.List[0].(*ast.ReturnStmt)
		if !okE || len(rr.Results) != 1 || !strings.HasPrefix(printNode(p.fset, rr.Results[0]), "errors.New(") {
			o.brokenDef("insert_plan_tail", shape)
			return
		}
		leaves := map[string]string{"item.Type": "typ", "isMsiSignatureName(item.Name())": "is_sig_name"}
		for _, cn := range []string{"DirStream", "DirStorage", "DirRoot", "DirEmpty"} {
			if ce, _, si, _ := findConstExpr("lib/comdoc", cn); ce != nil {
				if v, err := evalConst("lib/comdoc", ce, si); err == nil {
					leaves["comdoc."+cn] = fmt.Sprintf("%d", v.i)
				}
			}
		}
		t := o.newTr(p, funcSpec{dir: a, leaves: leaves, types: map[string]string{"isMsiSignatureName(item.Name())": "bool"}})
		c := t.expr(ri.Cond)
		if t.err != nil {
			o.brokenDef("insert_refuses", t.err.Error())
			return
		}
		o.f("Definition insert_refuses (typ : Z) (is_sig_name : bool) : bool :=\n  %s.\n(* from lib/authenticode:.InsertMSISignature : for _, item := range cdf.ListDir(nil) { if %s { return errors.New(..) } } *)\n", c, printNode(p.fset, ri.Cond))
		precheck = true
		body = body[3:]
	}
	if len(body) != 2 {
		o.brokenDef("insert_plan_tail", "InsertMSISignature is no longer `[pre-check;] if len(exsig) ... { } else { }; return cdf.AddFile(...)`")
		return
	}
	if !precheck {
		o.f("Definition insert_refuses (typ : Z) (is_sig_name : bool) : bool := false. (* lib/authenticode:.InsertMSISignature has no pre-check *)\n")
	}
	o.f("Definition insert_precheck : bool := %v. (* lib/authenticode:.InsertMSISignature lists the root storage and refuses before any AddFile / DeleteFile *)\n", precheck)
	is, ok1 := body[0].(*ast.IfStmt)
	rs, ok2 := body[1].(*ast.ReturnStmt)
	if !ok1 || !ok2 || is.Init != nil || len(rs.Results) != 1 {
		o.brokenDef("insert_plan_tail", "InsertMSISignature is no longer `if len(exsig) ... { } else { }; return cdf.AddFile(...)`")
		return
	}
	eb, ok := is.Else.(*ast.BlockStmt)
	if !ok {
		o.brokenDef("insert_plan_tail", "InsertMSISignature: the exsig test has no else block")
		return
	}
	thenP, elseP, tail := block(is.Body.List), block(eb.List), step(rs.Results[0])
	if !okAll {
		o.brokenDef("insert_plan_tail", "InsertMSISignature contains a statement that is not an error-checked AddFile/DeleteFile call on the two signature names")
		return
	}
	t := o.newTr(p, funcSpec{dir: a, leaves: map[string]string{"len(exsig)": "len_exsig"}})
	c := t.expr(is.Cond)
	if t.err != nil {
		o.brokenDef("insert_has_exsig", t.err.Error())
		return
	}
	o.f("Definition insert_has_exsig (len_exsig : Z) : bool :=\n  %s.\n(* from lib/authenticode:.InsertMSISignature : if %s *)\n", c, printNode(p.fset, is.Cond))
	o.f("Definition insert_plan_then : list (Z * Z * Z) := [%s].\nDefinition insert_plan_else : list (Z * Z * Z) := [%s].\nDefinition insert_plan_tail : list (Z * Z * Z) := [%s].\n",
		strings.Join(thenP, "; "), strings.Join(elseP, "; "), tail)
	o.f("(* lib/authenticode:.InsertMSISignature as (op, name, payload): op 0 AddFile 1 DeleteFile; name 0 msiDigitalSignature 1 msiDigitalSignatureEx; payload 0 pkcs 1 exsig 2 none; every error is returned *)\n")
}

func init() {
	generators["C18_gen"] = func(o *out) {
		const d = "lib/comdoc"
		const a = "lib/authenticode"
		const rb = "lib/redblack"
		for _, c := range [][2]string{{"SecIDFree", "secid_free"}, {"SecIDEndOfChain", "secid_eoc"}, {"SecIDSAT", "secid_sat"}, {"SecIDMSAT", "secid_msat"},
			{"DirEmpty", "dir_empty"}, {"DirStorage", "dir_storage"}, {"DirStream", "dir_stream"}, {"DirRoot", "dir_root"},
			{"Red", "color_red"}, {"Black", "color_black"}, {"byteOrderMarker", "byte_order_marker"}, {"msatInHeader", "msat_in_header"}} {
			o.constInt(d, c[0], c[1])
		}
		o.c18ByteVar(d, "fileMagic", "file_magic")
		o.structLayout(d, "Header", "hdr")
		o.structLayout(d, "RawDirEnt", "de")
		// reader: header sanity and sector geometry
		hl := map[string]string{"header.SectorSize": "sshift", "header.ShortSectorSize": "mshift", "r.SectorSize": "ss"}
		o.condOf(funcSpec{dir: d, name: "openFile", coqName: "open_unreasonable", params: "(sshift mshift : Z)", retType: "bool", leaves: hl}, "if:header.SectorSize")
		o.condOf(funcSpec{dir: d, name: "openFile", coqName: "open_small_sector", params: "(ss : Z)", retType: "bool", leaves: hl}, "if:r.SectorSize", 1)
		nl := map[string]string{"e.NameLength": "namelen", "e.Type": "typ", "used": "used"}
		o.exprOfAssign(funcSpec{dir: d, recv: "RawDirEnt", name: "Name", coqName: "name_used", params: "(namelen : Z)", retType: "Z", leaves: nl}, "used", 0)
		o.condOf(funcSpec{dir: d, recv: "RawDirEnt", name: "Name", coqName: "name_is_empty", params: "(typ used : Z)", retType: "bool", leaves: nl}, "if:used")
		// writer: short/long decision
		wl := map[string]string{"len(contents)": "len", "r.Header.MinStdStreamSize": "cutoff", "item.StreamSize": "size"}
		o.exprOfAssign(funcSpec{dir: d, recv: "ComDoc", name: "AddFile", coqName: "add_is_short", params: "(len cutoff : Z)", retType: "bool", leaves: wl}, "isShort", 0)
		o.condOf(funcSpec{dir: d, recv: "ComDoc", name: "DeleteFile", coqName: "delete_is_short", params: "(size cutoff : Z)", retType: "bool", leaves: wl}, "if:item.StreamSize")
		// sector allocation
		ml := map[string]string{"count": "count", "sectorsPerBlock": "per_block", "r.SectorSize": "ss", "j": "entry"}
		o.condOf(funcSpec{dir: d, recv: "ComDoc", name: "makeFreeSectors", coqName: "mfs_nothing", params: "(count : Z)", retType: "bool", leaves: ml}, "if:count", 0)
		o.condOf(funcSpec{dir: d, recv: "ComDoc", name: "makeFreeSectors", coqName: "mfs_skip", params: "(entry : Z)", retType: "bool", leaves: ml}, "if:j")
		o.exprOfAssign(funcSpec{dir: d, recv: "ComDoc", name: "makeFreeSectors", coqName: "mfs_per_block", params: "(ss : Z)", retType: "Z", leaves: ml}, "sectorsPerBlock", 0)
		o.exprOfAssign(funcSpec{dir: d, recv: "ComDoc", name: "makeFreeSectors", coqName: "mfs_need_blocks", params: "(count per_block : Z)", retType: "Z", leaves: ml}, "needBlocks", 0)
		sl := map[string]string{"len(contents)": "len", "sectorSize": "sector_size"}
		o.exprOfAssign(funcSpec{dir: d, recv: "ComDoc", name: "addStream", coqName: "stream_need_short", params: "(len sector_size : Z)", retType: "Z", leaves: sl}, "needSectors", 0)
		o.exprOfAssign(funcSpec{dir: d, recv: "ComDoc", name: "addStream", coqName: "stream_need_long", params: "(len sector_size : Z)", retType: "Z", leaves: sl}, "needSectors", 1)
		o.condOf(funcSpec{dir: d, name: "freeSectors", coqName: "free_stop", params: "(next : Z)", retType: "bool", leaves: map[string]string{"nextSector": "next"}}, "if:nextSector")
		// mini stream growth
		ql := map[string]string{"int(shortSector)": "short_sector", "shortSector + 1": "(short_sector + 1)", "r.ShortSectorSize": "mss", "r.SectorSize": "ss",
			"bigSectorIndex": "big_index", "streamLength": "stream_length", "root.StreamSize": "root_size", "next": "next"}
		o.exprOfAssign(funcSpec{dir: d, recv: "ComDoc", name: "writeShortSector", coqName: "wss_big_index", params: "(short_sector mss ss : Z)", retType: "Z", leaves: ql}, "bigSectorIndex", 0)
		o.exprOfAssign(funcSpec{dir: d, recv: "ComDoc", name: "writeShortSector", coqName: "wss_stream_length", params: "(short_sector mss : Z)", retType: "Z", leaves: ql}, "streamLength", 0)
		o.condOf(funcSpec{dir: d, recv: "ComDoc", name: "writeShortSector", coqName: "wss_walk_more", params: "(big_index : Z)", retType: "bool", leaves: ql}, "for:bigSectorIndex")
		o.condOf(funcSpec{dir: d, recv: "ComDoc", name: "writeShortSector", coqName: "wss_walk_stop", params: "(next : Z)", retType: "bool", leaves: ql}, "if:next")
		o.condOf(funcSpec{dir: d, recv: "ComDoc", name: "writeShortSector", coqName: "wss_extend", params: "(big_index : Z)", retType: "bool", leaves: ql}, "if:bigSectorIndex")
		o.condOf(funcSpec{dir: d, recv: "ComDoc", name: "writeShortSector", coqName: "wss_grow_root", params: "(stream_length root_size : Z)", retType: "bool", leaves: ql}, "if:streamLength")
		// table allocation on Close
		tl := map[string]string{"len(r.MSAT)": "n_msat", "len(r.msatList)": "n_msatlist", "satSectors": "sat_sectors", "msatSectors": "msat_sectors",
			"msatPerSector": "msat_per", "satPerSector": "sat_per", "len(r.SAT)": "n_sat", "r.SectorSize": "ss"}
		o.exprOfAssign(funcSpec{dir: d, recv: "ComDoc", name: "allocSectorTables", coqName: "ast_sat_per", params: "(ss : Z)", retType: "Z", leaves: tl}, "satPerSector", 0)
		o.exprOfAssign(funcSpec{dir: d, recv: "ComDoc", name: "allocSectorTables", coqName: "ast_msat_per", params: "(sat_per : Z)", retType: "Z", leaves: tl}, "msatPerSector", 0)
		o.exprOfAssign(funcSpec{dir: d, recv: "ComDoc", name: "allocSectorTables", coqName: "ast_sat_sectors", params: "(n_sat sat_per : Z)", retType: "Z", leaves: tl}, "satSectors", 0)
		o.exprOfAssign(funcSpec{dir: d, recv: "ComDoc", name: "allocSectorTables", coqName: "ast_msat_sectors", params: "(n_msat msat_per : Z)", retType: "Z", leaves: tl}, "msatSectors", 0)
		o.condOf(funcSpec{dir: d, recv: "ComDoc", name: "allocSectorTables", coqName: "ast_need_sat", params: "(sat_sectors n_msat : Z)", retType: "bool", leaves: tl}, "if:satSectors")
		o.condOf(funcSpec{dir: d, recv: "ComDoc", name: "allocSectorTables", coqName: "ast_need_msat", params: "(msat_sectors n_msatlist : Z)", retType: "bool", leaves: tl}, "if:msatSectors")
		o.condOf(funcSpec{dir: d, recv: "ComDoc", name: "Close", coqName: "close_last_used", params: "(sat_i : Z)", retType: "bool", leaves: map[string]string{"r.SAT[i]": "sat_i"}}, "if:r.SAT[i]")
		o.condOf(funcSpec{dir: d, recv: "ComDoc", name: "writeDirStream", coqName: "wds_v4_count", params: "(version : Z)", retType: "bool", leaves: map[string]string{"r.Header.Version": "version"}}, "if:r.Header.Version")
		o.callOrder(d, "ComDoc", "Close", "close_order", []string{"writeShortSAT", "writeDirStream", "allocSectorTables", "writeSAT", "writeMSAT", "Truncate"})
		o.callOrder(d, "ComDoc", "AddFile", "addfile_order", []string{"DeleteFile", "addStream", "newDirEnt"})
		// directory comparator: NameLength first, then upper-cased UTF-16 code units in a loop (hand-modelled around these pieces)
		ll := map[string]string{"e.NameLength": "la", "f.NameLength": "lb", "int(e.NameLength)": "la", "k": "k", "n": "n",
			"len(e.NameRunes)": "cap", "a": "a", "b": "b", "u": "u", "r": "r"}
		o.condOf(funcSpec{dir: d, name: "lessDirEnt", coqName: "less_len_differs", params: "(la lb : Z)", retType: "bool", leaves: ll}, "if:", 0)
		o.c18ReturnOfIf(funcSpec{dir: d, name: "lessDirEnt", coqName: "less_len_ret", params: "(la lb : Z)", retType: "bool", leaves: ll}, 0)
		o.exprOfAssign(funcSpec{dir: d, name: "lessDirEnt", coqName: "less_n", params: "(la : Z)", retType: "Z", leaves: ll}, "n", 0)
		o.condOf(funcSpec{dir: d, name: "lessDirEnt", coqName: "less_loop_cond", params: "(k n cap : Z)", retType: "bool", leaves: ll}, "for:", 0)
		o.condOf(funcSpec{dir: d, name: "lessDirEnt", coqName: "less_unit_differs", params: "(a b : Z)", retType: "bool", leaves: ll}, "if:", 1)
		o.c18ReturnOfIf(funcSpec{dir: d, name: "lessDirEnt", coqName: "less_unit_ret", params: "(a b : Z)", retType: "bool", leaves: ll}, 1)
		o.c18LastReturn(funcSpec{dir: d, name: "lessDirEnt", coqName: "less_equal_ret", params: "", retType: "bool", leaves: ll})
		o.condOf(funcSpec{dir: d, name: "upperUnit", coqName: "upper_unit_is_surrogate", params: "(u : Z)", retType: "bool", leaves: ll}, "if:", 0)
		o.condOf(funcSpec{dir: d, name: "upperUnit", coqName: "upper_unit_fits", params: "(r : Z)", retType: "bool", leaves: ll}, "if:", 1)
		o.c18UpperRuns("go_upper_runs")
		fingerprint(d, "", "upperUnit")
		// red-black insertion: colour of new nodes and the root
		o.c18NewNodeRed("rb_new_node_red")
		o.hasStmt(rb, "Tree", "Insert", "t.Root.Red = false", "rb_root_blackened")
		o.hasStmt(rb, "Node", "rotate", "n.Red = true", "rb_rotate_reddens_old_root")
		o.hasStmt(rb, "Node", "rotate", "a.Red = false", "rb_rotate_blackens_new_root")
		// MSI glue
		o.constString(a, "msiDigitalSignature", "msi_sig_name")
		o.constString(a, "msiDigitalSignatureEx", "msi_sigex_name")
		o.constString(a, "msiTarExMeta", "msi_tar_exmeta")
		o.constString(a, "msiTarStorageUID", "msi_tar_storage_uid")
		o.callOrder(a, "", "InsertMSISignature", "insert_sig_order", []string{"AddFile", "DeleteFile"})

		// ---- directory entries of the root storage: DeleteFile / AddFile / newDirEnt / appendDirEnt / rebuildTree / InsertMSISignature
		dl := map[string]string{"item": "item", "probe": "probe", "item.name": "item_name", "name": "name", "len(runes)": "n_runes",
			"len(RawDirEnt{}.NameRunes)": "cap", "item.Type": "typ"}
		dt := map[string]string{"item.name": "str", "name": "str", "lessDirEnt()": "bool"}
		dc := map[string]string{"lessDirEnt": "less"}
		o.condOf(funcSpec{dir: d, recv: "ComDoc", name: "DeleteFile", coqName: "delete_name_too_long", params: "(n_runes cap : Z)", retType: "bool", leaves: dl}, "if:len(runes)")
		o.c18KeyOfLit(funcSpec{dir: d, recv: "ComDoc", name: "DeleteFile", coqName: "delete_probe_namelen", params: "(n_runes : Z)", retType: "Z", leaves: dl}, "NameLength")
		o.condOf(funcSpec{dir: d, recv: "ComDoc", name: "DeleteFile", coqName: "delete_keeps", params: "{X : Type} (less : X -> X -> bool) (item probe : X) (item_name name : list Z)",
			retType: "bool", leaves: dl, types: dt, calls: dc}, "if:item", 0)
		o.condOf(funcSpec{dir: d, recv: "ComDoc", name: "DeleteFile", coqName: "delete_refuses", params: "(typ : Z)", retType: "bool", leaves: dl}, "if:item.Type")
		o.hasStmt(d, "ComDoc", "DeleteFile", "runes := append(utf16.Encode([]rune(name)), 0)", "delete_probe_terminated")
		o.hasStmt(d, "ComDoc", "DeleteFile", "copy(probe.NameRunes[:], runes)", "delete_probe_copied")
		o.hasStmt(d, "ComDoc", "DeleteFile", "keepFiles = append(keepFiles, index)", "delete_keep_appends")
		o.hasStmt(d, "ComDoc", "DeleteFile", "*item = DirEnt{}", "delete_blanks_entry")
		o.hasStmt(d, "ComDoc", "DeleteFile", "r.rootFiles = keepFiles", "delete_commits_keep")
		o.hasStmt(d, "ComDoc", "DeleteFile", "r.changed = true", "delete_marks_changed")
		o.hasStmt(d, "ComDoc", "AddFile", "r.changed = true", "addfile_marks_changed")
		o.condOf(funcSpec{dir: d, recv: "ComDoc", name: "Close", coqName: "close_skips", params: "(changed : bool)", retType: "bool",
			leaves: map[string]string{"r.changed": "changed"}, types: map[string]string{"r.changed": "bool"}}, "if:r.changed")
		o.c18FreeTables()
		o.condOf(funcSpec{dir: d, name: "freeSectors", coqName: "free_break", params: "(sector n_sat : Z)", retType: "bool",
			leaves: map[string]string{"sector": "sector", "int(sector)": "sector", "len(sat)": "n_sat"}}, "if:len(sat)")
		o.c18ErrReturned(d, "ComDoc", "AddFile", "DeleteFile", 0, "addfile_delete_err_returned")
		o.c18ErrReturned(d, "ComDoc", "AddFile", "addStream", 0, "addfile_stream_err_returned")
		o.c18ErrReturned(d, "ComDoc", "AddFile", "newDirEnt", 0, "addfile_dirent_err_returned")
		o.hasStmt(d, "ComDoc", "AddFile", "r.rootFiles = append(r.rootFiles, dirent.Index)", "addfile_appends_root")
		nd := map[string]string{"len(runes)": "n_runes"}
		o.condOf(funcSpec{dir: d, recv: "ComDoc", name: "newDirEnt", coqName: "newde_too_long", params: "(n_runes : Z)", retType: "bool", leaves: nd}, "if:len(runes)")
		o.hasStmt(d, "ComDoc", "newDirEnt", "runes = append(runes, 0)", "newde_terminated")
		o.hasStmt(d, "ComDoc", "newDirEnt", "copy(dirent.NameRunes[:], runes)", "newde_copied")
		o.c18KeyOfLit(funcSpec{dir: d, recv: "ComDoc", name: "newDirEnt", coqName: "newde_namelen", params: "(n_runes : Z)", retType: "Z", leaves: nd}, "NameLength")
		for _, kv := range [][2]string{{"Type", "newde_type"}, {"LeftChild", "newde_left"}, {"RightChild", "newde_right"}, {"StorageRoot", "newde_child"}} {
			o.c18KeyOfLit(funcSpec{dir: d, recv: "ComDoc", name: "newDirEnt", coqName: kv[1], params: "", retType: "Z", leaves: nd}, kv[0])
		}
		al := map[string]string{"j.Type": "typ", "index": "index", "r.SectorSize": "ss"}
		o.condOf(funcSpec{dir: d, recv: "ComDoc", name: "appendDirEnt", coqName: "append_slot_free", params: "(typ : Z)", retType: "bool", leaves: al}, "if:j.Type")
		o.condOf(funcSpec{dir: d, recv: "ComDoc", name: "appendDirEnt", coqName: "append_extends", params: "(index : Z)", retType: "bool", leaves: al}, "if:index")
		o.c18MakeLen(funcSpec{dir: d, recv: "ComDoc", name: "appendDirEnt", coqName: "append_grow", params: "(ss : Z)", retType: "Z", leaves: al}, "newDirs")
		o.hasStmt(d, "ComDoc", "writeDirStream", "r.rebuildTree(r.rootStorage, r.rootFiles)", "wds_rebuilds_root")
		o.hasStmt(d, "ComDoc", "rebuildTree", "tree := redblack.New(lessDirEnt)", "rebuild_by_less_dirent")
		o.hasStmt(d, "ComDoc", "rebuildTree", "tree.Insert(&r.Files[i])", "rebuild_inserts_entries")
		o.hasStmt(d, "ComDoc", "rebuildTree", "r.Files[parent].StorageRoot = int32(e.Index)", "rebuild_sets_storage_root")
		o.c18RebuildLinks()
		o.condOf(funcSpec{dir: rb, recv: "Node", name: "insert", coqName: "rb_descend_right", params: "{X : Type} (lt : X -> X -> bool) (x a : X)", retType: "bool",
			leaves: map[string]string{"n.Item": "x", "a.Item": "a"}, calls: map[string]string{"n.Less": "lt"}}, "if:n.Less")
		o.c18InsertPlan()
		o.c18LastReturn(funcSpec{dir: a, name: "isMsiSignatureName", coqName: "is_sig_name_def", params: "{X : Type} (same : X -> X -> bool) (name sig sigex : X)", retType: "bool",
			leaves: map[string]string{"name": "name", "msiDigitalSignature": "sig", "msiDigitalSignatureEx": "sigex"}, calls: map[string]string{"comdoc.SameName": "same"}})
		sl2 := map[string]string{"len(ra)": "la", "len(rb)": "lb", "upperUnit(ra[k])": "a", "upperUnit(rb[k])": "b"}
		o.condOf(funcSpec{dir: d, name: "SameName", coqName: "same_len_differs", params: "(la lb : Z)", retType: "bool", leaves: sl2}, "if:len(ra)")
		o.c18ReturnOfIf(funcSpec{dir: d, name: "SameName", coqName: "same_len_ret", params: "", retType: "bool", leaves: sl2}, 0)
		o.condOf(funcSpec{dir: d, name: "SameName", coqName: "same_unit_differs", params: "(a b : Z)", retType: "bool", leaves: sl2}, "if:upperUnit")
		o.c18ReturnOfIf(funcSpec{dir: d, name: "SameName", coqName: "same_unit_ret", params: "", retType: "bool", leaves: sl2}, 1)
		o.c18LastReturn(funcSpec{dir: d, name: "SameName", coqName: "same_all_ret", params: "", retType: "bool", leaves: sl2})
		fingerprint(d, "", "SameName")
		ld := map[string]string{"parent.StorageRoot": "child", "index": "index", "int(index)": "index", "len(r.Files)": "n_files", "len(files)": "n",
			"item.LeftChild": "v", "item.RightChild": "v"}
		o.condOf(funcSpec{dir: d, recv: "ComDoc", name: "ListDir", coqName: "listdir_empty", params: "(child : Z)", retType: "bool", leaves: ld}, "if:parent.StorageRoot")
		o.condOf(funcSpec{dir: d, recv: "ComDoc", name: "ListDir", coqName: "listdir_oob", params: "(index n_files : Z)", retType: "bool", leaves: ld}, "if:index")
		o.condOf(funcSpec{dir: d, recv: "ComDoc", name: "ListDir", coqName: "listdir_loops", params: "(n n_files : Z)", retType: "bool", leaves: ld}, "if:len(files)")
		o.condOf(funcSpec{dir: d, recv: "ComDoc", name: "ListDir", coqName: "listdir_has_left", params: "(v : Z)", retType: "bool", leaves: ld}, "if:item.LeftChild")
		o.condOf(funcSpec{dir: d, recv: "ComDoc", name: "ListDir", coqName: "listdir_has_right", params: "(v : Z)", retType: "bool", leaves: ld}, "if:item.RightChild")
		for k, nm := range []string{"insert_err0_returned", "insert_err1_returned", "insert_err2_returned"} {
			callee := "AddFile"
			nth := k
			if k == 1 {
				callee, nth = "DeleteFile", 0
			} else if k == 2 {
				nth = 1
			}
			o.c18ErrReturned(a, "", "InsertMSISignature", callee, nth, nm)
		}
		for _, fn := range []string{"makeFreeSectors", "addStream", "writeShortSector", "writeShortSAT", "writeDirStream", "rebuildTree", "allocSectorTables",
			"writeSAT", "writeMSAT", "Close", "AddFile", "DeleteFile", "newDirEnt", "appendDirEnt", "readMSAT", "readSAT", "readShortSAT", "readDir", "ListDir"} {
			fingerprint(d, "ComDoc", fn)
		}
		fingerprint(d, "", "freeSectors")
		fingerprint(d, "", "lessDirEnt")
		fingerprint(rb, "Node", "insert")
		fingerprint(rb, "Node", "rotate")
		fingerprint(rb, "Node", "isRed")
		fingerprint(rb, "Tree", "Insert")
		for _, fn := range []string{"sortMsiFiles", "hashMsiDir", "prehashMsiDir", "prehashMsiDirent", "MsiToTar", "msiToTarDir", "DigestMsiTar", "DigestMSI", "InsertMSISignature", "msiDecodeName"} {
			fingerprint(a, "", fn)
		}
	}
}
