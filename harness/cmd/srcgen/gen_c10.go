package main

// C10: timestamp client acceptance decision, ordered failover, attach + self-check, verification and chain time.
func init() {
	generators["C10_gen"] = func(o *out) {
		const d = "lib/pkcs9"
		const tc = "lib/pkcs9/tsclient"
		// ---- PKIStatus values (iota block in structs.go)
		o.constInt(d, "StatusGranted", "status_granted")
		o.constInt(d, "StatusGrantedWithMods", "status_granted_with_mods")
		o.constInt(d, "StatusRejection", "status_rejection")
		o.constInt(d, "StatusWaiting", "status_waiting")
		// three-way comparison used for big.Int.Cmp
		o.f("Definition cmp3 (a b : Z) : Z := match a ?= b with Lt => -1 | Eq => 0 | Gt => 1 end.\n")

		// ---- TimeStampReq.ParseResponse: the else-if chain after asn1.Unmarshal
		prLeaves := map[string]string{"len(rest)": "rest_len", "respmsg.Status.Status": "status"}
		o.condOf(funcSpec{dir: d, recv: "TimeStampReq", name: "ParseResponse", coqName: "resp_trailing",
			params: "(rest_len : Z)", retType: "bool", leaves: prLeaves}, "if:len(rest)")
		o.condOf(funcSpec{dir: d, recv: "TimeStampReq", name: "ParseResponse", coqName: "resp_denied",
			params: "(status : Z)", retType: "bool", leaves: prLeaves}, "if:respmsg.Status.Status")
		o.callOrder(d, "TimeStampReq", "ParseResponse", "parse_response_order", []string{"Unmarshal", "SanityCheckToken"})

		// ---- TimeStampReq.SanityCheckToken: order of the checks and the two comparisons
		scLeaves := map[string]string{"info.Nonce": "info_nonce", "info.MessageImprint.HashedMessage": "info_hashed",
			"req.MessageImprint.HashedMessage": "req_hashed",
			"req.Nonce != nil": "req_has_nonce", "req.Nonce == nil": "(negb req_has_nonce)",
			"info.Nonce == nil": "(negb info_has_nonce)", "info.Nonce != nil": "info_has_nonce"}
		scCalls := map[string]string{"req.Nonce.Cmp": "cmp3 req_nonce", "hmac.Equal": "bytes_eqb"}
		scTypes := map[string]string{"hmac.Equal()": "bool"}
		o.callOrder(d, "TimeStampReq", "SanityCheckToken", "sanity_order", []string{"Verify", "unpackTokenInfo", "Cmp", "Equal"})
		// info_nonce is only meaningful when info_has_nonce (Go's || and && are lazy: Cmp is not reached on a nil nonce)
		o.condOf(funcSpec{dir: d, recv: "TimeStampReq", name: "SanityCheckToken", coqName: "nonce_mismatch",
			params: "(req_has_nonce info_has_nonce : bool) (req_nonce info_nonce : Z)", retType: "bool", leaves: scLeaves, calls: scCalls, types: scTypes}, "if:req.Nonce")
		o.condOf(funcSpec{dir: d, recv: "TimeStampReq", name: "SanityCheckToken", coqName: "imprint_mismatch",
			params: "(info_hashed req_hashed : bytes)", retType: "bool", leaves: scLeaves, calls: scCalls, types: scTypes}, "if:HashedMessage")
		// unpackTokenInfo: empty content is rejected before infobytes[0] is read
		o.condOf(funcSpec{dir: d, recv: "", name: "unpackTokenInfo", coqName: "info_empty",
			params: "(content_len : Z)", retType: "bool", leaves: map[string]string{"len(infobytes)": "content_len"}}, "if:len(infobytes)")

		// ---- tsClient.Timestamp: imprint computation, the failover loop and the final error
		tsLeaves := map[string]string{"req.Legacy": "legacy",
			"err == nil": "(negb failed)", "err != nil": "failed",
			"ctx.Err() != nil": "ctx_dead", "ctx.Err() == nil": "(negb ctx_dead)"}
		tsTypes := map[string]string{"req.Legacy": "bool"}
		o.condOf(funcSpec{dir: tc, recv: "tsClient", name: "Timestamp", coqName: "imprint_is_hashed",
			params: "(legacy : bool)", retType: "bool", leaves: tsLeaves, types: tsTypes}, "if:req.Legacy")
		o.condOf(funcSpec{dir: tc, recv: "tsClient", name: "Timestamp", coqName: "loop_returns_token",
			params: "(failed : bool)", retType: "bool", leaves: tsLeaves, types: tsTypes}, "if:err", 1)
		o.condOf(funcSpec{dir: tc, recv: "tsClient", name: "Timestamp", coqName: "loop_stops_on_ctx",
			params: "(ctx_dead : bool)", retType: "bool", leaves: tsLeaves, types: tsTypes}, "if:ctx.Err()")
		o.hasStmt(tc, "tsClient", "Timestamp", `return nil, fmt.Errorf("timestamping failed: %w", err)`, "final_is_error")
		o.hasStmt(tc, "tsClient", "Timestamp", `return nil, errors.New("timestamp.urls is empty")`, "empty_urls_is_error")
		o.hasStmt(tc, "tsClient", "Timestamp", `return nil, errors.New("timestamp.msurls is empty")`, "empty_msurls_is_error")
		o.hasStmt(tc, "tsClient", "Timestamp", `return nil, fmt.Errorf("timestamp.namedurls[%q] is empty", req.Name)`, "empty_named_is_error")
		o.hasStmt(tc, "tsClient", "Timestamp", `return token, nil`, "loop_success_returns_the_token")

		// ---- tsClient.do: HTTP status and the choice of reply parser
		doLeaves := map[string]string{"resp.StatusCode": "code", "req.Legacy": "legacy"}
		o.condOf(funcSpec{dir: tc, recv: "tsClient", name: "do", coqName: "http_bad",
			params: "(code : Z)", retType: "bool", leaves: doLeaves, types: tsTypes}, "if:resp.StatusCode")
		o.condOf(funcSpec{dir: tc, recv: "tsClient", name: "do", coqName: "do_parse_legacy",
			params: "(legacy : bool)", retType: "bool", leaves: doLeaves, types: tsTypes}, "if:req.Legacy", 1)
		o.callOrder(tc, "tsClient", "do", "do_order", []string{"NewRequest", "NewLegacyRequest", "Do", "ReadAll", "ParseLegacyResponse", "ParseResponse"})
		// ParseLegacyResponse performs no check on the token: only these calls
		o.callOrder(d, "", "ParseLegacyResponse", "legacy_parse_calls", []string{"DecodeString", "Unmarshal", "Verify", "Equal", "VerifyMicrosoftToken"})

		// ---- TimestampAndMarshal: timestamp, attach, self-check, marshal
		tamLeaves := map[string]string{"timestamper != nil": "has_ts", "timestamper == nil": "(negb has_ts)"}
		o.condOf(funcSpec{dir: d, recv: "", name: "TimestampAndMarshal", coqName: "tam_uses_timestamper",
			params: "(has_ts : bool)", retType: "bool", leaves: tamLeaves}, "if:timestamper")
		o.callOrder(d, "", "TimestampAndMarshal", "tam_order",
			[]string{"Timestamp", "AddStampToSignedAuthenticode", "AddStampToSignedData", "Verify", "VerifyOptionalTimestamp", "Marshal"})

		// ---- verification: pkcs9.Verify, MessageImprint.Verify, VerifyMicrosoftToken
		vLeaves := map[string]string{"len(tst.Content.SignerInfos)": "n_signers", "digest": "digest", "i.HashedMessage": "hashed",
			"content": "content", "encryptedDigest": "sigvalue"}
		vCalls := map[string]string{"hmac.Equal": "bytes_eqb", "bytes.Equal": "bytes_eqb"}
		o.condOf(funcSpec{dir: d, recv: "", name: "Verify", coqName: "signer_count_bad",
			params: "(n_signers : Z)", retType: "bool", leaves: vLeaves}, "if:SignerInfos")
		o.callOrder(d, "", "Verify", "verify_order", []string{"unpackTokenInfo", "MessageImprint.Verify", "finishVerify"})
		o.condOf(funcSpec{dir: d, recv: "MessageImprint", name: "Verify", coqName: "imprint_verify_bad",
			params: "(digest hashed : bytes)", retType: "bool", leaves: vLeaves, calls: vCalls}, "if:HashedMessage")
		o.condOf(funcSpec{dir: d, recv: "", name: "VerifyMicrosoftToken", coqName: "ms_content_bad",
			params: "(content sigvalue : bytes)", retType: "bool", leaves: vLeaves, calls: vCalls}, "if:encryptedDigest")
		o.callOrder(d, "", "finishVerify", "finish_verify_order", []string{"tsi.Verify", "SigningTime"})

		// ---- TimestampedSignature.VerifyChain: which time the two chains are judged at
		vcLeaves := map[string]string{"sig.CounterSignature != nil": "has_cs", "sig.CounterSignature == nil": "(negb has_cs)",
			"sig.CounterSignature.SigningTime": "cs_time"}
		o.condOf(funcSpec{dir: d, recv: "TimestampedSignature", name: "VerifyChain", coqName: "vc_has_countersig",
			params: "(has_cs : bool)", retType: "bool", leaves: vcLeaves}, "if:sig.CounterSignature")
		o.exprOfAssign(funcSpec{dir: d, recv: "TimestampedSignature", name: "VerifyChain", coqName: "vc_signing_time",
			params: "(cs_time : Z)", retType: "Z", leaves: vcLeaves}, "signingTime", 0)
		o.hasStmt(d, "TimestampedSignature", "VerifyChain", `return sig.Signature.VerifyChain(roots, extraCerts, usage, signingTime)`, "vc_leaf_judged_at_signing_time")
		o.hasStmt(d, "TimestampedSignature", "VerifyChain", `return fmt.Errorf("validating timestamp: %w", err)`, "vc_bad_tsa_chain_is_error")
		o.hasStmt(d, "CounterSignature", "VerifyChain", `return cs.Signature.VerifyChain(roots, extraCerts, x509.ExtKeyUsageTimeStamping, cs.SigningTime)`, "cs_chain_judged_at_cs_time_with_ts_eku")

		for _, fn := range []string{"ParseResponse", "SanityCheckToken"} {
			fingerprint(d, "TimeStampReq", fn)
		}
		for _, fn := range []string{"NewRequest", "unpackTokenInfo", "NewLegacyRequest", "ParseLegacyResponse", "TimestampAndMarshal", "VerifyPkcs7",
			"VerifyOptionalTimestamp", "VerifyMicrosoftToken", "Verify", "finishVerify", "AddStampToSignedData", "AddStampToSignedAuthenticode"} {
			fingerprint(d, "", fn)
		}
		fingerprint(d, "MessageImprint", "Verify")
		fingerprint(d, "TimestampedSignature", "VerifyChain")
		fingerprint(d, "CounterSignature", "VerifyChain")
		fingerprint(tc, "tsClient", "Timestamp")
		fingerprint(tc, "tsClient", "do")
		fingerprint(tc, "", "New")
		fingerprint("lib/pkcs9/timestampcache", "timestampCache", "Timestamp")
		fingerprint("lib/pkcs9/timestampcache", "", "cacheKey")
		fingerprint("lib/pkcs9/ratelimit", "limiter", "Timestamp")
		fingerprint("internal/signinit", "", "GetTimestamper")
		fingerprint("internal/signinit", "namedTimestamper", "Timestamp")
		fingerprint("lib/pkcs7", "Signature", "VerifyChain")
		fingerprint("lib/pkcs7", "SignedData", "Verify")
		fingerprint("lib/pkcs7", "SignerInfo", "Verify")
		fingerprint("lib/appmanifest", "SignedManifest", "AddTimestamp")
		fingerprint("lib/appmanifest", "", "VerifyTimestamp")
		fingerprint("signers/cosign", "", "attachTimestamp")
		fingerprint("signers/vsix", "", "checkTimestamp")
	}
}
