package main

import (
	"crypto/sha256"
	"fmt"
	"go/ast"
	"go/token"
	"sort"
	"strconv"
	"strings"
)

// C10: timestamp client acceptance decision, ordered failover, attach + self-check, verification and chain time.
func init() {
	generators["C10_gen"] = func(o *out) {
		const d = "lib/pkcs9"
		const tc = "lib/pkcs9/tsclient"
		// ---- PKIStatus values (iota block in structs.go)
		o.constInt(d, "StatusGranted", "status_granted")
		o.constInt(d, "StatusGrantedWithMods", "status_granted_with_mods")
		o.constInt(d, "StatusRejection", "status_rejection")
		o.constInt(d, "StatusWaiting", "status_waiting")
		// three-way comparison used for big.Int.Cmp
		o.f("Definition cmp3 (a b : Z) : Z := match a ?= b with Lt => -1 | Eq => 0 | Gt => 1 end.\n")

		// ---- TimeStampReq.ParseResponse: the else-if chain after asn1.Unmarshal
		prLeaves := map[string]string{"len(rest)": "rest_len", "respmsg.Status.Status": "status"}
		o.condOf(funcSpec{dir: d, recv: "TimeStampReq", name: "ParseResponse", coqName: "resp_trailing",
			params: "(rest_len : Z)", retType: "bool", leaves: prLeaves}, "if:len(rest)")
		o.condOf(funcSpec{dir: d, recv: "TimeStampReq", name: "ParseResponse", coqName: "resp_denied",
			params: "(status : Z)", retType: "bool", leaves: prLeaves}, "if:respmsg.Status.Status")
		o.callOrder(d, "TimeStampReq", "ParseResponse", "parse_response_order", []string{"Unmarshal", "SanityCheckToken"})

		// ---- TimeStampReq.SanityCheckToken: order of the checks and the two comparisons
		scLeaves := map[string]string{"info.Nonce": "info_nonce", "info.MessageImprint.HashedMessage": "info_hashed",
			"req.MessageImprint.HashedMessage": "req_hashed",
			"req.Nonce != nil":                 "req_has_nonce", "req.Nonce == nil": "(negb req_has_nonce)",
			"info.Nonce == nil": "(negb info_has_nonce)", "info.Nonce != nil": "info_has_nonce"}
		scCalls := map[string]string{"req.Nonce.Cmp": "cmp3 req_nonce", "hmac.Equal": "bytes_eqb"}
		scTypes := map[string]string{"hmac.Equal()": "bool"}
		o.callOrder(d, "TimeStampReq", "SanityCheckToken", "sanity_order", []string{"Verify", "unpackTokenInfo", "Cmp", "Equal"})
		// info_nonce is only meaningful when info_has_nonce (Go's || and && are lazy: Cmp is not reached on a nil nonce)
		o.condOf(funcSpec{dir: d, recv: "TimeStampReq", name: "SanityCheckToken", coqName: "nonce_mismatch",
			params: "(req_has_nonce info_has_nonce : bool) (req_nonce info_nonce : Z)", retType: "bool", leaves: scLeaves, calls: scCalls, types: scTypes}, "if:req.Nonce")
		o.condOf(funcSpec{dir: d, recv: "TimeStampReq", name: "SanityCheckToken", coqName: "imprint_mismatch",
			params: "(info_hashed req_hashed : bytes)", retType: "bool", leaves: scLeaves, calls: scCalls, types: scTypes}, "if:HashedMessage")
		// unpackTokenInfo: empty content is rejected before infobytes[0] is read
		o.condOf(funcSpec{dir: d, recv: "", name: "unpackTokenInfo", coqName: "info_empty",
			params: "(content_len : Z)", retType: "bool", leaves: map[string]string{"len(infobytes)": "content_len"}}, "if:len(infobytes)")

		// ---- tsClient.Timestamp: imprint computation, the failover loop and the final error
		tsLeaves := map[string]string{"req.Legacy": "legacy",
			"err == nil": "(negb failed)", "err != nil": "failed",
			"ctx.Err() != nil": "ctx_dead", "ctx.Err() == nil": "(negb ctx_dead)"}
		tsTypes := map[string]string{"req.Legacy": "bool"}
		o.condOf(funcSpec{dir: tc, recv: "tsClient", name: "Timestamp", coqName: "imprint_is_hashed",
			params: "(legacy : bool)", retType: "bool", leaves: tsLeaves, types: tsTypes}, "if:req.Legacy")
		o.condOf(funcSpec{dir: tc, recv: "tsClient", name: "Timestamp", coqName: "loop_returns_token",
			params: "(failed : bool)", retType: "bool", leaves: tsLeaves, types: tsTypes}, "if:err", 1)
		o.condOf(funcSpec{dir: tc, recv: "tsClient", name: "Timestamp", coqName: "loop_stops_on_ctx",
			params: "(ctx_dead : bool)", retType: "bool", leaves: tsLeaves, types: tsTypes}, "if:ctx.Err()")
		o.hasStmt(tc, "tsClient", "Timestamp", `return nil, fmt.Errorf("timestamping failed: %w", err)`, "final_is_error")
		o.hasStmt(tc, "tsClient", "Timestamp", `return nil, errors.New("timestamp.urls is empty")`, "empty_urls_is_error")
		o.hasStmt(tc, "tsClient", "Timestamp", `return nil, errors.New("timestamp.msurls is empty")`, "empty_msurls_is_error")
		o.hasStmt(tc, "tsClient", "Timestamp", `return nil, fmt.Errorf("timestamp.namedurls[%q] is empty", req.Name)`, "empty_named_is_error")
		o.hasStmt(tc, "tsClient", "Timestamp", `return token, nil`, "loop_success_returns_the_token")

		// ---- tsClient.do: HTTP status and the choice of reply parser
		doLeaves := map[string]string{"resp.StatusCode": "code", "req.Legacy": "legacy"}
		o.condOf(funcSpec{dir: tc, recv: "tsClient", name: "do", coqName: "http_bad",
			params: "(code : Z)", retType: "bool", leaves: doLeaves, types: tsTypes}, "if:resp.StatusCode")
		o.condOf(funcSpec{dir: tc, recv: "tsClient", name: "do", coqName: "do_parse_legacy",
			params: "(legacy : bool)", retType: "bool", leaves: doLeaves, types: tsTypes}, "if:req.Legacy", 1)
		o.callOrder(tc, "tsClient", "do", "do_order", []string{"NewRequest", "NewLegacyRequest", "Do", "ReadAll", "ParseLegacyResponse", "ParseResponse"})
		// ParseLegacyResponse performs no check on the token: only these calls
		o.callOrder(d, "", "ParseLegacyResponse", "legacy_parse_calls", []string{"DecodeString", "Unmarshal", "Verify", "Equal", "VerifyMicrosoftToken"})

		// ---- TimestampAndMarshal: timestamp, attach, self-check, marshal
		tamLeaves := map[string]string{"timestamper != nil": "has_ts", "timestamper == nil": "(negb has_ts)"}
		o.condOf(funcSpec{dir: d, recv: "", name: "TimestampAndMarshal", coqName: "tam_uses_timestamper",
			params: "(has_ts : bool)", retType: "bool", leaves: tamLeaves}, "if:timestamper")
		o.callOrder(d, "", "TimestampAndMarshal", "tam_order",
			[]string{"Timestamp", "AddStampToSignedAuthenticode", "AddStampToSignedData", "Verify", "VerifyOptionalTimestamp", "Marshal"})

		// ---- verification: pkcs9.Verify, MessageImprint.Verify, VerifyMicrosoftToken
		vLeaves := map[string]string{"len(tst.Content.SignerInfos)": "n_signers", "digest": "digest", "i.HashedMessage": "hashed",
			"content": "content", "encryptedDigest": "sigvalue"}
		vCalls := map[string]string{"hmac.Equal": "bytes_eqb", "bytes.Equal": "bytes_eqb"}
		o.condOf(funcSpec{dir: d, recv: "", name: "Verify", coqName: "signer_count_bad",
			params: "(n_signers : Z)", retType: "bool", leaves: vLeaves}, "if:SignerInfos")
		o.callOrder(d, "", "Verify", "verify_order", []string{"unpackTokenInfo", "MessageImprint.Verify", "finishVerify"})
		o.condOf(funcSpec{dir: d, recv: "MessageImprint", name: "Verify", coqName: "imprint_verify_bad",
			params: "(digest hashed : bytes)", retType: "bool", leaves: vLeaves, calls: vCalls}, "if:HashedMessage")
		o.condOf(funcSpec{dir: d, recv: "", name: "VerifyMicrosoftToken", coqName: "ms_content_bad",
			params: "(content sigvalue : bytes)", retType: "bool", leaves: vLeaves, calls: vCalls}, "if:encryptedDigest")
		o.callOrder(d, "", "finishVerify", "finish_verify_order", []string{"tsi.Verify", "SigningTime"})

		// ---- TimestampedSignature.VerifyChain: which time the two chains are judged at
		vcLeaves := map[string]string{"sig.CounterSignature != nil": "has_cs", "sig.CounterSignature == nil": "(negb has_cs)",
			"sig.CounterSignature.SigningTime": "cs_time"}
		o.condOf(funcSpec{dir: d, recv: "TimestampedSignature", name: "VerifyChain", coqName: "vc_has_countersig",
			params: "(has_cs : bool)", retType: "bool", leaves: vcLeaves}, "if:sig.CounterSignature")
		o.exprOfAssign(funcSpec{dir: d, recv: "TimestampedSignature", name: "VerifyChain", coqName: "vc_signing_time",
			params: "(cs_time : Z)", retType: "Z", leaves: vcLeaves}, "signingTime", 0)
		o.hasStmt(d, "TimestampedSignature", "VerifyChain", `return sig.Signature.VerifyChain(roots, extraCerts, usage, signingTime)`, "vc_leaf_judged_at_signing_time")
		o.hasStmt(d, "TimestampedSignature", "VerifyChain", `return fmt.Errorf("validating timestamp: %w", err)`, "vc_bad_tsa_chain_is_error")
		o.hasStmt(d, "CounterSignature", "VerifyChain", `return cs.Signature.VerifyChain(roots, extraCerts, x509.ExtKeyUsageTimeStamping, cs.SigningTime)`, "cs_chain_judged_at_cs_time_with_ts_eku")

		for _, fn := range []string{"ParseResponse", "SanityCheckToken"} {
			fingerprint(d, "TimeStampReq", fn)
		}
		for _, fn := range []string{"NewRequest", "unpackTokenInfo", "NewLegacyRequest", "ParseLegacyResponse", "TimestampAndMarshal", "VerifyPkcs7",
			"VerifyOptionalTimestamp", "VerifyMicrosoftToken", "Verify", "finishVerify", "AddStampToSignedData", "AddStampToSignedAuthenticode"} {
			fingerprint(d, "", fn)
		}
		fingerprint(d, "MessageImprint", "Verify")
		fingerprint(d, "TimestampedSignature", "VerifyChain")
		fingerprint(d, "CounterSignature", "VerifyChain")
		fingerprint(tc, "tsClient", "Timestamp")
		fingerprint(tc, "tsClient", "do")
		fingerprint(tc, "", "New")
		fingerprint("lib/pkcs9/timestampcache", "timestampCache", "Timestamp")
		fingerprint("lib/pkcs9/timestampcache", "", "cacheKey")
		fingerprint("lib/pkcs9/ratelimit", "limiter", "Timestamp")
		fingerprint("internal/signinit", "", "GetTimestamper")
		fingerprint("internal/signinit", "namedTimestamper", "Timestamp")
		fingerprint("lib/pkcs7", "Signature", "VerifyChain")
		fingerprint("lib/pkcs7", "SignedData", "Verify")
		fingerprint("lib/pkcs7", "SignerInfo", "Verify")
		fingerprint("lib/appmanifest", "SignedManifest", "AddTimestamp")
		fingerprint("lib/appmanifest", "", "VerifyTimestamp")
		fingerprint("signers/cosign", "", "attachTimestamp")
		fingerprint("signers/vsix", "", "checkTimestamp")

		// ---- verification HISTORY: the three VerifyChain functions as programs of the chain-verification IR
		// (coq/C10/ChainIR.v), the inventory of package-level mutable state, and what the verification path touches
		c10Chain(o)

		// ---- round 3: how the client handles TIME (which timeouts tsclient.New attaches to the HTTP client, whether the
		// body read in tsClient.do is covered, the exits of the failover loop)
		c10Timing(o)
	}
}

// ======================================================================================================================
// C10 round 2: verification HISTORY.
//
//   (1) inventory of the package-level mutable state of lib/pkcs7, lib/pkcs9, lib/x509tools
//   (2) what the verification path (name-based call closure inside those three packages) does to that state
//   (3) pkcs7.Signature.VerifyChain, pkcs9.CounterSignature.VerifyChain, pkcs9.TimestampedSignature.VerifyChain
//       translated statement by statement into the chain-verification IR of coq/C10/ChainIR.v (memo look-ups and
//       stores on package-level variables included); anything the translator does not understand becomes
//       `SUnknown h`, which the model refuses (the theorems then no longer compile).

var c10Dirs = []string{"lib/pkcs7", "lib/pkcs9", "lib/x509tools"}
var c10Alias = map[string]string{"pkcs7": "lib/pkcs7", "pkcs9": "lib/pkcs9", "x509tools": "lib/x509tools"}

type c10Var struct {
	dir, name, typ string
	hasInit        bool
	literalInit    bool
}

func c10LiteralExpr(e ast.Expr) bool {
	switch x := e.(type) {
	case *ast.BasicLit:
		return true
	case *ast.Ident:
		return true
	case *ast.SelectorExpr:
		return true
	case *ast.CompositeLit: // a table; elements may be anything that is itself literal-like
		for _, el := range x.Elts {
			if kv, ok := el.(*ast.KeyValueExpr); ok {
				el = kv.Value
			}
			if !c10LiteralExpr(el) {
				return false
			}
		}
		return true
	case *ast.BinaryExpr:
		return c10LiteralExpr(x.X) && c10LiteralExpr(x.Y)
	case *ast.UnaryExpr:
		return x.Op != token.AND && x.Op != token.ARROW && c10LiteralExpr(x.X)
	case *ast.ParenExpr:
		return c10LiteralExpr(x.X)
	case *ast.CallExpr: // error values and conversions of literals
		fn := printNode(token.NewFileSet(), x.Fun)
		if fn == "errors.New" || fn == "fmt.Errorf" || fn == "regexp.MustCompile" || fn == "big.NewInt" {
			return true
		}
		if len(x.Args) == 1 {
			if _, isType := x.Fun.(*ast.ArrayType); isType {
				return c10LiteralExpr(x.Args[0])
			}
			if id, ok := x.Fun.(*ast.Ident); ok && (widths[id.Name] != 0 || id.Name == "string" || id.Name == "int" || id.Name == "uint") {
				return c10LiteralExpr(x.Args[0])
			}
		}
		return false
	}
	return false
}

func c10PkgVars(dir string) []c10Var {
	p := loadPkg(dir)
	var out []c10Var
	for _, f := range p.files {
		for _, d := range f.Decls {
			gd, ok := d.(*ast.GenDecl)
			if !ok || gd.Tok != token.VAR {
				continue
			}
			for _, s := range gd.Specs {
				vs := s.(*ast.ValueSpec)
				typ := ""
				if vs.Type != nil {
					typ = printNode(p.fset, vs.Type)
				}
				for i, n := range vs.Names {
					if n.Name == "_" {
						continue
					}
					v := c10Var{dir: dir, name: n.Name, typ: typ}
					if len(vs.Values) > i {
						v.hasInit = true
						v.literalInit = c10LiteralExpr(vs.Values[i])
					} else if len(vs.Values) > 0 { // multi-value call
						v.hasInit = true
					}
					out = append(out, v)
				}
			}
		}
	}
	sort.Slice(out, func(i, j int) bool { return out[i].name < out[j].name })
	return out
}

type c10Ref struct{ dir, name, kind, fn string }

func c10FuncKey(dir string, fd *ast.FuncDecl) string {
	r := ""
	if fd.Recv != nil && len(fd.Recv.List) == 1 {
		t := fd.Recv.List[0].Type
		if s, ok := t.(*ast.StarExpr); ok {
			t = s.X
		}
		if id, ok := t.(*ast.Ident); ok {
			r = id.Name
		}
	}
	return dir + ":" + r + "." + fd.Name.Name
}

// names declared inside the function (parameters, results, receiver, :=, var, range): they shadow package-level names
func c10LocalNames(fd *ast.FuncDecl) map[string]bool {
	loc := map[string]bool{}
	addFields := func(fl *ast.FieldList) {
		if fl == nil {
			return
		}
		for _, f := range fl.List {
			for _, n := range f.Names {
				loc[n.Name] = true
			}
		}
	}
	addFields(fd.Recv)
	addFields(fd.Type.Params)
	addFields(fd.Type.Results)
	if fd.Body == nil {
		return loc
	}
	ast.Inspect(fd.Body, func(n ast.Node) bool {
		switch x := n.(type) {
		case *ast.AssignStmt:
			if x.Tok == token.DEFINE {
				for _, l := range x.Lhs {
					if id, ok := l.(*ast.Ident); ok {
						loc[id.Name] = true
					}
				}
			}
		case *ast.ValueSpec:
			for _, id := range x.Names {
				loc[id.Name] = true
			}
		case *ast.RangeStmt:
			if x.Tok == token.DEFINE {
				for _, e := range []ast.Expr{x.Key, x.Value} {
					if id, ok := e.(*ast.Ident); ok {
						loc[id.Name] = true
					}
				}
			}
		case *ast.FuncLit:
			addFields(x.Type.Params)
			addFields(x.Type.Results)
		}
		return true
	})
	return loc
}

// c10Refs lists every reference to a package-level variable of the three packages made inside fd, with the way it is used
func c10Refs(dir string, fd *ast.FuncDecl, vars map[string]map[string]bool) []c10Ref {
	if fd.Body == nil {
		return nil
	}
	loc := c10LocalNames(fd)
	parent := map[ast.Node]ast.Node{}
	var stack []ast.Node
	ast.Inspect(fd.Body, func(n ast.Node) bool {
		if n == nil {
			stack = stack[:len(stack)-1]
			return true
		}
		if len(stack) > 0 {
			parent[n] = stack[len(stack)-1]
		}
		stack = append(stack, n)
		return true
	})
	key := c10FuncKey(dir, fd)
	var out []c10Ref
	classify := func(ref ast.Node) string {
		cur := ref
		for {
			p := parent[cur]
			switch x := p.(type) {
			case *ast.SelectorExpr:
				if x.X == cur {
					if gp, ok := parent[p].(*ast.CallExpr); ok && gp.Fun == p && cur == ref {
						return "call:" + x.Sel.Name
					}
					cur = p
					continue
				}
			case *ast.IndexExpr:
				if x.X == cur {
					cur = p
					continue
				}
			case *ast.ParenExpr, *ast.StarExpr:
				cur = p
				continue
			case *ast.AssignStmt:
				for _, l := range x.Lhs {
					if l == cur {
						return "write"
					}
				}
			case *ast.IncDecStmt:
				return "write"
			case *ast.UnaryExpr:
				if x.Op == token.AND {
					return "addr"
				}
			case *ast.CallExpr:
				if id, ok := x.Fun.(*ast.Ident); ok && (id.Name == "delete" || id.Name == "clear") && len(x.Args) > 0 && x.Args[0] == cur {
					return "write"
				}
			case *ast.RangeStmt:
				if (x.Key == cur || x.Value == cur) && x.Tok == token.ASSIGN {
					return "write"
				}
			}
			return "read"
		}
	}
	ast.Inspect(fd.Body, func(n ast.Node) bool {
		switch x := n.(type) {
		case *ast.SelectorExpr:
			if id, ok := x.X.(*ast.Ident); ok && !loc[id.Name] {
				if d, ok := c10Alias[id.Name]; ok && vars[d][x.Sel.Name] {
					out = append(out, c10Ref{d, x.Sel.Name, classify(x), key})
					return false
				}
			}
			// field / method selector: only the operand may name a package variable
			ast.Inspect(x.X, func(m ast.Node) bool { return true })
			return true
		case *ast.KeyValueExpr:
			return true
		case *ast.Ident:
			if loc[x.Name] || !vars[dir][x.Name] {
				return true
			}
			switch p := parent[x].(type) {
			case *ast.SelectorExpr:
				if p.Sel == x {
					return true
				}
			case *ast.KeyValueExpr:
				if p.Key == x {
					if _, inLit := parent[p].(*ast.CompositeLit); inLit {
						return true // struct field name
					}
				}
			}
			out = append(out, c10Ref{dir, x.Name, classify(x), key})
		}
		return true
	})
	return out
}

var c10Mutators = map[string]bool{"Store": true, "LoadOrStore": true, "LoadAndDelete": true, "Delete": true, "Swap": true, "CompareAndSwap": true,
	"CompareAndDelete": true, "Add": true, "Set": true, "Lock": true, "Unlock": true, "RLock": true, "RUnlock": true, "TryLock": true, "Do": true,
	"Put": true, "Get": true, "Reset": true, "Write": true, "Push": true, "Pop": true, "Insert": true, "Remove": true, "Clear": true, "Wait": true,
	"Done": true, "Signal": true, "Broadcast": true, "Load": true, "Range": true, "Inc": true, "Dec": true, "AddCert": true, "AppendCertsFromPEM": true}

func c10Hash(s string) int64 {
	h := sha256.Sum256([]byte(strings.Join(strings.Fields(s), " ")))
	return int64(h[0])<<16 | int64(h[1])<<8 | int64(h[2]) + 1
}

// identifies a package-level variable inside an IR term (the name is kept as a comment)
func c10Gid(g string) string { return fmt.Sprintf("%d (* %s *)", c10Hash(g), g) }

func c10Str(s string) string { return strconv.Quote(s) + "%string" }

func c10StrList(xs []string) string {
	q := make([]string, len(xs))
	for i, x := range xs {
		q[i] = c10Str(x)
	}
	return "[" + strings.Join(q, "; ") + "]"
}

func c10Chain(o *out) {
	o.f("\n(* ---- verification history (C10 round 2) *)\nFrom Coq Require Import String.\nFrom Relic Require Import C10.ChainIR.\n")
	// ------------------------------------------------------------ (1) inventory
	vars := map[string]map[string]bool{}
	all := map[string][]c10Var{}
	for _, d := range c10Dirs {
		vars[d] = map[string]bool{}
		all[d] = c10PkgVars(d)
		for _, v := range all[d] {
			vars[d][v.name] = true
		}
	}
	type fn struct {
		dir string
		fd  *ast.FuncDecl
	}
	var fns []fn
	byName := map[string][]fn{}
	for _, d := range c10Dirs {
		p := loadPkg(d)
		var names []string
		for n := range p.files {
			names = append(names, n)
		}
		sort.Strings(names)
		for _, n := range names {
			for _, dd := range p.files[n].Decls {
				if fd, ok := dd.(*ast.FuncDecl); ok {
					fns = append(fns, fn{d, fd})
					byName[fd.Name.Name] = append(byName[fd.Name.Name], fn{d, fd})
				}
			}
		}
	}
	refsOf := map[string][]c10Ref{}
	mutated := map[string]string{} // dir.name -> first reason
	for _, f := range fns {
		rs := c10Refs(f.dir, f.fd, vars)
		refsOf[c10FuncKey(f.dir, f.fd)] = rs
		for _, r := range rs {
			k := r.dir + "." + r.name
			if _, seen := mutated[k]; seen {
				continue
			}
			if r.kind == "write" || r.kind == "addr" || (strings.HasPrefix(r.kind, "call:") && c10Mutators[r.kind[5:]]) {
				mutated[k] = r.kind + " in " + r.fn
			}
		}
	}
	isMutable := func(v c10Var) (bool, string) {
		if !v.hasInit {
			return true, "no initialiser"
		}
		if strings.HasPrefix(v.typ, "sync.") || strings.HasPrefix(v.typ, "atomic.") || strings.HasPrefix(v.typ, "*") {
			return true, "type " + v.typ
		}
		if !v.literalInit {
			return true, "initialiser is not a literal table"
		}
		if why, ok := mutated[v.dir+"."+v.name]; ok {
			return true, why
		}
		return false, ""
	}
	mutableSet := map[string]bool{}
	for _, d := range c10Dirs {
		var mut, why, tables []string
		for _, v := range all[d] {
			if m, w := isMutable(v); m {
				mut = append(mut, v.name)
				why = append(why, v.name+": "+w)
				mutableSet[d+"."+v.name] = true
			} else {
				tables = append(tables, v.name)
			}
		}
		short := d[strings.LastIndex(d, "/")+1:]
		o.f("Definition mutable_state_%s : list string := %s.\n(* %s: %s *)\n", short, c10StrList(mut), d, strings.Join(why, "; "))
		o.f("Definition constant_tables_%s : Z := %d. (* initialised by a literal and never written, address-taken or mutated through a method: %s *)\n",
			short, len(tables), strings.Join(tables, " "))
	}
	// ------------------------------------------------------------ (2) what the verification path touches
	entries := [][3]string{{"lib/pkcs9", "TimestampedSignature", "VerifyChain"}, {"lib/pkcs9", "CounterSignature", "VerifyChain"},
		{"lib/pkcs7", "Signature", "VerifyChain"}, {"lib/pkcs9", "", "VerifyOptionalTimestamp"}, {"lib/pkcs9", "", "VerifyPkcs7"},
		{"lib/pkcs9", "", "Verify"}, {"lib/pkcs9", "", "finishVerify"}, {"lib/pkcs9", "", "VerifyMicrosoftToken"},
		{"lib/pkcs9", "MessageImprint", "Verify"}, {"lib/pkcs7", "SignedData", "Verify"}, {"lib/pkcs7", "SignerInfo", "Verify"},
		{"lib/pkcs7", "", "Unmarshal"}}
	reach := map[string]bool{}
	var work []fn
	for _, e := range entries {
		_, fd := findFunc(e[0], e[1], e[2])
		if fd == nil {
			o.brokenDef("verify_path_state", "entry point "+e[0]+":"+e[1]+"."+e[2]+" not found")
			continue
		}
		k := c10FuncKey(e[0], fd)
		if !reach[k] {
			reach[k] = true
			work = append(work, fn{e[0], fd})
		}
	}
	for len(work) > 0 {
		f := work[len(work)-1]
		work = work[:len(work)-1]
		if f.fd.Body == nil {
			continue
		}
		ast.Inspect(f.fd.Body, func(n ast.Node) bool {
			ce, ok := n.(*ast.CallExpr)
			if !ok {
				return true
			}
			name := ""
			switch x := ce.Fun.(type) {
			case *ast.Ident:
				name = x.Name
			case *ast.SelectorExpr:
				name = x.Sel.Name
			}
			for _, g := range byName[name] {
				k := c10FuncKey(g.dir, g.fd)
				if !reach[k] {
					reach[k] = true
					work = append(work, g)
				}
			}
			return true
		})
	}
	var reachKeys []string
	for k := range reach {
		reachKeys = append(reachKeys, k)
	}
	sort.Strings(reachKeys)
	touchSet := map[string]bool{}
	for _, k := range reachKeys {
		for _, r := range refsOf[k] {
			if mutableSet[r.dir+"."+r.name] {
				touchSet[r.dir+"."+r.name+" "+r.kind+" in "+r.fn] = true
			}
		}
	}
	var touches []string
	for t := range touchSet {
		touches = append(touches, t)
	}
	sort.Strings(touches)
	o.f("Definition verify_path_state : list string := %s.\n(* uses of mutable package-level state by the %d functions of lib/pkcs7, lib/pkcs9, lib/x509tools reachable (by callee name) from the verification entry points *)\n",
		c10StrList(touches), len(reachKeys))
	o.f("Definition verify_path_functions : Z := %d.\n", len(reachKeys))

	// ------------------------------------------------------------ (3) the three VerifyChain functions as IR programs
	c10Program(o, "lib/pkcs7", "Signature", "VerifyChain", "vc7_prog", vars)
	c10Program(o, "lib/pkcs9", "CounterSignature", "VerifyChain", "vc9cs_prog", vars)
	c10Program(o, "lib/pkcs9", "TimestampedSignature", "VerifyChain", "vc9ts_prog", vars)
}

// ---------------------------------------------------------------------------------------------------------------------
// translation of one VerifyChain function into the IR

type c10Sym struct {
	kind  string   // pool | opts | expr | memook
	srcs  []string // pool: isrc terms
	pool  string   // opts: name of the pool variable feeding Intermediates ("" = none)
	inter []string // opts: direct intermediates when not a tracked pool
	roots string   // opts: rexp
	time  string   // opts: texp
	uses  []string // opts: uexp list
	expr  ast.Expr // expr: the bound expression (memo keys)
	memo  string   // memook: CMemoHit term
}

type c10Tr struct {
	p                             *pkgInfo
	dir                           string
	recv                          string
	pRoots, pExtra, pUsage, pTime string
	timeLocal                     string
	syms                          map[string]*c10Sym
	vars                          map[string]map[string]bool
	unknown                       []string
}

func (t *c10Tr) pr(n ast.Node) string {
	return strings.Join(strings.Fields(printNode(t.p.fset, n)), " ")
}

func (t *c10Tr) unk(n ast.Node) string {
	s := t.pr(n)
	t.unknown = append(t.unknown, s)
	return fmt.Sprintf("(SUnknown %d)", c10Hash(s))
}

// does the expression mention a package-level variable of the three packages? returns its qualified name
func (t *c10Tr) globalIn(e ast.Node) string {
	found := ""
	ast.Inspect(e, func(n ast.Node) bool {
		if found != "" {
			return false
		}
		switch x := n.(type) {
		case *ast.SelectorExpr:
			if id, ok := x.X.(*ast.Ident); ok {
				if d, ok := c10Alias[id.Name]; ok && t.vars[d][x.Sel.Name] {
					found = d + "." + x.Sel.Name
					return false
				}
			}
			ast.Inspect(x.X, func(m ast.Node) bool {
				if id, ok := m.(*ast.Ident); ok && found == "" && t.isGlobalIdent(id) {
					found = t.dir + "." + id.Name
				}
				return found == ""
			})
			return false
		case *ast.Ident:
			if t.isGlobalIdent(x) {
				found = t.dir + "." + x.Name
			}
		}
		return true
	})
	return found
}

func (t *c10Tr) isGlobalIdent(id *ast.Ident) bool {
	if _, local := t.syms[id.Name]; local {
		return false
	}
	if id.Name == t.recv || id.Name == t.pRoots || id.Name == t.pExtra || id.Name == t.pUsage || id.Name == t.pTime || id.Name == t.timeLocal {
		return false
	}
	return t.vars[t.dir][id.Name]
}

// package-level variable named by an expression (G or alias.G), "" if none
func (t *c10Tr) globalVar(e ast.Expr) string {
	switch x := e.(type) {
	case *ast.Ident:
		if t.isGlobalIdent(x) {
			return t.dir + "." + x.Name
		}
	case *ast.SelectorExpr:
		if id, ok := x.X.(*ast.Ident); ok {
			if d, ok := c10Alias[id.Name]; ok && t.vars[d][x.Sel.Name] {
				return d + "." + x.Sel.Name
			}
		}
	case *ast.ParenExpr:
		return t.globalVar(x.X)
	case *ast.UnaryExpr:
		if x.Op == token.AND {
			return t.globalVar(x.X)
		}
	}
	return ""
}

var c10Usages = map[string]int{"x509.ExtKeyUsageAny": 0, "x509.ExtKeyUsageServerAuth": 1, "x509.ExtKeyUsageClientAuth": 2, "x509.ExtKeyUsageCodeSigning": 3,
	"x509.ExtKeyUsageEmailProtection": 4, "x509.ExtKeyUsageIPSECEndSystem": 5, "x509.ExtKeyUsageIPSECTunnel": 6, "x509.ExtKeyUsageIPSECUser": 7,
	"x509.ExtKeyUsageTimeStamping": 8, "x509.ExtKeyUsageOCSPSigning": 9}

func (t *c10Tr) texp(e ast.Expr) string {
	s := t.pr(e)
	switch {
	case t.pTime != "" && s == t.pTime:
		return "TParam"
	case t.timeLocal != "" && s == t.timeLocal:
		return "TLocal"
	case s == t.recv+".SigningTime" || s == t.recv+".CounterSignature.SigningTime":
		return "TCsTime"
	case s == "time.Time{}":
		return "TZero"
	case s == "time.Now()":
		return "TNow"
	}
	return fmt.Sprintf("(TOther %d)", c10Hash(s))
}

func (t *c10Tr) uexp(e ast.Expr) string {
	s := t.pr(e)
	if t.pUsage != "" && s == t.pUsage {
		return "UParam"
	}
	if v, ok := c10Usages[s]; ok {
		return fmt.Sprintf("(UConst %d)", v)
	}
	return fmt.Sprintf("(UOther %d)", c10Hash(s))
}

func (t *c10Tr) rexp(e ast.Expr) string {
	s := t.pr(e)
	if t.pRoots != "" && s == t.pRoots {
		return "RParam"
	}
	if s == "nil" {
		return "RNil"
	}
	return fmt.Sprintf("(ROther %d)", c10Hash(s))
}

func (t *c10Tr) isrc(e ast.Expr) string {
	s := t.pr(e)
	if t.pExtra != "" && s == t.pExtra {
		return "IExtra"
	}
	if s == t.recv+".Intermediates" || s == t.recv+".Signature.Intermediates" {
		return "IInter"
	}
	return fmt.Sprintf("(IOther %d)", c10Hash(s))
}

func (t *c10Tr) extraArg(e ast.Expr) string {
	if t.pr(e) == "nil" {
		return "[]"
	}
	return "[" + t.isrc(e) + "]"
}

// one component of a memo key
func (t *c10Tr) kcomp(e ast.Expr) string {
	s := t.pr(e)
	switch {
	case t.pRoots != "" && s == t.pRoots:
		return "KRoots"
	case t.pUsage != "" && s == t.pUsage:
		return "KUsage"
	case t.pExtra != "" && s == t.pExtra:
		return "KExtra"
	case s == t.recv+".Intermediates":
		return "KInter"
	}
	if te := t.texp(e); !strings.HasPrefix(te, "(TOther") {
		return "(KTime " + te + ")"
	}
	leaf := t.recv + ".Certificate"
	for _, pat := range []string{leaf, leaf + ".Raw", "string(" + leaf + ".Raw)", "sha256.Sum256(" + leaf + ".Raw)", "sha1.Sum(" + leaf + ".Raw)",
		"sha512.Sum512(" + leaf + ".Raw)", "hex.EncodeToString(" + leaf + ".Raw)"} {
		if s == pat {
			return "KLeaf"
		}
	}
	if bl, ok := e.(*ast.BasicLit); ok && bl.Kind == token.INT {
		if v, err := strconv.ParseInt(bl.Value, 0, 64); err == nil {
			return fmt.Sprintf("(KConst %d)", v)
		}
	}
	return fmt.Sprintf("(KOther %d)", c10Hash(s))
}

func (t *c10Tr) key(e ast.Expr) string {
	if id, ok := e.(*ast.Ident); ok {
		if sym, ok := t.syms[id.Name]; ok && sym.kind == "expr" {
			return t.key(sym.expr)
		}
	}
	if cl, ok := e.(*ast.CompositeLit); ok {
		var cs []string
		for _, el := range cl.Elts {
			if kv, ok := el.(*ast.KeyValueExpr); ok {
				el = kv.Value
			}
			cs = append(cs, t.kcomp(el))
		}
		return "[" + strings.Join(cs, "; ") + "]"
	}
	return "[" + t.kcomp(e) + "]"
}

// pure right-hand sides that may be bound to a local name without any effect
func (t *c10Tr) pureExpr(e ast.Expr) bool {
	pure := true
	ast.Inspect(e, func(n ast.Node) bool {
		if ce, ok := n.(*ast.CallExpr); ok {
			fn := t.pr(ce.Fun)
			switch fn {
			case "sha256.Sum256", "sha1.Sum", "sha512.Sum512", "string", "new", "hex.EncodeToString", "fmt.Sprintf", "len":
			default:
				if _, isType := ce.Fun.(*ast.ArrayType); !isType {
					pure = false
				}
			}
		}
		return pure
	})
	return pure && t.globalIn(e) == ""
}

func (t *c10Tr) callArgs(ce *ast.CallExpr) (string, bool) {
	sel, ok := ce.Fun.(*ast.SelectorExpr)
	if !ok || sel.Sel.Name != "VerifyChain" {
		return "", false
	}
	rcv := t.pr(sel.X)
	switch {
	case len(ce.Args) == 4 && rcv == t.recv+".Signature":
		return fmt.Sprintf("F7 %s %s %s %s", t.rexp(ce.Args[0]), t.extraArg(ce.Args[1]), t.uexp(ce.Args[2]), t.texp(ce.Args[3])), true
	case len(ce.Args) == 2 && rcv == t.recv+".CounterSignature":
		return fmt.Sprintf("F9cs %s %s (UConst 0) TZero", t.rexp(ce.Args[0]), t.extraArg(ce.Args[1])), true
	}
	return "", false
}

// memo look-up `_, ok := G.Load(K)` / `v, ok := G[K]`: returns the CMemoHit term
func (t *c10Tr) memoLookup(as *ast.AssignStmt) (okName, term string, ok bool) {
	if as.Tok != token.DEFINE || len(as.Lhs) != 2 || len(as.Rhs) != 1 {
		return
	}
	okId, isId := as.Lhs[1].(*ast.Ident)
	if !isId {
		return
	}
	switch r := as.Rhs[0].(type) {
	case *ast.CallExpr:
		if sel, isSel := r.Fun.(*ast.SelectorExpr); isSel && sel.Sel.Name == "Load" && len(r.Args) == 1 {
			if g := t.globalVar(sel.X); g != "" {
				return okId.Name, fmt.Sprintf("(CMemoHit %s %s)", c10Gid(g), t.key(r.Args[0])), true
			}
		}
	case *ast.IndexExpr:
		if g := t.globalVar(r.X); g != "" {
			return okId.Name, fmt.Sprintf("(CMemoHit %s %s)", c10Gid(g), t.key(r.Index)), true
		}
	}
	return
}

func (t *c10Tr) cond(e ast.Expr) string {
	s := t.pr(e)
	switch s {
	case "err == nil":
		return "CNotFailed"
	case "err != nil":
		return "CFailed"
	case t.recv + ".CounterSignature != nil":
		return "CHasCs"
	case t.recv + ".CounterSignature == nil":
		return "CNoCs"
	}
	switch x := e.(type) {
	case *ast.ParenExpr:
		return t.cond(x.X)
	case *ast.UnaryExpr:
		if x.Op == token.NOT {
			return "(CNeg " + t.cond(x.X) + ")"
		}
	case *ast.BinaryExpr:
		if x.Op == token.LAND {
			return "(CAnd " + t.cond(x.X) + " " + t.cond(x.Y) + ")"
		}
		if x.Op == token.LOR {
			return "(COr " + t.cond(x.X) + " " + t.cond(x.Y) + ")"
		}
	case *ast.Ident:
		if sym, ok := t.syms[x.Name]; ok && sym.kind == "memook" {
			return sym.memo
		}
	case *ast.IndexExpr: // if G[K] { ... } on a map[key]bool
		if g := t.globalVar(x.X); g != "" {
			return fmt.Sprintf("(CMemoHit %s %s)", c10Gid(g), t.key(x.Index))
		}
	}
	if g := t.globalIn(e); g != "" {
		return fmt.Sprintf("(CGlobal %d)", c10Hash(s))
	}
	return fmt.Sprintf("(COpaque %d)", c10Hash(s))
}

func c10Seq(parts []string) string {
	if len(parts) == 0 {
		return "SSkip"
	}
	res := parts[len(parts)-1]
	for i := len(parts) - 2; i >= 0; i-- {
		res = "(SSeq " + parts[i] + " " + res + ")"
	}
	return res
}

func (t *c10Tr) lockCall(e ast.Expr) bool {
	ce, ok := e.(*ast.CallExpr)
	if !ok {
		return false
	}
	sel, ok := ce.Fun.(*ast.SelectorExpr)
	if !ok {
		return false
	}
	switch sel.Sel.Name {
	case "Lock", "Unlock", "RLock", "RUnlock":
		return len(ce.Args) == 0
	}
	return false
}

func (t *c10Tr) block(list []ast.Stmt) string {
	var parts []string
	for _, s := range list {
		if term := t.stmt(s); term != "" {
			parts = append(parts, term)
		}
	}
	return c10Seq(parts)
}

// initialiser of an if statement; returns statements to run before the condition
func (t *c10Tr) ifInit(s ast.Stmt) (string, bool) {
	as, ok := s.(*ast.AssignStmt)
	if !ok {
		return "", false
	}
	if okName, term, ok := t.memoLookup(as); ok {
		t.syms[okName] = &c10Sym{kind: "memook", memo: term}
		return "", true
	}
	if len(as.Lhs) == 1 && len(as.Rhs) == 1 && t.pr(as.Lhs[0]) == "err" {
		if ce, ok := as.Rhs[0].(*ast.CallExpr); ok {
			if args, ok := t.callArgs(ce); ok {
				return "(SCall " + args + ")", true
			}
		}
	}
	if as.Tok == token.DEFINE && len(as.Lhs) == 1 && len(as.Rhs) == 1 && t.pureExpr(as.Rhs[0]) {
		if id, ok := as.Lhs[0].(*ast.Ident); ok {
			t.syms[id.Name] = &c10Sym{kind: "expr", expr: as.Rhs[0]}
			return "", true
		}
	}
	return "", false
}

func (t *c10Tr) stmt(s ast.Stmt) string {
	switch x := s.(type) {
	case *ast.DeclStmt: // var signingTime time.Time
		if gd, ok := x.Decl.(*ast.GenDecl); ok && gd.Tok == token.VAR && len(gd.Specs) == 1 {
			vs := gd.Specs[0].(*ast.ValueSpec)
			if len(vs.Names) == 1 && vs.Type != nil && t.pr(vs.Type) == "time.Time" && t.timeLocal == "" {
				t.timeLocal = vs.Names[0].Name
				if len(vs.Values) == 0 {
					return "(SSetTime TZero)"
				}
				if len(vs.Values) == 1 {
					t.timeLocal = ""
					te := t.texp(vs.Values[0])
					t.timeLocal = vs.Names[0].Name
					return "(SSetTime " + te + ")"
				}
			}
		}
		return t.unk(s)
	case *ast.RangeStmt: // for _, cert := range SRC { pool.AddCert(cert) }
		if len(x.Body.List) == 1 {
			if es, ok := x.Body.List[0].(*ast.ExprStmt); ok {
				if ce, ok := es.X.(*ast.CallExpr); ok && len(ce.Args) == 1 {
					if sel, ok := ce.Fun.(*ast.SelectorExpr); ok && sel.Sel.Name == "AddCert" && x.Value != nil && t.pr(ce.Args[0]) == t.pr(x.Value) {
						if id, ok := sel.X.(*ast.Ident); ok {
							if sym, ok := t.syms[id.Name]; ok && sym.kind == "pool" {
								sym.srcs = append(sym.srcs, t.isrc(x.X))
								return ""
							}
						}
					}
				}
			}
		}
		return t.unk(s)
	case *ast.AssignStmt:
		if len(x.Lhs) == 1 && len(x.Rhs) == 1 {
			lhs := t.pr(x.Lhs[0])
			rhs := x.Rhs[0]
			if x.Tok == token.ASSIGN && t.timeLocal != "" && lhs == t.timeLocal {
				return "(SSetTime " + t.texp(rhs) + ")"
			}
			if ix, ok := x.Lhs[0].(*ast.IndexExpr); ok && x.Tok == token.ASSIGN { // G[K] = v
				if g := t.globalVar(ix.X); g != "" {
					return fmt.Sprintf("(SMemoStore %s %s)", c10Gid(g), t.key(ix.Index))
				}
			}
			if id, ok := x.Lhs[0].(*ast.Ident); ok && x.Tok == token.DEFINE {
				if t.pr(rhs) == "x509.NewCertPool()" {
					t.syms[id.Name] = &c10Sym{kind: "pool"}
					return ""
				}
				if cl, ok := rhs.(*ast.CompositeLit); ok && t.pr(cl.Type) == "x509.VerifyOptions" {
					sym := &c10Sym{kind: "opts", roots: "RNil", time: "TZero"}
					for _, el := range cl.Elts {
						kv, ok := el.(*ast.KeyValueExpr)
						if !ok {
							return t.unk(s)
						}
						switch t.pr(kv.Key) {
						case "Intermediates":
							if pid, ok := kv.Value.(*ast.Ident); ok && t.syms[pid.Name] != nil && t.syms[pid.Name].kind == "pool" {
								sym.pool = pid.Name
							} else if t.pr(kv.Value) != "nil" {
								sym.inter = []string{fmt.Sprintf("(IOther %d)", c10Hash(t.pr(kv.Value)))}
							}
						case "Roots":
							sym.roots = t.rexp(kv.Value)
						case "CurrentTime":
							sym.time = t.texp(kv.Value)
						case "KeyUsages":
							if ul, ok := kv.Value.(*ast.CompositeLit); ok {
								for _, u := range ul.Elts {
									sym.uses = append(sym.uses, t.uexp(u))
								}
							} else {
								sym.uses = []string{fmt.Sprintf("(UOther %d)", c10Hash(t.pr(kv.Value)))}
							}
						default:
							return t.unk(s)
						}
					}
					t.syms[id.Name] = sym
					return ""
				}
				if t.pureExpr(rhs) {
					t.syms[id.Name] = &c10Sym{kind: "expr", expr: rhs}
					return ""
				}
			}
			if lhs == "err" {
				if ce, ok := rhs.(*ast.CallExpr); ok {
					if args, ok := t.callArgs(ce); ok {
						return "(SCall " + args + ")"
					}
				}
			}
		}
		if len(x.Lhs) == 2 && len(x.Rhs) == 1 && t.pr(x.Lhs[1]) == "err" { // _, err := info.Certificate.Verify(opts)
			if ce, ok := x.Rhs[0].(*ast.CallExpr); ok && len(ce.Args) == 1 {
				if sel, ok := ce.Fun.(*ast.SelectorExpr); ok && sel.Sel.Name == "Verify" && t.pr(sel.X) == t.recv+".Certificate" {
					if oid, ok := ce.Args[0].(*ast.Ident); ok {
						if sym, ok := t.syms[oid.Name]; ok && sym.kind == "opts" {
							inter := sym.inter
							if sym.pool != "" {
								inter = t.syms[sym.pool].srcs
							}
							return fmt.Sprintf("(SVerify [%s] %s %s [%s])", strings.Join(inter, "; "), sym.roots, sym.time, strings.Join(sym.uses, "; "))
						}
					}
				}
			}
		}
		if okName, term, ok := t.memoLookup(x); ok {
			t.syms[okName] = &c10Sym{kind: "memook", memo: term}
			return ""
		}
		return t.unk(s)
	case *ast.ExprStmt:
		if t.lockCall(x.X) {
			return ""
		}
		if ce, ok := x.X.(*ast.CallExpr); ok {
			if sel, ok := ce.Fun.(*ast.SelectorExpr); ok && sel.Sel.Name == "Store" && len(ce.Args) == 2 {
				if g := t.globalVar(sel.X); g != "" {
					return fmt.Sprintf("(SMemoStore %s %s)", c10Gid(g), t.key(ce.Args[0]))
				}
			}
		}
		return t.unk(s)
	case *ast.DeferStmt:
		if t.lockCall(x.Call) {
			return ""
		}
		return t.unk(s)
	case *ast.IfStmt:
		pre := ""
		if x.Init != nil {
			p, ok := t.ifInit(x.Init)
			if !ok {
				return t.unk(s)
			}
			pre = p
		}
		c := t.cond(x.Cond)
		th := t.block(x.Body.List)
		el := "SSkip"
		switch e := x.Else.(type) {
		case *ast.BlockStmt:
			el = t.block(e.List)
		case *ast.IfStmt:
			el = t.stmt(e)
		}
		term := "(SIf " + c + " " + th + " " + el + ")"
		if pre != "" {
			return "(SSeq " + pre + " " + term + ")"
		}
		return term
	case *ast.BlockStmt:
		return t.block(x.List)
	case *ast.ReturnStmt:
		if len(x.Results) != 1 {
			return t.unk(s)
		}
		r := x.Results[0]
		rs := t.pr(r)
		if rs == "nil" {
			return "SRetOk"
		}
		if rs == "err" {
			return "SRetLast"
		}
		if ce, ok := r.(*ast.CallExpr); ok {
			if args, ok := t.callArgs(ce); ok {
				return "(SRetCall " + args + ")"
			}
			fn := t.pr(ce.Fun)
			if (fn == "fmt.Errorf" || fn == "errors.New") && t.globalIn(r) == "" {
				tag := 0
				if strings.Contains(rs, "validating timestamp") {
					tag = 1
				}
				return fmt.Sprintf("(SRetErr %d)", tag)
			}
		}
		return t.unk(s)
	}
	return t.unk(s)
}

func c10Program(o *out, dir, recv, name, coqName string, vars map[string]map[string]bool) {
	p, fd := findFunc(dir, recv, name)
	if fd == nil || fd.Body == nil || fd.Recv == nil || len(fd.Recv.List) != 1 || len(fd.Recv.List[0].Names) != 1 {
		o.brokenDef(coqName, "function "+dir+":"+recv+"."+name+" not found")
		return
	}
	t := &c10Tr{p: p, dir: dir, recv: fd.Recv.List[0].Names[0].Name, syms: map[string]*c10Sym{}, vars: vars}
	for _, f := range fd.Type.Params.List {
		ty := strings.Join(strings.Fields(printNode(p.fset, f.Type)), "")
		for _, n := range f.Names {
			switch ty {
			case "*x509.CertPool":
				t.pRoots = n.Name
			case "[]*x509.Certificate":
				t.pExtra = n.Name
			case "x509.ExtKeyUsage":
				t.pUsage = n.Name
			case "time.Time":
				t.pTime = n.Name
			}
		}
	}
	body := t.block(fd.Body.List)
	o.f("Definition %s : stmt :=\n  %s.\n(* from %s:%s.%s (receiver %s; parameters roots=%s extra=%s usage=%s time=%s)", coqName, body, dir, recv, name,
		t.recv, t.pRoots, t.pExtra, t.pUsage, t.pTime)
	if len(t.unknown) > 0 {
		o.f("; NOT UNDERSTOOD: %s", strings.ReplaceAll(strings.Join(t.unknown, " | "), "*)", "* )"))
	}
	o.f(" *)\n")
}

// ======================================================================================================================
// C10 round 3: TIME.
//
//   tsclient.New       which duration fields of http.Client / http.Transport / net.Dialer are set, and to what
//                      (translated as functions of conf.Timeout, in nanoseconds; an unset field is 0 = no limit)
//   tsClient.do        which client performs the exchange, which context the request carries, a per-attempt deadline
//                      derived with context.WithTimeout (none today), the two error checks after Do and ReadAll
//   tsClient.Timestamp every statement that leaves the failover loop, with its guard; what the loop ranges over
//   ratelimit.limiter  the order Wait -> Timestamp and the error check between them

type c10Lit struct {
	typ    string
	keys   []string
	vals   map[string]ast.Expr
	node   *ast.CompositeLit
	posOrd int
}

func c10CompositeLits(p *pkgInfo, fd *ast.FuncDecl, types ...string) []*c10Lit {
	var out []*c10Lit
	ast.Inspect(fd.Body, func(n ast.Node) bool {
		cl, ok := n.(*ast.CompositeLit)
		if !ok || cl.Type == nil {
			return true
		}
		ty := printNode(p.fset, cl.Type)
		for _, want := range types {
			if ty == want {
				l := &c10Lit{typ: ty, vals: map[string]ast.Expr{}, node: cl, posOrd: len(out)}
				for _, el := range cl.Elts {
					if kv, ok := el.(*ast.KeyValueExpr); ok {
						k := printNode(p.fset, kv.Key)
						l.keys = append(l.keys, k)
						l.vals[k] = kv.Value
					} else {
						l.keys = append(l.keys, "<positional>")
					}
				}
				sort.Strings(l.keys)
				out = append(out, l)
			}
		}
		return true
	})
	return out
}

func c10Norm(p *pkgInfo, n ast.Node) string {
	return strings.Join(strings.Fields(printNode(p.fset, n)), " ")
}

func c10Timing(o *out) {
	const tc = "lib/pkcs9/tsclient"
	o.f("\n(* ---- time handling of the timestamp client (C10 round 3) *)\n")
	o.f("Definition dur (x : Z) : Z := x. (* time.Duration(x): a count of nanoseconds *)\n")
	p, fd := findFunc(tc, "", "New")
	names := []string{"client_timeout_ns", "header_timeout_ns", "tls_timeout_ns", "dial_timeout_ns"}
	if fd == nil || fd.Body == nil {
		for _, n := range names {
			o.brokenDef(n, "function "+tc+":.New not found")
		}
		return
	}
	confName := "conf"
	if fd.Type.Params != nil && len(fd.Type.Params.List) > 0 && len(fd.Type.Params.List[0].Names) > 0 {
		confName = fd.Type.Params.List[0].Names[0].Name
	}
	leaves := map[string]string{confName + ".Timeout": "conf_timeout"}
	calls := map[string]string{"time.Duration": "dur"}
	// local names bound once to a duration expression of conf.Timeout (e.g. `timeout := time.Second * time.Duration(conf.Timeout)`)
	locals := map[string]string{}
	bound := map[string]ast.Expr{} // every `name := expr` / `var name = expr`, for resolving literals passed by name
	nAssign := map[string]int{}
	ast.Inspect(fd.Body, func(n ast.Node) bool {
		as, ok := n.(*ast.AssignStmt)
		if !ok {
			return true
		}
		for i, l := range as.Lhs {
			if id, ok := l.(*ast.Ident); ok {
				nAssign[id.Name]++
				if len(as.Rhs) == len(as.Lhs) {
					bound[id.Name] = as.Rhs[i]
				}
			}
		}
		return true
	})
	durExpr := func(e ast.Expr) (string, error) {
		t := &tr{fset: p.fset, dir: tc, leaves: leaves, types: map[string]string{}, calls: calls, locals: locals}
		c := t.expr(e)
		return c, t.err
	}
	// guards: the chain of enclosing if statements of every statement of New
	type guarded struct {
		as     *ast.AssignStmt
		guards []ast.Expr
		inElse bool
		other  bool // inside a loop / switch / closure: not understood
	}
	var assigns []guarded
	var visit func(list []ast.Stmt, guards []ast.Expr, inElse, other bool)
	visit = func(list []ast.Stmt, guards []ast.Expr, inElse, other bool) {
		for _, st := range list {
			switch x := st.(type) {
			case *ast.AssignStmt:
				assigns = append(assigns, guarded{x, guards, inElse, other})
			case *ast.IfStmt:
				if x.Init != nil {
					if as, ok := x.Init.(*ast.AssignStmt); ok {
						assigns = append(assigns, guarded{as, guards, inElse, other})
					}
				}
				visit(x.Body.List, append(append([]ast.Expr{}, guards...), x.Cond), inElse, other)
				switch e := x.Else.(type) {
				case *ast.BlockStmt:
					visit(e.List, append(append([]ast.Expr{}, guards...), x.Cond), true, other)
				case *ast.IfStmt:
					visit([]ast.Stmt{e}, append(append([]ast.Expr{}, guards...), x.Cond), true, other)
				}
			case *ast.BlockStmt:
				visit(x.List, guards, inElse, other)
			case *ast.ForStmt:
				visit(x.Body.List, guards, inElse, true)
			case *ast.RangeStmt:
				visit(x.Body.List, guards, inElse, true)
			case *ast.SwitchStmt:
				for _, cc := range x.Body.List {
					visit(cc.(*ast.CaseClause).Body, guards, inElse, true)
				}
			}
		}
	}
	visit(fd.Body.List, nil, false, false)
	// local duration variables, followed through the function in source order: `d := E` at the top level, later `d = E'`
	// either at the top level or under ONE if without else (`if d <= 0 { d = defaultTimeout }` becomes a conditional).
	// The value a name has when the client is built is what counts; a name written in any other way is dropped, so that a
	// use of it is reported as not understood.
	localSrc := map[string]string{}
	var lateLocalWrites []ast.Node
	for _, ga := range assigns {
		as := ga.as
		if len(as.Lhs) != 1 || len(as.Rhs) != 1 {
			for _, l := range as.Lhs {
				if id, ok := l.(*ast.Ident); ok {
					delete(locals, id.Name)
				}
			}
			continue
		}
		id, ok := as.Lhs[0].(*ast.Ident)
		if !ok {
			continue
		}
		if as.Tok == token.DEFINE {
			delete(locals, id.Name)
			if len(ga.guards) == 0 && !ga.other && strings.Contains(printNode(p.fset, as.Rhs[0]), "time.") {
				if c, err := durExpr(as.Rhs[0]); err == nil {
					locals[id.Name] = c
					localSrc[id.Name] = c10Norm(p, as)
				}
			}
			continue
		}
		old, known := locals[id.Name]
		if !known {
			continue
		}
		lateLocalWrites = append(lateLocalWrites, as)
		if ga.other || ga.inElse || len(ga.guards) > 1 || as.Tok != token.ASSIGN {
			delete(locals, id.Name)
			continue
		}
		c, err := durExpr(as.Rhs[0])
		if err != nil {
			delete(locals, id.Name)
			continue
		}
		if len(ga.guards) == 1 {
			gt := &tr{fset: p.fset, dir: tc, leaves: leaves, types: map[string]string{}, calls: calls, locals: locals}
			gc := gt.expr(ga.guards[0])
			if gt.err != nil {
				delete(locals, id.Name)
				continue
			}
			locals[id.Name] = "(if " + gc + " then " + c + " else " + old + ")"
			localSrc[id.Name] += "; if " + c10Norm(p, ga.guards[0]) + " { " + c10Norm(p, as) + " }"
		} else {
			locals[id.Name] = c
			localSrc[id.Name] += "; " + c10Norm(p, as)
		}
	}
	// resolve `&T{...}`, `T{...}`, `(&T{...})`, or a name bound once to one of those
	var litOf func(e ast.Expr, typ string, depth int) *ast.CompositeLit
	litOf = func(e ast.Expr, typ string, depth int) *ast.CompositeLit {
		if depth > 4 || e == nil {
			return nil
		}
		switch x := e.(type) {
		case *ast.ParenExpr:
			return litOf(x.X, typ, depth+1)
		case *ast.UnaryExpr:
			if x.Op == token.AND {
				return litOf(x.X, typ, depth+1)
			}
		case *ast.CompositeLit:
			if x.Type != nil && printNode(p.fset, x.Type) == typ {
				return x
			}
		case *ast.Ident:
			if nAssign[x.Name] == 1 {
				return litOf(bound[x.Name], typ, depth+1)
			}
		}
		return nil
	}
	keysOf := func(cl *ast.CompositeLit) ([]string, map[string]ast.Expr) {
		vals := map[string]ast.Expr{}
		var keys []string
		if cl == nil {
			return nil, vals
		}
		for _, el := range cl.Elts {
			if kv, ok := el.(*ast.KeyValueExpr); ok {
				k := printNode(p.fset, kv.Key)
				keys = append(keys, k)
				vals[k] = kv.Value
			} else {
				keys = append(keys, "<positional>")
			}
		}
		sort.Strings(keys)
		return keys, vals
	}

	// ---- which *http.Client ends up inside the tsClient value
	clientVar := ""
	for _, l := range c10CompositeLits(p, fd, "tsClient") {
		var e ast.Expr
		if v, ok := l.vals["client"]; ok {
			e = v
		} else if len(l.node.Elts) == 2 {
			e = l.node.Elts[1]
		}
		if id, ok := e.(*ast.Ident); ok {
			clientVar = id.Name
		}
	}
	var clientLit *ast.CompositeLit
	if clientVar != "" {
		clientLit = litOf(bound[clientVar], "http.Client", 0)
	}
	if clientLit == nil || nAssign[clientVar] != 1 {
		for _, n := range names {
			o.brokenDef(n, "cannot identify the http.Client literal that tsclient.New stores in tsClient.client")
		}
		return
	}
	ckeys, cvals := keysOf(clientLit)
	for _, w := range lateLocalWrites {
		if w.Pos() > clientLit.Pos() {
			if id, ok := w.(*ast.AssignStmt).Lhs[0].(*ast.Ident); ok {
				delete(locals, id.Name) // changed after the client was built: its value at the literal is not the final one we computed
			}
		}
	}
	// later writes to fields of the client: an assignment to Timeout is taken over (under its guard, when it sits in an if
	// without else); Transport may only be wrapped (RoundTripper decorators)
	fieldWrites := []string{}
	clientTimeoutCoq := "" // Coq term for the final value of client.Timeout
	if cvals["Timeout"] != nil {
		c, err := durExpr(cvals["Timeout"])
		if err != nil {
			clientTimeoutCoq = ""
		} else {
			clientTimeoutCoq = c
		}
	} else {
		clientTimeoutCoq = "0"
	}
	clientTimeoutSrc := "not set"
	if cvals["Timeout"] != nil {
		clientTimeoutSrc = c10Norm(p, cvals["Timeout"])
		if id, ok := cvals["Timeout"].(*ast.Ident); ok && localSrc[id.Name] != "" {
			clientTimeoutSrc += " where " + localSrc[id.Name]
		}
	}
	bad := ""
	if clientTimeoutCoq == "" {
		bad = "http.Client.Timeout = " + clientTimeoutSrc + " is not understood"
	}
	for _, ga := range assigns {
		as := ga.as
		for i, l := range as.Lhs {
			sel, ok := l.(*ast.SelectorExpr)
			if !ok {
				continue
			}
			base := printNode(p.fset, sel.X)
			if base != clientVar {
				if strings.Contains(sel.Sel.Name, "Timeout") || strings.Contains(sel.Sel.Name, "Deadline") {
					bad = "assignment to " + c10Norm(p, l) + " is not understood"
				}
				continue
			}
			fieldWrites = append(fieldWrites, c10Norm(p, as))
			switch sel.Sel.Name {
			case "Timeout":
				if len(as.Rhs) != len(as.Lhs) || ga.other || ga.inElse || len(ga.guards) > 1 {
					bad = "assignment to " + clientVar + ".Timeout in a position that is not understood: " + c10Norm(p, as)
					continue
				}
				c, err := durExpr(as.Rhs[i])
				if err != nil {
					bad = clientVar + ".Timeout = " + c10Norm(p, as.Rhs[i]) + ": " + err.Error()
					continue
				}
				if len(ga.guards) == 1 {
					gt := &tr{fset: p.fset, dir: tc, leaves: leaves, types: map[string]string{}, calls: calls, locals: locals}
					gc := gt.expr(ga.guards[0])
					if gt.err != nil {
						bad = "guard of the assignment to " + clientVar + ".Timeout: " + gt.err.Error()
						continue
					}
					clientTimeoutCoq = "(if " + gc + " then " + c + " else " + clientTimeoutCoq + ")"
					clientTimeoutSrc += "; if " + c10Norm(p, ga.guards[0]) + " { " + c10Norm(p, as) + " }"
				} else {
					clientTimeoutCoq = c
					clientTimeoutSrc += "; " + c10Norm(p, as)
				}
			case "Transport":
				ok := false
				if len(as.Rhs) == len(as.Lhs) && !ga.other {
					if ce, isCall := as.Rhs[i].(*ast.CallExpr); isCall && strings.HasPrefix(printNode(p.fset, ce.Fun), "promhttp.InstrumentRoundTripper") &&
						len(ce.Args) >= 1 && printNode(p.fset, ce.Args[len(ce.Args)-1]) == clientVar+".Transport" {
						ok = true // a decorator around the transport built above: timeouts unchanged
					}
				}
				if !ok {
					bad = "the transport is replaced after construction: " + c10Norm(p, as)
				}
			default:
				bad = "write to " + clientVar + "." + sel.Sel.Name + " after construction"
			}
		}
	}
	// anything else that mentions the client's Timeout (passed by address, set through a helper) is not understood
	ast.Inspect(fd.Body, func(n ast.Node) bool {
		if ue, ok := n.(*ast.UnaryExpr); ok && ue.Op == token.AND {
			if c10Norm(p, ue.X) == clientVar+".Timeout" {
				bad = "address of " + clientVar + ".Timeout taken"
			}
		}
		return true
	})
	emit := func(name string, e ast.Expr, what string) {
		if bad != "" {
			o.brokenDef(name, bad)
			return
		}
		if e == nil {
			o.f("Definition %s (conf_timeout : Z) : Z := 0. (* %s is not set: no limit *)\n", name, what)
			return
		}
		c, err := durExpr(e)
		if err != nil {
			o.brokenDef(name, what+" = "+c10Norm(p, e)+": "+err.Error())
			return
		}
		o.f("Definition %s (conf_timeout : Z) : Z :=\n  %s.\n(* %s = %s *)\n", name, c, what, c10Norm(p, e))
	}
	if bad != "" {
		o.brokenDef("client_timeout_ns", bad)
	} else {
		o.f("Definition client_timeout_ns (conf_timeout : Z) : Z :=\n  %s.\n(* http.Client.Timeout: %s *)\n", clientTimeoutCoq, clientTimeoutSrc)
	}
	// ---- the transport literal
	trLit := litOf(cvals["Transport"], "http.Transport", 0)
	var tkeys []string
	tvals := map[string]ast.Expr{}
	if trLit == nil {
		bad2 := "http.Client.Transport is not an http.Transport literal built in New (the default transport has its own timeouts)"
		for _, n := range names[1:] {
			o.brokenDef(n, bad2)
		}
	} else {
		tkeys, tvals = keysOf(trLit)
		emit("header_timeout_ns", tvals["ResponseHeaderTimeout"], "http.Transport.ResponseHeaderTimeout")
		emit("tls_timeout_ns", tvals["TLSHandshakeTimeout"], "http.Transport.TLSHandshakeTimeout")
		// dialer reached through DialContext / Dial / DialTLSContext
		var dkeys []string
		var dialTimeout ast.Expr
		dialBad := ""
		for _, k := range []string{"DialContext", "Dial", "DialTLSContext", "DialTLS"} {
			v, ok := tvals[k]
			if !ok {
				continue
			}
			sel, isSel := v.(*ast.SelectorExpr)
			var dl *ast.CompositeLit
			if isSel {
				dl = litOf(sel.X, "net.Dialer", 0)
			}
			if dl == nil {
				dialBad = "http.Transport." + k + " = " + c10Norm(p, v) + " is not a method of a net.Dialer literal built in New"
				continue
			}
			var dv map[string]ast.Expr
			dkeys, dv = keysOf(dl)
			dialTimeout = dv["Timeout"]
			if _, has := dv["Deadline"]; has {
				dialBad = "net.Dialer.Deadline is not modelled"
			}
		}
		if dialBad != "" {
			o.brokenDef("dial_timeout_ns", dialBad)
		} else {
			emit("dial_timeout_ns", dialTimeout, "net.Dialer.Timeout (through http.Transport.DialContext)")
		}
		o.f("Definition dialer_fields : list string := %s.\n", c10StrList(dkeys))
	}
	o.f("Definition client_fields : list string := %s. (* fields of the http.Client literal in tsclient.New *)\n", c10StrList(ckeys))
	o.f("Definition transport_fields : list string := %s. (* fields of its http.Transport literal *)\n", c10StrList(tkeys))
	o.f("Definition client_field_writes : list string := %s. (* later assignments to fields of that client *)\n", c10StrList(fieldWrites))

	// ---- tsClient.do
	pd, dd := findFunc(tc, "tsClient", "do")
	if dd == nil || dd.Body == nil {
		o.brokenDef("do_uses_configured_client", "function "+tc+":tsClient.do not found")
	} else {
		recv := "c"
		if dd.Recv != nil && len(dd.Recv.List) == 1 && len(dd.Recv.List[0].Names) == 1 {
			recv = dd.Recv.List[0].Names[0].Name
		}
		ctxParam := ""
		for _, f := range dd.Type.Params.List {
			if strings.Join(strings.Fields(printNode(pd.fset, f.Type)), "") == "context.Context" && len(f.Names) > 0 {
				ctxParam = f.Names[0].Name
			}
		}
		var httpCalls, ctxDerive []string
		doArg := ""
		var deriveExpr ast.Expr
		deriveVar := ""
		ast.Inspect(dd.Body, func(n ast.Node) bool {
			switch x := n.(type) {
			case *ast.CallExpr:
				fn := c10Norm(pd, x.Fun)
				switch {
				case fn == recv+".client.Do" && len(x.Args) == 1:
					httpCalls = append(httpCalls, fn)
					doArg = c10Norm(pd, x.Args[0])
				case strings.HasPrefix(fn, "http.") && (strings.HasSuffix(fn, ".Do") || fn == "http.Post" || fn == "http.Get" || fn == "http.PostForm" || fn == "http.Head"),
					strings.HasSuffix(fn, ".Do") && fn != recv+".client.Do", strings.HasSuffix(fn, ".RoundTrip"):
					httpCalls = append(httpCalls, fn)
				case fn == "context.WithTimeout" || fn == "context.WithDeadline" || fn == "context.WithCancel" || fn == "context.WithoutCancel" ||
					fn == "context.Background" || fn == "context.TODO" || fn == "context.WithTimeoutCause" || fn == "context.WithDeadlineCause":
					ctxDerive = append(ctxDerive, c10Norm(pd, x))
				}
			case *ast.AssignStmt:
				if len(x.Rhs) == 1 && len(x.Lhs) == 2 {
					if ce, ok := x.Rhs[0].(*ast.CallExpr); ok && c10Norm(pd, ce.Fun) == "context.WithTimeout" && len(ce.Args) == 2 &&
						c10Norm(pd, ce.Args[0]) == ctxParam {
						if id, ok := x.Lhs[0].(*ast.Ident); ok {
							deriveVar, deriveExpr = id.Name, ce.Args[1]
						}
					}
				}
			}
			return true
		})
		o.f("Definition do_uses_configured_client : bool := %v. (* HTTP calls in tsClient.do: %s *)\n",
			len(httpCalls) == 1 && httpCalls[0] == recv+".client.Do", strings.Join(httpCalls, ", "))
		// the context carried by the request
		switch {
		case len(ctxDerive) == 0 && ctxParam != "" && strings.HasSuffix(doArg, ".WithContext("+ctxParam+")"):
			o.f("Definition do_request_ctx : Z := 0. (* the request carries the caller's context: %s *)\n", doArg)
			o.f("Definition attempt_ctx_timeout_ns (conf_timeout : Z) : Z := 0. (* tsClient.do derives no per-attempt deadline *)\n")
		case len(ctxDerive) == 1 && deriveExpr != nil && strings.HasSuffix(doArg, ".WithContext("+deriveVar+")"):
			// `ctx2, cancel := context.WithTimeout(ctx, d)` ... `Do(req.WithContext(ctx2))`: a per-attempt deadline under the caller's context
			t := &tr{fset: pd.fset, dir: tc, leaves: map[string]string{recv + ".conf.Timeout": "conf_timeout"}, types: map[string]string{}, calls: calls, locals: map[string]string{}}
			c := t.expr(deriveExpr)
			if t.err != nil {
				o.brokenDef("attempt_ctx_timeout_ns", "context.WithTimeout duration "+c10Norm(pd, deriveExpr)+": "+t.err.Error())
			} else {
				o.f("Definition do_request_ctx : Z := 0. (* the request carries a context derived from the caller's: %s *)\n", doArg)
				o.f("Definition attempt_ctx_timeout_ns (conf_timeout : Z) : Z :=\n  %s.\n(* %s *)\n", c, ctxDerive[0])
			}
		default:
			o.brokenDef("do_request_ctx", fmt.Sprintf("context handling of tsClient.do not understood: Do(%s), derivations %v", doArg, ctxDerive))
		}
		dl := map[string]string{"err != nil": "failed", "err == nil": "(negb failed)"}
		o.condOf(funcSpec{dir: tc, recv: "tsClient", name: "do", coqName: "do_transport_failed", params: "(failed : bool)", retType: "bool", leaves: dl}, "if:err", 1)
		o.condOf(funcSpec{dir: tc, recv: "tsClient", name: "do", coqName: "do_read_failed", params: "(failed : bool)", retType: "bool", leaves: dl}, "if:err", 2)
		// every if statement of do, in order (so that a new early return is seen)
		var conds []string
		ast.Inspect(dd.Body, func(n ast.Node) bool {
			if is, ok := n.(*ast.IfStmt); ok {
				conds = append(conds, c10Norm(pd, is.Cond))
			}
			return true
		})
		o.f("Definition do_conditions : list string := %s.\n", c10StrList(conds))
	}

	// ---- tsClient.Timestamp: the failover loop
	pt, td := findFunc(tc, "tsClient", "Timestamp")
	if td == nil || td.Body == nil {
		o.brokenDef("ts_loop_exits", "function "+tc+":tsClient.Timestamp not found")
		return
	}
	var loops []*ast.RangeStmt
	nFor := 0
	derives := []string{}
	ast.Inspect(td.Body, func(n ast.Node) bool {
		switch x := n.(type) {
		case *ast.RangeStmt:
			loops = append(loops, x)
		case *ast.ForStmt:
			nFor++
		case *ast.CallExpr:
			if fn := c10Norm(pt, x.Fun); strings.HasPrefix(fn, "context.") {
				derives = append(derives, c10Norm(pt, x))
			}
		case *ast.GoStmt:
			derives = append(derives, "go statement")
		}
		return true
	})
	if len(loops) != 1 || nFor != 0 {
		o.brokenDef("ts_loop_exits", fmt.Sprintf("expected exactly one range loop in tsClient.Timestamp, found %d range / %d for", len(loops), nFor))
		return
	}
	loop := loops[0]
	var exits, attempts []string
	var walk func(list []ast.Stmt, guard []string)
	walkStmt := func(s ast.Stmt, guard []string) {}
	g := func(guard []string) string {
		if len(guard) == 0 {
			return "always"
		}
		return strings.Join(guard, " && ")
	}
	walkStmt = func(s ast.Stmt, guard []string) {
		switch x := s.(type) {
		case *ast.ReturnStmt:
			exits = append(exits, g(guard)+" => "+c10Norm(pt, x))
		case *ast.BranchStmt:
			exits = append(exits, g(guard)+" => "+c10Norm(pt, x))
		case *ast.IfStmt:
			c := c10Norm(pt, x.Cond)
			if x.Init != nil {
				walkStmt(x.Init, guard)
				c = c10Norm(pt, x.Init) + "; " + c
			}
			walk(x.Body.List, append(append([]string{}, guard...), c))
			switch e := x.Else.(type) {
			case *ast.BlockStmt:
				walk(e.List, append(append([]string{}, guard...), "!("+c+")"))
			case *ast.IfStmt:
				walkStmt(e, append(append([]string{}, guard...), "!("+c+")"))
			}
		case *ast.BlockStmt:
			walk(x.List, guard)
		case *ast.ForStmt, *ast.RangeStmt, *ast.SwitchStmt, *ast.TypeSwitchStmt, *ast.SelectStmt, *ast.GoStmt, *ast.DeferStmt, *ast.LabeledStmt:
			exits = append(exits, g(guard)+" => NOT UNDERSTOOD: "+trunc200(c10Norm(pt, x)))
		case *ast.ExprStmt:
			if ce, ok := x.X.(*ast.CallExpr); ok && c10Norm(pt, ce.Fun) == "panic" {
				exits = append(exits, g(guard)+" => "+c10Norm(pt, x))
			}
		case *ast.AssignStmt:
			for _, r := range x.Rhs {
				if ce, ok := r.(*ast.CallExpr); ok && strings.HasSuffix(c10Norm(pt, ce.Fun), ".do") {
					attempts = append(attempts, g(guard)+" => "+c10Norm(pt, x))
				}
			}
		}
	}
	walk = func(list []ast.Stmt, guard []string) {
		for _, s := range list {
			walkStmt(s, guard)
		}
	}
	walk(loop.Body.List, nil)
	key, val := "", ""
	if loop.Key != nil {
		key = c10Norm(pt, loop.Key)
	}
	if loop.Value != nil {
		val = c10Norm(pt, loop.Value)
	}
	o.f("Definition ts_loop_header : string := %s. (* what the failover loop ranges over *)\n", c10Str(key+", "+val+" := range "+c10Norm(pt, loop.X)))
	o.f("Definition ts_loop_attempts : list string := %s. (* calls of tsClient.do inside the loop, with their guards *)\n", c10StrList(attempts))
	o.f("Definition ts_loop_exits : list string := %s. (* every statement that leaves the loop body early, with its guard *)\n", c10StrList(exits))
	o.f("Definition ts_context_derivations : list string := %s. (* context.* calls and go statements in tsClient.Timestamp *)\n", c10StrList(derives))

	// ---- rate limiter in front of the client
	const rl = "lib/pkcs9/ratelimit"
	o.callOrder(rl, "limiter", "Timestamp", "limiter_order", []string{"Wait", "Timestamp"})
	o.condOf(funcSpec{dir: rl, recv: "limiter", name: "Timestamp", coqName: "limiter_wait_failed", params: "(failed : bool)", retType: "bool",
		leaves: map[string]string{"err != nil": "failed", "err == nil": "(negb failed)"}}, "if:err")
	o.hasStmt(rl, "limiter", "Timestamp", `return l.Timestamper.Timestamp(ctx, req)`, "limiter_passes_ctx_and_request")
}

func trunc200(s string) string {
	if len(s) > 200 {
		return s[:200]
	}
	return s
}
