package main

// C17 — lib/zipslicer: constants, wire-struct layouts, every loop-free decision of FindDirectory /
// ReadWithDirectory / readLocalHeader / readDataDesc / GetTotalSize / GetDirectoryHeader / WriteDirectory /
// NewFile / AddFile / GetOriginalDirectory, the struct literals the writer serialises (in struct field order),
// the order of sequential binary.Read calls, and fingerprints of the hand-modelled loops.
// Whole-body translations by state passing (c17Block): Directory.AddFile (af_step), File.GetDirectoryHeader (gdh_step, with its
// assignment to f.Extra) and the loop body of WriteDirectory (wd_loop_step); CheckContiguous / Mangle / Mangler.NewFile /
// MakePatch conditions, call order and call arguments; the fields of the File that NewFile registers.

import (
	"fmt"
	"go/ast"
	"go/token"
	"strconv"
	"strings"
)

// c17StructFields returns the field names of a struct type in declaration order.
func c17StructFields(dir, name string) []string {
	_, st := findStruct(dir, name)
	if st == nil {
		return nil
	}
	var names []string
	for _, fl := range st.Fields.List {
		for _, n := range fl.Names {
			names = append(names, n.Name)
		}
	}
	return names
}

// c17StructLit: the nth composite literal of type `typ` inside the function, as a Coq list of field values in
// the DECLARATION order of the struct (missing keys are 0, as in Go). Reordering the struct, changing a value
// expression or dropping a key changes the generated list.
func (o *out) c17StructLit(fs funcSpec, typ string, nth int) {
	p, fd := findFunc(fs.dir, fs.recv, fs.name)
	if fd == nil {
		o.brokenDef(fs.coqName, "function "+fs.dir+":"+fs.recv+"."+fs.name+" not found")
		return
	}
	fields := c17StructFields(fs.dir, typ)
	if fields == nil {
		o.brokenDef(fs.coqName, "struct "+typ+" not found")
		return
	}
	var lit *ast.CompositeLit
	k := 0
	ast.Inspect(fd.Body, func(n ast.Node) bool {
		if lit != nil {
			return false
		}
		if cl, ok := n.(*ast.CompositeLit); ok {
			if id, ok := cl.Type.(*ast.Ident); ok && id.Name == typ {
				if k == nth {
					lit = cl
					return false
				}
				k++
			}
		}
		return true
	})
	if lit == nil {
		o.brokenDef(fs.coqName, fmt.Sprintf("no composite literal #%d of %s in %s", nth, typ, fs.name))
		return
	}
	t := o.newTr(p, fs)
	vals := map[string]string{}
	for _, el := range lit.Elts {
		kv, ok := el.(*ast.KeyValueExpr)
		if !ok {
			o.brokenDef(fs.coqName, "positional composite literal")
			return
		}
		key := printNode(p.fset, kv.Key)
		vals[key] = t.expr(kv.Value)
	}
	if t.err != nil {
		o.brokenDef(fs.coqName, t.err.Error())
		return
	}
	var items []string
	for _, f := range fields {
		if v, ok := vals[f]; ok {
			items = append(items, v)
			delete(vals, f)
		} else {
			items = append(items, "0")
		}
	}
	if len(vals) != 0 {
		o.brokenDef(fs.coqName, "literal has keys that are not struct fields")
		return
	}
	o.f("Definition %s %s : list Z :=\n  [%s].\n(* from %s:%s.%s : %s{...} #%d, fields %s *)\n", fs.coqName, fs.params,
		strings.Join(items, "; "), fs.dir, fs.recv, fs.name, typ, nth, strings.Join(fields, ","))
}

// c17LitKey: value expression of one key of the nth composite literal of type typ (for non-wire structs such as File).
func (o *out) c17LitKey(fs funcSpec, typ string, nth int, key string) {
	p, fd := findFunc(fs.dir, fs.recv, fs.name)
	if fd == nil {
		o.brokenDef(fs.coqName, "function not found")
		return
	}
	var found ast.Expr
	k := 0
	ast.Inspect(fd.Body, func(n ast.Node) bool {
		if found != nil {
			return false
		}
		if cl, ok := n.(*ast.CompositeLit); ok {
			if id, ok := cl.Type.(*ast.Ident); ok && id.Name == typ {
				if k == nth {
					for _, el := range cl.Elts {
						if kv, ok := el.(*ast.KeyValueExpr); ok && printNode(p.fset, kv.Key) == key {
							found = kv.Value
						}
					}
					return false
				}
				k++
			}
		}
		return true
	})
	if found == nil {
		o.brokenDef(fs.coqName, fmt.Sprintf("no key %s in literal #%d of %s in %s", key, nth, typ, fs.name))
		return
	}
	t := o.newTr(p, fs)
	c := t.expr(found)
	if t.err != nil {
		o.brokenDef(fs.coqName, t.err.Error())
		return
	}
	o.f("Definition %s %s : %s :=\n  %s.\n(* from %s:%s.%s : %s{%s: %s} *)\n", fs.coqName, fs.params, fs.retType, c, fs.dir, fs.recv, fs.name, typ, key,
		strings.ReplaceAll(printNode(p.fset, found), "*)", "* )"))
}

// c17ReturnExpr: first result of the nth return statement that has `results` results.
func (o *out) c17ReturnExpr(fs funcSpec, results, nth int) {
	p, fd := findFunc(fs.dir, fs.recv, fs.name)
	if fd == nil {
		o.brokenDef(fs.coqName, "function not found")
		return
	}
	var found ast.Expr
	k := 0
	ast.Inspect(fd.Body, func(n ast.Node) bool {
		if found != nil {
			return false
		}
		if rs, ok := n.(*ast.ReturnStmt); ok && len(rs.Results) == results {
			if id, ok := rs.Results[0].(*ast.Ident); ok && (id.Name == "nil" || id.Name == "err") {
				return true
			}
			if bl, ok := rs.Results[0].(*ast.BasicLit); ok && bl.Value == "0" {
				return true
			}
			if k == nth {
				found = rs.Results[0]
				return false
			}
			k++
		}
		return true
	})
	if found == nil {
		o.brokenDef(fs.coqName, fmt.Sprintf("no value-returning return #%d in %s", nth, fs.name))
		return
	}
	t := o.newTr(p, fs)
	c := t.expr(found)
	if t.err != nil {
		o.brokenDef(fs.coqName, t.err.Error())
		return
	}
	o.f("Definition %s %s : %s :=\n  %s.\n(* from %s:%s.%s : return %s *)\n", fs.coqName, fs.params, fs.retType, c, fs.dir, fs.recv, fs.name,
		strings.ReplaceAll(printNode(p.fset, found), "*)", "* )"))
}

// c17ReadOrder: the printed third argument of every binary.Read / binary.Write call of the function, in source order,
// mapped through classes (unknown -> 99).
func (o *out) c17CallArg(dir, recv, name, coqName, callee string, arg int, classes map[string]int) {
	p, fd := findFunc(dir, recv, name)
	if fd == nil {
		o.brokenDef(coqName, "function not found")
		return
	}
	var seq, names []string
	ast.Inspect(fd.Body, func(n ast.Node) bool {
		ce, ok := n.(*ast.CallExpr)
		if !ok || len(ce.Args) <= arg {
			return true
		}
		c := printNode(p.fset, ce.Fun)
		if c == callee || strings.HasSuffix(c, "."+callee) {
			a := printNode(p.fset, ce.Args[arg])
			code, ok := classes[a]
			if !ok {
				code = 99
			}
			seq = append(seq, strconv.Itoa(code))
			names = append(names, a)
		}
		return true
	})
	o.f("Definition %s : list Z := [%s]. (* %s:%s.%s : arg %d of %s calls: %s *)\n", coqName, strings.Join(seq, "; "), dir, recv, name, arg, callee,
		strings.ReplaceAll(strings.Join(names, ", "), "*)", "* )"))
}

// c17MaskOf: in the nth if-condition containing marker, find `X & LIT` and emit LIT.
func (o *out) c17MaskOf(dir, recv, name, marker, coqName string) {
	p, fd := findFunc(dir, recv, name)
	if fd == nil {
		o.brokenDef(coqName, "function not found")
		return
	}
	val := int64(-1)
	ast.Inspect(fd.Body, func(n ast.Node) bool {
		if val >= 0 {
			return false
		}
		is, ok := n.(*ast.IfStmt)
		if !ok || !strings.Contains(printNode(p.fset, is.Cond), marker) {
			return true
		}
		ast.Inspect(is.Cond, func(m ast.Node) bool {
			if be, ok := m.(*ast.BinaryExpr); ok && be.Op == token.AND {
				if bl, ok := be.Y.(*ast.BasicLit); ok {
					if v, err := strconv.ParseInt(bl.Value, 0, 64); err == nil {
						val = v
					}
				}
			}
			return true
		})
		return false
	})
	if val < 0 {
		o.brokenDef(coqName, "no `x & literal` in a condition containing "+marker)
		return
	}
	o.f("Definition %s : Z := %d. (* %s:%s.%s : mask in condition on %s *)\n", coqName, val, dir, recv, name, marker)
}

// c17SwitchCase: condition of the kth case clause of the nth tag-less switch statement of the function.
func (o *out) c17SwitchCase(fs funcSpec, nth, k int) {
	p, fd := findFunc(fs.dir, fs.recv, fs.name)
	if fd == nil {
		o.brokenDef(fs.coqName, "function not found")
		return
	}
	var found ast.Expr
	i := 0
	ast.Inspect(fd.Body, func(n ast.Node) bool {
		if found != nil {
			return false
		}
		if sw, ok := n.(*ast.SwitchStmt); ok && sw.Tag == nil {
			if i == nth {
				if k < len(sw.Body.List) {
					if cc, ok := sw.Body.List[k].(*ast.CaseClause); ok && len(cc.List) == 1 {
						found = cc.List[0]
					}
				}
				return false
			}
			i++
		}
		return true
	})
	if found == nil {
		o.brokenDef(fs.coqName, fmt.Sprintf("no case #%d in tag-less switch #%d of %s", k, nth, fs.name))
		return
	}
	t := o.newTr(p, fs)
	c := t.expr(found)
	if t.err != nil {
		o.brokenDef(fs.coqName, t.err.Error())
		return
	}
	o.f("Definition %s %s : %s :=\n  %s.\n(* from %s:%s.%s : switch case %s *)\n", fs.coqName, fs.params, fs.retType, c, fs.dir, fs.recv, fs.name,
		strings.ReplaceAll(printNode(p.fset, found), "*)", "* )"))
}

// ---------------------------------------------------------------- imperative blocks (state passing)
//
// c17Block translates a loop-free statement list WITH side effects (assignments to receiver fields, struct-typed
// locals, a bytes.Buffer) into one Gallina function by state passing: every mutable Go location is a Coq variable
// that is re-bound by `let`; an `if` whose branches assign returns the tuple of the variables it assigns.
// Any statement that is not one of the listed forms — a call to a new helper, an assignment to a location that is
// not declared as state, a changed error path — is a broken tie, so the dependent model no longer compiles.

type c17Var struct {
	goName string // printed Go l-value (state) or identifier (local)
	coq    string
	typ    string // "Z" | "bytes" | "struct:<GoType>"
}

type c17BlockSpec struct {
	funcSpec
	state    []c17Var          // mutable locations that outlive the function
	skips    []string          // exact statements (whitespace-normalised) that are expected and have no modelled effect
	structs  map[string]string // Go wire-struct type -> Coq prefix (cdh, z64x, ...)
	rangeOf  string            // when set: translate the body of `for ... := range <rangeOf>` instead of the function body
	retFirst string            // "expr": result = (first result, state...) ; otherwise the printed first result must equal retFirst
}

type c17Blk struct {
	o     *out
	p     *pkgInfo
	t     *tr
	sp    c17BlockSpec
	scope []c17Var
	seen  []int
	err   error
}

func c17Norm(s string) string { return strings.Join(strings.Fields(s), " ") }

func (b *c17Blk) fail(format string, a ...interface{}) string {
	if b.err == nil {
		b.err = fmt.Errorf(format, a...)
	}
	return "BROKEN"
}

func (b *c17Blk) lookup(goName string) *c17Var {
	for i := len(b.scope) - 1; i >= 0; i-- {
		if b.scope[i].goName == goName {
			return &b.scope[i]
		}
	}
	for i := range b.sp.state {
		if b.sp.state[i].goName == goName {
			return &b.sp.state[i]
		}
	}
	return nil
}

func (b *c17Blk) expr(e ast.Expr, want string) string {
	s := printNode(b.p.fset, e)
	if id, ok := e.(*ast.Ident); ok && id.Name == "nil" {
		if want == "bytes" {
			return "[]"
		}
		return b.fail("nil where %s is expected", want)
	}
	if cl, ok := e.(*ast.CompositeLit); ok {
		if id, ok := cl.Type.(*ast.Ident); ok {
			if _, known := b.sp.structs[id.Name]; known {
				return b.structLit(cl, id.Name)
			}
		}
		return b.fail("composite literal %s", s)
	}
	if ce, ok := e.(*ast.CallExpr); ok && printNode(b.p.fset, ce.Fun) == "bytes.NewBuffer" && len(ce.Args) == 1 {
		if strings.HasPrefix(c17Norm(printNode(b.p.fset, ce.Args[0])), "make([]byte, 0,") {
			return "[]"
		}
		return b.fail("bytes.NewBuffer over a non-empty slice: %s", s)
	}
	r := b.t.expr(e)
	if b.t.err != nil && b.err == nil {
		b.err = b.t.err
	}
	return r
}

func (b *c17Blk) structLit(cl *ast.CompositeLit, typ string) string {
	fields := c17StructFields(b.sp.dir, typ)
	if fields == nil {
		return b.fail("struct %s not found", typ)
	}
	vals := map[string]string{}
	for _, el := range cl.Elts {
		kv, ok := el.(*ast.KeyValueExpr)
		if !ok {
			return b.fail("positional composite literal of %s", typ)
		}
		vals[printNode(b.p.fset, kv.Key)] = b.expr(kv.Value, "Z")
	}
	var items []string
	for _, f := range fields {
		if v, ok := vals[f]; ok {
			items = append(items, v)
			delete(vals, f)
		} else {
			items = append(items, "0")
		}
	}
	if len(vals) != 0 {
		return b.fail("literal of %s has keys that are not struct fields", typ)
	}
	return "[" + strings.Join(items, "; ") + "]"
}

func (b *c17Blk) typeOfRHS(e ast.Expr) string {
	if cl, ok := e.(*ast.CompositeLit); ok {
		if id, ok := cl.Type.(*ast.Ident); ok {
			if _, known := b.sp.structs[id.Name]; known {
				return "struct:" + id.Name
			}
		}
	}
	if ce, ok := e.(*ast.CallExpr); ok && printNode(b.p.fset, ce.Fun) == "bytes.NewBuffer" {
		return "bytes"
	}
	if ty, ok := b.t.types[printNode(b.p.fset, e)]; ok && ty == "bytes" {
		return "bytes"
	}
	return "Z"
}

// writes: Coq names of variables visible in the enclosing scope that the statement list assigns
func (b *c17Blk) writes(list []ast.Stmt, acc map[string]bool, local map[string]bool) {
	mark := func(goName string) {
		if local[goName] {
			return
		}
		if v := b.lookup(goName); v != nil {
			acc[v.coq] = true
		}
	}
	for _, s := range list {
		switch x := s.(type) {
		case *ast.AssignStmt:
			if len(x.Lhs) != 1 {
				continue
			}
			l := printNode(b.p.fset, x.Lhs[0])
			if x.Tok == token.DEFINE {
				local[l] = true
				continue
			}
			if l == "_" && len(x.Rhs) == 1 {
				if ce, ok := x.Rhs[0].(*ast.CallExpr); ok && len(ce.Args) > 0 {
					mark(printNode(b.p.fset, ce.Args[0]))
				}
				continue
			}
			if se, ok := x.Lhs[0].(*ast.SelectorExpr); ok {
				if v := b.lookup(printNode(b.p.fset, se.X)); v != nil && strings.HasPrefix(v.typ, "struct:") {
					mark(v.goName)
					continue
				}
			}
			mark(l)
		case *ast.IncDecStmt:
			mark(printNode(b.p.fset, x.X))
		case *ast.ExprStmt:
			if ce, ok := x.X.(*ast.CallExpr); ok {
				if se, ok := ce.Fun.(*ast.SelectorExpr); ok {
					mark(printNode(b.p.fset, se.X))
				}
			}
		case *ast.IfStmt:
			inner := map[string]bool{}
			for k, v := range local {
				inner[k] = v
			}
			b.writes(x.Body.List, acc, inner)
			if eb, ok := x.Else.(*ast.BlockStmt); ok {
				inner2 := map[string]bool{}
				for k, v := range local {
					inner2[k] = v
				}
				b.writes(eb.List, acc, inner2)
			}
		}
	}
}

func (b *c17Blk) define(name, typ string) string {
	coq := "v_" + name
	b.scope = append(b.scope, c17Var{goName: name, coq: coq, typ: typ})
	b.t.locals[name] = coq
	if typ == "bytes" {
		b.t.leaves[name+".Bytes()"] = coq
		b.t.leaves[name+".Len()"] = "(zlen " + coq + ")"
	}
	return coq
}

func endsWithReturn(list []ast.Stmt) bool {
	if len(list) == 0 {
		return false
	}
	_, ok := list[len(list)-1].(*ast.ReturnStmt)
	return ok
}

// seq translates list; fin produces the term used when the list falls through.
func (b *c17Blk) seq(list []ast.Stmt, fin func() string) string {
	if b.err != nil {
		return "BROKEN"
	}
	if len(list) == 0 {
		return fin()
	}
	s, tail := list[0], list[1:]
	txt := c17Norm(printNode(b.p.fset, s))
	for i, sk := range b.sp.skips {
		if txt == sk {
			b.seen = append(b.seen, i)
			return b.seq(tail, fin)
		}
	}
	bind := func(coq, val string) string {
		return "(let " + coq + " := " + val + " in\n   " + b.seq(tail, fin) + ")"
	}
	switch x := s.(type) {
	case *ast.ReturnStmt:
		if len(x.Results) == 0 {
			return b.fail("bare return")
		}
		if last := printNode(b.p.fset, x.Results[len(x.Results)-1]); len(x.Results) > 1 && last != "nil" {
			return b.fail("error return that is not declared: %s", txt)
		}
		return b.ret(x.Results[0])
	case *ast.IncDecStmt:
		v := b.lookup(printNode(b.p.fset, x.X))
		if v == nil || v.typ != "Z" {
			return b.fail("++/-- on an undeclared location: %s", txt)
		}
		op := " + 1"
		if x.Tok == token.DEC {
			op = " - 1"
		}
		return bind(v.coq, "("+v.coq+op+")")
	case *ast.AssignStmt:
		if len(x.Lhs) != 1 || len(x.Rhs) != 1 {
			return b.fail("unsupported assignment %s", txt)
		}
		l := printNode(b.p.fset, x.Lhs[0])
		if x.Tok == token.DEFINE {
			if _, ok := x.Lhs[0].(*ast.Ident); !ok {
				return b.fail("unsupported definition %s", txt)
			}
			typ := b.typeOfRHS(x.Rhs[0])
			want := typ
			val := b.expr(x.Rhs[0], want)
			mark := len(b.scope)
			coq := b.define(l, typ)
			_ = mark
			return bind(coq, val)
		}
		if l == "_" {
			// _ = binary.Write(b, binary.LittleEndian, X)
			ce, ok := x.Rhs[0].(*ast.CallExpr)
			if ok && printNode(b.p.fset, ce.Fun) == "binary.Write" && len(ce.Args) == 3 && printNode(b.p.fset, ce.Args[1]) == "binary.LittleEndian" {
				buf := b.lookup(printNode(b.p.fset, ce.Args[0]))
				st := b.lookup(printNode(b.p.fset, ce.Args[2]))
				if buf != nil && buf.typ == "bytes" && st != nil && strings.HasPrefix(st.typ, "struct:") {
					pre := b.sp.structs[st.typ[7:]]
					return bind(buf.coq, "("+buf.coq+" ++ g_enc_struct "+pre+"_widths "+st.coq+")")
				}
			}
			return b.fail("unsupported statement %s", txt)
		}
		if se, ok := x.Lhs[0].(*ast.SelectorExpr); ok {
			if v := b.lookup(printNode(b.p.fset, se.X)); v != nil && strings.HasPrefix(v.typ, "struct:") {
				if x.Tok != token.ASSIGN {
					return b.fail("unsupported struct field update %s", txt)
				}
				pre := b.sp.structs[v.typ[7:]]
				ok := false
				for _, f := range c17StructFields(b.sp.dir, v.typ[7:]) {
					if f == se.Sel.Name {
						ok = true
					}
				}
				if !ok {
					return b.fail("no field %s in %s", se.Sel.Name, v.typ[7:])
				}
				return bind(v.coq, "(g_set_field "+pre+"_widths "+v.coq+" 0 "+pre+"_off_"+se.Sel.Name+" "+b.expr(x.Rhs[0], "Z")+")")
			}
		}
		v := b.lookup(l)
		if v == nil || strings.HasPrefix(v.typ, "struct:") {
			return b.fail("assignment to a location that is not modelled state: %s", txt)
		}
		switch x.Tok {
		case token.ASSIGN:
			return bind(v.coq, b.expr(x.Rhs[0], v.typ))
		case token.ADD_ASSIGN:
			if v.typ != "Z" {
				return b.fail("+= on %s", v.typ)
			}
			return bind(v.coq, "("+v.coq+" + "+b.expr(x.Rhs[0], "Z")+")")
		}
		return b.fail("unsupported assignment operator in %s", txt)
	case *ast.ExprStmt:
		// b.Write(x) / b.WriteString(x) on a buffer local
		if ce, ok := x.X.(*ast.CallExpr); ok && len(ce.Args) == 1 {
			if se, ok := ce.Fun.(*ast.SelectorExpr); ok && (se.Sel.Name == "Write" || se.Sel.Name == "WriteString") {
				if buf := b.lookup(printNode(b.p.fset, se.X)); buf != nil && buf.typ == "bytes" {
					return bind(buf.coq, "("+buf.coq+" ++ "+b.expr(ce.Args[0], "bytes")+")")
				}
			}
		}
		return b.fail("unsupported statement %s", txt)
	case *ast.IfStmt:
		if x.Init != nil {
			return b.fail("if with init: %s", txt)
		}
		cond := b.expr(x.Cond, "bool")
		depth := len(b.scope)
		restore := func() {
			for _, v := range b.scope[depth:] {
				delete(b.t.locals, v.goName)
			}
			b.scope = b.scope[:depth]
		}
		if x.Else == nil && endsWithReturn(x.Body.List) {
			th := b.seq(x.Body.List, func() string { return b.fail("unreachable") })
			restore()
			return "(if " + cond + " then " + th + "\n   else " + b.seq(tail, fin) + ")"
		}
		acc := map[string]bool{}
		b.writes(x.Body.List, acc, map[string]bool{})
		var elseList []ast.Stmt
		switch e := x.Else.(type) {
		case nil:
		case *ast.BlockStmt:
			elseList = e.List
			b.writes(e.List, acc, map[string]bool{})
		default:
			return b.fail("else-if chain: %s", txt)
		}
		var names []string
		for _, v := range b.sp.state {
			if acc[v.coq] {
				names = append(names, v.coq)
			}
		}
		for _, v := range b.scope {
			if acc[v.coq] {
				names = append(names, v.coq)
			}
		}
		if len(names) == 0 {
			b.seq(x.Body.List, func() string { return "tt" }) // surfaces the statement that cannot be translated
			return b.fail("if without modelled effect: %s", txt)
		}
		tuple := names[0]
		pat := names[0]
		if len(names) > 1 {
			tuple = "(" + strings.Join(names, ", ") + ")"
			pat = "'" + tuple
		}
		th := b.seq(x.Body.List, func() string { return tuple })
		restore()
		el := b.seq(elseList, func() string { return tuple })
		restore()
		return "(let " + pat + " := (if " + cond + " then " + th + " else " + el + ") in\n   " + b.seq(tail, fin) + ")"
	}
	return b.fail("unsupported statement %s", txt)
}

func (b *c17Blk) stateTuple(first string) string {
	var names []string
	if first != "" {
		names = append(names, first)
	}
	for _, v := range b.sp.state {
		names = append(names, v.coq)
	}
	if len(names) == 1 {
		return names[0]
	}
	return "(" + strings.Join(names, ", ") + ")"
}

func (b *c17Blk) ret(first ast.Expr) string {
	if b.sp.retFirst == "expr" {
		return b.stateTuple(b.expr(first, "bytes"))
	}
	if got := printNode(b.p.fset, first); got != b.sp.retFirst {
		return b.fail("returns %s, expected %s", got, b.sp.retFirst)
	}
	return b.stateTuple("")
}

func (o *out) c17Block(sp c17BlockSpec) {
	p, fd := findFunc(sp.dir, sp.recv, sp.name)
	if fd == nil {
		o.brokenDef(sp.coqName, "function "+sp.dir+":"+sp.recv+"."+sp.name+" not found")
		return
	}
	list := fd.Body.List
	if sp.rangeOf != "" {
		list = nil
		ast.Inspect(fd.Body, func(n ast.Node) bool {
			if rs, ok := n.(*ast.RangeStmt); ok && list == nil && printNode(p.fset, rs.X) == sp.rangeOf {
				list = rs.Body.List
				return false
			}
			return true
		})
		if list == nil {
			o.brokenDef(sp.coqName, "no `range "+sp.rangeOf+"` loop in "+sp.name)
			return
		}
	}
	b := &c17Blk{o: o, p: p, sp: sp}
	b.t = o.newTr(p, sp.funcSpec)
	// private copies: the translator adds leaves for buffer locals
	lv := map[string]string{}
	for k, v := range sp.leaves {
		lv[k] = v
	}
	for _, v := range sp.state {
		lv[v.goName] = v.coq
	}
	b.t.leaves = lv
	fin := func() string { return b.fail("falls off the end of %s", sp.name) }
	if sp.rangeOf != "" {
		fin = func() string { return b.stateTuple("") }
	}
	body := b.seq(list, fin)
	if b.err == nil && b.t.err != nil {
		b.err = b.t.err
	}
	if b.err != nil {
		o.brokenDef(sp.coqName, b.err.Error())
		return
	}
	var seen []string
	for _, i := range b.seen {
		seen = append(seen, strconv.Itoa(i))
	}
	o.f("Definition %s %s : %s :=\n  %s.\n(* whole body of %s:%s.%s%s, state: %s *)\n", sp.coqName, sp.params, sp.retType, body, sp.dir, sp.recv, sp.name,
		map[bool]string{true: " (loop over " + sp.rangeOf + ")", false: ""}[sp.rangeOf != ""], func() string {
			var s []string
			for _, v := range sp.state {
				s = append(s, v.goName)
			}
			return strings.Join(s, ", ")
		}())
	o.f("Definition %s_skipped : list Z := [%s]. (* statements without modelled effect met in order; index into: %s *)\n", sp.coqName,
		strings.Join(seen, "; "), strings.ReplaceAll(strings.Join(sp.skips, " | "), "*)", "* )"))
}

func init() {
	generators["C17_gen"] = func(o *out) {
		const d = "lib/zipslicer"
		o.f("From Relic Require Import Base.Enc.\n")
		o.f("Definition u32 (x : Z) : Z := x mod 4294967296.\nDefinition u16 (x : Z) : Z := x mod 65536.\n")
		// helpers of the whole-body translations (c17Block): binary.Write of a struct value, assignment to one struct field
		o.f("Definition g_enc_struct (ws vs : list Z) : bytes :=\n  concat (map (fun p => le_enc (Z.to_nat (fst p)) (snd p)) (combine ws vs)).\n")
		o.f("Fixpoint g_set_field (ws vs : list Z) (cur off v : Z) : list Z :=\n  match ws, vs with\n  | w :: ws', x :: vs' => (if cur =? off then v else x) :: g_set_field ws' vs' (cur + w) off v\n  | _, _ => vs\n  end.\n")
		for _, c := range []string{"fileHeaderSignature", "directoryHeaderSignature", "directoryEndSignature", "directory64LocSignature",
			"directory64EndSignature", "dataDescriptorSignature", "fileHeaderLen", "directoryHeaderLen", "directoryEndLen",
			"directory64LocLen", "directory64EndLen", "dataDescriptorLen", "dataDescriptor64Len", "zip64ExtraID", "zip64ExtraLen",
			"zip20", "zip45", "uint32Max", "uint16Max"} {
			o.constInt(d, c, c)
		}
		o.structLayout(d, "zipCentralDir", "cdh")
		o.structLayout(d, "zip64End", "e64")
		o.structLayout(d, "zip64Loc", "l64")
		o.structLayout(d, "zipEndRecord", "eocd")
		o.structLayout(d, "zipLocalHeader", "lfh")
		o.structLayout(d, "zip64Extra", "z64x")
		o.structLayout(d, "zipDataDesc", "dd")
		o.structLayout(d, "zipDataDesc64", "dd64")
		conv := map[string]string{"uint32": "u32", "uint16": "u16"}

		// ---------------- FindDirectory
		fdL := map[string]string{"size": "size", "end.Signature": "end_sig", "end.TotalCDCount": "total", "end.CDSize": "cdsize",
			"end.CDOffset": "cdoff", "loc64.Signature": "loc_sig", "end64.Signature": "end64_sig"}
		o.exprOfAssign(funcSpec{dir: d, name: "FindDirectory", coqName: "fd_pos", params: "(size : Z)", retType: "Z", leaves: fdL}, "pos", 0)
		o.condOf(funcSpec{dir: d, name: "FindDirectory", coqName: "fd_short", params: "(pos size : Z)", retType: "bool",
			leaves: map[string]string{"pos": "pos", "size": "size"}}, "if:pos < 0")
		o.condOf(funcSpec{dir: d, name: "FindDirectory", coqName: "fd_end_sig_bad", params: "(end_sig : Z)", retType: "bool", leaves: fdL}, "end.Signature")
		o.condOf(funcSpec{dir: d, name: "FindDirectory", coqName: "fd_is_zip64", params: "(total cdsize cdoff : Z)", retType: "bool", leaves: fdL}, "end.TotalCDCount")
		o.condOf(funcSpec{dir: d, name: "FindDirectory", coqName: "fd_loc_sig_bad", params: "(loc_sig : Z)", retType: "bool", leaves: fdL}, "loc64.Signature")
		o.condOf(funcSpec{dir: d, name: "FindDirectory", coqName: "fd_end64_sig_bad", params: "(end64_sig : Z)", retType: "bool", leaves: fdL}, "end64.Signature")
		rdClasses := map[string]int{"&loc64": 1, "&end": 2, "&end64": 3, "&d.end64": 3, "&d.loc64": 1, "&d.end": 2}
		o.c17CallArg(d, "", "FindDirectory", "fd_read_order", "binary.Read", 2, rdClasses)

		// ---------------- ReadWithDirectory
		rwL := map[string]string{"size": "size", "len(cd)": "cd_len", "binary.LittleEndian.Uint32(cd)": "sig",
			"f.UncompressedSize": "usize", "f.CompressedSize": "csize", "f.Offset": "offset",
			"hdr.FilenameLen": "nlen", "hdr.ExtraLen": "elen", "hdr.CommentLen": "clen",
			"len(extra)": "extra_len", "tag": "tag", "needed": "needed", "needUSize": "need_u", "needCSize": "need_c", "needOffset": "need_o"}
		rwT := map[string]string{"needUSize": "bool", "needCSize": "bool", "needOffset": "bool"}
		rw := func(coq, params, ret string) funcSpec {
			return funcSpec{dir: d, name: "ReadWithDirectory", coqName: coq, params: params, retType: ret, leaves: rwL, types: rwT}
		}
		o.exprOfAssign(rw("rwd_dirloc", "(size cd_len : Z)", "Z"), "dirLoc", 0)
		o.condOf(rw("rwd_not_cd_sig", "(sig : Z)", "bool"), "if:directoryHeaderSignature")
		o.condOf(rw("rwd_cd_short", "(cd_len : Z)", "bool"), "if:len(cd) < 4")
		o.condOf(rw("rwd_hdr_short", "(cd_len : Z)", "bool"), "if:len(cd) < directoryHeaderLen", 0)
		o.condOf(rw("rwd_ent_short", "(cd_len nlen elen clen : Z)", "bool"), "if:len(cd) < directoryHeaderLen", 1)
		o.condOf(funcSpec{dir: d, name: "Read", coqName: "rz_oob", params: "(loc size : Z)", retType: "bool",
			leaves: map[string]string{"loc": "loc", "size": "size"}}, "if:loc < 0")
		o.exprOfAssign(rw("rwd_need_u", "(usize : Z)", "bool"), "needUSize", 0)
		o.exprOfAssign(rw("rwd_need_c", "(csize : Z)", "bool"), "needCSize", 0)
		o.exprOfAssign(rw("rwd_need_o", "(offset : Z)", "bool"), "needOffset", 0)
		o.exprOfAssign(rw("rwd_need_c_after", "", "bool"), "needCSize", 1)
		o.exprOfAssign(rw("rwd_need_o_after", "", "bool"), "needOffset", 1)
		o.condOf(rw("rwd_extra_loop", "(extra_len : Z)", "bool"), "for:len(extra)")
		// inside the loop `size` is the record size (shadows the archive size)
		o.condOf(rw("rwd_rec_overrun", "(size extra_len : Z)", "bool"), "if:len(extra)")
		o.condOf(rw("rwd_is_zip64_tag", "(tag : Z)", "bool"), "if:tag")
		o.condOf(rw("rwd_exact_rec", "(size needed : Z)", "bool"), "if:needed")
		o.condOf(rw("rwd_seq_u", "(need_u : bool)", "bool"), "if:needUSize", 0)
		o.condOf(rw("rwd_seq_c", "(need_c : bool)", "bool"), "if:needCSize", 0)
		o.condOf(rw("rwd_seq_o", "(need_o : bool)", "bool"), "if:needOffset", 0)
		o.condOf(rw("rwd_take_u", "(need_u : bool) (size : Z)", "bool"), "if:needUSize", 1)
		o.condOf(rw("rwd_take_c", "(need_c : bool) (size : Z)", "bool"), "if:needCSize", 1)
		o.condOf(rw("rwd_take_o", "(need_o : bool) (size : Z)", "bool"), "if:needOffset", 1)
		o.condOf(rw("rwd_missing_z64", "(need_c need_o : bool)", "bool"), "if:needCSize", 2)
		o.c17CallArg(d, "", "ReadWithDirectory", "rwd_read_order", "binary.Read", 2, rdClasses)

		// ---------------- readLocalHeader / readDataDesc / GetTotalSize
		o.condOf(funcSpec{dir: d, recv: "File", name: "readLocalHeader", coqName: "lfh_sig_bad", params: "(sig : Z)", retType: "bool",
			leaves: map[string]string{"f.lfh.Signature": "sig"}}, "if:f.lfh.Signature", 1)
		ddL := map[string]string{"f.Offset": "offset", "lfhSize": "lfh_size", "f.CompressedSize": "csize", "f.UncompressedSize": "usize",
			"len(f.lfhName)": "name_len", "len(f.lfhExtra)": "extra_len", "len(f.ddb)": "dd_len",
			"desc.Signature": "d_sig", "desc.UncompressedSize": "d_usize", "desc.CompressedSize": "d_csize",
			"desc64.CompressedSize": "d64_csize", "desc64.UncompressedSize": "d64_usize", "is64": "is64", "ambiguous": "ambiguous",
			"f.lfh.ReaderVersion": "lfh_reader", "rerr == nil": "read_ok", "rerr != nil": "read_failed"}
		ddT := map[string]string{"is64": "bool", "ambiguous": "bool", "rerr == nil": "bool", "rerr != nil": "bool"}
		dd := func(coq, params, ret string) funcSpec {
			return funcSpec{dir: d, recv: "File", name: "readDataDesc", coqName: coq, params: params, retType: ret, leaves: ddL, types: ddT, calls: conv}
		}
		o.c17MaskOf(d, "File", "readDataDesc", "f.lfh.Flags", "dd_flag_mask")
		o.condOf(funcSpec{dir: d, recv: "File", name: "readDataDesc", coqName: "dd_absent", params: "(masked : Z)", retType: "bool",
			leaves: map[string]string{"f.lfh.Flags & 0x8": "masked", "f.lfh.Flags&0x8": "masked"}}, "if:f.lfh.Flags")
		o.exprOfAssign(dd("dd_lfh_size", "(name_len extra_len : Z)", "Z"), "lfhSize", 0)
		o.exprOfAssign(dd("dd_pos", "(offset lfh_size csize : Z)", "Z"), "pos", 0)
		o.condOf(dd("dd_sig_bad", "(d_sig : Z)", "bool"), "if:desc.Signature")
		o.exprOfAssign(dd("dd_is_64", "(usize csize d_usize d_csize : Z)", "bool"), "is64", 0)
		o.exprOfAssign(dd("dd_ambiguous", "(is64 : bool) (usize lfh_reader : Z)", "bool"), "ambiguous", 0)
		o.condOf(dd("dd_try_64", "(is64 ambiguous : bool)", "bool"), "if:is64")
		o.c17SwitchCase(dd("dd_64_valid", "(read_ok : bool) (usize csize d64_usize d64_csize : Z)", "bool"), 0, 0)
		o.c17SwitchCase(dd("dd_64_read_error", "(ambiguous read_failed : bool)", "bool"), 0, 1)
		o.c17SwitchCase(dd("dd_64_invalid", "(ambiguous : bool)", "bool"), 0, 2)
		o.c17ReturnExpr(funcSpec{dir: d, recv: "File", name: "GetTotalSize", coqName: "total_size_expr",
			params: "(name_len extra_len dd_len csize : Z)", retType: "Z", leaves: ddL}, 2, 0)

		// ---------------- GetDirectoryHeader
		ghL := map[string]string{"len(f.raw)": "raw_len", "f.CreatorVersion": "creator", "f.ReaderVersion": "reader", "f.Flags": "flags",
			"f.Method": "method", "f.ModifiedTime": "mtime", "f.ModifiedDate": "mdate", "f.CRC32": "crc", "f.CompressedSize": "csize",
			"f.UncompressedSize": "usize", "f.InternalAttrs": "iattrs", "f.ExternalAttrs": "eattrs", "f.Offset": "offset",
			"len(f.Name)": "name_len", "len(f.Extra)": "extra_len", "len(f.Comment)": "comment_len", "b.Len()": "new_extra_len", "len(extraField)": "new_extra_len"}
		gh := func(coq, params, ret string) funcSpec {
			return funcSpec{dir: d, recv: "File", name: "GetDirectoryHeader", coqName: coq, params: params, retType: ret, leaves: ghL, calls: conv}
		}
		o.condOf(gh("gdh_use_raw", "(raw_len : Z)", "bool"), "if:len(f.raw)")
		o.c17StructLit(gh("gdh_hdr", "(creator reader flags method mtime mdate crc csize usize iattrs eattrs offset name_len extra_len comment_len : Z)", ""), "zipCentralDir", 0)
		o.condOf(gh("gdh_promote", "(csize usize offset : Z)", "bool"), "if:f.Offset")
		o.exprOfAssign(gh("gdh_p_csize", "", "Z"), "hdr.CompressedSize", 0)
		o.exprOfAssign(gh("gdh_p_usize", "", "Z"), "hdr.UncompressedSize", 0)
		o.exprOfAssign(gh("gdh_p_offset", "", "Z"), "hdr.Offset", 0)
		o.exprOfAssign(gh("gdh_p_extralen", "(new_extra_len : Z)", "Z"), "hdr.ExtraLen", 0)
		o.exprOfAssign(gh("gdh_p_reader", "", "Z"), "hdr.ReaderVersion", 0)
		o.c17StructLit(gh("gdh_z64extra", "(csize usize offset : Z)", ""), "zip64Extra", 0)

		// ---------------- WriteDirectory
		wdL := map[string]string{"f.ReaderVersion": "reader", "minVersion": "min_version", "count": "count", "size": "size", "cdoff": "cdoff",
			"forceZip64": "force", "wcd != weod": "separate", "weod == nil": "weod_nil", "end64off": "end64off", "d.DirLoc": "dirloc"}
		wdT := map[string]string{"forceZip64": "bool", "wcd != weod": "bool", "weod == nil": "bool"}
		wd := func(coq, params, ret string) funcSpec {
			return funcSpec{dir: d, recv: "Directory", name: "WriteDirectory", coqName: coq, params: params, retType: ret, leaves: wdL, types: wdT, calls: conv}
		}
		o.exprOfAssign(wd("wd_cdoff", "(dirloc : Z)", "Z"), "cdoff", 0)
		o.exprOfAssign(wd("wd_min_version0", "", "Z"), "minVersion", 0)
		o.condOf(wd("wd_version_raise", "(reader min_version : Z)", "bool"), "if:f.ReaderVersion")
		o.condOf(wd("wd_separate", "(separate : bool)", "bool"), "if:wcd != weod")
		o.condOf(wd("wd_weod_nil", "(weod_nil : bool)", "bool"), "if:weod == nil")
		o.condOf(wd("wd_need_zip64", "(count size cdoff : Z) (force : bool)", "bool"), "if:forceZip64")
		o.exprOfAssign(wd("wd_forced_version", "", "Z"), "minVersion", 2)
		o.condOf(wd("wd_emit_zip64", "(min_version : Z)", "bool"), "if:minVersion == ")
		o.exprOfAssign(wd("wd_end64off", "(cdoff size : Z)", "Z"), "end64off", 0)
		o.c17StructLit(wd("wd_end64", "(min_version count size cdoff : Z)", ""), "zip64End", 0)
		o.c17StructLit(wd("wd_loc64", "(end64off : Z)", ""), "zip64Loc", 0)
		o.c17StructLit(wd("wd_end_sat", "", ""), "zipEndRecord", 0)
		o.c17StructLit(wd("wd_end_plain", "(count size cdoff : Z)", ""), "zipEndRecord", 1)
		o.c17CallArg(d, "Directory", "WriteDirectory", "wd_write_order", "binary.Write", 2, map[string]int{"end64": 3, "loc64": 1, "end": 2})

		// ---------------- NewFile / AddFile / Mangler.NewFile / GetOriginalDirectory
		nfL := map[string]string{"useDesc": "use_desc", "f.ReaderVersion": "reader", "f.Flags": "flags", "f.Method": "method",
			"f.ModifiedTime": "mtime", "f.ModifiedDate": "mdate", "f.CRC32": "crc", "f.CompressedSize": "csize", "f.UncompressedSize": "usize",
			"len(name)": "name_len", "len(extra)": "extra_len", "sum": "crc", "fb.Len()": "csize", "len(contents)": "usize",
			"zh.ModifiedTime": "mtime", "zh.ModifiedDate": "mdate", "method": "method"}
		nfT := map[string]string{"useDesc": "bool"}
		nf := func(coq, params, ret string) funcSpec {
			return funcSpec{dir: d, recv: "Directory", name: "NewFile", coqName: coq, params: params, retType: ret, leaves: nfL, types: nfT, calls: conv}
		}
		o.c17LitKey(nf("nf_creator", "", "Z"), "File", 0, "CreatorVersion")
		o.c17LitKey(nf("nf_reader0", "", "Z"), "File", 0, "ReaderVersion")
		o.condOf(nf("nf_desc_branch", "(use_desc : bool)", "bool"), "if:useDesc", 0)
		o.exprOfAssign(nf("nf_desc_flags", "", "Z"), "f.Flags", 0)
		o.exprOfAssign(nf("nf_desc_reader", "", "Z"), "f.ReaderVersion", 0)
		o.c17StructLit(nf("nf_lfh", "(reader flags method mtime mdate name_len extra_len : Z)", ""), "zipLocalHeader", 0)
		o.condOf(nf("nf_fill_lfh", "(use_desc : bool)", "bool"), "if:useDesc", 1)
		o.exprOfAssign(nf("nf_lfh_crc", "(crc : Z)", "Z"), "f.lfh.CRC32", 0)
		o.exprOfAssign(nf("nf_lfh_csize", "(csize : Z)", "Z"), "f.lfh.CompressedSize", 0)
		o.exprOfAssign(nf("nf_lfh_usize", "(usize : Z)", "Z"), "f.lfh.UncompressedSize", 0)
		o.condOf(nf("nf_write_desc", "(use_desc : bool)", "bool"), "if:useDesc", 2)
		o.c17StructLit(nf("nf_desc64", "(crc csize usize : Z)", ""), "zipDataDesc64", 0)
		afL := map[string]string{"f.Offset": "f_offset", "offset": "offset", "d.DirLoc": "dirloc"}
		o.exprOfAssign(funcSpec{dir: d, recv: "Directory", name: "AddFile", coqName: "af_offset", params: "(dirloc : Z)", retType: "Z", leaves: afL}, "offset", 0)
		o.condOf(funcSpec{dir: d, recv: "Directory", name: "AddFile", coqName: "af_drop_raw", params: "(f_offset offset : Z)", retType: "bool", leaves: afL}, "if:f.Offset")
		o.hasStmt(d, "Directory", "AddFile", "d.DirLoc += size", "af_advances_dirloc")
		// ---------------- whole bodies (state passing): AddFile, GetDirectoryHeader, the loop of WriteDirectory, CheckContiguous
		wire := map[string]string{"zipCentralDir": "cdh", "zip64Extra": "z64x"}
		o.c17Block(c17BlockSpec{
			funcSpec: funcSpec{dir: d, recv: "Directory", name: "AddFile", coqName: "af_step", params: "(size : Z) (s_raw : bytes) (s_offset s_dirloc : Z)",
				retType: "bytes * Z * Z", leaves: map[string]string{"size": "size"}},
			state:    []c17Var{{"f.raw", "s_raw", "bytes"}, {"f.Offset", "s_offset", "Z"}, {"d.DirLoc", "s_dirloc", "Z"}},
			skips:    []string{"size, err := f.GetTotalSize()", "if err != nil { return nil, err }", "d.File = append(d.File, f)"},
			retFirst: "f"})
		// f.Extra is declared as state although the body no longer assigns it: the generated function returns its final value, and
		// the theorem getdirectoryheader_keeps_extra states that it is the initial one (a second WriteDirectory emits the same bytes).
		// wz64 stands for withoutZip64Extra (a loop; modelled in C17/Model.v from the conditions generated below).
		o.c17Block(c17BlockSpec{
			funcSpec: funcSpec{dir: d, recv: "File", name: "GetDirectoryHeader", coqName: "gdh_step",
				params:  "(wz64 : bytes -> bytes) (s_raw s_name s_extra s_comment : bytes) (creator reader flags method mtime mdate crc csize usize iattrs eattrs offset : Z)",
				retType: "bytes * bytes", calls: map[string]string{"uint32": "u32", "uint16": "u16", "len": "zlen", "withoutZip64Extra": "wz64"},
				types: map[string]string{"f.Extra": "bytes"},
				leaves: map[string]string{"len(f.raw)": "(zlen s_raw)", "f.raw": "s_raw", "f.Name": "s_name", "f.Comment": "s_comment",
					"len(f.Name)": "(zlen s_name)", "len(f.Extra)": "(zlen s_extra)", "len(f.Comment)": "(zlen s_comment)",
					"f.CreatorVersion": "creator", "f.ReaderVersion": "reader", "f.Flags": "flags", "f.Method": "method", "f.ModifiedTime": "mtime",
					"f.ModifiedDate": "mdate", "f.CRC32": "crc", "f.CompressedSize": "csize", "f.UncompressedSize": "usize",
					"f.InternalAttrs": "iattrs", "f.ExternalAttrs": "eattrs", "f.Offset": "offset"}},
			state:    []c17Var{{"f.Extra", "s_extra", "bytes"}},
			structs:  wire,
			retFirst: "expr"})
		// withoutZip64Extra: loop condition, record size, overrun test, which records are copied; the three slice statements
		wzL := map[string]string{"len(extra)": "extra_len", "size": "size", "id": "id", "binary.LittleEndian.Uint16(extra[2:])": "rec_len"}
		wz := func(coq, params, ret string) funcSpec {
			return funcSpec{dir: d, name: "withoutZip64Extra", coqName: coq, params: params, retType: ret, leaves: wzL}
		}
		o.condOf(wz("wz_loop", "(extra_len : Z)", "bool"), "for:len(extra)")
		o.exprOfAssign(wz("wz_size", "(rec_len : Z)", "Z"), "size", 0)
		o.condOf(wz("wz_overrun", "(size extra_len : Z)", "bool"), "if:size")
		o.condOf(wz("wz_keep", "(id : Z)", "bool"), "if:id")
		o.hasStmt(d, "", "withoutZip64Extra", "out = append(out, extra[:size]...)", "wz_copies_record")
		o.hasStmt(d, "", "withoutZip64Extra", "extra = extra[size:]", "wz_advances")
		o.hasStmt(d, "", "withoutZip64Extra", "return append(out, extra...)", "wz_keeps_remainder")
		fingerprint(d, "", "withoutZip64Extra")
		o.c17Block(c17BlockSpec{
			funcSpec: funcSpec{dir: d, recv: "Directory", name: "WriteDirectory", coqName: "wd_loop_step", params: "(reader blob_len : Z) (s_minver s_count s_size : Z)",
				retType: "Z * Z * Z", leaves: map[string]string{"f.ReaderVersion": "reader", "len(blob)": "blob_len"}},
			state:   []c17Var{{"minVersion", "s_minver", "Z"}, {"count", "s_count", "Z"}, {"size", "s_size", "Z"}},
			skips:   []string{"blob, err := f.GetDirectoryHeader()", "if err != nil { return err }", "if _, err := buf.Write(blob); err != nil { return err }"},
			rangeOf: "d.File"})
		// CheckContiguous: (refused?, new *pos)
		ccL := map[string]string{"f.Offset": "f_offset", "*pos": "pos", "size": "size"}
		o.condOf(funcSpec{dir: d, recv: "File", name: "CheckContiguous", coqName: "cc_refuse", params: "(f_offset pos : Z)", retType: "bool", leaves: ccL}, "if:f.Offset")
		o.hasStmt(d, "File", "CheckContiguous", "*pos += size", "cc_advances")
		o.callOrder(d, "File", "CheckContiguous", "cc_calls", []string{"GetTotalSize"})
		// Mangle: per member callback, contiguity check, then delete (patch over the member) or AddFile; final position check
		o.callOrder(d, "Directory", "Mangle", "mg_calls", []string{"callback", "CheckContiguous", "GetTotalSize", "Add", "AddFile"})
		o.condOf(funcSpec{dir: d, recv: "Directory", name: "Mangle", coqName: "mg_delete_branch", params: "(deleted : bool)", retType: "bool",
			leaves: map[string]string{"mf.deleted": "deleted"}, types: map[string]string{"mf.deleted": "bool"}}, "if:mf.deleted")
		o.condOf(funcSpec{dir: d, recv: "Directory", name: "Mangle", coqName: "mg_end_refuse", params: "(pos dirloc : Z)", retType: "bool",
			leaves: map[string]string{"pos": "pos", "d.DirLoc": "dirloc"}}, "if:pos")
		o.c17CallArg(d, "Directory", "Mangle", "mg_patch_off_arg", "Add", 0, map[string]int{"int64(mf.Offset)": 1})
		o.c17CallArg(d, "Directory", "Mangle", "mg_patch_size_arg", "Add", 1, map[string]int{"size": 1})
		o.c17CallArg(d, "Directory", "Mangle", "mg_patch_blob_arg", "Add", 2, map[string]int{"nil": 1})
		o.c17CallArg(d, "Mangler", "NewFile", "mnf_extra_arg", "NewFile", 1, map[string]int{"nil": 1})
		o.c17CallArg(d, "Mangler", "NewFile", "mnf_usedesc_arg", "NewFile", 6, map[string]int{"true": 1, "false": 0})
		o.c17CallArg(d, "Mangler", "MakePatch", "mp_wd_force_arg", "WriteDirectory", 2, map[string]int{"forceZip64": 1})
		o.c17CallArg(d, "Mangler", "MakePatch", "mp_patch_off_arg", "Add", 0, map[string]int{"m.indir": 1})
		o.c17CallArg(d, "Mangler", "MakePatch", "mp_patch_size_arg", "Add", 1, map[string]int{"m.insize - m.indir": 1, "m.insize-m.indir": 1})
		// NewFile: the parsed fields of the File it registers, and the final registration
		o.c17LitKey(nf("nf_file_method", "(method : Z)", "Z"), "File", 0, "Method")
		o.c17LitKey(nf("nf_file_crc", "(crc : Z)", "Z"), "File", 0, "CRC32")
		o.c17LitKey(nf("nf_file_csize", "(csize : Z)", "Z"), "File", 0, "CompressedSize")
		o.c17LitKey(nf("nf_file_usize", "(usize : Z)", "Z"), "File", 0, "UncompressedSize")
		o.c17LitKey(nf("nf_file_mtime", "(mtime : Z)", "Z"), "File", 0, "ModifiedTime")
		o.c17LitKey(nf("nf_file_mdate", "(mdate : Z)", "Z"), "File", 0, "ModifiedDate")
		o.hasStmt(d, "Directory", "NewFile", "return d.AddFile(f)", "nf_registers")
		o.exprOfAssign(funcSpec{dir: d, recv: "Mangler", name: "NewFile", coqName: "mnf_deflate", params: "(contents_len : Z)", retType: "bool",
			leaves: map[string]string{"len(contents)": "contents_len"}}, "deflate", 0)
		o.condOf(funcSpec{dir: d, recv: "Directory", name: "GetOriginalDirectory", coqName: "god_is_new", params: "(end_sig : Z)", retType: "bool",
			leaves: map[string]string{"d.end.Signature": "end_sig"}}, "if:d.end.Signature")
		o.condOf(funcSpec{dir: d, recv: "Directory", name: "GetOriginalDirectory", coqName: "god_emit_end64", params: "(end64_sig : Z)", retType: "bool",
			leaves: map[string]string{"end64.Signature": "end64_sig"}}, "if:end64.Signature", 1)
		o.condOf(funcSpec{dir: d, recv: "Directory", name: "GetOriginalDirectory", coqName: "god_emit_loc64", params: "(loc64_sig : Z)", retType: "bool",
			leaves: map[string]string{"loc64.Signature": "loc64_sig"}}, "if:loc64.Signature", 2)
		o.condOf(funcSpec{dir: d, recv: "Directory", name: "GetOriginalDirectory", coqName: "god_trim_end", params: "(eoff loc64_sig : Z)", retType: "bool",
			leaves: map[string]string{"loc64.Signature": "loc64_sig", "end.CDOffset": "eoff"}}, "if:end.CDOffset", 0)
		o.c17CallArg(d, "Directory", "GetOriginalDirectory", "god_wd_weod_arg", "WriteDirectory", 1, map[string]int{"nil": 0})
		o.c17CallArg(d, "Directory", "GetOriginalDirectory", "god_write_order", "binary.Write", 2, map[string]int{"end64": 3, "loc64": 1, "end": 2})
		srL := map[string]string{"p": "p", "r.pos": "pos"}
		o.condOf(funcSpec{dir: d, recv: "streamReaderAt", name: "ReadAt", coqName: "sr_skip_forward", params: "(p pos : Z)", retType: "bool", leaves: srL}, "if:p > r.pos")
		o.condOf(funcSpec{dir: d, recv: "streamReaderAt", name: "ReadAt", coqName: "sr_seek_back", params: "(p pos : Z)", retType: "bool", leaves: srL}, "if:p < r.pos")

		for _, fn := range [][2]string{{"", "FindDirectory"}, {"", "ReadWithDirectory"}, {"", "Read"}, {"", "ReadStream"}, {"Directory", "Truncate"},
			{"Directory", "GetOriginalDirectory"}, {"Directory", "WriteDirectory"}, {"streamReaderAt", "ReadAt"}, {"Directory", "AddFile"},
			{"Directory", "NextFileOffset"}, {"File", "readLocalHeader"}, {"File", "readDataDesc"}, {"File", "GetDirectoryHeader"},
			{"File", "GetLocalHeader"}, {"File", "GetDataDescriptor"}, {"File", "GetTotalSize"}, {"Directory", "NewFile"},
			{"File", "OpenAndTeeRaw"}, {"Reader", "Read"}, {"File", "Dump"}, {"Directory", "Mangle"}, {"Mangler", "NewFile"},
			{"Mangler", "MakePatch"}, {"", "ZipToTar"}, {"", "ReadZipTar"}, {"zipTarReader", "Read"}} {
			fingerprint(d, fn[0], fn[1])
		}
	}
}
