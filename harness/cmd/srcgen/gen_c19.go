package main

// C19 — lib/xmldsig canonicaliser, ECDSA r||s packing.
//
// Besides the shared helpers (condOf, hasStmt, callOrder, constString, fingerprint) this generator needs three things the
// shared translator does not offer: string `<` and string `+` (rewritten to calls on a private re-parse of the file, so the
// cached AST used for fingerprints is never touched), the comparator closure handed to sort.Slice, and the type switch of
// walkAttributes.

import (
	"fmt"
	"go/ast"
	"go/parser"
	"go/token"
	"path/filepath"
	"strings"
)

// c19Parse re-parses one file with its own FileSet (private copy that may be rewritten).
func c19Parse(rel string) (*pkgInfo, *ast.File) {
	p := &pkgInfo{fset: token.NewFileSet(), files: map[string]*ast.File{}}
	f, err := parser.ParseFile(p.fset, filepath.Join(repo, rel), nil, 0)
	if err != nil {
		broken = append(broken, "parse error "+rel+": "+err.Error())
		return p, nil
	}
	p.files[filepath.Base(rel)] = f
	return p, f
}

// c19RewriteStrings replaces  a < b  by strlt(a, b)  and  a + b  by strcat(a, b)  when an operand is known to be a string
// (a string literal or one of the printed expressions in strs).
func c19RewriteStrings(p *pkgInfo, n ast.Node, strs map[string]bool) {
	isStr := func(e ast.Expr) bool {
		if bl, ok := e.(*ast.BasicLit); ok && bl.Kind == token.STRING {
			return true
		}
		return strs[printNode(p.fset, e)]
	}
	var rw func(e ast.Expr) ast.Expr
	rw = func(e ast.Expr) ast.Expr {
		switch x := e.(type) {
		case *ast.BinaryExpr:
			x.X, x.Y = rw(x.X), rw(x.Y)
			if (x.Op == token.LSS || x.Op == token.ADD) && (isStr(x.X) || isStr(x.Y)) {
				name := "strlt"
				if x.Op == token.ADD {
					name = "strcat"
				}
				return &ast.CallExpr{Fun: ast.NewIdent(name), Args: []ast.Expr{x.X, x.Y}}
			}
			if x.Op == token.GTR && (isStr(x.X) || isStr(x.Y)) {
				return &ast.CallExpr{Fun: ast.NewIdent("strlt"), Args: []ast.Expr{x.Y, x.X}}
			}
		case *ast.ParenExpr:
			x.X = rw(x.X)
		case *ast.UnaryExpr:
			x.X = rw(x.X)
		}
		return e
	}
	ast.Inspect(n, func(n ast.Node) bool {
		switch s := n.(type) {
		case *ast.ReturnStmt:
			for i := range s.Results {
				s.Results[i] = rw(s.Results[i])
			}
		case *ast.IfStmt:
			s.Cond = rw(s.Cond)
		case *ast.AssignStmt:
			for i := range s.Rhs {
				s.Rhs[i] = rw(s.Rhs[i])
			}
		}
		return true
	})
}

func c19FindFunc(f *ast.File, name string) *ast.FuncDecl {
	if f == nil {
		return nil
	}
	for _, d := range f.Decls {
		if fd, ok := d.(*ast.FuncDecl); ok && fd.Name.Name == name {
			return fd
		}
	}
	return nil
}

// c19Body translates a loop-free statement list into one Gallina definition.
func (o *out) c19Body(p *pkgInfo, fs funcSpec, list []ast.Stmt, from string) {
	t := o.newTr(p, fs)
	body := t.stmts(list, "")
	if t.err != nil {
		o.brokenDef(fs.coqName, t.err.Error())
		return
	}
	o.f("Definition %s %s : %s :=\n  %s.\n(* from %s *)\n", fs.coqName, fs.params, fs.retType, body, from)
}

func init() {
	generators["C19_gen"] = func(o *out) {
		const d = "lib/xmldsig"
		const file = d + "/canonicalize.go"
		o.f("Definition a3_space (a : bytes * bytes * bytes) : bytes := fst (fst a).\n")
		o.f("Definition a3_key (a : bytes * bytes * bytes) : bytes := snd (fst a).\n")
		o.f("Definition a3_val (a : bytes * bytes * bytes) : bytes := snd a.\n\n")
		strTypes := map[string]string{"attr.Space": "str", "attr.Key": "str", "space": "str", "elem.Space": "str",
			"x.Space": "str", "x.Key": "str", "y.Space": "str", "y.Key": "str", "spaces[space]": "str"}
		strs := map[string]bool{}
		for k := range strTypes {
			strs[k] = true
		}
		p, f := c19Parse(file)
		if f != nil {
			c19RewriteStrings(p, f, strs)
		}
		calls := map[string]string{"strlt": "str_ltb", "strcat": "app"}

		// ---- getDecl, putDecl: whole bodies
		if fd := c19FindFunc(f, "getDecl"); fd != nil {
			o.c19Body(p, funcSpec{dir: d, coqName: "get_decl", params: "(a_space a_key : bytes)", retType: "bytes * bool",
				leaves: map[string]string{"attr.Space": "a_space", "attr.Key": "a_key"}, types: strTypes, calls: calls}, fd.Body.List, file+":getDecl")
		} else {
			o.brokenDef("get_decl", "function getDecl not found")
		}
		if fd := c19FindFunc(f, "putDecl"); fd != nil {
			o.c19Body(p, funcSpec{dir: d, coqName: "put_decl", params: "(space : bytes)", retType: "bytes",
				leaves: map[string]string{"space": "space"}, types: strTypes, calls: calls}, fd.Body.List, file+":putDecl")
		} else {
			o.brokenDef("put_decl", "function putDecl not found")
		}

		// ---- the comparator closure given to sort.Slice in walkAttributes
		var lit *ast.FuncLit
		if fd := c19FindFunc(f, "walkAttributes"); fd != nil {
			ast.Inspect(fd.Body, func(n ast.Node) bool {
				if ce, ok := n.(*ast.CallExpr); ok && printNode(p.fset, ce.Fun) == "sort.Slice" && len(ce.Args) == 2 {
					if fl, ok := ce.Args[1].(*ast.FuncLit); ok && lit == nil {
						lit = fl
						if printNode(p.fset, ce.Args[0]) != "elem.Attr" {
							lit = nil
						}
					}
				}
				return true
			})
		}
		if lit == nil {
			o.brokenDef("attr_less", "sort.Slice(elem.Attr, func...) not found in walkAttributes")
		} else {
			o.c19Body(p, funcSpec{dir: d, coqName: "attr_less",
				params: "(str_ltb : bytes -> bytes -> bool) (xi xj : bytes * bytes * bytes)", retType: "bool",
				leaves: map[string]string{"elem.Attr[i]": "xi", "elem.Attr[j]": "xj",
					"x.Space": "(a3_space v_x)", "x.Key": "(a3_key v_x)", "y.Space": "(a3_space v_y)", "y.Key": "(a3_key v_y)"},
				types: strTypes, calls: calls}, lit.Body.List, file+":walkAttributes sort.Slice less")
		}

		// ---- walkAttributes: push-down guard, removal, child type switch
		wl := map[string]string{"isDecl": "is_decl", "usesSpace(elem, space)": "uses"}
		wt := map[string]string{"isDecl": "bool", "usesSpace(elem, space)": "bool"}
		o.condOf(funcSpec{dir: d, name: "walkAttributes", coqName: "walk_push_cond", params: "(is_decl uses : bool)", retType: "bool",
			leaves: wl, types: wt}, "if:isDecl")
		o.hasStmt(d, "", "walkAttributes", "pushDown(elem, elem, space, putDecl(space), attr.Value)", "walk_pushes_from_self")
		o.hasStmt(d, "", "walkAttributes", "elem.Attr = append(elem.Attr[:i], elem.Attr[i+1:]...)", "walk_removes_pushed")
		o.c19TypeSwitch(d)

		// ---- usesSpace
		ul := map[string]string{"elem.Space": "elem_space", "space": "space", "attr.Space": "attr_space"}
		o.condOf(funcSpec{dir: d, name: "usesSpace", coqName: "uses_elem_cond", params: "(elem_space space : bytes)", retType: "bool",
			leaves: ul, types: strTypes}, "if:space", 0)
		o.condOf(funcSpec{dir: d, name: "usesSpace", coqName: "uses_default_cond", params: "(space : bytes)", retType: "bool",
			leaves: ul, types: strTypes}, "if:space", 1)
		o.condOf(funcSpec{dir: d, name: "usesSpace", coqName: "uses_attr_cond", params: "(attr_space space : bytes)", retType: "bool",
			leaves: ul, types: strTypes}, "if:space", 2)

		// ---- pullDown
		o.condOf(funcSpec{dir: d, name: "pullDown", coqName: "pull_skip_nondecl", params: "(is_decl : bool)", retType: "bool",
			leaves: map[string]string{"isDecl": "is_decl"}, types: map[string]string{"isDecl": "bool"}}, "if:isDecl")
		o.condOf(funcSpec{dir: d, name: "pullDown", coqName: "pull_skip_seen", params: "(cur : bytes)", retType: "bool",
			leaves: map[string]string{"spaces[space]": "cur"}, types: strTypes}, "if:spaces[space]")
		o.hasStmt(d, "", "pullDown", "pushDown(nil, newroot, space, putDecl(space), value)", "pull_pushes_with_nil_top")

		// ---- pushDown
		pl := map[string]string{"elem != top": "not_top", "elem.SelectAttr(key) != nil": "has_attr", "usesSpace(elem, space)": "uses"}
		pt := map[string]string{"elem != top": "bool", "elem.SelectAttr(key) != nil": "bool", "usesSpace(elem, space)": "bool"}
		o.condOf(funcSpec{dir: d, name: "pushDown", coqName: "pd_redeclared", params: "(not_top has_attr : bool)", retType: "bool",
			leaves: pl, types: pt}, "if:top")
		o.condOf(funcSpec{dir: d, name: "pushDown", coqName: "pd_declare_here", params: "(uses : bool)", retType: "bool",
			leaves: pl, types: pt}, "if:usesSpace")
		o.hasStmt(d, "", "pushDown", "elem.CreateAttr(key, value)", "pd_creates_attr")
		o.hasStmt(d, "", "pushDown", "pushDown(top, elem, space, key, value)", "pd_recurses")

		// ---- SerializeCanonical: write settings and order of the phases
		o.hasStmt(d, "", "SerializeCanonical", "doc.WriteSettings.CanonicalEndTags = true", "ws_canonical_end_tags")
		o.hasStmt(d, "", "SerializeCanonical", "doc.WriteSettings.CanonicalText = true", "ws_canonical_text")
		o.hasStmt(d, "", "SerializeCanonical", "doc.WriteSettings.CanonicalAttrVal = true", "ws_canonical_attr_val")
		o.hasStmt(d, "", "SerializeCanonical", "doc.WriteSettings.AttrSingleQuote = true", "ws_attr_single_quote")
		o.callOrder(d, "", "SerializeCanonical", "ser_call_order", []string{"Copy", "pullDown", "walkAttributes", "WriteToBytes"})

		// ---- constants used by the documents relic builds
		for _, c := range [][2]string{{"NsXMLDsig", "ns_xmldsig"}, {"NsXMLDsigMore", "ns_xmldsig_more"}, {"NsXMLEnc", "ns_xmlenc"}, {"NsXsi", "ns_xsi"},
			{"AlgXMLExcC14n", "alg_exc_c14n"}, {"AlgXMLExcC14nRec", "alg_exc_c14n_rec"}, {"AlgDsigEnvelopedSignature", "alg_enveloped"}} {
			o.constString(d, c[0], c[1])
		}

		o.constString("signers/vsix", "nsDigSig", "ns_digsig")
		o.constString("signers/vsix", "tsFormatXML", "ts_format_xml")

		// ---- ECDSA r||s packing
		const x = "lib/x509tools"
		o.exprOfAssign(funcSpec{dir: x, recv: "EcdsaSignature", name: "Pack", coqName: "pack_nbytes", params: "(nbits : Z)", retType: "Z",
			leaves: map[string]string{"nbits": "nbits"}}, "nbytes", 0)
		o.condOf(funcSpec{dir: x, recv: "EcdsaSignature", name: "Pack", coqName: "pack_s_wider", params: "(sbits nbits : Z)", retType: "bool",
			leaves: map[string]string{"s": "sbits", "nbits": "nbits"}}, "if:nbits")
		o.c19MakeLen(x)
		o.exprOfAssign(funcSpec{dir: x, name: "UnpackEcdsaSignature", coqName: "unpack_bytelen", params: "(plen : Z)", retType: "Z",
			leaves: map[string]string{"len(packed)": "plen"}}, "byteLen", 0)
		o.condOf(funcSpec{dir: x, name: "UnpackEcdsaSignature", coqName: "unpack_bad_size", params: "(plen bytelen : Z)", retType: "bool",
			leaves: map[string]string{"len(packed)": "plen", "byteLen": "bytelen"}}, "if:byteLen")
		o.c19CurveBits(x)

		o.c19SignPipeline()

		for _, fn := range [][3]string{{d, "", "RemoveElements"}, {d, "SignOptions", "c14nNamespace"}, {d, "", "HashAlgorithm"}, {d, "", "addCerts"},
			{"lib/appmanifest", "", "setSigIds"}, {"lib/appmanifest", "", "makeManifestHash"}} {
			fingerprint(fn[0], fn[1], fn[2])
		}
		for _, fn := range [][3]string{{d, "", "SerializeCanonical"}, {d, "", "getDecl"}, {d, "", "putDecl"}, {d, "", "walkAttributes"}, {d, "", "usesSpace"},
			{d, "", "pullDown"}, {d, "", "pushDown"}, {d, "", "Sign"}, {d, "", "SignEnveloping"}, {d, "", "buildSignedInfo"}, {d, "", "finishSignature"},
			{d, "", "hashCanon"}, {d, "", "hashAlgs"}, {d, "", "addKeyInfo"}, {d, "", "Verify"}, {d, "", "parseAlgs"}, {d, "", "parseKey"},
			{x, "EcdsaSignature", "Pack"}, {x, "", "UnpackEcdsaSignature"},
			{"lib/appmanifest", "", "Sign"}, {"lib/appmanifest", "", "makeLicense"}, {"lib/appmanifest", "", "setAssemblyIdentity"},
			{"lib/appmanifest", "", "setPublisherIdentity"}, {"lib/appmanifest", "", "Verify"}, {"lib/appmanifest", "", "PublicKeyToken"},
			{"lib/appmanifest", "", "PublicKeyToSnk"}, {"signers/vsix", "mangler", "makeSignature"}} {
			fingerprint(fn[0], fn[1], fn[2])
		}
	}
}

// c19TypeSwitch: the child loop of walkAttributes.  Token kinds: 0 Element, 1 CharData, 2 Comment, 3 ProcInst, 4 Directive.
// child_kept k = the clause for that type does not delete the child; child_walked k = it recurses with walkAttributes.
func (o *out) c19TypeSwitch(dir string) {
	p, fd := findFunc(dir, "", "walkAttributes")
	if fd == nil {
		o.brokenDef("child_kept", "walkAttributes not found")
		return
	}
	var ts *ast.TypeSwitchStmt
	ast.Inspect(fd.Body, func(n ast.Node) bool {
		if s, ok := n.(*ast.TypeSwitchStmt); ok && ts == nil {
			ts = s
		}
		return true
	})
	if ts == nil {
		o.brokenDef("child_kept", "no type switch in walkAttributes")
		return
	}
	kinds := map[string]int{"*etree.Element": 0, "*etree.CharData": 1, "*etree.Comment": 2, "*etree.ProcInst": 3, "*etree.Directive": 4}
	kept := map[int]bool{}
	walked := map[int]bool{}
	seen := map[int]bool{}
	var dfl *ast.CaseClause
	classify := func(cc *ast.CaseClause) (bool, bool) {
		txt := ""
		for _, s := range cc.Body {
			txt += printNode(p.fset, s) + "\n"
		}
		removes := strings.Contains(txt, "elem.Child = append(elem.Child[:i]")
		return !removes, strings.Contains(txt, "walkAttributes(")
	}
	for _, c := range ts.Body.List {
		cc := c.(*ast.CaseClause)
		if cc.List == nil {
			dfl = cc
			continue
		}
		k, w := classify(cc)
		for _, te := range cc.List {
			name := printNode(p.fset, te)
			id, ok := kinds[name]
			if !ok {
				o.brokenDef("child_kept", "unknown token type in switch: "+name)
				return
			}
			kept[id], walked[id], seen[id] = k, w, true
		}
	}
	for _, id := range kinds {
		if !seen[id] {
			if dfl != nil {
				kept[id], walked[id] = classify(dfl)
			} else {
				kept[id], walked[id] = true, false
			}
		}
	}
	lst := func(m map[int]bool) string {
		var parts []string
		for i := 0; i < 5; i++ {
			if m[i] {
				parts = append(parts, fmt.Sprintf("(kind =? %d)", i))
			}
		}
		if len(parts) == 0 {
			return "false"
		}
		return strings.Join(parts, " || ")
	}
	o.f("Definition child_kept (kind : Z) : bool := %s.\n(* from %s:walkAttributes type switch; kinds 0 Element 1 CharData 2 Comment 3 ProcInst 4 Directive *)\n", lst(kept), dir)
	o.f("Definition child_walked (kind : Z) : bool := %s.\n", lst(walked))
}

// c19MakeLen: the length argument of  ret := make([]byte, <len>)  in EcdsaSignature.Pack
func (o *out) c19MakeLen(dir string) {
	p, fd := findFunc(dir, "EcdsaSignature", "Pack")
	if fd == nil {
		o.brokenDef("pack_total_len", "Pack not found")
		return
	}
	var arg ast.Expr
	ast.Inspect(fd.Body, func(n ast.Node) bool {
		if as, ok := n.(*ast.AssignStmt); ok && len(as.Lhs) == 1 && len(as.Rhs) == 1 && printNode(p.fset, as.Lhs[0]) == "ret" {
			if ce, ok := as.Rhs[0].(*ast.CallExpr); ok && printNode(p.fset, ce.Fun) == "make" && len(ce.Args) == 2 {
				arg = ce.Args[1]
			}
		}
		return true
	})
	if arg == nil {
		o.brokenDef("pack_total_len", "ret := make([]byte, n) not found in Pack")
		return
	}
	t := o.newTr(p, funcSpec{dir: dir, leaves: map[string]string{"nbytes": "nbytes"}})
	c := t.expr(arg)
	if t.err != nil {
		o.brokenDef("pack_total_len", t.err.Error())
		return
	}
	o.f("Definition pack_total_len (nbytes : Z) : Z :=\n  %s.\n(* from %s:EcdsaSignature.Pack : ret := make([]byte, %s) *)\n", c, dir, printNode(p.fset, arg))
	// which slices receive R and S
	o.hasStmt(dir, "EcdsaSignature", "Pack", "sig.R.FillBytes(ret[0:nbytes])", "pack_r_first_half")
	o.hasStmt(dir, "EcdsaSignature", "Pack", "sig.S.FillBytes(ret[nbytes:])", "pack_s_second_half")
}

// c19CurveBits: the Bits column of DefinedCurves
func (o *out) c19CurveBits(dir string) {
	ce, p, _, _ := findConstExpr(dir, "DefinedCurves")
	cl, ok := ce.(*ast.CompositeLit)
	if ce == nil || !ok {
		o.brokenDef("defined_curve_bits", "DefinedCurves not found")
		return
	}
	var bits []string
	for _, e := range cl.Elts {
		el, ok := e.(*ast.CompositeLit)
		if !ok || len(el.Elts) < 1 {
			o.brokenDef("defined_curve_bits", "unexpected element in DefinedCurves")
			return
		}
		first := el.Elts[0]
		if kv, ok := first.(*ast.KeyValueExpr); ok {
			first = kv.Value
		}
		v, err := evalConst(dir, first, 0)
		if err != nil {
			o.brokenDef("defined_curve_bits", err.Error())
			return
		}
		bits = append(bits, fmt.Sprintf("%d", v.i))
	}
	_ = p
	o.f("Definition defined_curve_bits : list Z := [%s]. (* %s.DefinedCurves[*].Bits *)\n", strings.Join(bits, "; "), dir)
}

// ====================================================================================================================
// Signing / verifying pipelines (lib/xmldsig Sign, RemoveElements, hashCanon, buildSignedInfo, finishSignature, hashAlgs,
// Verify, parseAlgs; lib/appmanifest Sign and its helpers).  The pipelines are translated as ORDERED programs: one
// instruction per top-level statement, so the model digests exactly the tree state the code digests.

// c19Str evaluates a constant string expression (literal, package constant, concatenation).
func c19Str(dir string, e ast.Expr) (string, bool) {
	switch x := e.(type) {
	case *ast.BasicLit:
		if x.Kind == token.STRING {
			s, err := strconvUnquote(x.Value)
			return s, err == nil
		}
	case *ast.ParenExpr:
		return c19Str(dir, x.X)
	case *ast.Ident:
		ce, _, _, _ := findConstExpr(dir, x.Name)
		if ce != nil {
			return c19Str(dir, ce)
		}
	case *ast.SelectorExpr: // xmldsig.NsXMLDsig from another package
		if id, ok := x.X.(*ast.Ident); ok && id.Name == "xmldsig" {
			ce, _, _, _ := findConstExpr("lib/xmldsig", x.Sel.Name)
			if ce != nil {
				return c19Str("lib/xmldsig", ce)
			}
		}
	case *ast.BinaryExpr:
		if x.Op == token.ADD {
			a, ok1 := c19Str(dir, x.X)
			b, ok2 := c19Str(dir, x.Y)
			return a + b, ok1 && ok2
		}
	}
	return "", false
}

func strconvUnquote(s string) (string, error) {
	if len(s) >= 2 && s[0] == '`' {
		return s[1 : len(s)-1], nil
	}
	var out []byte
	if len(s) < 2 {
		return "", fmt.Errorf("bad literal")
	}
	body := s[1 : len(s)-1]
	for i := 0; i < len(body); i++ {
		c := body[i]
		if c != '\\' {
			out = append(out, c)
			continue
		}
		i++
		if i >= len(body) {
			return "", fmt.Errorf("bad escape")
		}
		switch body[i] {
		case 'n':
			out = append(out, '\n')
		case 'r':
			out = append(out, '\r')
		case 't':
			out = append(out, '\t')
		case '\\', '"', '\'':
			out = append(out, body[i])
		default:
			return "", fmt.Errorf("unsupported escape \\%c", body[i])
		}
	}
	return string(out), nil
}

func (o *out) c19Bytes(coqName, val, from string) {
	o.f("Definition %s : list Z := %s. (* %s = %q *)\n", coqName, bytesLit([]byte(val)), from, val)
}

func norm(s string) string { return strings.Join(strings.Fields(s), " ") }

// c19StrLits: every string literal / string constant argument of the function body in source order (calls to errors.New and
// fmt.Errorf are skipped: messages are not part of the behaviour modelled).
func (o *out) c19StrLits(dir, recv, name, coqName string) {
	p, fd := findFunc(dir, recv, name)
	if fd == nil {
		o.brokenDef(coqName, "function "+dir+":"+recv+"."+name+" not found")
		return
	}
	var items, shown []string
	ast.Inspect(fd.Body, func(n ast.Node) bool {
		if ce, ok := n.(*ast.CallExpr); ok {
			fn := printNode(p.fset, ce.Fun)
			if fn == "errors.New" || fn == "fmt.Errorf" {
				return false
			}
			for _, a := range ce.Args {
				switch a.(type) {
				case *ast.BasicLit, *ast.Ident, *ast.SelectorExpr:
					if s, ok := c19Str(dir, a); ok {
						items = append(items, bytesLit([]byte(s)))
						shown = append(shown, fmt.Sprintf("%q", s))
					}
				}
			}
		}
		return true
	})
	o.f("Definition %s : list (list Z) := [%s].\n(* string arguments of %s:%s.%s in source order: %s *)\n", coqName, strings.Join(items, "; "), dir, recv, name,
		strings.ReplaceAll(strings.Join(shown, " "), "*)", "* )"))
}

// c19MapTable: a package-level map[crypto.Hash]string literal as an association list keyed by the numeric crypto.Hash value.
var c19HashIDs = map[string]int{"crypto.MD4": 1, "crypto.MD5": 2, "crypto.SHA1": 3, "crypto.SHA224": 4, "crypto.SHA256": 5, "crypto.SHA384": 6, "crypto.SHA512": 7}

func (o *out) c19MapTable(dir, goName, coqName string) {
	ce, p, _, _ := findConstExpr(dir, goName)
	cl, ok := ce.(*ast.CompositeLit)
	if ce == nil || !ok {
		o.brokenDef(coqName, "map literal "+dir+"."+goName+" not found")
		return
	}
	var items []string
	for _, e := range cl.Elts {
		kv, ok := e.(*ast.KeyValueExpr)
		if !ok {
			o.brokenDef(coqName, "unexpected element in "+goName)
			return
		}
		id, ok := c19HashIDs[printNode(p.fset, kv.Key)]
		s, ok2 := c19Str(dir, kv.Value)
		if !ok || !ok2 {
			o.brokenDef(coqName, "untranslatable entry "+printNode(p.fset, kv)+" in "+goName)
			return
		}
		items = append(items, fmt.Sprintf("(%d, %s)", id, bytesLit([]byte(s))))
	}
	o.f("Definition %s : list (Z * list Z) := [%s]. (* %s.%s keyed by crypto.Hash *)\n", coqName, strings.Join(items, "; "), dir, goName)
}

func (o *out) c19StrList(dir, goName, coqName string) {
	ce, p, _, _ := findConstExpr(dir, goName)
	cl, ok := ce.(*ast.CompositeLit)
	if ce == nil || !ok {
		o.brokenDef(coqName, "slice literal "+dir+"."+goName+" not found")
		return
	}
	var items []string
	for _, e := range cl.Elts {
		s, ok := c19Str(dir, e)
		if !ok {
			o.brokenDef(coqName, "untranslatable entry "+printNode(p.fset, e)+" in "+goName)
			return
		}
		items = append(items, bytesLit([]byte(s)))
	}
	o.f("Definition %s : list (list Z) := [%s]. (* %s.%s *)\n", coqName, strings.Join(items, "; "), dir, goName)
}

// who: which tree variable a call works on
func c19Who(s string) int {
	switch s {
	case "parent":
		return 0
	case "root":
		return 1
	case "signature":
		return 2
	case "signedinfo":
		return 3
	case "license":
		return 4
	case "sigDestNode":
		return 5
	case "reference":
		return 6
	case "object":
		return 7
	}
	return 99
}

func isErrCheck(p *pkgInfo, s ast.Stmt) bool {
	is, ok := s.(*ast.IfStmt)
	if !ok || is.Init != nil || is.Else != nil || norm(printNode(p.fset, is.Cond)) != "err != nil" || len(is.Body.List) != 1 {
		return false
	}
	rs, ok := is.Body.List[0].(*ast.ReturnStmt)
	if !ok || len(rs.Results) == 0 {
		return false
	}
	return norm(printNode(p.fset, rs.Results[len(rs.Results)-1])) == "err"
}

// c19SignProgram: xmldsig.Sign as a list of instructions (opcode, operand).
//
//	0 pubKey := privKey.Public()          1 key/certificate guard (condition: xs_bad_key)      2 RemoveElements(<who>, tag)
//	3 refDigest, err := hashCanon(<who>)  4 if err != nil { return err }                        5 hashAlg, sigAlg, err := hashAlgs(...)
//	6 signature := <who>.CreateElement(tag)   7 signature.CreateAttr(key, value)
//	8 signedinfo := buildSignedInfo(signature, refId, hashAlg, sigAlg, refDigest, opts)  (operand 0 = arguments in that order)
//	9 return finishSignature(signature, signedinfo, hash, privKey, certs, opts)           (operand 0 = arguments in that order)
func (o *out) c19SignProgram(dir string) {
	p, fd := findFunc(dir, "", "Sign")
	if fd == nil {
		o.brokenDef("xs_prog", "xmldsig.Sign not found")
		return
	}
	var prog, shown []string
	emit := func(op, arg int, s ast.Stmt) {
		prog = append(prog, fmt.Sprintf("(%d, %d)", op, arg))
		shown = append(shown, fmt.Sprintf("%d:%s", op, norm(printNode(p.fset, s))))
	}
	consts := map[string]string{}
	bad := ""
	callOf := func(e ast.Expr) (*ast.CallExpr, string) {
		ce, ok := e.(*ast.CallExpr)
		if !ok {
			return nil, ""
		}
		return ce, printNode(p.fset, ce.Fun)
	}
	args := func(ce *ast.CallExpr) string {
		var a []string
		for _, x := range ce.Args {
			a = append(a, norm(printNode(p.fset, x)))
		}
		return strings.Join(a, ",")
	}
	for _, s := range fd.Body.List {
		txt := norm(printNode(p.fset, s))
		switch x := s.(type) {
		case *ast.AssignStmt:
			lhs := ""
			for i, l := range x.Lhs {
				if i > 0 {
					lhs += ","
				}
				lhs += printNode(p.fset, l)
			}
			if len(x.Rhs) != 1 {
				bad = txt
				break
			}
			ce, fn := callOf(x.Rhs[0])
			switch {
			case lhs == "pubKey" && txt == "pubKey := privKey.Public()":
				emit(0, 0, s)
			case lhs == "refDigest,err" && fn == "hashCanon" && len(ce.Args) == 2 && printNode(p.fset, ce.Args[1]) == "hash":
				emit(3, c19Who(printNode(p.fset, ce.Args[0])), s)
			case lhs == "hashAlg,sigAlg,err" && fn == "hashAlgs" && args(ce) == "hash,pubKey,opts":
				emit(5, 0, s)
			case lhs == "signature" && strings.HasSuffix(fn, ".CreateElement") && len(ce.Args) == 1:
				tag, ok := c19Str(dir, ce.Args[0])
				if !ok {
					bad = txt
					break
				}
				consts["xs_create_tag"] = tag
				emit(6, c19Who(strings.TrimSuffix(fn, ".CreateElement")), s)
			case lhs == "signedinfo" && fn == "buildSignedInfo" && len(ce.Args) == 6:
				rid, ok := c19Str(dir, ce.Args[1])
				if !ok {
					bad = txt
					break
				}
				consts["xs_ref_id"] = rid
				a := 99
				if norm(printNode(p.fset, ce.Args[0])) == "signature" && norm(printNode(p.fset, ce.Args[2])) == "hashAlg" && norm(printNode(p.fset, ce.Args[3])) == "sigAlg" &&
					norm(printNode(p.fset, ce.Args[4])) == "refDigest" && norm(printNode(p.fset, ce.Args[5])) == "opts" {
					a = 0
				}
				emit(8, a, s)
			default:
				bad = txt
			}
		case *ast.ExprStmt:
			ce, fn := callOf(x.X)
			switch {
			case ce != nil && fn == "RemoveElements" && len(ce.Args) == 2:
				tag, ok := c19Str(dir, ce.Args[1])
				if !ok {
					bad = txt
					break
				}
				consts["xs_remove_tag"] = tag
				emit(2, c19Who(printNode(p.fset, ce.Args[0])), s)
			case ce != nil && fn == "signature.CreateAttr" && len(ce.Args) == 2:
				k, ok1 := c19Str(dir, ce.Args[0])
				v, ok2 := c19Str(dir, ce.Args[1])
				if !ok1 || !ok2 {
					bad = txt
					break
				}
				consts["xs_sigattr_key"], consts["xs_sigattr_val"] = k, v
				emit(7, 0, s)
			default:
				bad = txt
			}
		case *ast.IfStmt:
			switch {
			case isErrCheck(p, s):
				emit(4, 0, s)
			case strings.Contains(txt, "SameKey") && x.Init == nil && x.Else == nil && len(x.Body.List) == 1:
				if _, ok := x.Body.List[0].(*ast.ReturnStmt); !ok {
					bad = txt
					break
				}
				emit(1, 0, s)
			default:
				bad = txt
			}
		case *ast.ReturnStmt:
			if len(x.Results) == 1 {
				if ce, fn := callOf(x.Results[0]); ce != nil && fn == "finishSignature" {
					a := 99
					if args(ce) == "signature,signedinfo,hash,privKey,certs,opts" {
						a = 0
					}
					emit(9, a, s)
					break
				}
			}
			bad = txt
		default:
			bad = txt
		}
		if bad != "" {
			// never silent: recorded as a broken tie; the instruction list still gets an entry (99: no meaning) so that the
			// executable model keeps running for the other comparisons while every theorem about Sign fails
			broken = append(broken, o.name+": xs_prog: statement of xmldsig.Sign not recognised by the translator: "+bad)
			emit(99, 0, s)
			bad = ""
		}
	}
	o.f("Definition xs_prog : list (Z * Z) := [%s].\n(* %s:Sign, one instruction per statement: %s *)\n", strings.Join(prog, "; "), dir,
		strings.ReplaceAll(strings.Join(shown, " | "), "*)", "* )"))
	for _, k := range []string{"xs_remove_tag", "xs_create_tag", "xs_sigattr_key", "xs_sigattr_val", "xs_ref_id"} {
		v, ok := consts[k]
		if !ok {
			o.brokenDef(k, "no statement of xmldsig.Sign supplies this constant")
			continue
		}
		o.c19Bytes(k, v, dir+":Sign")
	}
}

// c19RemoveLoop: the loop of RemoveElements: match condition and the shape (remove without advancing / advance otherwise)
func (o *out) c19RemoveLoop(dir string) {
	p, fd := findFunc(dir, "", "RemoveElements")
	if fd == nil || len(fd.Body.List) != 1 {
		o.brokenDef("rm_match", "RemoveElements not found or not a single loop")
		return
	}
	fs, ok := fd.Body.List[0].(*ast.ForStmt)
	if !ok || len(fs.Body.List) < 1 {
		o.brokenDef("rm_match", "RemoveElements: no for loop")
		return
	}
	var is *ast.IfStmt
	for _, s := range fs.Body.List {
		if x, ok := s.(*ast.IfStmt); ok {
			is = x
		}
	}
	if is == nil {
		o.brokenDef("rm_match", "RemoveElements: no if in the loop")
		return
	}
	t := o.newTr(p, funcSpec{dir: dir, leaves: map[string]string{"ok": "is_elem", "elem.Tag": "etag", "tag": "tag"},
		types: map[string]string{"ok": "bool", "elem.Tag": "str", "tag": "str"}})
	c := t.expr(is.Cond)
	if t.err != nil {
		o.brokenDef("rm_match", t.err.Error())
		return
	}
	o.f("Definition rm_match (is_elem : bool) (etag tag : bytes) : bool :=\n  %s.\n(* from %s:RemoveElements : if %s *)\n", c, dir, norm(printNode(p.fset, is.Cond)))
	initOK := is.Init != nil && norm(printNode(p.fset, is.Init)) == "elem, ok := token.(*etree.Element)"
	thenOK := len(is.Body.List) == 1 && norm(printNode(p.fset, is.Body.List[0])) == "root.Child = append(root.Child[:i], root.Child[i+1:]...)"
	elseOK := false
	if eb, ok := is.Else.(*ast.BlockStmt); ok && len(eb.List) == 1 && norm(printNode(p.fset, eb.List[0])) == "i++" {
		elseOK = true
	}
	loopOK := fs.Post == nil && fs.Init != nil && norm(printNode(p.fset, fs.Init)) == "i := 0" && fs.Cond != nil && norm(printNode(p.fset, fs.Cond)) == "i < len(root.Child)"
	tokOK := len(fs.Body.List) == 2 && norm(printNode(p.fset, fs.Body.List[0])) == "token := root.Child[i]"
	o.f("Definition rm_loop_shape : bool := %v. (* for i := 0; i < len(root.Child); { token := root.Child[i]; if elem, ok := token.(*etree.Element); <match> { remove i } else { i++ } } *)\n",
		initOK && thenOK && elseOK && loopOK && tokOK)
}

// c19HashAlgs: lookup tables, the key-type switch and the algorithm-URI decisions of hashAlgs
func (o *out) c19HashAlgs(dir string) {
	o.c19MapTable(dir, "hashNames", "hash_names")
	o.c19MapTable(dir, "HashUris", "hash_uris")
	o.c19StrList(dir, "nsPrefixes", "ns_prefixes")
	o.condOf(funcSpec{dir: dir, name: "hashAlgs", coqName: "ha_no_hash", params: "(hash_name : bytes)", retType: "bool",
		leaves: map[string]string{"hashName": "hash_name"}, types: map[string]string{"hashName": "str"}}, "if:hashName", 0)
	p, fd := findFunc(dir, "", "hashAlgs")
	if fd == nil {
		o.brokenDef("ha_pub_names", "hashAlgs not found")
		return
	}
	// type switch on the public key: key kind 0 = *rsa.PublicKey, 1 = *ecdsa.PublicKey
	var ts *ast.TypeSwitchStmt
	tsIdx := -1
	for i, s := range fd.Body.List {
		if x, ok := s.(*ast.TypeSwitchStmt); ok && ts == nil {
			ts, tsIdx = x, i
		}
	}
	if ts == nil {
		o.brokenDef("ha_pub_names", "no type switch in hashAlgs")
		return
	}
	kinds := map[string]int{"*rsa.PublicKey": 0, "*ecdsa.PublicKey": 1}
	var items []string
	for _, c := range ts.Body.List {
		cc := c.(*ast.CaseClause)
		if cc.List == nil {
			if len(cc.Body) != 1 || !strings.HasPrefix(norm(printNode(p.fset, cc.Body[0])), "return \"\", \"\", errors.New(") {
				o.brokenDef("ha_pub_names", "default clause of the key-type switch is not an error return")
				return
			}
			continue
		}
		if len(cc.Body) != 1 {
			o.brokenDef("ha_pub_names", "unexpected clause body in the key-type switch")
			return
		}
		as, ok := cc.Body[0].(*ast.AssignStmt)
		if !ok || len(as.Lhs) != 1 || printNode(p.fset, as.Lhs[0]) != "pubName" {
			o.brokenDef("ha_pub_names", "clause does not assign pubName")
			return
		}
		v, ok := c19Str(dir, as.Rhs[0])
		if !ok {
			o.brokenDef("ha_pub_names", "pubName not a constant")
			return
		}
		for _, te := range cc.List {
			k, ok := kinds[printNode(p.fset, te)]
			if !ok {
				o.brokenDef("ha_pub_names", "unknown key type "+printNode(p.fset, te))
				return
			}
			items = append(items, fmt.Sprintf("(%d, %s)", k, bytesLit([]byte(v))))
		}
	}
	o.f("Definition ha_pub_names : list (Z * list Z) := [%s]. (* %s:hashAlgs switch pubKey.(type): 0 rsa, 1 ecdsa; anything else is an error *)\n", strings.Join(items, "; "), dir)
	// the statements after the switch: one loop-free decision returning (hashAlg, sigAlg, err)
	pp, f := c19Parse(dir + "/sign.go")
	fd2 := c19FindFunc(f, "hashAlgs")
	if fd2 == nil || tsIdx+1 >= len(fd2.Body.List) {
		o.brokenDef("ha_tail", "hashAlgs tail not found")
		return
	}
	strs := map[string]bool{"NsXMLDsig": true, "NsXMLDsigMore": true, "hashName": true, "pubName": true, "HashUris[hash]": true}
	c19RewriteStrings(pp, fd2, strs)
	types := map[string]string{"NsXMLDsig": "str", "NsXMLDsigMore": "str", "hashName": "str", "pubName": "str", "HashUris[hash]": "str",
		"opts.MsCompatHashNames": "bool", "hashAlg": "str", "sigAlg": "str", "nil": "bool"}
	o.c19Body(pp, funcSpec{dir: dir, coqName: "ha_tail", params: "(hash_name pub_name hash_uri : bytes) (ms : bool)", retType: "bytes * bytes * bool",
		leaves: map[string]string{"NsXMLDsig": "ns_xmldsig", "NsXMLDsigMore": "ns_xmldsig_more", "hashName": "hash_name", "pubName": "pub_name",
			"HashUris[hash]": "hash_uri", "opts.MsCompatHashNames": "ms", "hashAlg": "v_hashAlg", "sigAlg": "v_sigAlg", "nil": "false"},
		types: types, calls: map[string]string{"strcat": "app"}, ignore: []string{"var hashAlg, sigAlg string"}},
		fd2.Body.List[tsIdx+1:], dir+":hashAlgs (after the key-type switch; third component: error)")
}

func (o *out) c19SignPipeline() {
	const d = "lib/xmldsig"
	const am = "lib/appmanifest"
	str := map[string]string{}
	o.f("\n(* ---- signing / verifying pipelines *)\n")
	// ---- Sign
	o.c19SignProgram(d)
	o.condOf(funcSpec{dir: d, name: "Sign", coqName: "xs_bad_key", params: "(ncerts : Z) (same_key : bool)", retType: "bool",
		leaves: map[string]string{"len(certs)": "ncerts", "x509tools.SameKey(pubKey, certs[0].PublicKey)": "same_key"},
		types:  map[string]string{"x509tools.SameKey(pubKey, certs[0].PublicKey)": "bool"}}, "if:certs", 0)
	o.c19RemoveLoop(d)
	// ---- hashCanon
	o.callOrder(d, "", "hashCanon", "hc_call_order", []string{"SerializeCanonical", "New", "Write", "Sum"})
	o.hasStmt(d, "", "hashCanon", "canon, err := SerializeCanonical(root)", "hc_serializes_root")
	o.hasStmt(d, "", "hashCanon", "d.Write(canon)", "hc_digests_canon")
	o.hasStmt(d, "", "hashCanon", "return d.Sum(nil), nil", "hc_returns_sum")
	// ---- c14nNamespace, buildSignedInfo
	o.decisionFunc(funcSpec{dir: d, recv: "SignOptions", name: "c14nNamespace", coqName: "c14n_ns", params: "(use_rec : bool)", retType: "bytes",
		leaves: map[string]string{"s.UseRecC14n": "use_rec", "AlgXMLExcC14nRec": "alg_exc_c14n_rec", "AlgXMLExcC14n": "alg_exc_c14n"},
		types:  map[string]string{"s.UseRecC14n": "bool"}})
	rl := map[string]string{"refId": "ref_id"}
	rt := map[string]string{"refId": "str"}
	o.condOf(funcSpec{dir: d, name: "buildSignedInfo", coqName: "bsi_uri_empty", params: "(ref_id : bytes)", retType: "bool", leaves: rl, types: rt}, "if:refId", 0)
	o.condOf(funcSpec{dir: d, name: "buildSignedInfo", coqName: "bsi_enveloped", params: "(ref_id : bytes)", retType: "bool", leaves: rl, types: rt}, "if:refId", 1)
	o.c19StrLits(d, "", "buildSignedInfo", "bsi_strs")
	o.hasStmt(d, "", "buildSignedInfo", "reference.CreateElement(\"DigestValue\").SetText(base64.StdEncoding.EncodeToString(refDigest))", "bsi_digest_text_is_b64_refdigest")
	// ---- finishSignature
	o.callOrder(d, "", "finishSignature", "fin_call_order", []string{"hashCanon", "privKey.Sign", "UnmarshalEcdsaSignature", "Pack", "CreateElement", "NewElement", "addKeyInfo", "addCerts", "AddChild"})
	o.hasStmt(d, "", "finishSignature", "siDigest, err := hashCanon(signedinfo, hash)", "fin_digests_signedinfo")
	o.hasStmt(d, "", "finishSignature", "sig, err := privKey.Sign(rand.Reader, siDigest, hash)", "fin_signs_sidigest")
	o.hasStmt(d, "", "finishSignature", "signature.CreateElement(\"SignatureValue\").SetText(base64.StdEncoding.EncodeToString(sig))", "fin_sigvalue_is_b64_sig")
	o.hasStmt(d, "", "finishSignature", "signature.AddChild(keyinfo)", "fin_attaches_keyinfo")
	o.condOf(funcSpec{dir: d, name: "finishSignature", coqName: "fin_kv_cond", params: "(include_kv : bool)", retType: "bool",
		leaves: map[string]string{"opts.IncludeKeyValue": "include_kv"}, types: map[string]string{"opts.IncludeKeyValue": "bool"}}, "if:IncludeKeyValue")
	o.condOf(funcSpec{dir: d, name: "finishSignature", coqName: "fin_x509_cond", params: "(include_x509 : bool) (ncerts : Z)", retType: "bool",
		leaves: map[string]string{"opts.IncludeX509": "include_x509", "len(certs)": "ncerts"}, types: map[string]string{"opts.IncludeX509": "bool"}}, "if:IncludeX509")
	o.condOf(funcSpec{dir: d, name: "finishSignature", coqName: "fin_attach_cond", params: "(nkids : Z)", retType: "bool",
		leaves: map[string]string{"len(keyinfo.Child)": "nkids"}}, "if:keyinfo.Child")
	o.c19StrLits(d, "", "finishSignature", "fin_strs")
	// ---- hashAlgs / parseAlgs / HashAlgorithm
	o.c19HashAlgs(d)
	o.condOf(funcSpec{dir: d, name: "parseAlgs", coqName: "pa_hash_unavailable", params: "(available : bool)", retType: "bool",
		leaves: map[string]string{"hash.Available()": "available"}, types: map[string]string{"hash.Available()": "bool"}}, "if:Available")
	o.condOf(funcSpec{dir: d, name: "parseAlgs", coqName: "pa_bad_suffix", params: "(has_suffix : bool)", retType: "bool",
		leaves: map[string]string{"strings.HasSuffix(sigAlg, \"-\"+hashAlg)": "has_suffix"}, types: map[string]string{"strings.HasSuffix(sigAlg, \"-\"+hashAlg)": "bool"}}, "if:HasSuffix")
	str = map[string]string{"sigAlg": "str"}
	o.condOf(funcSpec{dir: d, name: "parseAlgs", coqName: "pa_bad_pubtype", params: "(sig_alg : bytes)", retType: "bool",
		leaves: map[string]string{"sigAlg": "sig_alg"}, types: str}, "if:sigAlg !=")
	// ---- Verify
	vl := map[string]string{"len(sigs)": "nsigs", "sig.CanonicalizationMethod.Algorithm": "cm", "AlgXMLExcC14n": "alg_exc_c14n", "AlgXMLExcC14nRec": "alg_exc_c14n_rec",
		"AlgDsigEnvelopedSignature": "alg_enveloped", "sig.Reference.URI": "uri", "len(sig.Reference.Transforms)": "ntr",
		"sig.Reference.Transforms[0].Algorithm": "t0", "sig.Reference.Transforms[1].Algorithm": "t1", "sig.Reference.URI[0]": "uri0",
		"len(refGiven)": "given_len", "len(refCalc)": "calc_len", "err != nil": "dec_err", "hmac.Equal(refGiven, refCalc)": "equal",
		"parent == nil": "no_parent", "reference == nil": "no_reference", "signedinfo == nil": "no_signedinfo", "root == nil": "no_root"}
	vt := map[string]string{"sig.CanonicalizationMethod.Algorithm": "str", "AlgXMLExcC14n": "str", "AlgXMLExcC14nRec": "str", "AlgDsigEnvelopedSignature": "str",
		"sig.Reference.URI": "str", "sig.Reference.Transforms[0].Algorithm": "str", "sig.Reference.Transforms[1].Algorithm": "str",
		"err != nil": "bool", "hmac.Equal(refGiven, refCalc)": "bool", "parent == nil": "bool", "reference == nil": "bool", "signedinfo == nil": "bool", "root == nil": "bool"}
	vc := func(coq, params, marker string, nth int) {
		o.condOf(funcSpec{dir: d, name: "Verify", coqName: coq, params: params, retType: "bool", leaves: vl, types: vt}, marker, nth)
	}
	vc("xv_none", "(nsigs : Z)", "if:len(sigs)", 0)
	vc("xv_multi", "(nsigs : Z)", "if:len(sigs)", 1)
	vc("xv_bad_c14n", "(cm : bytes)", "if:sig.CanonicalizationMethod.Algorithm", 0)
	vc("xv_no_signedinfo", "(no_signedinfo : bool)", "if:signedinfo", 0)
	vc("xv_enveloped", "(uri : bytes)", "if:sig.Reference.URI ==", 0)
	vc("xv_bad_env_transforms", "(ntr : Z) (t0 t1 : bytes)", "if:sig.Reference.Transforms", 0)
	vc("xv_no_parent", "(no_parent : bool)", "if:parent", 0)
	vc("xv_bad_obj_transforms", "(ntr : Z) (t0 : bytes)", "if:sig.Reference.Transforms", 1)
	vc("xv_bad_uri", "(uri0 : Z)", "if:sig.Reference.URI[0]", 0)
	vc("xv_no_reference", "(no_reference : bool)", "if:reference", 0)
	vc("xv_bad_digest_len", "(given_len calc_len : Z) (dec_err : bool)", "if:len(refGiven)", 0)
	vc("xv_digest_differs", "(equal : bool)", "if:hmac.Equal", 0)
	o.callOrder(d, "", "Verify", "xv_call_order", []string{"root.Copy", "FindElements", "SerializeCanonical", "xml.Unmarshal", "parseAlgs", "parseKey", "SelectElement", "hashCanon",
		"UnpackEcdsaSignature", "x509tools.Verify", "sigEl.Parent", "RemoveChild", "FindElement", "hmac.Equal"})
	o.hasStmt(d, "", "Verify", "root = root.Copy()", "xv_copies_root")
	o.hasStmt(d, "", "Verify", "sigs := root.FindElements(sigpath)", "xv_finds_by_path")
	o.hasStmt(d, "", "Verify", "sigEl := sigs[0]", "xv_takes_first")
	o.hasStmt(d, "", "Verify", "sigbytes, err := SerializeCanonical(sigEl)", "xv_parses_canonical_sig")
	o.hasStmt(d, "", "Verify", "signedinfo := sigEl.SelectElement(\"SignedInfo\")", "xv_selects_signedinfo")
	o.hasStmt(d, "", "Verify", "siCalc, err := hashCanon(signedinfo, hash)", "xv_digests_signedinfo")
	o.hasStmt(d, "", "Verify", "parent := sigEl.Parent()", "xv_parent_of_sig")
	o.hasStmt(d, "", "Verify", "parent.RemoveChild(sigEl)", "xv_removes_sig")
	o.hasStmt(d, "", "Verify", "reference = root", "xv_reference_is_root")
	o.hasStmt(d, "", "Verify", "refCalc, err := hashCanon(reference, hash)", "xv_digests_reference")
	o.hasStmt(d, "", "Verify", "refGiven, err := base64.StdEncoding.DecodeString(sig.Reference.DigestValue)", "xv_given_is_b64_digestvalue")
	// ---- appmanifest.Sign and helpers
	o.callOrder(am, "", "Sign", "am_call_order", []string{"ReadFromString", "doc.Root", "setAssemblyIdentity", "setPublisherIdentity", "xmldsig.Sign", "setSigIds", "makeManifestHash",
		"makeLicense", "license.AddChild", "keyinfo.CreateElement", "reldata.CreateAttr", "reldata.AddChild", "WriteToBytes"})
	o.c19SignCalls(am)
	o.c19StrLits(am, "", "Sign", "am_sign_strs")
	o.hasStmt(am, "", "Sign", "sigopts := xmldsig.SignOptions{MsCompatHashNames: true, IncludeKeyValue: true}", "am_opts_ms_kv")
	o.hasStmt(am, "", "Sign", "sigopts.IncludeX509 = true", "am_second_includes_x509")
	o.hasStmt(am, "", "Sign", "sig, keyinfo := setSigIds(root, \"StrongNameSignature\", \"StrongNameKeyInfo\")", "am_ids_primary")
	o.hasStmt(am, "", "Sign", "aSig, _ := setSigIds(sigDestNode, \"AuthenticodeSignature\", \"\")", "am_ids_secondary")
	o.hasStmt(am, "", "Sign", "manifestHash := makeManifestHash(sig)", "am_hash_of_primary")
	o.hasStmt(am, "", "Sign", "license, sigDestNode := makeLicense(asi, subjectName, manifestHash)", "am_license_args")
	o.c19StrLits(am, "", "setAssemblyIdentity", "am_asi_strs")
	o.callOrder(am, "", "setAssemblyIdentity", "am_asi_order", []string{"PublicKeyToken", "SelectElement", "CreateAttr"})
	o.condOf(funcSpec{dir: am, name: "setAssemblyIdentity", coqName: "am_asi_missing", params: "(no_asi : bool)", retType: "bool",
		leaves: map[string]string{"asi == nil": "no_asi"}, types: map[string]string{"asi == nil": "bool"}}, "if:asi")
	o.c19StrLits(am, "", "setPublisherIdentity", "am_pub_strs")
	o.callOrder(am, "", "setPublisherIdentity", "am_pub_order", []string{"PublisherIdentity", "RemoveElements", "CreateElement", "CreateAttr"})
	o.c19StrLits(am, "", "makeLicense", "am_license_strs")
	o.callOrder(am, "", "makeLicense", "am_license_order", []string{"NewElement", "CreateAttr", "CreateElement", "Copy", "AddChild", "SetText"})
	o.hasStmt(am, "", "makeLicense", "massy.Space = \"as\"", "am_license_asi_prefix")
	o.c19StrLits(am, "", "setSigIds", "am_ids_strs")
	o.condOf(funcSpec{dir: am, name: "setSigIds", coqName: "am_ids_sig_cond", params: "(sig_name : bytes)", retType: "bool",
		leaves: map[string]string{"sigName": "sig_name"}, types: map[string]string{"sigName": "str"}}, "if:sigName")
	o.condOf(funcSpec{dir: am, name: "setSigIds", coqName: "am_ids_ki_cond", params: "(keyinfo_name : bytes)", retType: "bool",
		leaves: map[string]string{"keyinfoName": "keyinfo_name"}, types: map[string]string{"keyinfoName": "str"}}, "if:keyinfoName")
	o.c19StrLits(am, "", "makeManifestHash", "am_mh_strs")
	for _, c := range [][2]string{{"NsMsRel", "ns_msrel"}, {"NsMpeg21", "ns_mpeg21"}, {"NsAuthenticode", "ns_authenticode"}} {
		o.constString(am, c[0], c[1])
	}
	// ---- appmanifest.Verify
	o.callOrder(am, "", "Verify", "amv_call_order", []string{"ReadFromString", "doc.Root", "xmldsig.Verify", "FindElement", "SameKey", "SelectElement", "PublicKeyToken"})
	o.c19StrLits(am, "", "Verify", "amv_strs")
}

// c19SignCalls: the (root, parent) arguments of every xmldsig.Sign call in appmanifest.Sign, in source order
func (o *out) c19SignCalls(dir string) {
	p, fd := findFunc(dir, "", "Sign")
	if fd == nil {
		o.brokenDef("am_sign_args", "appmanifest.Sign not found")
		return
	}
	var items, shown []string
	ast.Inspect(fd.Body, func(n ast.Node) bool {
		if ce, ok := n.(*ast.CallExpr); ok && printNode(p.fset, ce.Fun) == "xmldsig.Sign" && len(ce.Args) == 6 {
			a0, a1 := printNode(p.fset, ce.Args[0]), printNode(p.fset, ce.Args[1])
			rest := 99
			if norm(printNode(p.fset, ce.Args[2])) == "opts.HashFunc()" && norm(printNode(p.fset, ce.Args[3])) == "cert.Signer()" &&
				norm(printNode(p.fset, ce.Args[4])) == "cert.Chain()" && norm(printNode(p.fset, ce.Args[5])) == "sigopts" {
				rest = 0
			}
			items = append(items, fmt.Sprintf("(%d, %d, %d)", c19Who(a0), c19Who(a1), rest))
			shown = append(shown, a0+","+a1)
		}
		return true
	})
	o.f("Definition am_sign_args : list (Z * Z * Z) := [%s]. (* %s:Sign calls xmldsig.Sign(%s); 1 root 4 license 5 sigDestNode; third: 0 = (opts.HashFunc(), cert.Signer(), cert.Chain(), sigopts) *)\n",
		strings.Join(items, "; "), dir, strings.Join(shown, " ; "))
}
