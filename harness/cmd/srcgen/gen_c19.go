package main

// C19 — lib/xmldsig canonicaliser, ECDSA r||s packing.
//
// Besides the shared helpers (condOf, hasStmt, callOrder, constString, fingerprint) this generator needs three things the
// shared translator does not offer: string `<` and string `+` (rewritten to calls on a private re-parse of the file, so the
// cached AST used for fingerprints is never touched), the comparator closure handed to sort.Slice, and the type switch of
// walkAttributes.

import (
	"fmt"
	"go/ast"
	"go/parser"
	"go/token"
	"path/filepath"
	"strings"
)

// c19Parse re-parses one file with its own FileSet (private copy that may be rewritten).
func c19Parse(rel string) (*pkgInfo, *ast.File) {
	p := &pkgInfo{fset: token.NewFileSet(), files: map[string]*ast.File{}}
	f, err := parser.ParseFile(p.fset, filepath.Join(repo, rel), nil, 0)
	if err != nil {
		broken = append(broken, "parse error "+rel+": "+err.Error())
		return p, nil
	}
	p.files[filepath.Base(rel)] = f
	return p, f
}

// c19RewriteStrings replaces  a < b  by strlt(a, b)  and  a + b  by strcat(a, b)  when an operand is known to be a string
// (a string literal or one of the printed expressions in strs).
func c19RewriteStrings(p *pkgInfo, n ast.Node, strs map[string]bool) {
	isStr := func(e ast.Expr) bool {
		if bl, ok := e.(*ast.BasicLit); ok && bl.Kind == token.STRING {
			return true
		}
		return strs[printNode(p.fset, e)]
	}
	var rw func(e ast.Expr) ast.Expr
	rw = func(e ast.Expr) ast.Expr {
		switch x := e.(type) {
		case *ast.BinaryExpr:
			x.X, x.Y = rw(x.X), rw(x.Y)
			if (x.Op == token.LSS || x.Op == token.ADD) && (isStr(x.X) || isStr(x.Y)) {
				name := "strlt"
				if x.Op == token.ADD {
					name = "strcat"
				}
				return &ast.CallExpr{Fun: ast.NewIdent(name), Args: []ast.Expr{x.X, x.Y}}
			}
			if x.Op == token.GTR && (isStr(x.X) || isStr(x.Y)) {
				return &ast.CallExpr{Fun: ast.NewIdent("strlt"), Args: []ast.Expr{x.Y, x.X}}
			}
		case *ast.ParenExpr:
			x.X = rw(x.X)
		case *ast.UnaryExpr:
			x.X = rw(x.X)
		}
		return e
	}
	ast.Inspect(n, func(n ast.Node) bool {
		switch s := n.(type) {
		case *ast.ReturnStmt:
			for i := range s.Results {
				s.Results[i] = rw(s.Results[i])
			}
		case *ast.IfStmt:
			s.Cond = rw(s.Cond)
		case *ast.AssignStmt:
			for i := range s.Rhs {
				s.Rhs[i] = rw(s.Rhs[i])
			}
		}
		return true
	})
}

func c19FindFunc(f *ast.File, name string) *ast.FuncDecl {
	if f == nil {
		return nil
	}
	for _, d := range f.Decls {
		if fd, ok := d.(*ast.FuncDecl); ok && fd.Name.Name == name {
			return fd
		}
	}
	return nil
}

// c19Body translates a loop-free statement list into one Gallina definition.
func (o *out) c19Body(p *pkgInfo, fs funcSpec, list []ast.Stmt, from string) {
	t := o.newTr(p, fs)
	body := t.stmts(list, "")
	if t.err != nil {
		o.brokenDef(fs.coqName, t.err.Error())
		return
	}
	o.f("Definition %s %s : %s :=\n  %s.\n(* from %s *)\n", fs.coqName, fs.params, fs.retType, body, from)
}

func init() {
	generators["C19_gen"] = func(o *out) {
		const d = "lib/xmldsig"
		const file = d + "/canonicalize.go"
		o.f("Definition a3_space (a : bytes * bytes * bytes) : bytes := fst (fst a).\n")
		o.f("Definition a3_key (a : bytes * bytes * bytes) : bytes := snd (fst a).\n")
		o.f("Definition a3_val (a : bytes * bytes * bytes) : bytes := snd a.\n\n")
		strTypes := map[string]string{"attr.Space": "str", "attr.Key": "str", "space": "str", "elem.Space": "str",
			"x.Space": "str", "x.Key": "str", "y.Space": "str", "y.Key": "str", "spaces[space]": "str"}
		strs := map[string]bool{}
		for k := range strTypes {
			strs[k] = true
		}
		p, f := c19Parse(file)
		if f != nil {
			c19RewriteStrings(p, f, strs)
		}
		calls := map[string]string{"strlt": "str_ltb", "strcat": "app"}

		// ---- getDecl, putDecl: whole bodies
		if fd := c19FindFunc(f, "getDecl"); fd != nil {
			o.c19Body(p, funcSpec{dir: d, coqName: "get_decl", params: "(a_space a_key : bytes)", retType: "bytes * bool",
				leaves: map[string]string{"attr.Space": "a_space", "attr.Key": "a_key"}, types: strTypes, calls: calls}, fd.Body.List, file+":getDecl")
		} else {
			o.brokenDef("get_decl", "function getDecl not found")
		}
		if fd := c19FindFunc(f, "putDecl"); fd != nil {
			o.c19Body(p, funcSpec{dir: d, coqName: "put_decl", params: "(space : bytes)", retType: "bytes",
				leaves: map[string]string{"space": "space"}, types: strTypes, calls: calls}, fd.Body.List, file+":putDecl")
		} else {
			o.brokenDef("put_decl", "function putDecl not found")
		}

		// ---- the comparator closure given to sort.Slice in walkAttributes
		var lit *ast.FuncLit
		if fd := c19FindFunc(f, "walkAttributes"); fd != nil {
			ast.Inspect(fd.Body, func(n ast.Node) bool {
				if ce, ok := n.(*ast.CallExpr); ok && printNode(p.fset, ce.Fun) == "sort.Slice" && len(ce.Args) == 2 {
					if fl, ok := ce.Args[1].(*ast.FuncLit); ok && lit == nil {
						lit = fl
						if printNode(p.fset, ce.Args[0]) != "elem.Attr" {
							lit = nil
						}
					}
				}
				return true
			})
		}
		if lit == nil {
			o.brokenDef("attr_less", "sort.Slice(elem.Attr, func...) not found in walkAttributes")
		} else {
			o.c19Body(p, funcSpec{dir: d, coqName: "attr_less",
				params: "(str_ltb : bytes -> bytes -> bool) (xi xj : bytes * bytes * bytes)", retType: "bool",
				leaves: map[string]string{"elem.Attr[i]": "xi", "elem.Attr[j]": "xj",
					"x.Space": "(a3_space v_x)", "x.Key": "(a3_key v_x)", "y.Space": "(a3_space v_y)", "y.Key": "(a3_key v_y)"},
				types: strTypes, calls: calls}, lit.Body.List, file+":walkAttributes sort.Slice less")
		}

		// ---- walkAttributes: push-down guard, removal, child type switch
		wl := map[string]string{"isDecl": "is_decl", "usesSpace(elem, space)": "uses"}
		wt := map[string]string{"isDecl": "bool", "usesSpace(elem, space)": "bool"}
		o.condOf(funcSpec{dir: d, name: "walkAttributes", coqName: "walk_push_cond", params: "(is_decl uses : bool)", retType: "bool",
			leaves: wl, types: wt}, "if:isDecl")
		o.hasStmt(d, "", "walkAttributes", "pushDown(elem, elem, space, putDecl(space), attr.Value)", "walk_pushes_from_self")
		o.hasStmt(d, "", "walkAttributes", "elem.Attr = append(elem.Attr[:i], elem.Attr[i+1:]...)", "walk_removes_pushed")
		o.c19TypeSwitch(d)

		// ---- usesSpace
		ul := map[string]string{"elem.Space": "elem_space", "space": "space", "attr.Space": "attr_space"}
		o.condOf(funcSpec{dir: d, name: "usesSpace", coqName: "uses_elem_cond", params: "(elem_space space : bytes)", retType: "bool",
			leaves: ul, types: strTypes}, "if:space", 0)
		o.condOf(funcSpec{dir: d, name: "usesSpace", coqName: "uses_default_cond", params: "(space : bytes)", retType: "bool",
			leaves: ul, types: strTypes}, "if:space", 1)
		o.condOf(funcSpec{dir: d, name: "usesSpace", coqName: "uses_attr_cond", params: "(attr_space space : bytes)", retType: "bool",
			leaves: ul, types: strTypes}, "if:space", 2)

		// ---- pullDown
		o.condOf(funcSpec{dir: d, name: "pullDown", coqName: "pull_skip_nondecl", params: "(is_decl : bool)", retType: "bool",
			leaves: map[string]string{"isDecl": "is_decl"}, types: map[string]string{"isDecl": "bool"}}, "if:isDecl")
		o.condOf(funcSpec{dir: d, name: "pullDown", coqName: "pull_skip_seen", params: "(cur : bytes)", retType: "bool",
			leaves: map[string]string{"spaces[space]": "cur"}, types: strTypes}, "if:spaces[space]")
		o.hasStmt(d, "", "pullDown", "pushDown(nil, newroot, space, putDecl(space), value)", "pull_pushes_with_nil_top")

		// ---- pushDown
		pl := map[string]string{"elem != top": "not_top", "elem.SelectAttr(key) != nil": "has_attr", "usesSpace(elem, space)": "uses"}
		pt := map[string]string{"elem != top": "bool", "elem.SelectAttr(key) != nil": "bool", "usesSpace(elem, space)": "bool"}
		o.condOf(funcSpec{dir: d, name: "pushDown", coqName: "pd_redeclared", params: "(not_top has_attr : bool)", retType: "bool",
			leaves: pl, types: pt}, "if:top")
		o.condOf(funcSpec{dir: d, name: "pushDown", coqName: "pd_declare_here", params: "(uses : bool)", retType: "bool",
			leaves: pl, types: pt}, "if:usesSpace")
		o.hasStmt(d, "", "pushDown", "elem.CreateAttr(key, value)", "pd_creates_attr")
		o.hasStmt(d, "", "pushDown", "pushDown(top, elem, space, key, value)", "pd_recurses")

		// ---- SerializeCanonical: write settings and order of the phases
		o.hasStmt(d, "", "SerializeCanonical", "doc.WriteSettings.CanonicalEndTags = true", "ws_canonical_end_tags")
		o.hasStmt(d, "", "SerializeCanonical", "doc.WriteSettings.CanonicalText = true", "ws_canonical_text")
		o.hasStmt(d, "", "SerializeCanonical", "doc.WriteSettings.CanonicalAttrVal = true", "ws_canonical_attr_val")
		o.hasStmt(d, "", "SerializeCanonical", "doc.WriteSettings.AttrSingleQuote = true", "ws_attr_single_quote")
		o.callOrder(d, "", "SerializeCanonical", "ser_call_order", []string{"Copy", "pullDown", "walkAttributes", "WriteToBytes"})

		// ---- constants used by the documents relic builds
		for _, c := range [][2]string{{"NsXMLDsig", "ns_xmldsig"}, {"NsXMLDsigMore", "ns_xmldsig_more"}, {"NsXMLEnc", "ns_xmlenc"}, {"NsXsi", "ns_xsi"},
			{"AlgXMLExcC14n", "alg_exc_c14n"}, {"AlgXMLExcC14nRec", "alg_exc_c14n_rec"}, {"AlgDsigEnvelopedSignature", "alg_enveloped"}} {
			o.constString(d, c[0], c[1])
		}

		o.constString("signers/vsix", "nsDigSig", "ns_digsig")
		o.constString("signers/vsix", "tsFormatXML", "ts_format_xml")

		// ---- ECDSA r||s packing
		const x = "lib/x509tools"
		o.exprOfAssign(funcSpec{dir: x, recv: "EcdsaSignature", name: "Pack", coqName: "pack_nbytes", params: "(nbits : Z)", retType: "Z",
			leaves: map[string]string{"nbits": "nbits"}}, "nbytes", 0)
		o.condOf(funcSpec{dir: x, recv: "EcdsaSignature", name: "Pack", coqName: "pack_s_wider", params: "(sbits nbits : Z)", retType: "bool",
			leaves: map[string]string{"s": "sbits", "nbits": "nbits"}}, "if:nbits")
		o.c19MakeLen(x)
		o.exprOfAssign(funcSpec{dir: x, name: "UnpackEcdsaSignature", coqName: "unpack_bytelen", params: "(plen : Z)", retType: "Z",
			leaves: map[string]string{"len(packed)": "plen"}}, "byteLen", 0)
		o.condOf(funcSpec{dir: x, name: "UnpackEcdsaSignature", coqName: "unpack_bad_size", params: "(plen bytelen : Z)", retType: "bool",
			leaves: map[string]string{"len(packed)": "plen", "byteLen": "bytelen"}}, "if:byteLen")
		o.c19CurveBits(x)

		for _, fn := range [][3]string{{d, "", "SerializeCanonical"}, {d, "", "getDecl"}, {d, "", "putDecl"}, {d, "", "walkAttributes"}, {d, "", "usesSpace"},
			{d, "", "pullDown"}, {d, "", "pushDown"}, {d, "", "Sign"}, {d, "", "SignEnveloping"}, {d, "", "buildSignedInfo"}, {d, "", "finishSignature"},
			{d, "", "hashCanon"}, {d, "", "hashAlgs"}, {d, "", "addKeyInfo"}, {d, "", "Verify"}, {d, "", "parseAlgs"}, {d, "", "parseKey"},
			{x, "EcdsaSignature", "Pack"}, {x, "", "UnpackEcdsaSignature"},
			{"lib/appmanifest", "", "Sign"}, {"lib/appmanifest", "", "makeLicense"}, {"lib/appmanifest", "", "setAssemblyIdentity"},
			{"lib/appmanifest", "", "setPublisherIdentity"}, {"lib/appmanifest", "", "Verify"}, {"lib/appmanifest", "", "PublicKeyToken"},
			{"lib/appmanifest", "", "PublicKeyToSnk"}, {"signers/vsix", "mangler", "makeSignature"}} {
			fingerprint(fn[0], fn[1], fn[2])
		}
	}
}

// c19TypeSwitch: the child loop of walkAttributes.  Token kinds: 0 Element, 1 CharData, 2 Comment, 3 ProcInst, 4 Directive.
// child_kept k = the clause for that type does not delete the child; child_walked k = it recurses with walkAttributes.
func (o *out) c19TypeSwitch(dir string) {
	p, fd := findFunc(dir, "", "walkAttributes")
	if fd == nil {
		o.brokenDef("child_kept", "walkAttributes not found")
		return
	}
	var ts *ast.TypeSwitchStmt
	ast.Inspect(fd.Body, func(n ast.Node) bool {
		if s, ok := n.(*ast.TypeSwitchStmt); ok && ts == nil {
			ts = s
		}
		return true
	})
	if ts == nil {
		o.brokenDef("child_kept", "no type switch in walkAttributes")
		return
	}
	kinds := map[string]int{"*etree.Element": 0, "*etree.CharData": 1, "*etree.Comment": 2, "*etree.ProcInst": 3, "*etree.Directive": 4}
	kept := map[int]bool{}
	walked := map[int]bool{}
	seen := map[int]bool{}
	var dfl *ast.CaseClause
	classify := func(cc *ast.CaseClause) (bool, bool) {
		txt := ""
		for _, s := range cc.Body {
			txt += printNode(p.fset, s) + "\n"
		}
		removes := strings.Contains(txt, "elem.Child = append(elem.Child[:i]")
		return !removes, strings.Contains(txt, "walkAttributes(")
	}
	for _, c := range ts.Body.List {
		cc := c.(*ast.CaseClause)
		if cc.List == nil {
			dfl = cc
			continue
		}
		k, w := classify(cc)
		for _, te := range cc.List {
			name := printNode(p.fset, te)
			id, ok := kinds[name]
			if !ok {
				o.brokenDef("child_kept", "unknown token type in switch: "+name)
				return
			}
			kept[id], walked[id], seen[id] = k, w, true
		}
	}
	for _, id := range kinds {
		if !seen[id] {
			if dfl != nil {
				kept[id], walked[id] = classify(dfl)
			} else {
				kept[id], walked[id] = true, false
			}
		}
	}
	lst := func(m map[int]bool) string {
		var parts []string
		for i := 0; i < 5; i++ {
			if m[i] {
				parts = append(parts, fmt.Sprintf("(kind =? %d)", i))
			}
		}
		if len(parts) == 0 {
			return "false"
		}
		return strings.Join(parts, " || ")
	}
	o.f("Definition child_kept (kind : Z) : bool := %s.\n(* from %s:walkAttributes type switch; kinds 0 Element 1 CharData 2 Comment 3 ProcInst 4 Directive *)\n", lst(kept), dir)
	o.f("Definition child_walked (kind : Z) : bool := %s.\n", lst(walked))
}

// c19MakeLen: the length argument of  ret := make([]byte, <len>)  in EcdsaSignature.Pack
func (o *out) c19MakeLen(dir string) {
	p, fd := findFunc(dir, "EcdsaSignature", "Pack")
	if fd == nil {
		o.brokenDef("pack_total_len", "Pack not found")
		return
	}
	var arg ast.Expr
	ast.Inspect(fd.Body, func(n ast.Node) bool {
		if as, ok := n.(*ast.AssignStmt); ok && len(as.Lhs) == 1 && len(as.Rhs) == 1 && printNode(p.fset, as.Lhs[0]) == "ret" {
			if ce, ok := as.Rhs[0].(*ast.CallExpr); ok && printNode(p.fset, ce.Fun) == "make" && len(ce.Args) == 2 {
				arg = ce.Args[1]
			}
		}
		return true
	})
	if arg == nil {
		o.brokenDef("pack_total_len", "ret := make([]byte, n) not found in Pack")
		return
	}
	t := o.newTr(p, funcSpec{dir: dir, leaves: map[string]string{"nbytes": "nbytes"}})
	c := t.expr(arg)
	if t.err != nil {
		o.brokenDef("pack_total_len", t.err.Error())
		return
	}
	o.f("Definition pack_total_len (nbytes : Z) : Z :=\n  %s.\n(* from %s:EcdsaSignature.Pack : ret := make([]byte, %s) *)\n", c, dir, printNode(p.fset, arg))
	// which slices receive R and S
	o.hasStmt(dir, "EcdsaSignature", "Pack", "sig.R.FillBytes(ret[0:nbytes])", "pack_r_first_half")
	o.hasStmt(dir, "EcdsaSignature", "Pack", "sig.S.FillBytes(ret[nbytes:])", "pack_s_second_half")
}

// c19CurveBits: the Bits column of DefinedCurves
func (o *out) c19CurveBits(dir string) {
	ce, p, _, _ := findConstExpr(dir, "DefinedCurves")
	cl, ok := ce.(*ast.CompositeLit)
	if ce == nil || !ok {
		o.brokenDef("defined_curve_bits", "DefinedCurves not found")
		return
	}
	var bits []string
	for _, e := range cl.Elts {
		el, ok := e.(*ast.CompositeLit)
		if !ok || len(el.Elts) < 1 {
			o.brokenDef("defined_curve_bits", "unexpected element in DefinedCurves")
			return
		}
		first := el.Elts[0]
		if kv, ok := first.(*ast.KeyValueExpr); ok {
			first = kv.Value
		}
		v, err := evalConst(dir, first, 0)
		if err != nil {
			o.brokenDef("defined_curve_bits", err.Error())
			return
		}
		bits = append(bits, fmt.Sprintf("%d", v.i))
	}
	_ = p
	o.f("Definition defined_curve_bits : list Z := [%s]. (* %s.DefinedCurves[*].Bits *)\n", strings.Join(bits, "; "), dir)
}
