package main

// C02 (verification command and verifier dispatch): cmdline/shared Main, cmdline/verify verifyCmd / verifyOne / loadCerts,
// signers.ByMagic / ByFileName, and the function every signer module registers as Verify / VerifyStream together with the
// local helpers it passes its options to, are translated statement by statement into the language of coq/C02/IR.v
// (c02Program).  Also emitted: the table of registered signer modules with the value of their magic constant, the fields
// of signers.VerifyOpts, the flag table of `relic verify` (variable, flag name, default), the option literal of loadCerts
// and the fields of the options verifyOne writes.

import (
	"fmt"
	"go/ast"
	"go/token"
	"os"
	"path/filepath"
	"sort"
	"strconv"
	"strings"
)

func c02Str(s string) string {
	s = strings.Join(strings.Fields(s), " ")
	return "\"" + strings.ReplaceAll(s, "\"", "\"\"") + "\"%string"
}

func c02StrList(xs []string) string {
	parts := make([]string, len(xs))
	for i, x := range xs {
		parts[i] = c02Str(x)
	}
	return "[" + strings.Join(parts, "; ") + "]"
}

// kinds of errors a condition can ask for; grows when the code asks for another one
var c02Kinds = []string{"(any)", "sigerrors.NotSignedError", "pgptools.ErrNoKey", "x509.UnknownAuthorityError", "macho.ErrNotFat", "pkcs7.ErrNoAttribute"}

func c02Kind(text string) int {
	text = strings.TrimPrefix(strings.TrimSpace(text), "&")
	text = strings.TrimSuffix(text, "{}")
	text = strings.TrimPrefix(text, "*")
	if strings.HasPrefix(text, "new(") && strings.HasSuffix(text, ")") {
		text = text[4 : len(text)-1]
	}
	for i, k := range c02Kinds {
		if k == text {
			return i
		}
	}
	c02Kinds = append(c02Kinds, text)
	return len(c02Kinds) - 1
}

var c02OptsFields []string // fields of signers.VerifyOpts in declaration order
var c02FlagVars []string   // boolean flag variables of cmdline/verify

func c02Index(xs []string, x string) int {
	for i, y := range xs {
		if y == x {
			return i
		}
	}
	return -1
}

func c02IsErrName(n string) bool {
	if n == "" || n == "errors" || (n[0] >= 'A' && n[0] <= 'Z') {
		return false
	}
	return n == "e2" || strings.Contains(strings.ToLower(n), "err")
}

type c02Tr struct {
	p         *pkgInfo
	dir       string
	topLevel  map[string]bool // package-level value names
	errVars   map[interface{}]int
	errNames  []string
	intVars   map[interface{}]int
	intNames  []string
	calls     []string
	atoms     []string
	atomKey   map[string]int
	errs      []string
	effects   []string
	loops     []string
	ver       map[string]int
	newType   map[interface{}]string // e := new(T) / e := &T{}  ->  T
	okAssert  map[interface{}][2]int // ok of `_, ok := v.(T)`  ->  (error variable, kind)
	hasErrRes bool
	unknown   []string
	callees   []string // plain identifiers called (candidates for local helpers)
	results   []string // class of the first result of every `return X, nil`
}

func (t *c02Tr) txt(n ast.Node) string {
	return strings.Join(strings.Fields(printNode(t.p.fset, n)), " ")
}

func (t *c02Tr) key(id *ast.Ident) interface{} {
	if id.Obj != nil {
		return id.Obj
	}
	return id.Name
}

func (t *c02Tr) isLocalErr(id *ast.Ident) bool {
	if !c02IsErrName(id.Name) {
		return false
	}
	if id.Obj == nil {
		return !t.topLevel[id.Name]
	}
	if vs, ok := id.Obj.Decl.(*ast.ValueSpec); ok && t.topLevel[id.Name] {
		// a package-level sentinel (errTruncated ...) unless the declaration is local
		for _, f := range t.p.files {
			for _, d := range f.Decls {
				if gd, ok := d.(*ast.GenDecl); ok {
					for _, s := range gd.Specs {
						if s == ast.Spec(vs) {
							return false
						}
					}
				}
			}
		}
	}
	return true
}

func (t *c02Tr) errVar(id *ast.Ident) int {
	k := t.key(id)
	if v, ok := t.errVars[k]; ok {
		return v
	}
	v := len(t.errNames)
	t.errVars[k] = v
	t.errNames = append(t.errNames, id.Name)
	return v
}

func (t *c02Tr) bump(e ast.Expr) {
	for {
		switch x := e.(type) {
		case *ast.SelectorExpr:
			e = x.X
			continue
		case *ast.IndexExpr:
			e = x.X
			continue
		case *ast.StarExpr:
			e = x.X
			continue
		case *ast.ParenExpr:
			e = x.X
			continue
		case *ast.Ident:
			t.ver[x.Name]++
		}
		return
	}
}

func (t *c02Tr) unk(what string) string {
	t.unknown = append(t.unknown, what)
	return fmt.Sprintf("(SUnknown %d)", len(t.unknown)-1)
}

func (t *c02Tr) site(text string) int {
	t.calls = append(t.calls, text)
	return len(t.calls) - 1
}

func (t *c02Tr) errTag(text string) int {
	t.errs = append(t.errs, text)
	return len(t.errs) - 1
}

func (t *c02Tr) effect(text string) string {
	t.effects = append(t.effects, text)
	return fmt.Sprintf("(SEffect %d)", len(t.effects)-1)
}

func (t *c02Tr) atom(e ast.Expr) string {
	text := t.txt(e)
	var vs []string
	seen := map[string]bool{}
	ast.Inspect(e, func(n ast.Node) bool {
		if id, ok := n.(*ast.Ident); ok && !seen[id.Name] {
			seen[id.Name] = true
			if v := t.ver[id.Name]; v > 0 {
				vs = append(vs, fmt.Sprintf("%s:%d", id.Name, v))
			}
		}
		return true
	})
	sort.Strings(vs)
	k := text + "@" + strings.Join(vs, ",")
	if i, ok := t.atomKey[k]; ok {
		return fmt.Sprintf("(COpaque %d)", i)
	}
	t.atoms = append(t.atoms, text)
	t.atomKey[k] = len(t.atoms) - 1
	return fmt.Sprintf("(COpaque %d)", len(t.atoms)-1)
}

func c02IsErrCtor(callee string) bool {
	if callee == "errors.New" || callee == "fmt.Errorf" {
		return true
	}
	last := callee
	if k := strings.LastIndex(last, "."); k >= 0 {
		last = last[k+1:]
	}
	return strings.HasPrefix(last, "Err") || strings.HasSuffix(last, "Error")
}

// error-valued expression; "" when the expression is not one
func (t *c02Tr) eexp(e ast.Expr) string {
	switch x := e.(type) {
	case *ast.ParenExpr:
		return t.eexp(x.X)
	case *ast.Ident:
		if x.Name == "nil" {
			return "ENil"
		}
		if t.isLocalErr(x) {
			return fmt.Sprintf("(EVar %d)", t.errVar(x))
		}
		if c02IsErrName(x.Name) { // package-level sentinel
			return fmt.Sprintf("(EFresh %d)", t.errTag(t.txt(e)))
		}
	case *ast.SelectorExpr:
		if c02IsErrName(x.Sel.Name) || strings.HasPrefix(x.Sel.Name, "Err") || x.Sel.Name == "EOF" {
			return fmt.Sprintf("(EFresh %d)", t.errTag(t.txt(e)))
		}
	case *ast.CompositeLit:
		return fmt.Sprintf("(EFresh %d)", t.errTag(t.txt(e)))
	case *ast.UnaryExpr:
		if _, ok := x.X.(*ast.CompositeLit); ok && x.Op == token.AND {
			return fmt.Sprintf("(EFresh %d)", t.errTag(t.txt(e)))
		}
	case *ast.CallExpr:
		callee := t.txt(x.Fun)
		if c02IsErrCtor(callee) {
			wraps := false
			if len(x.Args) > 0 {
				if bl, ok := x.Args[0].(*ast.BasicLit); ok && strings.Contains(bl.Value, "%w") {
					wraps = true
				}
			}
			if wraps {
				for _, a := range x.Args[1:] {
					if id, ok := a.(*ast.Ident); ok && t.isLocalErr(id) {
						return fmt.Sprintf("(EWrap %d %d)", t.errVar(id), t.errTag(t.txt(e)))
					}
				}
			}
			return fmt.Sprintf("(EFresh %d)", t.errTag(t.txt(e)))
		}
	}
	return ""
}

func (t *c02Tr) argOf(e ast.Expr) string {
	switch x := e.(type) {
	case *ast.ParenExpr:
		return t.argOf(x.X)
	case *ast.Ident:
		switch {
		case x.Name == "opts":
			return "AOpts"
		case x.Name == "true" || x.Name == "false":
			return "(ABool " + x.Name + ")"
		case x.Name == "nil":
			return "ANil"
		case t.isLocalErr(x):
			return fmt.Sprintf("(AErr %d)", t.errVar(x))
		}
	case *ast.SelectorExpr:
		if id, ok := x.X.(*ast.Ident); ok && id.Name == "opts" {
			if i := c02Index(c02OptsFields, x.Sel.Name); i >= 0 {
				return fmt.Sprintf("(AOpt %d)", i)
			}
		}
	case *ast.UnaryExpr:
		if x.Op == token.NOT {
			a := t.argOf(x.X)
			if strings.HasPrefix(a, "(AOpt ") {
				return "(ANotOpt " + a[6:]
			}
			if a == "(ABool true)" {
				return "(ABool false)"
			}
			if a == "(ABool false)" {
				return "(ABool true)"
			}
		}
	}
	return "AOther"
}

func (t *c02Tr) args(ce *ast.CallExpr) string {
	var out []string
	for _, a := range ce.Args {
		out = append(out, t.argOf(a))
	}
	return "[" + strings.Join(out, "; ") + "]"
}

func (t *c02Tr) intVar(id *ast.Ident) (int, bool) {
	v, ok := t.intVars[t.key(id)]
	return v, ok
}

func (t *c02Tr) iexp(e ast.Expr) string {
	switch x := e.(type) {
	case *ast.ParenExpr:
		return t.iexp(x.X)
	case *ast.BasicLit:
		if x.Kind == token.INT {
			if v, err := strconv.ParseInt(x.Value, 0, 64); err == nil {
				return fmt.Sprintf("(IConst %d)", v)
			}
		}
	case *ast.Ident:
		if v, ok := t.intVar(x); ok {
			return fmt.Sprintf("(IVar %d)", v)
		}
	}
	return ""
}

func (t *c02Tr) cond(e ast.Expr) string {
	switch x := e.(type) {
	case *ast.ParenExpr:
		return t.cond(x.X)
	case *ast.UnaryExpr:
		if x.Op == token.NOT {
			return "(CNot " + t.cond(x.X) + ")"
		}
	case *ast.Ident:
		if ka, ok := t.okAssert[t.key(x)]; ok {
			return fmt.Sprintf("(CIsKind %d %d)", ka[0], ka[1])
		}
		if i := c02Index(c02FlagVars, x.Name); i >= 0 && t.topLevel[x.Name] {
			return fmt.Sprintf("(CFlag %d)", i)
		}
	case *ast.SelectorExpr:
		if id, ok := x.X.(*ast.Ident); ok && id.Name == "opts" {
			if i := c02Index(c02OptsFields, x.Sel.Name); i >= 0 {
				return fmt.Sprintf("(COpt %d)", i)
			}
		}
	case *ast.CallExpr:
		if t.txt(x.Fun) == "errors.As" && len(x.Args) == 2 {
			if id, ok := x.Args[0].(*ast.Ident); ok && t.isLocalErr(id) {
				ty := t.txt(x.Args[1])
				if id2, ok := x.Args[1].(*ast.Ident); ok {
					if nt, ok := t.newType[t.key(id2)]; ok {
						ty = nt
					}
				}
				return fmt.Sprintf("(CIsKind %d %d)", t.errVar(id), c02Kind(ty))
			}
		}
	case *ast.BinaryExpr:
		switch x.Op {
		case token.LAND:
			return "(CAnd " + t.cond(x.X) + " " + t.cond(x.Y) + ")"
		case token.LOR:
			return "(COr " + t.cond(x.X) + " " + t.cond(x.Y) + ")"
		case token.EQL, token.NEQ, token.LSS, token.LEQ, token.GTR, token.GEQ:
			ia, ib := t.iexp(x.X), t.iexp(x.Y)
			if ia != "" && ib != "" && (strings.HasPrefix(ia, "(IVar") || strings.HasPrefix(ib, "(IVar")) {
				op := map[token.Token]string{token.EQL: "OpEq", token.NEQ: "OpNe", token.LSS: "OpLt", token.LEQ: "OpLe", token.GTR: "OpGt", token.GEQ: "OpGe"}[x.Op]
				return fmt.Sprintf("(CInt %s %s %s)", op, ia, ib)
			}
			if x.Op != token.EQL && x.Op != token.NEQ {
				break
			}
			l, r := x.X, x.Y
			if id, ok := r.(*ast.Ident); ok && t.isLocalErr(id) {
				l, r = r, l
			}
			if id, ok := l.(*ast.Ident); ok && t.isLocalErr(id) {
				v := t.errVar(id)
				var c string
				if rid, ok := r.(*ast.Ident); ok && rid.Name == "nil" {
					c = fmt.Sprintf("(CNil %d)", v)
				} else {
					c = fmt.Sprintf("(CIsKind %d %d)", v, c02Kind(t.txt(r)))
				}
				if x.Op == token.NEQ {
					if strings.HasPrefix(c, "(CNil ") {
						return "(CNotNil " + c[6:]
					}
					return "(CNot " + c + ")"
				}
				return c
			}
		}
	}
	return t.atom(e)
}

func c02Seq(parts []string) string {
	var keep []string
	for _, p := range parts {
		if p != "" && p != "SSkip" {
			keep = append(keep, p)
		}
	}
	if len(keep) == 0 {
		return "SSkip"
	}
	s := keep[len(keep)-1]
	for i := len(keep) - 2; i >= 0; i-- {
		s = "(SSeq " + keep[i] + " " + s + ")"
	}
	return s
}

func (t *c02Tr) block(list []ast.Stmt) string {
	var parts []string
	for _, s := range list {
		parts = append(parts, t.stmt(s))
	}
	return c02Seq(parts)
}

var c02Prints = map[string]bool{"fmt.Printf": true, "fmt.Println": true, "fmt.Print": true, "fmt.Fprintf": true, "fmt.Fprintln": true, "fmt.Fprint": true}

// calls without an error result that are part of the dispatch and therefore kept as sites
var c02Tracked = map[string]bool{"magic.DetectCompressed": true, "signers.ByMagic": true, "signers.ByFileName": true, "x509.NewCertPool": true}

func (t *c02Tr) call(ce *ast.CallExpr, dst string, prefix string) string {
	callee := t.txt(ce.Fun)
	if id, ok := ce.Fun.(*ast.Ident); ok {
		t.callees = append(t.callees, id.Name)
	}
	return fmt.Sprintf("(SCall %d %s %s)", t.site(prefix+callee), dst, t.args(ce))
}

func (t *c02Tr) rootIsOpts(e ast.Expr) bool {
	for {
		switch x := e.(type) {
		case *ast.SelectorExpr:
			e = x.X
			continue
		case *ast.Ident:
			return x.Name == "opts"
		}
		return false
	}
}

func (t *c02Tr) assign(x *ast.AssignStmt) string {
	var parts []string
	optsWrite := false
	for _, l := range x.Lhs {
		if _, isSel := l.(*ast.SelectorExpr); isSel && t.rootIsOpts(l) {
			optsWrite = true
		}
		if id, ok := l.(*ast.Ident); ok && id.Name == "opts" {
			if _, isLit := x.Rhs[0].(*ast.CompositeLit); isLit && len(x.Rhs) == 1 {
				optsWrite = true
			}
		}
	}
	defer func() {
		for _, l := range x.Lhs {
			t.bump(l)
		}
	}()
	if optsWrite {
		parts = append(parts, t.effect(t.txt(x)))
	}
	if len(x.Rhs) == 1 {
		rhs := x.Rhs[0]
		if ta, ok := rhs.(*ast.TypeAssertExpr); ok && len(x.Lhs) == 2 {
			if id, ok := ta.X.(*ast.Ident); ok && t.isLocalErr(id) && ta.Type != nil {
				if okid, ok := x.Lhs[1].(*ast.Ident); ok {
					t.okAssert[t.key(okid)] = [2]int{t.errVar(id), c02Kind(t.txt(ta.Type))}
					return c02Seq(parts)
				}
			}
		}
		if ce, ok := rhs.(*ast.CallExpr); ok {
			callee := t.txt(ce.Fun)
			last := x.Lhs[len(x.Lhs)-1]
			lid, _ := last.(*ast.Ident)
			if callee == "new" && len(x.Lhs) == 1 && lid != nil && len(ce.Args) == 1 {
				t.newType[t.key(lid)] = t.txt(ce.Args[0])
				return c02Seq(parts)
			}
			if lid != nil && t.isLocalErr(lid) {
				v := t.errVar(lid)
				if e := t.eexp(rhs); e != "" && len(x.Lhs) == 1 {
					return c02Seq(append(parts, fmt.Sprintf("(SSet %d %s)", v, e)))
				}
				return c02Seq(append(parts, t.call(ce, fmt.Sprintf("(DVar %d)", v), "")))
			}
			if lid != nil && lid.Name == "_" {
				if _, conv := widths[callee]; !conv {
					return c02Seq(append(parts, t.call(ce, "DDrop", "")))
				}
			}
			if c02Tracked[callee] {
				return c02Seq(append(parts, t.call(ce, "DNone", "")))
			}
			if id, ok := ce.Fun.(*ast.Ident); ok {
				t.callees = append(t.callees, id.Name)
			}
			return c02Seq(parts)
		}
		if len(x.Lhs) == 1 {
			if lid, ok := x.Lhs[0].(*ast.Ident); ok {
				if t.isLocalErr(lid) {
					if e := t.eexp(rhs); e != "" {
						return c02Seq(append(parts, fmt.Sprintf("(SSet %d %s)", t.errVar(lid), e)))
					}
					return c02Seq(append(parts, t.unk("assignment to an error variable: "+t.txt(x))))
				}
				if bl, ok := rhs.(*ast.BasicLit); ok && bl.Kind == token.INT && x.Tok == token.DEFINE {
					v := len(t.intNames)
					t.intVars[t.key(lid)] = v
					t.intNames = append(t.intNames, lid.Name)
					return c02Seq(append(parts, fmt.Sprintf("(SSetI %d %s)", v, t.iexp(rhs))))
				}
				if v, ok := t.intVar(lid); ok {
					if x.Tok == token.ASSIGN {
						if ie := t.iexp(rhs); ie != "" {
							return c02Seq(append(parts, fmt.Sprintf("(SSetI %d %s)", v, ie)))
						}
					}
					return c02Seq(append(parts, t.unk("assignment to an integer variable: "+t.txt(x))))
				}
				if ul, ok := rhs.(*ast.UnaryExpr); ok && ul.Op == token.AND {
					if cl, ok := ul.X.(*ast.CompositeLit); ok && cl.Type != nil {
						t.newType[t.key(lid)] = t.txt(cl.Type)
					}
				}
			}
		}
	}
	for _, l := range x.Lhs {
		if id, ok := l.(*ast.Ident); ok && t.isLocalErr(id) {
			return c02Seq(append(parts, t.unk("assignment to an error variable: "+t.txt(x))))
		}
	}
	return c02Seq(parts)
}

func (t *c02Tr) ret(x *ast.ReturnStmt) string {
	if !t.hasErrRes {
		return "(SReturn ENil)"
	}
	if len(x.Results) == 0 {
		return t.unk("naked return")
	}
	last := x.Results[len(x.Results)-1]
	if e := t.eexp(last); e != "" {
		if e == "ENil" && len(x.Results) >= 2 {
			t.results = append(t.results, t.resultClass(x.Results[0]))
		}
		return "(SReturn " + e + ")"
	}
	if ce, ok := last.(*ast.CallExpr); ok {
		if id, ok := ce.Fun.(*ast.Ident); ok {
			t.callees = append(t.callees, id.Name)
		}
		return fmt.Sprintf("(SReturnCall %d %s)", t.site(t.txt(ce.Fun)), t.args(ce))
	}
	return t.unk("return of " + t.txt(last))
}

// class of the value returned beside a nil error: a slice literal with n elements, a variable, nil
func (t *c02Tr) resultClass(e ast.Expr) string {
	switch x := e.(type) {
	case *ast.CompositeLit:
		if _, ok := x.Type.(*ast.ArrayType); ok {
			return fmt.Sprintf("literal:%d", len(x.Elts))
		}
	case *ast.Ident:
		if x.Name == "nil" {
			return "nil"
		}
		return "var:" + x.Name
	}
	return t.txt(e)
}

func (t *c02Tr) stmt(s ast.Stmt) string {
	switch x := s.(type) {
	case *ast.BlockStmt:
		return t.block(x.List)
	case *ast.EmptyStmt:
		return "SSkip"
	case *ast.DeclStmt:
		if gd, ok := x.Decl.(*ast.GenDecl); ok {
			for _, sp := range gd.Specs {
				if vs, ok := sp.(*ast.ValueSpec); ok {
					for _, n := range vs.Names {
						t.ver[n.Name]++
					}
				}
			}
		}
		return "SSkip"
	case *ast.AssignStmt:
		return t.assign(x)
	case *ast.IncDecStmt:
		if id, ok := x.X.(*ast.Ident); ok {
			if _, isInt := t.intVar(id); isInt {
				return t.unk("increment of " + id.Name)
			}
		}
		t.bump(x.X)
		return "SSkip"
	case *ast.ExprStmt:
		ce, ok := x.X.(*ast.CallExpr)
		if !ok {
			return "SSkip"
		}
		callee := t.txt(ce.Fun)
		if c02Prints[callee] {
			var lits []string
			for _, a := range ce.Args {
				switch y := a.(type) {
				case *ast.BasicLit:
					if y.Kind == token.STRING {
						lits = append(lits, y.Value)
					}
				case *ast.SelectorExpr:
					if tx := t.txt(y); tx == "os.Stderr" || tx == "os.Stdout" {
						lits = append(lits, tx)
					}
				}
			}
			return t.effect(callee + "(" + strings.Join(lits, ", ") + ")")
		}
		if callee == "os.Exit" && len(ce.Args) == 1 {
			if ie := t.iexp(ce.Args[0]); ie != "" {
				return "(SExit " + ie + ")"
			}
			return t.unk("os.Exit of " + t.txt(ce.Args[0]))
		}
		if callee == "panic" {
			return t.unk("panic")
		}
		return t.call(ce, "DDrop", "")
	case *ast.DeferStmt:
		if _, ok := x.Call.Fun.(*ast.FuncLit); ok {
			return t.unk("deferred closure")
		}
		return t.call(x.Call, "DDrop", "defer ")
	case *ast.IfStmt:
		var parts []string
		if x.Init != nil {
			parts = append(parts, t.stmt(x.Init))
		}
		// branches first: an if whose branches keep nothing is dropped together with its condition
		saveAtoms, saveKey := len(t.atoms), len(t.atomKey)
		_ = saveKey
		c := t.cond(x.Cond)
		th := t.block(x.Body.List)
		el := "SSkip"
		switch e := x.Else.(type) {
		case *ast.BlockStmt:
			el = t.block(e.List)
		case *ast.IfStmt:
			el = t.stmt(e)
		}
		if th == "SSkip" && el == "SSkip" {
			// forget atoms introduced only by this condition
			if len(t.atoms) > saveAtoms {
				for k, v := range t.atomKey {
					if v >= saveAtoms {
						delete(t.atomKey, k)
					}
				}
				t.atoms = t.atoms[:saveAtoms]
			}
			return c02Seq(parts)
		}
		return c02Seq(append(parts, "(SIf "+c+" "+th+" "+el+")"))
	case *ast.ForStmt:
		if x.Init != nil {
			t.stmt(x.Init)
		}
		hdr := "for"
		if x.Cond != nil {
			hdr = "for " + t.txt(x.Cond)
		}
		t.loops = append(t.loops, hdr)
		id := len(t.loops) - 1
		body := t.block(x.Body.List)
		if x.Post != nil {
			t.stmt(x.Post)
		}
		return fmt.Sprintf("(SLoop %d %s)", id, body)
	case *ast.RangeStmt:
		if x.Key != nil {
			t.bump(x.Key)
		}
		if x.Value != nil {
			t.bump(x.Value)
		}
		hdr := "for "
		if x.Key != nil {
			hdr += t.txt(x.Key)
		}
		if x.Value != nil {
			hdr += ", " + t.txt(x.Value)
		}
		hdr += " := range " + t.txt(x.X)
		t.loops = append(t.loops, hdr)
		id := len(t.loops) - 1
		body := t.block(x.Body.List)
		return fmt.Sprintf("(SLoop %d %s)", id, body)
	case *ast.BranchStmt:
		if x.Label == nil && x.Tok == token.CONTINUE {
			return "SContinue"
		}
		if x.Label == nil && x.Tok == token.BREAK {
			return "SBreak"
		}
		return t.unk("branch " + t.txt(x))
	case *ast.ReturnStmt:
		return t.ret(x)
	case *ast.SwitchStmt:
		if x.Init != nil {
			return t.unk("switch with init")
		}
		res := "SSkip"
		var clauses []*ast.CaseClause
		var deflt *ast.CaseClause
		for _, c := range x.Body.List {
			cc := c.(*ast.CaseClause)
			for _, b := range cc.Body {
				if br, ok := b.(*ast.BranchStmt); ok && (br.Tok == token.FALLTHROUGH || br.Tok == token.BREAK) {
					return t.unk("switch with " + br.Tok.String())
				}
			}
			if cc.List == nil {
				deflt = cc
			} else {
				clauses = append(clauses, cc)
			}
		}
		// conditions are numbered in source order, bodies translated in source order
		type arm struct{ c, b string }
		var arms []arm
		for _, cc := range clauses {
			var cs []string
			for _, ce := range cc.List {
				if x.Tag != nil {
					cs = append(cs, t.cond(&ast.BinaryExpr{X: x.Tag, Op: token.EQL, Y: ce}))
				} else {
					cs = append(cs, t.cond(ce))
				}
			}
			c := cs[len(cs)-1]
			for i := len(cs) - 2; i >= 0; i-- {
				c = "(COr " + cs[i] + " " + c + ")"
			}
			arms = append(arms, arm{c, t.block(cc.Body)})
		}
		if deflt != nil {
			res = t.block(deflt.Body)
		}
		for i := len(arms) - 1; i >= 0; i-- {
			res = "(SIf " + arms[i].c + " " + arms[i].b + " " + res + ")"
		}
		return res
	}
	return t.unk(fmt.Sprintf("%T", s))
}

type c02Prog struct {
	key     string
	callees []string
	ok      bool
}

// c02Program translates one function into a value of C02.IR.fprog named coqName.
func c02Program(o *out, dir, recv, name, key, coqName string) c02Prog {
	p, fd := findFunc(dir, recv, name)
	if fd == nil || fd.Body == nil {
		o.brokenDef(coqName, "function "+dir+":"+recv+"."+name+" not found")
		return c02Prog{key: key}
	}
	t := &c02Tr{p: p, dir: dir, topLevel: map[string]bool{}, errVars: map[interface{}]int{}, intVars: map[interface{}]int{}, atomKey: map[string]int{},
		ver: map[string]int{}, newType: map[interface{}]string{}, okAssert: map[interface{}][2]int{}}
	for _, f := range p.files {
		for _, d := range f.Decls {
			if gd, ok := d.(*ast.GenDecl); ok && (gd.Tok == token.VAR || gd.Tok == token.CONST) {
				for _, s := range gd.Specs {
					for _, n := range s.(*ast.ValueSpec).Names {
						t.topLevel[n.Name] = true
					}
				}
			}
		}
	}
	if fd.Type.Results != nil && len(fd.Type.Results.List) > 0 {
		lastF := fd.Type.Results.List[len(fd.Type.Results.List)-1]
		if id, ok := lastF.Type.(*ast.Ident); ok && id.Name == "error" {
			t.hasErrRes = true
			if len(lastF.Names) > 0 {
				o.brokenDef(coqName, "named error result in "+name)
				return c02Prog{key: key}
			}
		}
	}
	// error-typed parameters are bound by a pseudo call site
	var pre []string
	for _, f := range fd.Type.Params.List {
		if id, ok := f.Type.(*ast.Ident); ok && id.Name == "error" {
			for _, n := range f.Names {
				pre = append(pre, fmt.Sprintf("(SCall %d (DVar %d) [])", t.site("(parameter "+n.Name+")"), t.errVar(n)))
			}
		}
	}
	body := t.block(fd.Body.List)
	prog := c02Seq(append(pre, body))
	var vn []string
	for i, n := range t.errNames {
		vn = append(vn, fmt.Sprintf("%d=%s", i, n))
	}
	var in []string
	for i, n := range t.intNames {
		in = append(in, fmt.Sprintf("%d=%s", i, n))
	}
	o.f("(* %s:%s.%s ; error variables %s ; integer variables %s *)\n", dir, recv, name, strings.Join(vn, " "), strings.Join(in, " "))
	for i, u := range t.unknown {
		o.f("(*   SUnknown %d: %s *)\n", i, strings.ReplaceAll(u, "*)", "* )"))
	}
	o.f("Definition %s : fprog := mkF %s\n  %s\n  %s\n  %s\n  %s\n  %s\n  %s\n  %s.\n", coqName, c02Str(key), prog, c02StrList(t.calls), c02StrList(t.atoms),
		c02StrList(t.errs), c02StrList(t.effects), c02StrList(t.loops), c02StrList(t.results))
	return c02Prog{key: key, callees: t.callees, ok: true}
}

// ---------------------------------------------------------------- registered signer modules

type c02Reg struct {
	dir, name, magicName, verify, stream string
	magic                                int64
	testPath                             bool
}

func c02Registered() []c02Reg {
	var regs []c02Reg
	ents, err := os.ReadDir(filepath.Join(repo, "signers"))
	if err != nil {
		broken = append(broken, "C02_gen: cannot list signers/")
		return nil
	}
	for _, e := range ents {
		if !e.IsDir() {
			continue
		}
		dir := "signers/" + e.Name()
		p := loadPkg(dir)
		var fnames []string
		for fn := range p.files {
			fnames = append(fnames, fn)
		}
		sort.Strings(fnames)
		for _, fn := range fnames {
			ast.Inspect(p.files[fn], func(n ast.Node) bool {
				cl, ok := n.(*ast.CompositeLit)
				if !ok || cl.Type == nil || printNode(p.fset, cl.Type) != "signers.Signer" {
					return true
				}
				r := c02Reg{dir: e.Name()}
				for _, el := range cl.Elts {
					kv, ok := el.(*ast.KeyValueExpr)
					if !ok {
						continue
					}
					k := printNode(p.fset, kv.Key)
					v := strings.Join(strings.Fields(printNode(p.fset, kv.Value)), " ")
					qual := func(v string) string {
						if strings.Contains(v, ".") {
							return v
						}
						return e.Name() + "." + v
					}
					switch k {
					case "Name":
						r.name, _ = strconv.Unquote(v)
					case "Magic":
						r.magicName = v
						cn := strings.TrimPrefix(v, "magic.")
						if ce, _, si, _ := findConstExpr("lib/magic", cn); ce != nil {
							if cv, err := evalConst("lib/magic", ce, si); err == nil {
								r.magic = cv.i
							} else {
								broken = append(broken, "C02_gen: magic constant "+v+": "+err.Error())
							}
						} else {
							broken = append(broken, "C02_gen: magic constant "+v+" not found")
						}
					case "Verify":
						r.verify = qual(v)
					case "VerifyStream":
						r.stream = qual(v)
					case "TestPath":
						r.testPath = true
					}
				}
				regs = append(regs, r)
				return true
			})
		}
	}
	sort.Slice(regs, func(i, j int) bool { return regs[i].name < regs[j].name })
	return regs
}

func c02CoqIdent(key string) string {
	r := strings.NewReplacer(".", "_", "-", "_", "/", "_")
	return "p_" + r.Replace(key)
}

func init() {
	generators["C02_gen"] = func(o *out) {
		o.f("From Relic Require Import C02.IR.\n\n")
		// ---- option fields and flags
		_, st := findStruct("signers", "VerifyOpts")
		c02OptsFields = nil
		if st == nil {
			o.brokenDef("opts_fields", "struct signers.VerifyOpts not found")
		} else {
			for _, fl := range st.Fields.List {
				for _, n := range fl.Names {
					c02OptsFields = append(c02OptsFields, n.Name)
				}
			}
			o.f("Definition opts_fields : list string := %s. (* signers.VerifyOpts *)\n", c02StrList(c02OptsFields))
		}
		// flags of `relic verify`: VerifyCmd.Flags().BoolVar(&v, "name", default, ...) etc. in init
		c02FlagVars = nil
		{
			p, fd := findFunc("cmdline/verify", "", "init")
			var rows []string
			if fd == nil {
				o.brokenDef("verify_flags", "cmdline/verify init not found")
			} else {
				ast.Inspect(fd.Body, func(n ast.Node) bool {
					ce, ok := n.(*ast.CallExpr)
					if !ok {
						return true
					}
					sel, ok := ce.Fun.(*ast.SelectorExpr)
					if !ok || !strings.HasSuffix(sel.Sel.Name, "Var") || len(ce.Args) < 3 {
						return true
					}
					v := strings.TrimPrefix(printNode(p.fset, ce.Args[0]), "&")
					nm, _ := strconv.Unquote(printNode(p.fset, ce.Args[1]))
					def := strings.Join(strings.Fields(printNode(p.fset, ce.Args[2])), " ")
					rows = append(rows, fmt.Sprintf("(%s, (%s, (%s, %s)))", c02Str(v), c02Str(sel.Sel.Name), c02Str(nm), c02Str(def)))
					if sel.Sel.Name == "BoolVar" {
						c02FlagVars = append(c02FlagVars, v)
					}
					return true
				})
				o.f("Definition verify_flags : list (string * (string * (string * string))) :=\n  [%s]. (* variable, kind, flag name, default — cmdline/verify init *)\n", strings.Join(rows, ";\n   "))
				o.f("Definition flag_vars : list string := %s. (* boolean flag variables, by CFlag number *)\n", c02StrList(c02FlagVars))
			}
		}
		// the option literal of loadCerts
		{
			p, fd := findFunc("cmdline/verify", "", "loadCerts")
			var rows []string
			found := false
			if fd != nil {
				ast.Inspect(fd.Body, func(n ast.Node) bool {
					cl, ok := n.(*ast.CompositeLit)
					if !ok || found || cl.Type == nil || printNode(p.fset, cl.Type) != "signers.VerifyOpts" {
						return true
					}
					found = true
					for _, el := range cl.Elts {
						if kv, ok := el.(*ast.KeyValueExpr); ok {
							rows = append(rows, fmt.Sprintf("(%s, %s)", c02Str(printNode(p.fset, kv.Key)), c02Str(printNode(p.fset, kv.Value))))
						} else {
							rows = append(rows, fmt.Sprintf("(%s, %s)", c02Str("(positional)"), c02Str(printNode(p.fset, el))))
						}
					}
					return true
				})
			}
			if !found {
				o.brokenDef("load_opts_literal", "no signers.VerifyOpts literal in cmdline/verify loadCerts")
			} else {
				o.f("Definition load_opts_literal : list (string * string) := [%s]. (* field := source, cmdline/verify loadCerts *)\n", strings.Join(rows, "; "))
			}
		}
		// ---- dispatch
		o.constInt("lib/magic", "FileTypeUnknown", "file_type_unknown")
		o.constInt("lib/magic", "CompressedNone", "compressed_none")
		o.condOf(funcSpec{dir: "signers", name: "ByMagic", coqName: "by_magic_refuses", params: "(m : Z)", retType: "bool",
			leaves: map[string]string{"m": "m", "magic.FileTypeUnknown": "file_type_unknown"}}, "if:FileTypeUnknown")
		o.condOf(funcSpec{dir: "signers", name: "ByMagic", coqName: "by_magic_match", params: "(s_magic m : Z)", retType: "bool",
			leaves: map[string]string{"m": "m", "s.Magic": "s_magic"}}, "if:s.Magic")
		o.hasStmt("signers", "", "ByMagic", "return s", "by_magic_returns_match")
		o.condOf(funcSpec{dir: "signers", name: "ByFileName", coqName: "by_name_match", params: "(has_testpath matches : bool)", retType: "bool",
			leaves: map[string]string{"s.TestPath != nil": "has_testpath", "s.TestPath(name)": "matches"},
			types: map[string]string{"s.TestPath != nil": "bool", "s.TestPath(name)": "bool"}}, "if:TestPath")
		o.hasStmt("signers", "", "ByFileName", "return s", "by_name_returns_match")
		c02Program(o, "signers", "", "ByMagic", "signers.ByMagic", "p_by_magic")
		c02Program(o, "signers", "", "ByFileName", "signers.ByFileName", "p_by_file_name")
		fingerprint("lib/magic", "", "DetectCompressed")
		fingerprint("lib/magic", "", "Decompress")
		fingerprint("cmdline/shared", "", "OpenFile")
		// ---- the command
		c02Program(o, "cmdline/shared", "", "Main", "shared.Main", "p_main")
		c02Program(o, "cmdline/verify", "", "verifyCmd", "verify.verifyCmd", "p_verify_cmd")
		c02Program(o, "cmdline/verify", "", "verifyOne", "verify.verifyOne", "p_verify_one")
		c02Program(o, "cmdline/verify", "", "loadCerts", "verify.loadCerts", "p_load_certs")
		// ---- registered modules and their verify functions
		regs := c02Registered()
		var rows []string
		for _, r := range regs {
			rows = append(rows, fmt.Sprintf("mkReg %s %s %d %s %s %v (* %s *)", c02Str(r.dir), c02Str(r.name), r.magic, c02Str(r.verify), c02Str(r.stream), r.testPath, r.magicName))
		}
		if len(regs) == 0 {
			o.brokenDef("registered_signers", "no signers.Signer literal found under signers/")
		} else {
			o.f("Definition registered_signers : list reg :=\n  [%s].\n", strings.Join(rows, ";\n   "))
		}
		done := map[string]bool{}
		var keys []string
		var queue []string
		for _, r := range regs {
			for _, k := range []string{r.verify, r.stream} {
				if k != "" && !done[k] {
					done[k] = true
					queue = append(queue, k)
				}
			}
		}
		for len(queue) > 0 {
			k := queue[0]
			queue = queue[1:]
			parts := strings.SplitN(k, ".", 2)
			dir := "signers/" + parts[0]
			pr := c02Program(o, dir, "", parts[1], k, c02CoqIdent(k))
			if !pr.ok {
				continue
			}
			keys = append(keys, k)
			// local helpers that receive the options or are the target of a tail call: functions of the same package whose
			// parameters include signers.VerifyOpts or an error
			for _, c := range pr.callees {
				k2 := parts[0] + "." + c
				if done[k2] {
					continue
				}
				p2, fd2 := findFunc(dir, "", c)
				if fd2 == nil {
					continue
				}
				takes := false
				for _, f := range fd2.Type.Params.List {
					ty := printNode(p2.fset, f.Type)
					if ty == "signers.VerifyOpts" || ty == "error" {
						takes = true
					}
				}
				if takes {
					done[k2] = true
					queue = append(queue, k2)
				}
			}
		}
		var ids []string
		for _, k := range keys {
			ids = append(ids, c02CoqIdent(k))
		}
		o.f("Definition signer_progs : list fprog := [%s].\n", strings.Join(ids, "; "))
		o.f("Definition err_kinds : list string := %s. (* kinds of errors conditions ask for, by number *)\n", c02StrList(c02Kinds))
	}
}
